(* proofs/OpaqueNufft.v — the library-backed leaves NUFFT / NUFFTAdjoint of the operator language satisfy the node
   hypothesis of LinopTheory.adj_correct once their oracle denotation is the function model of C06
   (model/OpaqueNufft.orc_nufft = model/Nufft.nufft / nufft_adjoint with the arguments linop.py passes).

   Content
     (A) re-indexing: inner products over  batch ++ pts  /  batch ++ grid  and over the flattened [B; npts] / B :: grid
     (B) the python WRAPPERS interp.interpolate / interp.gridding (model/Interp.v: batch flattening, coord reshape,
         dispatch on ndim = 1, 2, 3) succeed and are an exact adjoint pair — from the kernel-level theorems of C07
         (proofs/Interp.v, proofs/Interp2D3D.v).  This DISCHARGES the interpolate/gridding oracle hypothesis of
         Prop_C06.C06_nufft_adjoint_exact.
     (C) the numpy.fft hypothesis of C06 from the DFT-sum oracle (C05 / NufftFft.fft_none_pair) for the axes
         range(-ndim, 0), and the scalar hypothesis  wt(M / sqrt N) = M * wt(1 / sqrt N)  from one law of [wt].
     (D) apair for NUFFT (toeplitz False and True: _apply / _adjoint_linop do not read the flag) and NUFFTAdjoint,
         [nodes_nufft] for plugging into adj_correct. *)
From Coq Require Import ZArith List Lia Bool Ring QArith Qcanon Qround Qabs PrimFloat.
From SV Require Import lib.Scalar lib.BigSum lib.LoopIR lib.NdArray lib.Gather lib.Coord gen.Gen_interp
  model.Rearrange model.Block model.Interp model.Fourier model.Nufft model.Linop model.OpaqueNufft
  proofs.Rearrange proofs.Fourier1D proofs.FourierND proofs.FourierModel proofs.Interp proofs.Interp2D3D
  proofs.Nufft proofs.NufftFft proofs.ConvTools proofs.LinopTheory proofs.FourierExample.
Import ListNotations.
Local Open Scope Z_scope.

(* ================================================================ list / shape facts *)
Lemma firstn_len_app {A} (p q : list A) n : n = length p -> firstn n (p ++ q) = p.
Proof. intros ->. rewrite firstn_app, firstn_all, Nat.sub_diag. simpl. apply app_nil_r. Qed.

Lemma skipn_len_app {A} (p q : list A) n : n = length p -> skipn n (p ++ q) = q.
Proof. intros ->. rewrite skipn_app, skipn_all, Nat.sub_diag. reflexivity. Qed.

Lemma lastn_len_app {A} (l r : list A) n : n = length r -> lastn n (l ++ r) = r.
Proof. intros ->. apply lastn_app. Qed.

Lemma droplast_len_app {A} (l r : list A) n : n = length r -> droplast n (l ++ r) = l.
Proof. intros ->. apply droplast_app. Qed.

Lemma split_lastn {A} (l : list A) n : (n <= length l)%nat ->
  l = droplast n l ++ lastn n l /\ length (lastn n l) = n.
Proof.
  intros H. unfold droplast, lastn. split; [symmetry; apply firstn_skipn|]. rewrite skipn_length. lia.
Qed.

Lemma split_last1 (l : list Z) : (1 <= length l)%nat -> l = droplast 1 l ++ [last l 0].
Proof.
  intros H. destruct (exists_last (l := l)) as (l' & a & ->); [destruct l; simpl in *; [lia|discriminate]|].
  rewrite (droplast_len_app l' [a] 1 eq_refl), last_last. reflexivity.
Qed.

Lemma pyget_last (l : list Z) : pyget l (-1) = last l 0.
Proof.
  unfold pyget, getZ. change (-1 <? 0) with true. cbv iota.
  destruct l as [|a0 l0]; [reflexivity|].
  destruct (exists_last (l := a0 :: l0)) as (l' & a & E); [discriminate|]. rewrite E.
  rewrite app_length, last_last. cbn [length].
  replace (Z.to_nat (Z.of_nat (length l' + 1) + -1)) with (length l') by lia.
  rewrite app_nth2 by lia. rewrite Nat.sub_diag. reflexivity.
Qed.

(* ================================================================ (A) re-indexing of inner products *)
Section Reidx.
  Variable R : StarRing.
  Add Ring RringON1 : (SRth R).
  Local Open Scope sr_scope.
  Notation farr := (list Z -> R).

  Lemma sumZ_as_sumB s (h : Z -> R) : Forall (fun n => (0 < n)%Z) s ->
    sumZ (prodZ s) h = sumB s (fun i => h (ravel s i)).
  Proof.
    intros Hs. rewrite <- (sum_unravel R s (fun i => h (ravel s i)) Hs). apply sumZ_ext. intros k Hk.
    destruct (ravel_unravel s k Hs Hk) as [E _]. rewrite E. reflexivity.
  Qed.

  (* output of interpolate / input of gridding: batch ++ pts  versus  [B; npts] *)
  Lemma inner_flat2 batch pts (K y : farr) :
    Forall (fun n => (0 < n)%Z) batch -> Forall (fun n => (0 < n)%Z) pts ->
    inner (batch ++ pts)
          (fun idx => K [ravel batch (firstn (length batch) idx); ravel pts (skipn (length batch) idx)]) y =
    inner [prodZ batch; prodZ pts] K
          (fun idx => match idx with [b; p] => y (unravel batch b ++ unravel pts p) | _ => 0 end).
  Proof.
    intros Hb Hp. unfold inner. rewrite sumB_app. cbn [sumB].
    rewrite (sumZ_as_sumB batch _ Hb). apply sumB_ext. intros bi Hbi.
    rewrite (sumZ_as_sumB pts _ Hp). apply sumB_ext. intros pi Hpi.
    pose proof (inbox_length _ _ Hbi) as Lb.
    rewrite (firstn_len_app bi pi) by (symmetry; exact Lb).
    rewrite (skipn_len_app bi pi) by (symmetry; exact Lb).
    rewrite (unravel_ravel batch bi Hbi), (unravel_ravel pts pi Hpi). reflexivity.
  Qed.

  (* input of interpolate / output of gridding: batch ++ grid  versus  B :: grid *)
  Lemma inner_flat_batch batch grid (x Kout : farr) :
    Forall (fun n => (0 < n)%Z) batch ->
    inner (batch ++ grid) x (unflatten_batch R batch (length batch) Kout) =
    inner (prodZ batch :: grid) (flatten_batch R batch x) Kout.
  Proof.
    intros Hb. unfold inner. rewrite sumB_app. cbn [sumB].
    rewrite (sumZ_as_sumB batch _ Hb). apply sumB_ext. intros bi Hbi.
    apply sumB_ext. intros gi _.
    pose proof (inbox_length _ _ Hbi) as Lb.
    unfold unflatten_batch, flatten_batch.
    rewrite (firstn_len_app bi gi) by (symmetry; exact Lb).
    rewrite (skipn_len_app bi gi) by (symmetry; exact Lb).
    rewrite (unravel_ravel batch bi Hbi). reflexivity.
  Qed.
End Reidx.

(* ================================================================ (B) the wrappers interpolate / gridding *)
Section Wrap.
  Variable R : StarRing.
  Add Ring RringON2 : (SRth R).
  Local Open Scope sr_scope.
  Notation farr := (list Z -> R).
  Variable C : COps.
  Variable kern : C -> C -> C.
  Variable wt : C -> R.
  Hypothesis wt_real : forall c, conj (wt c) = wt c.

  (* the 1-D analogue of Interp2D3D.k_interp2_gridding2_adjoint: the GENERATED kernels run from a zero buffer *)
  Theorem k_interp1_gridding1_adjoint (coord width param : list Z -> C) (cs ps ws gsh psh : list Z) batch nx npts
          (x y : farr) :
    shape_at cs 0 = npts -> shape_at gsh 0 = batch -> shape_at gsh 1 = nx -> (0 < nx)%Z ->
    inner [batch; npts] (exec (k_interpolate1 R C kern wt x coord width param cs gsh psh ps ws) [] (fun _ => 0)) y =
    inner [batch; nx] x (exec (k_gridding1 R C kern wt y coord width param cs psh gsh ps ws) [] (fun _ => 0)).
  Proof.
    intros Hnp Hb Hx Hnx.
    transitivity (inner [batch; npts] (interp_op R C kern wt coord width param cs ps ws nx x) y).
    { unfold inner. apply sumB_ext. intros [|b [|i [|? ?]]] Hin; simpl in Hin; try tauto.
      rewrite interp1_exec by (rewrite ?Hb, ?Hnp; tauto). rewrite Hx. cbn [interp_op]. f_equal. ring. }
    rewrite (interp_gridding_adjoint R C kern wt wt_real coord width param cs ps ws batch nx npts Hnx).
    unfold inner. apply sumB_ext. intros [|b [|m [|? ?]]] Hin; simpl in Hin; try tauto.
    rewrite gridding1_exec by (rewrite ?Hb; tauto). rewrite Hnp, Hx. cbn [grid_op]. f_equal. f_equal. ring.
  Qed.

  (* ---- ndim = 1 ---- *)
  Lemma wrap_pair_1 batch nx pts (coord : list Z -> C) (width param : wp C) :
    Forall (fun n => (0 < n)%Z) batch -> (0 < nx)%Z -> Forall (fun n => (0 < n)%Z) pts ->
    exists I G : farr -> farr,
      (forall x, interpolate R C kern wt (batch ++ [nx]) (pts ++ [1%Z]) coord width param x = Ok (batch ++ pts, I x)) /\
      (forall y, gridding R C kern wt (batch ++ pts) (pts ++ [1%Z]) (batch ++ [nx]) coord width param y = Ok (G y)) /\
      (forall x y, inner (batch ++ pts) (I x) y = inner (batch ++ [nx]) x (G y)).
  Proof.
    intros Hb Hnx Hp. unfold interpolate, gridding. rewrite last_last. change (Z.to_nat 1) with 1%nat. cbv zeta.
    rewrite !(droplast_len_app batch [nx] 1 eq_refl), !(lastn_len_app batch [nx] 1 eq_refl),
            !(droplast_len_app pts [1%Z] 1 eq_refl).
    eexists. eexists. split; [intros x; reflexivity| split; [intros y; reflexivity|]].
    intros x y. cbv beta.
    rewrite (inner_flat2 R batch pts _ y Hb Hp).
    rewrite (k_interp1_gridding1_adjoint _ _ _ _ _ _ _ _ (prodZ batch) nx (prodZ pts)) by (try reflexivity; exact Hnx).
    symmetry. apply (inner_flat_batch R batch [nx] x _ Hb).
  Qed.

  (* ---- ndim = 2 ---- *)
  Lemma wrap_pair_2 batch ny nx pts (coord : list Z -> C) (width param : wp C) :
    Forall (fun n => (0 < n)%Z) batch -> (0 < ny)%Z -> (0 < nx)%Z -> Forall (fun n => (0 < n)%Z) pts ->
    exists I G : farr -> farr,
      (forall x, interpolate R C kern wt (batch ++ [ny; nx]) (pts ++ [2%Z]) coord width param x = Ok (batch ++ pts, I x)) /\
      (forall y, gridding R C kern wt (batch ++ pts) (pts ++ [2%Z]) (batch ++ [ny; nx]) coord width param y = Ok (G y)) /\
      (forall x y, inner (batch ++ pts) (I x) y = inner (batch ++ [ny; nx]) x (G y)).
  Proof.
    intros Hb Hny Hnx Hp. unfold interpolate, gridding. rewrite last_last. change (Z.to_nat 2) with 2%nat. cbv zeta.
    rewrite !(droplast_len_app batch [ny; nx] 2 eq_refl), !(lastn_len_app batch [ny; nx] 2 eq_refl),
            !(droplast_len_app pts [2%Z] 1 eq_refl).
    eexists. eexists. split; [intros x; reflexivity| split; [intros y; reflexivity|]].
    intros x y. cbv beta.
    rewrite (inner_flat2 R batch pts _ y Hb Hp).
    rewrite (k_interp2_gridding2_adjoint R C kern wt wt_real _ _ _ _ _ _ _ _ (prodZ batch) ny nx (prodZ pts))
      by (try reflexivity; assumption).
    symmetry. apply (inner_flat_batch R batch [ny; nx] x _ Hb).
  Qed.

  (* ---- ndim = 3 ---- *)
  Lemma wrap_pair_3 batch nz ny nx pts (coord : list Z -> C) (width param : wp C) :
    Forall (fun n => (0 < n)%Z) batch -> (0 < nz)%Z -> (0 < ny)%Z -> (0 < nx)%Z -> Forall (fun n => (0 < n)%Z) pts ->
    exists I G : farr -> farr,
      (forall x, interpolate R C kern wt (batch ++ [nz; ny; nx]) (pts ++ [3%Z]) coord width param x = Ok (batch ++ pts, I x)) /\
      (forall y, gridding R C kern wt (batch ++ pts) (pts ++ [3%Z]) (batch ++ [nz; ny; nx]) coord width param y = Ok (G y)) /\
      (forall x y, inner (batch ++ pts) (I x) y = inner (batch ++ [nz; ny; nx]) x (G y)).
  Proof.
    intros Hb Hnz Hny Hnx Hp. unfold interpolate, gridding. rewrite last_last. change (Z.to_nat 3) with 3%nat. cbv zeta.
    rewrite !(droplast_len_app batch [nz; ny; nx] 3 eq_refl), !(lastn_len_app batch [nz; ny; nx] 3 eq_refl),
            !(droplast_len_app pts [3%Z] 1 eq_refl).
    eexists. eexists. split; [intros x; reflexivity| split; [intros y; reflexivity|]].
    intros x y. cbv beta.
    rewrite (inner_flat2 R batch pts _ y Hb Hp).
    rewrite (k_interp3_gridding3_adjoint R C kern wt wt_real _ _ _ _ _ _ _ _ (prodZ batch) nz ny nx (prodZ pts))
      by (try reflexivity; assumption).
    symmetry. apply (inner_flat_batch R batch [nz; ny; nx] x _ Hb).
  Qed.

  (* ---- every supported ndim, shapes given as python gives them (grid = the last ndim axes) ---- *)
  Theorem interp_wrappers_adjoint gshape cshape (coord : list Z -> C) (width param : wp C) :
    let ndim := Z.to_nat (last cshape 0%Z) in
    let ksh := droplast ndim gshape ++ droplast 1 cshape in
    (1 <= length cshape)%nat -> (1 <= ndim <= 3)%nat -> (ndim <= length gshape)%nat ->
    Forall (fun n => (0 < n)%Z) gshape -> Forall (fun n => (0 < n)%Z) (droplast 1 cshape) ->
    exists I G : farr -> farr,
      (forall x, interpolate R C kern wt gshape cshape coord width param x = Ok (ksh, I x)) /\
      (forall y, gridding R C kern wt ksh cshape gshape coord width param y = Ok (G y)) /\
      (forall x y, inner ksh (I x) y = inner gshape x (G y)).
  Proof.
    intros ndim ksh Hc Hnd Hlen Hg Hp.
    destruct (split_lastn gshape ndim Hlen) as [Eg Lg].
    pose proof (split_last1 cshape Hc) as Ec.
    assert (El : last cshape 0%Z = Z.of_nat ndim) by (unfold ndim; destruct (last cshape 0%Z); simpl in *; lia).
    unfold ksh. clearbody ndim.
    set (batch := droplast ndim gshape) in *. set (grid := lastn ndim gshape) in *. set (pts := droplast 1 cshape) in *.
    rewrite El in Ec. clearbody batch grid pts. subst gshape cshape.
    apply Forall_app in Hg. destruct Hg as [Hb Hgr].
    destruct Hnd as [H1 H3].
    destruct ndim as [|[|[|[|n]]]]; try lia.
    - destruct grid as [|nx [|? ?]]; try discriminate Lg.
      inversion Hgr; subst. apply wrap_pair_1; assumption.
    - destruct grid as [|ny [|nx [|? ?]]]; try discriminate Lg.
      inversion Hgr as [|? ? ? Hr]; subst. inversion Hr; subst. apply wrap_pair_2; assumption.
    - destruct grid as [|nz [|ny [|nx [|? ?]]]]; try discriminate Lg.
      inversion Hgr as [|? ? ? Hr]; subst. inversion Hr as [|? ? ? Hr2]; subst. inversion Hr2; subst.
      apply wrap_pair_3; assumption.
  Qed.
End Wrap.

(* ================================================================ (C) numpy.fft over axes range(-ndim, 0); scalars *)
Section FftAxes.
  Variable R : StarRing.
  Add Ring RringON3 : (SRth R).
  Local Open Scope sr_scope.
  Notation farr := (list Z -> R).

  Lemma nR_1 : nR 1 = (1 : R).
  Proof. unfold nR. apply sumZ_one. Qed.

  Lemma nR_mul a b : (0 <= a)%Z -> (0 <= b)%Z -> (nR (a * b) : R) = nR a * nR b.
  Proof.
    intros Ha Hb. unfold nR. rewrite (sumZ_mul R a b _ Ha Hb).
    rewrite (sumZ_ext R a _ (fun _ => sumZ b (fun _ => 1) * 1)) by (intros; ring).
    rewrite sumZ_scale. ring.
  Qed.

  Lemma neg_mod k len : (1 <= k <= len)%Z -> ((- k) mod len = len - k)%Z.
  Proof. intros H. symmetry. apply (Z.mod_unique _ _ (-1)); [left; lia| ring]. Qed.

  Lemma nthd_app_r (b g : list Z) j : nthd (b ++ g) (length b + j) = nth j g 0%Z.
  Proof. unfold nthd. rewrite app_nth2 by lia. f_equal. lia. Qed.

  (* the axes numpy receives, normalised as util._normalize_axes does, are the last ndim positions; they are distinct,
     in range, and the product of their lengths (as ring elements) is nR (prod grid) *)
  Lemma fft_axes_facts (batch g : list Z) :
    let nd := length g in let s := batch ++ g in
    let ax := normalize_axes_sorted (fft_axes nd) (Z.of_nat (length s)) in
    (1 <= nd <= 3)%nat -> Forall (fun n => (0 < n)%Z) g ->
    NoDup ax /\ Forall (fun a => (a < length s)%nat) ax /\ cprod R s ax = nR (prodZ g).
  Proof.
    intros nd s ax Hnd Hg. unfold ax, s, nd in *. clear ax s nd.
    unfold fft_axes, normalize_axes_sorted. rewrite app_length.
    destruct g as [|n1 [|n2 [|n3 [|? ?]]]]; cbn [length] in *; try lia.
    - change (sortZ (zrange (- Z.of_nat 1) 0 1)) with [(-1)%Z]. cbn [map].
      rewrite (neg_mod 1) by lia.
      replace (Z.to_nat (Z.of_nat (length batch + 1) - 1)) with (length batch + 0)%nat by lia.
      split; [repeat constructor; simpl; tauto|]. split; [repeat constructor; lia|].
      cbn [cprod]. rewrite nthd_app_r. cbn [nth prodZ]. rewrite Z.mul_1_r. ring.
    - change (sortZ (zrange (- Z.of_nat 2) 0 1)) with [(-2)%Z; (-1)%Z]. cbn [map].
      rewrite (neg_mod 1), (neg_mod 2) by lia.
      replace (Z.to_nat (Z.of_nat (length batch + 2) - 1)) with (length batch + 1)%nat by lia.
      replace (Z.to_nat (Z.of_nat (length batch + 2) - 2)) with (length batch + 0)%nat by lia.
      inversion Hg as [|? ? P1 Hg2]; subst. inversion Hg2 as [|? ? P2 _]; subst.
      split; [repeat constructor; simpl; intuition lia|]. split; [repeat constructor; lia|].
      cbn [cprod]. rewrite !nthd_app_r. cbn [nth prodZ]. rewrite Z.mul_1_r, nR_mul by lia. ring.
    - change (sortZ (zrange (- Z.of_nat 3) 0 1)) with [(-3)%Z; (-2)%Z; (-1)%Z]. cbn [map].
      rewrite (neg_mod 1), (neg_mod 2), (neg_mod 3) by lia.
      replace (Z.to_nat (Z.of_nat (length batch + 3) - 1)) with (length batch + 2)%nat by lia.
      replace (Z.to_nat (Z.of_nat (length batch + 3) - 2)) with (length batch + 1)%nat by lia.
      replace (Z.to_nat (Z.of_nat (length batch + 3) - 3)) with (length batch + 0)%nat by lia.
      inversion Hg as [|? ? P1 Hg2]; subst. inversion Hg2 as [|? ? P2 Hg3]; subst. inversion Hg3 as [|? ? P3 _]; subst.
      split; [repeat constructor; simpl; intuition lia|]. split; [repeat constructor; lia|].
      cbn [cprod]. rewrite !nthd_app_r. cbn [nth prodZ]. rewrite Z.mul_1_r.
      rewrite (nR_mul n1 (n2 * n3)) by nia. rewrite nR_mul by lia. ring.
  Qed.
End FftAxes.

(* ================================================================ (D) the function pair and the leaves *)
Lemma on_all_pos_Forall s : all_pos s = true -> Forall (fun n => 0 < n) s.
Proof.
  unfold all_pos. rewrite forallb_forall. intros H. apply Forall_forall. intros n Hn. apply Z.ltb_lt. apply H. exact Hn.
Qed.

Lemma on_finish_inv o i r : finish o i = Ok r ->
  r = (o, i) /\ Forall (fun n => 0 < n) o /\ Forall (fun n => 0 < n) i.
Proof.
  unfold finish. destruct (all_pos o && all_pos i) eqn:E; [|discriminate]. intros H. inversion H; subst.
  apply andb_true_iff in E. destruct E as [E1 E2]. split; [reflexivity|]. split; apply on_all_pos_Forall; assumption.
Qed.

Lemma Forall_pos_nonneg s : Forall (fun n => 0 < n) s -> Forall (fun n => 0 <= n) s.
Proof. apply Forall_impl. intros; lia. Qed.

Lemma prodZ_nonneg s : Forall (fun n => 0 < n) s -> 0 <= prodZ s.
Proof. intros H. pose proof (prodZ_pos s H). lia. Qed.

Lemma shapes_nufft i c os wd tz : shapes (NUFFT i c os wd tz) = finish (nufft_kshape i (ashape_of c)) i.
Proof. cbn [shapes]. rewrite pyget_last. reflexivity. Qed.

Lemma shapes_nufft_adjoint o c os wd : shapes (NUFFTAdjoint o c os wd) = finish o (nufft_kshape o (ashape_of c)).
Proof. cbn [shapes]. rewrite pyget_last. reflexivity. Qed.

Section Leaf.
  Variable R : StarRing.
  Add Ring RringON4 : (SRth R).
  Local Open Scope sr_scope.
  Notation farr := (list Z -> R).
  Variable C : COps.
  Variable kern : C -> C -> C.
  Variable wt : C -> R.
  Variable csqrt : C -> C.
  Variable cpi : C.
  Variable csinh : C -> C.
  Variable w isc inv : Z -> R.
  Notation tw := (twf R w).

  (* oracle facts, in the form the C05 / C06 / C07 theorems assume them *)
  Hypothesis wt_real : forall c, conj (wt c) = wt c.                                   (* weights and scalings are real *)
  Hypothesis Hroot : forall n, (0 < n)%Z -> root_ok R n (w n).                           (* numpy.fft: w_n primitive n-th root of unity *)
  Hypothesis Hinv : forall n, (0 < n)%Z -> inv n * nR n = 1.                             (* ... and inv n = 1/n *)
  (* the real scalar M / c enters the ring as M times 1 / c  (C06 assumes the instance M = prod(os_shape[-ndim:]),
     c = sqrt(prod(shape[-ndim:]))) *)
  Hypothesis wt_div : forall (m : Z) (c : C), (0 <= m)%Z -> wt (cdiv (cofZ m) c) = nR m * wt (cdiv (cofZ 1) c).

  (* fourier.nufft(x, coord, oversamp, width)  and  fourier.nufft_adjoint(y, coord, ishape, oversamp, width)
     succeed with the shapes the Linop classes advertise and are EXACT adjoints *)
  Theorem nufft_function_pair ishape cshape (coord : list Z -> C) (oversamp width : C) :
    nufft_okb C ishape cshape oversamp = true ->
    Forall (fun n => (0 < n)%Z) ishape -> Forall (fun n => (0 < n)%Z) (nufft_pts cshape) ->
    let ksh := nufft_kshape ishape cshape in
    exists A AH : farr -> farr,
      (forall x, nufft R C kern wt csqrt cpi csinh tw isc inv ishape cshape coord oversamp width x = Ok (ksh, A x)) /\
      (forall y, nufft_adjoint R C kern wt csqrt cpi csinh tw isc inv ksh cshape ishape coord oversamp width y = Ok (ishape, AH y)) /\
      (forall x y, inner ksh (A x) y = inner ishape x (AH y)).
  Proof.
    intros Hok Hi Hp. unfold nufft_okb in Hok. cbv zeta in Hok.
    apply andb_true_iff in Hok. destruct Hok as [Hok Hos].
    apply andb_true_iff in Hok. destruct Hok as [Hok Hlen].
    apply andb_true_iff in Hok. destruct Hok as [Hok H3].
    apply andb_true_iff in Hok. destruct Hok as [Hc H1].
    apply Nat.leb_le in Hc, H1, H3, Hlen. apply on_all_pos_Forall in Hos.
    unfold nufft_kshape, nufft_pts, nufft_ndim in *.
    set (ndim := Z.to_nat (last cshape 0%Z)) in *.
    set (os_shape := oversamp_shape C ishape ndim oversamp) in *.
    set (beta := beta_of C csqrt cpi width oversamp).
    set (coord2 := scale_coord C cshape ishape oversamp coord).
    destruct (split_lastn ishape ndim Hlen) as [Ei Lg].
    set (g := map (os_len C oversamp) (lastn ndim ishape)).
    assert (Lg' : length g = ndim) by (unfold g; rewrite map_length; exact Lg).
    assert (Eos : os_shape = droplast ndim ishape ++ g) by reflexivity.
    assert (Ed : droplast ndim os_shape = droplast ndim ishape).
    { rewrite Eos. apply droplast_len_app. symmetry. exact Lg'. }
    assert (El : lastn ndim os_shape = g).
    { rewrite Eos. apply lastn_len_app. symmetry. exact Lg'. }
    assert (Hg : Forall (fun n => (0 < n)%Z) g).
    { rewrite Eos in Hos. apply Forall_app in Hos. tauto. }
    (* interpolate / gridding wrappers *)
    destruct (interp_wrappers_adjoint R C kern wt wt_real os_shape cshape coord2 (WScalar C width) (WScalar C beta))
      as (I & G & HI & HG & HIG); try assumption.
    { fold ndim. lia. }
    { fold ndim. unfold os_shape. rewrite oversamp_shape_length. exact Hlen. }
    fold ndim in HI, HG, HIG. rewrite Ed in HI, HG, HIG.
    (* numpy.fft over axes range(-ndim, 0) *)
    pose proof (fft_axes_facts R (droplast ndim ishape) g) as F. cbv zeta in F.
    rewrite Lg', <- Eos in F. destruct (F ltac:(lia) Hg) as (ND & LT & EP). clear F.
    set (ax := normalize_axes_sorted (fft_axes ndim) (Z.of_nat (length os_shape))) in *.
    assert (HF : forall x y,
      inner os_shape (snd (fftc tw isc inv false false os_shape None (fft_axes ndim) x)) y =
      cprod R os_shape ax * inner os_shape x (snd (fftc tw isc inv true false os_shape None (fft_axes ndim) y))).
    { intros x y. exact (fft_none_pair R w isc inv Hroot Hinv os_shape (fft_axes ndim) x y Hos ND LT). }
    assert (HcM : wt (cdiv (cofZ (prodZ (lastn ndim os_shape))) (csqrt (cofZ (prodZ (lastn ndim ishape))))) =
                  cprod R os_shape ax * wt (cdiv (cofZ 1) (csqrt (cofZ (prodZ (lastn ndim ishape)))))).
    { rewrite El, EP. apply wt_div. apply prodZ_nonneg. exact Hg. }
    exists (Nufft.A R C wt csqrt cpi csinh tw isc inv ishape cshape oversamp width I),
           (Nufft.AH R C wt csqrt cpi csinh tw isc inv ishape cshape oversamp width G).
    split; [|split].
    - intros x. exact (nufft_eval R C kern wt csqrt cpi csinh tw isc inv ishape cshape coord oversamp width _ I HI x).
    - intros y. exact (nufft_adjoint_eval R C kern wt csqrt cpi csinh tw isc inv ishape cshape coord oversamp width _ G HG y).
    - intros x y.
      exact (nufft_adjoint_exact R C wt csqrt cpi csinh tw isc inv wt_real ishape cshape oversamp width
               (Forall_pos_nonneg _ Hi) (Forall_pos_nonneg _ Hos) _ I G HIG (cprod R os_shape ax) HF HcM x y).
  Qed.

  (* ---------------------------------------------------------------- the operator leaves *)
  Variable arr : Z -> farr.
  Variable scal : Z -> R.
  Variable orc : linop -> farr -> farr.
  Variable carr : Z -> list Z -> C.
  Variable osv wdv : Z -> C.
  Notation D := (D R arr scal orc).
  Notation apair := (apair R arr scal orc).
  Notation ORC := (orc_nufft R C kern wt csqrt cpi csinh tw isc inv carr osv wdv).

  Lemma wf_nufft_facts i c os wd tz : wf (NUFFT i c os wd tz) = true ->
    oshape_of (NUFFT i c os wd tz) = nufft_kshape i (ashape_of c) /\ ishape_of (NUFFT i c os wd tz) = i /\
    Forall (fun n => (0 < n)%Z) i /\ Forall (fun n => (0 < n)%Z) (nufft_pts (ashape_of c)).
  Proof.
    unfold wf, oshape_of, ishape_of. rewrite shapes_nufft.
    destruct (finish (nufft_kshape i (ashape_of c)) i) as [r|] eqn:F; [|discriminate]. intros _.
    destruct (on_finish_inv _ _ _ F) as (-> & Ho & Hi). repeat split; try assumption.
    unfold nufft_kshape in Ho. apply Forall_app in Ho. tauto.
  Qed.

  Lemma wf_nufft_adjoint_facts o c os wd : wf (NUFFTAdjoint o c os wd) = true ->
    oshape_of (NUFFTAdjoint o c os wd) = o /\ ishape_of (NUFFTAdjoint o c os wd) = nufft_kshape o (ashape_of c) /\
    Forall (fun n => (0 < n)%Z) o /\ Forall (fun n => (0 < n)%Z) (nufft_pts (ashape_of c)).
  Proof.
    unfold wf, oshape_of, ishape_of. rewrite shapes_nufft_adjoint.
    destruct (finish o (nufft_kshape o (ashape_of c))) as [r|] eqn:F; [|discriminate]. intros _.
    destruct (on_finish_inv _ _ _ F) as (-> & Ho & Hi). repeat split; try assumption.
    unfold nufft_kshape in Hi. apply Forall_app in Hi. tauto.
  Qed.

  (* NUFFT(ishape, coord, oversamp, width, toeplitz).H is its exact adjoint — toeplitz False AND True: neither _apply nor
     _adjoint_linop reads the flag *)
  Theorem apair_nufft i c os wd tz :
    wf (NUFFT i c os wd tz) = true -> nufft_okb C i (ashape_of c) (osv os) = true ->
    (forall x, orc (NUFFT i c os wd tz) x = ORC (NUFFT i c os wd tz) x) ->
    (forall y, orc (adj (NUFFT i c os wd tz)) y = ORC (adj (NUFFT i c os wd tz)) y) ->
    apair (NUFFT i c os wd tz).
  Proof.
    intros Hwf Hok HA HH.
    destruct (wf_nufft_facts _ _ _ _ _ Hwf) as (Eo & Ei & Hi & Hp).
    destruct (nufft_function_pair i (ashape_of c) (carr (atag c)) (osv os) (wdv wd) Hok Hi Hp) as (A & AH & EA & EH & Hadj).
    unfold LinopTheory.apair, adjoint_pair. rewrite Eo, Ei. intros x y.
    change (adj (NUFFT i c os wd tz)) with (NUFFTAdjoint i c os wd) in *.
    unfold LinopTheory.D. cbn [den]. rewrite HA, HH. cbn [orc_nufft]. unfold den_nufft, den_nufft_adjoint.
    rewrite EA, EH. cbn [out_of]. apply Hadj.
  Qed.

  (* NUFFTAdjoint(oshape, coord, oversamp, width).H = NUFFT(oshape, coord, oversamp, width) is its exact adjoint *)
  Theorem apair_nufft_adjoint o c os wd :
    wf (NUFFTAdjoint o c os wd) = true -> nufft_okb C o (ashape_of c) (osv os) = true ->
    (forall y, orc (NUFFTAdjoint o c os wd) y = ORC (NUFFTAdjoint o c os wd) y) ->
    (forall x, orc (adj (NUFFTAdjoint o c os wd)) x = ORC (adj (NUFFTAdjoint o c os wd)) x) ->
    apair (NUFFTAdjoint o c os wd).
  Proof.
    intros Hwf Hok HH HA.
    destruct (wf_nufft_adjoint_facts _ _ _ _ Hwf) as (Eo & Ei & Ho & Hp).
    destruct (nufft_function_pair o (ashape_of c) (carr (atag c)) (osv os) (wdv wd) Hok Ho Hp) as (A & AH & EA & EH & Hadj).
    unfold LinopTheory.apair. rewrite Eo, Ei.
    change (adj (NUFFTAdjoint o c os wd)) with (NUFFT o c os wd false) in *.
    apply adjoint_pair_sym. intros x y.
    unfold LinopTheory.D. cbn [den]. rewrite HA, HH. cbn [orc_nufft]. unfold den_nufft, den_nufft_adjoint.
    rewrite EA, EH. cbn [out_of]. apply Hadj.
  Qed.

  (* the advertised shapes of .H are the swapped ones, for every parameter (no validity needed) *)
  Lemma adj_shapes_nufft L o i : is_nufft L = true -> shapes L = Ok (o, i) -> shapes (adj L) = Ok (i, o).
  Proof.
    intros HL. destruct L; try discriminate HL; cbn [adj]; rewrite ?shapes_nufft, ?shapes_nufft_adjoint;
      unfold finish; rewrite (andb_comm (all_pos _) (all_pos _));
      match goal with |- context [if ?b then _ else _] => destruct b end; intros E; inversion E; reflexivity.
  Qed.

  (* _normal_linop: the model's [normal] of both classes is the default composition A.H * A; python agrees for
     toeplitz = False.  For toeplitz = True python returns R.H * F.H * P * F * R with the point-spread function
     P = toeplitz_psf(coord, ...), which only APPROXIMATES A.H * A (Kaiser-Bessel gridding error, ~1e-2 relative at
     the defaults): no exact identity exists, it stays a numeric check (props/C06.py `toeplitz`, props/C04.py). *)
  Lemma normal_nufft_default L : is_nufft L = true -> normal L = mkCompose [adj L; L].
  Proof. intros HL. destruct L; try discriminate HL; reflexivity. Qed.

  (* ---- the node lemma for LinopTheory.adj_correct ---- *)
  Hypothesis Horc : forall L x, is_nufft L = true -> orc L x = ORC L x.

  Theorem nodes_nufft L : proven_node_nufft C osv L = true -> wf L = true -> apair L.
  Proof.
    intros Hp Hwf. destruct L; try discriminate Hp; cbn [proven_node_nufft] in Hp.
    - apply apair_nufft; try assumption; intros; apply Horc; reflexivity.
    - apply apair_nufft_adjoint; try assumption; intros; apply Horc; reflexivity.
  Qed.

  Lemma proven_node_nufft_adj L : proven_node_nufft C osv L = true -> proven_node_nufft C osv (adj L) = true.
  Proof. intros Hp. destruct L; try discriminate Hp; exact Hp. Qed.

  (* every Conj / + / composition tree whose other nodes satisfy Q: NUFFT leaves need only the boolean check *)
  Theorem adj_correct_with_nufft A :
    wf A = true ->
    nodes_ok (fun L => (proven_node_nufft C osv L = true /\ wf L = true) \/ apair L) A ->
    apair A.
  Proof.
    intros Hwf Hn. apply adj_correct; [exact Hwf|].
    revert Hn. generalize A. clear A Hwf.
    refine (linop_rect2 _ _ _ _ _ _ _ _); intros.
    - destruct A; try contradiction; cbn [nodes_ok] in *;
        (destruct Hn as [[Hp Hw]|Hn]; [apply nodes_nufft; assumption| exact Hn]).
    - cbn [nodes_ok] in *. auto.
    - cbn [nodes_ok] in *. apply nodes_ok_list. apply nodes_ok_list in Hn.
      rewrite Forall_forall in *. intros a Ha. apply H; [exact Ha| apply Hn; exact Ha].
    - cbn [nodes_ok] in *. apply nodes_ok_list. apply nodes_ok_list in Hn.
      rewrite Forall_forall in *. intros a Ha. apply H; [exact Ha| apply Hn; exact Ha].
    - cbn [nodes_ok] in *. destruct Hn as [[Hp _]|Hn]; [discriminate Hp| exact Hn].
    - cbn [nodes_ok] in *. destruct Hn as [[Hp _]|Hn]; [discriminate Hp| exact Hn].
    - cbn [nodes_ok] in *. destruct Hn as [[Hp _]|Hn]; [discriminate Hp| exact Hn].
  Qed.
End Leaf.

(* ================================================================ non-vacuity *)
(* (1) the validity predicate on non-trivial instances: hardware-float oversampling factor 1.25 (the default);
       a 2-D transform with a batch axis and toeplitz=True, and the 3-D adjoint class with a 2-D point array *)
Example nufft_ok_example :
  let osv := fun _ : Z => 0x1.4p+0%float in
  let L := NUFFT [2; 5; 6] (ARef 1 [7; 2]) 1 2 true in
  let M := NUFFTAdjoint [3; 4; 5; 6] (ARef 2 [2; 3; 3]) 1 2 in
  wf L = true /\ proven_node_nufft FCOps osv L = true /\ proven_node_nufft FCOps osv (adj L) = true /\
  oshape_of L = [2; 7] /\ oversamp_shape FCOps [2; 5; 6] 2 0x1.4p+0%float = [2; 7; 8] /\
  wf M = true /\ proven_node_nufft FCOps osv M = true /\ ishape_of M = [3; 2; 3] /\ adj M = NUFFT [3; 4; 5; 6] (ARef 2 [2; 3; 3]) 1 2 false.
Proof. vm_compute. repeat split; reflexivity. Qed.

(* ... and it rejects what the classes cannot apply: ndim = 4, fewer image axes than ndim, ndim = 0, oversamp <= 0 *)
Example nufft_reject_example :
  let osv := fun c : Z => if (c =? 1)%Z then 0x1.4p+0%float else (-0x1p+0)%float in
  proven_node_nufft FCOps osv (NUFFT [2; 2; 2; 2] (ARef 1 [3; 4]) 1 2 false) = false /\
  proven_node_nufft FCOps osv (NUFFT [5] (ARef 1 [3; 2]) 1 2 false) = false /\
  proven_node_nufft FCOps osv (NUFFTAdjoint [5; 6] (ARef 1 [3; 0]) 1 2) = false /\
  proven_node_nufft FCOps osv (NUFFT [5; 6] (ARef 1 [3; 2]) 3 2 false) = false.
Proof. vm_compute. repeat split; reflexivity. Qed.

(* (2) the hypotheses on [wt] (real, and  wt(m / c) = m * wt(1 / c)) hold in the intended interpretation, exactly:
       coordinates in Q (canonical rationals), data in Q(i), wt = the inclusion Q -> Q(i).
       (The numpy.fft hypotheses are those of C05 / C06; proofs/FourierExample.v exhibits w_4 = -i, 1/4 in the same ring.) *)
Definition QCOps : COps :=
  mkCOps Qc Qcplus Qcminus Qcmult Qcdiv (fun z => Q2Qc (inject_Z z))
         (fun q => Qceiling (this q)) (fun q => Qfloor (this q)) (fun q => Q2Qc (Qabs (this q)))
         (fun a b => Qle_bool (this a) (this b)) (fun a b => negb (Qle_bool (this b) (this a)))
         (fun a b => Qeq_bool (this a) (this b)).
Definition wtQ (q : QCOps) : QIRing := (q, Q2Qc 0).

Lemma wtQ_real c : conj (wtQ c) = wtQ c.
Proof. unfold wtQ. cbn. unfold qi_conj. cbn [fst snd]. f_equal; try ring. Qed.

Lemma Q2Qc_inj_succ k : (Q2Qc (inject_Z (Z.of_nat k)) + Q2Qc 1)%Qc = Q2Qc (inject_Z (Z.of_nat (S k))).
Proof.
  apply Qc_is_canon. unfold Qcplus, Q2Qc. cbn [this]. rewrite !Qred_correct.
  rewrite Nat2Z.inj_succ. unfold Z.succ. rewrite inject_Z_plus. reflexivity.
Qed.

Lemma nR_QI m : (0 <= m)%Z -> (nR m : QIRing) = (Q2Qc (inject_Z m), Q2Qc 0).
Proof.
  intros Hm. unfold nR, sumZ. rewrite <- (Z2Nat.id m Hm) at 2. generalize (Z.to_nat m) as k. clear m Hm.
  induction k as [|k IH].
  - reflexivity.
  - cbn [sum_nat]. rewrite IH. rewrite <- Q2Qc_inj_succ.
    change (@add QIRing) with qi_add. change (@one QIRing) with (Q2Qc 1, Q2Qc 0). unfold qi_add. cbn [fst snd].
    f_equal; try ring.
Qed.

Lemma wtQ_div (m : Z) (c : QCOps) : (0 <= m)%Z -> wtQ (cdiv (cofZ m) c) = mul (nR m) (wtQ (cdiv (cofZ 1) c)).
Proof.
  intros Hm. rewrite (nR_QI m Hm). unfold wtQ.
  change (@mul QIRing) with qi_mul. unfold qi_mul. cbn [fst snd cdiv cofZ QCOps]. unfold Qcdiv.
  change (Q2Qc (inject_Z 1)) with 1%Qc. change (Q2Qc 0) with 0%Qc. generalize (Q2Qc (inject_Z m)) as a. generalize (Qcinv c) as ic. intros ic a. f_equal; ring.
Qed.

Example nufft_wt_hypotheses_hold :
  (forall c : QCOps, conj (wtQ c) = wtQ c) /\
  (forall (m : Z) (c : QCOps), (0 <= m)%Z -> wtQ (cdiv (cofZ m) c) = mul (nR m) (wtQ (cdiv (cofZ 1) c))).
Proof. split; [exact wtQ_real| exact wtQ_div]. Qed.
