(* ShapesTie.v — the integer "shape / parameter" functions of the hand models agree with the SOURCE TEXT.

   gen/Gen_shapes.v is produced on every run by tools/translate_shapes.py from sigpy/{linop,util,conv,fourier}.py
   (Python ast -> Gallina in the error monad; a fixed prelude gives the reading of the Python primitives).
   This file states, per function,   gen_f args = <hand model of f> args   on the documented domain,

     * `_tied`            proved for ALL arguments in the domain (induction / computation on open terms);
     * `_agree_bounded_…` checked by evaluation inside Coq on a finite grid (the bound is in the name and in
                          the comment): a BOUNDED check, not the unbounded claim.

   Errors: every python exception is `Err E_py` in the generated terms, the hand models use their own codes;
   agreement is therefore stated through [recode] (error code forgotten) — exact otherwise.
   An edit of the python source that changes any of these functions changes Gen_shapes.v and breaks the
   corresponding lemma here (this file is in the cone of props/Prop_C03.v).

   PROVED (all arguments of the stated domain):
     util._expand_shapes (two shapes), util._normalize_axes (as a set: the source sorts, the model does not),
     util.resize: reshape guard, default ishift / oshift, copy_shape + islice / oslice = Rearrange.resize_ax,
     linop._hstack_params, _vstack_params = stack_params,
     linop._get_matmul_oshape, _get_right_matmul_oshape, _get_matmul_adjoint_sum_axes,
     linop._get_multiply_oshape, _get_multiply_adjoint_sum_axes,
     __init__ of Downsample, Upsample (non-zero factors), Sum, Tile (axes of a rank >= 1 shape),
     ArrayToBlocks, BlocksToArray (>= 1 block axis, non-zero strides);
     fourier._get_oversamp_shape in proofs/ShapesTieNufft.v (ndim >= 1, over the abstract coordinate scalars).
   BOUNDED check only:
     conv._get_convolve_params = conv_params on the operators' domain (grids stated at the lemmas). *)
From Coq Require Import ZArith List Bool Lia.
From SV Require Import lib.Scalar lib.LoopIR lib.NdArray lib.Coord model.Block model.Rearrange model.Linop
  gen.Gen_shapes.
Import ListNotations.
Local Open Scope Z_scope.

Definition recode {A} (r : result A) : result A := match r with Ok a => Ok a | Err _ => Err E_py end.

(* ================================================================== facts about the prelude *)
Lemma concat_repeat_single {A} (x : A) n : concat (repeat [x] n) = repeat x n.
Proof. induction n; simpl; congruence. Qed.

Lemma py_repeat_single {A} (x : A) k : py_repeat [x] k = repeat x (Z.to_nat k).
Proof. apply concat_repeat_single. Qed.

Lemma py_slice_lastn {A} (l : list A) k : 1 <= k -> py_slice l (Some (- k)) None = lastn (Z.to_nat k) l.
Proof.
  intros Hk. unfold py_slice, py_clamp, py_len, lastn.
  destruct (Z.ltb_spec (- k) 0); [|lia].
  replace (Z.to_nat (Z.max 0 (Z.min (- k + Z.of_nat (length l)) (Z.of_nat (length l)))))
    with (length l - Z.to_nat k)%nat by lia.
  apply firstn_all2. rewrite skipn_length. lia.
Qed.

Lemma py_slice_droplast {A} (l : list A) k : 1 <= k -> py_slice l None (Some (- k)) = droplast (Z.to_nat k) l.
Proof.
  intros Hk. unfold py_slice, py_clamp, py_len, droplast.
  destruct (Z.ltb_spec (- k) 0); [|lia].
  simpl skipn. f_equal. lia.
Qed.

Lemma py_mapM_ok {A B} (f : A -> result B) (g : A -> B) l :
  (forall a, In a l -> f a = Ok (g a)) -> py_mapM f l = Ok (map g l).
Proof.
  induction l as [|a l IH]; intros H; simpl; [reflexivity|].
  rewrite (H a (or_introl eq_refl)). simpl. rewrite IH by (intros; apply H; right; assumption). reflexivity.
Qed.

Lemma map_combine_zip2 {T} (g : Z -> Z -> T) a b :
  map (fun '(x, y) => g x y) (combine a b) = zip2 g a b.
Proof. revert b; induction a as [|x a IH]; intros [|y b]; simpl; try reflexivity. now rewrite IH. Qed.

Lemma map_combine_zip3 {T} (g : Z -> Z -> Z -> T) a b c :
  map (fun '(x, (y, z)) => g x y z) (combine a (combine b c)) = zip3 g a b c.
Proof. revert b c; induction a as [|x a IH]; intros [|y b] [|z c]; simpl; try reflexivity. now rewrite IH. Qed.

Lemma map_combine_zip4 {T} (g : Z -> Z -> Z -> Z -> T) a b c d :
  map (fun '(x, (y, (z, w))) => g x y z w) (combine a (combine b (combine c d))) = zip4 g a b c d.
Proof. revert b c d; induction a as [|x a IH]; intros [|y b] [|z c] [|w d]; simpl; try reflexivity. now rewrite IH. Qed.

(* the members of a zip are members of its arguments *)
Lemma in_combine3_mid {X Y W} (a : list X) (b : list Y) (c : list W) x y z :
  In (x, (y, z)) (combine a (combine b c)) -> In y b.
Proof. intros H. apply in_combine_r in H. apply in_combine_l in H. exact H. Qed.

Lemma in_combine3_last {X Y W} (a : list X) (b : list Y) (c : list W) x y z :
  In (x, (y, z)) (combine a (combine b c)) -> In z c.
Proof. intros H. apply in_combine_r in H. apply in_combine_r in H. exact H. Qed.

Lemma py_insert_in x y l : In y (py_insert x l) <-> y = x \/ In y l.
Proof.
  induction l as [|z l IH]; simpl; [intuition|].
  destruct (x <=? z); simpl; [intuition|]. rewrite IH. intuition.
Qed.

Lemma py_sorted_in y l : In y (py_sorted l) <-> In y l.
Proof. induction l as [|x l IH]; simpl; [tauto|]. rewrite py_insert_in, IH. intuition. Qed.

Lemma memZ_in a l : memZ a l = true <-> In a l.
Proof.
  unfold memZ. rewrite existsb_exists. split.
  - intros (x & Hx & E). apply Z.eqb_eq in E. now subst.
  - intros H. exists a. split; [assumption | apply Z.eqb_refl].
Qed.

Lemma memZ_ext a l1 l2 : (forall x, In x l1 <-> In x l2) -> memZ a l1 = memZ a l2.
Proof.
  intros H. destruct (memZ a l1) eqn:E1, (memZ a l2) eqn:E2; try reflexivity.
  - apply memZ_in, H, memZ_in in E1. congruence.
  - apply memZ_in, H, memZ_in in E2. congruence.
Qed.

(* ================================================================== util._expand_shapes : PROVED *)
Theorem expand_shapes_tied : forall a b,
  gen_expand_shapes [a; b] = Ok [fst (expand_shapes a b); snd (expand_shapes a b)].
Proof.
  intros a b. unfold gen_expand_shapes, expand_shapes, py_max_list, py_len. simpl.
  rewrite !py_repeat_single. do 4 f_equal.
  - f_equal. lia.
  - do 2 f_equal. lia.
Qed.

(* ================================================================== util._normalize_axes : PROVED
   the source sorts the axes, the model does not: the model only uses membership, which is what is tied. *)
Theorem normalize_axes_tied : forall axes ndim, ndim <> 0 ->
  exists l, gen_normalize_axes axes ndim = Ok l /\ forall a, memZ a l = memZ a (normalize_axes axes ndim).
Proof.
  intros [axes|] ndim Hn; unfold gen_normalize_axes, normalize_axes.
  - exists (map (fun a => a mod ndim) (py_sorted axes)). split.
    + rewrite (py_mapM_ok _ (fun a => a mod ndim)); [reflexivity|].
      intros a _. unfold py_mod. destruct (Z.eqb_spec ndim 0); [contradiction | reflexivity].
    + intros a. apply memZ_ext. intros x. rewrite !in_map_iff.
      split; intros (y & E & Hy); exists y; (split; [exact E|]); apply py_sorted_in; assumption.
  - exists (zrange 0 ndim 1). split; reflexivity.
Qed.

(* ================================================================== util.resize, shift arithmetic : PROVED *)
Theorem resize_guard_tied : forall i1 o1 isf osf,
  gen_resize_is_reshape i1 o1 isf osf =
  Ok (zlist_eqb i1 o1 && (match isf, osf with None, None => true | _, _ => false end)).
Proof. intros i1 o1 [?|] [?|]; unfold gen_resize_is_reshape; simpl; rewrite ?andb_false_r, ?andb_true_r; reflexivity. Qed.

Theorem resize_ishift_tied : forall i1 o1, gen_resize_ishift i1 o1 = Ok (default_ishift i1 o1).
Proof. intros. unfold gen_resize_ishift, default_ishift. f_equal. apply (map_combine_zip2 (fun i o => Z.max (i / 2 - o / 2) 0)). Qed.

Theorem resize_oshift_tied : forall i1 o1, gen_resize_oshift i1 o1 = Ok (default_oshift i1 o1).
Proof. intros. unfold gen_resize_oshift, default_oshift. f_equal. apply (map_combine_zip2 (fun i o => Z.max (o / 2 - i / 2) 0)). Qed.

(* output[oslice] = input[islice] per axis:  k in [so, so + c)  reads  si + (k - so) *)
Definition window_ax (isl osl : Z * Z) : Z -> option Z :=
  fun k => if (fst osl <=? k) && (k <? snd osl) then Some (fst isl + (k - fst osl)) else None.

Theorem resize_window_tied : forall i1 o1 si so,
  exists c isl osl,
    gen_resize_copy_shape i1 si o1 so = Ok c /\ gen_resize_islice si c = Ok isl /\ gen_resize_oslice so c = Ok osl /\
    forall k, map (fun f => f k) (zip4 resize_ax i1 o1 si so) = map (fun p => window_ax (fst p) (snd p) k) (combine isl osl).
Proof.
  intros i1 o1 si so. unfold gen_resize_copy_shape, gen_resize_islice, gen_resize_oslice.
  eexists _, _, _. split; [reflexivity|]. split; [reflexivity|]. split; [reflexivity|].
  intros k. revert o1 si so; induction i1 as [|i i1 IH]; intros [|o o1] [|a si] [|b so]; simpl; try reflexivity.
  rewrite <- IH. f_equal. unfold resize_ax, window_ax; simpl.
  destruct ((b <=? k) && (k <? b + Z.min (i - a) (o - b))); [f_equal; lia | reflexivity].
Qed.

(* ================================================================== Downsample / Upsample __init__ : PROVED *)
Definition nonzero (l : list Z) : Prop := Forall (fun f => f <> 0) l.

Lemma ds_mapM i f s : nonzero f ->
  py_mapM (fun '(i, (f, s)) => pybind (py_floordiv (i - s + f - 1) f) (fun t => Ok t)) (combine i (combine f s))
  = Ok (ds_shape i f s).
Proof.
  intros Hf. unfold ds_shape. rewrite <- (map_combine_zip3 (fun i f s => (i - s + f - 1) / f)).
  apply py_mapM_ok. intros [x [y z]] Hin. apply in_combine3_mid in Hin.
  unfold py_floordiv. unfold nonzero in Hf. rewrite Forall_forall in Hf. specialize (Hf y Hin).
  destruct (Z.eqb_spec y 0); [contradiction | reflexivity].
Qed.

Theorem Downsample_init_tied : forall ishape factors shift, nonzero factors ->
  gen_Downsample_init ishape factors (Some shift) = Ok (ds_shape ishape factors shift, ishape) /\
  gen_Downsample_init ishape factors None = Ok (ds_shape ishape factors (repeat 0 (length ishape)), ishape).
Proof.
  intros i f s Hf. unfold gen_Downsample_init. simpl. rewrite !ds_mapM by assumption. simpl.
  rewrite py_repeat_single. unfold py_len. rewrite Nat2Z.id. split; reflexivity.
Qed.

Theorem Upsample_init_tied : forall oshape factors shift, nonzero factors ->
  gen_Upsample_init oshape factors (Some shift) = Ok (oshape, ds_shape oshape factors shift) /\
  gen_Upsample_init oshape factors None = Ok (oshape, ds_shape oshape factors (repeat 0 (length oshape))).
Proof.
  intros o f s Hf. unfold gen_Upsample_init. simpl. rewrite !ds_mapM by assumption. simpl.
  rewrite py_repeat_single. unfold py_len. rewrite Nat2Z.id. split; reflexivity.
Qed.

(* ================================================================== ArrayToBlocks / BlocksToArray __init__ : PROVED
   (domain: at least one block axis — `shape[-0:]` is the whole shape in python — and non-zero strides) *)
Lemma nb_mapM x b s : nonzero s ->
  py_mapM (fun '(i, (b, s)) => pybind (py_floordiv (i - b + s) s) (fun t => Ok t)) (combine x (combine b s))
  = Ok (zip3 (fun i b s => (i - b + s) / s) x b s).
Proof.
  intros Hs. rewrite <- (map_combine_zip3 (fun i b s => (i - b + s) / s)).
  apply py_mapM_ok. intros [i [bb ss]] Hin. apply in_combine3_last in Hin.
  unfold py_floordiv. unfold nonzero in Hs. rewrite Forall_forall in Hs. specialize (Hs ss Hin).
  destruct (Z.eqb_spec ss 0); [contradiction | reflexivity].
Qed.

Theorem ArrayToBlocks_init_tied : forall ishape blk_shape blk_strides, blk_shape <> [] -> nonzero blk_strides ->
  gen_ArrayToBlocks_init ishape blk_shape blk_strides
  = Ok (droplast (length blk_shape) ishape ++ num_blks ishape blk_shape blk_strides ++ blk_shape, ishape).
Proof.
  intros i b s Hb Hs. unfold gen_ArrayToBlocks_init, num_blks. simpl.
  assert (HD : 1 <= py_len b) by (unfold py_len; destruct b; [contradiction | simpl; lia]).
  rewrite py_slice_lastn, py_slice_droplast by assumption.
  unfold py_len at 1 2. rewrite Nat2Z.id. rewrite nb_mapM by assumption. simpl.
  rewrite <- app_assoc. reflexivity.
Qed.

Theorem BlocksToArray_init_tied : forall oshape blk_shape blk_strides, blk_shape <> [] -> nonzero blk_strides ->
  gen_BlocksToArray_init oshape blk_shape blk_strides
  = Ok (oshape, droplast (length blk_shape) oshape ++ num_blks oshape blk_shape blk_strides ++ blk_shape).
Proof.
  intros i b s Hb Hs. unfold gen_BlocksToArray_init, num_blks. simpl.
  assert (HD : 1 <= py_len b) by (unfold py_len; destruct b; [contradiction | simpl; lia]).
  rewrite py_slice_lastn, py_slice_droplast by assumption.
  unfold py_len at 1 2. rewrite Nat2Z.id. rewrite nb_mapM by assumption. simpl.
  rewrite <- app_assoc. reflexivity.
Qed.

(* fourier._get_oversamp_shape is tied in proofs/ShapesTieNufft.v: model/Nufft.v depends on the generated interpolation
   kernels, which must not enter the cone of the operator-algebra properties. *)

(* ================================================================== more prelude facts: ranges, last two entries *)
Lemma zrange_0_1 n : zrange 0 n 1 = zrange_aux (Z.to_nat n) 0 1.
Proof. unfold zrange. simpl. replace (n - 0 + 1 - 1) with n by lia. now rewrite Z.div_1_r. Qed.

Lemma expand_shapes_length a b :
  length (fst (expand_shapes a b)) = Nat.max (length a) (length b) /\
  length (snd (expand_shapes a b)) = Nat.max (length a) (length b).
Proof. unfold expand_shapes; simpl. rewrite !app_length, !repeat_length. lia. Qed.

Lemma py_idx_neg n k : 0 < k <= n -> py_idx n (- k) = Some (Z.to_nat (n - k)).
Proof.
  intros H. unfold py_idx. destruct (Z.ltb_spec (- k) 0); [|lia].
  destruct (Z.leb_spec 0 (- k + n)); [|lia]. destruct (Z.ltb_spec (- k + n) n); [|lia].
  simpl. f_equal. lia.
Qed.

Section Last2.
  Context {A : Type}.
  Variables (p : list A) (x y : A).
  Let l := p ++ [x; y].
  Lemma len_last2 : py_len l = Z.of_nat (length p) + 2.
  Proof. unfold l, py_len. rewrite app_length. simpl. lia. Qed.
  Lemma get_m1 : py_get l (- (1)) = Ok y.
  Proof.
    unfold py_get. rewrite py_idx_neg by (rewrite len_last2; lia). rewrite len_last2.
    replace (Z.to_nat (Z.of_nat (length p) + 2 - 1)) with (length p + 1)%nat by lia.
    unfold l. rewrite nth_error_app2 by lia. replace (length p + 1 - length p)%nat with 1%nat by lia. reflexivity.
  Qed.
  Lemma get_m2 : py_get l (- (2)) = Ok x.
  Proof.
    unfold py_get. rewrite py_idx_neg by (rewrite len_last2; lia). rewrite len_last2.
    replace (Z.to_nat (Z.of_nat (length p) + 2 - 2)) with (length p + 0)%nat by lia.
    unfold l. rewrite nth_error_app2 by lia. replace (length p + 0 - length p)%nat with 0%nat by lia. reflexivity.
  Qed.
  Lemma set_nth_app (q : list A) j v : py_set_nth (p ++ q) (length p + j) v = p ++ py_set_nth q j v.
  Proof. induction p as [|a p' IH]; simpl; [reflexivity | now rewrite IH]. Qed.
  Lemma set_m1 v : py_set l (- (1)) v = Ok (p ++ [x; v]).
  Proof.
    unfold py_set. rewrite py_idx_neg by (rewrite len_last2; lia). rewrite len_last2.
    replace (Z.to_nat (Z.of_nat (length p) + 2 - 1)) with (length p + 1)%nat by lia.
    unfold l. now rewrite set_nth_app.
  Qed.
  Lemma set_m2 v : py_set l (- (2)) v = Ok (p ++ [v; y]).
  Proof.
    unfold py_set. rewrite py_idx_neg by (rewrite len_last2; lia). rewrite len_last2.
    replace (Z.to_nat (Z.of_nat (length p) + 2 - 2)) with (length p + 0)%nat by lia.
    unfold l. now rewrite set_nth_app.
  Qed.
  Lemma firstn_m2 : firstn (length l - 2) l = p.
  Proof.
    replace (length l - 2)%nat with (length p + 0)%nat by (unfold l; rewrite app_length; simpl; lia).
    unfold l. rewrite firstn_app_2. simpl. apply app_nil_r.
  Qed.
  Lemma slice_m2 : py_slice l None (Some (- (2))) = p.
  Proof. rewrite py_slice_droplast by lia. change (Z.to_nat 2) with 2%nat. unfold droplast. apply firstn_m2. Qed.
End Last2.

Lemma pyget_m1 (p : list Z) x y : pyget (p ++ [x; y]) (-1) = y.
Proof.
  unfold pyget, getZ. change (-1 <? 0) with true. cbv iota.
  replace (Z.to_nat (Z.of_nat (length (p ++ [x; y])) + -1)) with (length p + 1)%nat by (rewrite app_length; simpl; lia).
  rewrite app_nth2 by lia. replace (length p + 1 - length p)%nat with 1%nat by lia. reflexivity.
Qed.
Lemma pyget_m2 (p : list Z) x y : pyget (p ++ [x; y]) (-2) = x.
Proof.
  unfold pyget, getZ. change (-2 <? 0) with true. cbv iota.
  replace (Z.to_nat (Z.of_nat (length (p ++ [x; y])) + -2)) with (length p + 0)%nat by (rewrite app_length; simpl; lia).
  rewrite app_nth2 by lia. replace (length p + 0 - length p)%nat with 0%nat by lia. reflexivity.
Qed.
Lemma swap_last2_app (p : list Z) x y : swap_last2 (p ++ [x; y]) = p ++ [y; x].
Proof. unfold swap_last2. rewrite rev_app_distr. simpl. rewrite rev_involutive. now rewrite <- app_assoc. Qed.

Lemma split_last2 {A} (l : list A) : (2 <= length l)%nat -> exists p x y, l = p ++ [x; y].
Proof.
  intros H. exists (firstn (length l - 2) l).
  pose proof (firstn_skipn (length l - 2) l) as E.
  remember (skipn (length l - 2) l) as q eqn:Eq.
  assert (Hq : length q = 2%nat) by (subst q; rewrite skipn_length; lia).
  destruct q as [|x [|y [|? ?]]]; simpl in Hq; try lia. exists x, y. now rewrite E.
Qed.

(* ================================================================== the broadcasting loops *)
(* for i, m in zip(...): if not (i == m or i == 1 or m == 1): raise ; oshape.append(max(i, m)) *)
Lemma bcast_loop2 ie : forall me acc,
  py_foldM (fun oshape '(i, m) =>
      if negb ((i =? m) || (i =? 1) || (m =? 1)) then Err E_py else let oshape := oshape ++ [Z.max i m] in Ok oshape)
    acc (combine ie me)
  = if forallb (fun p => bcast_dim (fst p) (snd p)) (combine ie me)
    then Ok (acc ++ map (fun p => Z.max (fst p) (snd p)) (combine ie me)) else Err E_py.
Proof.
  induction ie as [|i ie IH]; intros [|m me] acc; simpl; rewrite ?app_nil_r; try reflexivity.
  unfold bcast_dim at 1. simpl. destruct ((i =? m) || (i =? 1) || (m =? 1)); simpl; [|reflexivity].
  rewrite IH. now rewrite <- app_assoc.
Qed.

(* the same loop with the unused counter d of `zip(..., range(max_ndim ...))` *)
Lemma bcast_loop3 ie : forall me (c : list Z) acc, (length ie <= length c)%nat ->
  py_foldM (fun oshape '(i, (m, d)) =>
      if negb ((i =? m) || (i =? 1) || (m =? 1)) then Err E_py else let oshape := oshape ++ [Z.max i m] in Ok oshape)
    acc (combine ie (combine me c))
  = if forallb (fun p => bcast_dim (fst p) (snd p)) (combine ie me)
    then Ok (acc ++ map (fun p => Z.max (fst p) (snd p)) (combine ie me)) else Err E_py.
Proof.
  induction ie as [|i ie IH]; intros [|m me] [|d c] acc Hc; simpl in *; rewrite ?app_nil_r; try reflexivity; try lia.
  unfold bcast_dim at 1. simpl. destruct ((i =? m) || (i =? 1) || (m =? 1)); simpl; [|reflexivity].
  rewrite IH by lia. now rewrite <- app_assoc.
Qed.

(* for i, m, o, d in zip(..., range(n)): if i == 1 and (m != 1 or o != 1): sum_axes.append(d) *)
Lemma sum_axes_loop_tied ie : forall me os k d acc, (length ie <= k)%nat ->
  py_foldM (fun sum_axes '(i, (m, (o, d))) =>
      pybind (if (i =? 1) && (negb (m =? 1) || negb (o =? 1))
              then let sum_axes := sum_axes ++ [d] in Ok sum_axes else Ok sum_axes)
             (fun sum_axes => Ok sum_axes))
    acc (combine ie (combine me (combine os (zrange_aux k d 1))))
  = Ok (acc ++ sum_axes_loop ie me os d).
Proof.
  induction ie as [|i ie IH]; intros [|m me] [|o os] [|k] d acc Hk; simpl in *; rewrite ?app_nil_r; try reflexivity; try lia.
  destruct ((i =? 1) && (negb (m =? 1) || negb (o =? 1))); simpl; rewrite IH by lia.
  - now rewrite <- app_assoc.
  - reflexivity.
Qed.

(* ================================================================== linop._get_multiply_oshape : PROVED *)
Theorem multiply_oshape_tied : forall ishape mshape,
  gen_multiply_oshape ishape mshape = recode (multiply_oshape ishape mshape).
Proof.
  intros i m. unfold gen_multiply_oshape, multiply_oshape. rewrite expand_shapes_tied.
  destruct (expand_shapes_length i m) as [Hi Hm].
  destruct (expand_shapes i m) as [ie me]. cbn [pybind py_unpack2 fst snd] in *.
  rewrite bcast_loop3.
  - destruct (forallb _ _); reflexivity.
  - unfold py_range. rewrite zrange_0_1. unfold py_len.
    assert (forall n, length (zrange_aux n 0 1) = n) as Hl.
    { intros n. generalize 0. induction n; intros; simpl; [reflexivity | now rewrite IHn]. }
    rewrite Hl. lia.
Qed.

Lemma zrange_aux_length n lo : length (zrange_aux n lo 1) = n.
Proof. revert lo; induction n; intros; simpl; [reflexivity | now rewrite IHn]. Qed.

(* ================================================================== linop._get_multiply_adjoint_sum_axes : PROVED *)
Theorem multiply_adjoint_sum_axes_tied : forall oshape ishape mshape,
  gen_multiply_adjoint_sum_axes oshape ishape mshape = Ok (multiply_adjoint_sum_axes oshape ishape mshape).
Proof.
  intros o i m. unfold gen_multiply_adjoint_sum_axes, multiply_adjoint_sum_axes. rewrite expand_shapes_tied.
  destruct (expand_shapes_length i m) as [Hi Hm].
  destruct (expand_shapes i m) as [ie me]. cbn [pybind py_unpack2 fst snd] in *.
  unfold py_range. rewrite zrange_0_1. rewrite sum_axes_loop_tied by (unfold py_len; lia). reflexivity.
Qed.

(* ================================================================== linop._get_matmul_adjoint_sum_axes : PROVED *)
Theorem matmul_adjoint_sum_axes_tied : forall oshape ishape mshape,
  gen_matmul_adjoint_sum_axes oshape ishape mshape = Ok (matmul_adjoint_sum_axes oshape ishape mshape).
Proof.
  intros o i m. unfold gen_matmul_adjoint_sum_axes, matmul_adjoint_sum_axes. rewrite expand_shapes_tied.
  destruct (expand_shapes_length i m) as [Hi Hm].
  destruct (expand_shapes i m) as [ie me]. cbn [pybind py_unpack2 fst snd] in *.
  rewrite !py_slice_droplast by lia. unfold droplast. change (Z.to_nat 2) with 2%nat.
  unfold py_range. rewrite zrange_0_1. rewrite sum_axes_loop_tied.
  - rewrite Hm, <- Hi. reflexivity.
  - rewrite firstn_length. unfold py_len. lia.
Qed.

(* ================================================================== linop._get_matmul_oshape / _get_right_matmul_oshape : PROVED
   (the in-place swap `m[-1], m[-2] = m[-2], m[-1]` is the model's swap_last2; fewer than two axes: IndexError = Err) *)
Theorem matmul_oshape_tied : forall ishape mshape adjoint,
  gen_matmul_oshape ishape mshape adjoint = recode (matmul_oshape ishape mshape adjoint).
Proof.
  intros i m adj. unfold gen_matmul_oshape, matmul_oshape. rewrite expand_shapes_tied.
  destruct (expand_shapes_length i m) as [Hi Hm]. rewrite <- Hi in Hm.
  destruct (expand_shapes i m) as [ie me0]. cbn [pybind py_unpack2 fst snd] in *. clear Hi.
  destruct (Nat.ltb_spec (length ie) 2) as [Hlt|Hge].
  - destruct ie as [|a [|? ?]]; destruct me0 as [|c [|? ?]]; simpl in Hm, Hlt; try lia; destruct adj; reflexivity.
  - destruct (split_last2 ie Hge) as (pi & a & b & ->).
    destruct (split_last2 me0 ltac:(lia)) as (pm & c & d & ->).
    rewrite firstn_m2.
    assert (Hswap : (if adj
              then pybind (py_get (pm ++ [c; d]) (- (2))) (fun t2 => pybind (py_get (pm ++ [c; d]) (- (1))) (fun t3 =>
                   pybind (py_set (pm ++ [c; d]) (- (1)) t2) (fun me => pybind (py_set me (- (2)) t3) (fun me => Ok me))))
              else Ok (pm ++ [c; d]))
            = Ok (if adj then swap_last2 (pm ++ [c; d]) else pm ++ [c; d])).
    { destruct adj; [|reflexivity]. rewrite get_m2, get_m1. cbn [pybind]. rewrite set_m1. cbn [pybind].
      rewrite set_m2, swap_last2_app. reflexivity. }
    rewrite Hswap. cbn [pybind].
    assert (Hme : exists c' d', (if adj then swap_last2 (pm ++ [c; d]) else pm ++ [c; d]) = pm ++ [c'; d']).
    { destruct adj; [rewrite swap_last2_app|]; eauto. }
    destruct Hme as (c' & d' & ->).
    rewrite !slice_m2, bcast_loop2. rewrite !get_m1, !get_m2. cbn [pybind].
    replace (length (pi ++ [a; b]) - 2)%nat with (length (pm ++ [c'; d']) - 2)%nat
      by (rewrite !app_length in *; simpl in *; lia).
    rewrite firstn_m2, pyget_m1, !pyget_m2, pyget_m1.
    destruct (forallb _ _); simpl; [|reflexivity].
    destruct (d' =? a); reflexivity.
Qed.

Theorem right_matmul_oshape_tied : forall ishape mshape adjoint,
  gen_right_matmul_oshape ishape mshape adjoint = recode (right_matmul_oshape ishape mshape adjoint).
Proof.
  intros i m adj. unfold gen_right_matmul_oshape, right_matmul_oshape. rewrite expand_shapes_tied.
  destruct (expand_shapes_length i m) as [Hi Hm]. rewrite <- Hi in Hm.
  assert (Hmax : Z.max (py_len i) (py_len m) = Z.of_nat (length (fst (expand_shapes i m)))) by (unfold py_len; lia).
  rewrite Hmax. clear Hmax.
  destruct (expand_shapes i m) as [ie me0]. cbn [pybind py_unpack2 fst snd] in *. clear Hi.
  destruct (Nat.ltb_spec (length ie) 2) as [Hlt|Hge].
  - destruct ie as [|a [|? ?]]; destruct me0 as [|c [|? ?]]; simpl in Hm, Hlt; try lia; destruct adj; reflexivity.
  - destruct (split_last2 ie Hge) as (pi & a & b & ->).
    destruct (split_last2 me0 ltac:(lia)) as (pm & c & d & ->).
    rewrite firstn_m2.
    assert (Hswap : (if adj
              then pybind (py_get (pm ++ [c; d]) (- (2))) (fun t2 => pybind (py_get (pm ++ [c; d]) (- (1))) (fun t3 =>
                   pybind (py_set (pm ++ [c; d]) (- (1)) t2) (fun me => pybind (py_set me (- (2)) t3) (fun me => Ok me))))
              else Ok (pm ++ [c; d]))
            = Ok (if adj then swap_last2 (pm ++ [c; d]) else pm ++ [c; d])).
    { destruct adj; [|reflexivity]. rewrite get_m2, get_m1. cbn [pybind]. rewrite set_m1. cbn [pybind].
      rewrite set_m2, swap_last2_app. reflexivity. }
    rewrite Hswap. cbn [pybind].
    assert (Hme : exists c' d', (if adj then swap_last2 (pm ++ [c; d]) else pm ++ [c; d]) = pm ++ [c'; d']).
    { destruct adj; [rewrite swap_last2_app|]; eauto. }
    destruct Hme as (c' & d' & ->).
    rewrite !slice_m2. unfold py_range. rewrite zrange_0_1.
    rewrite bcast_loop3 by (rewrite zrange_aux_length, app_length; simpl; lia).
    rewrite !get_m1, !get_m2. cbn [pybind].
    replace (length (pi ++ [a; b]) - 2)%nat with (length (pm ++ [c'; d']) - 2)%nat
      by (rewrite !app_length in *; simpl in *; lia).
    rewrite firstn_m2, pyget_m1, !pyget_m2, pyget_m1.
    destruct (forallb _ _); simpl; [|reflexivity].
    destruct (b =? c'); reflexivity.
Qed.

(* ================================================================== Sum / Tile __init__ : PROVED
   (domain: the axes are axes of the shape, i.e. not (rank 0 with a non-empty axes list): `a % 0` raises) *)
Lemma py_get_mid {A} (pre suf : list A) x : py_get (pre ++ x :: suf) (Z.of_nat (length pre)) = Ok x.
Proof.
  unfold py_get, py_idx, py_len. rewrite app_length. simpl length.
  destruct (Z.ltb_spec (Z.of_nat (length pre)) 0); [lia|].
  destruct (Z.leb_spec 0 (Z.of_nat (length pre))); [|lia].
  destruct (Z.ltb_spec (Z.of_nat (length pre)) (Z.of_nat (length pre + S (length suf)))); [|lia].
  simpl. rewrite Nat2Z.id, nth_error_app2 by lia. now rewrite Nat.sub_diag.
Qed.

Lemma gather_kept (P : Z -> bool) (suf : list Z) : forall pre,
  py_mapM (fun i => pybind (py_get (pre ++ suf) i) (fun t => Ok t))
          (filter P (zrange_aux (length suf) (Z.of_nat (length pre)) 1))
  = Ok (map snd (filter (fun p => P (fst p)) (combine (zrange_aux (length suf) (Z.of_nat (length pre)) 1) suf))).
Proof.
  induction suf as [|x suf IH]; intros pre; simpl; [reflexivity|].
  specialize (IH (pre ++ [x])). rewrite <- app_assoc, app_length in IH. simpl in IH.
  replace (Z.of_nat (length pre + 1)) with (Z.of_nat (length pre) + 1) in IH by lia.
  destruct (P (Z.of_nat (length pre))); simpl; [rewrite py_get_mid; simpl|]; rewrite IH; reflexivity.
Qed.

Lemma norm_axes_mapM axes n : n <> 0 \/ axes = [] ->
  py_mapM (fun a => pybind (py_mod a n) (fun t => Ok t)) axes = Ok (norm_axes_list axes n).
Proof.
  intros [Hn | ->]; [|reflexivity]. apply py_mapM_ok. intros a _. unfold py_mod.
  destruct (Z.eqb_spec n 0); [contradiction | reflexivity].
Qed.

Definition axes_domain (shape axes : list Z) : Prop := shape <> [] \/ axes = [].

Lemma axes_domain_len shape axes : axes_domain shape axes -> py_len shape <> 0 \/ axes = [].
Proof. intros [H | H]; [left | now right]. unfold py_len. destruct shape; [contradiction | simpl; lia]. Qed.

Theorem Sum_init_tied : forall ishape axes, axes_domain ishape axes ->
  gen_Sum_init ishape axes = Ok (remove_axes ishape (norm_axes_list axes (lenZ ishape)), ishape).
Proof.
  intros s axes Hd. unfold gen_Sum_init, remove_axes. rewrite norm_axes_mapM by (apply axes_domain_len; assumption).
  cbn [pybind]. unfold py_range. rewrite zrange_0_1. unfold py_len, lenZ. rewrite Nat2Z.id.
  pose proof (gather_kept (fun i => negb (py_in i (norm_axes_list axes (Z.of_nat (length s))))) s []) as G.
  cbn [app length] in G. change (Z.of_nat 0) with 0 in G. rewrite G. clear G. cbn [pybind].
  rewrite zrange_0_1, Nat2Z.id. reflexivity.
Qed.

(* Tile.__init__ additionally builds expanded_ishape / reps in a loop; the loop cannot fail *)
Lemma tile_loop_ok (ax : list Z) (suf : list Z) : forall pre (st : list Z * list Z), exists st',
  py_foldM (fun '(self_expanded_ishape, self_reps) d =>
      pybind (if py_in d ax
              then let self_expanded_ishape := self_expanded_ishape ++ [1] in
                   pybind (py_get (pre ++ suf) d) (fun t5 => let self_reps := self_reps ++ [t5] in Ok (self_expanded_ishape, self_reps))
              else pybind (py_get (pre ++ suf) d) (fun t6 => let self_expanded_ishape := self_expanded_ishape ++ [t6] in
                   let self_reps := self_reps ++ [1] in Ok (self_expanded_ishape, self_reps)))
             (fun '(self_expanded_ishape, self_reps) => Ok (self_expanded_ishape, self_reps)))
    st (zrange_aux (length suf) (Z.of_nat (length pre)) 1) = Ok st'.
Proof.
  induction suf as [|x suf IH]; intros pre [e r]; simpl; [eauto|].
  rewrite py_get_mid.
  destruct (py_in (Z.of_nat (length pre)) ax); simpl.
  - specialize (IH (pre ++ [x]) (e ++ [1], r ++ [x])). rewrite <- app_assoc, app_length in IH. simpl in IH.
    replace (Z.of_nat (length pre + 1)) with (Z.of_nat (length pre) + 1) in IH by lia. exact IH.
  - specialize (IH (pre ++ [x]) (e ++ [x], r ++ [1])). rewrite <- app_assoc, app_length in IH. simpl in IH.
    replace (Z.of_nat (length pre + 1)) with (Z.of_nat (length pre) + 1) in IH by lia. exact IH.
Qed.

Theorem Tile_init_tied : forall oshape axes, axes_domain oshape axes ->
  gen_Tile_init oshape axes = Ok (oshape, remove_axes oshape (norm_axes_list axes (lenZ oshape))).
Proof.
  intros s axes Hd. unfold gen_Tile_init, remove_axes. rewrite norm_axes_mapM by (apply axes_domain_len; assumption).
  cbn [pybind]. unfold py_range. rewrite !zrange_0_1. unfold py_len, lenZ. rewrite Nat2Z.id.
  pose proof (gather_kept (fun i => negb (py_in i (norm_axes_list axes (Z.of_nat (length s))))) s []) as G.
  cbn [app length] in G. change (Z.of_nat 0) with 0 in G. rewrite G. clear G. cbn [pybind].
  destruct (tile_loop_ok (norm_axes_list axes (Z.of_nat (length s))) s [] ([], [])) as [[e r] E].
  cbn [app length] in E. change (Z.of_nat 0) with 0 in E. rewrite E. cbn [pybind].
  reflexivity.
Qed.

(* ================================================================== linop._hstack_params / _vstack_params : PROVED
   (the python loop updates ishape[axis] in place while it walks the axes and compares the later axes against the
    updated list; the model checks all other axes first and updates afterwards — the same function) *)
Lemma py_get_ok (l : list Z) i : 0 <= i < py_len l -> py_get l i = Ok (getZ l i).
Proof.
  intros H. unfold py_get, py_idx, py_len in *. destruct (Z.ltb_spec i 0); [lia|].
  destruct (Z.leb_spec 0 i); [|lia]. destruct (Z.ltb_spec i (Z.of_nat (length l))); [|lia]. simpl.
  unfold getZ. rewrite (nth_error_nth' l 0) by lia. reflexivity.
Qed.

Lemma py_set_nth_setZ (l : list Z) j v : py_set_nth l j v = setZ l j v.
Proof. revert j; induction l as [|x l IH]; intros [|j]; simpl; try reflexivity. now rewrite IH. Qed.

Lemma py_set_ok (l : list Z) i v : 0 <= i < py_len l -> py_set l i v = Ok (setZ l (Z.to_nat i) v).
Proof.
  intros H. unfold py_set, py_idx, py_len in *. destruct (Z.ltb_spec i 0); [lia|].
  destruct (Z.leb_spec 0 i); [|lia]. destruct (Z.ltb_spec i (Z.of_nat (length l))); [|lia]. simpl.
  now rewrite py_set_nth_setZ.
Qed.

Lemma setZ_length (l : list Z) j v : length (setZ l j v) = length l.
Proof. revert j; induction l as [|x l IH]; intros [|j]; simpl; try reflexivity. now rewrite IH. Qed.

Lemma getZ_setZ_other (l : list Z) j v i : 0 <= i -> Z.to_nat i <> j -> getZ (setZ l j v) i = getZ l i.
Proof.
  unfold getZ. intros _ H. generalize (Z.to_nat i) H. clear. intros k. revert j k.
  induction l as [|x l IH]; intros [|j] [|k] H; simpl; try reflexivity; try congruence. apply IH. congruence.
Qed.

Lemma forallb_ext_in' {A} (f g : A -> bool) l : (forall x, In x l -> f x = g x) -> forallb f l = forallb g l.
Proof.
  induction l as [|a l IH]; intros H; simpl; [reflexivity|].
  rewrite (H a (or_introl eq_refl)), IH by (intros; apply H; right; assumption). reflexivity.
Qed.

Definition stack_inner (ndim axis : Z) (shape : list Z) : Z * list Z * list Z -> Z -> result (Z * list Z * list Z) :=
  fun '(idx, indices, ishape) i =>
    pybind (if i =? axis
            then pybind (py_get ishape i) (fun t5 => pybind (py_get shape i) (fun t6 =>
                 pybind (py_set ishape i (t5 + t6)) (fun ishape => let indices := indices ++ [idx] in
                 pybind (py_get shape i) (fun t7 => let idx := idx + t7 in Ok (idx, indices, ishape)))))
            else pybind (py_get shape i) (fun t8 => pybind (py_get ishape i) (fun t9 =>
                 if negb (t8 =? t9) then Err E_py else Ok (idx, indices, ishape))))
           (fun '(idx, indices, ishape) => Ok (idx, indices, ishape)).

Definition stack_outer (ndim axis : Z) : Z * list Z * list Z -> list Z -> result (Z * list Z * list Z) :=
  fun '(idx, indices, ishape) shape =>
    if negb (py_len shape =? ndim) then Err E_py
    else pybind (py_foldM (stack_inner ndim axis shape) (idx, indices, ishape) (py_range ndim))
                (fun '(idx, indices, ishape) => Ok (idx, indices, ishape)).

Section Inner.
  Variables (n : nat) (axis : Z) (shape : list Z).
  Hypothesis Hshape : length shape = n.
  Hypothesis Hax : 0 <= axis < Z.of_nat n.

  Lemma inner_noupd k : forall d idx indices acc, length acc = n -> 0 <= d -> d + Z.of_nat k <= Z.of_nat n ->
    (axis < d \/ d + Z.of_nat k <= axis) ->
    py_foldM (stack_inner (Z.of_nat n) axis shape) (idx, indices, acc) (zrange_aux k d 1)
    = if forallb (fun i => getZ shape i =? getZ acc i) (zrange_aux k d 1) then Ok (idx, indices, acc) else Err E_py.
  Proof.
    induction k as [|k IH]; intros d idx indices acc Hacc Hd Hk Hout; [reflexivity|].
    cbn [zrange_aux py_foldM forallb]. unfold stack_inner at 1.
    destruct (Z.eqb_spec d axis); [lia|].
    rewrite !py_get_ok by (unfold py_len; lia). cbn [pybind].
    destruct (getZ shape d =? getZ acc d); cbn [negb pybind andb]; [|reflexivity].
    apply IH; lia.
  Qed.

  Lemma inner_upd k : forall d idx indices acc, length acc = n -> 0 <= d <= axis -> axis < d + Z.of_nat k -> d + Z.of_nat k <= Z.of_nat n ->
    py_foldM (stack_inner (Z.of_nat n) axis shape) (idx, indices, acc) (zrange_aux k d 1)
    = if forallb (fun i => (i =? axis) || (getZ shape i =? getZ acc i)) (zrange_aux k d 1)
      then Ok (idx + getZ shape axis, indices ++ [idx], setZ acc (Z.to_nat axis) (getZ acc axis + getZ shape axis))
      else Err E_py.
  Proof.
    induction k as [|k IH]; intros d idx indices acc Hacc Hd Hk Hn; [lia|].
    cbn [zrange_aux py_foldM forallb]. unfold stack_inner at 1.
    destruct (Z.eqb_spec d axis) as [->|Hne].
    - rewrite !py_get_ok by (unfold py_len; lia). cbn [pybind].
      rewrite py_set_ok by (unfold py_len; lia). cbn [pybind orb andb].
      rewrite inner_noupd by (rewrite ?setZ_length; lia).
      assert (E : forallb (fun i => getZ shape i =? getZ (setZ acc (Z.to_nat axis) (getZ acc axis + getZ shape axis)) i) (zrange_aux k (axis + 1) 1)
                = forallb (fun i => (i =? axis) || (getZ shape i =? getZ acc i)) (zrange_aux k (axis + 1) 1)).
      { apply forallb_ext_in'. intros i Hi. apply zrange_aux_in in Hi; [|lia]. destruct Hi as (j & Hj & ->).
        destruct (Z.eqb_spec (axis + 1 + j * 1) axis); [lia|]. rewrite getZ_setZ_other by lia. reflexivity. }
      rewrite E. reflexivity.
    - rewrite !py_get_ok by (unfold py_len; lia). cbn [pybind orb].
      destruct (getZ shape d =? getZ acc d); cbn [negb pybind andb]; [|reflexivity].
      apply IH; lia.
  Qed.
End Inner.

Lemma outer_tied n axis rest : 0 <= axis < Z.of_nat n -> forall idx indices acc, length acc = n ->
  pybind (py_foldM (stack_outer (Z.of_nat n) axis) (idx, indices, acc) rest)
         (fun '(idx, indices, ishape) => Ok (ishape, indices))
  = recode (stack_loop n axis acc idx indices rest).
Proof.
  intros Hax. induction rest as [|shape rest IH]; intros idx indices acc Hacc; [reflexivity|].
  cbn [py_foldM stack_loop]. unfold stack_outer at 1.
  destruct (Nat.eqb_spec (length shape) n) as [E|NE].
  - replace (py_len shape =? Z.of_nat n) with true by (symmetry; apply Z.eqb_eq; unfold py_len; lia).
    cbn [negb]. unfold py_range. rewrite !zrange_0_1, Nat2Z.id.
    rewrite (inner_upd n axis shape E Hax n 0) by lia.
    destruct (forallb _ _); cbn [negb pybind]; [|reflexivity].
    apply IH. rewrite setZ_length. exact Hacc.
  - replace (py_len shape =? Z.of_nat n) with false by (symmetry; apply Z.eqb_neq; unfold py_len; lia).
    reflexivity.
Qed.

Lemma py_get_head {A} (x : A) l : py_get (x :: l) 0 = Ok x.
Proof.
  unfold py_get, py_idx, py_len. simpl length. destruct (Z.ltb_spec 0 (Z.of_nat (S (length l)))); [|lia]. reflexivity.
Qed.

Lemma py_slice_tail {A} (x : A) l : py_slice (x :: l) (Some 1) None = l.
Proof.
  unfold py_slice, py_clamp, py_len. simpl length. change (1 <? 0) with false. cbv iota.
  replace (Z.max 0 (Z.min 1 (Z.of_nat (S (length l))))) with 1 by lia.
  change (Z.to_nat 1) with 1%nat. simpl skipn. apply firstn_all2. lia.
Qed.

Theorem hstack_params_some_tied : forall shapes ax,
  gen_hstack_params_some shapes ax = recode (stack_params shapes (Some ax)).
Proof.
  intros [|s0 rest] ax; [reflexivity|]. unfold gen_hstack_params_some, stack_params.
  rewrite !py_get_head. cbn [pybind]. unfold py_mod.
  destruct (Nat.eqb_spec (length s0) 0) as [E0|NE0].
  - replace (py_len s0 =? 0) with true by (symmetry; apply Z.eqb_eq; unfold py_len; lia). reflexivity.
  - replace (py_len s0 =? 0) with false by (symmetry; apply Z.eqb_neq; unfold py_len; lia). cbn [pybind].
    assert (Hax : 0 <= ax mod Z.of_nat (length s0) < Z.of_nat (length s0)) by (apply Z.mod_pos_bound; lia).
    unfold py_len at 1. rewrite py_get_ok by (unfold py_len; lia). cbn [pybind].
    rewrite py_slice_tail.
    exact (outer_tied (length s0) (ax mod Z.of_nat (length s0)) rest Hax _ [] s0 eq_refl).
Qed.

Theorem vstack_params_some_tied : forall shapes ax,
  gen_vstack_params_some shapes ax = recode (stack_params shapes (Some ax)).
Proof. exact hstack_params_some_tied. Qed.

Lemma stack_params_none shapes : stack_params (map (fun s => [prodZ s]) shapes) (Some 0) = stack_params shapes None.
Proof. destruct shapes; reflexivity. Qed.

Theorem hstack_params_tied : forall shapes axis, gen_hstack_params shapes axis = recode (stack_params shapes axis).
Proof.
  intros shapes [ax|]; unfold gen_hstack_params; rewrite hstack_params_some_tied; [reflexivity|].
  now rewrite stack_params_none.
Qed.

Theorem vstack_params_tied : forall shapes axis, gen_vstack_params shapes axis = recode (stack_params shapes axis).
Proof.
  intros shapes [ax|]; unfold gen_vstack_params; rewrite vstack_params_some_tied; [reflexivity|].
  now rewrite stack_params_none.
Qed.

(* ================================================================== BOUNDED checks (evaluation inside Coq on a finite grid) *)
Definition res_eqb {A} (e : A -> A -> bool) (a b : result A) : bool :=
  match a, b with Ok x, Ok y => e x y | Err _, Err _ => true | _, _ => false end.
Definition pair_eqb {A B} (ea : A -> A -> bool) (eb : B -> B -> bool) (x y : A * B) : bool :=
  ea (fst x) (fst y) && eb (snd x) (snd y).
(* all lists of length exactly n / at most n over the given values *)
Fixpoint lists_len {T} (vals : list T) (n : nat) : list (list T) :=
  match n with O => [[]] | S k => flat_map (fun v => map (cons v) (lists_len vals k)) vals end.
Definition lists_upto {T} (vals : list T) (n : nat) : list (list T) := flat_map (lists_len vals) (seq 0 (S n)).

(* ---- conv._get_convolve_params  vs  conv_params : BOUNDED, on the domain of the operators
   (at least one spatial axis: D = len(filt_shape) - 2 * multi_channel >= 1, and data of rank >= D + multi_channel;
    outside it the python function silently truncates its zips while the model rejects).
   The python function returns (D, b, B, m, n, s, c_i, c_o, p); the model keeps (b, c_o, p).
   grid A: data, filter shapes of rank <= 3 with entries in 0..3; strides None, of rank <= 2 with entries in {1, 2}, [1;2;1] or [2;1;2];
           mode in {"full", "valid"}; multi_channel in {False, True};
   grid B (two spatial axes with channels): filter shapes of rank 4 and data shapes of rank <= 4 with entries in {1, 2},
           same strides and modes, multi_channel = True. *)
Definition conv_proj (r : result (Z * list Z * Z * list Z * list Z * list Z * Z * Z * list Z)) : result (list Z * Z * list Z) :=
  match r with Ok (D, b, B, m, n, s, c_i, c_o, p) => Ok (b, c_o, p) | Err e => Err e end.
Definition t3_eqb (x y : list Z * Z * list Z) : bool :=
  let '(a, b, c) := x in let '(d, e, f) := y in zlist_eqb a d && (b =? e) && zlist_eqb c f.
Definition conv_dom (d f : list Z) (mc : bool) : bool :=
  let D := lenZ f - 2 * py_b2z mc in (1 <=? D) && (D + py_b2z mc <=? lenZ d).
Definition conv_ok (d f : list Z) (st : option (list Z)) (full mc : bool) : bool :=
  implb (conv_dom d f mc)
        (res_eqb t3_eqb (conv_proj (gen_convolve_params d f (if full then py_str_full else py_str_valid) st mc))
                        (conv_params d f full st mc)).
Definition conv_strides : list (option (list Z)) := None :: map Some (lists_upto [1; 2] 2 ++ [[1; 2; 1]; [2; 1; 2]]).
Lemma convolve_params_agree_bounded_rank3_entries0to3 :
  let S := lists_upto [0; 1; 2; 3] 3 in
  forallb (fun d => forallb (fun f => forallb (fun st =>
    conv_ok d f st true true && conv_ok d f st true false && conv_ok d f st false true && conv_ok d f st false false)
    conv_strides) S) S = true.
Proof. vm_compute. reflexivity. Qed.
Lemma convolve_params_agree_bounded_multichannel_rank4_entries1to2 :
  forallb (fun d => forallb (fun f => forallb (fun st => conv_ok d f st true true && conv_ok d f st false true)
    conv_strides) (lists_len [1; 2] 4)) (lists_upto [1; 2] 4) = true.
Proof. vm_compute. reflexivity. Qed.
(* an unknown mode string is rejected by the source (the model has no third mode) *)
Lemma convolve_params_rejects_other_modes : forall d f st mc mode,
  mode <> py_str_full -> mode <> py_str_valid -> exists e, conv_proj (gen_convolve_params d f mode st mc) = Err e.
Proof.
  intros d f st mc mode H1 H2. unfold gen_convolve_params.
  destruct (Z.eqb_spec mode py_str_full); [contradiction|]. destruct (Z.eqb_spec mode py_str_valid); [contradiction|].
  cbv zeta. destruct (if mc then _ else _) as [[ci co]|e]; cbn [pybind conv_proj]; [|eauto].
  destruct (match st with None => _ | Some _ => _ end); cbn [pybind conv_proj]; eauto.
Qed.
