(* LinopLeavesA.v — adjoint pairs for further leaf classes of the deep embedding
   (Reshape, Resize, Circshift, Slice/Embed, Transpose, Sum/Tile), discharging the node
   hypothesis of LinopTheory.adj_correct for them. *)
From Coq Require Import ZArith List Lia Bool Ring Permutation.
From SV Require Import lib.Scalar lib.BigSum lib.LoopIR lib.NdArray lib.Gather model.Rearrange model.Block model.Linop
  proofs.Rearrange proofs.LinopTheory proofs.LinopLeaves proofs.LinopScale.
Import ListNotations.
Local Open Scope Z_scope.

(* ================================================================ ring-independent index facts *)

Lemma prodZ_app a b : prodZ (a ++ b) = prodZ a * prodZ b.
Proof. induction a as [|n a IH]; cbn [app prodZ]; [lia|]. rewrite IH. ring. Qed.

Lemma prodZ_repeat1 k : prodZ (repeat 1 k) = 1.
Proof. induction k as [|k IH]; simpl; [reflexivity|]. rewrite IH. reflexivity. Qed.

Lemma Forall_pos_repeat1 k : Forall (fun n => 0 < n) (repeat 1 k).
Proof. induction k; simpl; constructor; [lia|assumption]. Qed.

(* reshape as an index map between boxes of equal size *)
Lemma reshape_index_ok s1 s2 idx :
  Forall (fun n => 0 < n) s1 -> prodZ s1 = prodZ s2 -> inbox s2 idx ->
  inbox s1 (unravel s1 (ravel s2 idx)) /\ ravel s1 (unravel s1 (ravel s2 idx)) = ravel s2 idx.
Proof.
  intros H1 Hp Hb. pose proof (ravel_bound s2 idx Hb) as Hr. rewrite <- Hp in Hr.
  destruct (ravel_unravel s1 _ H1 Hr) as [E B]. split; assumption.
Qed.

(* util._expand_shapes is symmetric, keeps sizes and positivity, and equalises ranks *)
Lemma expand_shapes_swap a b : expand_shapes b a = (snd (expand_shapes a b), fst (expand_shapes a b)).
Proof. unfold expand_shapes. cbn [fst snd]. rewrite (Nat.max_comm (length b) (length a)). reflexivity. Qed.

Lemma expand_shapes_facts a b :
  Forall (fun n => 0 < n) a -> Forall (fun n => 0 < n) b ->
  let i1 := fst (expand_shapes a b) in let o1 := snd (expand_shapes a b) in
  Forall (fun n => 0 < n) i1 /\ Forall (fun n => 0 < n) o1 /\ prodZ i1 = prodZ a /\ prodZ o1 = prodZ b /\
  length i1 = Nat.max (length a) (length b) /\ length o1 = Nat.max (length a) (length b).
Proof.
  intros Ha Hb. unfold expand_shapes. cbn [fst snd]. cbv zeta.
  repeat split.
  - apply Forall_app. split; [apply Forall_pos_repeat1|exact Ha].
  - apply Forall_app. split; [apply Forall_pos_repeat1|exact Hb].
  - rewrite prodZ_app, prodZ_repeat1. lia.
  - rewrite prodZ_app, prodZ_repeat1. lia.
  - rewrite app_length, repeat_length. lia.
  - rewrite app_length, repeat_length. lia.
Qed.

Lemma default_shift_swap a b : default_ishift b a = default_oshift a b /\ default_oshift b a = default_ishift a b.
Proof.
  unfold default_ishift, default_oshift. revert b; induction a as [|x a IH]; intros [|y b]; simpl; auto.
  destruct (IH b) as [E1 E2]. rewrite E1, E2. auto.
Qed.

Lemma zip2_length {A} (f : Z -> Z -> A) a b : length a = length b -> length (zip2 f a b) = length a.
Proof. revert b; induction a as [|x a IH]; intros [|y b]; simpl; try discriminate; auto. Qed.

Lemma zip2_max0_nonneg (g : Z -> Z -> Z) a b : Forall (fun v => 0 <= v) (zip2 (fun i o => Z.max (g i o) 0) a b).
Proof. revert b; induction a as [|x a IH]; intros [|y b]; simpl; constructor; [lia|apply IH]. Qed.

(* a shift argument of Resize: absent, or nonnegative of the expanded rank *)
Definition shift_ok (n : nat) (sh : option (list Z)) : Prop :=
  match sh with None => True | Some l => length l = n /\ Forall (fun v => 0 <= v) l end.
Definition shift_okb (n : nat) (sh : option (list Z)) : bool :=
  match sh with None => true | Some l => Nat.eqb (length l) n && nonneg_all l end.

Lemma shift_okb_spec n sh : shift_okb n sh = true -> shift_ok n sh.
Proof.
  destruct sh as [l|]; simpl; [|trivial]. intros H. apply andb_true_iff in H. destruct H as [H1 H2].
  apply Nat.eqb_eq in H1. split; [exact H1|]. unfold nonneg_all in H2. rewrite forallb_forall in H2.
  apply Forall_forall. intros v Hv. apply Z.leb_le. apply H2. exact Hv.
Qed.

(* ---- circular shifts: closed form of a sequence of rolls ---- *)
(* index map of a roll by t d along every axis d (axes numbered from d0) *)
Fixpoint rollidx (t : Z -> Z) (d : Z) (shape o : list Z) : list Z :=
  match shape, o with
  | n :: shape', k :: o' => ((k - t d) mod n) :: rollidx t (d + 1) shape' o'
  | _, _ => []
  end.

(* total shift received by axis d from circshift's loop *)
Fixpoint tot_shift (nd : Z) (shifts axes : list Z) (d : Z) : Z :=
  match shifts, axes with
  | s :: shifts', a :: axes' => (if d =? a mod nd then s else 0) + tot_shift nd shifts' axes' d
  | _, _ => 0
  end.

Lemma rollidx_inbox t d shape o : Forall (fun n => 0 < n) shape -> length o = length shape -> inbox shape (rollidx t d shape o).
Proof.
  intros Hp. revert d o; induction Hp as [|n shape Hn _ IH]; intros d [|k o]; simpl; try discriminate; auto.
  intros L. split; [apply Z.mod_pos_bound; lia| apply IH; lia].
Qed.

Lemma rollidx_compose t1 t2 d shape o :
  rollidx t2 d shape (rollidx t1 d shape o) = rollidx (fun e => t1 e + t2 e) d shape o.
Proof.
  revert d o; induction shape as [|n shape IH]; intros d [|k o]; simpl; auto.
  rewrite IH. f_equal. rewrite Zminus_mod_idemp_l. f_equal. ring.
Qed.

Lemma rollidx_ext t t' d shape o : (forall e, t e = t' e) -> rollidx t d shape o = rollidx t' d shape o.
Proof.
  intros H. revert d o; induction shape as [|n shape IH]; intros d [|k o]; simpl; auto.
  rewrite IH, H. reflexivity.
Qed.

Lemma rollidx_zero t d shape o : (forall e, t e = 0) -> inbox shape o -> rollidx t d shape o = o.
Proof.
  intros H. revert d o; induction shape as [|n shape IH]; intros d [|k o]; simpl; try tauto.
  intros [Hk Hb]. rewrite IH by exact Hb. rewrite H. f_equal. rewrite Z.sub_0_r. apply Z.mod_small. exact Hk.
Qed.

Lemma roll_map_axes a s d shape o : inbox shape o ->
  map_axes (mapi_aux (fun d n => if d =? a then (fun k => Some ((k - s) mod n)) else (fun k => Some k)) d shape) o
  = Some (rollidx (fun e => if e =? a then s else 0) d shape o).
Proof.
  revert d o; induction shape as [|n shape IH]; intros d [|k o]; simpl; try tauto.
  intros [Hk Hb]. rewrite IH by exact Hb. destruct (d =? a); [reflexivity|].
  rewrite Z.sub_0_r, Z.mod_small by exact Hk. reflexivity.
Qed.

Lemma tot_shift_opp nd shifts axes d : tot_shift nd (map Z.opp shifts) axes d = - tot_shift nd shifts axes d.
Proof.
  revert axes; induction shifts as [|s shifts IH]; intros [|a axes]; simpl; auto.
  rewrite IH. destruct (d =? a mod nd); lia.
Qed.

(* ---- basic indexing: one axis of slice.indices ---- *)
Lemma slice_indices_step n a b c lo cnt st : slice_indices n a b c = Some (lo, cnt, st) -> st <> 0.
Proof.
  unfold slice_indices. set (s := match c with Some s => s | None => 1 end).
  destruct (Z.eqb_spec s 0) as [|Hne]; [discriminate|].
  destruct (0 <? s); intros E; inversion E; subst; exact Hne.
Qed.

Lemma slice_indices_fwd n a b c lo cnt st t : 0 < n ->
  slice_indices n a b c = Some (lo, cnt, st) -> 0 <= t < cnt ->
  0 <= lo + st * t < n /\ (lo + st * t - lo) mod st = 0 /\ (lo + st * t - lo) / st = t.
Proof.
  intros Hn E Ht. pose proof (slice_indices_step _ _ _ _ _ _ _ E) as Hst.
  replace (lo + st * t - lo) with (t * st) by ring. rewrite Z_mod_mult, Z.div_mul by exact Hst.
  split; [|split; reflexivity].
  unfold slice_indices in E. set (s := match c with Some s => s | None => 1 end) in *.
  destruct (Z.eqb_spec s 0) as [|Hne]; [discriminate|].
  destruct (Z.ltb_spec 0 s) as [Hs|Hs].
  - set (l := match a with None => 0 | Some a0 => let a' := if a0 <? 0 then a0 + n else a0 in Z.max 0 (Z.min a' n) end) in *.
    set (h := match b with None => n | Some a0 => let a' := if a0 <? 0 then a0 + n else a0 in Z.max 0 (Z.min a' n) end) in *.
    assert (Hl : 0 <= l) by (unfold l; destruct a; cbv zeta; lia).
    assert (Hh : h <= n) by (unfold h; destruct b; cbv zeta; lia).
    inversion E; subst lo cnt st. clear E.
    assert (Hq : s * ((h - l + s - 1) / s) <= h - l + s - 1) by (apply Z.mul_div_le; lia).
    remember ((h - l + s - 1) / s) as q. nia.
  - set (l := match a with None => n - 1 | Some a0 => let a' := if a0 <? 0 then a0 + n else a0 in Z.max (-1) (Z.min a' (n - 1)) end) in *.
    set (h := match b with None => -1 | Some a0 => let a' := if a0 <? 0 then a0 + n else a0 in Z.max (-1) (Z.min a' (n - 1)) end) in *.
    assert (Hl : l <= n - 1) by (unfold l; destruct a; cbv zeta; lia).
    assert (Hh : -1 <= h) by (unfold h; destruct b; cbv zeta; lia).
    inversion E; subst lo cnt st. clear E.
    assert (Hm : 0 < - s) by lia.
    assert (Hq : (- s) * ((l - h + - s - 1) / - s) <= l - h + - s - 1) by (apply Z.mul_div_le; lia).
    remember ((l - h + - s - 1) / - s) as q. remember (- s) as m. assert (s = - m) by lia. subst s. nia.
Qed.

Lemma slice_indices_bwd st lo k : st <> 0 -> (k - lo) mod st = 0 -> lo + st * ((k - lo) / st) = k.
Proof. intros Hst Hm. pose proof (Z.div_mod (k - lo) st Hst). lia. Qed.

Lemma slice_shape_nil shape : slice_shape shape [] = Ok shape.
Proof. destruct shape; reflexivity. Qed.

Lemma slice_fwd shape : Forall (fun n => 0 < n) shape -> forall idx so o,
  slice_shape shape idx = Ok so -> inbox so o ->
  inbox shape (slice_gather shape idx o) /\ embed_lookup shape idx (slice_gather shape idx o) = Some o.
Proof.
  induction 1 as [|n shape Hn Hp IH]; intros idx so o Hs Hb.
  - destruct idx as [|[j|a b c] idx]; simpl in Hs; try discriminate. inversion Hs; subst so.
    destruct o; simpl in Hb; [|tauto]. simpl. auto.
  - destruct idx as [|[j|a b c] idx].
    + simpl in Hs. inversion Hs; subst so. destruct o as [|k o]; simpl in Hb; [tauto|]. destruct Hb as [Hk Hb].
      destruct (IH [] shape o (slice_shape_nil shape) Hb) as [B E]. cbn [slice_gather embed_lookup]. rewrite E.
      split; [split; assumption| reflexivity].
    + cbn [slice_shape] in Hs. set (k' := if j <? 0 then j + n else j) in *.
      destruct ((0 <=? k') && (k' <? n)) eqn:Hr; [|discriminate].
      apply andb_true_iff in Hr. destruct Hr as [H1 H2]. apply Z.leb_le in H1. apply Z.ltb_lt in H2.
      destruct (IH idx so o Hs Hb) as [B E]. cbn [slice_gather embed_lookup]. fold k'. rewrite Z.eqb_refl, E.
      split; [split; [lia|assumption]| reflexivity].
    + cbn [slice_shape] in Hs. destruct (slice_indices n a b c) as [[[lo cnt] st]|] eqn:Esl; [|discriminate].
      destruct (slice_shape shape idx) as [r|] eqn:Er; [|discriminate]. simpl in Hs. inversion Hs; subst so.
      destruct o as [|t o]; simpl in Hb; [tauto|]. destruct Hb as [Ht Hb].
      destruct (IH idx r o Er Hb) as [B E].
      destruct (slice_indices_fwd _ _ _ _ _ _ _ t Hn Esl Ht) as (Hrange & Hmod & Hdiv).
      cbn [slice_gather embed_lookup]. rewrite Esl. cbn [embed_lookup]. rewrite Hmod, Hdiv, E.
      replace (0 =? 0) with true by reflexivity.
      destruct (Z.leb_spec 0 t); [|lia]. destruct (Z.ltb_spec t cnt); [|lia]. cbn [andb].
      split; [split; assumption| reflexivity].
Qed.

Lemma slice_bwd shape : Forall (fun n => 0 < n) shape -> forall idx so i o,
  slice_shape shape idx = Ok so -> inbox shape i -> embed_lookup shape idx i = Some o ->
  inbox so o /\ slice_gather shape idx o = i.
Proof.
  induction 1 as [|n shape Hn Hp IH]; intros idx so i o Hs Hb He.
  - destruct idx as [|[j|a b c] idx]; simpl in Hs; try discriminate. inversion Hs; subst so.
    destruct i; simpl in Hb; [|tauto]. simpl in He. inversion He; subst o. simpl. auto.
  - destruct i as [|k i]; simpl in Hb; [tauto|]. destruct Hb as [Hk Hb].
    destruct idx as [|[j|a b c] idx].
    + simpl in Hs. inversion Hs; subst so. cbn [embed_lookup] in He.
      destruct (embed_lookup shape [] i) as [r|] eqn:Er; [|discriminate]. inversion He; subst o.
      destruct (IH [] shape i r (slice_shape_nil shape) Hb Er) as [B E]. cbn [slice_gather inbox]. rewrite E. auto.
    + cbn [slice_shape] in Hs. cbn [embed_lookup] in He. set (k' := if j <? 0 then j + n else j) in *.
      destruct ((0 <=? k') && (k' <? n)) eqn:Hr; [|discriminate].
      destruct (Z.eqb_spec k k') as [Ek|]; [|discriminate].
      destruct (IH idx so i o Hs Hb He) as [B E]. cbn [slice_gather]. fold k'. rewrite E, Ek. auto.
    + cbn [slice_shape] in Hs. cbn [embed_lookup] in He.
      destruct (slice_indices n a b c) as [[[lo cnt] st]|] eqn:Esl; [|discriminate].
      destruct (slice_shape shape idx) as [r|] eqn:Er; [|discriminate]. simpl in Hs. inversion Hs; subst so.
      destruct (Z.eqb_spec ((k - lo) mod st) 0) as [Hm|]; [|discriminate].
      destruct (Z.leb_spec 0 ((k - lo) / st)); [|discriminate].
      destruct (Z.ltb_spec ((k - lo) / st) cnt); [|discriminate]. cbn [andb] in He.
      destruct (embed_lookup shape idx i) as [r'|] eqn:Er'; [|discriminate]. inversion He; subst o.
      destruct (IH idx r i r' Er Hb Er') as [B E].
      cbn [slice_gather inbox]. rewrite Esl, E.
      rewrite (slice_indices_bwd st lo k (slice_indices_step _ _ _ _ _ _ _ Esl) Hm). auto.
Qed.

(* ---- boxes under append / reversal ---- *)
Lemma inbox_app s1 s2 o1 o2 : inbox s1 o1 -> inbox s2 o2 -> inbox (s1 ++ s2) (o1 ++ o2).
Proof.
  revert o1; induction s1 as [|n s1 IH]; intros [|k o1]; simpl; try tauto.
  intros [Hk Hb] H2. split; [exact Hk| apply IH; assumption].
Qed.

Lemma inbox_rev s o : inbox s o -> inbox (rev s) (rev o).
Proof.
  revert o; induction s as [|n s IH]; intros [|k o]; simpl; try tauto.
  intros [Hk Hb]. apply inbox_app; [apply IH; exact Hb| simpl; auto].
Qed.

(* ---- Sum / Tile: kept and removed axes as structural recursions ---- *)
Fixpoint remF (d : Z) (ax : list Z) (s : list Z) : list Z :=
  match s with [] => [] | n :: s' => if memZ d ax then remF (d + 1) ax s' else n :: remF (d + 1) ax s' end.
Fixpoint keepF (d : Z) (ax : list Z) (s : list Z) : list Z :=
  match s with [] => [] | n :: s' => if memZ d ax then n :: keepF (d + 1) ax s' else keepF (d + 1) ax s' end.

Lemma zrange0_aux {A} (s : list A) : zrange 0 (lenZ s) 1 = zrange_aux (length s) 0 1.
Proof.
  unfold zrange, lenZ. change (1 <=? 0) with false. cbv iota. rewrite Z.div_1_r.
  replace (Z.of_nat (length s) - 0 + 1 - 1) with (Z.of_nat (length s)) by lia. rewrite Nat2Z.id. reflexivity.
Qed.

Lemma remove_as_remF ax l m d : (length l <= m)%nat ->
  map snd (filter (fun p : Z * Z => negb (memZ (fst p) ax)) (combine (zrange_aux m d 1) l)) = remF d ax l.
Proof.
  revert m d; induction l as [|n l IH]; intros [|m] d H; simpl in *; try lia; try reflexivity.
  destruct (memZ d ax); simpl; rewrite IH by lia; reflexivity.
Qed.

Lemma keep_as_keepF ax l m d : (length l <= m)%nat ->
  map snd (filter (fun p : Z * Z => memZ (fst p) ax) (combine (zrange_aux m d 1) l)) = keepF d ax l.
Proof.
  revert m d; induction l as [|n l IH]; intros [|m] d H; simpl in *; try lia; try reflexivity.
  destruct (memZ d ax); simpl; rewrite IH by lia; reflexivity.
Qed.

Lemma remove_axes_remF s ax : remove_axes s ax = remF 0 ax s.
Proof. unfold remove_axes. rewrite zrange0_aux. apply remove_as_remF. lia. Qed.

Lemma keep_axes_keepF s ax : keep_axes s ax = keepF 0 ax s.
Proof. unfold keep_axes. rewrite zrange0_aux. apply keep_as_keepF. lia. Qed.

Lemma merge_axes_length d s ax o k : length (merge_axes d s ax o k) = length s.
Proof.
  revert d o k; induction s as [|n s IH]; intros d o k; simpl; [reflexivity|].
  destruct (memZ d ax); [destruct k | destruct o]; simpl; rewrite IH; reflexivity.
Qed.

Lemma merge_cons_in d n s ax o kk k : memZ d ax = true ->
  merge_axes d (n :: s) ax o (kk :: k) = kk :: merge_axes (d + 1) s ax o k.
Proof. intros E. simpl. rewrite E. reflexivity. Qed.

Lemma merge_cons_out d n s ax oo o k : memZ d ax = false ->
  merge_axes d (n :: s) ax (oo :: o) k = oo :: merge_axes (d + 1) s ax o k.
Proof. intros E. simpl. rewrite E. reflexivity. Qed.

Lemma rem_merge d s ax o k : length o = length (remF d ax s) -> remF d ax (merge_axes d s ax o k) = o.
Proof.
  revert d o k; induction s as [|n s IH]; intros d o k; simpl.
  - destruct o; [reflexivity|discriminate].
  - destruct (memZ d ax) eqn:E.
    + intros L. destruct k; simpl; rewrite E; apply IH; exact L.
    + destruct o as [|oo o]; simpl; [discriminate|]. intros L. rewrite E. f_equal. apply IH. lia.
Qed.

Lemma norm_axes_idem axes n : norm_axes_list (norm_axes_list axes n) n = norm_axes_list axes n.
Proof.
  unfold norm_axes_list. rewrite map_map. apply map_ext. intros a. apply Zmod_mod.
Qed.

(* ---- Transpose by a permutation: index plumbing ---- *)
Definition lookupZ (d : Z) (l : list (Z * Z)) : Z :=
  match filter (fun p => fst p =? d) l with p :: _ => snd p | [] => 0 end.

Lemma lookup_first p o e k : length p = length o -> (k < length p)%nat -> nth k p 0 = e ->
  (forall k', (k' < k)%nat -> nth k' p 0 <> e) -> lookupZ e (combine p o) = nth k o 0.
Proof.
  revert o k; induction p as [|a p IH]; intros [|b o] k L Hk He Hfirst; simpl in *; try lia.
  destruct k as [|k].
  - subst e. unfold lookupZ. simpl. rewrite Z.eqb_refl. reflexivity.
  - unfold lookupZ. simpl. destruct (Z.eqb_spec a e) as [Ea|Ea].
    + exfalso. apply (Hfirst 0%nat); [lia| exact Ea].
    + apply (IH o k); [lia | lia | exact He |]. intros k' Hk'. apply (Hfirst (S k')). lia.
Qed.

(* p and q are mutually inverse permutations of 0 .. nd-1 *)
Definition inv_perm (nd : Z) (p q : list Z) : Prop :=
  lenZ p = nd /\ lenZ q = nd /\
  (forall k, 0 <= k < nd -> 0 <= getZ p k < nd /\ getZ q (getZ p k) = k) /\
  (forall e, 0 <= e < nd -> 0 <= getZ q e < nd /\ getZ p (getZ q e) = e).

Lemma inv_perm_sym nd p q : inv_perm nd p q -> inv_perm nd q p.
Proof. intros (A & B & C & E). repeat split; auto; try apply E; try apply C; auto. Qed.

Lemma lookup_perm nd p q o e : inv_perm nd p q -> lenZ o = nd -> 0 <= e < nd ->
  lookupZ e (combine p o) = getZ o (getZ q e).
Proof.
  intros (Lp & Lq & Hp & Hq) Lo He. unfold lenZ in *.
  destruct (Hq e He) as [Hr Hpe].
  unfold getZ at 1. apply lookup_first.
  - lia.
  - lia.
  - exact Hpe.
  - intros k' Hk' E.
    assert (Hk : 0 <= Z.of_nat k' < nd) by lia.
    destruct (Hp _ Hk) as [_ Hqp]. unfold getZ at 2 in Hqp. rewrite Nat2Z.id, E in Hqp. lia.
Qed.

Definition permidx (nd : Z) (q o : list Z) : list Z := map (fun e => getZ o (getZ q e)) (zrange 0 nd 1).

Lemma zrange0_Z nd : zrange 0 nd 1 = zrange_aux (Z.to_nat nd) 0 1.
Proof.
  unfold zrange. change (1 <=? 0) with false. cbv iota. rewrite Z.div_1_r. f_equal. f_equal. lia.
Qed.

Lemma transpose_idx_eq nd p q o : inv_perm nd p q -> lenZ o = nd ->
  map (fun d => lookupZ d (combine p o)) (zrange 0 nd 1) = permidx nd q o.
Proof.
  intros H Lo. unfold permidx. apply map_ext_in. intros e He.
  apply zrange_in in He; [|lia]. apply (lookup_perm nd p q o e H Lo). lia.
Qed.

Lemma permidx_length nd q o : length (permidx nd q o) = Z.to_nat nd.
Proof. unfold permidx. rewrite map_length, zrange0_Z, zrange_aux_length. reflexivity. Qed.

Lemma permidx_get nd q o e : 0 <= e < nd -> getZ (permidx nd q o) e = getZ o (getZ q e).
Proof.
  intros He. unfold permidx. rewrite zrange0_Z. unfold getZ at 1.
  set (F := fun e0 => getZ o (getZ q e0)).
  rewrite (nth_indep _ 0 (F 0)) by (rewrite map_length, zrange_aux_length; lia).
  rewrite map_nth. rewrite zrange_aux_nth by lia. unfold F. f_equal. f_equal. lia.
Qed.

Lemma permidx_inv nd p q o :
  (forall k, 0 <= k < nd -> 0 <= getZ p k < nd /\ getZ q (getZ p k) = k) -> lenZ o = nd ->
  permidx nd p (permidx nd q o) = o.
Proof.
  intros Hp Lo. unfold lenZ in Lo. apply (nth_ext _ _ 0 0).
  - rewrite permidx_length. lia.
  - intros n Hn. rewrite permidx_length in Hn.
    assert (Hk : 0 <= Z.of_nat n < nd) by lia. destruct (Hp _ Hk) as [Hr Hqp].
    replace n with (Z.to_nat (Z.of_nat n)) at 1 by apply Nat2Z.id.
    change (getZ (permidx nd p (permidx nd q o)) (Z.of_nat n) = nth n o 0).
    rewrite permidx_get by exact Hk. rewrite permidx_get by exact Hr. rewrite Hqp.
    unfold getZ. rewrite Nat2Z.id. reflexivity.
Qed.

Lemma inbox_nth s o : inbox s o <-> (length o = length s /\ forall k, (k < length s)%nat -> 0 <= nth k o 0 < nth k s 0).
Proof.
  revert o; induction s as [|n s IH]; intros [|i o]; simpl.
  - split; [intros _; split; [reflexivity| intros; lia] | trivial].
  - split; [tauto | intros [H _]; discriminate].
  - split; [tauto | intros [H _]; discriminate].
  - rewrite IH. split.
    + intros [Hi [L H]]. split; [lia|]. intros [|k] Hk; [exact Hi| apply H; lia].
    + intros [L H]. split; [apply (H 0%nat); lia|]. split; [lia|]. intros k Hk. apply (H (S k)). lia.
Qed.

Lemma norm_perm_id nd p q : inv_perm nd p q -> map (fun a => a mod nd) p = p.
Proof.
  intros (Lp & _ & Hp & _). unfold lenZ in Lp. rewrite <- (map_id p) at 2. apply map_ext_in. intros a Ha.
  destruct (In_nth _ _ 0 Ha) as (k & Hk & E).
  assert (Hkz : 0 <= Z.of_nat k < nd) by lia. destruct (Hp _ Hkz) as [Hr _].
  unfold getZ in Hr. rewrite Nat2Z.id, E in Hr. apply Z.mod_small. exact Hr.
Qed.

Lemma nth_map_getZ i p m : (m < length p)%nat -> nth m (map (fun a => getZ i a) p) 0 = getZ i (nth m p 0).
Proof.
  intros Hm. rewrite (nth_indep _ 0 (getZ i 0)) by (rewrite map_length; exact Hm).
  apply (map_nth (fun a => getZ i a)).
Qed.

Lemma permidx_inbox_fwd i p q o : inv_perm (lenZ i) p q ->
  inbox (map (fun a => getZ i a) p) o -> inbox i (permidx (lenZ i) q o).
Proof.
  intros (Lp & Lq & Hp & Hq) Ho. apply inbox_nth in Ho. destruct Ho as [Lo Ho]. rewrite map_length in Lo, Ho.
  unfold lenZ in *. apply inbox_nth. split; [rewrite permidx_length; lia|].
  intros k Hk. assert (Hkz : 0 <= Z.of_nat k < Z.of_nat (length i)) by lia.
  destruct (Hq _ Hkz) as [Hr Hpq].
  pose proof (permidx_get (Z.of_nat (length i)) q o (Z.of_nat k) Hkz) as E. unfold getZ at 1 in E.
  rewrite Nat2Z.id in E. rewrite E.
  assert (Hm : (Z.to_nat (getZ q (Z.of_nat k)) < length p)%nat) by lia.
  specialize (Ho _ Hm). rewrite nth_map_getZ in Ho by exact Hm.
  change (nth (Z.to_nat (getZ q (Z.of_nat k))) p 0) with (getZ p (getZ q (Z.of_nat k))) in Ho.
  rewrite Hpq in Ho. unfold getZ at 3 in Ho. rewrite Nat2Z.id in Ho. exact Ho.
Qed.

Lemma permidx_inbox_bwd i p q idx : inv_perm (lenZ i) p q ->
  inbox i idx -> inbox (map (fun a => getZ i a) p) (permidx (lenZ i) p idx).
Proof.
  intros (Lp & Lq & Hp & Hq) Hi. apply inbox_nth in Hi. destruct Hi as [Li Hi].
  unfold lenZ in *. apply inbox_nth. rewrite map_length. split; [rewrite permidx_length; lia|].
  intros k Hk. assert (Hkz : 0 <= Z.of_nat k < Z.of_nat (length i)) by lia.
  destruct (Hp _ Hkz) as [Hr _].
  pose proof (permidx_get (Z.of_nat (length i)) p idx (Z.of_nat k) Hkz) as E. unfold getZ at 1 in E.
  rewrite Nat2Z.id in E. rewrite E. rewrite nth_map_getZ by exact Hk.
  replace (nth k p 0) with (getZ p (Z.of_nat k)) by (unfold getZ; rewrite Nat2Z.id; reflexivity).
  unfold getZ at 1 4. apply Hi. lia.
Qed.

(* boolean side condition: the axes are in range and np.argsort(axes) is their inverse permutation *)
Definition transpose_ok (i ax : list Z) : bool :=
  let nd := lenZ i in let q := argsort ax in
  (lenZ ax =? nd) && (lenZ q =? nd) &&
  forallb (fun k => (0 <=? getZ ax k) && (getZ ax k <? nd) && (getZ q (getZ ax k) =? k)) (zrange 0 nd 1) &&
  forallb (fun e => (0 <=? getZ q e) && (getZ q e <? nd) && (getZ ax (getZ q e) =? e)) (zrange 0 nd 1).

Lemma transpose_ok_spec i ax : transpose_ok i ax = true -> inv_perm (lenZ i) ax (argsort ax).
Proof.
  unfold transpose_ok. cbv zeta. rewrite !andb_true_iff, !Z.eqb_eq, !forallb_forall.
  intros [[[L1 L2] H1] H2]. repeat split; try assumption.
  - assert (In k (zrange 0 (lenZ i) 1)) as Hin by (apply zrange_in; [lia|]; rewrite Z.mod_1_r; lia).
    specialize (H1 _ Hin). rewrite !andb_true_iff in H1. destruct H1 as [[A B] C]. apply Z.leb_le in A. lia.
  - assert (In k (zrange 0 (lenZ i) 1)) as Hin by (apply zrange_in; [lia|]; rewrite Z.mod_1_r; lia).
    specialize (H1 _ Hin). rewrite !andb_true_iff in H1. destruct H1 as [[A B] C]. apply Z.ltb_lt in B. lia.
  - assert (In k (zrange 0 (lenZ i) 1)) as Hin by (apply zrange_in; [lia|]; rewrite Z.mod_1_r; lia).
    specialize (H1 _ Hin). rewrite !andb_true_iff in H1. destruct H1 as [[A B] C]. apply Z.eqb_eq in C. exact C.
  - assert (In e (zrange 0 (lenZ i) 1)) as Hin by (apply zrange_in; [lia|]; rewrite Z.mod_1_r; lia).
    specialize (H2 _ Hin). rewrite !andb_true_iff in H2. destruct H2 as [[A B] C]. apply Z.leb_le in A. lia.
  - assert (In e (zrange 0 (lenZ i) 1)) as Hin by (apply zrange_in; [lia|]; rewrite Z.mod_1_r; lia).
    specialize (H2 _ Hin). rewrite !andb_true_iff in H2. destruct H2 as [[A B] C]. apply Z.ltb_lt in B. lia.
  - assert (In e (zrange 0 (lenZ i) 1)) as Hin by (apply zrange_in; [lia|]; rewrite Z.mod_1_r; lia).
    specialize (H2 _ Hin). rewrite !andb_true_iff in H2. destruct H2 as [[A B] C]. apply Z.eqb_eq in C. exact C.
Qed.

(* ---- np.argsort of a permutation of 0..n-1 is its inverse ---- *)
Lemma range_map_getZ l : map (fun k => getZ l k) (zrange_aux (length l) 0 1) = l.
Proof.
  apply (nth_ext _ _ 0 0).
  - rewrite map_length, zrange_aux_length. reflexivity.
  - intros k Hk. rewrite map_length, zrange_aux_length in Hk.
    rewrite (nth_indep _ 0 (getZ l 0)) by (rewrite map_length, zrange_aux_length; exact Hk).
    rewrite (map_nth (fun k => getZ l k)). rewrite zrange_aux_nth by exact Hk. unfold getZ. f_equal. lia.
Qed.

Lemma filter_map_length {A B} (f : B -> bool) (g : A -> B) L :
  length (filter (fun b => f (g b)) L) = length (filter f (map g L)).
Proof. induction L as [|x L IH]; simpl; [reflexivity|]. destruct (f (g x)); simpl; rewrite IH; reflexivity. Qed.

Lemma perm_filter_length {A} (f : A -> bool) l l' : Permutation l l' -> length (filter f l) = length (filter f l').
Proof.
  induction 1 as [|x l l' _ IH|x y l|l l' l'' _ IH1 _ IH2]; simpl.
  - reflexivity.
  - destruct (f x); simpl; rewrite IH; reflexivity.
  - destruct (f x), (f y); reflexivity.
  - rewrite IH1. exact IH2.
Qed.

Lemma count_below_range t m lo :
  Z.of_nat (length (filter (fun v => v <? t) (zrange_aux m lo 1))) = Z.max 0 (Z.min (Z.of_nat m) (t - lo)).
Proof.
  revert lo; induction m as [|m IH]; intros lo; [simpl; lia|].
  cbn [zrange_aux filter]. destruct (Z.ltb_spec lo t); cbn [length]; rewrite ?Nat2Z.inj_succ, IH; lia.
Qed.

Lemma range_in n v : In v (zrange_aux n 0 1) <-> 0 <= v < Z.of_nat n.
Proof. rewrite zrange_aux_in by lia. split; [intros (k & Hk & ->); lia| intros H; exists v; lia]. Qed.

Definition is_perm (n : nat) (l : list Z) : Prop :=
  length l = n /\ Forall (fun a => 0 <= a < Z.of_nat n) l /\ NoDup l.

Lemma perm_range n l : is_perm n l -> Permutation l (zrange_aux n 0 1).
Proof.
  intros (L & F & ND). apply NoDup_Permutation_bis; [exact ND| rewrite zrange_aux_length; lia|].
  intros a Ha. apply range_in. rewrite Forall_forall in F. apply F. exact Ha.
Qed.

Lemma perm_inj n l a b : is_perm n l -> 0 <= a < Z.of_nat n -> 0 <= b < Z.of_nat n -> getZ l a = getZ l b -> a = b.
Proof.
  intros (L & _ & ND) Ha Hb E. unfold getZ in E.
  assert (Z.to_nat a = Z.to_nat b); [|lia].
  apply (proj1 (NoDup_nth l 0) ND); lia.
Qed.

Lemma perm_val n l a : is_perm n l -> 0 <= a < Z.of_nat n -> 0 <= getZ l a < Z.of_nat n.
Proof.
  intros (L & F & _) Ha. rewrite Forall_forall in F. apply F. unfold getZ. apply nth_In. lia.
Qed.

Lemma perm_surj n l e : is_perm n l -> 0 <= e < Z.of_nat n -> exists a, 0 <= a < Z.of_nat n /\ getZ l a = e.
Proof.
  intros H He. pose proof H as (L & _ & _).
  assert (Hin : In e l).
  { apply (Permutation_in e (Permutation_sym (perm_range n l H))). apply range_in. exact He. }
  destruct (In_nth _ _ 0 Hin) as (k & Hk & E). exists (Z.of_nat k). split; [lia|]. unfold getZ. rewrite Nat2Z.id. exact E.
Qed.

Lemma rank_perm n l a : is_perm n l -> 0 <= a < Z.of_nat n ->
  Z.of_nat (length (filter (fun b => (getZ l b <? getZ l a) || ((getZ l b =? getZ l a) && (b <? a))) (zrange_aux n 0 1)))
  = getZ l a.
Proof.
  intros H Ha. pose proof H as (L & _ & _).
  rewrite (filter_ext_in _ (fun b => (fun v => v <? getZ l a) (getZ l b))).
  2:{ intros b Hb. apply range_in in Hb. cbv beta.
      destruct (Z.eqb_spec (getZ l b) (getZ l a)) as [E|E]; cbn [andb]; [|apply orb_false_r].
      pose proof (perm_inj n l b a H Hb Ha E). subst b. rewrite !Z.ltb_irrefl. reflexivity. }
  rewrite (filter_map_length (fun v => v <? getZ l a) (fun b => getZ l b)).
  rewrite <- L at 1. rewrite range_map_getZ.
  rewrite (perm_filter_length _ _ _ (perm_range n l H)).
  rewrite count_below_range. pose proof (perm_val n l a H Ha). lia.
Qed.

Lemma hd_filter_unique (P : Z -> bool) L a d :
  In a L -> P a = true -> (forall b, In b L -> P b = true -> b = a) -> hd d (filter P L) = a.
Proof.
  intros Hin Hp Hu. assert (Hf : In a (filter P L)) by (apply filter_In; auto).
  destruct (filter P L) as [|h t] eqn:E; [contradiction|]. simpl.
  assert (Hh : In h (filter P L)) by (rewrite E; left; reflexivity).
  apply filter_In in Hh. destruct Hh. auto.
Qed.

Lemma argsort_perm_form n l : is_perm n l ->
  argsort l = map (fun k => hd 0 (filter (fun a => getZ l a =? k) (zrange_aux n 0 1))) (zrange_aux n 0 1).
Proof.
  intros H. pose proof H as (L & _ & _). unfold argsort. cbv zeta. rewrite zrange0_aux, L.
  apply map_ext. intros k. unfold hd.
  erewrite filter_ext_in; [reflexivity|].
  intros a Ha. apply range_in in Ha. cbv beta. rewrite (rank_perm n l a H Ha). reflexivity.
Qed.

Lemma argsort_perm_get n l e a : is_perm n l -> 0 <= a < Z.of_nat n -> getZ l a = e -> getZ (argsort l) e = a.
Proof.
  intros H Ha E. pose proof (perm_val n l a H Ha) as He. rewrite E in He.
  rewrite (argsort_perm_form n l H). unfold getZ at 1.
  set (F := fun k => hd 0 (filter (fun a0 => getZ l a0 =? k) (zrange_aux n 0 1))).
  rewrite (nth_indep _ 0 (F 0)) by (rewrite map_length, zrange_aux_length; lia).
  rewrite (map_nth F). rewrite zrange_aux_nth by lia. unfold F.
  replace (0 + Z.of_nat (Z.to_nat e)) with e by lia.
  apply hd_filter_unique.
  - apply range_in. exact Ha.
  - apply Z.eqb_eq. exact E.
  - intros b Hb Pb. apply range_in in Hb. apply Z.eqb_eq in Pb. apply (perm_inj n l b a H Hb Ha). congruence.
Qed.

Lemma argsort_length l : length (argsort l) = length l.
Proof. unfold argsort. cbv zeta. rewrite map_length, zrange0_aux, zrange_aux_length. reflexivity. Qed.

Theorem argsort_inv_perm n l : is_perm n l -> inv_perm (Z.of_nat n) l (argsort l).
Proof.
  intros H. pose proof H as (L & _ & _). unfold inv_perm, lenZ. rewrite argsort_length, L.
  split; [reflexivity|]. split; [reflexivity|]. split.
  - intros k Hk. split; [apply (perm_val n l k H Hk)|]. apply (argsort_perm_get n l _ k H Hk). reflexivity.
  - intros e He. destruct (perm_surj n l e H He) as (a & Ha & E).
    rewrite (argsort_perm_get n l e a H Ha E). split; assumption.
Qed.

(* boolean form of "axes is a permutation of 0 .. nd-1" *)
Fixpoint nodupb (l : list Z) : bool :=
  match l with [] => true | a :: l' => negb (memZ a l') && nodupb l' end.

Lemma memZ_In a l : memZ a l = true <-> In a l.
Proof.
  unfold memZ. rewrite existsb_exists. split.
  - intros (x & Hx & E). apply Z.eqb_eq in E. subst. exact Hx.
  - intros H. exists a. split; [exact H| apply Z.eqb_refl].
Qed.

Lemma nodupb_spec l : nodupb l = true -> NoDup l.
Proof.
  induction l as [|a l IH]; simpl; intros H; constructor.
  - apply andb_true_iff in H. destruct H as [H _]. intros Hin. apply memZ_In in Hin. rewrite Hin in H. discriminate.
  - apply IH. apply andb_true_iff in H. tauto.
Qed.

Definition is_permb (n : nat) (l : list Z) : bool :=
  Nat.eqb (length l) n && forallb (fun a => (0 <=? a) && (a <? Z.of_nat n)) l && nodupb l.

Lemma is_permb_spec n l : is_permb n l = true -> is_perm n l.
Proof.
  unfold is_permb. rewrite !andb_true_iff. intros [[H1 H2] H3]. split; [apply Nat.eqb_eq; exact H1|]. split.
  - rewrite forallb_forall in H2. apply Forall_forall. intros a Ha. specialize (H2 a Ha).
    apply andb_true_iff in H2. destruct H2 as [A B]. apply Z.leb_le in A. apply Z.ltb_lt in B. lia.
  - apply nodupb_spec. exact H3.
Qed.

Lemma transpose_ok_complete i ax : inv_perm (lenZ i) ax (argsort ax) -> transpose_ok i ax = true.
Proof.
  intros (L1 & L2 & H1 & H2). unfold transpose_ok. cbv zeta.
  rewrite !andb_true_iff, !Z.eqb_eq, !forallb_forall. repeat split; try assumption.
  - intros k Hk. apply zrange_in in Hk; [|lia]. assert (Hk' : 0 <= k < lenZ i) by lia.
    destruct (H1 k Hk') as [A B]. rewrite !andb_true_iff, Z.leb_le, Z.ltb_lt, Z.eqb_eq. auto.
  - intros e He. apply zrange_in in He; [|lia]. assert (He' : 0 <= e < lenZ i) by lia.
    destruct (H2 e He') as [A B]. rewrite !andb_true_iff, Z.leb_le, Z.ltb_lt, Z.eqb_eq. auto.
Qed.

(* every permutation of 0 .. nd-1 passes the check: np.argsort really inverts it *)
Theorem transpose_ok_perm i ax : is_perm (length i) ax -> transpose_ok i ax = true.
Proof. intros H. apply transpose_ok_complete. apply (argsort_inv_perm (length i) ax H). Qed.

Section LeavesA.
  Variable R : StarRing.
  Add Ring RringLA : (SRth R).
  Notation farr := (list Z -> R).
  Variable arr : Z -> farr.
  Variable scal : Z -> R.
  Variable orc : linop -> farr -> farr.
  Notation D := (D R arr scal orc).
  Notation apair := (apair R arr scal orc).
  Notation adjoint_pair := (adjoint_pair R).
  Local Open Scope sr_scope.

  (* ---- a pure re-indexing by mutually inverse index maps is an adjoint pair ---- *)
  Lemma reindex_adjoint si so (f g : list Z -> list Z) :
    (forall o, inbox so o -> inbox si (f o) /\ g (f o) = o) ->
    (forall i, inbox si i -> inbox so (g i) /\ f (g i) = i) ->
    adjoint_pair si so (fun x o => x (f o)) (fun y i => y (g i)).
  Proof.
    intros H1 H2 x y.
    assert (P : pbij si so (fun _ => true) f (fun _ => true) g).
    { split.
      - intros o Ho _. destruct (H1 o Ho). auto.
      - intros i Hi _. destruct (H2 i Hi). auto. }
    exact (gather_adjoint R si so (fun _ => true) f (fun _ => true) g P x y).
  Qed.

  Lemma adjoint_pair_ext si so F G F' G' :
    (forall x o, inbox so o -> F x o = F' x o) -> (forall y i, inbox si i -> G y i = G' y i) ->
    adjoint_pair si so F G -> adjoint_pair si so F' G'.
  Proof.
    intros HF HG H x y.
    transitivity (inner so (F x) y).
    { unfold inner. apply sumB_ext. intros o Ho. rewrite HF by exact Ho. reflexivity. }
    rewrite H. unfold inner. apply sumB_ext. intros i Hi. rewrite HG by exact Hi. reflexivity.
  Qed.

  (* ================================================================ 1. Reshape *)
  (* wf (Reshape o i) only checks positivity (python's __init__ does not compare sizes either; numpy raises at
     apply), so equality of sizes is a hypothesis. *)
  Theorem reshape_adjoint s1 s2 :
    Forall (fun n => 0 < n) s1 -> Forall (fun n => 0 < n) s2 -> prodZ s1 = prodZ s2 ->
    adjoint_pair s1 s2 (reshape s1 s2) (reshape s2 s1).
  Proof.
    intros H1 H2 Hp. unfold reshape. apply (reindex_adjoint s1 s2 (fun idx => unravel s1 (ravel s2 idx)) (fun idx => unravel s2 (ravel s1 idx))).
    - intros o Ho. destruct (reshape_index_ok s1 s2 o H1 Hp Ho) as [B E]. split; [exact B|].
      rewrite E. apply unravel_ravel. exact Ho.
    - intros i Hi. destruct (reshape_index_ok s2 s1 i H2 (eq_sym Hp) Hi) as [B E]. split; [exact B|].
      rewrite E. apply unravel_ravel. exact Hi.
  Qed.

  Theorem apair_reshape o i : wf (Reshape o i) = true -> prodZ o = prodZ i -> apair (Reshape o i).
  Proof.
    intros Hwf Hp. unfold apair, LinopTheory.apair. unfold wf, oshape_of, ishape_of in *. simpl in *.
    destruct (finish o i) eqn:F; [|discriminate]. destruct (finish_pos _ _ _ F) as [Ho Hi].
    apply finish_ok in F. subst. simpl.
    unfold LinopTheory.D. simpl. apply reshape_adjoint; auto.
  Qed.

  (* ================================================================ 3. Resize (any ranks; util.resize in full) *)
  (* Covers expand_shapes with unequal ranks, the early-return reshape, default shifts and the reshape wrappers.
     Remaining hypothesis: each explicit shift list is nonnegative and has the expanded rank max(len i, len o)
     (negative shifts would make python's slices wrap; the per-axis model resize_ax is only a partial bijection
     for nonnegative shifts). *)
  Theorem resize_adjoint i o isf osf :
    Forall (fun n => 0 < n) i -> Forall (fun n => 0 < n) o ->
    shift_ok (Nat.max (length i) (length o)) isf -> shift_ok (Nat.max (length i) (length o)) osf ->
    adjoint_pair i o (resize i o isf osf) (resize o i osf isf).
  Proof.
    intros Hi Ho Hsi Hso. unfold resize. rewrite (expand_shapes_swap i o).
    destruct (expand_shapes_facts i o Hi Ho) as (P1 & P2 & E1 & E2 & L1 & L2).
    destruct (expand_shapes i o) as [i1 o1]. cbn [fst snd] in *.
    assert (Esym : zlist_eqb o1 i1 = zlist_eqb i1 o1).
    { apply eq_true_iff_eq. rewrite !zlist_eqb_spec. split; congruence. }
    rewrite Esym.
    assert (Hgen : forall si so, length si = length i1 -> length so = length i1 ->
              Forall (fun v => 0 <= v) si -> Forall (fun v => 0 <= v) so ->
              adjoint_pair i o
                (fun x => reshape o1 o (gatherN (zip4 resize_ax i1 o1 si so) (reshape i i1 x)))
                (fun y => reshape i1 i (gatherN (zip4 resize_ax o1 i1 so si) (reshape o o1 y)))).
    { intros si so Ls1 Ls2 F1 F2.
      apply (adjoint_pair_compose R i i1 o (reshape i i1) (reshape i1 i)
               (fun x => reshape o1 o (gatherN (zip4 resize_ax i1 o1 si so) x))
               (fun y => gatherN (zip4 resize_ax o1 i1 so si) (reshape o o1 y))).
      - apply reshape_adjoint; auto.
      - apply (adjoint_pair_compose R i1 o1 o (gatherN (zip4 resize_ax i1 o1 si so)) (gatherN (zip4 resize_ax o1 i1 so si))
                 (reshape o1 o) (reshape o o1)).
        + intros x y. apply resize_gather_adjoint; auto; lia.
        + apply reshape_adjoint; auto. }
    destruct (default_shift_swap i1 o1) as [D1 D2].
    assert (Ld1 : length (default_ishift i1 o1) = length i1) by (apply zip2_length; lia).
    assert (Ld2 : length (default_oshift i1 o1) = length i1) by (apply zip2_length; lia).
    assert (Nd1 : Forall (fun v => 0 <= v) (default_ishift i1 o1)) by apply zip2_max0_nonneg.
    assert (Nd2 : Forall (fun v => 0 <= v) (default_oshift i1 o1)) by apply zip2_max0_nonneg.
    destruct isf as [si|], osf as [so|]; cbn [andb shift_ok] in *; rewrite ?andb_false_r.
    - destruct Hsi, Hso. apply Hgen; auto; lia.
    - destruct Hsi. rewrite D1. apply Hgen; auto; lia.
    - destruct Hso. rewrite D2. apply Hgen; auto; lia.
    - rewrite andb_true_r. destruct (zlist_eqb i1 o1) eqn:E.
      + apply zlist_eqb_spec in E. subst o1. apply reshape_adjoint; auto. lia.
      + rewrite D1, D2. apply Hgen; auto.
  Qed.

  Theorem apair_resize o i isf osf :
    wf (Resize o i isf osf) = true ->
    shift_ok (Nat.max (length i) (length o)) isf -> shift_ok (Nat.max (length i) (length o)) osf ->
    apair (Resize o i isf osf).
  Proof.
    intros Hwf Hsi Hso. unfold apair, LinopTheory.apair. unfold wf, oshape_of, ishape_of in *. simpl in *.
    destruct (finish o i) eqn:F; [|discriminate]. destruct (finish_pos _ _ _ F) as [Ho Hi].
    apply finish_ok in F. subst. simpl.
    unfold LinopTheory.D. simpl. apply resize_adjoint; auto.
  Qed.

  (* ================================================================ 2. Circshift *)
  Lemma roll_closed shape s a (x : farr) o : inbox shape o ->
    roll shape s a x o = x (rollidx (fun e => if e =? a mod Z.of_nat (length shape) then s else 0)%Z 0%Z shape o).
  Proof.
    intros Hb. unfold roll, gatherN, mapi. rewrite roll_map_axes by exact Hb. reflexivity.
  Qed.

  Lemma circshift_loop_closed shape shifts axes (x : farr) o :
    Forall (fun n => (0 < n)%Z) shape -> inbox shape o ->
    circshift_loop R shape shifts axes x o = x (rollidx (tot_shift (Z.of_nat (length shape)) shifts axes) 0%Z shape o).
  Proof.
    intros Hp. revert axes x o; induction shifts as [|s shifts IH]; intros axes x o Hb.
    - simpl. rewrite rollidx_zero; auto.
    - destruct axes as [|a axes]; [simpl; rewrite rollidx_zero; auto|].
      cbn [circshift_loop]. rewrite IH by exact Hb.
      rewrite roll_closed by (apply rollidx_inbox; [exact Hp| apply inbox_length; exact Hb]).
      rewrite rollidx_compose. f_equal. apply rollidx_ext. intros e. simpl. lia.
  Qed.

  Theorem rollidx_adjoint shape t : Forall (fun n => 0 < n) shape ->
    adjoint_pair shape shape (fun x o => x (rollidx t 0%Z shape o)) (fun y i => y (rollidx (fun e => (- t e)%Z) 0%Z shape i)).
  Proof.
    intros Hp. apply reindex_adjoint; intros o Ho; (split; [apply rollidx_inbox; [exact Hp| apply inbox_length; exact Ho]|]);
      rewrite rollidx_compose; apply rollidx_zero; auto; intros; lia.
  Qed.

  Theorem circshift_adjoint shape shifts axes : Forall (fun n => 0 < n) shape ->
    adjoint_pair shape shape (circshift shape shifts axes) (circshift shape (map Z.opp shifts) axes).
  Proof.
    intros Hp. unfold circshift.
    set (ax := match axes with Some l => l | None => zrange 0 (Z.of_nat (length shape)) 1 end).
    eapply adjoint_pair_ext; [| |apply (rollidx_adjoint shape (tot_shift (Z.of_nat (length shape)) shifts ax) Hp)].
    - intros x o Ho. cbv beta. rewrite circshift_loop_closed by assumption. reflexivity.
    - intros y i Hi. cbv beta. rewrite circshift_loop_closed by assumption. f_equal.
      apply rollidx_ext. intros e. rewrite tot_shift_opp. reflexivity.
  Qed.

  Theorem apair_circshift s sh ax : wf (Circshift s sh ax) = true -> apair (Circshift s sh ax).
  Proof.
    intros Hwf. unfold apair, LinopTheory.apair. unfold wf, oshape_of, ishape_of in *. simpl in *.
    destruct (finish s s) eqn:F; [|discriminate]. destruct (finish_pos _ _ _ F) as [Hp _].
    apply finish_ok in F. subst. simpl.
    unfold LinopTheory.D. simpl. apply circshift_adjoint. exact Hp.
  Qed.

  (* ================================================================ 6. Slice / Embed (basic indices) *)
  Lemma partial_reindex_adjoint si so (f : list Z -> list Z) (g : list Z -> option (list Z)) :
    (forall o, inbox so o -> inbox si (f o) /\ g (f o) = Some o) ->
    (forall i o, inbox si i -> g i = Some o -> inbox so o /\ f o = i) ->
    adjoint_pair si so (fun x o => x (f o)) (fun y i => match g i with Some o => y o | None => 0 end).
  Proof.
    intros H1 H2.
    set (v' := fun i => match g i with Some _ => true | None => false end).
    set (f' := fun i => match g i with Some o => o | None => [] end).
    apply (adjoint_pair_ext si so (gather (fun _ => true) f) (gather v' f')).
    - intros x o _. reflexivity.
    - intros y i _. unfold gather, v', f'. destruct (g i); reflexivity.
    - intros x y. apply gather_adjoint. split.
      + intros o Ho _. destruct (H1 o Ho) as [B E]. unfold v', f'. rewrite E. auto.
      + intros i Hi V. unfold v', f' in *. destruct (g i) as [o|] eqn:E; [|discriminate].
        destruct (H2 i o Hi E). auto.
  Qed.

  Theorem slice_embed_adjoint shape idx so : Forall (fun n => 0 < n) shape -> slice_shape shape idx = Ok so ->
    adjoint_pair shape so (fun x o => x (slice_gather shape idx o))
                 (fun y i => match embed_lookup shape idx i with Some k => y k | None => 0 end).
  Proof.
    intros Hp Hs. apply partial_reindex_adjoint.
    - intros o Ho. exact (slice_fwd shape Hp idx so o Hs Ho).
    - intros i o Hi E. exact (slice_bwd shape Hp idx so i o Hs Hi E).
  Qed.

  Theorem apair_slice i idx : wf (Slice i idx) = true -> apair (Slice i idx).
  Proof.
    intros Hwf. unfold apair, LinopTheory.apair. unfold wf, oshape_of, ishape_of in *. cbn [shapes] in *.
    destruct (slice_shape i idx) as [so|] eqn:Es; [|discriminate]. cbn [bind] in *.
    destruct (finish so i) eqn:F; [|discriminate]. destruct (finish_pos _ _ _ F) as [_ Hi].
    apply finish_ok in F. subst. 
    unfold LinopTheory.D. cbn [adj den]. apply slice_embed_adjoint; assumption.
  Qed.

  Theorem apair_embed o idx : wf (Embed o idx) = true -> apair (Embed o idx).
  Proof.
    intros Hwf. unfold apair, LinopTheory.apair. unfold wf, oshape_of, ishape_of in *. cbn [shapes] in *.
    destruct (slice_shape o idx) as [si|] eqn:Es; [|discriminate]. cbn [bind] in *.
    destruct (finish o si) eqn:F; [|discriminate]. destruct (finish_pos _ _ _ F) as [Ho _].
    apply finish_ok in F. subst.
    unfold LinopTheory.D. cbn [adj den]. apply adjoint_pair_sym. apply slice_embed_adjoint; assumption.
  Qed.

  (* ================================================================ 4a. Transpose, axes = None (reversal) *)
  Theorem transpose_rev_adjoint s : adjoint_pair s (rev s) (fun x o => x (rev o)) (fun y i => y (rev i)).
  Proof.
    apply reindex_adjoint.
    - intros o Ho. split; [|apply rev_involutive]. rewrite <- (rev_involutive s). apply inbox_rev. exact Ho.
    - intros i Hi. split; [|apply rev_involutive]. apply inbox_rev. exact Hi.
  Qed.

  Theorem apair_transpose_none i : wf (Transpose i None) = true -> apair (Transpose i None).
  Proof.
    intros Hwf. unfold apair, LinopTheory.apair. unfold wf, oshape_of, ishape_of in *. cbn [shapes] in *.
    destruct (finish (rev i) i) eqn:F; [|discriminate]. apply finish_ok in F. subst.
    unfold LinopTheory.D. cbn [adj den den_transpose fst snd]. apply transpose_rev_adjoint.
  Qed.

  (* ================================================================ 5. Sum / Tile *)
  Lemma sum_list_app (a b : list R) : sum_list R (a ++ b) = sum_list R a + sum_list R b.
  Proof. induction a as [|v a IH]; simpl; [ring| rewrite IH; ring]. Qed.

  Lemma sum_list_flat_map {T} (f : T -> R) (h : Z -> list T) l :
    sum_list R (map f (flat_map h l)) = sumL l (fun v => sum_list R (map f (h v))).
  Proof.
    induction l as [|v l IH]; simpl; [reflexivity|]. rewrite map_app, sum_list_app, IH. reflexivity.
  Qed.

  Lemma sum_list_enum s (f : list Z -> R) : sum_list R (map f (enum_box s)) = sumB s f.
  Proof.
    revert f; induction s as [|n s IH]; intros f; simpl; [ring|].
    rewrite sum_list_flat_map, sumL_range0. apply sumZ_ext. intros i _.
    rewrite map_map. apply IH.
  Qed.

  (* a box sum splits into the removed-axes box and the kept-axes box *)
  Lemma sumB_split_axes ax s d (g : list Z -> R) :
    sumB s g = sumB (remF d ax s) (fun o => sumB (keepF d ax s) (fun k => g (merge_axes d s ax o k))).
  Proof.
    revert d g; induction s as [|n s IH]; intros d g; [reflexivity|].
    cbn [remF keepF]. destruct (memZ d ax) eqn:E.
    - cbn [sumB].
      transitivity (sumB (remF (d + 1) ax s) (fun o => sumZ n (fun kk =>
                      sumB (keepF (d + 1) ax s) (fun k => g (kk :: merge_axes (d + 1) s ax o k))))).
      2:{ apply sumB_ext. intros o _. apply sumZ_ext. intros kk _. apply sumB_ext. intros k _.
          rewrite merge_cons_in by exact E. reflexivity. }
      rewrite sumB_sumZ_exchange. apply sumZ_ext. intros kk _.
      apply (IH (d + 1)%Z (fun idx => g (kk :: idx))).
    - cbn [sumB]. apply sumZ_ext. intros oo _.
      rewrite (IH (d + 1)%Z (fun idx => g (oo :: idx))).
      apply sumB_ext. intros o _. apply sumB_ext. intros k _.
      rewrite merge_cons_out by exact E. reflexivity.
  Qed.

  Theorem sum_tile_adjoint s ax :
    adjoint_pair s (remF 0 ax s)
      (fun x o => sum_list R (map (fun k => x (merge_axes 0 s ax o k)) (enum_box (keepF 0 ax s))))
      (fun y idx => y (remF 0 ax idx)).
  Proof.
    intros x y. unfold inner. symmetry.
    rewrite (sumB_split_axes ax s 0%Z). apply sumB_ext. intros o Ho.
    rewrite sum_list_enum.
    rewrite (Rmul_comm (SRth R)), <- sumB_scale. apply sumB_ext. intros k _.
    rewrite rem_merge by (apply inbox_length; exact Ho). ring.
  Qed.

  Lemma den_sum_eq i axes (x : farr) : 
    den_sum R i axes x =
    (fun o => sum_list R (map (fun k => x (merge_axes 0 i (norm_axes_list axes (lenZ i)) o k))
                              (enum_box (keepF 0 (norm_axes_list axes (lenZ i)) i)))).
  Proof. unfold den_sum. rewrite keep_axes_keepF. reflexivity. Qed.

  Lemma den_tile_eq s axes (y : farr) idx : length idx = length s ->
    den_tile R s axes y idx = y (remF 0 (norm_axes_list axes (lenZ s)) idx).
  Proof.
    intros L. unfold den_tile. rewrite zrange0_aux. rewrite remove_as_remF by lia. reflexivity.
  Qed.

  Theorem apair_sum i axes : wf (Sum i axes) = true -> apair (Sum i axes).
  Proof.
    intros Hwf. unfold apair, LinopTheory.apair. unfold wf, oshape_of, ishape_of in *. cbn [shapes] in *.
    destruct (finish (remove_axes i (norm_axes_list axes (lenZ i))) i) eqn:F; [|discriminate].
    apply finish_ok in F. subst. cbn [fst snd].
    unfold LinopTheory.D. cbn [adj den]. rewrite remove_axes_remF.
    eapply adjoint_pair_ext; [| |apply (sum_tile_adjoint i (norm_axes_list axes (lenZ i)))].
    - intros x o _. rewrite den_sum_eq. reflexivity.
    - intros y idx Hb. rewrite den_tile_eq by (apply inbox_length; exact Hb). rewrite norm_axes_idem. reflexivity.
  Qed.

  Theorem apair_tile o axes : wf (Tile o axes) = true -> apair (Tile o axes).
  Proof.
    intros Hwf. unfold apair, LinopTheory.apair. unfold wf, oshape_of, ishape_of in *. cbn [shapes] in *.
    destruct (finish o (remove_axes o (norm_axes_list axes (lenZ o)))) eqn:F; [|discriminate].
    apply finish_ok in F. subst. cbn [fst snd].
    unfold LinopTheory.D. cbn [adj den]. rewrite remove_axes_remF.
    apply adjoint_pair_sym.
    eapply adjoint_pair_ext; [| |apply (sum_tile_adjoint o (norm_axes_list axes (lenZ o)))].
    - intros x k _. rewrite den_sum_eq. rewrite norm_axes_idem. reflexivity.
    - intros y idx Hb. rewrite den_tile_eq by (apply inbox_length; exact Hb). reflexivity.
  Qed.

  (* ================================================================ 4b. Transpose by a permutation *)
  Theorem transpose_perm_adjoint i p q : inv_perm (lenZ i) p q ->
    adjoint_pair i (map (fun a => getZ i a) p)
      (fun x o => x (permidx (lenZ i) q o)) (fun y idx => y (permidx (lenZ i) p idx)).
  Proof.
    intros H. pose proof H as (Lp & Lq & Hp & Hq). apply reindex_adjoint.
    - intros o Ho. split; [apply (permidx_inbox_fwd i p q o H Ho)|].
      apply permidx_inv; [exact Hp|]. apply inbox_length in Ho. rewrite map_length in Ho. unfold lenZ in *. lia.
    - intros idx Hi. split; [apply (permidx_inbox_bwd i p q idx H Hi)|].
      apply permidx_inv; [exact Hq|]. apply inbox_length in Hi. unfold lenZ in *. lia.
  Qed.

  (* Raw (possibly negative) axes: the true adjoint of the transpose by [ax] is the transpose by argsort of the
     NORMALISED axes (python: self.axes = [a % ndim ...]; iaxes = np.argsort(self.axes)). *)
  Theorem transpose_axes_adjoint i ax :
    let pn := map (fun a => (a mod lenZ i)%Z) ax in
    is_perm (length i) pn ->
    adjoint_pair i (map (fun a => getZ i a) pn)
      (den_transpose R i (Some ax)) (den_transpose R (map (fun a => getZ i a) pn) (Some (argsort pn))).
  Proof.
    intros pn H. pose proof (argsort_inv_perm _ _ H) as Hok. fold (lenZ i) in Hok.
    pose proof Hok as (Lp & Lq & Hp & Hq).
    unfold den_transpose. fold pn.
    assert (Los : lenZ (map (fun a => getZ i a) pn) = lenZ i) by (unfold lenZ in *; rewrite map_length; exact Lp).
    rewrite Los. rewrite (norm_perm_id _ _ _ (inv_perm_sym _ _ _ Hok)).
    eapply adjoint_pair_ext; [| |apply (transpose_perm_adjoint i pn (argsort pn) Hok)].
    - intros x o Ho. cbv beta. f_equal. symmetry. apply (transpose_idx_eq (lenZ i) pn (argsort pn) o Hok).
      apply inbox_length in Ho. rewrite map_length in Ho. unfold lenZ in *. lia.
    - intros y idx Hi. cbv beta. f_equal. symmetry.
      apply (transpose_idx_eq (lenZ i) (argsort pn) pn idx (inv_perm_sym _ _ _ Hok)).
      apply inbox_length in Hi. unfold lenZ in *. lia.
  Qed.

  (* UNRESTRICTED: raw axes, negative entries allowed; the only hypothesis is that the normalised axes
     form a permutation of 0 .. nd-1 (numpy raises otherwise). *)
  Theorem apair_transpose_some i ax :
    wf (Transpose i (Some ax)) = true -> is_perm (length i) (map (fun a => (a mod lenZ i)%Z) ax) ->
    apair (Transpose i (Some ax)).
  Proof.
    intros Hwf H.
    unfold apair, LinopTheory.apair. unfold wf, oshape_of, ishape_of in *. cbn [shapes] in *.
    destruct (finish (map (fun a => getZ i (a mod lenZ i)) ax) i) eqn:F; [|discriminate].
    apply finish_ok in F. subst. cbn [fst snd].
    unfold LinopTheory.D. cbn [adj den]. cbv zeta.
    rewrite <- (map_map (fun a => (a mod lenZ i)%Z) (fun a => getZ i a) ax).
    exact (transpose_axes_adjoint i ax H).
  Qed.

  Lemma norm_axes_small n ax : Forall (fun a => (0 <= a < n)%Z) ax -> map (fun a => (a mod n)%Z) ax = ax.
  Proof.
    intros F. rewrite <- (map_id ax) at 2. apply map_ext_in. intros a Ha.
    rewrite Forall_forall in F. apply Z.mod_small. apply F. exact Ha.
  Qed.

  (* already-normalised axes (what python stores and the serialiser emits) *)
  Theorem apair_transpose_perm i ax :
    wf (Transpose i (Some ax)) = true -> is_perm (length i) ax -> apair (Transpose i (Some ax)).
  Proof.
    intros Hwf H. apply apair_transpose_some; [exact Hwf|].
    destruct H as (L & F & ND). unfold lenZ. rewrite (norm_axes_small _ _ F). split; [exact L| split; assumption].
  Qed.
End LeavesA.

(* ================================================================ unconditional corollary over the enlarged leaf set *)
(* boolean side conditions under which a node's modelled adjoint is proved to be its true adjoint:
   - Reshape: equal sizes (numpy raises at apply otherwise; wf does not check it);
   - Resize: shifts absent or nonnegative of the expanded rank max(len ishape, len oshape);
   - Transpose with axes: the axes normalised by `a mod ndim` (negative entries allowed) are a permutation of 0..nd-1;
   - Circshift, Slice, Embed, Sum, Tile, Transpose(None): no condition beyond wf;
   - everything in LinopScale.proven_node. *)
Definition transpose_axes_okb (i ax : list Z) : bool := is_permb (length i) (map (fun a => a mod lenZ i) ax).

Definition proven_nodeA (L : linop) : bool :=
  match L with
  | Reshape o i => prodZ o =? prodZ i
  | Resize o i isf osf =>
      shift_okb (Nat.max (length i) (length o)) isf && shift_okb (Nat.max (length i) (length o)) osf
  | Transpose _ None => true
  | Transpose i (Some ax) => transpose_axes_okb i ax
  | Circshift _ _ _ | Slice _ _ | Embed _ _ | Sum _ _ | Tile _ _ => true
  | _ => proven_node L
  end.

Section CorA.
  Variable R : StarRing.
  Notation farr := (list Z -> R).
  Variable arr : Z -> farr.
  Variable scal : Z -> R.
  Variable orc : linop -> farr -> farr.

  Lemma proven_nodeA_apair L : proven_nodeA L = true -> wf L = true -> apair R arr scal orc L.
  Proof.
    destruct L; cbn [proven_nodeA]; intros Hp Hwf;
      try (apply proven_node_apair; assumption).
    - apply apair_reshape; [exact Hwf| apply Z.eqb_eq; exact Hp].
    - destruct axes as [ax|]; [| apply apair_transpose_none; exact Hwf].
      apply apair_transpose_some; [exact Hwf|]. apply is_permb_spec. exact Hp.
    - apply andb_true_iff in Hp. destruct Hp as [H1 H2].
      apply apair_resize; [exact Hwf| apply shift_okb_spec; exact H1| apply shift_okb_spec; exact H2].
    - apply apair_circshift; exact Hwf.
    - apply apair_sum; exact Hwf.
    - apply apair_tile; exact Hwf.
    - apply apair_slice; exact Hwf.
    - apply apair_embed; exact Hwf.
  Qed.

  (* NO node hypothesis left: every expression built with Conj, +, -, composition, a*A, A*a, -A over
     Identity / Flip / Downsample / Upsample / Reshape / Resize / Transpose / Circshift / Sum / Tile /
     Slice / Embed leaves (each passing its boolean side condition) has the modelled adjoint as its true adjoint *)
  Theorem adj_correct_provenA A :
    wf A = true -> nodes_ok (fun L => proven_nodeA L = true /\ wf L = true) A -> apair R arr scal orc A.
  Proof.
    intros Hwf Hn. apply adj_correct; [exact Hwf|].
    eapply nodes_ok_impl; [|exact Hn]. intros L [Hp Hw]. apply proven_nodeA_apair; assumption.
  Qed.
End CorA.

(* ---- the hypotheses are satisfiable ---- *)
Example ex_reshape : wf (Reshape [6] [2; 3]) = true /\ proven_nodeA (Reshape [6] [2; 3]) = true.
Proof. split; reflexivity. Qed.
Example ex_resize : wf (Resize [5; 2] [3] (Some [0; 1]) None) = true /\ proven_nodeA (Resize [5; 2] [3] (Some [0; 1]) None) = true.
Proof. split; reflexivity. Qed.
Example ex_transpose : wf (Transpose [2; 3; 4] (Some [-1; 0; -2])) = true /\ proven_nodeA (Transpose [2; 3; 4] (Some [-1; 0; -2])) = true.
Proof. split; reflexivity. Qed.
Example ex_slice : wf (Slice [5; 4; 6] [SSlice (Some (-1)) None (Some (-2)); SIdx (-1)]) = true.
Proof. reflexivity. Qed.
Example ex_tree :
  let A := Compose [Sum [3; 2] [-1]; Transpose [2; 3] None; Circshift [2; 3] [1; -2; 5] (Some [0; 1; -1]);
                    Slice [4; 3] [SSlice None None (Some 2)]; Reshape [4; 3] [12]] in
  wf A = true /\ nodes_ok (fun L => proven_nodeA L = true /\ wf L = true) A.
Proof. cbv zeta. split; [reflexivity|]. simpl. repeat split. Qed.
