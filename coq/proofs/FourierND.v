(* proofs/FourierND.v — lifting the one-dimensional DFT theory to any list of distinct axes of an
   N-dimensional array: operations along different axes commute, so
   (1) the order (and sign) of the listed axes is irrelevant,
   (2) the three passes of _fftc (all ifftshifts, all transforms, all fftshifts) fuse into one
       centred transform per axis,
   (3) ifft . fft = id, FFT^H = IFFT and Parseval hold axis by axis. *)
From Coq Require Import ZArith List Lia Bool Ring Permutation.
From SV Require Import lib.Scalar lib.BigSum lib.LoopIR lib.NdArray lib.Gather model.Rearrange model.Fourier
  proofs.Fourier1D.
Import ListNotations.
Local Open Scope Z_scope.

(* ---- lists ------------------------------------------------------------------------- *)
Lemma upd_length l a v : length (upd l a v) = length l.
Proof. revert a; induction l as [|x l IH]; intros [|a]; simpl; auto. Qed.

Lemma nthd_upd_same l a v : (a < length l)%nat -> nthd (upd l a v) a = v.
Proof. unfold nthd. revert a; induction l as [|x l IH]; intros [|a] H; simpl in *; try lia; auto. apply IH. lia. Qed.

Lemma nthd_upd_other l a b v : a <> b -> nthd (upd l a v) b = nthd l b.
Proof. unfold nthd. revert a b; induction l as [|x l IH]; intros [|a] [|b] H; simpl; try reflexivity; try lia. apply IH. lia. Qed.

Lemma upd_upd_same l a u v : upd (upd l a u) a v = upd l a v.
Proof. revert a; induction l as [|x l IH]; intros [|a]; simpl; auto. f_equal. apply IH. Qed.

Lemma upd_upd_comm l a b u v : a <> b -> upd (upd l a u) b v = upd (upd l b v) a u.
Proof. revert a b; induction l as [|x l IH]; intros [|a] [|b] H; simpl; try reflexivity; try lia. f_equal. apply IH. lia. Qed.

Lemma upd_nthd l a : upd l a (nthd l a) = l.
Proof. unfold nthd. revert a; induction l as [|x l IH]; intros [|a]; simpl; auto. f_equal. apply IH. Qed.

Lemma upd_beyond l a v : (length l <= a)%nat -> upd l a v = l.
Proof. revert a; induction l as [|x l IH]; intros [|a] H; simpl in *; auto; try lia. f_equal. apply IH. lia. Qed.

Lemma inbox_upd s idx a v : inbox s idx -> (0 <= v < nthd s a \/ (length s <= a)%nat) -> inbox s (upd idx a v).
Proof.
  unfold nthd. revert idx a; induction s as [|n s IH]; intros [|i idx] [|a]; simpl; try tauto.
  - intros [Hi Hb] [H|H]; [tauto| lia].
  - intros [Hi Hb] H. split; [assumption|]. apply IH; [assumption|]. destruct H; [left; assumption| right; lia].
Qed.

Lemma inbox_nthd s idx a : inbox s idx -> (a < length s)%nat -> 0 <= nthd idx a < nthd s a.
Proof.
  unfold nthd. revert idx a; induction s as [|n s IH]; intros [|i idx] [|a]; simpl; try tauto; try lia.
  intros [_ Hb] H. apply IH; [assumption| lia].
Qed.

Section ND.
  Variable R : StarRing.
  Add Ring Rr3 : (SRth R).
  Local Open Scope sr_scope.
  Notation farr := (list Z -> R).

  Definition eqbox (s : list Z) (x y : farr) : Prop := forall idx, inbox s idx -> x idx = y idx.

  Lemma eqbox_refl s x : eqbox s x x. Proof. intros idx _. reflexivity. Qed.
  Lemma eqbox_sym s x y : eqbox s x y -> eqbox s y x. Proof. intros H idx Hi. symmetry. apply H, Hi. Qed.
  Lemma eqbox_trans s x y z : eqbox s x y -> eqbox s y z -> eqbox s x z.
  Proof. intros H1 H2 idx Hi. rewrite H1, H2 by assumption. reflexivity. Qed.

  Lemma inner_eqbox s x x' y y' : eqbox s x x' -> eqbox s y y' -> inner s x y = inner s x' y'.
  Proof. intros Hx Hy. unfold inner. apply sumB_ext. intros idx Hi. rewrite Hx, Hy by assumption. reflexivity. Qed.

  Lemma forceA_eqbox s (x : farr) : Forall (fun n => (0 <= n)%Z) s -> eqbox s (forceA s x) x.
  Proof. intros Hs idx Hi. unfold forceA. apply of_list_tabulate; assumption. Qed.

  (* ---- along_k / along_g: extensionality, commutation, 1-D reading ---------------------- *)
  Lemma along_k_dft1 s a K (x : farr) idx :
    along_k s a K x idx = dft1 K (nthd s a) (fun j => x (upd idx a j)) (nthd idx a).
  Proof. reflexivity. Qed.

  Lemma along_k_ext s a K : forall x y, eqbox s x y -> eqbox s (along_k s a K x) (along_k s a K y).
  Proof.
    intros x y H idx Hi. unfold along_k. rewrite !osumZ_sumZ. apply sumZ_ext. intros j Hj.
    rewrite H; [reflexivity|]. apply inbox_upd; [assumption| left; assumption].
  Qed.

  Definition grange (g : Z -> Z -> Z) : Prop := forall n k, (0 < n)%Z -> (0 <= g n k < n)%Z.

  Lemma along_g_ext s a g : grange g -> forall x y, eqbox s x y -> eqbox s (along_g s a g x) (along_g s a g y).
  Proof.
    intros Hg x y H idx Hi. unfold along_g. apply H. apply inbox_upd; [assumption|].
    destruct (Nat.lt_ge_cases a (length s)) as [L|L]; [left|right; assumption].
    apply Hg. pose proof (inbox_nthd s idx a Hi L). lia.
  Qed.

  Lemma along_kk_comm s a b K1 K2 (x : farr) idx : a <> b ->
    along_k s a K1 (along_k s b K2 x) idx = along_k s b K2 (along_k s a K1 x) idx.
  Proof.
    intros Hab. unfold along_k. rewrite !osumZ_sumZ.
    rewrite (sumZ_ext R _ _ (fun j => sumZ (nthd s b) (fun i =>
               x (upd (upd idx a j) b i) * K2 (nthd s b) i (nthd idx b) * K1 (nthd s a) j (nthd idx a)))).
    2:{ intros j _. rewrite osumZ_sumZ, (Rmul_comm (SRth R)), <- sumZ_scale. apply sumZ_ext. intros i _.
        rewrite nthd_upd_other by assumption. ring. }
    rewrite sumZ_exchange. apply sumZ_ext. intros i _.
    rewrite osumZ_sumZ, (Rmul_comm (SRth R)), <- sumZ_scale. apply sumZ_ext. intros j _.
    rewrite nthd_upd_other by (intro; apply Hab; auto). rewrite (upd_upd_comm idx a b) by assumption. ring.
  Qed.

  Lemma along_gk_comm s a b g K (x : farr) idx : a <> b ->
    along_g s a g (along_k s b K x) idx = along_k s b K (along_g s a g x) idx.
  Proof.
    intros Hab. unfold along_g, along_k. rewrite !osumZ_sumZ.
    rewrite (nthd_upd_other idx a b) by assumption.
    apply sumZ_ext. intros i _.
    rewrite (nthd_upd_other idx b a) by (intro; apply Hab; auto).
    rewrite (upd_upd_comm idx a b) by assumption. reflexivity.
  Qed.

  Lemma along_gg_comm s a b g g' (x : farr) idx : a <> b ->
    along_g s a g (along_g s b g' x) idx = along_g s b g' (along_g s a g x) idx.
  Proof.
    intros Hab. unfold along_g.
    rewrite (nthd_upd_other idx a b) by assumption.
    rewrite (nthd_upd_other idx b a) by (intro; apply Hab; auto).
    rewrite (upd_upd_comm idx a b) by assumption. reflexivity.
  Qed.

  (* ---- folds of axis-indexed operator families ------------------------------------------ *)
  Section Folds.
    Variable s : list Z.
    Definition axfam := nat -> farr -> farr.
    Definition foldax (P : axfam) (l : list nat) (x : farr) : farr := fold_left (fun y a => P a y) l x.
    Definition ext1 (P : farr -> farr) : Prop := forall x y, eqbox s x y -> eqbox s (P x) (P y).
    Definition commute (P Q : farr -> farr) : Prop := forall x, eqbox s (P (Q x)) (Q (P x)).
    Definition fam_ext (P : axfam) : Prop := forall a, ext1 (P a).
    Definition fam_comm (P Q : axfam) : Prop := forall a b, a <> b -> commute (P a) (Q b).

    Lemma foldax_ext P l : fam_ext P -> ext1 (foldax P l).
    Proof.
      intros HP. induction l as [|a l IH]; intros x y H; simpl; [exact H|]. apply IH. apply HP. exact H.
    Qed.

    Lemma foldax_ext2 P P' l : fam_ext P' -> (forall a x, In a l -> eqbox s (P a x) (P' a x)) ->
      forall x y, eqbox s x y -> eqbox s (foldax P l x) (foldax P' l y).
    Proof.
      intros HP'. induction l as [|a l IH]; intros H x y Hxy; simpl; [exact Hxy|].
      apply IH; [intros; apply H; right; assumption|].
      eapply eqbox_trans; [apply H; left; reflexivity| apply HP'; exact Hxy].
    Qed.

    Lemma op_fold_comm (Q : farr -> farr) P l : fam_ext P -> ext1 Q ->
      (forall b, In b l -> commute Q (P b)) -> forall x, eqbox s (Q (foldax P l x)) (foldax P l (Q x)).
    Proof.
      intros HP HQ. induction l as [|b l IH]; intros H x; simpl; [apply eqbox_refl|].
      eapply eqbox_trans; [apply IH; intros; apply H; right; assumption|].
      apply foldax_ext; [exact HP|]. apply H. left. reflexivity.
    Qed.

    (* two passes over the same distinct axes fuse into one pass *)
    Lemma foldax_fuse P Q l : fam_ext P -> fam_ext Q -> fam_comm Q P -> NoDup l ->
      forall x, eqbox s (foldax Q l (foldax P l x)) (foldax (fun a y => Q a (P a y)) l x).
    Proof.
      intros HP HQ HC. induction l as [|a l IH]; intros ND x; simpl; [apply eqbox_refl|].
      inversion ND as [|? ? Hnotin ND']; subst.
      eapply eqbox_trans; [| apply IH; exact ND'].
      apply foldax_ext; [exact HQ|].
      apply op_fold_comm; [exact HP| apply HQ|].
      intros b Hb. apply HC. intro; subst; contradiction.
    Qed.

    Lemma foldax_perm P l l' : fam_ext P -> fam_comm P P -> Permutation l l' -> NoDup l ->
      forall x, eqbox s (foldax P l x) (foldax P l' x).
    Proof.
      intros HP HC Hperm. induction Hperm as [|a l l' Hp IH|a b l|l l' l'' Hp1 IH1 Hp2 IH2]; intros ND x; simpl.
      - apply eqbox_refl.
      - inversion ND; subst. apply IH. assumption.
      - inversion ND as [|? ? Hn ND']; subst. apply foldax_ext; [exact HP|].
        apply eqbox_sym. apply HC. intro; subst. apply Hn. left. reflexivity.
      - eapply eqbox_trans; [apply IH1; exact ND|]. apply IH2. eapply Permutation_NoDup; eassumption.
    Qed.

    Lemma fam_comm_compose P Q T : fam_ext T -> fam_ext Q -> fam_comm T P -> fam_comm T Q ->
      fam_comm T (fun a y => Q a (P a y)).
    Proof.
      intros HT HQ H1 H2 a b Hab x.
      eapply eqbox_trans; [apply H2; exact Hab|]. apply HQ. apply H1. exact Hab.
    Qed.

    Lemma foldax_id l x : foldax (fun _ y => y) l x = x.
    Proof. induction l; simpl; auto. Qed.
  End Folds.

  (* concrete families *)
  Definition Gf (s : list Z) (g : Z -> Z -> Z) : axfam := fun a => along_g s a g.
  Definition Kf (s : list Z) (K : Z -> Z -> Z -> R) : axfam := fun a => along_k s a K.

  Lemma Gf_ext s g : grange g -> fam_ext s (Gf s g).
  Proof. intros Hg a x y H. exact (along_g_ext s a g Hg x y H). Qed.
  Lemma Kf_ext s K : fam_ext s (Kf s K).
  Proof. intros a x y H. exact (along_k_ext s a K x y H). Qed.
  Lemma comm_GK s g K : fam_comm s (Gf s g) (Kf s K).
  Proof. intros a b Hab x idx _. apply along_gk_comm. exact Hab. Qed.
  Lemma comm_KG s g K : fam_comm s (Kf s K) (Gf s g).
  Proof. intros a b Hab x idx _. symmetry. apply along_gk_comm. intro; apply Hab; auto. Qed.
  Lemma comm_GG s g g' : fam_comm s (Gf s g) (Gf s g').
  Proof. intros a b Hab x idx _. apply along_gg_comm. exact Hab. Qed.
  Lemma comm_KK s K K' : fam_comm s (Kf s K) (Kf s K').
  Proof. intros a b Hab x idx _. apply along_kk_comm. exact Hab. Qed.

  (* ---- inverse and adjoint pairs along one axis ----------------------------------------- *)
  Lemma along_k_inverse s a K1 K2 : (a < length s)%nat ->
    (forall j l, (0 <= j < nthd s a)%Z -> (0 <= l < nthd s a)%Z ->
       sumZ (nthd s a) (fun k => K1 (nthd s a) j k * K2 (nthd s a) k l) = if (j =? l)%Z then 1 else 0) ->
    forall x, eqbox s (along_k s a K2 (along_k s a K1 x)) x.
  Proof.
    intros La H x idx Hi.
    assert (Li : (a < length idx)%nat) by (rewrite (inbox_length s idx Hi); exact La).
    pose proof (inbox_nthd s idx a Hi La) as Hk.
    rewrite along_k_dft1.
    transitivity (dft1 K2 (nthd s a) (dft1 K1 (nthd s a) (fun j => x (upd idx a j))) (nthd idx a)).
    - apply dft1_ext; [|reflexivity]. intros k _.
      rewrite along_k_dft1, nthd_upd_same by exact Li.
      apply dft1_ext; [|reflexivity]. intros j _. rewrite upd_upd_same. reflexivity.
    - rewrite (dft1_inverse R K1 K2 (nthd s a) H) by exact Hk. rewrite upd_nthd. reflexivity.
  Qed.

  Lemma along_k_adjoint s : forall a K1 K2,
    (forall n j k, (0 <= j < n)%Z -> (0 <= k < n)%Z -> K2 n k j = conj (K1 n j k)) ->
    forall x y : farr, inner s (along_k s a K1 x) y = inner s x (along_k s a K2 y).
  Proof.
    induction s as [|n s IH]; intros a K1 K2 HK x y.
    - unfold inner, along_k. simpl. destruct a; simpl; unfold osumZ; simpl; rewrite conj_zero; ring.
    - destruct a as [|a].
      + unfold inner. simpl.
        rewrite <- !sumB_sumZ_exchange. apply sumB_ext. intros idx _.
        apply (dft1_adjoint R K1 K2 n (HK n) (fun j => x (j :: idx)) (fun k => y (k :: idx))).
      + unfold inner. simpl. apply sumZ_ext. intros i _.
        apply (IH a K1 K2 HK (fun t => x (i :: t)) (fun t => y (i :: t))).
  Qed.

  Lemma foldax_adjoint s K1 K2 l :
    (forall n j k, (0 <= j < n)%Z -> (0 <= k < n)%Z -> K2 n k j = conj (K1 n j k)) ->
    forall x y : farr, inner s (foldax (Kf s K1) l x) y = inner s x (foldax (Kf s K2) (rev l) y).
  Proof.
    intros HK. induction l as [|a l IH]; intros x y; simpl; [reflexivity|].
    rewrite IH. unfold foldax at 2. rewrite fold_left_app. simpl.
    unfold Kf at 1 3. apply along_k_adjoint. exact HK.
  Qed.
End ND.

Arguments eqbox {R}. Arguments foldax {R}. Arguments Kf {R}. Arguments Gf {R}.
