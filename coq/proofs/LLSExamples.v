(* proofs/LLSExamples.v — the hypotheses of the C14 theorems are satisfiable (non-vacuity):
   X = Y = W = R with A x = c x, G x = d x; g the indicator of a box [lo, hi] (dom = the box, a genuinely
   extended-real convex function, prox = clip) or g = mu/2 x^2 (prox of C13's [prox_quad]); proxg = None. *)
From Coq Require Import Reals Lra Lia Psatz List Bool ZArith.
From SV Require Import model.ProxGrad proofs.ProxGrad model.LLS proofs.LLSBase proofs.LLSCG proofs.LLSPdhg proofs.LLSAdmm.
Local Open Scope R_scope.

(* ---- the box constraint on R: prox.BoxConstraint = np.clip -------------------------------- *)
Definition clipR (lo hi : R) (alpha : R) (v : R_IPS) : R_IPS := Rmin (Rmax v lo) hi.
Definition boxdom (lo hi : R) (x : R_IPS) : Prop := lo <= x <= hi.

Lemma box_convex lo hi : convex_on R_IPS (boxdom lo hi) (fun _ => 0).
Proof.
  intros a b t [Ha1 Ha2] [Hb1 Hb2] [Ht0 Ht1]. unfold boxdom in *. cbn. change (vec R_IPS) with R in *.
  split; [split; nra | lra].
Qed.

Lemma clip_vi lo hi : lo <= hi -> prox_vi_dom R_IPS (boxdom lo hi) (fun _ => 0) (clipR lo hi).
Proof.
  intros Hlh a v p Ha. unfold subgrad, boxdom, clipR. cbn. change (vec R_IPS) with R in *.
  assert (Hia : 0 < / a) by (apply Rinv_0_lt_compat; exact Ha).
  split.
  - intros <-. split.
    + unfold Rmin, Rmax. destruct (Rle_dec v lo); destruct (Rle_dec _ hi); lra.
    + intros w [Hw1 Hw2].
      assert (Hs : (v + -1 * Rmin (Rmax v lo) hi) * (w + -1 * Rmin (Rmax v lo) hi) <= 0).
      { unfold Rmin, Rmax. destruct (Rle_dec v lo); destruct (Rle_dec _ hi); nra. }
      rewrite Rmult_assoc.
      assert (0 <= / a * - ((v + -1 * Rmin (Rmax v lo) hi) * (w + -1 * Rmin (Rmax v lo) hi))) by (apply Rmult_le_pos; lra).
      lra.
  - intros [[Hp1 Hp2] H].
    assert (Hz : forall w, lo <= w <= hi -> (v + -1 * p) * (w + -1 * p) <= 0).
    { intros w Hw. specialize (H w Hw). rewrite Rmult_assoc in H.
      destruct (Rle_lt_dec ((v + -1 * p) * (w + -1 * p)) 0) as [|Hpos]; [assumption|].
      assert (0 < / a * ((v + -1 * p) * (w + -1 * p))) by (apply Rmult_lt_0_compat; assumption). lra. }
    pose proof (Hz lo ltac:(lra)) as Hlo. pose proof (Hz hi ltac:(lra)) as Hhi.
    unfold Rmin, Rmax. destruct (Rle_dec v lo); destruct (Rle_dec _ hi); nra.
Qed.

Section OnR.
  Variables (c d yv lamv zv lo hi rho : R).
  Hypothesis Hlam : 0 <= lamv.
  Hypothesis Hbox : lo <= hi.
  Hypothesis Hrho : 0 < rho.

  Definition exG (x : R_IPS) : R_IPS := d * x.
  Lemma exG_adj (x u : R_IPS) : ip (exG x) u = ip x (exG u).
  Proof. unfold exG. cbn. ring. Qed.

  Notation RV := (IPSV R_IPS).

  (* CG: all hypotheses discharged *)
  Lemma cg_example x :
    (cg_op ROps RV RV (exA1 c) (exA1 c) lamv x = cg_rhs ROps RV RV (exA1 c) yv lamv (Some zv)
     <-> gradfsm R_IPS R_IPS (exA1 c) (exA1 c) yv lamv zv x = v0) /\
    (gradfsm R_IPS R_IPS (exA1 c) (exA1 c) yv lamv zv x = v0
     <-> forall x', fsm R_IPS R_IPS (exA1 c) yv lamv zv x <= fsm R_IPS R_IPS (exA1 c) yv lamv zv x').
  Proof. exact (cg_solves_documented_lemma R_IPS R_IPS (exA1 c) (exA1 c) (exA1_adj c) yv lamv (Some zv) Hlam x). Qed.

  (* GradientMethod with the box constraint as proxg *)
  Lemma gm_box_example acc alpha (st : gm_state ROps RV) :
    0 < alpha -> (acc = true -> gm_z st = gm_x st) ->
    (gm_x (lls_gm_step ROps RV RV (exA1 c) (exA1 c) yv lamv (Some zv) (Some (clipR lo hi)) acc alpha st) = gm_x st
     <-> is_min R_IPS R_IPS R_IPS (exA1 c) (idX R_IPS) yv lamv zv (boxdom lo hi) (fun _ => 0) (gm_x st)).
  Proof.
    exact (gm_fixed_iff_min_lemma R_IPS R_IPS (exA1 c) (exA1 c) (exA1_adj c) yv lamv (Some zv) Hlam
             (boxdom lo hi) (fun _ => 0) (box_convex lo hi) (Some (clipR lo hi)) (clip_vi lo hi Hbox) acc alpha st).
  Qed.

  (* PDHG without G, box constraint, lamda and z present *)
  Lemma pdhg_box_example (st : pd_state ROps RV RV R R) :
    0 < pd_tau st -> 0 < pd_sigma st -> pd_xext st = pd_x st ->
    let st' := lls_pdhg_step ROps RV RV (exA1 c) (exA1 c) yv lamv (Some zv) (Some (clipR lo hi)) st in
    (pd_x st' = pd_x st /\ pd_u st' = pd_u st) <->
    (is_min R_IPS R_IPS R_IPS (exA1 c) (idX R_IPS) yv lamv zv (boxdom lo hi) (fun _ => 0) (pd_x st) /\
     pd_u st = vminus (exA1 c (pd_x st)) yv).
  Proof.
    exact (pdhg_fixed_iff_min_lemma R_IPS R_IPS (exA1 c) (exA1 c) (exA1_adj c) yv lamv (Some zv) Hlam
             (boxdom lo hi) (fun _ => 0) (box_convex lo hi) (Some (clipR lo hi)) (clip_vi lo hi Hbox) st).
  Qed.

  (* PDHG with G, box constraint on G x *)
  Lemma pdhgG_box_example (st : pd_state ROps RV (stackU ROps RV RV) R R) :
    0 < pd_tau st -> 0 < pd_sigma st -> pd_xext st = pd_x st ->
    let st' := lls_pdhgG_step ROps RV RV RV (exA1 c) (exA1 c) exG exG yv lamv (Some zv) (Some (clipR lo hi)) st in
    pd_x st' = pd_x st -> pd_u st' = pd_u st ->
    is_min R_IPS R_IPS R_IPS (exA1 c) exG yv lamv zv (boxdom lo hi) (fun _ => 0) (pd_x st).
  Proof.
    exact (pdhgG_fixed_min_lemma R_IPS R_IPS R_IPS (exA1 c) (exA1 c) exG exG (exA1_adj c) exG_adj yv lamv (Some zv) Hlam
             (boxdom lo hi) (fun _ => 0) (Some (clipR lo hi)) (clip_vi lo hi Hbox) st).
  Qed.

  (* ADMM with G and with proxg = None *)
  Lemma admmG_box_example x v u :
    admmG_fixed R_IPS R_IPS R_IPS (exA1 c) (exA1 c) exG exG yv lamv (Some zv) (Some (clipR lo hi)) rho x v u ->
    v = exG x /\ is_min R_IPS R_IPS R_IPS (exA1 c) exG yv lamv zv (boxdom lo hi) (fun _ => 0) x.
  Proof.
    exact (admmG_fixed_min_lemma R_IPS R_IPS R_IPS (exA1 c) (exA1 c) exG exG (exA1_adj c) exG_adj yv lamv (Some zv) Hlam
             (boxdom lo hi) (fun _ => 0) (Some (clipR lo hi)) (clip_vi lo hi Hbox) rho Hrho x v u).
  Qed.

  Lemma admm_noprox_example x v u :
    admm_fixed R_IPS R_IPS (exA1 c) (exA1 c) yv lamv None None rho x v u <->
    (v = x /\ is_min R_IPS R_IPS R_IPS (exA1 c) (idX R_IPS) yv lamv v0 (fun _ => True) (fun _ => 0) x /\
     vmul rho u = vmul (-1) (gradfsm R_IPS R_IPS (exA1 c) (exA1 c) yv lamv v0 x)).
  Proof.
    exact (admm_fixed_iff_min_lemma R_IPS R_IPS (exA1 c) (exA1 c) (exA1_adj c) yv lamv None Hlam
             (fun _ => True) (fun _ => 0) (convex_on_zero R_IPS) None (conj (fun _ => I) (fun _ => eq_refl)) rho Hrho x v u).
  Qed.
End OnR.

(* a concrete instance with numbers: A = 2, y = 6, lamda = 0, box [0, 1]: the minimiser of 1/2 (2x - 6)^2 over
   [0, 1] is x = 1 (the unconstrained one is 3), and (x, u) = (1, 2*1 - 6) is reproduced by the configured PDHG step *)
Example pdhg_box_numbers :
  let st := mkPD (S := ROps) (X := IPSV R_IPS) (U := IPSV R_IPS) (1 : R_IPS) ((-4) : R_IPS) (1 : R_IPS) (1 / 8) 1 0 0 0 in
  let st' := lls_pdhg_step ROps (IPSV R_IPS) (IPSV R_IPS) (exA1 2) (exA1 2) 6 0 (Some (0 : R_IPS)) (Some (clipR 0 1)) st in
  pd_x st' = 1 /\ pd_u st' = -4.
Proof.
  intros st st'.
  apply (proj2 (pdhg_box_example 2 6 0 0 0 1 ltac:(lra) ltac:(lra) st ltac:(cbn; lra) ltac:(cbn; lra) eq_refl)).
  cbn [pd_x pd_u st]. split.
  - apply (min_iff_subgrad R_IPS R_IPS (exA1 2) (exA1 2) (exA1_adj 2) 6 0 0 ltac:(lra) (boxdom 0 1) (fun _ => 0) (box_convex 0 1)).
    unfold subgrad, boxdom, gradfsm, exA1. cbn. change (vec R_IPS) with R in *. split; [lra|]. intros v Hv. nra.
  - unfold exA1. cbn. ring.
Qed.
