(* LinopNormal.v — C04: the analytic shortcuts of _normal_linop are correct.
   LinopAlgebra.normal_shortcut reduces every Identity shortcut to the isometry  A^H (A x) = x  on the input box.
   This file proves that isometry, from the model's denotation, for
     * Transpose (axes None; axes a permutation after `a mod ndim`, negative entries allowed),
     * Circshift (any shifts / axes),
     * ArrayToBlocks when the blocks tile the array exactly (blocks_tile), 1 / 2 / 3 block axes, any batch,
     * BlocksToArray when the windows do not overlap (blocks_no_overlap), 1 / 2 / 3 block axes, any batch,
   through the GENERATED numba kernels (proofs/Block.v, proofs/Block2D3D.v), and combines them with the Identity /
   Reshape / default cases of LinopAlgebra into one theorem [normal_correct] over the boolean [normal_proved];
   FFT / IFFT stay under an explicit unitarity hypothesis on the oracle (supplied by C05). *)
From Coq Require Import ZArith List Lia Bool Ring.
From SV Require Import lib.Scalar lib.BigSum lib.LoopIR lib.NdArray lib.Gather gen.Gen_block
  model.Rearrange model.Block model.Linop
  proofs.SumTools proofs.Block proofs.Block2D3D proofs.LinopTheory proofs.LinopAlgebra proofs.LinopLeaves
  proofs.LinopScale proofs.LinopLeavesA proofs.LinopLeavesB.
Import ListNotations.
Local Open Scope Z_scope.

(* ================================================================ 1. Transpose, 2. Circshift *)
Section Perm.
  Variable R : StarRing.
  Notation farr := (list Z -> R).
  Variable arr : Z -> farr.
  Variable scal : Z -> R.
  Variable orc : linop -> farr -> farr.
  Notation D := (D R arr scal orc).

  (* axes = None: reversing twice *)
  Theorem transpose_none_iso i (x : farr) idx :
    D (adj (Transpose i None)) (D (Transpose i None) x) idx = x idx.
  Proof. unfold LinopTheory.D. cbn [adj den den_transpose]. rewrite rev_involutive. reflexivity. Qed.

  (* axes = Some ax: the adjoint transposes by argsort of the normalised axes, which undoes the permutation *)
  Theorem transpose_some_iso i ax (x : farr) idx :
    is_perm (length i) (map (fun a => a mod lenZ i) ax) -> inbox i idx ->
    D (adj (Transpose i (Some ax))) (D (Transpose i (Some ax)) x) idx = x idx.
  Proof.
    intros H Hb. set (pn := map (fun a => a mod lenZ i) ax) in *.
    pose proof (argsort_inv_perm _ _ H) as Hok. fold (lenZ i) in Hok.
    pose proof Hok as (Lp & Lq & Hp & Hq).
    unfold LinopTheory.D. cbn [adj den]. cbv zeta. fold pn. unfold den_transpose. fold pn.
    assert (Los : lenZ (map (fun a => getZ i a) pn) = lenZ i) by (unfold lenZ in *; rewrite map_length; exact Lp).
    rewrite Los. rewrite (norm_perm_id _ _ _ (inv_perm_sym _ _ _ Hok)).
    assert (Li : lenZ idx = lenZ i) by (unfold lenZ; rewrite (inbox_length _ _ Hb); reflexivity).
    change (x (map (fun d => lookupZ d (combine pn
                (map (fun d0 => lookupZ d0 (combine (argsort pn) idx)) (zrange 0 (lenZ i) 1))))
              (zrange 0 (lenZ i) 1)) = x idx).
    rewrite (transpose_idx_eq (lenZ i) (argsort pn) pn idx (inv_perm_sym _ _ _ Hok) Li).
    rewrite (transpose_idx_eq (lenZ i) pn (argsort pn) _ Hok).
    2:{ unfold lenZ. rewrite permidx_length. unfold lenZ. lia. }
    rewrite (permidx_inv (lenZ i) (argsort pn) pn idx Hq Li). reflexivity.
  Qed.

  Theorem normal_transpose i axes (x : farr) idx :
    match axes with None => True | Some ax => is_perm (length i) (map (fun a => a mod lenZ i) ax) end ->
    inbox i idx ->
    D (adj (Transpose i axes)) (D (Transpose i axes) x) idx = x idx /\
    D (normal (Transpose i axes)) x idx = D (adj (Transpose i axes)) (D (Transpose i axes) x) idx.
  Proof.
    intros H Hb.
    assert (E : D (adj (Transpose i axes)) (D (Transpose i axes) x) idx = x idx).
    { destruct axes as [ax|]; [apply transpose_some_iso; assumption| apply transpose_none_iso]. }
    split; [exact E|]. apply normal_shortcut; [exact I| exact E].
  Qed.

  (* rolling by the shifts and then by their negatives *)
  Theorem circshift_iso s sh ax (x : farr) idx :
    Forall (fun n => 0 < n) s -> inbox s idx ->
    D (adj (Circshift s sh ax)) (D (Circshift s sh ax) x) idx = x idx.
  Proof.
    intros Hp Hb. unfold LinopTheory.D. cbn [adj den]. unfold circshift.
    set (axl := match ax with Some l => l | None => zrange 0 (Z.of_nat (length s)) 1 end).
    rewrite circshift_loop_closed by assumption.
    rewrite circshift_loop_closed; [| exact Hp | apply rollidx_inbox; [exact Hp| apply inbox_length; exact Hb]].
    rewrite rollidx_compose. rewrite rollidx_zero; [reflexivity| | exact Hb].
    intros e. rewrite tot_shift_opp. lia.
  Qed.

  Theorem normal_circshift s sh ax (x : farr) idx :
    wf (Circshift s sh ax) = true -> inbox s idx ->
    D (adj (Circshift s sh ax)) (D (Circshift s sh ax) x) idx = x idx /\
    D (normal (Circshift s sh ax)) x idx = D (adj (Circshift s sh ax)) (D (Circshift s sh ax) x) idx.
  Proof.
    intros Hwf Hb. unfold wf in Hwf. cbn [shapes] in Hwf.
    destruct (finish s s) eqn:F; [|discriminate]. destruct (finish_pos _ _ _ F) as [Hp _].
    assert (E : D (adj (Circshift s sh ax)) (D (Circshift s sh ax) x) idx = x idx) by (apply circshift_iso; assumption).
    split; [exact E|]. apply normal_shortcut; [exact I| exact E].
  Qed.
End Perm.

(* ================================================================ 3./4. block operators *)
(* splitting an index of a concatenated box *)
Lemma inbox_app_split s1 s2 ov : inbox (s1 ++ s2) ov -> exists a b, ov = a ++ b /\ inbox s1 a /\ inbox s2 b.
Proof.
  intros H. destruct (inbox_app_inv _ _ _ H) as [H1 H2].
  exists (firstn (length s1) ov), (skipn (length s1) ov). split; [symmetry; apply firstn_skipn| auto].
Qed.

Lemma inbox_1 n b : inbox [n] b -> exists p, b = [p] /\ 0 <= p < n.
Proof. destruct b as [|p [|? ?]]; simpl; try tauto. intros [H _]. eauto. Qed.

Lemma inbox_2 n m b : inbox [n; m] b -> exists p q, b = [p; q] /\ 0 <= p < n /\ 0 <= q < m.
Proof. destruct b as [|p [|q [|? ?]]]; simpl; try tauto. intros [H [H' _]]. eauto. Qed.

Lemma all_pos_snoc1 bat n : all_pos (bat ++ [n]) = true -> 0 < n.
Proof.
  rewrite all_pos_app. intros H. apply andb_true_iff in H. destruct H as [_ H].
  apply all_pos_Forall in H. inversion H; assumption.
Qed.

Lemma all_pos_snoc2 bat n m : all_pos (bat ++ [n; m]) = true -> 0 < n /\ 0 < m.
Proof.
  rewrite all_pos_app. intros H. apply andb_true_iff in H. destruct H as [_ H].
  apply all_pos_Forall in H. inversion H as [|? ? Hn H']; subst. inversion H'; subst. auto.
Qed.

(* division facts for one block axis *)
Lemma blk_div_mod S nn t : 0 < S -> 0 <= t < S -> (nn * S + t) / S = nn /\ (nn * S + t) mod S = t.
Proof.
  intros HS Ht. split.
  - symmetry. apply (Z.div_unique _ S nn t); lia.
  - symmetry. apply (Z.mod_unique _ S nn t); lia.
Qed.

Lemma tile_div_lt n Bk p : 0 < Bk -> n mod Bk = 0 -> 0 <= p < n -> p / Bk < nblk n Bk Bk.
Proof.
  intros HB Hm Hp. unfold nblk. replace (n - Bk + Bk) with n by lia.
  pose proof (Z.div_mod n Bk ltac:(lia)) as E. rewrite Hm in E.
  apply Z.div_lt_upper_bound; [lia|]. lia.
Qed.

Section Pick.
  Variable R : StarRing.
  Add Ring RringN1 : (SRth R).
  Local Open Scope sr_scope.

  Lemma sumZ_pick n j (h : Z -> R) : (0 <= j)%Z ->
    sumZ n (fun k => if (k =? j)%Z then h k else 0) = if (j <? n)%Z then h j else 0.
  Proof.
    intros Hj. destruct (Z.ltb_spec j n) as [H|H].
    - apply sumZ_single. lia.
    - apply sumZ_none. intros k Hk. destruct (Z.eqb_spec k j); [lia| reflexivity].
  Qed.

  (* windows of length B <= S at stride S: position p lies in at most one window, namely block p / S at
     offset p mod S *)
  Lemma block_unique N B S p (g : Z -> Z -> R) : (0 < S)%Z -> (B <= S)%Z -> (0 <= p)%Z ->
    sumZ N (fun nn => sumZ B (fun t => if (nn * S + t =? p)%Z then g nn t else 0)) =
    if (p / S <? N)%Z && (p mod S <? B)%Z then g (p / S)%Z (p mod S)%Z else 0.
  Proof.
    intros HS HB Hp.
    pose proof (Z.div_mod p S ltac:(lia)) as Edm. pose proof (Z.mod_pos_bound p S HS) as Hmod.
    rewrite (sumZ_ext R N _ (fun nn => if (nn =? p / S)%Z then (if (p mod S <? B)%Z then g nn (p mod S)%Z else 0) else 0)).
    - rewrite sumZ_pick by (apply Z.div_pos; lia). destruct (p / S <? N)%Z, (p mod S <? B)%Z; reflexivity.
    - intros nn Hnn. destruct (Z.eqb_spec nn (p / S)) as [->|Hne].
      + rewrite (sumZ_ext R B _ (fun t => if (t =? p mod S)%Z then g (p / S)%Z t else 0)).
        * apply sumZ_pick. lia.
        * intros t Ht. remember (p / S)%Z as q. remember (p mod S)%Z as r.
          destruct (Z.eqb_spec (q * S + t) p), (Z.eqb_spec t r); try reflexivity; exfalso; nia.
      + apply sumZ_none. intros t Ht. destruct (Z.eqb_spec (nn * S + t) p) as [E|]; [|reflexivity].
        exfalso. apply Hne. apply (Z.div_unique p S nn t); lia.
  Qed.
End Pick.

Section Blk1.
  Variable R : StarRing.
  Add Ring RringN2 : (SRth R).
  Notation farr := (list Z -> R).
  Variable arr : Z -> farr.
  Variable scal : Z -> R.
  Variable orc : linop -> farr -> farr.
  Notation D := (D R arr scal orc).
  Local Open Scope sr_scope.

  Lemma wf_a2b1_pos bat n Bk Sk : wf (ArrayToBlocks (bat ++ [n]) [Bk] [Sk]) = true ->
    (0 < n)%Z /\ (0 < nblk n Bk Sk)%Z /\ (0 < Bk)%Z.
  Proof.
    intros Hwf. destruct (finish_of_wf_a2b bat n Bk Sk Hwf) as [F _].
    unfold finish in F. destruct (all_pos (bat ++ [nblk n Bk Sk; Bk]) && all_pos (bat ++ [n])) eqn:E; [|discriminate].
    apply andb_true_iff in E. destruct E as [E1 E2].
    apply all_pos_snoc2 in E1. apply all_pos_snoc1 in E2. tauto.
  Qed.

  (* Gram operator of ArrayToBlocks for non-overlapping windows (B <= S): the 0/1 mask of the covered positions *)
  Theorem a2b1_gram bat n Bk Sk (x : farr) bv p :
    wf (ArrayToBlocks (bat ++ [n]) [Bk] [Sk]) = true -> (Bk <= Sk)%Z -> inbox bat bv -> (0 <= p < n)%Z ->
    D (adj (ArrayToBlocks (bat ++ [n]) [Bk] [Sk])) (D (ArrayToBlocks (bat ++ [n]) [Bk] [Sk]) x) (bv ++ [p]) =
    if (p / Sk <? nblk n Bk Sk)%Z && (p mod Sk <? Bk)%Z then x (bv ++ [p]) else 0.
  Proof.
    intros Hwf HB Hbv Hp. destruct (wf_a2b1_pos _ _ _ _ Hwf) as (Hn & HN & HBk).
    assert (HS : (0 < Sk)%Z) by lia.
    cbn [adj]. rewrite D_b2a; [| rewrite wf_a2b_b2a; exact Hwf | exact HS | exact Hbv | exact Hp].
    rewrite (sumZ_ext R (nblk n Bk Sk) _ (fun nn => sumZ Bk (fun t =>
               if (nn * Sk + t =? p)%Z then x (bv ++ [p]) else 0))).
    2:{ intros nn Hnn. apply sumZ_ext. intros t Ht. destruct (Z.eqb_spec (nn * Sk + t) p) as [E|]; [|reflexivity].
        rewrite D_a2b by assumption. rewrite E. reflexivity. }
    rewrite (block_unique R (nblk n Bk Sk) Bk Sk p (fun _ _ => x (bv ++ [p]))) by lia.
    ring.
  Qed.

  (* 3. blocks tile the axis exactly: every position is covered by exactly one block entry *)
  Theorem a2b1_tile_iso bat n Bk (x : farr) bv p :
    wf (ArrayToBlocks (bat ++ [n]) [Bk] [Bk]) = true -> (n mod Bk = 0)%Z -> inbox bat bv -> (0 <= p < n)%Z ->
    D (adj (ArrayToBlocks (bat ++ [n]) [Bk] [Bk])) (D (ArrayToBlocks (bat ++ [n]) [Bk] [Bk]) x) (bv ++ [p]) = x (bv ++ [p]).
  Proof.
    intros Hwf Hm Hbv Hp. destruct (wf_a2b1_pos _ _ _ _ Hwf) as (Hn & HN & HBk).
    rewrite a2b1_gram by (try assumption; lia).
    pose proof (tile_div_lt n Bk p HBk Hm Hp) as H1. pose proof (Z.mod_pos_bound p Bk HBk) as H2.
    destruct (Z.ltb_spec (p / Bk) (nblk n Bk Bk)); [|lia]. destruct (Z.ltb_spec (p mod Bk) Bk); [|lia]. reflexivity.
  Qed.

  (* 4. windows that do not overlap (S >= B): scattering the blocks and gathering them again returns the blocks *)
  Theorem b2a1_iso bat n Bk Sk (y : farr) bv nn t :
    wf (BlocksToArray (bat ++ [n]) [Bk] [Sk]) = true -> (Bk <= Sk)%Z ->
    inbox bat bv -> (0 <= nn < nblk n Bk Sk)%Z -> (0 <= t < Bk)%Z ->
    D (adj (BlocksToArray (bat ++ [n]) [Bk] [Sk])) (D (BlocksToArray (bat ++ [n]) [Bk] [Sk]) y) (bv ++ [nn; t]) =
    y (bv ++ [nn; t]).
  Proof.
    intros Hwf HB Hbv Hnn Ht. pose proof Hwf as Hwf'. rewrite wf_a2b_b2a in Hwf'.
    destruct (wf_a2b1_pos _ _ _ _ Hwf') as (Hn & HN & HBk).
    assert (HS : (0 < Sk)%Z) by lia.
    cbn [adj]. rewrite D_a2b by assumption.
    pose proof (a2b_in_bounds n Bk Sk nn t HS Hnn Ht) as Hin.
    rewrite D_b2a; [| exact Hwf | exact HS | exact Hbv | nia].
    rewrite (block_unique R (nblk n Bk Sk) Bk Sk (nn * Sk + t)%Z (fun nn' t' => y (bv ++ [nn'; t']))) by nia.
    destruct (blk_div_mod Sk nn t HS ltac:(lia)) as [E1 E2]. rewrite E1, E2.
    destruct (Z.ltb_spec nn (nblk n Bk Sk)); [|lia]. destruct (Z.ltb_spec t Bk); [|lia]. cbn [andb]. ring.
  Qed.
End Blk1.

(* ---- one block axis, stated on the operator's own shapes ---- *)
Lemma blocks_tile_1 bat n Bk Sk : blocks_tile (bat ++ [n]) [Bk] [Sk] = true -> Bk = Sk /\ n mod Bk = 0.
Proof.
  unfold blocks_tile. cbn [length]. rewrite lastn_1. cbn [zip3 forallb]. rewrite andb_true_r.
  intros H. apply andb_true_iff in H. destruct H as [H1 H2]. apply Z.eqb_eq in H1. apply Z.eqb_eq in H2. auto.
Qed.

Lemma blocks_no_overlap_1 Bk Sk : blocks_no_overlap [Bk] [Sk] = true -> Bk <= Sk.
Proof. unfold blocks_no_overlap. cbn [combine forallb fst snd]. rewrite andb_true_r. apply Z.leb_le. Qed.

Section Blk1General.
  Variable R : StarRing.
  Notation farr := (list Z -> R).
  Variable arr : Z -> farr.
  Variable scal : Z -> R.
  Variable orc : linop -> farr -> farr.
  Notation D := (D R arr scal orc).

  Theorem a2b_tile_iso_1d i Bk Sk (x : farr) idx :
    i <> [] -> wf (ArrayToBlocks i [Bk] [Sk]) = true -> blocks_tile i [Bk] [Sk] = true ->
    inbox (ishape_of (ArrayToBlocks i [Bk] [Sk])) idx ->
    D (adj (ArrayToBlocks i [Bk] [Sk])) (D (ArrayToBlocks i [Bk] [Sk]) x) idx = x idx.
  Proof.
    intros Hne Hwf Ht Hb. destruct (last1_split i Hne) as (bat & n & ->).
    destruct (finish_of_wf_a2b bat n Bk Sk Hwf) as [F1 _].
    unfold ishape_of in Hb. rewrite shapes_a2b, F1 in Hb.
    destruct (blocks_tile_1 _ _ _ _ Ht) as [<- Hm].
    destruct (inbox_app_split _ _ _ Hb) as (bv & b & -> & Hbv & H1).
    destruct (inbox_1 _ _ H1) as (p & -> & Hp).
    apply a2b1_tile_iso; assumption.
  Qed.

  Theorem b2a_iso_1d o Bk Sk (y : farr) idx :
    o <> [] -> wf (BlocksToArray o [Bk] [Sk]) = true -> blocks_no_overlap [Bk] [Sk] = true ->
    inbox (ishape_of (BlocksToArray o [Bk] [Sk])) idx ->
    D (adj (BlocksToArray o [Bk] [Sk])) (D (BlocksToArray o [Bk] [Sk]) y) idx = y idx.
  Proof.
    intros Hne Hwf Ht Hb. destruct (last1_split o Hne) as (bat & n & ->).
    pose proof Hwf as Hwf'. rewrite wf_a2b_b2a in Hwf'.
    destruct (finish_of_wf_a2b bat n Bk Sk Hwf') as [_ F2].
    unfold ishape_of in Hb. rewrite shapes_b2a, F2 in Hb.
    apply blocks_no_overlap_1 in Ht.
    destruct (inbox_app_split _ _ _ Hb) as (bv & b & -> & Hbv & H1).
    destruct (inbox_2 _ _ _ H1) as (nn & t & -> & Hnn & Htt).
    apply b2a1_iso; assumption.
  Qed.
End Blk1General.

(* ================================================================ two block axes *)
Lemma lastn_app_len {A} (l r : list A) k : k = length r -> lastn k (l ++ r) = r.
Proof. intros ->. apply lastn_app'. Qed.

Lemma droplast_app_len {A} (l r : list A) k : k = length r -> droplast k (l ++ r) = l.
Proof. intros ->. apply droplast_app'. Qed.

Lemma num_blks_2 bat n1 n2 B1 B2 S1 S2 :
  num_blks (bat ++ [n1; n2]) [B1; B2] [S1; S2] = [nblk n1 B1 S1; nblk n2 B2 S2].
Proof. unfold num_blks. cbn [length]. rewrite (lastn_app_len bat [n1; n2]) by reflexivity. reflexivity. Qed.

Section Pick2.
  Variable R : StarRing.
  Add Ring RringN3 : (SRth R).
  Local Open Scope sr_scope.

  Lemma block_unique2 N1 N2 B1 B2 S1 S2 p1 p2 (g : Z -> Z -> Z -> Z -> R) :
    (0 < S1)%Z -> (B1 <= S1)%Z -> (0 <= p1)%Z -> (0 < S2)%Z -> (B2 <= S2)%Z -> (0 <= p2)%Z ->
    sumZ N1 (fun m1 => sumZ N2 (fun m2 => sumZ B1 (fun t1 => sumZ B2 (fun t2 =>
      if (m1 * S1 + t1 =? p1)%Z && (m2 * S2 + t2 =? p2)%Z then g m1 m2 t1 t2 else 0)))) =
    if ((p1 / S1 <? N1)%Z && (p1 mod S1 <? B1)%Z) && ((p2 / S2 <? N2)%Z && (p2 mod S2 <? B2)%Z)
    then g (p1 / S1)%Z (p2 / S2)%Z (p1 mod S1)%Z (p2 mod S2)%Z else 0.
  Proof.
    intros H1 H2 H3 H4 H5 H6.
    transitivity (sumZ N1 (fun m1 => sumZ B1 (fun t1 => if (m1 * S1 + t1 =? p1)%Z then
        (if (p2 / S2 <? N2)%Z && (p2 mod S2 <? B2)%Z then g m1 (p2 / S2)%Z t1 (p2 mod S2)%Z else 0) else 0))).
    { apply sumZ_ext. intros m1 _. rewrite sumZ_exchange. apply sumZ_ext. intros t1 _.
      rewrite <- (block_unique R N2 B2 S2 p2 (fun m2 t2 => g m1 m2 t1 t2)) by assumption.
      rewrite <- sumZ_if. apply sumZ_ext. intros m2 _. rewrite <- sumZ_if. apply sumZ_ext. intros t2 _.
      destruct (m1 * S1 + t1 =? p1)%Z, (m2 * S2 + t2 =? p2)%Z; reflexivity. }
    rewrite (block_unique R N1 B1 S1 p1
      (fun m1 t1 => if (p2 / S2 <? N2)%Z && (p2 mod S2 <? B2)%Z then g m1 (p2 / S2)%Z t1 (p2 mod S2)%Z else 0)) by assumption.
    destruct ((p1 / S1 <? N1)%Z && (p1 mod S1 <? B1)%Z), ((p2 / S2 <? N2)%Z && (p2 mod S2 <? B2)%Z); reflexivity.
  Qed.
End Pick2.

Section Blk2.
  Variable R : StarRing.
  Add Ring RringN4 : (SRth R).
  Notation farr := (list Z -> R).
  Variable arr : Z -> farr.
  Variable scal : Z -> R.
  Variable orc : linop -> farr -> farr.
  Notation D := (D R arr scal orc).
  Local Open Scope sr_scope.

  Lemma shapes_a2b2 bat n1 n2 B1 B2 S1 S2 :
    shapes (ArrayToBlocks (bat ++ [n1; n2]) [B1; B2] [S1; S2]) =
    finish (bat ++ [nblk n1 B1 S1; nblk n2 B2 S2; B1; B2]) (bat ++ [n1; n2]).
  Proof. cbn [shapes length]. rewrite (droplast_app_len bat [n1; n2]) by reflexivity. rewrite num_blks_2. reflexivity. Qed.

  Lemma shapes_b2a2 bat n1 n2 B1 B2 S1 S2 :
    shapes (BlocksToArray (bat ++ [n1; n2]) [B1; B2] [S1; S2]) =
    finish (bat ++ [n1; n2]) (bat ++ [nblk n1 B1 S1; nblk n2 B2 S2; B1; B2]).
  Proof. cbn [shapes length]. rewrite (droplast_app_len bat [n1; n2]) by reflexivity. rewrite num_blks_2. reflexivity. Qed.

  Lemma wf_a2b2_facts bat n1 n2 B1 B2 S1 S2 : wf (ArrayToBlocks (bat ++ [n1; n2]) [B1; B2] [S1; S2]) = true ->
    ishape_of (ArrayToBlocks (bat ++ [n1; n2]) [B1; B2] [S1; S2]) = bat ++ [n1; n2] /\
    ishape_of (BlocksToArray (bat ++ [n1; n2]) [B1; B2] [S1; S2]) = bat ++ [nblk n1 B1 S1; nblk n2 B2 S2; B1; B2] /\
    (0 < n1 /\ 0 < n2 /\ 0 < B1 /\ 0 < B2)%Z.
  Proof.
    intros Hwf. unfold wf in Hwf. unfold ishape_of. rewrite shapes_a2b2 in *. rewrite shapes_b2a2.
    unfold finish in *. rewrite (andb_comm (all_pos (bat ++ [n1; n2]))).
    destruct (all_pos (bat ++ [nblk n1 B1 S1; nblk n2 B2 S2; B1; B2]) && all_pos (bat ++ [n1; n2])) eqn:E; [|discriminate].
    apply andb_true_iff in E. destruct E as [E1 E2].
    apply all_pos_snoc2 in E2.
    replace (bat ++ [nblk n1 B1 S1; nblk n2 B2 S2; B1; B2]) with ((bat ++ [nblk n1 B1 S1; nblk n2 B2 S2]) ++ [B1; B2]) in E1
      by (rewrite <- app_assoc; reflexivity).
    apply all_pos_snoc2 in E1. repeat split; tauto.
  Qed.

  Lemma D_a2b2 bat n1 n2 B1 B2 S1 S2 (x : farr) bv m1 m2 t1 t2 :
    (0 < S1)%Z -> (0 < S2)%Z -> inbox bat bv ->
    (0 <= m1 < nblk n1 B1 S1)%Z -> (0 <= m2 < nblk n2 B2 S2)%Z -> (0 <= t1 < B1)%Z -> (0 <= t2 < B2)%Z ->
    D (ArrayToBlocks (bat ++ [n1; n2]) [B1; B2] [S1; S2]) x (bv ++ [m1; m2; t1; t2]) =
    x (bv ++ [m1 * S1 + t1; m2 * S2 + t2]%Z).
  Proof.
    intros HS1 HS2 Hbv Hm1 Hm2 Ht1 Ht2. unfold LinopTheory.D. cbn [den]. unfold array_to_blocks. cbn [length Nat.eqb negb].
    rewrite (droplast_app_len bat [n1; n2]) by reflexivity. rewrite (lastn_app_len bat [n1; n2]) by reflexivity.
    rewrite num_blks_2.
    unfold unflatten_batch. pose proof (inbox_length _ _ Hbv) as Lb. rewrite <- Lb, firstn_pre, skipn_pre.
    pose proof (ravel_bound bat bv Hbv) as Hr.
    change (revn [S1; S2] 0) with S2. change (revn [S1; S2] 1) with S1.
    change (revn [B1; B2] 0) with B2. change (revn [B1; B2] 1) with B1.
    change (revn [nblk n1 B1 S1; nblk n2 B2 S2] 0) with (nblk n2 B2 S2).
    change (revn [nblk n1 B1 S1; nblk n2 B2 S2] 1) with (nblk n1 B1 S1).
    unfold nblk in *.
    rewrite (a2b2_exec_num_blks R _ _ _ _ B2 B1 S2 S1 n1 n2); try assumption; try reflexivity.
    unfold flatten_batch. rewrite unravel_ravel by exact Hbv. reflexivity.
  Qed.

  Lemma D_b2a2 bat n1 n2 B1 B2 S1 S2 (y : farr) bv p1 p2 :
    wf (ArrayToBlocks (bat ++ [n1; n2]) [B1; B2] [S1; S2]) = true ->
    (0 < S1)%Z -> (0 < S2)%Z -> inbox bat bv -> (0 <= p1 < n1)%Z -> (0 <= p2 < n2)%Z ->
    D (BlocksToArray (bat ++ [n1; n2]) [B1; B2] [S1; S2]) y (bv ++ [p1; p2]) =
    0 + sumZ (nblk n1 B1 S1) (fun m1 => sumZ (nblk n2 B2 S2) (fun m2 => sumZ B1 (fun t1 => sumZ B2 (fun t2 =>
          if (m1 * S1 + t1 =? p1)%Z && (m2 * S2 + t2 =? p2)%Z then y (bv ++ [m1; m2; t1; t2]) else 0)))).
  Proof.
    intros Hwf HS1 HS2 Hbv Hp1 Hp2. unfold LinopTheory.D. cbn [den].
    destruct (wf_a2b2_facts _ _ _ _ _ _ _ Hwf) as (_ & Ei & _). rewrite Ei.
    unfold blocks_to_array. cbn [length Nat.eqb negb]. change (2 * 2)%nat with 4%nat.
    rewrite (droplast_app_len bat [n1; n2]) by reflexivity. rewrite (lastn_app_len bat [n1; n2]) by reflexivity.
    rewrite (lastn_app_len bat [nblk n1 B1 S1; nblk n2 B2 S2; B1; B2]) by reflexivity. cbn [firstn].
    unfold unflatten_batch. pose proof (inbox_length _ _ Hbv) as Lb. rewrite <- Lb, firstn_pre, skipn_pre.
    pose proof (ravel_bound bat bv Hbv) as Hr.
    change (revn [S1; S2] 0) with S2. change (revn [S1; S2] 1) with S1.
    change (revn [B1; B2] 0) with B2. change (revn [B1; B2] 1) with B1.
    change (revn [nblk n1 B1 S1; nblk n2 B2 S2] 0) with (nblk n2 B2 S2).
    change (revn [nblk n1 B1 S1; nblk n2 B2 S2] 1) with (nblk n1 B1 S1).
    rewrite (b2a2_exec R _ _ _ _ B2 B1 S2 S1 _ _ n1 n2); try assumption; try reflexivity.
    f_equal. apply sumZ_ext. intros m1 _. apply sumZ_ext. intros m2 _. apply sumZ_ext. intros t1 _. apply sumZ_ext. intros t2 _.
    unfold flatten_batch. rewrite unravel_ravel by exact Hbv. reflexivity.
  Qed.
End Blk2.
