(* LinopNormal.v — C04: the analytic shortcuts of _normal_linop are correct.
   LinopAlgebra.normal_shortcut reduces every Identity shortcut to the isometry  A^H (A x) = x  on the input box.
   This file proves that isometry, from the model's denotation, for
     * Transpose (axes None; axes a permutation after `a mod ndim`, negative entries allowed),
     * Circshift (any shifts / axes),
     * ArrayToBlocks when the blocks tile the array exactly (blocks_tile), 1 / 2 / 3 block axes, any batch,
     * BlocksToArray when the windows do not overlap (blocks_no_overlap), 1 / 2 / 3 block axes, any batch,
   through the GENERATED numba kernels (proofs/Block.v, proofs/Block2D3D.v), and combines them with the Identity /
   Reshape / default cases of LinopAlgebra into one theorem [normal_correct] over the boolean [normal_proved];
   FFT / IFFT stay under an explicit unitarity hypothesis on the oracle (supplied by C05). *)
From Coq Require Import ZArith List Lia Bool Ring.
From SV Require Import lib.Scalar lib.BigSum lib.LoopIR lib.NdArray lib.Gather gen.Gen_block
  model.Rearrange model.Block model.Linop
  proofs.SumTools proofs.Block proofs.Block2D3D proofs.LinopTheory proofs.LinopAlgebra proofs.LinopLeaves
  proofs.LinopScale proofs.LinopLeavesA proofs.LinopLeavesB.
Import ListNotations.
Local Open Scope Z_scope.

(* ================================================================ 1. Transpose, 2. Circshift *)
Section Perm.
  Variable R : StarRing.
  Notation farr := (list Z -> R).
  Variable arr : Z -> farr.
  Variable scal : Z -> R.
  Variable orc : linop -> farr -> farr.
  Notation D := (D R arr scal orc).

  (* axes = None: reversing twice *)
  Theorem transpose_none_iso i (x : farr) idx :
    D (adj (Transpose i None)) (D (Transpose i None) x) idx = x idx.
  Proof. unfold LinopTheory.D. cbn [adj den den_transpose]. rewrite rev_involutive. reflexivity. Qed.

  (* axes = Some ax: the adjoint transposes by argsort of the normalised axes, which undoes the permutation *)
  Theorem transpose_some_iso i ax (x : farr) idx :
    is_perm (length i) (map (fun a => a mod lenZ i) ax) -> inbox i idx ->
    D (adj (Transpose i (Some ax))) (D (Transpose i (Some ax)) x) idx = x idx.
  Proof.
    intros H Hb. set (pn := map (fun a => a mod lenZ i) ax) in *.
    pose proof (argsort_inv_perm _ _ H) as Hok. fold (lenZ i) in Hok.
    pose proof Hok as (Lp & Lq & Hp & Hq).
    unfold LinopTheory.D. cbn [adj den]. cbv zeta. fold pn. unfold den_transpose. fold pn.
    assert (Los : lenZ (map (fun a => getZ i a) pn) = lenZ i) by (unfold lenZ in *; rewrite map_length; exact Lp).
    rewrite Los. rewrite (norm_perm_id _ _ _ (inv_perm_sym _ _ _ Hok)).
    assert (Li : lenZ idx = lenZ i) by (unfold lenZ; rewrite (inbox_length _ _ Hb); reflexivity).
    change (x (map (fun d => lookupZ d (combine pn
                (map (fun d0 => lookupZ d0 (combine (argsort pn) idx)) (zrange 0 (lenZ i) 1))))
              (zrange 0 (lenZ i) 1)) = x idx).
    rewrite (transpose_idx_eq (lenZ i) (argsort pn) pn idx (inv_perm_sym _ _ _ Hok) Li).
    rewrite (transpose_idx_eq (lenZ i) pn (argsort pn) _ Hok).
    2:{ unfold lenZ. rewrite permidx_length. unfold lenZ. lia. }
    rewrite (permidx_inv (lenZ i) (argsort pn) pn idx Hq Li). reflexivity.
  Qed.

  Theorem normal_transpose i axes (x : farr) idx :
    match axes with None => True | Some ax => is_perm (length i) (map (fun a => a mod lenZ i) ax) end ->
    inbox i idx ->
    D (adj (Transpose i axes)) (D (Transpose i axes) x) idx = x idx /\
    D (normal (Transpose i axes)) x idx = D (adj (Transpose i axes)) (D (Transpose i axes) x) idx.
  Proof.
    intros H Hb.
    assert (E : D (adj (Transpose i axes)) (D (Transpose i axes) x) idx = x idx).
    { destruct axes as [ax|]; [apply transpose_some_iso; assumption| apply transpose_none_iso]. }
    split; [exact E|]. apply normal_shortcut; [exact I| exact E].
  Qed.

  (* rolling by the shifts and then by their negatives *)
  Theorem circshift_iso s sh ax (x : farr) idx :
    Forall (fun n => 0 < n) s -> inbox s idx ->
    D (adj (Circshift s sh ax)) (D (Circshift s sh ax) x) idx = x idx.
  Proof.
    intros Hp Hb. unfold LinopTheory.D. cbn [adj den]. unfold circshift.
    set (axl := match ax with Some l => l | None => zrange 0 (Z.of_nat (length s)) 1 end).
    rewrite circshift_loop_closed by assumption.
    rewrite circshift_loop_closed; [| exact Hp | apply rollidx_inbox; [exact Hp| apply inbox_length; exact Hb]].
    rewrite rollidx_compose. rewrite rollidx_zero; [reflexivity| | exact Hb].
    intros e. rewrite tot_shift_opp. lia.
  Qed.

  Theorem normal_circshift s sh ax (x : farr) idx :
    wf (Circshift s sh ax) = true -> inbox s idx ->
    D (adj (Circshift s sh ax)) (D (Circshift s sh ax) x) idx = x idx /\
    D (normal (Circshift s sh ax)) x idx = D (adj (Circshift s sh ax)) (D (Circshift s sh ax) x) idx.
  Proof.
    intros Hwf Hb. unfold wf in Hwf. cbn [shapes] in Hwf.
    destruct (finish s s) eqn:F; [|discriminate]. destruct (finish_pos _ _ _ F) as [Hp _].
    assert (E : D (adj (Circshift s sh ax)) (D (Circshift s sh ax) x) idx = x idx) by (apply circshift_iso; assumption).
    split; [exact E|]. apply normal_shortcut; [exact I| exact E].
  Qed.
End Perm.

(* ================================================================ 3./4. block operators *)
(* splitting an index of a concatenated box *)
Lemma inbox_app_split s1 s2 ov : inbox (s1 ++ s2) ov -> exists a b, ov = a ++ b /\ inbox s1 a /\ inbox s2 b.
Proof.
  intros H. destruct (inbox_app_inv _ _ _ H) as [H1 H2].
  exists (firstn (length s1) ov), (skipn (length s1) ov). split; [symmetry; apply firstn_skipn| auto].
Qed.

Lemma inbox_1 n b : inbox [n] b -> exists p, b = [p] /\ 0 <= p < n.
Proof. destruct b as [|p [|? ?]]; simpl; try tauto. intros [H _]. eauto. Qed.

Lemma inbox_2 n m b : inbox [n; m] b -> exists p q, b = [p; q] /\ 0 <= p < n /\ 0 <= q < m.
Proof. destruct b as [|p [|q [|? ?]]]; simpl; try tauto. intros [H [H' _]]. eauto. Qed.

Lemma all_pos_snoc1 bat n : all_pos (bat ++ [n]) = true -> 0 < n.
Proof.
  rewrite all_pos_app. intros H. apply andb_true_iff in H. destruct H as [_ H].
  apply all_pos_Forall in H. inversion H; assumption.
Qed.

Lemma all_pos_snoc2 bat n m : all_pos (bat ++ [n; m]) = true -> 0 < n /\ 0 < m.
Proof.
  rewrite all_pos_app. intros H. apply andb_true_iff in H. destruct H as [_ H].
  apply all_pos_Forall in H. inversion H as [|? ? Hn H']; subst. inversion H'; subst. auto.
Qed.

(* division facts for one block axis *)
Lemma blk_div_mod S nn t : 0 < S -> 0 <= t < S -> (nn * S + t) / S = nn /\ (nn * S + t) mod S = t.
Proof.
  intros HS Ht. split.
  - symmetry. apply (Z.div_unique _ S nn t); lia.
  - symmetry. apply (Z.mod_unique _ S nn t); lia.
Qed.

Lemma tile_div_lt n Bk p : 0 < Bk -> n mod Bk = 0 -> 0 <= p < n -> p / Bk < nblk n Bk Bk.
Proof.
  intros HB Hm Hp. unfold nblk. replace (n - Bk + Bk) with n by lia.
  pose proof (Z.div_mod n Bk ltac:(lia)) as E. rewrite Hm in E.
  apply Z.div_lt_upper_bound; [lia|]. lia.
Qed.

Section Pick.
  Variable R : StarRing.
  Add Ring RringN1 : (SRth R).
  Local Open Scope sr_scope.

  Lemma sumZ_pick n j (h : Z -> R) : (0 <= j)%Z ->
    sumZ n (fun k => if (k =? j)%Z then h k else 0) = if (j <? n)%Z then h j else 0.
  Proof.
    intros Hj. destruct (Z.ltb_spec j n) as [H|H].
    - apply sumZ_single. lia.
    - apply sumZ_none. intros k Hk. destruct (Z.eqb_spec k j); [lia| reflexivity].
  Qed.

  (* windows of length B <= S at stride S: position p lies in at most one window, namely block p / S at
     offset p mod S *)
  Lemma block_unique N B S p (g : Z -> Z -> R) : (0 < S)%Z -> (B <= S)%Z -> (0 <= p)%Z ->
    sumZ N (fun nn => sumZ B (fun t => if (nn * S + t =? p)%Z then g nn t else 0)) =
    if (p / S <? N)%Z && (p mod S <? B)%Z then g (p / S)%Z (p mod S)%Z else 0.
  Proof.
    intros HS HB Hp.
    pose proof (Z.div_mod p S ltac:(lia)) as Edm. pose proof (Z.mod_pos_bound p S HS) as Hmod.
    rewrite (sumZ_ext R N _ (fun nn => if (nn =? p / S)%Z then (if (p mod S <? B)%Z then g nn (p mod S)%Z else 0) else 0)).
    - rewrite sumZ_pick by (apply Z.div_pos; lia). destruct (p / S <? N)%Z, (p mod S <? B)%Z; reflexivity.
    - intros nn Hnn. destruct (Z.eqb_spec nn (p / S)) as [->|Hne].
      + rewrite (sumZ_ext R B _ (fun t => if (t =? p mod S)%Z then g (p / S)%Z t else 0)).
        * apply sumZ_pick. lia.
        * intros t Ht. remember (p / S)%Z as q. remember (p mod S)%Z as r.
          destruct (Z.eqb_spec (q * S + t) p), (Z.eqb_spec t r); try reflexivity; exfalso; nia.
      + apply sumZ_none. intros t Ht. destruct (Z.eqb_spec (nn * S + t) p) as [E|]; [|reflexivity].
        exfalso. apply Hne. apply (Z.div_unique p S nn t); lia.
  Qed.
End Pick.

Section Blk1.
  Variable R : StarRing.
  Add Ring RringN2 : (SRth R).
  Notation farr := (list Z -> R).
  Variable arr : Z -> farr.
  Variable scal : Z -> R.
  Variable orc : linop -> farr -> farr.
  Notation D := (D R arr scal orc).
  Local Open Scope sr_scope.

  Lemma wf_a2b1_pos bat n Bk Sk : wf (ArrayToBlocks (bat ++ [n]) [Bk] [Sk]) = true ->
    (0 < n)%Z /\ (0 < nblk n Bk Sk)%Z /\ (0 < Bk)%Z.
  Proof.
    intros Hwf. destruct (finish_of_wf_a2b bat n Bk Sk Hwf) as [F _].
    unfold finish in F. destruct (all_pos (bat ++ [nblk n Bk Sk; Bk]) && all_pos (bat ++ [n])) eqn:E; [|discriminate].
    apply andb_true_iff in E. destruct E as [E1 E2].
    apply all_pos_snoc2 in E1. apply all_pos_snoc1 in E2. tauto.
  Qed.

  (* Gram operator of ArrayToBlocks for non-overlapping windows (B <= S): the 0/1 mask of the covered positions *)
  Theorem a2b1_gram bat n Bk Sk (x : farr) bv p :
    wf (ArrayToBlocks (bat ++ [n]) [Bk] [Sk]) = true -> (Bk <= Sk)%Z -> inbox bat bv -> (0 <= p < n)%Z ->
    D (adj (ArrayToBlocks (bat ++ [n]) [Bk] [Sk])) (D (ArrayToBlocks (bat ++ [n]) [Bk] [Sk]) x) (bv ++ [p]) =
    if (p / Sk <? nblk n Bk Sk)%Z && (p mod Sk <? Bk)%Z then x (bv ++ [p]) else 0.
  Proof.
    intros Hwf HB Hbv Hp. destruct (wf_a2b1_pos _ _ _ _ Hwf) as (Hn & HN & HBk).
    assert (HS : (0 < Sk)%Z) by lia.
    cbn [adj]. rewrite D_b2a; [| rewrite wf_a2b_b2a; exact Hwf | exact HS | exact Hbv | exact Hp].
    rewrite (sumZ_ext R (nblk n Bk Sk) _ (fun nn => sumZ Bk (fun t =>
               if (nn * Sk + t =? p)%Z then x (bv ++ [p]) else 0))).
    2:{ intros nn Hnn. apply sumZ_ext. intros t Ht. destruct (Z.eqb_spec (nn * Sk + t) p) as [E|]; [|reflexivity].
        rewrite D_a2b by assumption. rewrite E. reflexivity. }
    rewrite (block_unique R (nblk n Bk Sk) Bk Sk p (fun _ _ => x (bv ++ [p]))) by lia.
    ring.
  Qed.

  (* 3. blocks tile the axis exactly: every position is covered by exactly one block entry *)
  Theorem a2b1_tile_iso bat n Bk (x : farr) bv p :
    wf (ArrayToBlocks (bat ++ [n]) [Bk] [Bk]) = true -> (n mod Bk = 0)%Z -> inbox bat bv -> (0 <= p < n)%Z ->
    D (adj (ArrayToBlocks (bat ++ [n]) [Bk] [Bk])) (D (ArrayToBlocks (bat ++ [n]) [Bk] [Bk]) x) (bv ++ [p]) = x (bv ++ [p]).
  Proof.
    intros Hwf Hm Hbv Hp. destruct (wf_a2b1_pos _ _ _ _ Hwf) as (Hn & HN & HBk).
    rewrite a2b1_gram by (try assumption; lia).
    pose proof (tile_div_lt n Bk p HBk Hm Hp) as H1. pose proof (Z.mod_pos_bound p Bk HBk) as H2.
    destruct (Z.ltb_spec (p / Bk) (nblk n Bk Bk)); [|lia]. destruct (Z.ltb_spec (p mod Bk) Bk); [|lia]. reflexivity.
  Qed.

  (* 4. windows that do not overlap (S >= B): scattering the blocks and gathering them again returns the blocks *)
  Theorem b2a1_iso bat n Bk Sk (y : farr) bv nn t :
    wf (BlocksToArray (bat ++ [n]) [Bk] [Sk]) = true -> (Bk <= Sk)%Z ->
    inbox bat bv -> (0 <= nn < nblk n Bk Sk)%Z -> (0 <= t < Bk)%Z ->
    D (adj (BlocksToArray (bat ++ [n]) [Bk] [Sk])) (D (BlocksToArray (bat ++ [n]) [Bk] [Sk]) y) (bv ++ [nn; t]) =
    y (bv ++ [nn; t]).
  Proof.
    intros Hwf HB Hbv Hnn Ht. pose proof Hwf as Hwf'. rewrite wf_a2b_b2a in Hwf'.
    destruct (wf_a2b1_pos _ _ _ _ Hwf') as (Hn & HN & HBk).
    assert (HS : (0 < Sk)%Z) by lia.
    cbn [adj]. rewrite D_a2b by assumption.
    pose proof (a2b_in_bounds n Bk Sk nn t HS Hnn Ht) as Hin.
    rewrite D_b2a; [| exact Hwf | exact HS | exact Hbv | nia].
    rewrite (block_unique R (nblk n Bk Sk) Bk Sk (nn * Sk + t)%Z (fun nn' t' => y (bv ++ [nn'; t']))) by nia.
    destruct (blk_div_mod Sk nn t HS ltac:(lia)) as [E1 E2]. rewrite E1, E2.
    destruct (Z.ltb_spec nn (nblk n Bk Sk)); [|lia]. destruct (Z.ltb_spec t Bk); [|lia]. cbn [andb]. ring.
  Qed.
End Blk1.

(* ---- one block axis, stated on the operator's own shapes ---- *)
Lemma blocks_tile_1 bat n Bk Sk : blocks_tile (bat ++ [n]) [Bk] [Sk] = true -> Bk = Sk /\ n mod Bk = 0.
Proof.
  unfold blocks_tile. cbn [length]. rewrite lastn_1. cbn [zip3 forallb]. rewrite andb_true_r.
  intros H. apply andb_true_iff in H. destruct H as [H1 H2]. apply Z.eqb_eq in H1. apply Z.eqb_eq in H2. auto.
Qed.

Lemma blocks_no_overlap_1 Bk Sk : blocks_no_overlap [Bk] [Sk] = true -> Bk <= Sk.
Proof. unfold blocks_no_overlap. cbn [combine forallb fst snd]. rewrite andb_true_r. apply Z.leb_le. Qed.

Section Blk1General.
  Variable R : StarRing.
  Notation farr := (list Z -> R).
  Variable arr : Z -> farr.
  Variable scal : Z -> R.
  Variable orc : linop -> farr -> farr.
  Notation D := (D R arr scal orc).

  Theorem a2b_tile_iso_1d i Bk Sk (x : farr) idx :
    i <> [] -> wf (ArrayToBlocks i [Bk] [Sk]) = true -> blocks_tile i [Bk] [Sk] = true ->
    inbox (ishape_of (ArrayToBlocks i [Bk] [Sk])) idx ->
    D (adj (ArrayToBlocks i [Bk] [Sk])) (D (ArrayToBlocks i [Bk] [Sk]) x) idx = x idx.
  Proof.
    intros Hne Hwf Ht Hb. destruct (last1_split i Hne) as (bat & n & ->).
    destruct (finish_of_wf_a2b bat n Bk Sk Hwf) as [F1 _].
    unfold ishape_of in Hb. rewrite shapes_a2b, F1 in Hb.
    destruct (blocks_tile_1 _ _ _ _ Ht) as [<- Hm].
    destruct (inbox_app_split _ _ _ Hb) as (bv & b & -> & Hbv & H1).
    destruct (inbox_1 _ _ H1) as (p & -> & Hp).
    apply a2b1_tile_iso; assumption.
  Qed.

  Theorem b2a_iso_1d o Bk Sk (y : farr) idx :
    o <> [] -> wf (BlocksToArray o [Bk] [Sk]) = true -> blocks_no_overlap [Bk] [Sk] = true ->
    inbox (ishape_of (BlocksToArray o [Bk] [Sk])) idx ->
    D (adj (BlocksToArray o [Bk] [Sk])) (D (BlocksToArray o [Bk] [Sk]) y) idx = y idx.
  Proof.
    intros Hne Hwf Ht Hb. destruct (last1_split o Hne) as (bat & n & ->).
    pose proof Hwf as Hwf'. rewrite wf_a2b_b2a in Hwf'.
    destruct (finish_of_wf_a2b bat n Bk Sk Hwf') as [_ F2].
    unfold ishape_of in Hb. rewrite shapes_b2a, F2 in Hb.
    apply blocks_no_overlap_1 in Ht.
    destruct (inbox_app_split _ _ _ Hb) as (bv & b & -> & Hbv & H1).
    destruct (inbox_2 _ _ _ H1) as (nn & t & -> & Hnn & Htt).
    apply b2a1_iso; assumption.
  Qed.
End Blk1General.

(* ================================================================ two block axes *)
Lemma lastn_app_len {A} (l r : list A) k : k = length r -> lastn k (l ++ r) = r.
Proof. intros ->. apply lastn_app'. Qed.

Lemma droplast_app_len {A} (l r : list A) k : k = length r -> droplast k (l ++ r) = l.
Proof. intros ->. apply droplast_app'. Qed.

Lemma num_blks_2 bat n1 n2 B1 B2 S1 S2 :
  num_blks (bat ++ [n1; n2]) [B1; B2] [S1; S2] = [nblk n1 B1 S1; nblk n2 B2 S2].
Proof. unfold num_blks. cbn [length]. rewrite (lastn_app_len bat [n1; n2]) by reflexivity. reflexivity. Qed.

Section Pick2.
  Variable R : StarRing.
  Add Ring RringN3 : (SRth R).
  Local Open Scope sr_scope.

  Lemma block_unique2 N1 N2 B1 B2 S1 S2 p1 p2 (g : Z -> Z -> Z -> Z -> R) :
    (0 < S1)%Z -> (B1 <= S1)%Z -> (0 <= p1)%Z -> (0 < S2)%Z -> (B2 <= S2)%Z -> (0 <= p2)%Z ->
    sumZ N1 (fun m1 => sumZ N2 (fun m2 => sumZ B1 (fun t1 => sumZ B2 (fun t2 =>
      if (m1 * S1 + t1 =? p1)%Z && (m2 * S2 + t2 =? p2)%Z then g m1 m2 t1 t2 else 0)))) =
    if ((p1 / S1 <? N1)%Z && (p1 mod S1 <? B1)%Z) && ((p2 / S2 <? N2)%Z && (p2 mod S2 <? B2)%Z)
    then g (p1 / S1)%Z (p2 / S2)%Z (p1 mod S1)%Z (p2 mod S2)%Z else 0.
  Proof.
    intros H1 H2 H3 H4 H5 H6.
    transitivity (sumZ N1 (fun m1 => sumZ B1 (fun t1 => if (m1 * S1 + t1 =? p1)%Z then
        (if (p2 / S2 <? N2)%Z && (p2 mod S2 <? B2)%Z then g m1 (p2 / S2)%Z t1 (p2 mod S2)%Z else 0) else 0))).
    { apply sumZ_ext. intros m1 _. rewrite sumZ_exchange. apply sumZ_ext. intros t1 _.
      rewrite <- (block_unique R N2 B2 S2 p2 (fun m2 t2 => g m1 m2 t1 t2)) by assumption.
      rewrite <- sumZ_if. apply sumZ_ext. intros m2 _. rewrite <- sumZ_if. apply sumZ_ext. intros t2 _.
      destruct (m1 * S1 + t1 =? p1)%Z, (m2 * S2 + t2 =? p2)%Z; reflexivity. }
    rewrite (block_unique R N1 B1 S1 p1
      (fun m1 t1 => if (p2 / S2 <? N2)%Z && (p2 mod S2 <? B2)%Z then g m1 (p2 / S2)%Z t1 (p2 mod S2)%Z else 0)) by assumption.
    destruct ((p1 / S1 <? N1)%Z && (p1 mod S1 <? B1)%Z), ((p2 / S2 <? N2)%Z && (p2 mod S2 <? B2)%Z); reflexivity.
  Qed.
End Pick2.

Lemma shapes_a2b2 bat n1 n2 B1 B2 S1 S2 :
  shapes (ArrayToBlocks (bat ++ [n1; n2]) [B1; B2] [S1; S2]) =
  finish (bat ++ [nblk n1 B1 S1; nblk n2 B2 S2; B1; B2]) (bat ++ [n1; n2]).
Proof. cbn [shapes length]. rewrite (droplast_app_len bat [n1; n2]) by reflexivity. rewrite num_blks_2. reflexivity. Qed.

Lemma shapes_b2a2 bat n1 n2 B1 B2 S1 S2 :
  shapes (BlocksToArray (bat ++ [n1; n2]) [B1; B2] [S1; S2]) =
  finish (bat ++ [n1; n2]) (bat ++ [nblk n1 B1 S1; nblk n2 B2 S2; B1; B2]).
Proof. cbn [shapes length]. rewrite (droplast_app_len bat [n1; n2]) by reflexivity. rewrite num_blks_2. reflexivity. Qed.

Lemma wf_a2b2_facts bat n1 n2 B1 B2 S1 S2 : wf (ArrayToBlocks (bat ++ [n1; n2]) [B1; B2] [S1; S2]) = true ->
  ishape_of (ArrayToBlocks (bat ++ [n1; n2]) [B1; B2] [S1; S2]) = bat ++ [n1; n2] /\
  ishape_of (BlocksToArray (bat ++ [n1; n2]) [B1; B2] [S1; S2]) = bat ++ [nblk n1 B1 S1; nblk n2 B2 S2; B1; B2] /\
  (0 < n1 /\ 0 < n2 /\ 0 < B1 /\ 0 < B2)%Z.
Proof.
  intros Hwf. unfold wf in Hwf. unfold ishape_of. rewrite shapes_a2b2 in *. rewrite shapes_b2a2.
  unfold finish in *. rewrite (andb_comm (all_pos (bat ++ [n1; n2]))).
  destruct (all_pos (bat ++ [nblk n1 B1 S1; nblk n2 B2 S2; B1; B2]) && all_pos (bat ++ [n1; n2])) eqn:E; [|discriminate].
  apply andb_true_iff in E. destruct E as [E1 E2].
  apply all_pos_snoc2 in E2.
  replace (bat ++ [nblk n1 B1 S1; nblk n2 B2 S2; B1; B2]) with ((bat ++ [nblk n1 B1 S1; nblk n2 B2 S2]) ++ [B1; B2]) in E1
    by (rewrite <- app_assoc; reflexivity).
  apply all_pos_snoc2 in E1. repeat split; tauto.
Qed.

Section Blk2.
  Variable R : StarRing.
  Add Ring RringN4 : (SRth R).
  Notation farr := (list Z -> R).
  Variable arr : Z -> farr.
  Variable scal : Z -> R.
  Variable orc : linop -> farr -> farr.
  Notation D := (D R arr scal orc).
  Local Open Scope sr_scope.

  Lemma D_a2b2 bat n1 n2 B1 B2 S1 S2 (x : farr) bv m1 m2 t1 t2 :
    (0 < S1)%Z -> (0 < S2)%Z -> inbox bat bv ->
    (0 <= m1 < nblk n1 B1 S1)%Z -> (0 <= m2 < nblk n2 B2 S2)%Z -> (0 <= t1 < B1)%Z -> (0 <= t2 < B2)%Z ->
    D (ArrayToBlocks (bat ++ [n1; n2]) [B1; B2] [S1; S2]) x (bv ++ [m1; m2; t1; t2]) =
    x (bv ++ [m1 * S1 + t1; m2 * S2 + t2]%Z).
  Proof.
    intros HS1 HS2 Hbv Hm1 Hm2 Ht1 Ht2. unfold LinopTheory.D. cbn [den]. unfold array_to_blocks. cbn [length Nat.eqb negb].
    rewrite (droplast_app_len bat [n1; n2]) by reflexivity. rewrite (lastn_app_len bat [n1; n2]) by reflexivity.
    rewrite num_blks_2.
    unfold unflatten_batch. pose proof (inbox_length _ _ Hbv) as Lb. rewrite <- Lb, firstn_pre, skipn_pre.
    pose proof (ravel_bound bat bv Hbv) as Hr.
    change (revn [S1; S2] 0) with S2. change (revn [S1; S2] 1) with S1.
    change (revn [B1; B2] 0) with B2. change (revn [B1; B2] 1) with B1.
    change (revn [nblk n1 B1 S1; nblk n2 B2 S2] 0) with (nblk n2 B2 S2).
    change (revn [nblk n1 B1 S1; nblk n2 B2 S2] 1) with (nblk n1 B1 S1).
    unfold nblk in *.
    rewrite (a2b2_exec_num_blks R _ _ _ _ B2 B1 S2 S1 n1 n2); try assumption; try reflexivity.
    unfold flatten_batch. rewrite unravel_ravel by exact Hbv. reflexivity.
  Qed.

  Lemma D_b2a2 bat n1 n2 B1 B2 S1 S2 (y : farr) bv p1 p2 :
    wf (ArrayToBlocks (bat ++ [n1; n2]) [B1; B2] [S1; S2]) = true ->
    (0 < S1)%Z -> (0 < S2)%Z -> inbox bat bv -> (0 <= p1 < n1)%Z -> (0 <= p2 < n2)%Z ->
    D (BlocksToArray (bat ++ [n1; n2]) [B1; B2] [S1; S2]) y (bv ++ [p1; p2]) =
    0 + sumZ (nblk n1 B1 S1) (fun m1 => sumZ (nblk n2 B2 S2) (fun m2 => sumZ B1 (fun t1 => sumZ B2 (fun t2 =>
          if (m1 * S1 + t1 =? p1)%Z && (m2 * S2 + t2 =? p2)%Z then y (bv ++ [m1; m2; t1; t2]) else 0)))).
  Proof.
    intros Hwf HS1 HS2 Hbv Hp1 Hp2. unfold LinopTheory.D. cbn [den].
    destruct (wf_a2b2_facts _ _ _ _ _ _ _ Hwf) as (_ & Ei & _). rewrite Ei.
    unfold blocks_to_array. cbn [length Nat.eqb negb]. change (2 * 2)%nat with 4%nat.
    rewrite (droplast_app_len bat [n1; n2]) by reflexivity. rewrite (lastn_app_len bat [n1; n2]) by reflexivity.
    rewrite (lastn_app_len bat [nblk n1 B1 S1; nblk n2 B2 S2; B1; B2]) by reflexivity. cbn [firstn].
    unfold unflatten_batch. pose proof (inbox_length _ _ Hbv) as Lb. rewrite <- Lb, firstn_pre, skipn_pre.
    pose proof (ravel_bound bat bv Hbv) as Hr.
    change (revn [S1; S2] 0) with S2. change (revn [S1; S2] 1) with S1.
    change (revn [B1; B2] 0) with B2. change (revn [B1; B2] 1) with B1.
    change (revn [nblk n1 B1 S1; nblk n2 B2 S2] 0) with (nblk n2 B2 S2).
    change (revn [nblk n1 B1 S1; nblk n2 B2 S2] 1) with (nblk n1 B1 S1).
    rewrite (b2a2_exec R _ _ _ _ B2 B1 S2 S1 _ _ n1 n2); try assumption; try reflexivity.
    f_equal. apply sumZ_ext. intros m1 _. apply sumZ_ext. intros m2 _. apply sumZ_ext. intros t1 _. apply sumZ_ext. intros t2 _.
    unfold flatten_batch. rewrite unravel_ravel by exact Hbv. reflexivity.
  Qed.
End Blk2.

Lemma inbox_4 a b c d v : inbox [a; b; c; d] v ->
  exists p q r s, v = [p; q; r; s] /\ 0 <= p < a /\ 0 <= q < b /\ 0 <= r < c /\ 0 <= s < d.
Proof.
  destruct v as [|p [|q [|r [|s [|? ?]]]]]; simpl; try tauto. intros (H1 & H2 & H3 & H4 & _).
  exists p, q, r, s. auto.
Qed.

Lemma blocks_tile_2 bat n1 n2 B1 B2 S1 S2 : blocks_tile (bat ++ [n1; n2]) [B1; B2] [S1; S2] = true ->
  (B1 = S1 /\ n1 mod B1 = 0) /\ (B2 = S2 /\ n2 mod B2 = 0).
Proof.
  unfold blocks_tile. cbn [length]. rewrite (lastn_app_len bat [n1; n2]) by reflexivity. cbn [zip3 forallb].
  rewrite andb_true_r. rewrite !andb_true_iff, !Z.eqb_eq. tauto.
Qed.

Lemma blocks_no_overlap_2 B1 B2 S1 S2 : blocks_no_overlap [B1; B2] [S1; S2] = true -> B1 <= S1 /\ B2 <= S2.
Proof.
  unfold blocks_no_overlap. cbn [combine forallb fst snd]. rewrite andb_true_r, andb_true_iff, !Z.leb_le. tauto.
Qed.

Section Blk2Iso.
  Variable R : StarRing.
  Add Ring RringN5 : (SRth R).
  Notation farr := (list Z -> R).
  Variable arr : Z -> farr.
  Variable scal : Z -> R.
  Variable orc : linop -> farr -> farr.
  Notation D := (D R arr scal orc).
  Local Open Scope sr_scope.

  Theorem a2b2_gram bat n1 n2 B1 B2 S1 S2 (x : farr) bv p1 p2 :
    wf (ArrayToBlocks (bat ++ [n1; n2]) [B1; B2] [S1; S2]) = true -> (B1 <= S1)%Z -> (B2 <= S2)%Z ->
    inbox bat bv -> (0 <= p1 < n1)%Z -> (0 <= p2 < n2)%Z ->
    D (adj (ArrayToBlocks (bat ++ [n1; n2]) [B1; B2] [S1; S2]))
      (D (ArrayToBlocks (bat ++ [n1; n2]) [B1; B2] [S1; S2]) x) (bv ++ [p1; p2]) =
    if ((p1 / S1 <? nblk n1 B1 S1)%Z && (p1 mod S1 <? B1)%Z) && ((p2 / S2 <? nblk n2 B2 S2)%Z && (p2 mod S2 <? B2)%Z)
    then x (bv ++ [p1; p2]) else 0.
  Proof.
    intros Hwf HB1 HB2 Hbv Hp1 Hp2. destruct (wf_a2b2_facts _ _ _ _ _ _ _ Hwf) as (_ & _ & Hn1 & Hn2 & Hb1 & Hb2).
    assert (HS1 : (0 < S1)%Z) by lia. assert (HS2 : (0 < S2)%Z) by lia.
    cbn [adj]. rewrite (D_b2a2 R arr scal orc) by assumption.
    rewrite (sumZ_ext R (nblk n1 B1 S1) _ (fun m1 => sumZ (nblk n2 B2 S2) (fun m2 => sumZ B1 (fun t1 => sumZ B2 (fun t2 =>
               if (m1 * S1 + t1 =? p1)%Z && (m2 * S2 + t2 =? p2)%Z then x (bv ++ [p1; p2]) else 0))))).
    2:{ intros m1 Hm1. apply sumZ_ext. intros m2 Hm2. apply sumZ_ext. intros t1 Ht1. apply sumZ_ext. intros t2 Ht2.
        destruct (Z.eqb_spec (m1 * S1 + t1) p1) as [E1|]; [|reflexivity].
        destruct (Z.eqb_spec (m2 * S2 + t2) p2) as [E2|]; [|reflexivity]. cbn [andb].
        rewrite (D_a2b2 R arr scal orc) by assumption. rewrite E1, E2. reflexivity. }
    rewrite (block_unique2 R _ _ B1 B2 S1 S2 p1 p2 (fun _ _ _ _ => x (bv ++ [p1; p2]))) by lia.
    ring.
  Qed.

  Theorem a2b2_tile_iso bat n1 n2 B1 B2 (x : farr) bv p1 p2 :
    wf (ArrayToBlocks (bat ++ [n1; n2]) [B1; B2] [B1; B2]) = true -> (n1 mod B1 = 0)%Z -> (n2 mod B2 = 0)%Z ->
    inbox bat bv -> (0 <= p1 < n1)%Z -> (0 <= p2 < n2)%Z ->
    D (adj (ArrayToBlocks (bat ++ [n1; n2]) [B1; B2] [B1; B2]))
      (D (ArrayToBlocks (bat ++ [n1; n2]) [B1; B2] [B1; B2]) x) (bv ++ [p1; p2]) = x (bv ++ [p1; p2]).
  Proof.
    intros Hwf Hm1 Hm2 Hbv Hp1 Hp2. destruct (wf_a2b2_facts _ _ _ _ _ _ _ Hwf) as (_ & _ & Hn1 & Hn2 & Hb1 & Hb2).
    rewrite a2b2_gram by (try assumption; lia).
    pose proof (tile_div_lt n1 B1 p1 Hb1 Hm1 Hp1). pose proof (Z.mod_pos_bound p1 B1 Hb1).
    pose proof (tile_div_lt n2 B2 p2 Hb2 Hm2 Hp2). pose proof (Z.mod_pos_bound p2 B2 Hb2).
    destruct (Z.ltb_spec (p1 / B1) (nblk n1 B1 B1)); [|lia]. destruct (Z.ltb_spec (p1 mod B1) B1); [|lia].
    destruct (Z.ltb_spec (p2 / B2) (nblk n2 B2 B2)); [|lia]. destruct (Z.ltb_spec (p2 mod B2) B2); [|lia]. reflexivity.
  Qed.

  Theorem b2a2_iso bat n1 n2 B1 B2 S1 S2 (y : farr) bv m1 m2 t1 t2 :
    wf (BlocksToArray (bat ++ [n1; n2]) [B1; B2] [S1; S2]) = true -> (B1 <= S1)%Z -> (B2 <= S2)%Z ->
    inbox bat bv -> (0 <= m1 < nblk n1 B1 S1)%Z -> (0 <= m2 < nblk n2 B2 S2)%Z -> (0 <= t1 < B1)%Z -> (0 <= t2 < B2)%Z ->
    D (adj (BlocksToArray (bat ++ [n1; n2]) [B1; B2] [S1; S2]))
      (D (BlocksToArray (bat ++ [n1; n2]) [B1; B2] [S1; S2]) y) (bv ++ [m1; m2; t1; t2]) = y (bv ++ [m1; m2; t1; t2]).
  Proof.
    intros Hwf HB1 HB2 Hbv Hm1 Hm2 Ht1 Ht2. rewrite wf_a2b_b2a in Hwf.
    destruct (wf_a2b2_facts _ _ _ _ _ _ _ Hwf) as (_ & _ & Hn1 & Hn2 & Hb1 & Hb2).
    assert (HS1 : (0 < S1)%Z) by lia. assert (HS2 : (0 < S2)%Z) by lia.
    cbn [adj]. rewrite (D_a2b2 R arr scal orc) by assumption.
    pose proof (a2b_in_bounds n1 B1 S1 m1 t1 HS1 Hm1 Ht1) as Hin1.
    pose proof (a2b_in_bounds n2 B2 S2 m2 t2 HS2 Hm2 Ht2) as Hin2.
    rewrite (D_b2a2 R arr scal orc); [| exact Hwf | exact HS1 | exact HS2 | exact Hbv | nia | nia].
    rewrite (block_unique2 R _ _ B1 B2 S1 S2 (m1 * S1 + t1)%Z (m2 * S2 + t2)%Z
               (fun m1' m2' t1' t2' => y (bv ++ [m1'; m2'; t1'; t2']))) by nia.
    destruct (blk_div_mod S1 m1 t1 HS1 ltac:(lia)) as [E1 E2]. destruct (blk_div_mod S2 m2 t2 HS2 ltac:(lia)) as [E3 E4].
    rewrite E1, E2, E3, E4.
    destruct (Z.ltb_spec m1 (nblk n1 B1 S1)); [|lia]. destruct (Z.ltb_spec t1 B1); [|lia].
    destruct (Z.ltb_spec m2 (nblk n2 B2 S2)); [|lia]. destruct (Z.ltb_spec t2 B2); [|lia]. cbn [andb]. ring.
  Qed.

  (* on the operator's own shapes *)
  Lemma last2_of_len (i : list Z) : (2 <= length i)%nat -> exists bat n1 n2, i = bat ++ [n1; n2].
  Proof. apply last2_split. Qed.

  Theorem a2b_tile_iso_2d i B1 B2 S1 S2 (x : farr) idx :
    (2 <= length i)%nat -> wf (ArrayToBlocks i [B1; B2] [S1; S2]) = true -> blocks_tile i [B1; B2] [S1; S2] = true ->
    inbox (ishape_of (ArrayToBlocks i [B1; B2] [S1; S2])) idx ->
    D (adj (ArrayToBlocks i [B1; B2] [S1; S2])) (D (ArrayToBlocks i [B1; B2] [S1; S2]) x) idx = x idx.
  Proof.
    intros Hl Hwf Ht Hb. destruct (last2_split i Hl) as (bat & n1 & n2 & ->).
    destruct (wf_a2b2_facts _ _ _ _ _ _ _ Hwf) as (Ei & _). rewrite Ei in Hb.
    destruct (blocks_tile_2 _ _ _ _ _ _ _ Ht) as [[<- Hm1] [<- Hm2]].
    destruct (inbox_app_split _ _ _ Hb) as (bv & b & -> & Hbv & H1).
    destruct (inbox_2 _ _ _ H1) as (p1 & p2 & -> & Hp1 & Hp2).
    apply a2b2_tile_iso; assumption.
  Qed.

  Theorem b2a_iso_2d o B1 B2 S1 S2 (y : farr) idx :
    (2 <= length o)%nat -> wf (BlocksToArray o [B1; B2] [S1; S2]) = true -> blocks_no_overlap [B1; B2] [S1; S2] = true ->
    inbox (ishape_of (BlocksToArray o [B1; B2] [S1; S2])) idx ->
    D (adj (BlocksToArray o [B1; B2] [S1; S2])) (D (BlocksToArray o [B1; B2] [S1; S2]) y) idx = y idx.
  Proof.
    intros Hl Hwf Ht Hb. destruct (last2_split o Hl) as (bat & n1 & n2 & ->).
    pose proof Hwf as Hwf'. rewrite wf_a2b_b2a in Hwf'.
    destruct (wf_a2b2_facts _ _ _ _ _ _ _ Hwf') as (_ & Ei & _). rewrite Ei in Hb.
    destruct (blocks_no_overlap_2 _ _ _ _ Ht) as [H1 H2].
    destruct (inbox_app_split _ _ _ Hb) as (bv & b & -> & Hbv & H4).
    destruct (inbox_4 _ _ _ _ _ H4) as (m1 & m2 & t1 & t2 & -> & Hm1 & Hm2 & Ht1 & Ht2).
    apply b2a2_iso; assumption.
  Qed.
End Blk2Iso.

(* ================================================================ three block axes *)
Lemma num_blks_3 bat n1 n2 n3 B1 B2 B3 S1 S2 S3 :
  num_blks (bat ++ [n1; n2; n3]) [B1; B2; B3] [S1; S2; S3] = [nblk n1 B1 S1; nblk n2 B2 S2; nblk n3 B3 S3].
Proof. unfold num_blks. cbn [length]. rewrite (lastn_app_len bat [n1; n2; n3]) by reflexivity. reflexivity. Qed.

Lemma all_pos_snoc3 bat a b c : all_pos (bat ++ [a; b; c]) = true -> 0 < a /\ 0 < b /\ 0 < c.
Proof.
  rewrite all_pos_app. intros H. apply andb_true_iff in H. destruct H as [_ H].
  apply all_pos_Forall in H. inversion H as [|? ? Ha H']; subst. inversion H' as [|? ? Hb H'']; subst.
  inversion H''; subst. auto.
Qed.

Lemma last3_split (l : list Z) : (3 <= length l)%nat -> exists p u v w, l = p ++ [u; v; w].
Proof.
  intros H. rewrite <- (rev_involutive l). rewrite <- (rev_length l) in H.
  destruct (rev l) as [|w [|v [|u r]]]; simpl in H; try lia.
  exists (rev r), u, v, w. simpl. rewrite <- !app_assoc. reflexivity.
Qed.

Lemma inbox_3 a b c v : inbox [a; b; c] v -> exists p q r, v = [p; q; r] /\ 0 <= p < a /\ 0 <= q < b /\ 0 <= r < c.
Proof.
  destruct v as [|p [|q [|r [|? ?]]]]; simpl; try tauto. intros (H1 & H2 & H3 & _). exists p, q, r. auto.
Qed.

Lemma inbox_6 a b c d e f v : inbox [a; b; c; d; e; f] v ->
  exists p q r s t u, v = [p; q; r; s; t; u] /\
    0 <= p < a /\ 0 <= q < b /\ 0 <= r < c /\ 0 <= s < d /\ 0 <= t < e /\ 0 <= u < f.
Proof.
  destruct v as [|p [|q [|r [|s [|t [|u [|? ?]]]]]]]; simpl; try tauto. intros (H1 & H2 & H3 & H4 & H5 & H6 & _).
  exists p, q, r, s, t, u. repeat split; tauto.
Qed.

Lemma shapes_a2b3 bat n1 n2 n3 B1 B2 B3 S1 S2 S3 :
  shapes (ArrayToBlocks (bat ++ [n1; n2; n3]) [B1; B2; B3] [S1; S2; S3]) =
  finish (bat ++ [nblk n1 B1 S1; nblk n2 B2 S2; nblk n3 B3 S3; B1; B2; B3]) (bat ++ [n1; n2; n3]).
Proof. cbn [shapes length]. rewrite (droplast_app_len bat [n1; n2; n3]) by reflexivity. rewrite num_blks_3. reflexivity. Qed.

Lemma shapes_b2a3 bat n1 n2 n3 B1 B2 B3 S1 S2 S3 :
  shapes (BlocksToArray (bat ++ [n1; n2; n3]) [B1; B2; B3] [S1; S2; S3]) =
  finish (bat ++ [n1; n2; n3]) (bat ++ [nblk n1 B1 S1; nblk n2 B2 S2; nblk n3 B3 S3; B1; B2; B3]).
Proof. cbn [shapes length]. rewrite (droplast_app_len bat [n1; n2; n3]) by reflexivity. rewrite num_blks_3. reflexivity. Qed.

Lemma wf_a2b3_facts bat n1 n2 n3 B1 B2 B3 S1 S2 S3 :
  wf (ArrayToBlocks (bat ++ [n1; n2; n3]) [B1; B2; B3] [S1; S2; S3]) = true ->
  ishape_of (ArrayToBlocks (bat ++ [n1; n2; n3]) [B1; B2; B3] [S1; S2; S3]) = bat ++ [n1; n2; n3] /\
  ishape_of (BlocksToArray (bat ++ [n1; n2; n3]) [B1; B2; B3] [S1; S2; S3]) =
    bat ++ [nblk n1 B1 S1; nblk n2 B2 S2; nblk n3 B3 S3; B1; B2; B3] /\
  (0 < n1 /\ 0 < n2 /\ 0 < n3) /\ (0 < B1 /\ 0 < B2 /\ 0 < B3).
Proof.
  intros Hwf. unfold wf in Hwf. unfold ishape_of. rewrite shapes_a2b3 in Hwf. rewrite shapes_a2b3, shapes_b2a3.
  unfold finish in Hwf |- *. rewrite (andb_comm (all_pos (bat ++ [n1; n2; n3]))).
  destruct (all_pos (bat ++ [nblk n1 B1 S1; nblk n2 B2 S2; nblk n3 B3 S3; B1; B2; B3]) && all_pos (bat ++ [n1; n2; n3])) eqn:E;
    [|discriminate].
  apply andb_true_iff in E. destruct E as [E1 E2].
  apply all_pos_snoc3 in E2.
  replace (bat ++ [nblk n1 B1 S1; nblk n2 B2 S2; nblk n3 B3 S3; B1; B2; B3])
    with ((bat ++ [nblk n1 B1 S1; nblk n2 B2 S2; nblk n3 B3 S3]) ++ [B1; B2; B3]) in E1
    by (rewrite <- app_assoc; reflexivity).
  apply all_pos_snoc3 in E1. repeat split; tauto.
Qed.

Lemma blocks_tile_3 bat n1 n2 n3 B1 B2 B3 S1 S2 S3 :
  blocks_tile (bat ++ [n1; n2; n3]) [B1; B2; B3] [S1; S2; S3] = true ->
  (B1 = S1 /\ n1 mod B1 = 0) /\ (B2 = S2 /\ n2 mod B2 = 0) /\ (B3 = S3 /\ n3 mod B3 = 0).
Proof.
  unfold blocks_tile. cbn [length]. rewrite (lastn_app_len bat [n1; n2; n3]) by reflexivity. cbn [zip3 forallb].
  rewrite andb_true_r. rewrite !andb_true_iff, !Z.eqb_eq. tauto.
Qed.

Lemma blocks_no_overlap_3 B1 B2 B3 S1 S2 S3 :
  blocks_no_overlap [B1; B2; B3] [S1; S2; S3] = true -> B1 <= S1 /\ B2 <= S2 /\ B3 <= S3.
Proof.
  unfold blocks_no_overlap. cbn [combine forallb fst snd]. rewrite andb_true_r, !andb_true_iff, !Z.leb_le. tauto.
Qed.

Section Pick3.
  Variable R : StarRing.
  Add Ring RringN6 : (SRth R).
  Local Open Scope sr_scope.

  Lemma block_unique3 N1 N2 N3 B1 B2 B3 S1 S2 S3 p1 p2 p3 (g : Z -> Z -> Z -> Z -> Z -> Z -> R) :
    (0 < S1)%Z -> (B1 <= S1)%Z -> (0 <= p1)%Z -> (0 < S2)%Z -> (B2 <= S2)%Z -> (0 <= p2)%Z ->
    (0 < S3)%Z -> (B3 <= S3)%Z -> (0 <= p3)%Z ->
    sumZ N1 (fun m1 => sumZ N2 (fun m2 => sumZ N3 (fun m3 =>
      sumZ B1 (fun t1 => sumZ B2 (fun t2 => sumZ B3 (fun t3 =>
        if (m1 * S1 + t1 =? p1)%Z && (m2 * S2 + t2 =? p2)%Z && (m3 * S3 + t3 =? p3)%Z
        then g m1 m2 m3 t1 t2 t3 else 0)))))) =
    if ((p1 / S1 <? N1)%Z && (p1 mod S1 <? B1)%Z) &&
       (((p2 / S2 <? N2)%Z && (p2 mod S2 <? B2)%Z) && ((p3 / S3 <? N3)%Z && (p3 mod S3 <? B3)%Z))
    then g (p1 / S1)%Z (p2 / S2)%Z (p3 / S3)%Z (p1 mod S1)%Z (p2 mod S2)%Z (p3 mod S3)%Z else 0.
  Proof.
    intros H1 H2 H3 H4 H5 H6 H7 H8 H9.
    set (C23 := ((p2 / S2 <? N2)%Z && (p2 mod S2 <? B2)%Z) && ((p3 / S3 <? N3)%Z && (p3 mod S3 <? B3)%Z)).
    transitivity (sumZ N1 (fun m1 => sumZ B1 (fun t1 => if (m1 * S1 + t1 =? p1)%Z then
        (if C23 then g m1 (p2 / S2)%Z (p3 / S3)%Z t1 (p2 mod S2)%Z (p3 mod S3)%Z else 0) else 0))).
    { apply sumZ_ext. intros m1 _.
      rewrite (sumZ_ext R N2 _ (fun m2 => sumZ B1 (fun t1 => sumZ N3 (fun m3 => sumZ B2 (fun t2 => sumZ B3 (fun t3 =>
                 if (m1 * S1 + t1 =? p1)%Z && (m2 * S2 + t2 =? p2)%Z && (m3 * S3 + t3 =? p3)%Z
                 then g m1 m2 m3 t1 t2 t3 else 0)))))).
      2:{ intros m2 _. apply sumZ_exchange. }
      rewrite sumZ_exchange. apply sumZ_ext. intros t1 _.
      unfold C23.
      rewrite <- (block_unique2 R N2 N3 B2 B3 S2 S3 p2 p3 (fun m2 m3 t2 t3 => g m1 m2 m3 t1 t2 t3)) by assumption.
      rewrite <- sumZ_if. apply sumZ_ext. intros m2 _. rewrite <- sumZ_if. apply sumZ_ext. intros m3 _.
      rewrite <- sumZ_if. apply sumZ_ext. intros t2 _. rewrite <- sumZ_if. apply sumZ_ext. intros t3 _.
      destruct (m1 * S1 + t1 =? p1)%Z, (m2 * S2 + t2 =? p2)%Z, (m3 * S3 + t3 =? p3)%Z; reflexivity. }
    rewrite (block_unique R N1 B1 S1 p1
      (fun m1 t1 => if C23 then g m1 (p2 / S2)%Z (p3 / S3)%Z t1 (p2 mod S2)%Z (p3 mod S3)%Z else 0)) by assumption.
    destruct ((p1 / S1 <? N1)%Z && (p1 mod S1 <? B1)%Z), C23; reflexivity.
  Qed.
End Pick3.

Section Blk3.
  Variable R : StarRing.
  Add Ring RringN7 : (SRth R).
  Notation farr := (list Z -> R).
  Variable arr : Z -> farr.
  Variable scal : Z -> R.
  Variable orc : linop -> farr -> farr.
  Notation D := (D R arr scal orc).
  Local Open Scope sr_scope.

  Lemma D_a2b3 bat n1 n2 n3 B1 B2 B3 S1 S2 S3 (x : farr) bv m1 m2 m3 t1 t2 t3 :
    (0 < S1)%Z -> (0 < S2)%Z -> (0 < S3)%Z -> inbox bat bv ->
    (0 <= m1 < nblk n1 B1 S1)%Z -> (0 <= m2 < nblk n2 B2 S2)%Z -> (0 <= m3 < nblk n3 B3 S3)%Z ->
    (0 <= t1 < B1)%Z -> (0 <= t2 < B2)%Z -> (0 <= t3 < B3)%Z ->
    D (ArrayToBlocks (bat ++ [n1; n2; n3]) [B1; B2; B3] [S1; S2; S3]) x (bv ++ [m1; m2; m3; t1; t2; t3]) =
    x (bv ++ [m1 * S1 + t1; m2 * S2 + t2; m3 * S3 + t3]%Z).
  Proof.
    intros HS1 HS2 HS3 Hbv Hm1 Hm2 Hm3 Ht1 Ht2 Ht3.
    unfold LinopTheory.D. cbn [den]. unfold array_to_blocks. cbn [length Nat.eqb negb].
    rewrite (droplast_app_len bat [n1; n2; n3]) by reflexivity. rewrite (lastn_app_len bat [n1; n2; n3]) by reflexivity.
    rewrite num_blks_3.
    unfold unflatten_batch. pose proof (inbox_length _ _ Hbv) as Lb. rewrite <- Lb, firstn_pre, skipn_pre.
    pose proof (ravel_bound bat bv Hbv) as Hr.
    change (revn [S1; S2; S3] 0) with S3. change (revn [S1; S2; S3] 1) with S2. change (revn [S1; S2; S3] 2) with S1.
    change (revn [B1; B2; B3] 0) with B3. change (revn [B1; B2; B3] 1) with B2. change (revn [B1; B2; B3] 2) with B1.
    change (revn [nblk n1 B1 S1; nblk n2 B2 S2; nblk n3 B3 S3] 0) with (nblk n3 B3 S3).
    change (revn [nblk n1 B1 S1; nblk n2 B2 S2; nblk n3 B3 S3] 1) with (nblk n2 B2 S2).
    change (revn [nblk n1 B1 S1; nblk n2 B2 S2; nblk n3 B3 S3] 2) with (nblk n1 B1 S1).
    unfold nblk in *.
    rewrite (a2b3_exec_num_blks R _ _ _ _ B3 B2 B1 S3 S2 S1 n1 n2 n3); try assumption; try reflexivity.
    unfold flatten_batch. rewrite unravel_ravel by exact Hbv. reflexivity.
  Qed.

  Lemma D_b2a3 bat n1 n2 n3 B1 B2 B3 S1 S2 S3 (y : farr) bv p1 p2 p3 :
    wf (ArrayToBlocks (bat ++ [n1; n2; n3]) [B1; B2; B3] [S1; S2; S3]) = true ->
    (0 < S1)%Z -> (0 < S2)%Z -> (0 < S3)%Z -> inbox bat bv -> (0 <= p1 < n1)%Z -> (0 <= p2 < n2)%Z -> (0 <= p3 < n3)%Z ->
    D (BlocksToArray (bat ++ [n1; n2; n3]) [B1; B2; B3] [S1; S2; S3]) y (bv ++ [p1; p2; p3]) =
    0 + sumZ (nblk n1 B1 S1) (fun m1 => sumZ (nblk n2 B2 S2) (fun m2 => sumZ (nblk n3 B3 S3) (fun m3 =>
          sumZ B1 (fun t1 => sumZ B2 (fun t2 => sumZ B3 (fun t3 =>
            if (m1 * S1 + t1 =? p1)%Z && (m2 * S2 + t2 =? p2)%Z && (m3 * S3 + t3 =? p3)%Z
            then y (bv ++ [m1; m2; m3; t1; t2; t3]) else 0)))))).
  Proof.
    intros Hwf HS1 HS2 HS3 Hbv Hp1 Hp2 Hp3. unfold LinopTheory.D. cbn [den].
    destruct (wf_a2b3_facts _ _ _ _ _ _ _ _ _ _ Hwf) as (_ & Ei & _). rewrite Ei.
    unfold blocks_to_array. cbn [length Nat.eqb negb]. change (2 * 3)%nat with 6%nat.
    rewrite (droplast_app_len bat [n1; n2; n3]) by reflexivity. rewrite (lastn_app_len bat [n1; n2; n3]) by reflexivity.
    rewrite (lastn_app_len bat [nblk n1 B1 S1; nblk n2 B2 S2; nblk n3 B3 S3; B1; B2; B3]) by reflexivity. cbn [firstn].
    unfold unflatten_batch. pose proof (inbox_length _ _ Hbv) as Lb. rewrite <- Lb, firstn_pre, skipn_pre.
    pose proof (ravel_bound bat bv Hbv) as Hr.
    change (revn [S1; S2; S3] 0) with S3. change (revn [S1; S2; S3] 1) with S2. change (revn [S1; S2; S3] 2) with S1.
    change (revn [B1; B2; B3] 0) with B3. change (revn [B1; B2; B3] 1) with B2. change (revn [B1; B2; B3] 2) with B1.
    change (revn [nblk n1 B1 S1; nblk n2 B2 S2; nblk n3 B3 S3] 0) with (nblk n3 B3 S3).
    change (revn [nblk n1 B1 S1; nblk n2 B2 S2; nblk n3 B3 S3] 1) with (nblk n2 B2 S2).
    change (revn [nblk n1 B1 S1; nblk n2 B2 S2; nblk n3 B3 S3] 2) with (nblk n1 B1 S1).
    rewrite (b2a3_exec R _ _ _ _ B3 B2 B1 S3 S2 S1 _ _ _ n1 n2 n3); try assumption; try reflexivity.
    f_equal. apply sumZ_ext. intros m1 _. apply sumZ_ext. intros m2 _. apply sumZ_ext. intros m3 _.
    apply sumZ_ext. intros t1 _. apply sumZ_ext. intros t2 _. apply sumZ_ext. intros t3 _.
    unfold flatten_batch. rewrite unravel_ravel by exact Hbv. reflexivity.
  Qed.
End Blk3.

Section Blk3Iso.
  Variable R : StarRing.
  Add Ring RringN8 : (SRth R).
  Notation farr := (list Z -> R).
  Variable arr : Z -> farr.
  Variable scal : Z -> R.
  Variable orc : linop -> farr -> farr.
  Notation D := (D R arr scal orc).
  Local Open Scope sr_scope.

  Theorem a2b3_gram bat n1 n2 n3 B1 B2 B3 S1 S2 S3 (x : farr) bv p1 p2 p3 :
    wf (ArrayToBlocks (bat ++ [n1; n2; n3]) [B1; B2; B3] [S1; S2; S3]) = true ->
    (B1 <= S1)%Z -> (B2 <= S2)%Z -> (B3 <= S3)%Z ->
    inbox bat bv -> (0 <= p1 < n1)%Z -> (0 <= p2 < n2)%Z -> (0 <= p3 < n3)%Z ->
    D (adj (ArrayToBlocks (bat ++ [n1; n2; n3]) [B1; B2; B3] [S1; S2; S3]))
      (D (ArrayToBlocks (bat ++ [n1; n2; n3]) [B1; B2; B3] [S1; S2; S3]) x) (bv ++ [p1; p2; p3]) =
    if ((p1 / S1 <? nblk n1 B1 S1)%Z && (p1 mod S1 <? B1)%Z) &&
       (((p2 / S2 <? nblk n2 B2 S2)%Z && (p2 mod S2 <? B2)%Z) && ((p3 / S3 <? nblk n3 B3 S3)%Z && (p3 mod S3 <? B3)%Z))
    then x (bv ++ [p1; p2; p3]) else 0.
  Proof.
    intros Hwf HB1 HB2 HB3 Hbv Hp1 Hp2 Hp3.
    destruct (wf_a2b3_facts _ _ _ _ _ _ _ _ _ _ Hwf) as (_ & _ & (Hn1 & Hn2 & Hn3) & (Hb1 & Hb2 & Hb3)).
    assert (HS1 : (0 < S1)%Z) by lia. assert (HS2 : (0 < S2)%Z) by lia. assert (HS3 : (0 < S3)%Z) by lia.
    cbn [adj]. rewrite (D_b2a3 R arr scal orc) by assumption.
    rewrite (sumZ_ext R (nblk n1 B1 S1) _ (fun m1 => sumZ (nblk n2 B2 S2) (fun m2 => sumZ (nblk n3 B3 S3) (fun m3 =>
               sumZ B1 (fun t1 => sumZ B2 (fun t2 => sumZ B3 (fun t3 =>
               if (m1 * S1 + t1 =? p1)%Z && (m2 * S2 + t2 =? p2)%Z && (m3 * S3 + t3 =? p3)%Z
               then x (bv ++ [p1; p2; p3]) else 0))))))).
    2:{ intros m1 Hm1. apply sumZ_ext. intros m2 Hm2. apply sumZ_ext. intros m3 Hm3.
        apply sumZ_ext. intros t1 Ht1. apply sumZ_ext. intros t2 Ht2. apply sumZ_ext. intros t3 Ht3.
        destruct (Z.eqb_spec (m1 * S1 + t1) p1) as [E1|]; [|reflexivity].
        destruct (Z.eqb_spec (m2 * S2 + t2) p2) as [E2|]; [|reflexivity].
        destruct (Z.eqb_spec (m3 * S3 + t3) p3) as [E3|]; [|reflexivity]. cbn [andb].
        rewrite (D_a2b3 R arr scal orc) by assumption. rewrite E1, E2, E3. reflexivity. }
    rewrite (block_unique3 R _ _ _ B1 B2 B3 S1 S2 S3 p1 p2 p3 (fun _ _ _ _ _ _ => x (bv ++ [p1; p2; p3]))) by lia.
    ring.
  Qed.

  Theorem a2b3_tile_iso bat n1 n2 n3 B1 B2 B3 (x : farr) bv p1 p2 p3 :
    wf (ArrayToBlocks (bat ++ [n1; n2; n3]) [B1; B2; B3] [B1; B2; B3]) = true ->
    (n1 mod B1 = 0)%Z -> (n2 mod B2 = 0)%Z -> (n3 mod B3 = 0)%Z ->
    inbox bat bv -> (0 <= p1 < n1)%Z -> (0 <= p2 < n2)%Z -> (0 <= p3 < n3)%Z ->
    D (adj (ArrayToBlocks (bat ++ [n1; n2; n3]) [B1; B2; B3] [B1; B2; B3]))
      (D (ArrayToBlocks (bat ++ [n1; n2; n3]) [B1; B2; B3] [B1; B2; B3]) x) (bv ++ [p1; p2; p3]) = x (bv ++ [p1; p2; p3]).
  Proof.
    intros Hwf Hm1 Hm2 Hm3 Hbv Hp1 Hp2 Hp3.
    destruct (wf_a2b3_facts _ _ _ _ _ _ _ _ _ _ Hwf) as (_ & _ & (Hn1 & Hn2 & Hn3) & (Hb1 & Hb2 & Hb3)).
    rewrite a2b3_gram by (try assumption; lia).
    pose proof (tile_div_lt n1 B1 p1 Hb1 Hm1 Hp1). pose proof (Z.mod_pos_bound p1 B1 Hb1).
    pose proof (tile_div_lt n2 B2 p2 Hb2 Hm2 Hp2). pose proof (Z.mod_pos_bound p2 B2 Hb2).
    pose proof (tile_div_lt n3 B3 p3 Hb3 Hm3 Hp3). pose proof (Z.mod_pos_bound p3 B3 Hb3).
    destruct (Z.ltb_spec (p1 / B1) (nblk n1 B1 B1)); [|lia]. destruct (Z.ltb_spec (p1 mod B1) B1); [|lia].
    destruct (Z.ltb_spec (p2 / B2) (nblk n2 B2 B2)); [|lia]. destruct (Z.ltb_spec (p2 mod B2) B2); [|lia].
    destruct (Z.ltb_spec (p3 / B3) (nblk n3 B3 B3)); [|lia]. destruct (Z.ltb_spec (p3 mod B3) B3); [|lia]. reflexivity.
  Qed.

  Theorem b2a3_iso bat n1 n2 n3 B1 B2 B3 S1 S2 S3 (y : farr) bv m1 m2 m3 t1 t2 t3 :
    wf (BlocksToArray (bat ++ [n1; n2; n3]) [B1; B2; B3] [S1; S2; S3]) = true ->
    (B1 <= S1)%Z -> (B2 <= S2)%Z -> (B3 <= S3)%Z -> inbox bat bv ->
    (0 <= m1 < nblk n1 B1 S1)%Z -> (0 <= m2 < nblk n2 B2 S2)%Z -> (0 <= m3 < nblk n3 B3 S3)%Z ->
    (0 <= t1 < B1)%Z -> (0 <= t2 < B2)%Z -> (0 <= t3 < B3)%Z ->
    D (adj (BlocksToArray (bat ++ [n1; n2; n3]) [B1; B2; B3] [S1; S2; S3]))
      (D (BlocksToArray (bat ++ [n1; n2; n3]) [B1; B2; B3] [S1; S2; S3]) y) (bv ++ [m1; m2; m3; t1; t2; t3]) =
    y (bv ++ [m1; m2; m3; t1; t2; t3]).
  Proof.
    intros Hwf HB1 HB2 HB3 Hbv Hm1 Hm2 Hm3 Ht1 Ht2 Ht3. rewrite wf_a2b_b2a in Hwf.
    destruct (wf_a2b3_facts _ _ _ _ _ _ _ _ _ _ Hwf) as (_ & _ & (Hn1 & Hn2 & Hn3) & (Hb1 & Hb2 & Hb3)).
    assert (HS1 : (0 < S1)%Z) by lia. assert (HS2 : (0 < S2)%Z) by lia. assert (HS3 : (0 < S3)%Z) by lia.
    cbn [adj]. rewrite (D_a2b3 R arr scal orc) by assumption.
    pose proof (a2b_in_bounds n1 B1 S1 m1 t1 HS1 Hm1 Ht1) as Hin1.
    pose proof (a2b_in_bounds n2 B2 S2 m2 t2 HS2 Hm2 Ht2) as Hin2.
    pose proof (a2b_in_bounds n3 B3 S3 m3 t3 HS3 Hm3 Ht3) as Hin3.
    rewrite (D_b2a3 R arr scal orc); [| exact Hwf | exact HS1 | exact HS2 | exact HS3 | exact Hbv | nia | nia | nia].
    rewrite (block_unique3 R _ _ _ B1 B2 B3 S1 S2 S3 (m1 * S1 + t1)%Z (m2 * S2 + t2)%Z (m3 * S3 + t3)%Z
               (fun m1' m2' m3' t1' t2' t3' => y (bv ++ [m1'; m2'; m3'; t1'; t2'; t3']))) by nia.
    destruct (blk_div_mod S1 m1 t1 HS1 ltac:(lia)) as [E1 E2]. destruct (blk_div_mod S2 m2 t2 HS2 ltac:(lia)) as [E3 E4].
    destruct (blk_div_mod S3 m3 t3 HS3 ltac:(lia)) as [E5 E6].
    rewrite E1, E2, E3, E4, E5, E6.
    destruct (Z.ltb_spec m1 (nblk n1 B1 S1)); [|lia]. destruct (Z.ltb_spec t1 B1); [|lia].
    destruct (Z.ltb_spec m2 (nblk n2 B2 S2)); [|lia]. destruct (Z.ltb_spec t2 B2); [|lia].
    destruct (Z.ltb_spec m3 (nblk n3 B3 S3)); [|lia]. destruct (Z.ltb_spec t3 B3); [|lia]. cbn [andb]. ring.
  Qed.

  Theorem a2b_tile_iso_3d i B1 B2 B3 S1 S2 S3 (x : farr) idx :
    (3 <= length i)%nat -> wf (ArrayToBlocks i [B1; B2; B3] [S1; S2; S3]) = true ->
    blocks_tile i [B1; B2; B3] [S1; S2; S3] = true ->
    inbox (ishape_of (ArrayToBlocks i [B1; B2; B3] [S1; S2; S3])) idx ->
    D (adj (ArrayToBlocks i [B1; B2; B3] [S1; S2; S3])) (D (ArrayToBlocks i [B1; B2; B3] [S1; S2; S3]) x) idx = x idx.
  Proof.
    intros Hl Hwf Ht Hb. destruct (last3_split i Hl) as (bat & n1 & n2 & n3 & ->).
    destruct (wf_a2b3_facts _ _ _ _ _ _ _ _ _ _ Hwf) as (Ei & _). rewrite Ei in Hb.
    destruct (blocks_tile_3 _ _ _ _ _ _ _ _ _ _ Ht) as ([<- Hm1] & [<- Hm2] & [<- Hm3]).
    destruct (inbox_app_split _ _ _ Hb) as (bv & b & -> & Hbv & H1).
    destruct (inbox_3 _ _ _ _ H1) as (p1 & p2 & p3 & -> & Hp1 & Hp2 & Hp3).
    apply a2b3_tile_iso; assumption.
  Qed.

  Theorem b2a_iso_3d o B1 B2 B3 S1 S2 S3 (y : farr) idx :
    (3 <= length o)%nat -> wf (BlocksToArray o [B1; B2; B3] [S1; S2; S3]) = true ->
    blocks_no_overlap [B1; B2; B3] [S1; S2; S3] = true ->
    inbox (ishape_of (BlocksToArray o [B1; B2; B3] [S1; S2; S3])) idx ->
    D (adj (BlocksToArray o [B1; B2; B3] [S1; S2; S3])) (D (BlocksToArray o [B1; B2; B3] [S1; S2; S3]) y) idx = y idx.
  Proof.
    intros Hl Hwf Ht Hb. destruct (last3_split o Hl) as (bat & n1 & n2 & n3 & ->).
    pose proof Hwf as Hwf'. rewrite wf_a2b_b2a in Hwf'.
    destruct (wf_a2b3_facts _ _ _ _ _ _ _ _ _ _ Hwf') as (_ & Ei & _). rewrite Ei in Hb.
    destruct (blocks_no_overlap_3 _ _ _ _ _ _ Ht) as (H1 & H2 & H3).
    destruct (inbox_app_split _ _ _ Hb) as (bv & b & -> & Hbv & H6).
    destruct (inbox_6 _ _ _ _ _ _ _ H6) as (m1 & m2 & m3 & t1 & t2 & t3 & -> & Hm1 & Hm2 & Hm3 & Ht1 & Ht2 & Ht3).
    apply b2a3_iso; assumption.
  Qed.
End Blk3Iso.

(* ================================================================ 5. all shortcut classes together *)
(* the generated kernels exist for 1, 2 and 3 block axes; blk_shape and blk_strides must have that same length
   (python raises otherwise) and the array must have at least that many axes *)
Definition block_dims_ok (shape b s : list Z) : bool :=
  match b, s with
  | [_], [_] => (1 <=? length shape)%nat
  | [_; _], [_; _] => (2 <=? length shape)%nat
  | [_; _; _], [_; _; _] => (3 <=? length shape)%nat
  | _, _ => false
  end.

(* the operators for which  A.N x = A^H (A x)  on the input box is PROVED below (given wf A):
     - Identity, every class with the default A.H * A (all combinators, and the block operators outside
       their shortcut regime): always;
     - Reshape: equal sizes (numpy raises at apply otherwise);
     - Transpose: axes None, or axes whose normalisation `a mod ndim` is a permutation of 0..ndim-1;
     - Circshift: always;
     - ArrayToBlocks in the tiling regime / BlocksToArray in the non-overlap regime: 1, 2 or 3 block axes;
     - FFT / IFFT: [true] here, the theorem takes the unitarity of the oracle as hypothesis [fft_unitary] (C05). *)
Definition normal_proved (A : linop) : bool :=
  match A with
  | Reshape o i => prodZ o =? prodZ i
  | Transpose i (Some ax) => transpose_axes_okb i ax
  | ArrayToBlocks i b s => negb (blocks_tile i b s) || block_dims_ok i b s
  | BlocksToArray o b s => negb (blocks_no_overlap b s) || block_dims_ok o b s
  | _ => true
  end.

Lemma wf_finish A o i : shapes A = finish o i -> wf A = true ->
  ishape_of A = i /\ oshape_of A = o /\ Forall (fun n => 0 < n) o /\ Forall (fun n => 0 < n) i.
Proof.
  intros Hs Hwf. unfold wf in Hwf. unfold ishape_of, oshape_of. rewrite Hs in Hwf |- *.
  destruct (finish o i) as [r|] eqn:F; [|discriminate]. destruct (finish_pos _ _ _ F) as [Ho Hi].
  apply finish_ok in F. subst r. auto.
Qed.

Section Combined.
  Variable R : StarRing.
  Notation farr := (list Z -> R).
  Variable arr : Z -> farr.
  Variable scal : Z -> R.
  Variable orc : linop -> farr -> farr.
  Notation D := (D R arr scal orc).

  (* the library FFT pair is unitary on the index box (what C05 proves of the model of fourier.fft / ifft) *)
  Definition fft_unitary : Prop :=
    forall s ax c (x : farr) idx, wf (FFT s ax c) = true -> inbox s idx ->
      orc (IFFT s ax c) (orc (FFT s ax c) x) idx = x idx /\ orc (FFT s ax c) (orc (IFFT s ax c) x) idx = x idx.

  Theorem array_to_blocks_tile_iso i b s (x : farr) idx :
    wf (ArrayToBlocks i b s) = true -> blocks_tile i b s = true -> block_dims_ok i b s = true ->
    inbox (ishape_of (ArrayToBlocks i b s)) idx ->
    D (adj (ArrayToBlocks i b s)) (D (ArrayToBlocks i b s) x) idx = x idx.
  Proof.
    intros Hwf Ht Hd Hb. unfold block_dims_ok in Hd.
    destruct b as [|B1 [|B2 [|B3 [|? ?]]]]; try discriminate;
      destruct s as [|S1 [|S2 [|S3 [|? ?]]]]; try discriminate; apply Nat.leb_le in Hd.
    - apply a2b_tile_iso_1d; try assumption. intros ->. simpl in Hd. lia.
    - apply a2b_tile_iso_2d; assumption.
    - apply a2b_tile_iso_3d; assumption.
  Qed.

  Theorem blocks_to_array_no_overlap_iso o b s (y : farr) idx :
    wf (BlocksToArray o b s) = true -> blocks_no_overlap b s = true -> block_dims_ok o b s = true ->
    inbox (ishape_of (BlocksToArray o b s)) idx ->
    D (adj (BlocksToArray o b s)) (D (BlocksToArray o b s) y) idx = y idx.
  Proof.
    intros Hwf Ht Hd Hb. unfold block_dims_ok in Hd.
    destruct b as [|B1 [|B2 [|B3 [|? ?]]]]; try discriminate;
      destruct s as [|S1 [|S2 [|S3 [|? ?]]]]; try discriminate; apply Nat.leb_le in Hd.
    - apply b2a_iso_1d; try assumption. intros ->. simpl in Hd. lia.
    - apply b2a_iso_2d; assumption.
    - apply b2a_iso_3d; assumption.
  Qed.

  Theorem normal_array_to_blocks i b s (x : farr) idx :
    wf (ArrayToBlocks i b s) = true -> blocks_tile i b s = true -> block_dims_ok i b s = true ->
    inbox (ishape_of (ArrayToBlocks i b s)) idx ->
    D (normal (ArrayToBlocks i b s)) x idx = D (adj (ArrayToBlocks i b s)) (D (ArrayToBlocks i b s) x) idx.
  Proof.
    intros Hwf Ht Hd Hb. apply normal_shortcut; [exact Ht|]. apply array_to_blocks_tile_iso; assumption.
  Qed.

  Theorem normal_blocks_to_array o b s (y : farr) idx :
    wf (BlocksToArray o b s) = true -> blocks_no_overlap b s = true -> block_dims_ok o b s = true ->
    inbox (ishape_of (BlocksToArray o b s)) idx ->
    D (normal (BlocksToArray o b s)) y idx = D (adj (BlocksToArray o b s)) (D (BlocksToArray o b s) y) idx.
  Proof.
    intros Hwf Ht Hd Hb. apply normal_shortcut; [exact Ht|]. apply blocks_to_array_no_overlap_iso; assumption.
  Qed.

  (* C04 for every class: the operator returned by _normal_linop acts as A^H A on the input box *)
  Theorem normal_correct A (x : farr) idx :
    wf A = true -> normal_proved A = true -> fft_unitary -> inbox (ishape_of A) idx ->
    D (normal A) x idx = D (adj A) (D A x) idx.
  Proof.
    intros Hwf Hp Hfft Hb.
    destruct (has_default_normal A) eqn:Hd.
    { rewrite (normal_default R arr scal orc A x Hd). reflexivity. }
    destruct A; cbn [has_default_normal] in Hd; try discriminate.
    - (* Identity *) reflexivity.
    - (* Reshape *)
      destruct (wf_finish (Reshape oshape ishape) oshape ishape eq_refl Hwf) as (Ei & _ & Ho & Hi).
      rewrite Ei in Hb. cbn [normal_proved] in Hp. apply Z.eqb_eq in Hp.
      symmetry. apply normal_reshape; assumption.
    - (* Transpose *)
      assert (Ei : ishape_of (Transpose ishape axes) = ishape).
      { destruct axes as [ax|]; eapply wf_finish; try exact Hwf; reflexivity. }
      rewrite Ei in Hb. apply normal_transpose; [|exact Hb].
      destruct axes as [ax|]; [|exact I]. cbn [normal_proved] in Hp. apply is_permb_spec. exact Hp.
    - (* FFT *)
      destruct (wf_finish (FFT shape axes center) shape shape eq_refl Hwf) as (Ei & _). rewrite Ei in Hb.
      apply normal_shortcut; [exact I|]. exact (proj1 (Hfft shape axes center x idx Hwf Hb)).
    - (* IFFT *)
      destruct (wf_finish (IFFT shape axes center) shape shape eq_refl Hwf) as (Ei & _). rewrite Ei in Hb.
      apply normal_shortcut; [exact I|]. exact (proj2 (Hfft shape axes center x idx Hwf Hb)).
    - (* Circshift *)
      destruct (wf_finish (Circshift shape shift axes) shape shape eq_refl Hwf) as (Ei & _). rewrite Ei in Hb.
      apply normal_circshift; assumption.
    - (* ArrayToBlocks, tiling regime *)
      apply negb_false_iff in Hd. cbn [normal_proved] in Hp. rewrite Hd in Hp. cbn [negb orb] in Hp.
      apply normal_array_to_blocks; assumption.
    - (* BlocksToArray, non-overlap regime *)
      apply negb_false_iff in Hd. cbn [normal_proved] in Hp. rewrite Hd in Hp. cbn [negb orb] in Hp.
      apply normal_blocks_to_array; assumption.
  Qed.

  (* without FFT / IFFT no hypothesis on the oracle is needed *)
  Definition no_fft (A : linop) : bool := match A with FFT _ _ _ | IFFT _ _ _ => false | _ => true end.

  Theorem normal_correct_no_oracle A (x : farr) idx :
    wf A = true -> normal_proved A = true -> no_fft A = true -> inbox (ishape_of A) idx ->
    D (normal A) x idx = D (adj A) (D A x) idx.
  Proof.
    intros Hwf Hp Hn Hb.
    destruct (has_default_normal A) eqn:Hd.
    { rewrite (normal_default R arr scal orc A x Hd). reflexivity. }
    destruct A; cbn [has_default_normal] in Hd; try discriminate; cbn [no_fft] in Hn; try discriminate.
    - reflexivity.
    - destruct (wf_finish (Reshape oshape ishape) oshape ishape eq_refl Hwf) as (Ei & _ & Ho & Hi).
      rewrite Ei in Hb. cbn [normal_proved] in Hp. apply Z.eqb_eq in Hp.
      symmetry. apply normal_reshape; assumption.
    - assert (Ei : ishape_of (Transpose ishape axes) = ishape).
      { destruct axes as [ax|]; eapply wf_finish; try exact Hwf; reflexivity. }
      rewrite Ei in Hb. apply normal_transpose; [|exact Hb].
      destruct axes as [ax|]; [|exact I]. cbn [normal_proved] in Hp. apply is_permb_spec. exact Hp.
    - destruct (wf_finish (Circshift shape shift axes) shape shape eq_refl Hwf) as (Ei & _). rewrite Ei in Hb.
      apply normal_circshift; assumption.
    - apply negb_false_iff in Hd. cbn [normal_proved] in Hp. rewrite Hd in Hp. cbn [negb orb] in Hp.
      apply normal_array_to_blocks; assumption.
    - apply negb_false_iff in Hd. cbn [normal_proved] in Hp. rewrite Hd in Hp. cbn [negb orb] in Hp.
      apply normal_blocks_to_array; assumption.
  Qed.
End Combined.

(* ================================================================ the hypotheses are satisfiable *)
Example normal_proved_examples :
  let ops := [ Transpose [2; 3; 4] None; Transpose [2; 3; 4] (Some [-1; 0; -2]); Circshift [2; 3] [1; -2; 5] (Some [0; 1; -1]);
               Reshape [6] [2; 3]; Identity [4];
               ArrayToBlocks [3; 12] [4] [4]; ArrayToBlocks [2; 6; 4] [3; 2] [3; 2]; ArrayToBlocks [4; 6; 2] [2; 3; 1] [2; 3; 1];
               BlocksToArray [3; 11] [2] [3]; BlocksToArray [7; 5] [2; 2] [3; 2]; BlocksToArray [5; 7; 4] [2; 3; 1] [2; 4; 3];
               ArrayToBlocks [6] [3] [1]; BlocksToArray [6] [3] [2]; FFT [4; 4] None true ] in
  forallb (fun A => wf A && normal_proved A) ops = true /\
  map has_default_normal ops = [false; false; false; false; false; false; false; false; false; false; false; true; true; false].
Proof. vm_compute. split; reflexivity. Qed.

(* an oracle satisfying [fft_unitary] exists (any mutually inverse pair; here the identity), so the
   hypothesis of [normal_correct] is not vacuous; C05 discharges it for the model of numpy.fft *)
Example fft_unitary_satisfiable : fft_unitary ZRing (fun _ x => x).
Proof. intros s ax c x idx _ _. split; reflexivity. Qed.

(* ================================================================ 6. the side conditions are necessary *)
(* exact evaluation on Z: outside the tiling / non-overlap regimes A^H A is NOT the identity, and the model's
   [normal] (like the repaired python) falls back to A.H * A there *)
Section Negative.
  Let arr0 : Z -> list Z -> ZRing := fun _ _ => 0.
  Let scal0 : Z -> ZRing := fun _ => 0.
  Let orc0 : linop -> (list Z -> ZRing) -> list Z -> ZRing := fun _ x => x.
  Let DZ := D ZRing arr0 scal0 orc0.
  Let ones : list Z -> ZRing := fun _ => 1.

  (* overlapping windows (ishape [6], blk [3], stride [1]): interior positions are covered three times *)
  Example a2b_overlap_gram_not_identity :
    let A := ArrayToBlocks [6] [3] [1] in
    tabulate [6] (DZ (adj A) (DZ A ones)) = [1; 2; 3; 3; 2; 1] /\ tabulate [6] ones = [1; 1; 1; 1; 1; 1] /\
    blocks_tile [6] [3] [1] = false /\ normal A = Compose [BlocksToArray [6] [3] [1]; A] /\
    tabulate [6] (DZ (normal A) ones) = [1; 2; 3; 3; 2; 1].
  Proof. vm_compute. repeat split; reflexivity. Qed.

  (* b == s but the blocks do not fill the axis (7 = 2*3 + 1): the last position is dropped *)
  Example a2b_partial_cover_gram_not_identity :
    let A := ArrayToBlocks [7] [3] [3] in
    tabulate [7] (DZ (adj A) (DZ A ones)) = [1; 1; 1; 1; 1; 1; 0] /\
    blocks_tile [7] [3] [3] = false /\ normal A = Compose [BlocksToArray [7] [3] [3]; A].
  Proof. vm_compute. repeat split; reflexivity. Qed.

  (* gaps between blocks (b < s): uncovered positions are zeroed *)
  Example a2b_gaps_gram_not_identity :
    let A := ArrayToBlocks [8] [2] [3] in
    tabulate [8] (DZ (adj A) (DZ A ones)) = [1; 1; 0; 1; 1; 0; 1; 1] /\ blocks_tile [8] [2] [3] = false.
  Proof. vm_compute. repeat split; reflexivity. Qed.

  (* overlapping windows for BlocksToArray (oshape [6], blk [3], stride [2] => blocks box [2; 3]):
     entries [0,2] and [1,0] land on the same array position and are mixed *)
  Example b2a_overlap_gram_not_identity :
    let A := BlocksToArray [6] [3] [2] in
    ishape_of A = [2; 3] /\
    tabulate [2; 3] (DZ (adj A) (DZ A ones)) = [1; 1; 2; 2; 1; 1] /\
    blocks_no_overlap [3] [2] = false /\ normal A = Compose [ArrayToBlocks [6] [3] [2]; A].
  Proof. vm_compute. repeat split; reflexivity. Qed.

  (* the positive regimes on the same kind of data, by evaluation (instances of the theorems above) *)
  Example a2b_tile_gram_identity :
    let A := ArrayToBlocks [2; 6] [3] [3] in
    let x : list Z -> ZRing := fun idx => ravel [2; 6] idx + 1 in
    tabulate [2; 6] (DZ (adj A) (DZ A x)) = tabulate [2; 6] x /\ normal A = Identity [2; 6].
  Proof. vm_compute. split; reflexivity. Qed.

  Example b2a_gap_gram_identity :
    let A := BlocksToArray [8] [2] [3] in
    let y : list Z -> ZRing := fun idx => ravel [3; 2] idx + 1 in
    ishape_of A = [3; 2] /\ tabulate [3; 2] (DZ (adj A) (DZ A y)) = tabulate [3; 2] y /\ normal A = Identity [3; 2].
  Proof. vm_compute. repeat split; reflexivity. Qed.
End Negative.
