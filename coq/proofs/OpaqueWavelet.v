(* proofs/OpaqueWavelet.v — the library-backed leaves Wavelet / InverseWavelet of the operator language.

   model/OpaqueWavelet.orc_wavelet is the denotation of the two classes read off sigpy/linop.py in terms of the C10
   function model (model/Wavelet.v fwt / iwt); here the C10 theorems (proofs/Wavelet.v) are transported to the node
   hypothesis of LinopTheory.adj_correct:
       apair (Wavelet ..), apair (InverseWavelet ..)      <A x, y> = <x, A.H y>, shapes swapped
       normal = the default composition A.H * A for both classes (neither overrides _normal_linop)
       Wavelet.N acts as the identity on the input box (perfect reconstruction)
       InverseWavelet.N = W . W^H (an orthogonal projection of the coefficient box, NOT the identity)
   The PyWavelets facts stay hypotheses of exactly the form Prop_C10 uses (proofs/Wavelet.oracle_adjoint,
   oracle_reconstructs), instantiated at the (axes, wavelet, level) of the leaf. *)
From Coq Require Import ZArith List Lia Bool Ring.
From SV Require Import lib.Scalar lib.BigSum lib.LoopIR lib.NdArray lib.Gather model.Rearrange model.Block model.Wavelet
  model.Linop model.OpaqueWavelet proofs.FourierND proofs.Wavelet proofs.LinopTheory.
Import ListNotations.
Local Open Scope Z_scope.

(* ---------------------------------------------------------------- shape facts (no ring) *)
Lemma all_pos_forall s : all_pos s = true -> Forall (fun n => 0 < n) s.
Proof.
  unfold all_pos. rewrite forallb_forall. intros H. apply Forall_forall. intros n Hn. apply Z.ltb_lt. apply H. exact Hn.
Qed.

Lemma wf_finish_facts A o i : shapes A = finish o i -> wf A = true ->
  ishape_of A = i /\ oshape_of A = o /\ Forall (fun n => 0 < n) o /\ Forall (fun n => 0 < n) i.
Proof.
  intros Hs Hwf. unfold wf in Hwf. unfold ishape_of, oshape_of. rewrite Hs in Hwf |- *.
  unfold finish in *. destruct (all_pos o && all_pos i) eqn:E; [|discriminate].
  apply andb_true_iff in E. destruct E as [Eo Ei]. repeat split; auto using all_pos_forall.
Qed.

Lemma wf_wavelet i ax w l ws : wf (Wavelet i ax w l ws) = true ->
  ishape_of (Wavelet i ax w l ws) = i /\ oshape_of (Wavelet i ax w l ws) = ws /\
  Forall (fun n => 0 < n) ws /\ Forall (fun n => 0 < n) i.
Proof. apply wf_finish_facts. reflexivity. Qed.

Lemma wf_inverse_wavelet o ax w l ws : wf (InverseWavelet o ax w l ws) = true ->
  ishape_of (InverseWavelet o ax w l ws) = ws /\ oshape_of (InverseWavelet o ax w l ws) = o /\
  Forall (fun n => 0 < n) o /\ Forall (fun n => 0 < n) ws.
Proof. apply wf_finish_facts. reflexivity. Qed.

(* the two classes are well-formed together (their shapes are each other's swap) *)
Lemma wf_wavelet_swap s ax w l ws : wf (Wavelet s ax w l ws) = wf (InverseWavelet s ax w l ws).
Proof. unfold wf. cbn [shapes]. unfold finish. rewrite andb_comm. destruct (all_pos s && all_pos ws); reflexivity. Qed.

Lemma adj_shape_wavelet_leaf L : is_wavelet_leaf L = true ->
  forall o i, shapes L = Ok (o, i) -> shapes (adj L) = Ok (i, o).
Proof.
  destruct L; try discriminate; intros _ o i; cbn [adj shapes]; unfold finish;
    rewrite (andb_comm (all_pos _) (all_pos _));
    match goal with |- context [if ?b then _ else _] => destruct b end; try discriminate;
    intros H; inversion H; reflexivity.
Qed.

Lemma leaf_ok_split orth cs L : wavelet_leaf_ok orth cs L = true ->
  match L with
  | Wavelet s ax w l ws | InverseWavelet s ax w l ws =>
      pywt_axes_ok (lenZ s) ax = true /\ pywt_level_ok l = true /\ orth w = true /\ ws = wavelet_shape (cs ax w l) s
  | _ => False
  end.
Proof.
  destruct L; try discriminate; cbn [wavelet_leaf_ok]; intros H;
    apply andb_prop in H; destruct H as [H H4]; apply andb_prop in H; destruct H as [H H3];
    apply andb_prop in H; destruct H as [H1 H2]; apply zlist_eqb_spec in H4; auto.
Qed.

(* the stored coefficient shape is the one get_wavelet_shape computes: then [shapes] of model/Linop.v is what the
   two __init__ methods compute *)
Lemma shapes_are_init_shapes orth cs L : wavelet_leaf_ok orth cs L = true -> wf L = true ->
  exists s, wavelet_init_shapes cs L = Some s /\ shapes L = Ok s.
Proof.
  destruct L; try discriminate; intros H Hwf; apply leaf_ok_split in H; destruct H as (_ & _ & _ & E);
    cbn [wavelet_init_shapes]; rewrite <- E;
    (eexists; split; [reflexivity|]);
    unfold wf in Hwf; cbn [shapes] in Hwf |- *; unfold finish in *;
    match goal with |- context [if ?b then _ else _] => destruct b end; try discriminate; reflexivity.
Qed.

(* ================================================================ adjoint pairs *)
Section Leaf.
  Variable R : StarRing.
  Add Ring RringOW : (SRth R).
  Notation farr := (list Z -> R).
  Variable arr : Z -> farr.
  Variable scal : Z -> R.
  Variable orc : linop -> farr -> farr.
  Notation D := (D R arr scal orc).
  Notation apair := (apair R arr scal orc).

  (* PyWavelets environment *)
  Variable cs : option (list Z) -> Z -> option Z -> list Z -> list Z.
  Variable WW WWr : option (list Z) -> Z -> option Z -> list Z -> farr -> farr.
  Notation orcw := (orc_wavelet cs WW WWr).

  (* [orc] is the modelled class on a leaf *)
  Definition agrees (L : linop) : Prop := forall x : farr, orc L x = orcw L x.

  Lemma D_wavelet i ax w l ws x : D (Wavelet i ax w l ws) x = orc (Wavelet i ax w l ws) x.
  Proof. reflexivity. Qed.
  Lemma D_inverse_wavelet o ax w l ws x : D (InverseWavelet o ax w l ws) x = orc (InverseWavelet o ax w l ws) x.
  Proof. reflexivity. Qed.

  (* ---- one leaf, the oracle hypothesis in the form of Prop_C10 ---- *)
  Section One.
    Variables (s : list Z) (ax : option (list Z)) (w : Z) (l : option Z) (ws : list Z).
    Let A := Wavelet s ax w l ws.
    Let AH := InverseWavelet s ax w l ws.

    Hypothesis Hshape : ws = wavelet_shape (cs ax w l) s.       (* oshape of __init__ = get_wavelet_shape *)
    Hypothesis HA : agrees A.
    Hypothesis HAH : agrees AH.

    Theorem apair_wavelet :
      wf A = true ->
      oracle_adjoint R s (cs ax w l) (WW ax w l) (WWr ax w l) ->
      apair A.
    Proof.
      intros Hwf Hadj. destruct (wf_wavelet _ _ _ _ _ Hwf) as (Ei & Eo & _ & Hpos).
      pose proof HA as HA'. pose proof HAH as HAH'. unfold agrees, A, AH in HA', HAH'.
      unfold LinopTheory.apair, A. rewrite Ei, Eo. cbn [adj].
      intros x y. rewrite D_wavelet, D_inverse_wavelet, HA', HAH'.
      cbn [orc_wavelet]. rewrite Hshape. unfold wavelet_shape.
      apply iwt_is_adjoint; assumption.
    Qed.

    Theorem apair_inverse_wavelet :
      wf AH = true ->
      oracle_adjoint R s (cs ax w l) (WW ax w l) (WWr ax w l) ->
      apair AH.
    Proof.
      intros Hwf Hadj.
      assert (Hwf' : wf A = true) by (unfold A; rewrite wf_wavelet_swap; exact Hwf).
      pose proof (apair_wavelet Hwf' Hadj) as P.
      destruct (wf_wavelet _ _ _ _ _ Hwf') as (Ei & Eo & _ & _).
      destruct (wf_inverse_wavelet _ _ _ _ _ Hwf) as (Ei' & Eo' & _ & _).
      unfold LinopTheory.apair, A, AH in *.
      rewrite Ei, Eo in P. rewrite Ei', Eo'. cbn [adj] in P |- *.
      apply adjoint_pair_sym. exact P.
    Qed.

    (* ---- normal operators: neither class overrides _normal_linop ---- *)
    Theorem normal_wavelet_is_default : normal A = Compose [AH; A] /\ normal AH = Compose [A; AH].
    Proof. split; reflexivity. Qed.

    Theorem normal_wavelet (x : farr) : D (normal A) x = D (adj A) (D A x).
    Proof. reflexivity. Qed.

    Theorem normal_inverse_wavelet (y : farr) : D (normal AH) y = D (adj AH) (D AH y).
    Proof. reflexivity. Qed.

    (* Wavelet.N = W^H W acts as the identity on the input box (perfect reconstruction of the padded oracle pair) *)
    Theorem wavelet_adjoint_after_forward (x : farr) o :
      wf A = true -> oracle_reconstructs R s (WW ax w l) (WWr ax w l) -> inbox s o ->
      D (adj A) (D A x) o = x o.
    Proof.
      intros Hwf Hrec Hb. destruct (wf_wavelet _ _ _ _ _ Hwf) as (_ & _ & _ & Hpos).
      pose proof HA as HA'. pose proof HAH as HAH'. unfold agrees, A, AH in HA', HAH'.
      unfold A. cbn [adj]. rewrite D_wavelet, D_inverse_wavelet, HA', HAH'. cbn [orc_wavelet].
      destruct (iwt_fwt R s Hpos (cs ax w l) (WW ax w l) (WWr ax w l) x Hrec) as [_ E]. apply E. exact Hb.
    Qed.

    Theorem normal_wavelet_identity (x : farr) o :
      wf A = true -> oracle_reconstructs R s (WW ax w l) (WWr ax w l) -> inbox (ishape_of A) o ->
      D (normal A) x o = x o /\ D (normal A) x o = D (Identity s) x o.
    Proof.
      intros Hwf Hrec Hb. destruct (wf_wavelet _ _ _ _ _ Hwf) as (Ei & _). unfold A in Hb. rewrite Ei in Hb.
      rewrite normal_wavelet. split; [|change (D (Identity s) x o) with (x o)];
        apply wavelet_adjoint_after_forward; assumption.
    Qed.

    (* InverseWavelet.N = W W^H is idempotent and self-adjoint on the coefficient box: an orthogonal projection
       (it is the identity only on the range of W; the coefficient box is larger than the padded box) *)
    Theorem normal_inverse_wavelet_projection (y : farr) :
      wf AH = true ->
      oracle_reconstructs R s (WW ax w l) (WWr ax w l) ->
      (forall a b : farr, eqbox (zshape s) a b ->
          eqbox ws (WW ax w l (zshape s) a) (WW ax w l (zshape s) b)) ->      (* W reads its argument on the padded box only *)
      eqbox ws (D (normal AH) (D (normal AH) y)) (D (normal AH) y).
    Proof.
      intros Hwf Hrec Hext.
      destruct (wf_inverse_wavelet _ _ _ _ _ Hwf) as (_ & _ & Hpos & _).
      rewrite !normal_inverse_wavelet. change (adj AH) with A.
      set (u := D AH y).
      assert (Eu : eqbox s (D AH (D A u)) u).
      { intros o Hb.
        assert (Hwf' : wf A = true) by (unfold A; rewrite wf_wavelet_swap; exact Hwf).
        exact (wavelet_adjoint_after_forward u o Hwf' Hrec Hb). }
      (* D A reads its argument through the pad, i.e. on the box s only *)
      assert (Hloc : forall a b : farr, eqbox s a b -> eqbox ws (D A a) (D A b)).
      { intros a b Eab o Hb. pose proof HA as HA'. unfold agrees, A in HA'.
        unfold A. rewrite !D_wavelet, !HA'. cbn [orc_wavelet]. unfold fwt. cbn [snd].
        rewrite Hshape in Hb. unfold wavelet_shape in Hb. rewrite Hshape in Hext. unfold wavelet_shape in Hext.
        apply Hext; [|exact Hb].
        assert (L : length s = length (zshape s)) by (symmetry; apply zshape_length).
        assert (Hz : Forall (fun n => 0 < n) (zshape s)) by (apply zshape_pos; exact Hpos).
        unfold fwt_padded.
        eapply eqbox_trans; [apply resize_gather_form; assumption|].
        eapply eqbox_trans; [apply gather_eqbox; [exact L| exact Eab]|].
        apply eqbox_sym. apply resize_gather_form; assumption. }
      apply Hloc. exact Eu.
    Qed.
  End One.

  (* ================================================================ the node lemma for adj_correct *)
  Variable orth : Z -> bool.

  Definition proven_node_wavelet (L : linop) : bool := wavelet_leaf_ok orth cs L.

  (* [orc] is the modelled class on every leaf of the family *)
  Hypothesis Horc : forall L, is_wavelet_leaf L = true -> agrees L.
  (* PyWavelets: for every valid call, waverecn . array_to_coeffs is the adjoint of coeffs_to_array . wavedecn on the
     padded box (Prop_C10's hypothesis, for all arguments sigpy can pass) *)
  Definition pywt_adjoint_all : Prop :=
    forall s ax w l, Forall (fun n => 0 < n) s ->
      pywt_axes_ok (lenZ s) ax = true -> pywt_level_ok l = true -> orth w = true ->
      oracle_adjoint R s (cs ax w l) (WW ax w l) (WWr ax w l).
  Definition pywt_reconstructs_all : Prop :=
    forall s ax w l, Forall (fun n => 0 < n) s ->
      pywt_axes_ok (lenZ s) ax = true -> pywt_level_ok l = true -> orth w = true ->
      oracle_reconstructs R s (WW ax w l) (WWr ax w l).

  Theorem nodes_wavelet L : pywt_adjoint_all -> proven_node_wavelet L = true -> wf L = true -> apair L.
  Proof.
    intros Hadj Hp Hwf. unfold proven_node_wavelet in Hp.
    destruct L; try discriminate Hp; apply leaf_ok_split in Hp; destruct Hp as (Hax & Hl & Ho & Hs).
    - destruct (wf_wavelet _ _ _ _ _ Hwf) as (_ & _ & _ & Hpos).
      apply apair_wavelet; try assumption; try (apply Horc; reflexivity). apply Hadj; assumption.
    - destruct (wf_inverse_wavelet _ _ _ _ _ Hwf) as (_ & _ & Hpos & _).
      apply apair_inverse_wavelet; try assumption; try (apply Horc; reflexivity). apply Hadj; assumption.
  Qed.

  (* the predicate is closed under adj, so a tree's adjoint stays in the proven family *)
  Theorem proven_node_wavelet_adj L : proven_node_wavelet L = true -> proven_node_wavelet (adj L) = true.
  Proof. destruct L; try discriminate; intros H; exact H. Qed.

  (* C04 for the family: A.N x = A.H (A x) (definitional: default composition), and Wavelet.N = Identity on the box *)
  Theorem normal_nodes_wavelet L (x : farr) :
    is_wavelet_leaf L = true -> D (normal L) x = D (adj L) (D L x).
  Proof. destruct L; try discriminate; reflexivity. Qed.

  Theorem normal_wavelet_identity_all i ax w l ws (x : farr) o :
    pywt_reconstructs_all ->
    proven_node_wavelet (Wavelet i ax w l ws) = true -> wf (Wavelet i ax w l ws) = true ->
    inbox (ishape_of (Wavelet i ax w l ws)) o ->
    D (normal (Wavelet i ax w l ws)) x o = D (Identity i) x o.
  Proof.
    intros Hrec Hp Hwf Hb. unfold proven_node_wavelet in Hp. apply leaf_ok_split in Hp. destruct Hp as (Hax & Hl & Ho & Hs).
    destruct (wf_wavelet _ _ _ _ _ Hwf) as (_ & _ & _ & Hpos).
    apply normal_wavelet_identity; try assumption; try (apply Horc; reflexivity). apply Hrec; assumption.
  Qed.
End Leaf.

(* ================================================================ non-vacuity *)
(* a non-trivial parameter choice passes the validity predicate: 2-D odd shape, a negative and a positive axis in
   reversed order, explicit level, stored coefficient shape as computed by the environment *)
Example wavelet_leaf_ok_example :
  let cs := fun (ax : option (list Z)) (w : Z) (l : option Z) (zsh : list Z) => map (fun n => n + 2) zsh in
  let orth := fun w => (w =? 3) || (w =? 5) in
  wavelet_leaf_ok orth cs (Wavelet [5; 3; 4] (Some [-1; 0]) 3 (Some 2) [8; 6; 6]) = true /\
  wf (Wavelet [5; 3; 4] (Some [-1; 0]) 3 (Some 2) [8; 6; 6]) = true /\
  wavelet_leaf_ok orth cs (InverseWavelet [5; 3; 4] None 5 None [8; 6; 6]) = true /\
  wf (InverseWavelet [5; 3; 4] None 5 None [8; 6; 6]) = true /\
  (* rejected: repeated axis after normalisation, axis out of range, empty axes, negative level, non-orthogonal
     wavelet code, stored shape inconsistent with get_wavelet_shape, 0-d *)
  wavelet_leaf_ok orth cs (Wavelet [5; 3; 4] (Some [-1; 2]) 3 None [8; 6; 6]) = false /\
  wavelet_leaf_ok orth cs (Wavelet [5; 3; 4] (Some [3]) 3 None [8; 6; 6]) = false /\
  wavelet_leaf_ok orth cs (Wavelet [5; 3; 4] (Some []) 3 None [8; 6; 6]) = false /\
  wavelet_leaf_ok orth cs (Wavelet [5; 3; 4] None 3 (Some (-1)) [8; 6; 6]) = false /\
  wavelet_leaf_ok orth cs (Wavelet [5; 3; 4] None 4 None [8; 6; 6]) = false /\
  wavelet_leaf_ok orth cs (Wavelet [5; 3; 4] None 3 None [8; 6; 7]) = false /\
  wavelet_leaf_ok orth cs (Wavelet [] None 3 None []) = false.
Proof. vm_compute. repeat split; reflexivity. Qed.

(* the hypotheses of nodes_wavelet are satisfiable together: W = Wr = identity on the padded box, coefficient shape =
   padded shape, orc := the model itself *)
Example nodes_wavelet_hypotheses_satisfiable (R : StarRing) :
  let cs := fun (ax : option (list Z)) (w : Z) (l : option Z) (zsh : list Z) => zsh in
  let WW := fun (ax : option (list Z)) (w : Z) (l : option Z) (zsh : list Z) (z : list Z -> R) => z in
  let orc := orc_wavelet cs WW WW in
  (forall L, is_wavelet_leaf L = true -> agrees R orc cs WW WW L) /\
  pywt_adjoint_all R cs WW WW (fun _ => true) /\ pywt_reconstructs_all R WW WW (fun _ => true) /\
  proven_node_wavelet cs (fun _ => true) (Wavelet [5; 3] (Some [-1]) 7 (Some 1) [6; 4]) = true /\
  wf (Wavelet [5; 3] (Some [-1]) 7 (Some 1) [6; 4]) = true.
Proof.
  intros cs WW orc. split; [|split; [|split; [|split]]].
  - intros L _ x. reflexivity.
  - intros s ax w l _ _ _ _ a c. reflexivity.
  - intros s ax w l _ _ _ _ z idx _. reflexivity.
  - vm_compute. reflexivity.
  - vm_compute. reflexivity.
Qed.

(* the model runs: an odd 2-D input through Wavelet then InverseWavelet with the identity pair returns the input *)
Example orc_wavelet_round_trip_runs :
  let cs := fun (ax : option (list Z)) (w : Z) (l : option Z) (zsh : list Z) => zsh in
  let WW := fun (ax : option (list Z)) (w : Z) (l : option Z) (zsh : list Z) (z : list Z -> Z) => z in
  tabulate [3; 1]
    (orc_wavelet (R:=ZOps) cs WW WW (InverseWavelet [3; 1] None 1 None [4; 2])
       (orc_wavelet (R:=ZOps) cs WW WW (Wavelet [3; 1] None 1 None [4; 2]) (of_list 0 [3; 1] [7; 8; 9])))
  = [7; 8; 9].
Proof. vm_compute. reflexivity. Qed.
