(* LinopLeavesB2.v — ArrayToBlocks / BlocksToArray with TWO and THREE block axes (any batch shape) form adjoint pairs
   with their modelled adjoints; through the GENERATED 2-D / 3-D numba kernels (proofs/Block2D3D.v) and the
   batch-flattening wrappers of model/Block.v.  Companion of LinopLeavesB.v (one block axis).
   A2B x [bat; n; t] = x [bat; n*S + t]   (a gather),   B2A y [bat; i] = sum_{(n,t) : n*S+t = i} y [bat; n; t]
   (the scatter-add along the same index map); adjointness is gather_scatter_adjoint. *)
From Coq Require Import ZArith List Lia Bool Ring.
From SV Require Import lib.Scalar lib.BigSum lib.LoopIR lib.NdArray lib.Gather gen.Gen_block model.Rearrange model.Block model.Linop
  proofs.SumTools proofs.Block proofs.Block2D3D proofs.LinopTheory proofs.LinopLeaves proofs.LinopScale proofs.LinopLeavesB.
Import ListNotations.
Local Open Scope Z_scope.

Lemma lastn_3 {A} (l : list A) u v w : lastn 3 (l ++ [u; v; w]) = [u; v; w].
Proof. exact (lastn_app' l [u; v; w]). Qed.
Lemma lastn_4 {A} (l : list A) a b c d : lastn 4 (l ++ [a; b; c; d]) = [a; b; c; d].
Proof. exact (lastn_app' l [a; b; c; d]). Qed.
Lemma lastn_6 {A} (l : list A) a b c d e f : lastn 6 (l ++ [a; b; c; d; e; f]) = [a; b; c; d; e; f].
Proof. exact (lastn_app' l [a; b; c; d; e; f]). Qed.
Lemma droplast_2 {A} (l : list A) u v : droplast 2 (l ++ [u; v]) = l.
Proof. exact (droplast_app' l [u; v]). Qed.
Lemma droplast_3 {A} (l : list A) u v w : droplast 3 (l ++ [u; v; w]) = l.
Proof. exact (droplast_app' l [u; v; w]). Qed.

Lemma last2_of_len (l : list Z) : (2 <= length l)%nat -> exists p u v, l = p ++ [u; v].
Proof. apply last2_split. Qed.

Lemma last3_split (l : list Z) : (3 <= length l)%nat -> exists p u v w, l = p ++ [u; v; w].
Proof.
  intros H. rewrite <- (rev_involutive l). rewrite <- (rev_length l) in H.
  destruct (rev l) as [|w [|v [|u r]]]; simpl in H; try lia.
  exists (rev r), u, v, w. simpl. rewrite <- !app_assoc. reflexivity.
Qed.

Section GS.
  Variable R : StarRing.
  Add Ring RringC1 : (SRth R).
  Notation farr := (list Z -> R).
  Local Open Scope sr_scope.

  (* a gather along f and the scatter-add along the same f are adjoint *)
  Lemma gather_scatter_adjoint si so (f : list Z -> list Z) (u w : farr) :
    (forall o, inbox so o -> inbox si (f o)) ->
    inner so (fun o => u (f o)) w =
    inner si u (fun i => 0 + sumB so (fun o => if idx_eqb (f o) i then w o else 0)).
  Proof.
    intros Hf. unfold inner.
    rewrite (sumB_ext R si _ (fun i => sumB so (fun o => if idx_eqb i (f o) then u i * conj (w o) else 0))).
    2:{ intros i _. rewrite conj_add, conj_zero, (Radd_0_l (SRth R)), sumB_conj, <- sumB_scale.
        apply sumB_ext. intros o _.
        assert (E : idx_eqb (f o) i = idx_eqb i (f o)).
        { apply eq_true_iff_eq. rewrite !idx_eqb_spec. split; congruence. }
        rewrite E. destruct (idx_eqb i (f o)); [reflexivity| rewrite conj_zero; ring]. }
    rewrite sumB_exchange. apply sumB_ext. intros o Ho.
    rewrite (sumB_single R si (f o) (fun i => u i * conj (w o))); [reflexivity| apply Hf, Ho].
  Qed.
End GS.

Definition f2 (Sy Sx : Z) (o : list Z) : list Z :=
  match o with [ny; nx; by_; bx] => [ny * Sy + by_; nx * Sx + bx] | _ => [] end.

Definition f3 (Sz Sy Sx : Z) (o : list Z) : list Z :=
  match o with [nz; ny; nx; bz; by_; bx] => [nz * Sz + bz; ny * Sy + by_; nx * Sx + bx] | _ => [] end.

Section Blk2.
  Variable R : StarRing.
  Add Ring RringC2 : (SRth R).
  Notation farr := (list Z -> R).
  Variable arr : Z -> farr.
  Variable scal : Z -> R.
  Variable orc : linop -> farr -> farr.
  Notation D := (D R arr scal orc).
  Local Open Scope sr_scope.

  (* ------------------------------------------------------------ two block axes *)
  Lemma num_blks_2 bat Ly Lx By Bx Sy Sx :
    num_blks (bat ++ [Ly; Lx]) [By; Bx] [Sy; Sx] = [nblk Ly By Sy; nblk Lx Bx Sx].
  Proof. unfold num_blks. cbn [length]. rewrite lastn_2. reflexivity. Qed.

  Lemma shapes_a2b2 bat Ly Lx By Bx Sy Sx :
    shapes (ArrayToBlocks (bat ++ [Ly; Lx]) [By; Bx] [Sy; Sx]) =
    finish (bat ++ [nblk Ly By Sy; nblk Lx Bx Sx; By; Bx]) (bat ++ [Ly; Lx]).
  Proof. cbn [shapes length]. rewrite droplast_2, num_blks_2. reflexivity. Qed.

  Lemma shapes_b2a2 bat Ly Lx By Bx Sy Sx :
    shapes (BlocksToArray (bat ++ [Ly; Lx]) [By; Bx] [Sy; Sx]) =
    finish (bat ++ [Ly; Lx]) (bat ++ [nblk Ly By Sy; nblk Lx Bx Sx; By; Bx]).
  Proof. cbn [shapes length]. rewrite droplast_2, num_blks_2. reflexivity. Qed.

  Lemma D_a2b2 bat Ly Lx By Bx Sy Sx (x : farr) bv o :
    (0 < Sy)%Z -> (0 < Sx)%Z -> inbox bat bv -> inbox [nblk Ly By Sy; nblk Lx Bx Sx; By; Bx] o ->
    D (ArrayToBlocks (bat ++ [Ly; Lx]) [By; Bx] [Sy; Sx]) x (bv ++ o) = x (bv ++ f2 Sy Sx o).
  Proof.
    intros HSy HSx Hbv Ho.
    destruct o as [|ny [|nx [|by_ [|bx [|? ?]]]]]; simpl in Ho; try tauto.
    destruct Ho as (Hny & Hnx & Hby & Hbx & _).
    unfold LinopTheory.D. cbn [den]. unfold array_to_blocks. cbn [length Nat.eqb negb].
    rewrite droplast_2, lastn_2, num_blks_2.
    unfold unflatten_batch. pose proof (inbox_length _ _ Hbv) as Lb. rewrite <- Lb, firstn_pre, skipn_pre.
    pose proof (ravel_bound bat bv Hbv) as Hr.
    cbn [revn rev app nth]. unfold nblk in *.
    rewrite (a2b2_exec_num_blks R _ _ _ _ Bx By Sx Sy Ly Lx); try assumption; try reflexivity.
    unfold flatten_batch. rewrite unravel_ravel by exact Hbv. reflexivity.
  Qed.

  Lemma D_b2a2 bat Ly Lx By Bx Sy Sx (y : farr) bv i :
    wf (BlocksToArray (bat ++ [Ly; Lx]) [By; Bx] [Sy; Sx]) = true ->
    (0 < Sy)%Z -> (0 < Sx)%Z -> inbox bat bv -> inbox [Ly; Lx] i ->
    D (BlocksToArray (bat ++ [Ly; Lx]) [By; Bx] [Sy; Sx]) y (bv ++ i) =
    0 + sumB [nblk Ly By Sy; nblk Lx Bx Sx; By; Bx] (fun o => if idx_eqb (f2 Sy Sx o) i then y (bv ++ o) else 0).
  Proof.
    intros Hwf HSy HSx Hbv Hi.
    destruct i as [|iy [|ix [|? ?]]]; simpl in Hi; try tauto. destruct Hi as (Hiy & Hix & _).
    unfold LinopTheory.D. cbn [den].
    assert (Ei : ishape_of (BlocksToArray (bat ++ [Ly; Lx]) [By; Bx] [Sy; Sx]) = bat ++ [nblk Ly By Sy; nblk Lx Bx Sx; By; Bx]).
    { unfold wf in Hwf. unfold ishape_of. rewrite shapes_b2a2 in *.
      destruct (finish (bat ++ [Ly; Lx]) (bat ++ [nblk Ly By Sy; nblk Lx Bx Sx; By; Bx])) as [r|] eqn:F; [|discriminate].
      apply finish_ok in F. subst r. reflexivity. }
    rewrite Ei. unfold blocks_to_array. cbn [length Nat.eqb negb]. change (2 * 2)%nat with 4%nat.
    rewrite droplast_2, lastn_2, lastn_4. cbn [firstn].
    unfold unflatten_batch. pose proof (inbox_length _ _ Hbv) as Lb. rewrite <- Lb, firstn_pre, skipn_pre.
    pose proof (ravel_bound bat bv Hbv) as Hr.
    cbn [revn rev app nth].
    rewrite (b2a2_exec R _ _ _ _ _ _ _ _ _ _ Ly Lx); try assumption; try reflexivity.
    f_equal. cbn [sumB]. apply sumZ_ext. intros ny _. apply sumZ_ext. intros nx _.
    apply sumZ_ext. intros by_ _. apply sumZ_ext. intros bx _.
    cbn [f2]. rewrite idx2_eqb.
    unfold flatten_batch. rewrite unravel_ravel by exact Hbv. reflexivity.
  Qed.

  Lemma f2_inbox Ly Lx By Bx Sy Sx o : (0 < Sy)%Z -> (0 < Sx)%Z ->
    inbox [nblk Ly By Sy; nblk Lx Bx Sx; By; Bx] o -> inbox [Ly; Lx] (f2 Sy Sx o).
  Proof.
    intros HSy HSx Ho. destruct o as [|ny [|nx [|by_ [|bx [|? ?]]]]]; simpl in Ho; try tauto.
    destruct Ho as (Hny & Hnx & Hby & Hbx & _). unfold nblk in *.
    pose proof (a2b_in_bounds Ly By Sy ny by_ HSy Hny Hby). pose proof (a2b_in_bounds Lx Bx Sx nx bx HSx Hnx Hbx).
    simpl. repeat split; try assumption; nia.
  Qed.

  Lemma blocks2_pair bat Ly Lx By Bx Sy Sx (x y : farr) :
    (0 < Sy)%Z -> (0 < Sx)%Z -> wf (ArrayToBlocks (bat ++ [Ly; Lx]) [By; Bx] [Sy; Sx]) = true ->
    inner (bat ++ [nblk Ly By Sy; nblk Lx Bx Sx; By; Bx]) (D (ArrayToBlocks (bat ++ [Ly; Lx]) [By; Bx] [Sy; Sx]) x) y =
    inner (bat ++ [Ly; Lx]) x (D (BlocksToArray (bat ++ [Ly; Lx]) [By; Bx] [Sy; Sx]) y).
  Proof.
    intros HSy HSx Hwf.
    assert (Hwf' : wf (BlocksToArray (bat ++ [Ly; Lx]) [By; Bx] [Sy; Sx]) = true) by (rewrite wf_a2b_b2a; exact Hwf).
    unfold inner. rewrite !(sumB_app' R). apply sumB_ext. intros bv Hbv.
    pose proof (gather_scatter_adjoint R [Ly; Lx] [nblk Ly By Sy; nblk Lx Bx Sx; By; Bx] (f2 Sy Sx)
                  (fun i => x (bv ++ i)) (fun o => y (bv ++ o))
                  (fun o Ho => f2_inbox Ly Lx By Bx Sy Sx o HSy HSx Ho)) as HG.
    unfold inner in HG.
    transitivity (sumB [nblk Ly By Sy; nblk Lx Bx Sx; By; Bx] (fun o => x (bv ++ f2 Sy Sx o) * conj (y (bv ++ o)))).
    { apply sumB_ext. intros o Ho. rewrite D_a2b2 by assumption. reflexivity. }
    rewrite HG. apply sumB_ext. intros i Hi. rewrite D_b2a2 by assumption. reflexivity.
  Qed.

  Lemma finish_of_wf_a2b2 bat Ly Lx By Bx Sy Sx : wf (ArrayToBlocks (bat ++ [Ly; Lx]) [By; Bx] [Sy; Sx]) = true ->
    let o := bat ++ [nblk Ly By Sy; nblk Lx Bx Sx; By; Bx] in let i := bat ++ [Ly; Lx] in
    finish o i = Ok (o, i) /\ finish i o = Ok (i, o).
  Proof.
    intros Hwf o i. unfold wf in Hwf. rewrite shapes_a2b2 in Hwf. fold o i in Hwf. unfold finish in *.
    rewrite (andb_comm (all_pos i)). destruct (all_pos o && all_pos i); [split; reflexivity| discriminate].
  Qed.

  Theorem apair_array_to_blocks_2d i By Bx Sy Sx : (2 <= length i)%nat -> (0 < Sy)%Z -> (0 < Sx)%Z ->
    wf (ArrayToBlocks i [By; Bx] [Sy; Sx]) = true -> apair R arr scal orc (ArrayToBlocks i [By; Bx] [Sy; Sx]).
  Proof.
    intros Hl HSy HSx Hwf. destruct (last2_split i Hl) as (bat & Ly & Lx & ->).
    destruct (finish_of_wf_a2b2 _ _ _ _ _ _ _ Hwf) as [F1 F2].
    unfold apair, LinopTheory.apair. unfold oshape_of, ishape_of. rewrite shapes_a2b2, F1. cbn [adj].
    intros x y. apply blocks2_pair; assumption.
  Qed.

  Theorem apair_blocks_to_array_2d o By Bx Sy Sx : (2 <= length o)%nat -> (0 < Sy)%Z -> (0 < Sx)%Z ->
    wf (BlocksToArray o [By; Bx] [Sy; Sx]) = true -> apair R arr scal orc (BlocksToArray o [By; Bx] [Sy; Sx]).
  Proof.
    intros Hl HSy HSx Hwf. destruct (last2_split o Hl) as (bat & Ly & Lx & ->).
    rewrite wf_a2b_b2a in Hwf.
    destruct (finish_of_wf_a2b2 _ _ _ _ _ _ _ Hwf) as [F1 F2].
    unfold apair, LinopTheory.apair. unfold oshape_of, ishape_of. rewrite shapes_b2a2, F2. cbn [adj].
    apply adjoint_pair_sym. intros x y. apply blocks2_pair; assumption.
  Qed.

  (* ------------------------------------------------------------ three block axes *)
  Lemma num_blks_3 bat Lz Ly Lx Bz By Bx Sz Sy Sx :
    num_blks (bat ++ [Lz; Ly; Lx]) [Bz; By; Bx] [Sz; Sy; Sx] = [nblk Lz Bz Sz; nblk Ly By Sy; nblk Lx Bx Sx].
  Proof. unfold num_blks. cbn [length]. rewrite lastn_3. reflexivity. Qed.

  Lemma shapes_a2b3 bat Lz Ly Lx Bz By Bx Sz Sy Sx :
    shapes (ArrayToBlocks (bat ++ [Lz; Ly; Lx]) [Bz; By; Bx] [Sz; Sy; Sx]) =
    finish (bat ++ [nblk Lz Bz Sz; nblk Ly By Sy; nblk Lx Bx Sx; Bz; By; Bx]) (bat ++ [Lz; Ly; Lx]).
  Proof. cbn [shapes length]. rewrite droplast_3, num_blks_3. reflexivity. Qed.

  Lemma shapes_b2a3 bat Lz Ly Lx Bz By Bx Sz Sy Sx :
    shapes (BlocksToArray (bat ++ [Lz; Ly; Lx]) [Bz; By; Bx] [Sz; Sy; Sx]) =
    finish (bat ++ [Lz; Ly; Lx]) (bat ++ [nblk Lz Bz Sz; nblk Ly By Sy; nblk Lx Bx Sx; Bz; By; Bx]).
  Proof. cbn [shapes length]. rewrite droplast_3, num_blks_3. reflexivity. Qed.

  Lemma D_a2b3 bat Lz Ly Lx Bz By Bx Sz Sy Sx (x : farr) bv o :
    (0 < Sz)%Z -> (0 < Sy)%Z -> (0 < Sx)%Z -> inbox bat bv ->
    inbox [nblk Lz Bz Sz; nblk Ly By Sy; nblk Lx Bx Sx; Bz; By; Bx] o ->
    D (ArrayToBlocks (bat ++ [Lz; Ly; Lx]) [Bz; By; Bx] [Sz; Sy; Sx]) x (bv ++ o) = x (bv ++ f3 Sz Sy Sx o).
  Proof.
    intros HSz HSy HSx Hbv Ho.
    destruct o as [|nz [|ny [|nx [|bz [|by_ [|bx [|? ?]]]]]]]; simpl in Ho; try tauto.
    destruct Ho as (Hnz & Hny & Hnx & Hbz & Hby & Hbx & _).
    unfold LinopTheory.D. cbn [den]. unfold array_to_blocks. cbn [length Nat.eqb negb].
    rewrite droplast_3, lastn_3, num_blks_3.
    unfold unflatten_batch. pose proof (inbox_length _ _ Hbv) as Lb. rewrite <- Lb, firstn_pre, skipn_pre.
    pose proof (ravel_bound bat bv Hbv) as Hr.
    cbn [revn rev app nth]. unfold nblk in *.
    rewrite (a2b3_exec_num_blks R _ _ _ _ Bx By Bz Sx Sy Sz Lz Ly Lx); try assumption; try reflexivity.
    unfold flatten_batch. rewrite unravel_ravel by exact Hbv. reflexivity.
  Qed.

  Lemma D_b2a3 bat Lz Ly Lx Bz By Bx Sz Sy Sx (y : farr) bv i :
    wf (BlocksToArray (bat ++ [Lz; Ly; Lx]) [Bz; By; Bx] [Sz; Sy; Sx]) = true ->
    (0 < Sz)%Z -> (0 < Sy)%Z -> (0 < Sx)%Z -> inbox bat bv -> inbox [Lz; Ly; Lx] i ->
    D (BlocksToArray (bat ++ [Lz; Ly; Lx]) [Bz; By; Bx] [Sz; Sy; Sx]) y (bv ++ i) =
    0 + sumB [nblk Lz Bz Sz; nblk Ly By Sy; nblk Lx Bx Sx; Bz; By; Bx]
             (fun o => if idx_eqb (f3 Sz Sy Sx o) i then y (bv ++ o) else 0).
  Proof.
    intros Hwf HSz HSy HSx Hbv Hi.
    destruct i as [|iz [|iy [|ix [|? ?]]]]; simpl in Hi; try tauto. destruct Hi as (Hiz & Hiy & Hix & _).
    unfold LinopTheory.D. cbn [den].
    assert (Ei : ishape_of (BlocksToArray (bat ++ [Lz; Ly; Lx]) [Bz; By; Bx] [Sz; Sy; Sx])
                 = bat ++ [nblk Lz Bz Sz; nblk Ly By Sy; nblk Lx Bx Sx; Bz; By; Bx]).
    { unfold wf in Hwf. unfold ishape_of. rewrite shapes_b2a3 in *.
      destruct (finish (bat ++ [Lz; Ly; Lx]) (bat ++ [nblk Lz Bz Sz; nblk Ly By Sy; nblk Lx Bx Sx; Bz; By; Bx])) as [r|] eqn:F;
        [|discriminate].
      apply finish_ok in F. subst r. reflexivity. }
    rewrite Ei. unfold blocks_to_array. cbn [length Nat.eqb negb]. change (2 * 3)%nat with 6%nat.
    rewrite droplast_3, lastn_3, lastn_6. cbn [firstn].
    unfold unflatten_batch. pose proof (inbox_length _ _ Hbv) as Lb. rewrite <- Lb, firstn_pre, skipn_pre.
    pose proof (ravel_bound bat bv Hbv) as Hr.
    cbn [revn rev app nth].
    rewrite (b2a3_exec R _ _ _ _ _ _ _ _ _ _ _ _ _ Lz Ly Lx); try assumption; try reflexivity.
    f_equal. cbn [sumB]. apply sumZ_ext. intros nz _. apply sumZ_ext. intros ny _. apply sumZ_ext. intros nx _.
    apply sumZ_ext. intros bz _. apply sumZ_ext. intros by_ _. apply sumZ_ext. intros bx _.
    cbn [f3]. rewrite idx3_eqb, andb_assoc.
    unfold flatten_batch. rewrite unravel_ravel by exact Hbv. reflexivity.
  Qed.

  Lemma f3_inbox Lz Ly Lx Bz By Bx Sz Sy Sx o : (0 < Sz)%Z -> (0 < Sy)%Z -> (0 < Sx)%Z ->
    inbox [nblk Lz Bz Sz; nblk Ly By Sy; nblk Lx Bx Sx; Bz; By; Bx] o -> inbox [Lz; Ly; Lx] (f3 Sz Sy Sx o).
  Proof.
    intros HSz HSy HSx Ho. destruct o as [|nz [|ny [|nx [|bz [|by_ [|bx [|? ?]]]]]]]; simpl in Ho; try tauto.
    destruct Ho as (Hnz & Hny & Hnx & Hbz & Hby & Hbx & _). unfold nblk in *.
    pose proof (a2b_in_bounds Lz Bz Sz nz bz HSz Hnz Hbz).
    pose proof (a2b_in_bounds Ly By Sy ny by_ HSy Hny Hby). pose proof (a2b_in_bounds Lx Bx Sx nx bx HSx Hnx Hbx).
    simpl. repeat split; try assumption; nia.
  Qed.

  Lemma blocks3_pair bat Lz Ly Lx Bz By Bx Sz Sy Sx (x y : farr) :
    (0 < Sz)%Z -> (0 < Sy)%Z -> (0 < Sx)%Z ->
    wf (ArrayToBlocks (bat ++ [Lz; Ly; Lx]) [Bz; By; Bx] [Sz; Sy; Sx]) = true ->
    inner (bat ++ [nblk Lz Bz Sz; nblk Ly By Sy; nblk Lx Bx Sx; Bz; By; Bx])
          (D (ArrayToBlocks (bat ++ [Lz; Ly; Lx]) [Bz; By; Bx] [Sz; Sy; Sx]) x) y =
    inner (bat ++ [Lz; Ly; Lx]) x (D (BlocksToArray (bat ++ [Lz; Ly; Lx]) [Bz; By; Bx] [Sz; Sy; Sx]) y).
  Proof.
    intros HSz HSy HSx Hwf.
    assert (Hwf' : wf (BlocksToArray (bat ++ [Lz; Ly; Lx]) [Bz; By; Bx] [Sz; Sy; Sx]) = true) by (rewrite wf_a2b_b2a; exact Hwf).
    unfold inner. rewrite !(sumB_app' R). apply sumB_ext. intros bv Hbv.
    pose proof (gather_scatter_adjoint R [Lz; Ly; Lx] [nblk Lz Bz Sz; nblk Ly By Sy; nblk Lx Bx Sx; Bz; By; Bx] (f3 Sz Sy Sx)
                  (fun i => x (bv ++ i)) (fun o => y (bv ++ o))
                  (fun o Ho => f3_inbox Lz Ly Lx Bz By Bx Sz Sy Sx o HSz HSy HSx Ho)) as HG.
    unfold inner in HG.
    transitivity (sumB [nblk Lz Bz Sz; nblk Ly By Sy; nblk Lx Bx Sx; Bz; By; Bx]
                       (fun o => x (bv ++ f3 Sz Sy Sx o) * conj (y (bv ++ o)))).
    { apply sumB_ext. intros o Ho. rewrite D_a2b3 by assumption. reflexivity. }
    rewrite HG. apply sumB_ext. intros i Hi. rewrite D_b2a3 by assumption. reflexivity.
  Qed.

  Lemma finish_of_wf_a2b3 bat Lz Ly Lx Bz By Bx Sz Sy Sx :
    wf (ArrayToBlocks (bat ++ [Lz; Ly; Lx]) [Bz; By; Bx] [Sz; Sy; Sx]) = true ->
    let o := bat ++ [nblk Lz Bz Sz; nblk Ly By Sy; nblk Lx Bx Sx; Bz; By; Bx] in let i := bat ++ [Lz; Ly; Lx] in
    finish o i = Ok (o, i) /\ finish i o = Ok (i, o).
  Proof.
    intros Hwf o i. unfold wf in Hwf. rewrite shapes_a2b3 in Hwf. fold o i in Hwf. unfold finish in *.
    rewrite (andb_comm (all_pos i)). destruct (all_pos o && all_pos i); [split; reflexivity| discriminate].
  Qed.

  Theorem apair_array_to_blocks_3d i Bz By Bx Sz Sy Sx : (3 <= length i)%nat -> (0 < Sz)%Z -> (0 < Sy)%Z -> (0 < Sx)%Z ->
    wf (ArrayToBlocks i [Bz; By; Bx] [Sz; Sy; Sx]) = true -> apair R arr scal orc (ArrayToBlocks i [Bz; By; Bx] [Sz; Sy; Sx]).
  Proof.
    intros Hl HSz HSy HSx Hwf. destruct (last3_split i Hl) as (bat & Lz & Ly & Lx & ->).
    destruct (finish_of_wf_a2b3 _ _ _ _ _ _ _ _ _ _ Hwf) as [F1 F2].
    unfold apair, LinopTheory.apair. unfold oshape_of, ishape_of. rewrite shapes_a2b3, F1. cbn [adj].
    intros x y. apply blocks3_pair; assumption.
  Qed.

  Theorem apair_blocks_to_array_3d o Bz By Bx Sz Sy Sx : (3 <= length o)%nat -> (0 < Sz)%Z -> (0 < Sy)%Z -> (0 < Sx)%Z ->
    wf (BlocksToArray o [Bz; By; Bx] [Sz; Sy; Sx]) = true -> apair R arr scal orc (BlocksToArray o [Bz; By; Bx] [Sz; Sy; Sx]).
  Proof.
    intros Hl HSz HSy HSx Hwf. destruct (last3_split o Hl) as (bat & Lz & Ly & Lx & ->).
    rewrite wf_a2b_b2a in Hwf.
    destruct (finish_of_wf_a2b3 _ _ _ _ _ _ _ _ _ _ Hwf) as [F1 F2].
    unfold apair, LinopTheory.apair. unfold oshape_of, ishape_of. rewrite shapes_b2a3, F2. cbn [adj].
    apply adjoint_pair_sym. intros x y. apply blocks3_pair; assumption.
  Qed.
End Blk2.

(* ---------------------------------------------------------------- boolean side condition, unconditional corollary *)
Definition blocks_ok (shape b s : list Z) : bool :=
  match b, s with
  | [_], [S1] => (1 <=? length shape)%nat && (0 <? S1)
  | [_; _], [S1; S2] => (2 <=? length shape)%nat && (0 <? S1) && (0 <? S2)
  | [_; _; _], [S1; S2; S3] => (3 <=? length shape)%nat && (0 <? S1) && (0 <? S2) && (0 <? S3)
  | _, _ => false
  end.

Definition proven_nodeB2 (L : linop) : bool :=
  match L with
  | Multiply _ _ _ | MatMul _ _ _ | RightMatMul _ _ _ => true
  | ArrayToBlocks i b s | BlocksToArray i b s => blocks_ok i b s
  | _ => false
  end.

Section CorB2.
  Variable R : StarRing.
  Notation farr := (list Z -> R).
  Variable arr : Z -> farr.
  Variable scal : Z -> R.
  Variable orc : linop -> farr -> farr.

  Lemma blocks_ok_apair i b s : blocks_ok i b s = true ->
    (wf (ArrayToBlocks i b s) = true -> apair R arr scal orc (ArrayToBlocks i b s)) /\
    (wf (BlocksToArray i b s) = true -> apair R arr scal orc (BlocksToArray i b s)).
  Proof.
    unfold blocks_ok. intros H.
    destruct b as [|B1 [|B2 [|B3 [|? ?]]]]; try discriminate;
      destruct s as [|S1 [|S2 [|S3 [|? ?]]]]; try discriminate;
      repeat (apply andb_true_iff in H; let H' := fresh "H" in destruct H as [H H']);
      repeat match goal with Hx : (_ <? _) = true |- _ => apply Z.ltb_lt in Hx end;
      apply Nat.leb_le in H.
    - assert (Hne : i <> []) by (destruct i; [simpl in H; lia| discriminate]).
      split; intros Hwf; [apply apair_array_to_blocks_1d| apply apair_blocks_to_array_1d]; assumption.
    - split; intros Hwf; [apply apair_array_to_blocks_2d| apply apair_blocks_to_array_2d]; assumption.
    - split; intros Hwf; [apply apair_array_to_blocks_3d| apply apair_blocks_to_array_3d]; assumption.
  Qed.

  Lemma proven_nodeB2_apair L : proven_nodeB2 L = true -> wf L = true -> apair R arr scal orc L.
  Proof.
    destruct L; simpl; try discriminate; intros Hp Hwf.
    - apply apair_matmul; exact Hwf.
    - apply apair_right_matmul; exact Hwf.
    - apply apair_multiply; exact Hwf.
    - apply (blocks_ok_apair _ _ _ Hp); exact Hwf.
    - apply (blocks_ok_apair _ _ _ Hp); exact Hwf.
  Qed.

  (* NO node hypothesis: leaves Identity / Flip / Downsample / Upsample (LinopScale.proven_node), Multiply (array or
     scalar), MatMul, RightMatMul, ArrayToBlocks / BlocksToArray with 1, 2 or 3 block axes and positive strides *)
  Theorem adj_correct_provenB2 A :
    wf A = true -> nodes_ok (fun L => (proven_node L || proven_nodeB2 L) = true /\ wf L = true) A ->
    apair R arr scal orc A.
  Proof.
    intros Hwf Hn. apply adj_correct; [exact Hwf|].
    eapply nodes_ok_impl; [|exact Hn]. intros L [Hp Hw]. apply orb_true_iff in Hp. destruct Hp as [Hp|Hp].
    - apply proven_node_apair; assumption.
    - apply proven_nodeB2_apair; assumption.
  Qed.
End CorB2.

Example blocks2d_wf :
  wf (ArrayToBlocks [3; 10; 7] [4; 3] [2; 2]) = true /\ oshape_of (ArrayToBlocks [3; 10; 7] [4; 3] [2; 2]) = [3; 4; 3; 4; 3] /\
  proven_nodeB2 (ArrayToBlocks [3; 10; 7] [4; 3] [2; 2]) = true.
Proof. repeat split; reflexivity. Qed.
Example blocks3d_wf :
  wf (BlocksToArray [6; 5; 7] [2; 3; 3] [2; 1; 4]) = true /\ ishape_of (BlocksToArray [6; 5; 7] [2; 3; 3] [2; 1; 4]) = [3; 3; 2; 2; 3; 3] /\
  proven_nodeB2 (BlocksToArray [6; 5; 7] [2; 3; 3] [2; 1; 4]) = true.
Proof. repeat split; reflexivity. Qed.
