(* proofs/ProxGrad.v — real inner-product spaces, the R instance of the scalar operations, and the
   theory of the GradientMethod model (ISTA descent, O(1/k); FISTA O(1/k^2) with the coded t-sequence).
   All statements are about the terms [gm_step]/[gm_iter] of model/ProxGrad.v instantiated on R. *)
From Coq Require Import Reals Lra Lia Psatz List Bool.
From SV Require Import model.ProxGrad.
Local Open Scope R_scope.

(* ---- abstract real inner-product space -------------------------------------- *)
Record IPS := mkIPS {
  vec :> Type;
  v0 : vec;
  vplus : vec -> vec -> vec;
  vmul : R -> vec -> vec;
  ip : vec -> vec -> R;
  vplus_comm : forall x y, vplus x y = vplus y x;
  vplus_assoc : forall x y z, vplus x (vplus y z) = vplus (vplus x y) z;
  vplus_0_l : forall x, vplus v0 x = x;
  vplus_opp : forall x, vplus x (vmul (-1) x) = v0;
  vmul_1 : forall x, vmul 1 x = x;
  vmul_mul : forall a b x, vmul a (vmul b x) = vmul (a * b) x;
  vmul_plus_r : forall a x y, vmul a (vplus x y) = vplus (vmul a x) (vmul a y);
  vmul_plus_l : forall a b x, vmul (a + b) x = vplus (vmul a x) (vmul b x);
  ip_sym : forall x y, ip x y = ip y x;
  ip_plus_l : forall x y z, ip (vplus x y) z = ip x z + ip y z;
  ip_mul_l : forall a x y, ip (vmul a x) y = a * ip x y;
  ip_pos : forall x, 0 <= ip x x;
  ip_def : forall x, ip x x = 0 -> x = v0 }.

Arguments v0 {_}. Arguments vplus {_}. Arguments vmul {_}. Arguments ip {_}.

Definition vminus {E : IPS} (x y : E) : E := vplus x (vmul (-1) y).
Definition vnorm {E : IPS} (x : E) : R := sqrt (ip x x).
Definition nrm2 {E : IPS} (x : E) : R := ip x x.

Section IPSFacts.
  Variable E : IPS.
  Implicit Types x y z : E.

  Lemma ip_plus_r x y z : ip x (vplus y z) = ip x y + ip x z.
  Proof. rewrite ip_sym, ip_plus_l, (ip_sym _ y), (ip_sym _ z). reflexivity. Qed.
  Lemma ip_mul_r a x y : ip x (vmul a y) = a * ip x y.
  Proof. rewrite ip_sym, ip_mul_l, (ip_sym _ y). reflexivity. Qed.
  Lemma ip_0_l x : ip (@v0 E) x = 0.
  Proof.
    assert (H : ip (@v0 E) x = ip (@v0 E) x + ip (@v0 E) x) by (rewrite <- ip_plus_l, vplus_0_l; reflexivity).
    lra.
  Qed.
  Lemma ip_0_r x : ip x (@v0 E) = 0.
  Proof. rewrite ip_sym. apply ip_0_l. Qed.

  Lemma vplus_0_r x : vplus x v0 = x.
  Proof. rewrite vplus_comm. apply vplus_0_l. Qed.

  Lemma vminus_eq_0 x y : vminus x y = v0 -> x = y.
  Proof.
    unfold vminus. intro H.
    assert (H1 : vplus (vplus x (vmul (-1) y)) y = vplus v0 y) by (rewrite H; reflexivity).
    rewrite vplus_0_l, <- vplus_assoc, (vplus_comm _ (vmul (-1) y) y), vplus_opp, vplus_0_r in H1. exact H1.
  Qed.
End IPSFacts.

#[export] Hint Rewrite ip_plus_l ip_plus_r ip_mul_l ip_mul_r ip_0_l ip_0_r : ipdb.

(* expand every inner product by bilinearity and orient symmetric pairs consistently *)
Ltac ip_norm :=
  unfold nrm2, vminus; autorewrite with ipdb;
  repeat match goal with
         | |- context [@ip ?E ?a ?b] =>
             match goal with
             | |- context [@ip E b a] => tryif constr_eq a b then fail else rewrite (ip_sym E b a)
             end
         end.

(* replace the inner-product atoms by fresh real variables (keeping 0 <= <a,a>) *)
Ltac ip_abstract :=
  repeat match goal with
         | |- context [@ip ?E ?a ?a] =>
             let H := fresh "Hpos" in pose proof (ip_pos E a) as H; revert H; generalize (@ip E a a); intros ? ?
         end;
  repeat match goal with
         | |- context [@ip ?E ?a ?b] => generalize (@ip E a b); intro
         end.

Section IPSFacts2.
  Variable E : IPS.
  Implicit Types x y z : E.

  (* two vectors with the same inner products against everything are equal *)
  Lemma ip_ext x y : (forall z, ip x z = ip y z) -> x = y.
  Proof.
    intro H. apply vminus_eq_0. apply ip_def.
    pose proof (H (vminus x y)) as H1. revert H1. ip_norm. intros. lra.
  Qed.

  Lemma nrm2_nonneg x : 0 <= nrm2 x.
  Proof. apply ip_pos. Qed.
End IPSFacts2.

Ltac vec_eq := apply ip_ext; intro; ip_norm; try ring; try (field; auto).

(* ---- scalars: the real instance of the model's operation record ----------------- *)
Definition ROps : SOps :=
  mkSOps R 0 1 2 4 Rplus Rminus Rmult Rdiv Ropp sqrt
         (fun a b => if Rlt_dec a b then b else a)
         (fun a => if Rlt_dec 0 a then true else false)
         (fun a => if Req_EM_T a 0 then true else false).

(* ---- proximal gradient theory -------------------------------------------------- *)
Section ProxGradTheory.
  Variable E : IPS.
  Variables (f g : E -> R) (gradf : E -> E) (prox : R -> E -> E) (Lf : R).
  (* f convex and differentiable with the descent-lemma inequality (L-smooth) *)
  Hypothesis f_convex : forall x y, f x + ip (gradf x) (vminus y x) <= f y.
  Hypothesis f_descent : forall x y, f y <= f x + ip (gradf x) (vminus y x) + Lf / 2 * nrm2 (vminus y x).
  (* prox characterised by its variational inequality: p = prox_{a g}(v) <-> forall z, g z >= g p + <(v-p)/a, z-p> *)
  Hypothesis prox_vi : forall a v p, 0 < a ->
    (prox a v = p <-> forall z, g p + ip (vmul (/ a) (vminus v p)) (vminus z p) <= g z).

  Definition F (x : E) : R := f x + g x.
  (* forward-backward point, as computed by the code: prox(alpha, y + (-alpha) * gradf(y)) *)
  Definition pg (alpha : R) (y : E) : E := prox alpha (vplus y (vmul (- alpha) (gradf y))).

  (* the variational inequality multiplied by the step *)
  Lemma prox_vi_mul a v z : 0 < a ->
    ip (vminus v (prox a v)) (vminus z (prox a v)) <= a * (g z - g (prox a v)).
  Proof.
    intro Ha. pose proof (proj1 (prox_vi a v _ Ha) eq_refl z) as Hp.
    rewrite ip_mul_l in Hp.
    set (I := ip (vminus v (prox a v)) (vminus z (prox a v))) in *. clearbody I.
    assert (H : a * (/ a * I) = I) by (field; lra).
    assert (H2 : a * (g (prox a v) + / a * I) <= a * g z) by (apply Rmult_le_compat_l; lra).
    lra.
  Qed.

  (* the basic inequality of the forward-backward step (Beck-Teboulle Lemma 2.3), multiplied by alpha *)
  Lemma pg_ineq alpha y z : 0 < alpha ->
    alpha * (F (pg alpha y) - F z) <=
      ip (vminus y (pg alpha y)) (vminus (pg alpha y) z) + alpha * (Lf / 2) * nrm2 (vminus (pg alpha y) y).
  Proof.
    intro Ha. unfold F.
    pose proof (prox_vi_mul alpha (vplus y (vmul (- alpha) (gradf y))) z Ha) as Hp. fold (pg alpha y) in Hp.
    pose proof (f_descent y (pg alpha y)) as Hd.
    pose proof (f_convex y z) as Hc.
    set (p := pg alpha y) in *. clearbody p.
    revert Hp Hd Hc. ip_norm. ip_abstract. intros.
    nra.
  Qed.

  (* with alpha * L <= 1 the step is a contraction-type inequality towards every z *)
  Lemma pg_ineq_dist alpha y z : 0 < alpha -> alpha * Lf <= 1 ->
    2 * alpha * (F (pg alpha y) - F z) <= nrm2 (vminus y z) - nrm2 (vminus (pg alpha y) z).
  Proof.
    intros Ha HL. pose proof (pg_ineq alpha y z Ha) as H.
    set (p := pg alpha y) in *. clearbody p.
    assert (Hq : 0 <= nrm2 (vminus p y)) by apply nrm2_nonneg.
    revert H Hq. ip_norm. ip_abstract. intros.
    nra.
  Qed.

  (* ---- the model, non-accelerated -------------------------------------------- *)
  Notation gstep acc alpha := (gm_step ROps E vplus vminus vmul vnorm gradf acc alpha (Some prox)).
  Notation giter acc alpha := (gm_iter ROps E vplus vminus vmul vnorm gradf acc alpha (Some prox)).

  Lemma ista_step_x alpha st : gm_x (gstep false alpha st) = pg alpha (gm_x st).
  Proof. reflexivity. Qed.

  Lemma ista_descent_lemma alpha st : 0 < alpha ->
    F (gm_x (gstep false alpha st)) <=
      F (gm_x st) - (1 / alpha - Lf / 2) * nrm2 (vminus (gm_x (gstep false alpha st)) (gm_x st)).
  Proof.
    intro Ha. rewrite ista_step_x.
    pose proof (pg_ineq alpha (gm_x st) (gm_x st) Ha) as H.
    set (x := gm_x st) in *. set (p := pg alpha x) in *. clearbody p x.
    assert (Hq : 0 <= nrm2 (vminus p x)) by apply nrm2_nonneg.
    assert (He : ip (vminus x p) (vminus p x) = - nrm2 (vminus p x)).
    { ip_norm. ring. }
    rewrite He in H. set (q := nrm2 (vminus p x)) in *. clearbody q.
    assert (Hd : F p - F x <= - (1 / alpha - Lf / 2) * q).
    { apply Rmult_le_reg_l with alpha; [lra|].
      replace (alpha * (- (1 / alpha - Lf / 2) * q)) with (- q + alpha * (Lf / 2) * q) by (field; lra). lra. }
    lra.
  Qed.

  Lemma ista_monotone_lemma alpha st : 0 < alpha -> alpha * Lf <= 2 ->
    F (gm_x (gstep false alpha st)) <= F (gm_x st).
  Proof.
    intros Ha HL. pose proof (ista_descent_lemma alpha st Ha) as H.
    assert (Hq : 0 <= nrm2 (vminus (gm_x (gstep false alpha st)) (gm_x st))) by apply nrm2_nonneg.
    assert (Hc : 0 <= 1 / alpha - Lf / 2).
    { apply Rmult_le_reg_l with alpha; [lra|]. replace (alpha * (1 / alpha - Lf / 2)) with (1 - alpha * Lf / 2) by (field; lra). lra. }
    nra.
  Qed.

  Lemma ista_rate_inv alpha st0 xs k : 0 < alpha -> alpha * Lf <= 1 ->
    2 * alpha * INR k * (F (gm_x (giter false alpha k st0)) - F xs) + nrm2 (vminus (gm_x (giter false alpha k st0)) xs)
      <= nrm2 (vminus (gm_x st0) xs).
  Proof.
    intros Ha HL. induction k as [|k IH].
    - simpl. lra.
    - rewrite S_INR. cbn [gm_iter].
      set (st := giter false alpha k st0) in *.
      pose proof (ista_monotone_lemma alpha st Ha ltac:(lra)) as Hm.
      rewrite ista_step_x in *.
      pose proof (pg_ineq_dist alpha (gm_x st) xs Ha HL) as H1.
      pose proof (pos_INR k) as Hk.
      set (Fp := F (pg alpha (gm_x st))) in *. set (Fx := F (gm_x st)) in *.
      assert (Hak : 0 <= alpha * INR k) by nra.
      assert (Hp3 : 0 <= alpha * INR k * (Fx - Fp)) by (apply Rmult_le_pos; lra).
      clearbody Fp Fx. nra.
  Qed.

  Lemma ista_rate_lemma alpha st0 xs k : 0 < alpha -> alpha * Lf <= 1 -> (0 < k)%nat ->
    F (gm_x (giter false alpha k st0)) - F xs <= nrm2 (vminus (gm_x st0) xs) / (2 * alpha * INR k).
  Proof.
    intros Ha HL Hk. pose proof (ista_rate_inv alpha st0 xs k Ha HL) as H.
    assert (Hq : 0 <= nrm2 (vminus (gm_x (giter false alpha k st0)) xs)) by apply nrm2_nonneg.
    assert (Hk' : 0 < INR k) by (apply lt_0_INR; lia).
    apply Rmult_le_reg_l with (2 * alpha * INR k); [nra|].
    replace (2 * alpha * INR k * (nrm2 (vminus (gm_x st0) xs) / (2 * alpha * INR k))) with (nrm2 (vminus (gm_x st0) xs)) by (field; lra).
    lra.
  Qed.

  (* ---- the model, accelerated (FISTA with the coded t-sequence) --------------------- *)
  Lemma t_next_R t : t_next ROps t = (1 + sqrt (1 + 4 * (t * t))) / 2.
  Proof. reflexivity. Qed.

  Lemma t_next_sq t : t_next ROps t * t_next ROps t - t_next ROps t = t * t.
  Proof.
    rewrite t_next_R. set (s := sqrt (1 + 4 * (t * t))).
    assert (Hs : s * s = 1 + 4 * (t * t)) by (apply sqrt_sqrt; nra).
    nra.
  Qed.

  Lemma t_next_ge t : 0 <= t -> t + 1 / 2 <= t_next ROps t.
  Proof.
    intro Ht. rewrite t_next_R.
    assert (Hs : 2 * t <= sqrt (1 + 4 * (t * t))).
    { rewrite <- (sqrt_square (2 * t)) at 1 by lra. apply sqrt_le_1_alt. nra. }
    lra.
  Qed.

  Lemma fista_step_x alpha st : gm_x (gstep true alpha st) = pg alpha (gm_z st).
  Proof. reflexivity. Qed.
  Lemma fista_step_t alpha st : gm_t (gstep true alpha st) = t_next ROps (gm_t st).
  Proof. reflexivity. Qed.
  Lemma fista_step_z alpha st :
    gm_z (gstep true alpha st) =
    vplus (pg alpha (gm_z st))
          (vmul ((gm_t st - 1) / t_next ROps (gm_t st)) (vminus (pg alpha (gm_z st)) (gm_x st))).
  Proof. reflexivity. Qed.

  (* Lyapunov function of the coded iteration, in terms of the state (x, z, t) only:
     t z - (t-1) x - x* is Beck-Teboulle's u_k, and t^2 - t is the square of the previous t *)
  Definition fista_pot (alpha : R) (xs : E) (st : gm_state ROps E) : R :=
    2 * alpha * (gm_t st * gm_t st - gm_t st) * (F (gm_x st) - F xs)
    + nrm2 (vminus (vminus (vmul (gm_t st) (gm_z st)) (vmul (gm_t st - 1) (gm_x st))) xs).

  Lemma fista_pot_step alpha (xs : E) (st : gm_state ROps E) : 0 < alpha -> alpha * Lf <= 1 -> 1 <= gm_t st ->
    fista_pot alpha xs (gstep true alpha st) <= fista_pot alpha xs st.
  Proof.
    intros Ha HL Ht. unfold fista_pot.
    rewrite fista_step_x, fista_step_t, fista_step_z.
    pose proof (t_next_sq (gm_t st)) as Hsq. pose proof (t_next_ge (gm_t st) ltac:(lra)) as Hge.
    set (t := gm_t st) in *. set (t' := t_next ROps t) in *. set (x := gm_x st). set (z := gm_z st).
    pose proof (pg_ineq alpha z x Ha) as A1. pose proof (pg_ineq alpha z xs Ha) as A2.
    set (p := pg alpha z) in *. clearbody p t' t x z.
    assert (Hu : vminus (vminus (vmul t' (vplus p (vmul ((t - 1) / t') (vminus p x)))) (vmul (t' - 1) p)) xs
                 = vminus (vminus (vmul t p) (vmul (t - 1) x)) xs).
    { vec_eq. lra. }
    rewrite Hu, Hsq. clear Hu Hsq Hge t'.
    assert (Hq : 0 <= nrm2 (vminus p z)) by apply nrm2_nonneg.
    set (Fp := F p) in *. set (Fx := F x) in *. set (Fs := F xs) in *. clearbody Fp Fx Fs.
    revert A1 A2 Hq. ip_norm. ip_abstract. intros.
    match type of A1 with ?l <= ?r =>
      assert (B1 : 0 <= 2 * t * (t - 1) * (r - l)) by (apply Rmult_le_pos; [nra | lra]) end.
    match type of A2 with ?l <= ?r =>
      assert (B2 : 0 <= 2 * t * (r - l)) by (apply Rmult_le_pos; lra) end.
    match type of Hq with 0 <= ?q =>
      assert (B3 : 0 <= t * t * (1 - alpha * Lf) * q) by (apply Rmult_le_pos; [apply Rmult_le_pos; nra | lra]) end.
    clear A1 A2 Hq. lra.
  Qed.

  Lemma fista_t_ge alpha x0 r0 k :
    (INR k + 2) / 2 <= gm_t (giter true alpha k (gm_init ROps E x0 r0)).
  Proof.
    induction k as [|k IH].
    - simpl. lra.
    - rewrite S_INR. cbn [gm_iter]. rewrite fista_step_t.
      set (t := gm_t (giter true alpha k (gm_init ROps E x0 r0))) in *.
      pose proof (pos_INR k). pose proof (t_next_ge t ltac:(lra)). lra.
  Qed.

  Lemma fista_pot_iter alpha xs x0 r0 k : 0 < alpha -> alpha * Lf <= 1 ->
    fista_pot alpha xs (giter true alpha k (gm_init ROps E x0 r0)) <= nrm2 (vminus x0 xs).
  Proof.
    intros Ha HL. induction k as [|k IH].
    - unfold fista_pot. cbn [gm_iter gm_init gm_t gm_x gm_z]. change (@s1 ROps) with 1.
      replace (vminus (vminus (vmul 1 x0) (vmul (1 - 1) x0)) xs) with (vminus x0 xs) by (vec_eq).
      lra.
    - cbn [gm_iter]. eapply Rle_trans; [apply fista_pot_step; auto | exact IH].
      pose proof (fista_t_ge alpha x0 r0 k). pose proof (pos_INR k). lra.
  Qed.

  Lemma fista_rate_lemma alpha xs x0 r0 k : 0 < alpha -> alpha * Lf <= 1 -> (0 < k)%nat ->
    F (gm_x (giter true alpha k (gm_init ROps E x0 r0))) - F xs
      <= 2 * nrm2 (vminus x0 xs) / (alpha * (INR k + 1) ^ 2).
  Proof.
    intros Ha HL Hk. destruct k as [|k]; [lia|]. clear Hk.
    pose proof (fista_pot_iter alpha xs x0 r0 (S k) Ha HL) as Hpot.
    unfold fista_pot in Hpot. cbn [gm_iter] in Hpot. rewrite fista_step_t, fista_step_x in Hpot.
    cbn [gm_iter]. rewrite fista_step_x.
    pose proof (fista_t_ge alpha x0 r0 k) as Ht.
    set (st := giter true alpha k (gm_init ROps E x0 r0)) in *.
    rewrite t_next_sq in Hpot.
    match type of Hpot with _ + nrm2 ?w <= _ => pose proof (nrm2_nonneg E w) as Hw; set (W := nrm2 w) in *; clearbody W end.
    set (t := gm_t st) in *. set (v := F (pg alpha (gm_z st)) - F xs) in *. set (D := nrm2 (vminus x0 xs)) in *.
    assert (HD : 0 <= D) by apply nrm2_nonneg.
    clearbody t v D. rewrite S_INR. pose proof (pos_INR k) as Hk. set (n := INR k) in *. clearbody n.
    assert (Hden : 0 < alpha * (n + 1 + 1) ^ 2) by (apply Rmult_lt_0_compat; [lra | nra]).
    destruct (Rle_lt_dec v 0) as [Hv | Hv].
    - apply Rle_trans with 0; [exact Hv|]. apply Rmult_le_pos; [lra | left; apply Rinv_0_lt_compat; exact Hden].
    - apply Rmult_le_reg_l with (alpha * (n + 1 + 1) ^ 2); [exact Hden|].
      replace (alpha * (n + 1 + 1) ^ 2 * (2 * D / (alpha * (n + 1 + 1) ^ 2))) with (2 * D) by (field; nra).
      assert (Htt : (n + 2) * (n + 2) <= 4 * (t * t)) by nra.
      assert (H1 : alpha * v * ((n + 2) * (n + 2)) <= alpha * v * (4 * (t * t))).
      { apply Rmult_le_compat_l; [nra | exact Htt]. }
      nra.
  Qed.

  (* ---- resid = 0 only at a minimiser (the stopping rule `resid <= tol` with tol = 0) ---------- *)
  Lemma vnorm_div_zero (v : E) alpha : 0 < alpha -> vnorm v / alpha = 0 -> v = v0.
  Proof.
    intros Ha H. apply ip_def.
    assert (Hn : vnorm v = 0).
    { apply Rmult_eq_reg_r with (/ alpha); [|apply Rinv_neq_0_compat; lra]. unfold Rdiv in H. rewrite H. ring. }
    unfold vnorm in Hn. apply sqrt_eq_0; [apply ip_pos | exact Hn].
  Qed.

  Lemma vnorm_div_nonneg (v : E) alpha : 0 < alpha -> 0 <= vnorm v / alpha.
  Proof.
    intro Ha. unfold Rdiv. apply Rmult_le_pos; [apply sqrt_pos | left; apply Rinv_0_lt_compat; exact Ha].
  Qed.

  Lemma stationary_is_minimiser alpha x : 0 < alpha -> pg alpha x = x -> forall z, F x <= F z.
  Proof.
    intros Ha Hfix z. pose proof (pg_ineq alpha x z Ha) as H. rewrite Hfix in H.
    assert (H0 : ip (vminus x x) (vminus x z) = 0) by (ip_norm; ring).
    assert (H1 : nrm2 (vminus x x) = 0) by (ip_norm; ring).
    rewrite H0, H1 in H. nra.
  Qed.

  Lemma gm_resid_zero_lemma acc alpha (st : gm_state ROps E) : 0 < alpha ->
    gm_resid (gstep acc alpha st) = 0 ->
    pg alpha (gm_x (gstep acc alpha st)) = gm_x (gstep acc alpha st) /\
    forall z, F (gm_x (gstep acc alpha st)) <= F z.
  Proof.
    intros Ha Hr.
    assert (Hfix : pg alpha (gm_x (gstep acc alpha st)) = gm_x (gstep acc alpha st)).
    { destruct acc.
      - rewrite fista_step_x in *.
        change (gm_resid (gstep true alpha st))
          with (let r1 := vnorm (vminus (pg alpha (gm_z st)) (gm_x st)) / alpha in
                let r2 := vnorm (vminus (pg alpha (gm_z st)) (gm_z st)) / alpha in
                if Rlt_dec r1 r2 then r2 else r1) in Hr.
        cbv zeta in Hr.
        pose proof (vnorm_div_nonneg (vminus (pg alpha (gm_z st)) (gm_x st)) alpha Ha) as H1.
        pose proof (vnorm_div_nonneg (vminus (pg alpha (gm_z st)) (gm_z st)) alpha Ha) as H2.
        assert (H2z : vnorm (vminus (pg alpha (gm_z st)) (gm_z st)) / alpha = 0).
        { destruct (Rlt_dec _ _) in Hr; lra. }
        apply vnorm_div_zero in H2z; [|exact Ha]. apply vminus_eq_0 in H2z.
        rewrite H2z. exact H2z.
      - rewrite ista_step_x in *.
        change (gm_resid (gstep false alpha st)) with (vnorm (vminus (pg alpha (gm_x st)) (gm_x st)) / alpha) in Hr.
        apply vnorm_div_zero in Hr; [|exact Ha]. apply vminus_eq_0 in Hr.
        rewrite Hr. exact Hr. }
    split; [exact Hfix | apply (stationary_is_minimiser alpha _ Ha Hfix)].
  Qed.
End ProxGradTheory.

(* ---- the variational inequality determines the point; concrete proximal operators ------ *)
Section ProxInstances.
  Variable E : IPS.

  Definition vi_holds (h : E -> R) (a : R) (v p : E) : Prop :=
    forall z, h p + ip (vmul (/ a) (vminus v p)) (vminus z p) <= h z.

  Lemma vi_unique h a v p q : 0 < a -> vi_holds h a v p -> vi_holds h a v q -> p = q.
  Proof.
    intros Ha Hp Hq. pose proof (Hp q) as H1. pose proof (Hq p) as H2.
    apply vminus_eq_0. apply ip_def.
    assert (Hn : / a * ip (vminus p q) (vminus p q) <= 0).
    { revert H1 H2. set (hp := h p). set (hq := h q). clearbody hp hq. ip_norm. ip_abstract. intros. nra. }
    pose proof (ip_pos E (vminus p q)) as Hpos.
    assert (Hia : 0 < / a) by (apply Rinv_0_lt_compat; exact Ha).
    nra.
  Qed.

  (* if a candidate formula satisfies the inequality, it is characterised by it *)
  Lemma vi_char h (prox : R -> E -> E) :
    (forall a v, 0 < a -> vi_holds h a v (prox a v)) ->
    forall a v p, 0 < a -> (prox a v = p <-> vi_holds h a v p).
  Proof.
    intros H a v p Ha. split.
    - intros <-. apply H, Ha.
    - intro Hp. eapply vi_unique; eauto.
  Qed.

  (* g = 0: prox = identity (prox.NoOp, or proxg=None) *)
  Lemma prox_zero_vi : forall a v p, 0 < a -> ((fun (_ : R) (w : E) => w) a v = p <-> vi_holds (fun _ => 0) a v p).
  Proof.
    apply vi_char. intros a v Ha z. ip_norm. ip_abstract. intros. lra.
  Qed.

  (* h(u) = lam/2 ||u||^2 + <u, y>:  prox_{a h}(v) = (v - a y) / (1 + a lam)
     (y = 0: prox.L2Reg(lam); lam = 1, y the data: the dual prox of the least-squares saddle form) *)
  Definition hquad (lam : R) (y : E) (u : E) : R := lam / 2 * nrm2 u + ip u y.
  Definition prox_quad (lam : R) (y : E) (a : R) (v : E) : E := vmul (/ (1 + a * lam)) (vminus v (vmul a y)).

  Lemma prox_quad_vi lam y : 0 <= lam ->
    forall a v p, 0 < a -> (prox_quad lam y a v = p <-> vi_holds (hquad lam y) a v p).
  Proof.
    intro Hl. apply vi_char. intros a v Ha z. unfold prox_quad, hquad.
    assert (Hk : 0 < 1 + a * lam) by nra.
    pose proof (nrm2_nonneg E (vminus z (vmul (/ (1 + a * lam)) (vminus v (vmul a y))))) as Hq.
    revert Hq. ip_norm. ip_abstract. intro Hq.
    match type of Hq with 0 <= ?q => assert (B : 0 <= lam / 2 * q) by (apply Rmult_le_pos; lra) end.
    clear Hq.
    match goal with |- ?l <= ?r => match type of B with 0 <= ?q => assert (Heq : r - l = q) by (field; lra) end end.
    lra.
  Qed.
End ProxInstances.


(* ---- the least-squares data term satisfies the hypotheses on f ------------------------- *)
Section Quadratic.
  Variables E1 E2 : IPS.
  Variables (A : E1 -> E2) (AH : E2 -> E1) (y : E2) (Lq : R).
  Hypothesis A_plus : forall x x', A (vplus x x') = vplus (A x) (A x').
  Hypothesis A_mul : forall a x, A (vmul a x) = vmul a (A x).
  Hypothesis adj : forall x u, ip (A x) u = ip x (AH u).
  Hypothesis A_bound : forall x, nrm2 (A x) <= Lq * nrm2 x.

  Definition qf (x : E1) : R := 1 / 2 * nrm2 (vminus (A x) y).
  Definition qgrad (x : E1) : E1 := AH (vminus (A x) y).

  Lemma quad_expand x x' : qf x' = qf x + ip (qgrad x) (vminus x' x) + 1 / 2 * nrm2 (A (vminus x' x)).
  Proof.
    unfold qf, qgrad. rewrite (ip_sym E1), <- adj.
    unfold nrm2, vminus. repeat (rewrite A_plus || rewrite A_mul).
    ip_norm. lra.
  Qed.

  Lemma quad_convex x x' : qf x + ip (qgrad x) (vminus x' x) <= qf x'.
  Proof. rewrite (quad_expand x x'). pose proof (nrm2_nonneg E2 (A (vminus x' x))). lra. Qed.

  Lemma quad_descent x x' : qf x' <= qf x + ip (qgrad x) (vminus x' x) + Lq / 2 * nrm2 (vminus x' x).
  Proof. rewrite (quad_expand x x'). pose proof (A_bound (vminus x' x)). lra. Qed.
End Quadratic.

(* ---- R is an inner-product space; products of inner-product spaces ---------------------- *)
Definition R_IPS : IPS.
Proof.
  refine (mkIPS R 0 Rplus Rmult Rmult _ _ _ _ _ _ _ _ _ _ _ _ _); intros; try ring.
  - nra.
  - nra.
Defined.

Definition prod_IPS (E1 E2 : IPS) : IPS.
Proof.
  refine (mkIPS (E1 * E2)%type (v0, v0) (fun a b => (vplus (fst a) (fst b), vplus (snd a) (snd b)))
                (fun c a => (vmul c (fst a), vmul c (snd a)))
                (fun a b => ip (fst a) (fst b) + ip (snd a) (snd b)) _ _ _ _ _ _ _ _ _ _ _ _ _);
    intros; cbn [fst snd].
  all: try solve [f_equal; first [apply vplus_comm | apply vplus_assoc | apply vplus_0_l | apply vplus_opp | apply vmul_1
                               | apply vmul_mul | apply vmul_plus_r | apply vmul_plus_l]].
  all: try solve [destruct x; cbn [fst snd]; f_equal; first [apply vplus_0_l | apply vmul_1]].
  - rewrite (ip_sym E1), (ip_sym E2). reflexivity.
  - rewrite !ip_plus_l. ring.
  - rewrite !ip_mul_l. ring.
  - pose proof (ip_pos E1 (fst x)). pose proof (ip_pos E2 (snd x)). lra.
  - pose proof (ip_pos E1 (fst x)). pose proof (ip_pos E2 (snd x)).
    destruct x as [x1 x2]; cbn [fst snd] in *. f_equal; apply ip_def; lra.
Defined.

(* ---- all hypotheses are satisfiable: V = R, f = 1/2 (c x - b)^2, g = lam/2 x^2 -------------- *)
Section RExample.
  Variables (c b lam : R).
  Hypothesis Hlam : 0 <= lam.

  Definition exA1 (x : R_IPS) : R_IPS := c * x.
  Definition ex_f : R_IPS -> R := qf R_IPS R_IPS exA1 b.
  Definition ex_grad : R_IPS -> R_IPS := qgrad R_IPS R_IPS exA1 exA1 b.
  Definition ex_g : R_IPS -> R := hquad R_IPS lam 0.
  Definition ex_prox : R -> R_IPS -> R_IPS := prox_quad R_IPS lam 0.

  Lemma exA1_plus x x' : exA1 (vplus x x') = vplus (exA1 x) (exA1 x').
  Proof. unfold exA1. cbn. ring. Qed.
  Lemma exA1_mul a x : exA1 (vmul a x) = vmul a (exA1 x).
  Proof. unfold exA1. cbn. ring. Qed.
  Lemma exA1_adj (x u : R_IPS) : ip (exA1 x) u = ip x (exA1 u).
  Proof. unfold exA1. cbn. ring. Qed.
  Lemma exA1_bound (x : R_IPS) : nrm2 (exA1 x) <= c * c * nrm2 x.
  Proof. unfold exA1, nrm2. cbn. change (vec R_IPS) with R in *. nra. Qed.

  Lemma ex_f_convex x y : ex_f x + ip (ex_grad x) (vminus y x) <= ex_f y.
  Proof. apply (quad_convex R_IPS R_IPS exA1 exA1 b exA1_plus exA1_mul exA1_adj). Qed.
  Lemma ex_f_descent x y : ex_f y <= ex_f x + ip (ex_grad x) (vminus y x) + c * c / 2 * nrm2 (vminus y x).
  Proof. apply (quad_descent R_IPS R_IPS exA1 exA1 b (c * c) exA1_plus exA1_mul exA1_adj exA1_bound). Qed.
  Lemma ex_prox_vi a v p : 0 < a -> (ex_prox a v = p <-> forall z, ex_g p + ip (vmul (/ a) (vminus v p)) (vminus z p) <= ex_g z).
  Proof. apply (prox_quad_vi R_IPS lam 0 Hlam). Qed.

  Lemma ista_R_example alpha (x0 xs : R_IPS) r0 k : 0 < alpha -> alpha * (c * c) <= 1 -> (0 < k)%nat ->
    let xk := gm_x (gm_iter ROps R_IPS vplus vminus vmul vnorm ex_grad false alpha (Some ex_prox) k (gm_init ROps R_IPS x0 r0)) in
    (ex_f xk + ex_g xk) - (ex_f xs + ex_g xs) <= nrm2 (vminus x0 xs) / (2 * alpha * INR k).
  Proof.
    intros. apply (ista_rate_lemma R_IPS ex_f ex_g ex_grad ex_prox (c * c) ex_f_convex ex_f_descent ex_prox_vi); assumption.
  Qed.

  Lemma fista_R_example alpha (x0 xs : R_IPS) r0 k : 0 < alpha -> alpha * (c * c) <= 1 -> (0 < k)%nat ->
    let xk := gm_x (gm_iter ROps R_IPS vplus vminus vmul vnorm ex_grad true alpha (Some ex_prox) k (gm_init ROps R_IPS x0 r0)) in
    (ex_f xk + ex_g xk) - (ex_f xs + ex_g xs) <= 2 * nrm2 (vminus x0 xs) / (alpha * (INR k + 1) ^ 2).
  Proof.
    intros. apply (fista_rate_lemma R_IPS ex_f ex_g ex_grad ex_prox (c * c) ex_f_convex ex_f_descent ex_prox_vi); assumption.
  Qed.
End RExample.
