(* proofs/Slr2.v — the last line of slr.py ab2rf,
       theta = np.arctan2(np.abs(sj), cj);  psi = np.angle(sj);  rf[ii] = 2 * theta * np.exp(1j * psi)
   over R, and the full round trip  ab2rf (forward_slr rf) = rf  for |rf_j| < pi.

   arctan2 is DEFINED here from Coq's atan by the usual quadrant cases (the real-number reading of np.arctan2, no signed
   zeros), np.angle(z) = arctan2(im z, re z), exp(1j*psi) = (cos psi, sin psi).  Nothing about them is assumed:
   - cis_angle_unit_phasor : exp(1j*angle(z)) = z/|z| (and 1 at z = 0) — the reading used by model/Bloch.v unit_phasor;
   - atan2_sin_cos        : arctan2(sin t, cos t) = t  for -pi/2 < t < pi/2  (Ratan.atan_tan).
   Second part: abrm_hp under a constant gradient evaluates the forward SLR polynomials (abrm_hp_forward_slr), hence
   abrm_hp (ab2rf (A, B)) returns (A, B) evaluated at the position's phase (abrm_hp_ab2rf_roundtrip). *)
From Coq Require Import Reals ZArith List Bool Lra Lia Psatz.
From SV Require Import model.Bloch proofs.Bloch proofs.Bloch2 proofs.Slr.
Import ListNotations.
Local Open Scope R_scope.

Definition Ratan2 (y x : R) : R :=
  if Rlt_dec 0 x then atan (y / x)
  else if Rlt_dec x 0 then (if Rle_dec 0 y then atan (y / x) + PI else atan (y / x) - PI)
  else if Rlt_dec 0 y then PI / 2
  else if Rlt_dec y 0 then - (PI / 2)
  else 0.
Definition Rangle (z : CR) : R := Ratan2 (snd z) (fst z).
(* cis t = (cos t, sin t) = exp(1j*t): proofs/Bloch2.v *)

(* ------------------------------------------------------------------ arctan2 inverts the polar parametrisation *)
Lemma atan2_sin_cos (t : R) : - (PI / 2) < t < PI / 2 -> Ratan2 (sin t) (cos t) = t.
Proof.
  intros Ht. unfold Ratan2.
  assert (Hc : 0 < cos t) by (apply cos_gt_0; lra).
  destruct (Rlt_dec 0 (cos t)) as [_ | N]; [|exfalso; apply N; exact Hc].
  change (sin t / cos t) with (tan t). apply atan_tan. exact Ht.
Qed.

Lemma hyp_sqrt_pos (x y : R) : 0 < x -> sqrt (1 + (y / x) * (y / x)) = sqrt (x * x + y * y) / x.
Proof.
  intros Hx. apply sqrt_lem_1.
  - assert (0 <= (y / x) * (y / x)) by nra. lra.
  - apply Rmult_le_pos; [apply sqrt_pos | left; apply Rinv_0_lt_compat; exact Hx].
  - assert (Hq : 0 <= x * x + y * y) by nra.
    transitivity (sqrt (x * x + y * y) * sqrt (x * x + y * y) / (x * x)); [field; lra|].
    rewrite sqrt_sqrt by exact Hq. field. lra.
Qed.

Lemma hyp_sqrt_neg (x y : R) : x < 0 -> sqrt (1 + (y / x) * (y / x)) = sqrt (x * x + y * y) / (- x).
Proof.
  intros Hx. replace (y / x) with ((- y) / (- x)) by (field; lra).
  replace (x * x + y * y) with ((- x) * (- x) + (- y) * (- y)) by ring. apply hyp_sqrt_pos. lra.
Qed.

Lemma Rsqr_mul (z : R) : z² = z * z.
Proof. reflexivity. Qed.

(* cos / sin of arctan2(y, x) are x / r and y / r *)
Lemma cis_atan2 (x y : R) :
  sqrt (x * x + y * y) <> 0 ->
  cis (Ratan2 y x) = (x / sqrt (x * x + y * y), y / sqrt (x * x + y * y)).
Proof.
  intros Hm. set (m := sqrt (x * x + y * y)) in *. unfold cis, Ratan2.
  destruct (Rlt_dec 0 x) as [Hx | Hx].
  - rewrite cos_atan, sin_atan, Rsqr_mul, hyp_sqrt_pos by exact Hx. fold m. apply pair_eqR; field; split; lra.
  - destruct (Rlt_dec x 0) as [Hx' | Hx'].
    + assert (Hcs : cos (atan (y / x)) = - x / m /\ sin (atan (y / x)) = - y / m).
      { rewrite cos_atan, sin_atan, Rsqr_mul, hyp_sqrt_neg by exact Hx'. fold m. split; field; split; lra. }
      destruct Hcs as [Hc Hs].
      destruct (Rle_dec 0 y) as [Hy | Hy].
      * rewrite neg_cos, neg_sin, Hc, Hs. apply pair_eqR; field; exact Hm.
      * rewrite cos_minus, sin_minus, cos_PI, sin_PI, Hc, Hs. apply pair_eqR; field; exact Hm.
    + assert (E : x = 0) by lra. subst x.
      assert (Hm2 : m = sqrt (y * y)) by (unfold m; f_equal; ring).
      destruct (Rlt_dec 0 y) as [Hy | Hy].
      * rewrite cos_PI2, sin_PI2. rewrite sqrt_square in Hm2 by lra. rewrite Hm2. apply pair_eqR; field; lra.
      * destruct (Rlt_dec y 0) as [Hy' | Hy'].
        -- rewrite cos_neg, sin_neg, cos_PI2, sin_PI2.
           replace (y * y) with ((- y) * (- y)) in Hm2 by ring. rewrite sqrt_square in Hm2 by lra.
           rewrite Hm2. apply pair_eqR; field; lra.
        -- exfalso. assert (E : y = 0) by lra. subst y. apply Hm. unfold m.
           replace (0 * 0 + 0 * 0) with 0 by ring. apply sqrt_0.
Qed.

Lemma atan2_0_0 : Ratan2 0 0 = 0.
Proof.
  unfold Ratan2. destruct (Rlt_dec 0 0) as [H | _]; [exfalso; lra|]. reflexivity.
Qed.

(* exp(1j*angle(z)) is exactly the unit phasor the simulator models use: z/|z|, and 1 at z = 0 *)
Theorem cis_angle_unit_phasor (z : CR) : cis (Rangle z) = unit_phasor (F:=RF) z.
Proof.
  destruct z as [re im]. unfold unit_phasor, Rangle. cx_simpl. cbn [fsqrt fis0 RF]. unfold Ris0.
  destruct (Req_EM_T (sqrt (re * re + im * im)) 0) as [E | E].
  - apply sqrt_eq_0 in E; [|nra].
    assert (re = 0) by nra. assert (im = 0) by nra. subst re im. rewrite atan2_0_0. unfold cis. rewrite cos_0, sin_0. reflexivity.
  - apply cis_atan2. exact E.
Qed.

(* ------------------------------------------------------------------ the conversion (c_j, s_j) <-> rf_j *)
(* ab2rf's last line *)
Definition cs2rf (m : R * CR) : CR := cscale (F:=RF) (2 * Ratan2 (sqrt (n2 (snd m))) (fst m)) (cis (Rangle (snd m))).
(* the hard pulse of (complex) flip angle r in ab2rf's convention:  c = cos(|r|/2),  s = exp(1j*angle(r)) * sin(|r|/2) *)
Definition rf2cs (r : CR) : R * CR := (cos (sqrt (n2 r) / 2), cscale (F:=RF) (sin (sqrt (n2 r) / 2)) (cis (Rangle r))).

Lemma n2_zero (r : CR) : sqrt (n2 r) = 0 -> r = (0, 0).
Proof.
  destruct r as [re im]. unfold n2. cbn [fst snd]. intros E. apply sqrt_eq_0 in E; [|nra].
  assert (re = 0) by nra. assert (im = 0) by nra. subst. reflexivity.
Qed.

Lemma n2_cscale (k : R) (z : CR) : n2 (cscale (F:=RF) k z) = k * k * n2 z.
Proof. destruct z as [zr zi]. unfold n2. cx_simpl. ring. Qed.

Lemma rf2cs_good (r : CR) : sqrt (n2 r) < PI -> good (rf2cs r).
Proof.
  intros Hr. pose proof (sqrt_pos (n2 r)) as Hp. unfold good, rf2cs. cbn [fst snd]. split.
  - apply cos_gt_0; lra.
  - rewrite n2_cscale, cis_angle_unit_phasor, unit_phasor_norm. pose proof (cs1 (sqrt (n2 r) / 2)). lra.
Qed.

Theorem cs2rf_rf2cs (r : CR) : sqrt (n2 r) < PI -> cs2rf (rf2cs r) = r.
Proof.
  intros Hr. pose proof (sqrt_pos (n2 r)) as Hp. set (rho := sqrt (n2 r)) in *.
  unfold cs2rf, rf2cs. cbn [fst snd]. fold rho.
  set (u := cis (Rangle r)).
  assert (Hu : n2 u = 1) by (unfold u; rewrite cis_angle_unit_phasor; apply unit_phasor_norm).
  assert (Hs0 : 0 <= sin (rho / 2)) by (apply sin_ge_0; lra).
  (* |s| = sin(rho/2) *)
  assert (Habs : sqrt (n2 (cscale (F:=RF) (sin (rho / 2)) u)) = sin (rho / 2)).
  { rewrite n2_cscale, Hu, Rmult_1_r. apply sqrt_square. exact Hs0. }
  rewrite Habs, atan2_sin_cos by lra.
  replace (2 * (rho / 2)) with rho by field.
  destruct (Req_dec rho 0) as [E | E].
  - rewrite E. rewrite (n2_zero r E). cx_simpl. cx_eq.
  - (* the phase: angle(sin(rho/2) * u) = angle(u) since sin(rho/2) > 0 *)
    assert (Hs : 0 < sin (rho / 2)) by (apply sin_gt_0; lra).
    rewrite cis_angle_unit_phasor.
    assert (Hph : unit_phasor (F:=RF) (cscale (F:=RF) (sin (rho / 2)) u) = u).
    { unfold unit_phasor. change (fsqrt (cabs2 (F:=RF) (cscale (F:=RF) (sin (rho / 2)) u)))
        with (sqrt (n2 (cscale (F:=RF) (sin (rho / 2)) u))).
      rewrite Habs. cbn [fis0 RF]. unfold Ris0. destruct (Req_EM_T (sin (rho / 2)) 0) as [E0 | _]; [lra|].
      destruct u as [ur ui]. cx_simpl. apply pair_eqR; field; lra. }
    rewrite Hph. unfold u. rewrite cis_angle_unit_phasor.
    unfold unit_phasor. change (fsqrt (cabs2 (F:=RF) r)) with rho. cbn [fis0 RF]. unfold Ris0.
    destruct (Req_EM_T rho 0) as [E0 | _]; [contradiction|].
    destruct r as [re im]. cx_simpl. apply pair_eqR; field; exact E.
Qed.

(* conversely, on the rotation parameters *)
Theorem rf2cs_cs2rf (m : R * CR) : good m -> rf2cs (cs2rf m) = m.
Proof.
  intros [Hc Hn]. destruct m as [c s]. cbn [fst snd] in Hc, Hn.
  pose proof (sqrt_pos (n2 s)) as Hp. set (sg := sqrt (n2 s)) in *.
  assert (Hsg : sg * sg = n2 s) by (apply sqrt_sqrt; destruct s as [sr si]; unfold n2; cbn [fst snd]; nra).
  (* (c, sg) = (cos t, sin t) with t = atan (sg / c) in [0, pi/2) *)
  set (t := atan (sg / c)).
  assert (Ht : Ratan2 sg c = t).
  { unfold Ratan2. destruct (Rlt_dec 0 c) as [_ | N]; [reflexivity | contradiction]. }
  assert (Hh : sqrt (1 + (sg / c) * (sg / c)) = 1 / c).
  { rewrite hyp_sqrt_pos by exact Hc. replace (c * c + sg * sg) with 1 by lra. rewrite sqrt_1. reflexivity. }
  assert (Hcos : cos t = c) by (unfold t; rewrite cos_atan, Rsqr_mul, Hh; field; lra).
  assert (Hsin : sin t = sg) by (unfold t; rewrite sin_atan, Rsqr_mul, Hh; field; lra).
  assert (Ht0 : 0 <= t).
  { unfold t. rewrite <- atan_0. destruct (Req_dec sg 0) as [E | E].
    - rewrite E. unfold Rdiv. rewrite Rmult_0_l. lra.
    - left. apply atan_increasing. apply Rmult_lt_0_compat; [lra | apply Rinv_0_lt_compat; exact Hc]. }
  unfold cs2rf, rf2cs. cbn [fst snd]. fold sg. rewrite Ht.
  set (u := cis (Rangle s)).
  assert (Hu : n2 u = 1) by (unfold u; rewrite cis_angle_unit_phasor; apply unit_phasor_norm).
  assert (Habs : sqrt (n2 (cscale (F:=RF) (2 * t) u)) = 2 * t).
  { rewrite n2_cscale, Hu, Rmult_1_r. apply sqrt_square. lra. }
  rewrite Habs. replace (2 * t / 2) with t by field. rewrite Hcos, Hsin. apply pair_eq; [reflexivity|].
  destruct (Req_dec sg 0) as [E | E].
  - rewrite E. rewrite (n2_zero s E). cx_simpl. cx_eq.
  - assert (Ht1 : 0 < t).
    { destruct Ht0 as [H | H]; [exact H|]. exfalso. apply E. rewrite <- Hsin, <- H. apply sin_0. }
    rewrite cis_angle_unit_phasor.
    assert (Hph : unit_phasor (F:=RF) (cscale (F:=RF) (2 * t) u) = u).
    { unfold unit_phasor. change (fsqrt (cabs2 (F:=RF) (cscale (F:=RF) (2 * t) u)))
        with (sqrt (n2 (cscale (F:=RF) (2 * t) u))).
      rewrite Habs. cbn [fis0 RF]. unfold Ris0. destruct (Req_EM_T (2 * t) 0) as [E0 | _]; [lra|].
      destruct u as [ur ui]. cx_simpl. apply pair_eqR; field; lra. }
    rewrite Hph. unfold u. rewrite cis_angle_unit_phasor.
    unfold unit_phasor. change (fsqrt (cabs2 (F:=RF) s)) with sg. cbn [fis0 RF]. unfold Ris0.
    destruct (Req_EM_T sg 0) as [E0 | _]; [contradiction|].
    destruct s as [sr si]. cx_simpl. apply pair_eqR; field; exact E.
Qed.

(* ------------------------------------------------------------------ the round trip *)
(* ab2rf(a, b): the peeling recursion (model/Bloch.v ab2cs) followed by the last line on every peeled pair *)
Definition ab2rf (a b : list CR) : list CR := map cs2rf (ab2cs (F:=RF) a b).
(* forward SLR transform of a hard-pulse train: rotation parameters, then the polynomial recursion (model/Bloch.v slr_fwd) *)
Definition forward_slr (rf : list CR) : list CR * list CR := slr_fwd (F:=RF) (map rf2cs rf).

Theorem ab2rf_forward_slr (rf : list CR) :
  (forall r, In r rf -> sqrt (n2 r) < PI) ->
  ab2rf (fst (forward_slr rf)) (snd (forward_slr rf)) = rf.
Proof.
  intros H. unfold ab2rf, forward_slr. rewrite ab2cs_inverts.
  - rewrite map_map. rewrite <- (map_id rf) at 2. apply map_ext_in. intros r Hr. apply cs2rf_rf2cs. apply H. exact Hr.
  - intros m Hm. apply in_map_iff in Hm. destruct Hm as [r [<- Hr]]. apply rf2cs_good. apply H. exact Hr.
Qed.

(* hypotheses satisfiable and not only by the zero pulse: a 90 degree pulse about a tilted axis and a 120 degree pulse *)
Lemma rf_example : forall r, In r [((PI / 2) * (3 / 5), (PI / 2) * (4 / 5)); (2 * PI / 3, 0); (0, 0)] -> sqrt (n2 r) < PI.
Proof.
  pose proof PI_RGT_0 as Hpi.
  assert (Hlt : forall v, 0 <= v -> v < PI * PI -> sqrt v < PI).
  { intros v Hv Hlt. rewrite <- (sqrt_square PI) by lra. apply sqrt_lt_1; nra. }
  intros r [<- | [<- | [<- | []]]]; unfold n2; cbn [fst snd]; apply Hlt; nra.
Qed.

(* ------------------------------------------------------------------ hard-pulse simulation evaluates the forward SLR polynomials *)
Definition ci : CR := (0, 1).
Definition hstep (w acc c : CR) : CR := cadd (F:=RF) (cmul (F:=RF) acc w) c.
(* sum_k p[k] * w^(n-1-k), n = len p  (Horner from the left) *)
Definition prev (p : list CR) (w : CR) : CR := fold_left (hstep w) p c0.

Lemma zipw_cons f (x y : CR) (p q : list CR) : zipwR f (x :: p) (y :: q) = f x y :: zipwR f p q.
Proof. reflexivity. Qed.

Lemma fold_zip_lin (f : CR -> CR -> CR) (w : CR) :
  (forall a b x y, hstep w (f a b) (f x y) = f (hstep w a x) (hstep w b y)) ->
  forall p q accp accq, length p = length q ->
    fold_left (hstep w) (zipwR f p q) (f accp accq) = f (fold_left (hstep w) p accp) (fold_left (hstep w) q accq).
Proof.
  intros Hf. induction p as [|x p IH]; intros [|y q] accp accq Hl; cbn in Hl; try discriminate; [reflexivity|].
  rewrite zipw_cons. cbn [fold_left]. rewrite Hf. apply IH. congruence.
Qed.

Lemma prev_zip_lin (f : CR -> CR -> CR) (w : CR) (p q : list CR) :
  (forall a b x y, hstep w (f a b) (f x y) = f (hstep w a x) (hstep w b y)) -> f c0 c0 = c0 ->
  length p = length q -> prev (zipwR f p q) w = f (prev p w) (prev q w).
Proof.
  intros Hf H0 Hl. unfold prev. rewrite <- H0 at 1. apply fold_zip_lin; assumption.
Qed.

Lemma prev_cons0 (p : list CR) (w : CR) : prev (c0 :: p) w = prev p w.
Proof.
  unfold prev. cbn [fold_left]. f_equal. destruct w as [wr wi]. unfold hstep. cx_simpl. cx_eq.
Qed.

Lemma prev_snoc0 (p : list CR) (w : CR) : prev (p ++ [c0]) w = cmul (F:=RF) (prev p w) w.
Proof.
  unfold prev. rewrite fold_left_app. cbn [fold_left]. set (P := fold_left (hstep w) p c0).
  destruct P as [pr pi], w as [wr wi]. unfold hstep. cx_simpl. cx_eq.
Qed.

(* the simulator state that corresponds to a pair of coefficient lists *)
Definition stof (w : CR) (ab : list CR * list CR) : StR :=
  (cconj (F:=RF) (prev (fst ab) w), cmul (F:=RF) ci (cconj (F:=RF) (prev (snd ab) w))).

Lemma sim_step_inv (r : CR) (th : R) (a b : list CR) :
  length a = length b ->
  rfrot r (gphase th (stof (cis th) (a, b))) = stof (cis th) (slr_fwd_step (F:=RF) (rf2cs r) (a, b)) /\
  length (fst (slr_fwd_step (F:=RF) (rf2cs r) (a, b))) = length (snd (slr_fwd_step (F:=RF) (rf2cs r) (a, b))).
Proof.
  intros Hl. unfold rf2cs, slr_fwd_step. rewrite cis_angle_unit_phasor.
  set (c := cos (sqrt (n2 r) / 2)). set (sn := sin (sqrt (n2 r) / 2)). set (u := unit_phasor (F:=RF) r).
  set (s := cscale (F:=RF) sn u).
  set (fa := fun x y : CR => csub (F:=RF) (cscale (F:=RF) c x) (cmul (F:=RF) s y)).
  set (fb := fun x y : CR => cadd (F:=RF) (cmul (F:=RF) (cconj (F:=RF) s) x) (cscale (F:=RF) c y)).
  set (ea := c0 :: a). set (eb := b ++ [c0]).
  assert (Hle : length ea = length eb) by (unfold ea, eb; rewrite app_length; cbn; lia).
  split; [|cbn [fst snd]; rewrite !zipw_length by exact Hle; reflexivity].
  unfold stof. cbn [fst snd].
  rewrite (prev_zip_lin fa), (prev_zip_lin fb); try exact Hle.
  - unfold ea, eb. rewrite prev_cons0, prev_snoc0.
    set (A := prev a (cis th)). set (B := prev b (cis th)).
    unfold fa, fb, s, rf_rot, grad_phase, rcs, half, two. cbn [fdiv fofZ fsqrt RF].
    change (cabs2 (F:=RF) r) with (n2 r). fold c sn. fold u. destruct u as [ur ui]. destruct A as [Ar Ai], B as [Br Bi].
    unfold cis, ci. cx_simpl. cx_eq.
  - intros [a1 a2] [b1 b2] [x1 x2] [y1 y2]. destruct s as [sr si], (cis th) as [wr wi]. unfold fb, hstep. cx_simpl. cx_eq.
  - unfold fb. destruct s as [sr si]. cx_simpl. cx_eq.
  - intros [a1 a2] [b1 b2] [x1 x2] [y1 y2]. destruct s as [sr si], (cis th) as [wr wi]. unfold fa, hstep. cx_simpl. cx_eq.
  - unfold fa. destruct s as [sr si]. cx_simpl. cx_eq.
Qed.

Lemma sim_fold_inv x d g (rs : list CR) : forall (ab : list CR * list CR),
  length (fst ab) = length (snd ab) ->
  fold_left (hp_step x d) (map (fun r => (r, g)) rs) (stof (cis (x * g + d)) ab) =
  stof (cis (x * g + d)) (fold_left (fun ab m => slr_fwd_step (F:=RF) m ab) (map rf2cs rs) ab).
Proof.
  induction rs as [|r rs IH]; intros [a b] Hl; [reflexivity|]. cbn [fst snd] in Hl.
  cbn [map fold_left]. destruct (sim_step_inv r (x * g + d) a b Hl) as [Hs Hl'].
  unfold hp_step at 2. unfold hp_theta. cbn [fst snd]. rewrite Hs. apply IH. exact Hl'.
Qed.

Lemma sim_first x d g (r : CR) :
  hp_step x d st0 (r, g) = stof (cis (x * g + d)) ([(fst (rf2cs r), 0)], [cconj (F:=RF) (snd (rf2cs r))]).
Proof.
  unfold hp_step, hp_theta, stof, prev, rf2cs. cbn [fst snd fold_left]. rewrite cis_angle_unit_phasor.
  unfold rf_rot, grad_phase, rcs, half, two. cbn [fdiv fofZ fsqrt RF]. change (cabs2 (F:=RF) r) with (n2 r).
  set (u := unit_phasor (F:=RF) r). destruct u as [ur ui]. unfold hstep, cis, ci. cx_simpl. cx_eq.
Qed.

(* abrm_hp of a hard-pulse train under a constant gradient g (and off-resonance d), at position x:
   with th = x*g + d, w = exp(1j*th) and (A, B) the coefficient lists of the forward SLR transform,
     a = exp(1j*N*th/2) * conj( sum_k A[k] w^(N-1-k) ),   b = exp(1j*N*th/2) * 1j * conj( sum_k B[k] w^(N-1-k) ) *)
Theorem abrm_hp_forward_slr (r0 : CR) (rs : list CR) g x d :
  let rf := r0 :: rs in
  let rfg := map (fun r => (r, g)) rf in
  abrm_hp (F:=RF) rcs rfg x d =
  tphase (x * fsum (F:=RF) (map snd rfg) + IZR (Z.of_nat (length rfg)) * d) (stof (cis (x * g + d)) (forward_slr rf)).
Proof.
  intros rf rfg. unfold abrm_hp. f_equal. rewrite abrm_hp_loop_fold. unfold rfg, rf, forward_slr.
  cbn [map fold_left]. rewrite sim_first. unfold slr_fwd.
  change (rf2cs r0) with (fst (rf2cs r0), snd (rf2cs r0)) at 3.
  cbv iota beta. apply sim_fold_inv. reflexivity.
Qed.

(* ---- magnitudes: |b| = |B(e^{-i th})|, |a| = |A(e^{-i th})| with the ordinary evaluation sum_k p[k] v^k ---- *)
Definition peval (p : list CR) (v : CR) : CR := fold_right (fun c acc => cadd (F:=RF) c (cmul (F:=RF) v acc)) c0 p.
Fixpoint cpow (w : CR) (n : nat) : CR := match n with O => c1 | S k => cmul (F:=RF) w (cpow w k) end.

Lemma n2_cmul (a b : CR) : n2 (cmul (F:=RF) a b) = n2 a * n2 b.
Proof. destruct a as [ar ai], b as [br bi]. unfold n2. cx_simpl. ring. Qed.
Lemma n2_cconj (a : CR) : n2 (cconj (F:=RF) a) = n2 a.
Proof. destruct a as [ar ai]. unfold n2. cx_simpl. ring. Qed.
Lemma n2_cpow (w : CR) n : n2 w = 1 -> n2 (cpow w n) = 1.
Proof.
  intros H. induction n as [|n IH]; cbn [cpow].
  - unfold n2. cx_simpl. ring.
  - rewrite n2_cmul, H, IH. ring.
Qed.
Lemma n2_cis t : n2 (cis t) = 1.
Proof. unfold n2, cis. cbn [fst snd]. apply cs1. Qed.
Lemma cconj_cis t : cconj (F:=RF) (cis t) = cis (- t).
Proof. unfold cis. cx_simpl. rewrite cos_neg, sin_neg. reflexivity. Qed.

Lemma hstep_acc (w : CR) (p : list CR) : forall acc,
  fold_left (hstep w) p acc = cadd (F:=RF) (cmul (F:=RF) acc (cpow w (length p))) (fold_left (hstep w) p c0).
Proof.
  induction p as [|c p IH]; intros acc; cbn [fold_left length cpow].
  - destruct acc as [a1 a2]. cx_simpl. cx_eq.
  - rewrite (IH (hstep w acc c)), (IH (hstep w c0 c)).
    set (X := cpow w (length p)). set (P := fold_left (hstep w) p c0).
    destruct acc as [a1 a2], c as [c1 c2], w as [wr wi], X as [xr xi], P as [pr pi]. unfold hstep. cx_simpl. cx_eq.
Qed.

(* reversed (Horner-from-the-left) evaluation at w = ordinary evaluation at conj w, times w^(n-1), when |w| = 1 *)
Lemma prev_peval (w : CR) (p : list CR) :
  n2 w = 1 -> prev p w = cmul (F:=RF) (cpow w (length p)) (cmul (F:=RF) (cconj (F:=RF) w) (peval p (cconj (F:=RF) w))).
Proof.
  intros Hw. induction p as [|c p IH].
  - unfold prev. cbn [fold_left length cpow peval fold_right]. destruct w as [wr wi]. cx_simpl. cx_eq.
  - unfold prev in *. cbn [fold_left length cpow peval fold_right]. fold (peval p (cconj (F:=RF) w)).
    rewrite hstep_acc, IH.
    set (X := cpow w (length p)). set (P := peval p (cconj (F:=RF) w)).
    destruct c as [c1 c2], w as [wr wi], X as [xr xi], P as [pr pi]. unfold n2 in Hw. cbn [fst snd] in Hw.
    assert (Hw2 : wi * wi = 1 - wr * wr) by lra.
    unfold hstep. cx_simpl. apply pair_eqR; ring [Hw2].
Qed.

Lemma n2_prev_peval (w : CR) (p : list CR) : n2 w = 1 -> n2 (prev p w) = n2 (peval p (cconj (F:=RF) w)).
Proof.
  intros Hw. rewrite prev_peval by exact Hw. rewrite !n2_cmul, n2_cpow, n2_cconj, Hw by exact Hw. ring.
Qed.

Lemma n2_tphase_fst t (s : StR) : n2 (fst (tphase t s)) = n2 (fst s).
Proof.
  unfold total_phase, rcs. set (h := half (F:=RF) t). pose proof (cs1 h) as Hh. destruct s as [[ar ai] [br bi]].
  unfold n2. cx_simpl. transitivity ((ar * ar + ai * ai) * (cos h * cos h + sin h * sin h)); [ring | rewrite Hh; ring].
Qed.
Lemma n2_tphase_snd t (s : StR) : n2 (snd (tphase t s)) = n2 (snd s).
Proof.
  unfold total_phase, rcs. set (h := half (F:=RF) t). pose proof (cs1 h) as Hh. destruct s as [[ar ai] [br bi]].
  unfold n2. cx_simpl. transitivity ((br * br + bi * bi) * (cos h * cos h + sin h * sin h)); [ring | rewrite Hh; ring].
Qed.

(* what the numerical round-trip oracle measures: |b| = |B(e^{-i(x g + d)})| (and the same for a) *)
Theorem abrm_hp_forward_slr_magnitude (r0 : CR) (rs : list CR) g x d :
  let rf := r0 :: rs in
  let rfg := map (fun r => (r, g)) rf in
  n2 (fst (abrm_hp (F:=RF) rcs rfg x d)) = n2 (peval (fst (forward_slr rf)) (cis (- (x * g + d)))) /\
  n2 (snd (abrm_hp (F:=RF) rcs rfg x d)) = n2 (peval (snd (forward_slr rf)) (cis (- (x * g + d)))).
Proof.
  intros rf rfg. unfold rfg, rf. rewrite abrm_hp_forward_slr, n2_tphase_fst, n2_tphase_snd. unfold stof. cbn [fst snd].
  rewrite n2_cconj, n2_cmul, n2_cconj, !n2_prev_peval, cconj_cis by apply n2_cis.
  split; [reflexivity|]. unfold ci, n2 at 1. cbn [fst snd]. ring.
Qed.

(* [core] the inverse SLR transform is inverted by hard-pulse simulation: for the polynomial pair (A, B) of any hard-pulse
   train with |theta_j| < pi, simulating ab2rf(A, B) with abrm_hp under a constant gradient returns (A, B) evaluated at
   the position's phase (reversed-order evaluation, conjugated, b with the factor 1j, times the closing phase) *)
Theorem abrm_hp_ab2rf_roundtrip (r0 : CR) (rs : list CR) g x d :
  (forall r, In r (r0 :: rs) -> sqrt (n2 r) < PI) ->
  let A := fst (forward_slr (r0 :: rs)) in
  let B := snd (forward_slr (r0 :: rs)) in
  let rfg := map (fun r => (r, g)) (ab2rf A B) in
  abrm_hp (F:=RF) rcs rfg x d =
    tphase (x * fsum (F:=RF) (map snd rfg) + IZR (Z.of_nat (length rfg)) * d) (stof (cis (x * g + d)) (A, B)) /\
  n2 (fst (abrm_hp (F:=RF) rcs rfg x d)) = n2 (peval A (cis (- (x * g + d)))) /\
  n2 (snd (abrm_hp (F:=RF) rcs rfg x d)) = n2 (peval B (cis (- (x * g + d)))).
Proof.
  intros H A B rfg. unfold rfg, A, B. rewrite ab2rf_forward_slr by exact H. split.
  - rewrite <- surjective_pairing. apply abrm_hp_forward_slr.
  - apply abrm_hp_forward_slr_magnitude.
Qed.
