(* LinopRetab.v — the EXECUTED model equals the PROVED model.

   model/Linop.v's [den] takes a parameter [force : shape -> array -> array] that re-tabulates every intermediate
   array (Compose chains, the slices handed to / returned by the members of Hstack / Vstack / Diag).  The theorems
   of proofs/Linop*.v are about [D A = den .. noforce A] (force = identity); the runs of run/RunLinop.v evaluate
   [den .. retab A] (force = flat-list memoisation, which agrees with its argument only INSIDE the index box).

   [local A]  : D A reads its input only inside the index box of ishape_of A (for outputs inside oshape_of A).
   Main theorem [den_retab_eq] (by induction over the tree, through all six combinators; invariant [tracks]):
   for wf A whose leaves are local,
       forall x o, inbox (oshape_of A) o -> den arr scal orc retab A x o = D A x o,
   and the whole tree is local [local_tree]; stated for ANY force that is transparent on index boxes [den_force_eq].
   Well-formedness is what makes the intermediate arrays line up: compose_ok gives ishape a_k = oshape a_{k+1},
   stack_params gives the segment geometry ([emb_inbox]: member boxes embed into the stacked box; [unemb_inbox]: an
   index of the stacked box whose key falls in segment n maps back into member n's box).
   Locality is PROVED for every leaf class whose denotation is defined in the model ([proven_local], a boolean side
   condition per class, mostly just wf; the block operators through the generated loop nests and the generic
   theorem [exec_agree]); for the library-backed leaves it is the locality of the oracle ([orc_local]), the only
   hypothesis left in [den_retab_eq_proven].  No axioms. *)
From Coq Require Import ZArith List Lia Bool Ring.
From SV Require Import lib.Scalar lib.BigSum lib.LoopIR lib.NdArray lib.Gather gen.Gen_block
  model.Rearrange model.Block model.Linop
  proofs.Rearrange proofs.Block proofs.LinopTheory proofs.LinopAlgebra proofs.LinopLeaves proofs.LinopScale
  proofs.LinopLeavesA proofs.LinopLeavesB proofs.LinopStack proofs.LinopLinear.
Import ListNotations.
Local Open Scope Z_scope.

(* ======================================================================== segment geometry of stack_params *)
Lemma psums_combine_bounds {A} (g : A -> Z) (l : list A) acc a st :
  Forall (fun a => 0 <= g a) l -> In (a, st) (combine l (psums acc (map g l))) ->
  acc <= st /\ st + g a <= acc + sumlist (map g l).
Proof.
  intros H. revert acc; induction H as [|b l Hb Hl IH]; intros acc Hin; [contradiction|].
  assert (Hs : 0 <= sumlist (map g l)).
  { clear -Hl. induction Hl as [|c l Hc _ IHl]; simpl; lia. }
  cbn [map psums combine sumlist] in *. destruct Hin as [E|Hin].
  - inversion E; subst. lia.
  - specialize (IH _ Hin). lia.
Qed.

Lemma psums_ends_combine {A} (g : A -> Z) (l : list A) acc a st en :
  In (a, st, en) (combine (combine l (psums acc (map g l))) (ends_of acc (map g l))) ->
  en = st + g a /\ In (a, st) (combine l (psums acc (map g l))).
Proof.
  revert acc; induction l as [|b l IH]; intros acc Hin; [contradiction|].
  cbn [map psums ends_of combine] in *. destruct Hin as [E|Hin].
  - inversion E; subst. split; [reflexivity | left; reflexivity].
  - destruct (IH _ Hin) as [E1 E2]. split; [exact E1 | right; exact E2].
Qed.

Lemma in_combine3_drop {A} (l : list A) (is us vs : list Z) a i u v :
  In (a, i, u, v) (combine (combine (combine l is) us) vs) ->
  In (a, i) (combine l is) /\ In (a, u, v) (combine (combine l us) vs).
Proof.
  revert is us vs; induction l as [|b l IH]; intros [|i0 is] [|u0 us] [|v0 vs]; simpl; try tauto.
  intros [E|H]; [inversion E; subst; auto|]. destruct (IH _ _ _ H). auto.
Qed.

Definition stack_axis (axis : option Z) (S : list Z) : Z :=
  match axis with None => 0 | Some ax => ax mod lenZ S end.

Lemma stack_geometry shs axis S ind : stack_params shs axis = Ok (S, ind) -> all_pos_shapes shs ->
  0 :: ind = psums 0 (map (axsize axis) shs) /\
  ind ++ [getZ S (stack_axis axis S)] = ends_of 0 (map (axsize axis) shs) /\
  getZ S (stack_axis axis S) = sumlist (map (axsize axis) shs) /\
  Forall (fun s => 0 <= axsize axis s) shs /\
  match axis with
  | None => length S = 1%nat
  | Some ax => Forall (fun s => s <> [] /\ length s = length S /\
                               forall k, k <> Z.to_nat (ax mod lenZ S) -> nth k s 0 = nth k S 0) shs
  end.
Proof.
  intros Hsp Hpos. destruct (stack_params_prefix_sums _ _ _ _ Hsp) as [E1 E2].
  assert (E3 : ind ++ [getZ S (stack_axis axis S)] = ends_of 0 (map (axsize axis) shs)).
  { unfold stack_axis. rewrite E2. rewrite <- (ends_of_psums 0 _ ind (eq_sym E1)). reflexivity. }
  assert (G : match axis with
              | None => length S = 1%nat
              | Some ax => Forall (fun s => s <> [] /\ length s = length S /\
                                 forall k, k <> Z.to_nat (ax mod lenZ S) -> nth k s 0 = nth k S 0) shs
              end).
  { destruct axis as [ax|].
    - destruct (stack_params_some_spec _ _ _ _ Hsp) as (s0 & rest & -> & Hne & Ha & _ & ES & F). cbv zeta in *.
      assert (LS : length S = length s0) by (rewrite ES; apply setZ_length).
      eapply Forall_impl; [|exact F]. intros s [L Hs]. cbv beta in *. split; [|split].
      + intros ->. destruct s0; [congruence|discriminate].
      + congruence.
      + intros k Hk. unfold lenZ in *. rewrite LS in Hk.
        rewrite <- (nth_setZ_other s (Z.to_nat (ax mod Z.of_nat (length s0))) k
                      (sumlist (map (fun s1 => getZ s1 (ax mod Z.of_nat (length s0))) (s0 :: rest)))) by exact Hk.
        rewrite Hs, <- ES. reflexivity.
    - rewrite stack_params_none in Hsp.
      destruct (stack_params_some_spec _ _ _ _ Hsp) as (s0 & rest & E0 & _ & _ & _ & ES & F). cbv zeta in *.
      destruct shs as [|t0 tr]; [discriminate|]. simpl in E0. inversion E0; subst s0 rest.
      rewrite ES, setZ_length. reflexivity. }
  repeat split; try assumption.
  apply Forall_forall. intros s Hs. unfold all_pos_shapes in Hpos. rewrite Forall_forall in Hpos. specialize (Hpos s Hs).
  destruct axis as [ax|]; unfold axsize.
  - rewrite Forall_forall in G. destruct (G s Hs) as (Hne & _ & _). apply Z.lt_le_incl. apply getZ_pos; [exact Hpos|].
    apply Z.mod_pos_bound. unfold lenZ. destruct s; [congruence|simpl; lia].
  - apply Z.lt_le_incl. apply prodZ_pos. exact Hpos.
Qed.

Lemma mapi_aux_length {A} (f : Z -> Z -> A) d l : length (mapi_aux f d l) = length l.
Proof. revert d; induction l as [|x l IH]; intros d; simpl; [reflexivity| rewrite IH; reflexivity]. Qed.

Lemma nth_mapi_aux (f : Z -> Z -> Z) d l k : (k < length l)%nat ->
  nth k (mapi_aux f d l) 0 = f (d + Z.of_nat k) (nth k l 0).
Proof.
  revert d k; induction l as [|x l IH]; intros d [|k] H; simpl in H; try lia.
  - simpl. replace (d + 0) with d by lia. reflexivity.
  - cbn [mapi_aux nth]. rewrite IH by lia. f_equal. lia.
Qed.

(* member n's index box, shifted by its start, lies inside the stacked box *)
Lemma emb_inbox shs axis S ind : stack_params shs axis = Ok (S, ind) -> all_pos_shapes shs ->
  forall s st, In (s, st) (combine shs (0 :: ind)) -> forall j, inbox s j -> inbox S (emb axis s st j).
Proof.
  intros Hsp Hpos s st Hin j Hj. destruct (stack_geometry _ _ _ _ Hsp Hpos) as (E1 & _ & E3 & Hnn & G).
  rewrite E1 in Hin. pose proof (in_combine_l _ _ _ _ Hin) as Hs.
  destruct (psums_combine_bounds (axsize axis) shs 0 s st Hnn Hin) as [B1 B2]. rewrite <- E3 in B2.
  destruct axis as [ax|]; unfold emb, stack_axis in *.
  - rewrite Forall_forall in G. destruct (G s Hs) as (Hne & L & Hoff).
    assert (Ea : ax mod lenZ s = ax mod lenZ S) by (unfold lenZ; rewrite L; reflexivity).
    rewrite Ea. set (a := ax mod lenZ S) in *.
    assert (Ha : 0 <= a < lenZ S).
    { apply Z.mod_pos_bound. unfold lenZ. rewrite <- L. destruct s; [congruence|simpl; lia]. }
    pose proof (proj1 (LinopLeavesA.inbox_nth s j) Hj) as [Lj Hjb].
    apply LinopLeavesA.inbox_nth. rewrite shift_idx_aux, shift_aux_length. split; [congruence|].
    intros k Hk. rewrite nth_shift_aux by lia. specialize (Hjb k ltac:(lia)).
    destruct (Z.eqb_spec (0 + Z.of_nat k) a) as [E|N].
    + assert (Ek : k = Z.to_nat a) by lia. subst k.
      unfold axsize in B2. rewrite Ea in B2. fold a in B2. unfold getZ in B2. lia.
    + rewrite <- Hoff by lia. exact Hjb.
  - destruct S as [|n [|? ?]]; try discriminate G. unfold getZ in B2, E3. simpl in B2.
    pose proof (ravel_bound s j Hj) as Hr. unfold axsize in B2. simpl. lia.
Qed.

(* an index of the stacked box whose key falls in segment n maps back into member n's box *)
Lemma unemb_inbox shs axis S ind : stack_params shs axis = Ok (S, ind) -> all_pos_shapes shs ->
  forall s st, In (s, st) (combine shs (0 :: ind)) -> forall o, inbox S o ->
  st <= key axis s o < st + axsize axis s -> inbox s (unemb axis s st o).
Proof.
  intros Hsp Hpos s st Hin o Ho Hk. destruct (stack_geometry _ _ _ _ Hsp Hpos) as (E1 & _ & E3 & Hnn & G).
  pose proof (in_combine_l _ _ _ _ Hin) as Hs.
  destruct axis as [ax|]; unfold unemb, key, axsize in *.
  - rewrite Forall_forall in G. destruct (G s Hs) as (Hne & L & Hoff).
    assert (Ea : ax mod lenZ s = ax mod lenZ S) by (unfold lenZ; rewrite L; reflexivity).
    rewrite Ea in *. set (a := ax mod lenZ S) in *.
    assert (Ha : 0 <= a < lenZ S).
    { apply Z.mod_pos_bound. unfold lenZ. rewrite <- L. destruct s; [congruence|simpl; lia]. }
    pose proof (proj1 (LinopLeavesA.inbox_nth S o) Ho) as [Lo Hob].
    apply LinopLeavesA.inbox_nth. unfold mapi. rewrite mapi_aux_length. split; [congruence|].
    intros k Hk'. rewrite nth_mapi_aux by lia. specialize (Hob k ltac:(lia)).
    destruct (Z.eqb_spec (0 + Z.of_nat k) a) as [E|N].
    + assert (Ek : k = Z.to_nat a) by lia. subst k. unfold getZ in Hk. lia.
    + rewrite Hoff by lia. exact Hob.
  - destruct S as [|n [|? ?]]; try discriminate G. destruct o as [|k [|? ?]]; simpl in Ho; try tauto.
    unfold all_pos_shapes in Hpos. rewrite Forall_forall in Hpos.
    apply (ravel_unravel s (k - st) (Hpos s Hs)). lia.
Qed.

(* ======================================================================== what _apply computes, for ANY force *)
Section Unfold.
  Variable R : StarRing.
  Add Ring RringRT0 : (SRth R).
  Notation farr := (list Z -> R).
  Variable arr : Z -> farr.
  Variable scal : Z -> R.
  Variable orc : linop -> farr -> farr.
  Variable force : list Z -> farr -> farr.
  Notation DF := (den (R:=R) arr scal orc force).
  Local Open Scope sr_scope.

  Lemma DF_leaf L x : is_comb L = false -> DF L x = D R arr scal orc L x.
  Proof. intros H. destruct L; try discriminate H; reflexivity. Qed.

  Lemma DF_conj a x o : DF (Conj a) x o = conj (DF a (fun i => conj (x i)) o).
  Proof. reflexivity. Qed.

  Lemma DF_add ls x o : DF (Add ls) x o = fold_right (fun a acc => DF a x o + acc) 0 ls.
  Proof. induction ls as [|a ls IH]; [reflexivity|]. simpl. simpl in IH. rewrite IH. reflexivity. Qed.

  Lemma DF_compose ls x : DF (Compose ls) x = fold_right (fun a acc => force (oshape_of a) (DF a acc)) x ls.
  Proof. induction ls as [|a ls IH]; [reflexivity|]. simpl. simpl in IH. rewrite IH. reflexivity. Qed.

  Lemma DF_hstack ls axis x o :
    DF (Hstack ls axis) x o =
    match stack_params (map ishape_of ls) axis with
    | Err _ => 0
    | Ok (_, ind) =>
        sum_parts R ls (0%Z :: ind)
          (fun a st => DF a (force (ishape_of a) (fun i => x (emb axis (ishape_of a) st i))) o)
    end.
  Proof.
    cbn [den]. destruct (stack_params (map ishape_of ls) axis) as [[ish ind]|]; [|reflexivity].
    rewrite starts_of_eq. generalize (0%Z :: ind) as starts.
    induction ls as [|a ls IH]; intros starts; [reflexivity|].
    destruct starts as [|st starts]; [reflexivity|]. cbn [sum_parts]. rewrite <- IH.
    destruct axis; reflexivity.
  Qed.

  Lemma DF_vstack ls axis x o :
    DF (Vstack ls axis) x o =
    match stack_params (map oshape_of ls) axis with
    | Err _ => 0
    | Ok (osh, ind) =>
        place R axis (mk_items R oshape_of (fun a => force (oshape_of a) (DF a x)) ls (0%Z :: ind)
                        (ind ++ [getZ osh (stack_axis axis osh)])) o
    end.
  Proof.
    cbn [den]. destruct (stack_params (map oshape_of ls) axis) as [[osh ind]|]; [|reflexivity].
    rewrite starts_of_eq. generalize (0%Z :: ind) as starts. unfold stack_axis.
    generalize (ind ++ [getZ osh (match axis with None => 0%Z | Some ax => ax mod lenZ osh end)]) as ends.
    induction ls as [|a ls IH]; intros ends starts; [reflexivity|].
    destruct starts as [|st starts]; [reflexivity|]. destruct ends as [|en ends]; [reflexivity|].
    cbn [mk_items place]. rewrite <- IH. destruct axis; reflexivity.
  Qed.

  Lemma DF_diag ls oaxis iaxis x o :
    DF (Diag ls oaxis iaxis) x o =
    match stack_params (map ishape_of ls) iaxis, stack_params (map oshape_of ls) oaxis with
    | Ok (_, iind), Ok (osh, oind) =>
        place R oaxis
          (mk_items R (fun p => oshape_of (fst p))
             (fun p => force (oshape_of (fst p))
                         (DF (fst p) (force (ishape_of (fst p)) (fun i => x (emb iaxis (ishape_of (fst p)) (snd p) i)))))
             (combine ls (0%Z :: iind)) (0%Z :: oind)
             (oind ++ [getZ osh (stack_axis oaxis osh)])) o
    | _, _ => 0
    end.
  Proof.
    cbn [den]. destruct (stack_params (map ishape_of ls) iaxis) as [[ish iind]|]; [|reflexivity].
    destruct (stack_params (map oshape_of ls) oaxis) as [[osh oind]|]; [|reflexivity].
    rewrite !starts_of_eq. generalize (0%Z :: iind) as istarts. generalize (0%Z :: oind) as ostarts.
    assert (E : (oind ++ [match oaxis with None => getZ osh 0 | Some ax => getZ osh (ax mod lenZ osh) end])
                = (oind ++ [getZ osh (stack_axis oaxis osh)]))
      by (destruct oaxis; reflexivity).
    rewrite E. clear E.
    generalize (oind ++ [getZ osh (stack_axis oaxis osh)]) as oends.
    induction ls as [|a ls IH]; intros oends ostarts istarts; [reflexivity|].
    destruct istarts as [|ist istarts]; [reflexivity|].
    destruct ostarts as [|ost ostarts]; [reflexivity|]. destruct oends as [|oen oends]; [reflexivity|].
    cbn [combine mk_items place fst snd]. rewrite <- IH. destruct oaxis, iaxis; reflexivity.
  Qed.

  (* two concatenations with the same segments agree wherever their members agree on the selected index *)
  Lemma place_mk_items_ext {A} axis (sh : A -> list Z) (F G : A -> farr) l starts ends o :
    (forall a st en, In (a, st, en) (combine (combine l starts) ends) ->
       (st <= key axis (sh a) o < en)%Z -> F a (unemb axis (sh a) st o) = G a (unemb axis (sh a) st o)) ->
    place R axis (mk_items R sh F l starts ends) o = place R axis (mk_items R sh G l starts ends) o.
  Proof.
    revert starts ends; induction l as [|a l IH]; intros [|st starts] [|en ends] H; try reflexivity.
    cbn [mk_items place].
    destruct (Z.leb_spec st (key axis (sh a) o)); destruct (Z.ltb_spec (key axis (sh a) o) en); cbn [andb];
      try (apply IH; intros b st' en' Hin; apply H; right; exact Hin).
    apply (H a st en); [left; reflexivity | lia].
  Qed.
End Unfold.

(* ======================================================================== the induction over the tree *)
Section Retab.
  Variable R : StarRing.
  Add Ring RringRT : (SRth R).
  Notation farr := (list Z -> R).
  Variable arr : Z -> farr.
  Variable scal : Z -> R.
  Variable orc : linop -> farr -> farr.
  Notation D := (D R arr scal orc).
  Local Open Scope sr_scope.

  Definition agree (s : list Z) (x x' : farr) : Prop := forall i, inbox s i -> x i = x' i.

  (* the denotation only reads its input inside the index box *)
  Definition local (A : linop) : Prop :=
    forall x x', agree (ishape_of A) x x' -> forall o, inbox (oshape_of A) o -> D A x o = D A x' o.

  Section Force.
    Variable force : list Z -> farr -> farr.
    Hypothesis force_ok : forall s (f : farr) i, Forall (fun n => (0 <= n)%Z) s -> inbox s i -> force s f i = f i.
    Notation DF := (den (R:=R) arr scal orc force).

    (* the invariant: the forced model on x equals the proved model on any x' that agrees with x on the box *)
    Definition tracks (A : linop) : Prop :=
      forall x x', agree (ishape_of A) x x' -> forall o, inbox (oshape_of A) o -> DF A x o = D A x' o.

    Lemma wf_nonneg_o A : wf A = true -> Forall (fun n => (0 <= n)%Z) (oshape_of A).
    Proof.
      intros Hw. destruct (wf_shapes _ Hw) as [[o i] Hs]. destruct (shapes_pos _ _ _ Hs) as [Po _].
      destruct (shapes_of_ok _ _ Hs) as (_ & Eo & _). rewrite Eo. cbn [fst].
      eapply Forall_impl; [|exact Po]. intros n Hn; cbv beta in *; lia.
    Qed.

    Lemma wf_nonneg_i A : wf A = true -> Forall (fun n => (0 <= n)%Z) (ishape_of A).
    Proof.
      intros Hw. destruct (wf_shapes _ Hw) as [[o i] Hs]. destruct (shapes_pos _ _ _ Hs) as [_ Pi].
      destruct (shapes_of_ok _ _ Hs) as (_ & _ & Ei). rewrite Ei. cbn [snd].
      eapply Forall_impl; [|exact Pi]. intros n Hn; cbv beta in *; lia.
    Qed.

    Lemma tracks_leaf L : is_comb L = false -> local L -> tracks L.
    Proof. intros Hc HL x x' Hx o Ho. rewrite (DF_leaf R arr scal orc force L x Hc). apply HL; assumption. Qed.

    Lemma tracks_conj A : tracks A -> tracks (Conj A).
    Proof.
      intros H x x' Hx o Ho. rewrite DF_conj, D_conj. f_equal.
      apply H; [|exact Ho]. intros i Hi. f_equal. apply Hx. exact Hi.
    Qed.

    Lemma wf_add_members ls : wf (Add ls) = true ->
      Forall (fun a => wf a = true /\ oshape_of a = oshape_of (Add ls) /\ ishape_of a = ishape_of (Add ls)) ls.
    Proof.
      intros Hwf. destruct (wf_shapes _ Hwf) as [s Hs]. destruct (shapes_of_ok _ _ Hs) as (_ & Eo & Ei).
      rewrite shapes_add in Hs.
      destruct (mapM shapes ls) as [ss|] eqn:Hm; [|discriminate]. simpl in Hs.
      destruct ss as [|s0 ss]; [discriminate|].
      destruct (same_all (map snd (s0 :: ss)) && same_all (map fst (s0 :: ss))) eqn:Hsame; [|discriminate].
      apply andb_true_iff in Hsame. destruct Hsame as [Hsi Hso].
      apply finish_ok in Hs. subst s. cbn [fst snd] in Eo, Ei.
      apply mapM_ok in Hm.
      pose proof (same_all_spec _ _ Hsi) as Fi. pose proof (same_all_spec _ _ Hso) as Fo.
      pose proof (members_shapes _ _ _ _ Hm Fi Fo) as Hsh.
      pose proof (members_wf _ _ Hm) as Hw.
      rewrite Eo, Ei. rewrite Forall_forall in *. intros a Ha. destruct (Hsh a Ha). auto.
    Qed.

    Lemma tracks_add ls : wf (Add ls) = true -> Forall tracks ls -> tracks (Add ls).
    Proof.
      intros Hwf Ht x x' Hx o Ho. rewrite DF_add, D_add.
      pose proof (wf_add_members ls Hwf) as Hm.
      remember (ishape_of (Add ls)) as si eqn:Esi. remember (oshape_of (Add ls)) as so eqn:Eso.
      clear Esi Eso Hwf.
      induction ls as [|a ls IH]; [reflexivity|]. cbn [fold_right].
      inversion Ht as [|? ? Ta Tl]; subst. inversion Hm as [|? ? (Wa & Eo & Ei) Ml]; subst.
      f_equal; [apply Ta; assumption | apply IH; assumption].
    Qed.

    (* a composition chain: every intermediate array is only looked at inside the box where force is transparent *)
    Lemma chain_tracks ls ss :
      Forall2 (fun a s => shapes a = Ok s) ls ss -> compose_ok ss = true -> Forall tracks ls ->
      forall s0, ss <> [] ->
      forall x x', agree (snd (last ss s0)) x x' ->
      agree (fst (hd s0 ss))
        (fold_right (fun a acc => force (oshape_of a) (DF a acc)) x ls)
        (fold_right (fun a acc => D a acc) x' ls).
    Proof.
      intros HF. induction HF as [|a s ls ss Ha HF IH]; intros Hc Ht s0 Hne x x' Hx; [congruence|].
      inversion Ht as [|? ? Ta Tl]; subst.
      destruct (shapes_of_ok _ _ Ha) as (Wa & Eo & Ei).
      cbn [fold_right hd]. intros o Ho.
      rewrite force_ok; [| apply wf_nonneg_o; exact Wa | rewrite Eo; exact Ho].
      apply Ta; [| rewrite Eo; exact Ho]. rewrite Ei.
      destruct ss as [|s' ss'].
      - inversion HF; subst. cbn [fold_right]. exact Hx.
      - simpl in Hc. apply andb_true_iff in Hc. destruct Hc as [Hfit Hc]. apply zlist_eqb_spec in Hfit.
        rewrite Hfit. change (fst s') with (fst (hd s0 (s' :: ss'))).
        apply (IH Hc Tl s0 ltac:(discriminate)).
        change (last (s :: s' :: ss') s0) with (last (s' :: ss') s0) in Hx. exact Hx.
    Qed.

    Lemma tracks_compose ls : wf (Compose ls) = true -> Forall tracks ls -> tracks (Compose ls).
    Proof.
      intros Hwf Ht. destruct (wf_shapes _ Hwf) as [s Hs]. destruct (shapes_of_ok _ _ Hs) as (_ & Eo & Ei).
      rewrite shapes_compose in Hs.
      destruct (mapM shapes ls) as [ss|] eqn:Hm; [|discriminate]. simpl in Hs.
      destruct (compose_ok ss) eqn:Hc; [|discriminate]. simpl in Hs.
      destruct ss as [|s0 ss]; [discriminate|]. apply finish_ok in Hs. subst s. cbn [fst snd] in Eo, Ei.
      apply mapM_ok in Hm. intros x x' Hx o Ho. rewrite DF_compose, D_compose.
      rewrite Eo in Ho. rewrite Ei in Hx.
      exact (chain_tracks ls (s0 :: ss) Hm Hc Ht s0 ltac:(discriminate) x x' Hx o Ho).
    Qed.

    Lemma tracks_hstack ls axis : wf (Hstack ls axis) = true -> Forall tracks ls -> tracks (Hstack ls axis).
    Proof.
      intros Hwf Ht x x' Hx o Ho.
      destruct (wf_hstack_params _ _ Hwf) as (ind & Hsp & Pi & _ & Hm).
      rewrite DF_hstack, D_hstack, Hsp. apply sum_parts_ext. intros a st Hin.
      pose proof (in_combine_l _ _ _ _ Hin) as Ha.
      rewrite Forall_forall in Ht, Hm. destruct (Hm a Ha) as [Wa Eo].
      apply (Ht a Ha); [|rewrite Eo; exact Ho].
      intros i Hi. rewrite force_ok; [| apply wf_nonneg_i; exact Wa | exact Hi].
      apply Hx. apply (emb_inbox _ _ _ _ Hsp Pi (ishape_of a) st); [|exact Hi].
      apply in_combine_map. exact Hin.
    Qed.

    (* segment n of a stacked OUTPUT box: the member index selected by the concatenation loop is inside the member's box *)
    Lemma segment_inbox ls axis S ind a st en o :
      stack_params (map oshape_of ls) axis = Ok (S, ind) -> all_pos_shapes (map oshape_of ls) ->
      In (a, st, en) (combine (combine ls (0%Z :: ind)) (ind ++ [getZ S (stack_axis axis S)])) ->
      inbox S o -> (st <= key axis (oshape_of a) o < en)%Z ->
      In a ls /\ inbox (oshape_of a) (unemb axis (oshape_of a) st o).
    Proof.
      intros Hsp Po Hin Ho Hk.
      destruct (stack_geometry _ _ _ _ Hsp Po) as (E1 & E2 & _).
      rewrite map_map in E1, E2. rewrite E1, E2 in Hin.
      destruct (psums_ends_combine (fun a => axsize axis (oshape_of a)) ls 0%Z a st en Hin) as [Een Hin'].
      split; [exact (in_combine_l _ _ _ _ Hin')|].
      apply (unemb_inbox _ _ _ _ Hsp Po (oshape_of a) st); [| exact Ho | lia].
      rewrite <- E1 in Hin'. apply in_combine_map. exact Hin'.
    Qed.

    Lemma tracks_vstack ls axis : wf (Vstack ls axis) = true -> Forall tracks ls -> tracks (Vstack ls axis).
    Proof.
      intros Hwf Ht x x' Hx o Ho.
      destruct (wf_vstack_params _ _ Hwf) as (ind & Hsp & _ & Po & Hm).
      rewrite DF_vstack, D_vstack, Hsp. apply place_mk_items_ext. intros a st en Hin Hk.
      destruct (segment_inbox _ _ _ _ _ _ _ _ Hsp Po Hin Ho Hk) as [Ha Hb].
      rewrite Forall_forall in Ht, Hm. destruct (Hm a Ha) as [Wa Ei].
      rewrite force_ok; [| apply wf_nonneg_o; exact Wa | exact Hb].
      apply (Ht a Ha); [rewrite Ei; exact Hx | exact Hb].
    Qed.

    Lemma tracks_diag ls oaxis iaxis : wf (Diag ls oaxis iaxis) = true -> Forall tracks ls -> tracks (Diag ls oaxis iaxis).
    Proof.
      intros Hwf Ht x x' Hx o Ho.
      destruct (wf_diag_params _ _ _ Hwf) as (iind & oind & Hspi & Hspo & Pi & Po & Hm).
      rewrite DF_diag, D_diag, Hspi, Hspo. apply place_mk_items_ext. intros [a ist] ost oen Hin Hk.
      cbn [fst snd] in *.
      destruct (in_combine3_drop _ _ _ _ _ _ _ _ Hin) as [Hini Hino].
      destruct (segment_inbox _ _ _ _ _ _ _ _ Hspo Po Hino Ho Hk) as [Ha Hb].
      rewrite Forall_forall in Ht, Hm. pose proof (Hm a Ha) as Wa.
      rewrite force_ok; [| apply wf_nonneg_o; exact Wa | exact Hb].
      apply (Ht a Ha); [| exact Hb].
      intros i Hi. rewrite force_ok; [| apply wf_nonneg_i; exact Wa | exact Hi].
      apply Hx. apply (emb_inbox _ _ _ _ Hspi Pi (ishape_of a) ist); [|exact Hi].
      apply in_combine_map. exact Hini.
    Qed.

    Lemma Forall_tracks P ls :
      Forall (fun A => wf A = true -> nodes_ok' P A -> tracks A) ls ->
      Forall (fun A => wf A = true) ls -> Forall (nodes_ok' P) ls -> Forall tracks ls.
    Proof.
      induction ls as [|a ls IH]; intros H Hw Hn; [constructor|].
      inversion H; inversion Hw; inversion Hn; subst. constructor; auto.
    Qed.

    (* the leaf hypothesis is only needed for well-formed leaves *)
    Theorem tracks_tree A : wf A = true -> nodes_ok' (fun L => wf L = true -> local L) A -> tracks A.
    Proof.
      induction A using linop_rect2; intros Hwf Hn.
      - apply tracks_leaf; destruct A; try contradiction; try reflexivity; exact (Hn Hwf).
      - apply tracks_conj. apply IHA; [exact Hwf | exact Hn].
      - apply nodes_ok'_list in Hn. pose proof (wf_members _ ls (or_introl eq_refl) Hwf) as Hw.
        apply tracks_add; [exact Hwf | exact (Forall_tracks _ _ H Hw Hn)].
      - apply nodes_ok'_list in Hn. pose proof (wf_members _ ls (or_intror (or_introl eq_refl)) Hwf) as Hw.
        apply tracks_compose; [exact Hwf | exact (Forall_tracks _ _ H Hw Hn)].
      - apply nodes_ok'_list in Hn.
        pose proof (wf_members _ ls (or_intror (or_intror (or_introl (ex_intro _ ax eq_refl)))) Hwf) as Hw.
        apply tracks_hstack; [exact Hwf | exact (Forall_tracks _ _ H Hw Hn)].
      - apply nodes_ok'_list in Hn.
        pose proof (wf_members _ ls (or_intror (or_intror (or_intror (or_introl (ex_intro _ ax eq_refl))))) Hwf) as Hw.
        apply tracks_vstack; [exact Hwf | exact (Forall_tracks _ _ H Hw Hn)].
      - apply nodes_ok'_list in Hn.
        pose proof (wf_members _ ls (or_intror (or_intror (or_intror (or_intror (ex_intro _ oa (ex_intro _ ia eq_refl)))))) Hwf) as Hw.
        apply tracks_diag; [exact Hwf | exact (Forall_tracks _ _ H Hw Hn)].
    Qed.

    (* the forced model equals the proved model on the output box *)
    Corollary den_force_eq A : wf A = true -> nodes_ok' (fun L => wf L = true -> local L) A ->
      forall x o, inbox (oshape_of A) o -> DF A x o = D A x o.
    Proof. intros Hwf Hn x o Ho. apply (tracks_tree A Hwf Hn x x); [intros i _; reflexivity | exact Ho]. Qed.
  End Force.

  (* locality of the leaves gives locality of every tree *)
  Theorem local_tree_wf A : wf A = true -> nodes_ok' (fun L => wf L = true -> local L) A -> local A.
  Proof.
    intros Hwf Hn. exact (tracks_tree noforce (fun s f i _ _ => eq_refl) A Hwf Hn).
  Qed.

  Lemma retab_ok s (f : farr) i : Forall (fun n => (0 <= n)%Z) s -> inbox s i -> retab s f i = f i.
  Proof. intros Hs Hi. unfold retab. apply of_list_tabulate; assumption. Qed.

  (* THE EXECUTED MODEL EQUALS THE PROVED MODEL (leaf hypothesis asked of well-formed leaves only) *)
  Theorem den_retab_eq_wf A : wf A = true -> nodes_ok' (fun L => wf L = true -> local L) A ->
    forall x o, inbox (oshape_of A) o -> den (R:=R) arr scal orc retab A x o = D A x o.
  Proof. intros Hwf Hn. exact (den_force_eq retab retab_ok A Hwf Hn). Qed.

  Lemma nodes_local_weaken A : nodes_ok' local A -> nodes_ok' (fun L => wf L = true -> local L) A.
  Proof. apply nodes_ok'_impl. intros L H _. exact H. Qed.

  Theorem local_tree A : wf A = true -> nodes_ok' local A -> local A.
  Proof. intros Hwf Hn. apply local_tree_wf; [exact Hwf | apply nodes_local_weaken; exact Hn]. Qed.

  Theorem den_retab_eq A : wf A = true -> nodes_ok' local A ->
    forall x o, inbox (oshape_of A) o -> den (R:=R) arr scal orc retab A x o = D A x o.
  Proof. intros Hwf Hn. apply den_retab_eq_wf; [exact Hwf | apply nodes_local_weaken; exact Hn]. Qed.

  (* ... and it too only depends on the input inside the box *)
  Theorem den_retab_local A : wf A = true -> nodes_ok' local A ->
    forall x x', agree (ishape_of A) x x' -> forall o, inbox (oshape_of A) o ->
      den (R:=R) arr scal orc retab A x o = den (R:=R) arr scal orc retab A x' o.
  Proof.
    intros Hwf Hn x x' Hx o Ho. rewrite !den_retab_eq by assumption. apply (local_tree A Hwf Hn); assumption.
  Qed.
End Retab.

(* ======================================================================== locality of the leaf classes *)
Lemma inbox_remF d ax s idx : inbox s idx -> inbox (remF d ax s) (remF d ax idx).
Proof.
  revert d idx; induction s as [|n s IH]; intros d [|k idx]; simpl; try tauto.
  intros [Hk Hb]. destruct (memZ d ax); simpl; auto.
Qed.

Lemma inbox_merge_axes d ax s o k :
  inbox (remF d ax s) o -> inbox (keepF d ax s) k -> inbox s (merge_axes d s ax o k).
Proof.
  revert d o k; induction s as [|n s IH]; intros d o k; simpl; [auto|].
  destruct (memZ d ax).
  - destruct k as [|kk k]; simpl; [tauto|]. intros Ho [Hkk Hk]. split; [exact Hkk | apply IH; assumption].
  - destruct o as [|oo o]; simpl; [tauto|]. intros [Hoo Ho] Hk. split; [exact Hoo | apply IH; assumption].
Qed.

Lemma In_enum_box s k : In k (enum_box s) -> inbox s k.
Proof.
  revert k; induction s as [|n s IH]; intros k; simpl.
  - intros [<-|[]]. exact I.
  - intros H. apply in_flat_map in H. destruct H as (i & Hi & Hk). apply in_map_iff in Hk.
    destruct Hk as (k' & <- & Hk'). apply zrange_in in Hi; [|lia]. simpl. split; [lia | apply IH; exact Hk'].
Qed.

Lemma bcast_inbox ie me o ov : ax3 ie me o -> inbox o ov -> inbox ie (zip2 msk1 ie ov).
Proof.
  revert me o ov; induction ie as [|a ie IH]; intros [|m me] [|b o] [|k ov]; simpl; try tauto.
  intros [(Ha & Hb & Hbc) Hax] [Hk Hov]. split; [|apply (IH me o); assumption].
  unfold msk1, bcast_dim in *. destruct (Z.eqb_spec a 1); [lia|].
  destruct (Z.eqb_spec a m); [lia|]. destruct (Z.eqb_spec m 1); simpl in Hbc; [lia|discriminate].
Qed.

Section LocalLeaves.
  Variable R : StarRing.
  Add Ring RringLL2 : (SRth R).
  Notation farr := (list Z -> R).
  Variable arr : Z -> farr.
  Variable scal : Z -> R.
  Variable orc : linop -> farr -> farr.
  Notation D := (D R arr scal orc).
  Notation local := (local R arr scal orc).
  Notation agree := (agree R).
  Local Open Scope sr_scope.

  (* ---- generic shapes of local functions ---- *)
  Lemma agree_reindex si so (f : list Z -> list Z) (x x' : farr) :
    (forall o, inbox so o -> inbox si (f o)) -> agree si x x' -> agree so (fun o => x (f o)) (fun o => x' (f o)).
  Proof. intros Hf Hx o Ho. apply Hx. apply Hf. exact Ho. Qed.

  Lemma agree_gatherN si so ms ms' (x x' : farr) :
    axes_pbij si so ms ms' -> agree si x x' -> agree so (gatherN ms x) (gatherN ms x').
  Proof.
    intros H Hx o Ho. unfold gatherN. destruct (map_axes ms o) as [i|] eqn:E; [|reflexivity].
    apply Hx. exact (proj1 (axes_pbij_fwd _ _ _ _ H o i Ho E)).
  Qed.

  Lemma agree_reshape s1 s2 (x x' : farr) :
    Forall (fun n => (0 < n)%Z) s1 -> prodZ s1 = prodZ s2 -> agree s1 x x' -> agree s2 (reshape s1 s2 x) (reshape s1 s2 x').
  Proof.
    intros H1 Hp Hx idx Hidx. unfold reshape. apply Hx. exact (proj1 (reshape_index_ok s1 s2 idx H1 Hp Hidx)).
  Qed.


  Theorem local_identity s : wf (Identity s) = true -> local (Identity s).
  Proof.
    intros Hwf. unfold LinopRetab.local, wf, oshape_of, ishape_of in *. cbn [shapes] in *.
    destruct (finish s s) eqn:F; [|discriminate]. apply finish_ok in F. subst. cbn [fst snd].
    intros x x' Hx o Ho. apply Hx. exact Ho.
  Qed.

  Theorem local_reshape o i : wf (Reshape o i) = true -> prodZ o = prodZ i -> local (Reshape o i).
  Proof.
    intros Hwf Hp. unfold LinopRetab.local, wf, oshape_of, ishape_of in *. cbn [shapes] in *.
    destruct (finish o i) eqn:F; [|discriminate]. destruct (finish_pos _ _ _ F) as [Ho Hi].
    apply finish_ok in F. subst. cbn [fst snd].
    intros x x' Hx. unfold LinopTheory.D. cbn [den]. apply agree_reshape; auto.
  Qed.

  Theorem local_transpose_none i : wf (Transpose i None) = true -> local (Transpose i None).
  Proof.
    intros Hwf. unfold LinopRetab.local, wf, oshape_of, ishape_of in *. cbn [shapes] in *.
    destruct (finish (rev i) i) eqn:F; [|discriminate]. apply finish_ok in F. subst. cbn [fst snd].
    intros x x' Hx o Ho. unfold LinopTheory.D. cbn [den den_transpose]. apply Hx.
    rewrite <- (rev_involutive i). apply inbox_rev. exact Ho.
  Qed.

  Theorem local_transpose_some i ax :
    wf (Transpose i (Some ax)) = true -> is_perm (length i) (map (fun a => (a mod lenZ i)%Z) ax) ->
    local (Transpose i (Some ax)).
  Proof.
    intros Hwf H. unfold LinopRetab.local, wf, oshape_of, ishape_of in *. cbn [shapes] in *.
    destruct (finish (map (fun a => getZ i (a mod lenZ i)) ax) i) eqn:F; [|discriminate].
    apply finish_ok in F. subst. cbn [fst snd].
    intros x x' Hx o Ho. unfold LinopTheory.D. cbn [den den_transpose].
    set (pn := map (fun a => (a mod lenZ i)%Z) ax) in *.
    pose proof (argsort_inv_perm _ _ H) as Hok. fold (lenZ i) in Hok.
    rewrite <- (map_map (fun a => (a mod lenZ i)%Z) (fun a => getZ i a) ax) in Ho. fold pn in Ho.
    assert (Lo : lenZ o = lenZ i).
    { apply inbox_length in Ho. rewrite map_length in Ho. destruct Hok as (Lp & _). unfold lenZ in *. lia. }
    pose proof (transpose_idx_eq (lenZ i) pn (argsort pn) o Hok Lo) as E. unfold lookupZ in E.
    apply Hx. rewrite E. apply (permidx_inbox_fwd i pn (argsort pn) o Hok Ho).
  Qed.

  Theorem local_flip s ax : wf (Flip s ax) = true -> local (Flip s ax).
  Proof.
    intros Hwf. unfold LinopRetab.local, wf, oshape_of, ishape_of in *. cbn [shapes] in *.
    destruct (finish s s) eqn:F; [|discriminate]. destruct (finish_pos _ _ _ F) as [Hp _].
    apply finish_ok in F. subst. cbn [fst snd].
    intros x x' Hx. unfold LinopTheory.D. cbn [den]. unfold flip, mapi.
    eapply agree_gatherN; [apply flip_axes_pbij; exact Hp | exact Hx].
  Qed.

  Theorem local_downsample i f sh :
    wf (Downsample i f sh) = true -> length f = length i -> length sh = length i ->
    Forall (fun v => (0 < v)%Z) f -> Forall (fun v => (0 <= v)%Z) sh -> local (Downsample i f sh).
  Proof.
    intros Hwf L1 L2 F1 F2. unfold LinopRetab.local, wf, oshape_of, ishape_of in *. cbn [shapes] in *.
    destruct (finish (ds_shape i f sh) i) eqn:F; [|discriminate]. apply finish_ok in F. subst. cbn [fst snd].
    intros x x' Hx. unfold LinopTheory.D. cbn [den]. unfold downsample.
    eapply agree_gatherN; [apply down_up_axes_pbij; assumption | exact Hx].
  Qed.

  Theorem local_upsample o f sh :
    wf (Upsample o f sh) = true -> length f = length o -> length sh = length o ->
    Forall (fun v => (0 < v)%Z) f -> Forall (fun v => (0 <= v)%Z) sh -> local (Upsample o f sh).
  Proof.
    intros Hwf L1 L2 F1 F2. unfold LinopRetab.local, wf, oshape_of, ishape_of in *. cbn [shapes] in *.
    destruct (finish o (ds_shape o f sh)) eqn:F; [|discriminate]. apply finish_ok in F. subst. cbn [fst snd].
    intros x x' Hx. unfold LinopTheory.D. cbn [den]. unfold upsample.
    eapply agree_gatherN; [apply axes_pbij_sym; apply down_up_axes_pbij; assumption | exact Hx].
  Qed.

  Theorem local_circshift s sh ax : wf (Circshift s sh ax) = true -> local (Circshift s sh ax).
  Proof.
    intros Hwf. unfold LinopRetab.local, wf, oshape_of, ishape_of in *. cbn [shapes] in *.
    destruct (finish s s) eqn:F; [|discriminate]. destruct (finish_pos _ _ _ F) as [Hp _].
    apply finish_ok in F. subst. cbn [fst snd].
    intros x x' Hx o Ho. unfold LinopTheory.D. cbn [den]. unfold circshift.
    rewrite !circshift_loop_closed by assumption. apply Hx.
    apply rollidx_inbox; [exact Hp | apply inbox_length; exact Ho].
  Qed.

  Theorem local_slice i idx : wf (Slice i idx) = true -> local (Slice i idx).
  Proof.
    intros Hwf. unfold LinopRetab.local, wf, oshape_of, ishape_of in *. cbn [shapes] in *.
    destruct (slice_shape i idx) as [so|] eqn:Es; [|discriminate]. cbn [bind] in *.
    destruct (finish so i) eqn:F; [|discriminate]. destruct (finish_pos _ _ _ F) as [_ Hi].
    apply finish_ok in F. subst. cbn [fst snd].
    intros x x' Hx o Ho. unfold LinopTheory.D. cbn [den]. apply Hx.
    exact (proj1 (slice_fwd i Hi idx so o Es Ho)).
  Qed.

  Theorem local_embed o idx : wf (Embed o idx) = true -> local (Embed o idx).
  Proof.
    intros Hwf. unfold LinopRetab.local, wf, oshape_of, ishape_of in *. cbn [shapes] in *.
    destruct (slice_shape o idx) as [si|] eqn:Es; [|discriminate]. cbn [bind] in *.
    destruct (finish o si) eqn:F; [|discriminate]. destruct (finish_pos _ _ _ F) as [Hpo _].
    apply finish_ok in F. subst. cbn [fst snd].
    intros x x' Hx p Hp. unfold LinopTheory.D. cbn [den].
    destruct (embed_lookup o idx p) as [k|] eqn:E; [|reflexivity]. apply Hx.
    exact (proj1 (slice_bwd o Hpo idx si p k Es Hp E)).
  Qed.

  Theorem local_sum i axes : wf (Sum i axes) = true -> local (Sum i axes).
  Proof.
    intros Hwf. unfold LinopRetab.local, wf, oshape_of, ishape_of in *. cbn [shapes] in *.
    destruct (finish (remove_axes i (norm_axes_list axes (lenZ i))) i) eqn:F; [|discriminate].
    apply finish_ok in F. subst. cbn [fst snd].
    intros x x' Hx o Ho. unfold LinopTheory.D. cbn [den]. rewrite !den_sum_eq. rewrite remove_axes_remF in Ho.
    f_equal. apply map_ext_in. intros k Hk. apply Hx.
    apply inbox_merge_axes; [exact Ho | apply In_enum_box; exact Hk].
  Qed.

  Theorem local_tile o axes : wf (Tile o axes) = true -> local (Tile o axes).
  Proof.
    intros Hwf. unfold LinopRetab.local, wf, oshape_of, ishape_of in *. cbn [shapes] in *.
    destruct (finish o (remove_axes o (norm_axes_list axes (lenZ o)))) eqn:F; [|discriminate].
    apply finish_ok in F. subst. cbn [fst snd].
    intros x x' Hx p Hp. unfold LinopTheory.D. cbn [den].
    rewrite !den_tile_eq by (apply inbox_length; exact Hp). apply Hx.
    rewrite remove_axes_remF. apply inbox_remF. exact Hp.
  Qed.

  Theorem local_resize o i isf osf :
    wf (Resize o i isf osf) = true ->
    shift_ok (Nat.max (length i) (length o)) isf -> shift_ok (Nat.max (length i) (length o)) osf ->
    local (Resize o i isf osf).
  Proof.
    intros Hwf Hsi Hso. unfold LinopRetab.local, wf, oshape_of, ishape_of in *. cbn [shapes] in *.
    destruct (finish o i) eqn:F; [|discriminate]. destruct (finish_pos _ _ _ F) as [Ho Hi].
    apply finish_ok in F. subst. cbn [fst snd].
    intros x x' Hx. unfold LinopTheory.D. cbn [den]. unfold resize.
    destruct (expand_shapes_facts i o Hi Ho) as (P1 & P2 & E1 & E2 & L1 & L2).
    destruct (expand_shapes i o) as [i1 o1]. cbn [fst snd] in *.
    assert (Hgen : forall si so, length si = length i1 -> length so = length i1 ->
              Forall (fun v => (0 <= v)%Z) si -> Forall (fun v => (0 <= v)%Z) so ->
              agree o (reshape o1 o (gatherN (zip4 resize_ax i1 o1 si so) (reshape i i1 x)))
                      (reshape o1 o (gatherN (zip4 resize_ax i1 o1 si so) (reshape i i1 x')))).
    { intros si so Ls1 Ls2 F1 F2. apply agree_reshape; [exact P2 | exact E2 |].
      eapply agree_gatherN; [apply zip4_resize_pbij; try assumption; lia |].
      apply agree_reshape; [exact Hi | symmetry; exact E1 | exact Hx]. }
    assert (Ld1 : length (default_ishift i1 o1) = length i1) by (apply zip2_length; lia).
    assert (Ld2 : length (default_oshift i1 o1) = length i1) by (apply zip2_length; lia).
    assert (Nd1 : Forall (fun v => (0 <= v)%Z) (default_ishift i1 o1)) by apply zip2_max0_nonneg.
    assert (Nd2 : Forall (fun v => (0 <= v)%Z) (default_oshift i1 o1)) by apply zip2_max0_nonneg.
    destruct isf as [si|], osf as [so|]; cbn [shift_ok] in *; rewrite ?andb_false_r.
    - destruct Hsi, Hso. apply Hgen; auto; lia.
    - destruct Hsi. apply Hgen; auto; lia.
    - destruct Hso. apply Hgen; auto; lia.
    - rewrite andb_true_r. destruct (zlist_eqb i1 o1) eqn:E.
      + apply zlist_eqb_spec in E. subst o1. apply agree_reshape; [exact Hi | lia | exact Hx].
      + apply Hgen; auto.
  Qed.

  Theorem local_multiply i m c : wf (Multiply i m c) = true -> local (Multiply i m c).
  Proof.
    intros Hwf. destruct (wf_multiply i m c Hwf) as (Hpi & o & Ho & Hpo & Hsh).
    destruct (multiply_wf_facts i (mshape_of m) Hpi o Ho) as [Eo Hax].
    unfold LinopRetab.local, oshape_of, ishape_of. rewrite Hsh. cbn [fst snd].
    intros x x' Hx ov Hov. rewrite !D_multiply_gen. f_equal. apply Hx.
    unfold bcast_index. rewrite mul_ie_len. rewrite Eo in Hov.
    pose proof (bcast_inbox _ _ _ ov Hax Hov) as Hz. rewrite mul_ie_eq in Hz at 1.
    exact (proj1 (ones_prefix _ _ _ Hz)).
  Qed.

  (* the input entry read by a (Right)MatMul: batch index broadcast against ib, then the two matrix axes *)
  Lemma matmul_input_inbox i ms ib mb ob U V (bv : list Z) u v :
    mul_ie i ms = ib ++ [U; V] -> ax3 ib mb ob -> (0 < U)%Z -> (0 < V)%Z ->
    inbox ob bv -> (0 <= u < U)%Z -> (0 <= v < V)%Z ->
    inbox i (bcast_index (ib ++ [U; V]) (length ib + 2 - length i) (bv ++ [u; v])).
  Proof.
    intros Eie Hax HU HV Hbv Hu Hv.
    destruct (ax3_app2 ib mb ob U V Hax HU HV) as [Hax2 _].
    assert (Hidx : inbox (ob ++ [U; V]) (bv ++ [u; v])) by (apply LinopLeavesA.inbox_app; [exact Hbv | simpl; auto]).
    pose proof (bcast_inbox _ _ _ _ Hax2 Hidx) as Hz.
    assert (Ed : (length ib + 2 - length i)%nat = (Nat.max (length i) (length ms) - length i)%nat).
    { rewrite <- (mul_ie_len i ms), Eie, app_length. reflexivity. }
    unfold bcast_index. rewrite Ed. rewrite <- Eie in Hz at 1. rewrite mul_ie_eq in Hz.
    exact (proj1 (ones_prefix _ _ _ Hz)).
  Qed.

  Theorem local_matmul i a aj : wf (MatMul i a aj) = true -> local (MatMul i a aj).
  Proof.
    intros Hwf. set (ms := ashape_of a).
    assert (Hw : all_pos i = true /\ exists o, matmul_oshape i ms aj = Ok o /\ shapes (MatMul i a aj) = Ok (o, i)).
    { unfold wf in Hwf. cbn [shapes] in *. fold ms in Hwf |- *. destruct (matmul_oshape i ms aj) as [o|]; [|discriminate].
      cbn [bind] in *. unfold finish in *. destruct (all_pos o && all_pos i) eqn:E; [|discriminate].
      apply andb_true_iff in E. destruct E. split; [assumption|]. exists o. auto. }
    destruct Hw as (Hpi & o & Ho & Hsh).
    destruct (matmul_oshape_split i ms aj o Hpi Ho) as (ib & mb & ob & K & C & Rr & Eie & Eme & Hax & Eo & HK & HC).
    subst o. destruct (ax3_len _ _ _ Hax) as [L1 L2].
    unfold LinopRetab.local, oshape_of, ishape_of. rewrite Hsh. cbn [fst snd].
    intros x x' Hx ov Hov. rewrite !(D_matmul_left R arr scal orc i a aj ib K C _ ov Eie). cbv zeta.
    rewrite L1. destruct (inbox_last2 ob Rr C ov Hov) as (Hbv & Hr & Hc & _).
    apply sumZ_ext. intros k Hk. f_equal. apply Hx.
    pose proof (matmul_input_inbox i ms ib mb ob K C _ k _ Eie Hax HK HC Hbv Hk Hc) as H.
    rewrite L1 in H. exact H.
  Qed.

  Theorem local_right_matmul i a aj : wf (RightMatMul i a aj) = true -> local (RightMatMul i a aj).
  Proof.
    intros Hwf. set (ms := ashape_of a).
    assert (Hw : all_pos i = true /\ exists o, right_matmul_oshape i ms aj = Ok o /\ shapes (RightMatMul i a aj) = Ok (o, i)).
    { unfold wf in Hwf. cbn [shapes] in *. fold ms in Hwf |- *. destruct (right_matmul_oshape i ms aj) as [o|]; [|discriminate].
      cbn [bind] in *. unfold finish in *. destruct (all_pos o && all_pos i) eqn:E; [|discriminate].
      apply andb_true_iff in E. destruct E. split; [assumption|]. exists o. auto. }
    destruct Hw as (Hpi & o & Ho & Hsh).
    destruct (right_matmul_oshape_split i ms aj o Hpi Ho) as (ib & mb & ob & K & C & Rr & Eie & Eme & Hax & Eo & HK & HR).
    subst o. destruct (ax3_len _ _ _ Hax) as [L1 L2].
    unfold LinopRetab.local, oshape_of, ishape_of. rewrite Hsh. cbn [fst snd].
    intros x x' Hx ov Hov. rewrite !(D_matmul_right R arr scal orc i a aj ib Rr K _ ov Eie). cbv zeta.
    rewrite L1. destruct (inbox_last2 ob Rr C ov Hov) as (Hbv & Hr & Hc & _).
    apply sumZ_ext. intros k Hk. f_equal. apply Hx.
    pose proof (matmul_input_inbox i ms ib mb ob Rr K _ _ k Eie Hax HR HK Hbv Hr Hk) as H.
    rewrite L1 in H. exact H.
  Qed.

  (* ---- library-backed leaves: local iff the oracle is ---- *)
  Definition orc_local (L : linop) : Prop :=
    forall x x', agree (ishape_of L) x x' -> forall o, inbox (oshape_of L) o -> orc L x o = orc L x' o.

  Lemma local_library L : library_backed L = true -> orc_local L -> local L.
  Proof. intros HL H. destruct L; try discriminate HL; exact H. Qed.
End LocalLeaves.

(* ======================================================================== loop nests that agree along the executed path *)
Section NestAgree.
  Variable R : Ops.

  (* same control (ranges, lets, guards, targets) and equal right-hand sides in every environment the
     execution from [e] actually reaches (inside the ranges, under the guards) *)
  Fixpoint nest_agree (n1 n2 : nest R) (e : env) : Prop :=
    match n1, n2 with
    | For lo hi st b1, For lo' hi' st' b2 =>
        lo e = lo' e /\ hi e = hi' e /\ st e = st' e /\
        forall v, In v (zrange (lo e) (hi e) (st e)) -> nest_agree b1 b2 (v :: e)
    | LetZ x b1, LetZ x' b2 => x e = x' e /\ nest_agree b1 b2 (x e :: e)
    | If c b1, If c' b2 => c e = c' e /\ (c e = true -> nest_agree b1 b2 e)
    | Seq p1 q1, Seq p2 q2 => nest_agree p1 p2 e /\ nest_agree q1 q2 e
    | Skip, Skip => True
    | Accum t1 r1, Accum t2 r2 => t1 e = t2 e /\ r1 e = r2 e
    | Assign t1 r1, Assign t2 r2 => t1 e = t2 e /\ r1 e = r2 e
    | _, _ => False
    end.

  Theorem exec_agree n1 : forall n2 e, nest_agree n1 n2 e ->
    forall out1 out2 : list Z -> R, (forall o, out1 o = out2 o) -> forall o, exec n1 e out1 o = exec n2 e out2 o.
  Proof.
    induction n1 as [lo hi st b1 IH|x b1 IH|c b1 IH|p1 IHp q1 IHq| |t1 r1|t1 r1];
      intros [lo' hi' st' b2|x' b2|c' b2|p2 q2| |t2 r2|t2 r2] e H out1 out2 Hout o; cbn [nest_agree] in H; try contradiction;
      cbn [exec].
    - destruct H as (E1 & E2 & E3 & Hb). rewrite <- E1, <- E2, <- E3.
      revert out1 out2 Hout o Hb. generalize (zrange (lo e) (hi e) (st e)) as l.
      induction l as [|v l IHl]; intros out1 out2 Hout o Hb; cbn [fold_left]; [apply Hout|].
      apply IHl; [| intros w Hw; apply Hb; right; exact Hw].
      intros o'. apply IH; [apply Hb; left; reflexivity | exact Hout].
    - destruct H as [E H]. rewrite <- E. apply IH; assumption.
    - destruct H as [E H]. rewrite <- E. destruct (c e); [apply IH; auto | apply Hout].
    - destruct H as [H1 H2]. apply IHq; [exact H2|]. intros o'. apply IHp; assumption.
    - apply Hout.
    - destruct H as [E1 E2]. rewrite <- E1, <- E2. unfold upd. destruct (idx_eqb (t1 e) o); rewrite ?Hout; reflexivity.
    - destruct H as [E1 E2]. rewrite <- E1, <- E2. unfold upd. destruct (idx_eqb (t1 e) o); rewrite ?Hout; reflexivity.
  Qed.

  Lemma na_for lo hi st b1 b2 e :
    (forall v, In v (zrange (lo e) (hi e) (st e)) -> nest_agree b1 b2 (v :: e)) ->
    nest_agree (For lo hi st b1) (For lo hi st b2) e.
  Proof. intros H. cbn [nest_agree]. auto. Qed.

  Lemma na_let x b1 b2 e : nest_agree b1 b2 (x e :: e) -> nest_agree (LetZ x b1) (LetZ x b2) e.
  Proof. intros H. cbn [nest_agree]. auto. Qed.

  Lemma na_if c b1 b2 e : (c e = true -> nest_agree b1 b2 e) -> nest_agree (If c b1) (If c b2) e.
  Proof. intros H. cbn [nest_agree]. auto. Qed.

  Lemma na_accum t r1 r2 e : r1 e = r2 e -> nest_agree (Accum t r1) (Accum t r2) e.
  Proof. intros H. cbn [nest_agree]. auto. Qed.

  Lemma na_assign t r1 r2 e : r1 e = r2 e -> nest_agree (Assign t r1) (Assign t r2) e.
  Proof. intros H. cbn [nest_agree]. auto. Qed.
End NestAgree.

Lemma zrange_unit_in lo hi v : In v (zrange lo hi 1) -> lo <= v < hi.
Proof. intros H. apply zrange_in in H; [tauto | lia]. Qed.

Lemma zrange_step_in lo hi st v : In v (zrange lo hi st) -> lo <= v < hi /\ 0 < st.
Proof.
  intros H. destruct (Z.leb_spec st 0) as [Hs|Hs].
  - unfold zrange in H. destruct (Z.leb_spec st 0); [contradiction | lia].
  - apply zrange_in in H; [tauto | lia].
Qed.

Lemma guard2 a lo hi : (a >=? lo) && (a <? hi) = true -> lo <= a < hi.
Proof. intros H. apply andb_true_iff in H. destruct H as [H1 H2]. apply Z.geb_le in H1. apply Z.ltb_lt in H2. lia. Qed.

Ltac for_step v H := apply na_for; intros v H; cbv beta zeta in H; cbn [var nth] in H.
Ltac let_step := apply na_let; cbv beta zeta; cbn [var nth].
Ltac if_step H := apply na_if; intros H; cbv beta zeta in H; cbn [var nth] in H.

Section KernelAgree.
  Variable R : Ops.
  Variables x x' : list Z -> R.

  Lemma a2b1_agree n bs B S N : 0 <= S ->
    (forall b ix, 0 <= b < bs -> 0 <= ix < n -> x [b; ix] = x' [b; ix]) ->
    forall osh, nest_agree R (k_array_to_blocks1 R x [bs; n] osh bs B S N) (k_array_to_blocks1 R x' [bs; n] osh bs B S N) [].
  Proof.
    intros HS H osh. unfold k_array_to_blocks1.
    for_step b Hb. for_step nx Hnx. for_step bx Hbx. let_step. if_step Hg. first [apply na_assign | apply na_accum]; cbv beta zeta; cbn [var nth].
   
    apply zrange_unit_in in Hb, Hnx, Hbx. change (shape_at [bs; n] (-1)) with n in Hg. apply Z.ltb_lt in Hg.
    apply H; [lia | nia].
  Qed.

  Lemma a2b2_agree ny nx bs B0 B1 S0 S1 N0 N1 : 0 <= S0 -> 0 <= S1 ->
    (forall b iy ix, 0 <= b < bs -> 0 <= iy < ny -> 0 <= ix < nx -> x [b; iy; ix] = x' [b; iy; ix]) ->
    forall osh, nest_agree R (k_array_to_blocks2 R x [bs; ny; nx] osh bs B0 B1 S0 S1 N0 N1)
                           (k_array_to_blocks2 R x' [bs; ny; nx] osh bs B0 B1 S0 S1 N0 N1) [].
  Proof.
    intros HS0 HS1 H osh. unfold k_array_to_blocks2.
    for_step b Hb. for_step vny Hny. for_step vnx Hnx. for_step vby Hby. for_step vbx Hbx.
    let_step. let_step. if_step Hg. first [apply na_assign | apply na_accum]; cbv beta zeta; cbn [var nth].
    apply zrange_unit_in in Hb, Hny, Hnx, Hby, Hbx.
    change (shape_at [bs; ny; nx] (-1)) with nx in Hg. change (shape_at [bs; ny; nx] (-2)) with ny in Hg.
    apply andb_true_iff in Hg. destruct Hg as [G1 G2]. apply Z.ltb_lt in G1, G2.
    apply H; [lia | nia | nia].
  Qed.

  Lemma a2b3_agree nz ny nx bs B0 B1 B2 S0 S1 S2 N0 N1 N2 : 0 <= S0 -> 0 <= S1 -> 0 <= S2 ->
    (forall b iz iy ix, 0 <= b < bs -> 0 <= iz < nz -> 0 <= iy < ny -> 0 <= ix < nx -> x [b; iz; iy; ix] = x' [b; iz; iy; ix]) ->
    forall osh, nest_agree R (k_array_to_blocks3 R x [bs; nz; ny; nx] osh bs B0 B1 B2 S0 S1 S2 N0 N1 N2)
                           (k_array_to_blocks3 R x' [bs; nz; ny; nx] osh bs B0 B1 B2 S0 S1 S2 N0 N1 N2) [].
  Proof.
    intros HS0 HS1 HS2 H osh. unfold k_array_to_blocks3.
    for_step b Hb. for_step vnz Hnz. for_step vny Hny. for_step vnx Hnx. for_step vbz Hbz. for_step vby Hby. for_step vbx Hbx.
    let_step. let_step. let_step. if_step Hg. first [apply na_assign | apply na_accum]; cbv beta zeta; cbn [var nth].
    apply zrange_unit_in in Hb, Hnz, Hny, Hnx, Hbz, Hby, Hbx.
    change (shape_at [bs; nz; ny; nx] (-1)) with nx in Hg. change (shape_at [bs; nz; ny; nx] (-2)) with ny in Hg.
    change (shape_at [bs; nz; ny; nx] (-3)) with nz in Hg.
    apply andb_true_iff in Hg. destruct Hg as [Hg G3]. apply andb_true_iff in Hg. destruct Hg as [G1 G2].
    apply Z.ltb_lt in G1, G2, G3.
    apply H; [lia | nia | nia | nia].
  Qed.

  Lemma b2a1_agree n bs B S N :
    (forall b vn vb, 0 <= b < bs -> 0 <= vn < N -> 0 <= vb < B -> x [b; vn; vb] = x' [b; vn; vb]) ->
    forall ish, nest_agree R (k_blocks_to_array1 R x ish [bs; n] bs B S N) (k_blocks_to_array1 R x' ish [bs; n] bs B S N) [].
  Proof.
    intros H ish. unfold k_blocks_to_array1.
    for_step b Hb. for_step ix Hix. let_step. for_step bx Hbx. let_step. if_step Hg. first [apply na_assign | apply na_accum]; cbv beta zeta; cbn [var nth].
    apply zrange_unit_in in Hb, Hix. apply zrange_step_in in Hbx. destruct Hbx as [Hbx HS].
    apply guard2 in Hg. pose proof (Z.mod_pos_bound ix S HS).
    apply H; lia.
  Qed.

  Lemma b2a2_agree ny nx bs B0 B1 S0 S1 N0 N1 :
    (forall b vny vnx vby vbx, 0 <= b < bs -> 0 <= vny < N1 -> 0 <= vnx < N0 -> 0 <= vby < B1 -> 0 <= vbx < B0 ->
       x [b; vny; vnx; vby; vbx] = x' [b; vny; vnx; vby; vbx]) ->
    forall ish, nest_agree R (k_blocks_to_array2 R x ish [bs; ny; nx] bs B0 B1 S0 S1 N0 N1)
                           (k_blocks_to_array2 R x' ish [bs; ny; nx] bs B0 B1 S0 S1 N0 N1) [].
  Proof.
    intros H ish. unfold k_blocks_to_array2.
    for_step b Hb. for_step iy Hiy. let_step. for_step ix Hix. let_step. for_step vby Hby. let_step. if_step Hgy.
    for_step vbx Hbx. let_step. if_step Hgx. first [apply na_assign | apply na_accum]; cbv beta zeta; cbn [var nth].
    apply zrange_unit_in in Hb, Hiy, Hix.
    apply zrange_step_in in Hby, Hbx. destruct Hby as [Hby HSy]. destruct Hbx as [Hbx HSx].
    apply guard2 in Hgy, Hgx. pose proof (Z.mod_pos_bound iy S1 HSy). pose proof (Z.mod_pos_bound ix S0 HSx).
    apply H; lia.
  Qed.

  Lemma b2a3_agree nz ny nx bs B0 B1 B2 S0 S1 S2 N0 N1 N2 :
    (forall b vnz vny vnx vbz vby vbx, 0 <= b < bs -> 0 <= vnz < N2 -> 0 <= vny < N1 -> 0 <= vnx < N0 ->
       0 <= vbz < B2 -> 0 <= vby < B1 -> 0 <= vbx < B0 ->
       x [b; vnz; vny; vnx; vbz; vby; vbx] = x' [b; vnz; vny; vnx; vbz; vby; vbx]) ->
    forall ish, nest_agree R (k_blocks_to_array3 R x ish [bs; nz; ny; nx] bs B0 B1 B2 S0 S1 S2 N0 N1 N2)
                           (k_blocks_to_array3 R x' ish [bs; nz; ny; nx] bs B0 B1 B2 S0 S1 S2 N0 N1 N2) [].
  Proof.
    intros H ish. unfold k_blocks_to_array3.
    for_step b Hb. for_step iz Hiz. for_step iy Hiy. for_step ix Hix. let_step. let_step. let_step.
    for_step vbz Hbz. for_step vby Hby. for_step vbx Hbx. let_step. let_step. let_step. if_step Hg. first [apply na_assign | apply na_accum]; cbv beta zeta; cbn [var nth].
    apply zrange_unit_in in Hb, Hiz, Hiy, Hix.
    apply zrange_step_in in Hbz, Hby, Hbx. destruct Hbz as [Hbz HSz]. destruct Hby as [Hby HSy]. destruct Hbx as [Hbx HSx].
    apply andb_true_iff in Hg. destruct Hg as [Hg G6]. apply andb_true_iff in Hg. destruct Hg as [Hg G5].
    apply andb_true_iff in Hg. destruct Hg as [Hg G4]. apply andb_true_iff in Hg. destruct Hg as [Hg G3].
    apply andb_true_iff in Hg. destruct Hg as [G1 G2].
    apply Z.geb_le in G1, G3, G5. apply Z.ltb_lt in G2, G4, G6.
    pose proof (Z.mod_pos_bound iz S2 HSz). pose proof (Z.mod_pos_bound iy S1 HSy). pose proof (Z.mod_pos_bound ix S0 HSx).
    apply H; lia.
  Qed.
End KernelAgree.

Lemma lastn_len {A} (l r : list A) n : n = length r -> lastn n (l ++ r) = r.
Proof. intros ->. apply lastn_app'. Qed.
Lemma droplast_len {A} (l r : list A) n : n = length r -> droplast n (l ++ r) = l.
Proof. intros ->. apply droplast_app'. Qed.

Lemma last3_split (l : list Z) : (3 <= length l)%nat -> exists p u v w, l = p ++ [u; v; w].
Proof.
  intros H. destruct (last1_split l) as (q & w & ->); [destruct l; [simpl in H; lia | discriminate]|].
  rewrite app_length in H. simpl in H.
  destruct (last2_split q) as (p & u & v & ->); [lia|].
  exists p, u, v, w. rewrite <- app_assoc. reflexivity.
Qed.

Lemma unravel_app_inbox bat t b idx : Forall (fun n => 0 < n) bat -> 0 <= b < prodZ bat -> inbox t idx ->
  inbox (bat ++ t) (unravel bat b ++ idx).
Proof.
  intros Hp Hb Hi. apply LinopLeavesA.inbox_app; [|exact Hi]. exact (proj2 (ravel_unravel bat b Hp Hb)).
Qed.

Section BlockLocal.
  Variable R : StarRing.
  Notation farr := (list Z -> R).
  Variable arr : Z -> farr.
  Variable scal : Z -> R.
  Variable orc : linop -> farr -> farr.
  Notation D := (D R arr scal orc).
  Notation local := (local R arr scal orc).
  Notation agree := (agree R).

  (* ArrayToBlocks with 1, 2 or 3 block axes (any batch shape), through the generated kernels:
     the kernel reads input[b, n*S + t] only under its bounds guard; nonnegative strides keep the index >= 0 *)
  Theorem local_array_to_blocks i b s :
    wf (ArrayToBlocks i b s) = true -> (length b <= length i)%nat -> Forall (fun v => 0 <= v) s ->
    local (ArrayToBlocks i b s).
  Proof.
    intros Hwf Hlen HS. unfold LinopRetab.local, wf, oshape_of, ishape_of in *. cbn [shapes] in *.
    destruct (finish (droplast (length b) i ++ num_blks i b s ++ b) i) eqn:F; [|discriminate].
    destruct (finish_pos _ _ _ F) as [_ Hi]. apply finish_ok in F. subst. cbn [fst snd].
    intros x x' Hx ov Hov. unfold LinopTheory.D. cbn [den]. unfold array_to_blocks.
    destruct (negb (length b =? length s)%nat) eqn:E; [reflexivity|].
    apply negb_false_iff in E. apply Nat.eqb_eq in E.
    destruct b as [|B0 [|B1 [|B2 [|B3 b]]]]; cbn [length] in *; try reflexivity.
    - (* one block axis *)
      destruct s as [|S0 [|? ?]]; try discriminate E. inversion HS as [|? ? HS0 _]; subst.
      destruct (last1_split i) as (bat & n & ->); [destruct i; [simpl in Hlen; lia | discriminate]|].
      apply Forall_app in Hi. destruct Hi as [Hbat _].
      rewrite (droplast_len bat [n] 1 eq_refl), (lastn_len bat [n] 1 eq_refl).
      unfold unflatten_batch. apply exec_agree; [|reflexivity].
      apply a2b1_agree; [exact HS0|]. intros vb ix Hvb Hix. unfold flatten_batch. apply Hx.
      apply unravel_app_inbox; [exact Hbat | exact Hvb | simpl; lia].
    - (* two block axes *)
      destruct s as [|S0 [|S1 [|? ?]]]; try discriminate E.
      inversion HS as [|? ? HS0 HS']; subst. inversion HS' as [|? ? HS1 _]; subst.
      destruct (last2_split i Hlen) as (bat & ny & nx & ->).
      apply Forall_app in Hi. destruct Hi as [Hbat _].
      rewrite (droplast_len bat [ny; nx] 2 eq_refl), (lastn_len bat [ny; nx] 2 eq_refl).
      unfold unflatten_batch. apply exec_agree; [|reflexivity].
      apply a2b2_agree; [exact HS1 | exact HS0 |]. intros vb iy ix Hvb Hiy Hix. unfold flatten_batch. apply Hx.
      apply unravel_app_inbox; [exact Hbat | exact Hvb | simpl; lia].
    - (* three block axes *)
      destruct s as [|S0 [|S1 [|S2 [|? ?]]]]; try discriminate E.
      inversion HS as [|? ? HS0 HS']; subst. inversion HS' as [|? ? HS1 HS'']; subst. inversion HS'' as [|? ? HS2 _]; subst.
      destruct (last3_split i Hlen) as (bat & nz & ny & nx & ->).
      apply Forall_app in Hi. destruct Hi as [Hbat _].
      rewrite (droplast_len bat [nz; ny; nx] 3 eq_refl), (lastn_len bat [nz; ny; nx] 3 eq_refl).
      unfold unflatten_batch. apply exec_agree; [|reflexivity].
      apply a2b3_agree; [exact HS2 | exact HS1 | exact HS0 |]. intros vb iz iy ix Hvb Hiz Hiy Hix. unfold flatten_batch. apply Hx.
      apply unravel_app_inbox; [exact Hbat | exact Hvb | simpl; lia].
  Qed.

  (* BlocksToArray with 1, 2 or 3 block axes: the kernel reads input[b, n, t] only for 0 <= n < N (guard) and
     r <= t < B with r = i mod S >= 0 (range; empty when the stride is not positive) *)
  Theorem local_blocks_to_array o b s :
    wf (BlocksToArray o b s) = true -> (length b <= length o)%nat -> local (BlocksToArray o b s).
  Proof.
    intros Hwf Hlen.
    assert (Hsh : shapes (BlocksToArray o b s) = Ok (o, droplast (length b) o ++ num_blks o b s ++ b) /\
                  Forall (fun n => 0 < n) o).
    { unfold wf in Hwf. cbn [shapes] in *.
      destruct (finish o (droplast (length b) o ++ num_blks o b s ++ b)) eqn:F; [|discriminate].
      destruct (finish_pos _ _ _ F) as [Ho _]. apply finish_ok in F. subst. auto. }
    destruct Hsh as [Hsh Ho].
    unfold LinopRetab.local. intros x x' Hx ov Hov. unfold LinopTheory.D. cbn [den].
    unfold oshape_of, ishape_of in *. rewrite Hsh in *. cbn [fst snd] in *.
    unfold blocks_to_array.
    destruct (negb (length b =? length s)%nat) eqn:E; [reflexivity|].
    apply negb_false_iff in E. apply Nat.eqb_eq in E.
    destruct b as [|B0 [|B1 [|B2 [|B3 b]]]]; cbn [length] in *; try reflexivity.
    - destruct s as [|S0 [|? ?]]; try discriminate E.
      destruct (last1_split o) as (bat & n & ->); [destruct o; [simpl in Hlen; lia | discriminate]|].
      apply Forall_app in Ho. destruct Ho as [Hbat _].
      unfold num_blks in *. cbn [length Nat.mul Nat.add] in *.
      rewrite (droplast_len bat [n] 1 eq_refl), (lastn_len bat [n] 1 eq_refl) in *. cbn [zip3 app] in *.
      set (N0 := (n - B0 + S0) / S0) in *.
      rewrite (lastn_len bat [N0; B0] 2 eq_refl).
      unfold unflatten_batch. apply exec_agree; [|reflexivity].
      apply b2a1_agree. intros vb vn vt Hvb Hvn Hvt. unfold flatten_batch. apply Hx.
      unfold revn in *. cbn [firstn rev app nth] in *.
      apply unravel_app_inbox; [exact Hbat | exact Hvb | simpl; lia].
    - destruct s as [|S0 [|S1 [|? ?]]]; try discriminate E.
      destruct (last2_split o Hlen) as (bat & ny & nx & ->).
      apply Forall_app in Ho. destruct Ho as [Hbat _].
      unfold num_blks in *. cbn [length Nat.mul Nat.add] in *.
      rewrite (droplast_len bat [ny; nx] 2 eq_refl), (lastn_len bat [ny; nx] 2 eq_refl) in *. cbn [zip3 app] in *.
      set (N0 := (ny - B0 + S0) / S0) in *. set (N1 := (nx - B1 + S1) / S1) in *.
      rewrite (lastn_len bat [N0; N1; B0; B1] 4 eq_refl).
      unfold unflatten_batch. apply exec_agree; [|reflexivity].
      apply b2a2_agree. intros vb vny vnx vby vbx Hvb Hvny Hvnx Hvby Hvbx. unfold flatten_batch. apply Hx.
      unfold revn in *. cbn [firstn rev app nth] in *.
      apply unravel_app_inbox; [exact Hbat | exact Hvb | simpl; lia].
    - destruct s as [|S0 [|S1 [|S2 [|? ?]]]]; try discriminate E.
      destruct (last3_split o Hlen) as (bat & nz & ny & nx & ->).
      apply Forall_app in Ho. destruct Ho as [Hbat _].
      unfold num_blks in *. cbn [length Nat.mul Nat.add] in *.
      rewrite (droplast_len bat [nz; ny; nx] 3 eq_refl), (lastn_len bat [nz; ny; nx] 3 eq_refl) in *. cbn [zip3 app] in *.
      set (N0 := (nz - B0 + S0) / S0) in *. set (N1 := (ny - B1 + S1) / S1) in *. set (N2 := (nx - B2 + S2) / S2) in *.
      rewrite (lastn_len bat [N0; N1; N2; B0; B1; B2] 6 eq_refl).
      unfold unflatten_batch. apply exec_agree; [|reflexivity].
      apply b2a3_agree. intros vb vnz vny vnx vbz vby vbx Hvb Hvnz Hvny Hvnx Hvbz Hvby Hvbx. unfold flatten_batch. apply Hx.
      unfold revn in *. cbn [firstn rev app nth] in *.
      apply unravel_app_inbox; [exact Hbat | exact Hvb | simpl; lia].
  Qed.
End BlockLocal.

(* ======================================================================== unconditional corollary *)
(* boolean side conditions under which a leaf is PROVED local (beyond wf):
   - Reshape: equal sizes (wf does not check it; numpy raises at apply otherwise — and the model would read outside);
   - Transpose with axes: the normalised axes are a permutation;
   - Resize: shifts absent or nonnegative of the expanded rank;   - Downsample / Upsample: factors > 0, shifts >= 0, full rank;
   - ArrayToBlocks: at most as many block axes as array axes, strides >= 0 (wf allows a NEGATIVE stride, which makes
     the kernel read negative indices); BlocksToArray: at most as many block axes as array axes (1, 2 or 3 block axes,
     any batch shape — through the generated kernels and exec_agree);
   - Identity, Flip, Circshift, Slice, Embed, Sum, Tile, Transpose(None), Multiply (scalar and array, any broadcast),
     MatMul, RightMatMul: no condition beyond wf. *)
Definition proven_local (L : linop) : bool :=
  match L with
  | Identity _ | Flip _ _ | Circshift _ _ _ | Slice _ _ | Embed _ _ | Sum _ _ | Tile _ _
  | Multiply _ _ _ | MatMul _ _ _ | RightMatMul _ _ _ => true
  | Transpose _ None => true
  | Transpose i (Some ax) => transpose_axes_okb i ax
  | Reshape o i => prodZ o =? prodZ i
  | Resize o i isf osf =>
      shift_okb (Nat.max (length i) (length o)) isf && shift_okb (Nat.max (length i) (length o)) osf
  | Downsample i f sh | Upsample i f sh =>
      Nat.eqb (length f) (length i) && Nat.eqb (length sh) (length i) && pos_all f && nonneg_all sh
  | ArrayToBlocks i b s => Nat.leb (length b) (length i) && nonneg_all s
  | BlocksToArray o b s => Nat.leb (length b) (length o)
  | _ => false
  end.

Section Proven.
  Variable R : StarRing.
  Notation farr := (list Z -> R).
  Variable arr : Z -> farr.
  Variable scal : Z -> R.
  Variable orc : linop -> farr -> farr.
  Notation D := (D R arr scal orc).
  Notation local := (local R arr scal orc).

  Theorem proven_local_spec L : proven_local L = true -> wf L = true -> local L.
  Proof.
    destruct L; cbn [proven_local]; intros Hp Hwf; try discriminate Hp.
    - apply local_identity; exact Hwf.
    - apply local_reshape; [exact Hwf | apply Z.eqb_eq; exact Hp].
    - destruct axes as [ax|]; [| apply local_transpose_none; exact Hwf].
      apply local_transpose_some; [exact Hwf | apply is_permb_spec; exact Hp].
    - apply local_matmul; exact Hwf.
    - apply local_right_matmul; exact Hwf.
    - apply local_multiply; exact Hwf.
    - apply andb_true_iff in Hp. destruct Hp as [H1 H2].
      apply local_resize; [exact Hwf | apply shift_okb_spec; exact H1 | apply shift_okb_spec; exact H2].
    - apply local_flip; exact Hwf.
    - apply andb_true_iff in Hp. destruct Hp as [Hp H4]. apply andb_true_iff in Hp. destruct Hp as [Hp H3].
      apply andb_true_iff in Hp. destruct Hp as [H1 H2]. apply Nat.eqb_eq in H1. apply Nat.eqb_eq in H2.
      apply local_downsample; try assumption.
      + eapply forallb_Forall; [|exact H3]. intros v Hv. apply Z.ltb_lt. exact Hv.
      + eapply forallb_Forall; [|exact H4]. intros v Hv. apply Z.leb_le. exact Hv.
    - apply andb_true_iff in Hp. destruct Hp as [Hp H4]. apply andb_true_iff in Hp. destruct Hp as [Hp H3].
      apply andb_true_iff in Hp. destruct Hp as [H1 H2]. apply Nat.eqb_eq in H1. apply Nat.eqb_eq in H2.
      apply local_upsample; try assumption.
      + eapply forallb_Forall; [|exact H3]. intros v Hv. apply Z.ltb_lt. exact Hv.
      + eapply forallb_Forall; [|exact H4]. intros v Hv. apply Z.leb_le. exact Hv.
    - apply local_circshift; exact Hwf.
    - apply local_sum; exact Hwf.
    - apply local_tile; exact Hwf.
    - apply andb_true_iff in Hp. destruct Hp as [H1 H2]. apply Nat.leb_le in H1.
      apply local_array_to_blocks; [exact Hwf | exact H1 |].
      eapply forallb_Forall; [|exact H2]. intros v Hv. apply Z.leb_le. exact Hv.
    - apply Nat.leb_le in Hp. apply local_blocks_to_array; assumption.
    - apply local_slice; exact Hwf.
    - apply local_embed; exact Hwf.
  Qed.

  (* every leaf is either in a proved class (boolean check) or library-backed with a local oracle *)
  Definition leaf_local_ok (L : linop) : Prop :=
    proven_local L = true \/ (library_backed L = true /\ orc_local R orc L).

  Lemma leaf_local_ok_spec L : leaf_local_ok L -> wf L = true -> local L.
  Proof.
    intros [Hp | [HL Ho]] Hwf; [apply proven_local_spec; assumption | apply local_library; assumption].
  Qed.

  Theorem den_retab_eq_proven A : wf A = true -> nodes_ok' leaf_local_ok A ->
    forall x o, inbox (oshape_of A) o -> den (R:=R) arr scal orc retab A x o = D A x o.
  Proof.
    intros Hwf Hn. apply den_retab_eq_wf; [exact Hwf|].
    eapply nodes_ok'_impl; [|exact Hn]. exact leaf_local_ok_spec.
  Qed.

  Theorem local_tree_proven A : wf A = true -> nodes_ok' leaf_local_ok A -> local A.
  Proof.
    intros Hwf Hn. apply local_tree_wf; [exact Hwf|].
    eapply nodes_ok'_impl; [|exact Hn]. exact leaf_local_ok_spec.
  Qed.

  (* C02 for the executed model: it is linear on the output box (LinopLinear.linear_every_tree transported) *)
  Theorem den_retab_linear A : wf A = true -> nodes_ok' leaf_local_ok A ->
    (forall L, library_backed L = true -> linear R (orc L)) ->
    forall (a : R) x y o, inbox (oshape_of A) o ->
      den (R:=R) arr scal orc retab A (fun i => add (mul a (x i)) (y i)) o =
      add (mul a (den (R:=R) arr scal orc retab A x o)) (den (R:=R) arr scal orc retab A y o).
  Proof.
    intros Hwf Hn Ho a x y o Hb. rewrite !(den_retab_eq_proven A Hwf Hn) by exact Hb.
    apply (linear_every_tree R arr scal orc Ho A).
  Qed.
End Proven.

(* ---- the hypotheses are satisfiable: a tree through every combinator, all leaves in proved classes ---- *)
Definition retab_example : linop :=
  Compose [Vstack [Hstack [Sum [3; 5] [0]; Multiply [5] (MArray (ARef 5 [5])) true] None;
                   Diag [Transpose [5; 2] None; Reshape [2; 5] [10]] None None]
                  (Some 0);
           Reshape [20] [10; 2];
           Add [Identity [10; 2]; Conj (Circshift [10; 2] [1] (Some [0]))];
           BlocksToArray [10; 2] [2; 2] [2; 1]; ArrayToBlocks [10; 2] [2; 2] [2; 1];
           Embed [10; 2] [SSlice None None (Some 2)]; MatMul [4; 2] (ARef 1 [5; 4]) false].

Example retab_example_ok :
  wf retab_example = true /\ oshape_of retab_example = [25] /\ ishape_of retab_example = [4; 2] /\
  forall (R : StarRing) (orc : linop -> (list Z -> R) -> list Z -> R), nodes_ok' (leaf_local_ok R orc) retab_example.
Proof.
  split; [reflexivity|]. split; [reflexivity|]. split; [reflexivity|].
  intros R orc. unfold leaf_local_ok. simpl. intuition.
Qed.
