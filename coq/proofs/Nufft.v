(* proofs/Nufft.v — nufft_adjoint is the exact adjoint of nufft (composition of adjoint pairs), for every
   shape, coordinate set, oversampling factor and width; the oracles (numpy.fft pair, interpolate/gridding pair)
   enter as Section hypotheses. *)
From Coq Require Import ZArith List Lia Bool Ring.
From SV Require Import lib.Scalar lib.BigSum lib.LoopIR lib.NdArray lib.Gather lib.Coord gen.Gen_interp
  model.Rearrange model.Block model.Interp model.Fourier model.Nufft proofs.Rearrange proofs.FourierND.
Import ListNotations.
Local Open Scope Z_scope.

Lemma oversamp_shape_length (C : COps) shape ndim oversamp :
  length (oversamp_shape C shape ndim oversamp) = length shape.
Proof.
  unfold oversamp_shape, droplast, lastn. rewrite app_length, map_length, firstn_length, skipn_length. lia.
Qed.

Lemma expand_shapes_eqlen (a b : list Z) : length a = length b -> expand_shapes a b = (a, b).
Proof. intros H. unfold expand_shapes. rewrite H, Nat.max_id, Nat.sub_diag. reflexivity. Qed.

Lemma zip2_length {A} (f : Z -> Z -> A) a b : length a = length b -> length (zip2 f a b) = length a.
Proof. revert b; induction a as [|x a IH]; intros [|y b] H; simpl in *; try discriminate; [reflexivity|]. f_equal. apply IH. lia. Qed.

Lemma zip2_swap (f g : Z -> Z -> Z) a b : (forall x y, f x y = g y x) -> zip2 f a b = zip2 g b a.
Proof. intros H. revert b; induction a as [|x a IH]; intros [|y b]; simpl; try reflexivity. rewrite H, IH. reflexivity. Qed.

Lemma zip2_nonneg (f : Z -> Z -> Z) a b : (forall x y, 0 <= f x y) -> Forall (fun v => 0 <= v) (zip2 f a b).
Proof. intros H. revert b; induction a as [|x a IH]; intros [|y b]; simpl; constructor; auto. Qed.

Lemma zlist_eqb_sym a b : zlist_eqb a b = zlist_eqb b a.
Proof.
  apply eq_true_iff_eq. rewrite !zlist_eqb_spec. split; congruence.
Qed.

Section Adj.
  Variable R : StarRing.
  Add Ring RringN : (SRth R).
  Local Open Scope sr_scope.
  Notation farr := (list Z -> R).

  Lemma inner_scal_l s (c : R) (a b : farr) : inner s (fun i => c * a i) b = c * inner s a b.
  Proof. unfold inner. rewrite <- sumB_scale. apply sumB_ext. intros; ring. Qed.

  Lemma inner_scal_r s (c : R) (a b : farr) : inner s a (fun i => c * b i) = conj c * inner s a b.
  Proof. unfold inner. rewrite <- sumB_scale. apply sumB_ext. intros. rewrite conj_mul. ring. Qed.

  (* multiplication by a real diagonal is self-adjoint *)
  Lemma inner_diag s (d : farr) (a b : farr) : (forall i, conj (d i) = d i) ->
    inner s (fun i => d i * a i) b = inner s a (fun i => d i * b i).
  Proof. intros H. unfold inner. apply sumB_ext. intros i _. rewrite conj_mul, H. ring. Qed.

  Lemma reshape_same_eqbox s (x : farr) : eqbox s (reshape s s x) x.
  Proof. intros idx Hi. unfold reshape. rewrite unravel_ravel by exact Hi. reflexivity. Qed.

  (* util.resize between two shapes of equal rank and its reverse are adjoint (centred crop <-> zero-pad) *)
  Theorem resize_pair_adjoint s1 s2 (x y : farr) : length s1 = length s2 ->
    inner s2 (resize s1 s2 None None x) y = inner s1 x (resize s2 s1 None None y).
  Proof.
    intros HL. unfold resize.
    rewrite (expand_shapes_eqlen s1 s2 HL), (expand_shapes_eqlen s2 s1 (eq_sym HL)).
    rewrite (zlist_eqb_sym s2 s1).
    destruct (zlist_eqb s1 s2) eqn:E; cbn [andb].
    - apply zlist_eqb_spec in E. subst s2.
      rewrite (inner_eqbox R s1 _ x y y (reshape_same_eqbox s1 x) (eqbox_refl R s1 y)).
      apply inner_eqbox; [apply eqbox_refl| apply eqbox_sym, reshape_same_eqbox].
    - rewrite (inner_eqbox R s2 _ _ y y (reshape_same_eqbox s2 _) (eqbox_refl R s2 y)).
      rewrite (inner_eqbox R s1 x x _ _ (eqbox_refl R s1 x) (reshape_same_eqbox s1 _)).
      rewrite (inner_eqbox R s2 _ (gatherN (zip4 resize_ax s1 s2 (default_ishift s1 s2) (default_oshift s1 s2)) x) y y).
      2:{ intros idx Hidx. unfold gatherN. destruct (map_axes _ idx) as [i|] eqn:Em; [|reflexivity].
          destruct (axes_pbij_fwd _ _ _ _ (zip4_resize_pbij s1 s2 (default_ishift s1 s2) (default_oshift s1 s2) HL
                      (zip2_length _ s1 s2 HL) (zip2_length _ s1 s2 HL)
                      (zip2_nonneg _ s1 s2 (fun a b => Z.le_max_r _ 0)) (zip2_nonneg _ s1 s2 (fun a b => Z.le_max_r _ 0))) idx i)
            as [Hi _]; [assumption|exact Em|]. apply reshape_same_eqbox. exact Hi. }
      2:{ apply eqbox_refl. }
      rewrite (resize_gather_adjoint R s1 s2 (default_ishift s1 s2) (default_oshift s1 s2) HL
                 (zip2_length _ s1 s2 HL) (zip2_length _ s1 s2 HL)
                 (zip2_nonneg _ s1 s2 (fun a b => Z.le_max_r _ 0)) (zip2_nonneg _ s1 s2 (fun a b => Z.le_max_r _ 0))).
      apply inner_eqbox; [apply eqbox_refl|].
      intros idx Hidx. unfold default_ishift, default_oshift.
      rewrite (zip2_swap (fun i o => Z.max (o / 2 - i / 2) 0) (fun i o => Z.max (i / 2 - o / 2) 0) s1 s2) by reflexivity.
      rewrite (zip2_swap (fun i o => Z.max (i / 2 - o / 2) 0) (fun i o => Z.max (o / 2 - i / 2) 0) s1 s2) by reflexivity.
      unfold gatherN. destruct (map_axes _ idx) as [i|] eqn:Em; [|reflexivity].
      symmetry.
      destruct (axes_pbij_fwd _ _ _ _ (zip4_resize_pbij s2 s1 (zip2 (fun i o => Z.max (i / 2 - o / 2) 0) s2 s1)
                      (zip2 (fun i o => Z.max (o / 2 - i / 2) 0) s2 s1) (eq_sym HL)
                      (zip2_length _ s2 s1 (eq_sym HL)) (zip2_length _ s2 s1 (eq_sym HL))
                      (zip2_nonneg _ s2 s1 (fun a b => Z.le_max_r _ 0)) (zip2_nonneg _ s2 s1 (fun a b => Z.le_max_r _ 0))) idx i)
        as [Hi _]; [assumption|exact Em|]. apply reshape_same_eqbox. exact Hi.
  Qed.
End Adj.

Section Main.
  Variable R : StarRing.
  Add Ring RringN2 : (SRth R).
  Local Open Scope sr_scope.
  Notation farr := (list Z -> R).
  Variable C : COps.
  Variable kern : C -> C -> C.
  Variable wt : C -> R.
  Variable csqrt : C -> C.
  Variable cpi : C.
  Variable csinh : C -> C.
  Variable tw : Z -> Z -> R.
  Variable isc inv : Z -> R.
  Hypothesis wt_real : forall c, conj (wt c) = wt c.

  (* the problem: image shape (batch ++ grid), coordinate array shape and values, oversampling, width *)
  Variables (ishape cshape : list Z) (coord : list Z -> C) (oversamp width : C).
  Hypothesis Hish : Forall (fun n => (0 <= n)%Z) ishape.

  Let ndim := Z.to_nat (last cshape 0%Z).
  Let beta := beta_of C csqrt cpi width oversamp.
  Let os_shape := oversamp_shape C ishape ndim oversamp.
  Let N := prodZ (lastn ndim ishape).
  Let M := prodZ (lastn ndim os_shape).
  Let coord2 := scale_coord C cshape ishape oversamp coord.
  Hypothesis Hos : Forall (fun n => (0 <= n)%Z) os_shape.

  (* oracle 1: the interpolate / gridding wrappers succeed on these shapes and are an adjoint pair
     (C07: proved for the generated kernels, 1-D + batch) *)
  Variables (osh : list Z) (I G : farr -> farr).
  Hypothesis HI : forall x, interpolate R C kern wt os_shape cshape coord2 (WScalar C width) (WScalar C beta) x = Ok (osh, I x).
  Hypothesis HG : forall y, gridding R C kern wt osh cshape os_shape coord2 (WScalar C width) (WScalar C beta) y = Ok (G y).
  Hypothesis HIG : forall x y, inner osh (I x) y = inner os_shape x (G y).

  (* oracle 2: numpy's unnormalised centred FFT and its norm=None inverse: F^H = M * F^-1, M = prod(os_shape[-ndim:]) *)
  Variable cM : R.
  Hypothesis HF : forall x y,
    inner os_shape (snd (fftc tw isc inv false false os_shape None (fft_axes ndim) x)) y =
    cM * inner os_shape x (snd (fftc tw isc inv true false os_shape None (fft_axes ndim) y)).
  (* ... and M / sqrt N as a scalar of R is M times 1 / sqrt N *)
  Hypothesis HcM : wt (cdiv (cofZ M) (csqrt (cofZ N))) = cM * wt (cdiv (cofZ 1) (csqrt (cofZ N))).

  Notation apod := (apodize R C wt csqrt cpi csinh).

  Lemma apod_w_real dims ks : conj (apod_w R C wt csqrt cpi csinh oversamp width beta dims ks) =
                              apod_w R C wt csqrt cpi csinh oversamp width beta dims ks.
  Proof.
    revert ks; induction dims as [|i dims IH]; intros [|k ks]; simpl; try apply conj_one.
    rewrite conj_mul, wt_real, IH. reflexivity.
  Qed.

  Definition A (x : farr) : farr :=
    scal R C wt (cdiv (cofZ 1) (cpow C width ndim))
      (I (forceA os_shape (snd (fftc tw isc inv false false os_shape None (fft_axes ndim)
           (forceA os_shape (resize ishape os_shape None None
              (scal R C wt (cdiv (cofZ 1) (csqrt (cofZ N))) (apod ishape ndim oversamp width beta x)))))))).

  Definition AH (y : farr) : farr :=
    apod ishape ndim oversamp width beta
      (scal R C wt (cdiv (cofZ M) (csqrt (cofZ N)))
         (forceA ishape (resize os_shape ishape None None
            (snd (fftc tw isc inv true false os_shape None (fft_axes ndim)
               (forceA os_shape (scal R C wt (cdiv (cofZ 1) (cpow C width ndim)) (G y)))))))).

  Lemma nufft_eval x : nufft R C kern wt csqrt cpi csinh tw isc inv ishape cshape coord oversamp width x = Ok (osh, A x).
  Proof. unfold nufft. fold ndim. fold beta. fold os_shape. fold N. fold coord2. rewrite HI. reflexivity. Qed.

  Lemma nufft_adjoint_eval y :
    nufft_adjoint R C kern wt csqrt cpi csinh tw isc inv osh cshape ishape coord oversamp width y = Ok (ishape, AH y).
  Proof. unfold nufft_adjoint. fold ndim. fold beta. fold os_shape. fold N. fold M. fold coord2. rewrite HG. reflexivity. Qed.

  Theorem nufft_adjoint_exact x y : inner osh (A x) y = inner ishape x (AH y).
  Proof.
    unfold A, AH, scal.
    set (cW := wt (cdiv (cofZ 1) (cpow C width ndim))).
    set (cN := wt (cdiv (cofZ 1) (csqrt (cofZ N)))).
    set (F := fun x => snd (fftc tw isc inv false false os_shape None (fft_axes ndim) x)).
    set (Fi := fun y => snd (fftc tw isc inv true false os_shape None (fft_axes ndim) y)).
    set (ax := apod ishape ndim oversamp width beta x).
    set (g1 := fun idx => cW * G y idx).
    (* interpolation / gridding *)
    rewrite inner_scal_l, HIG.
    transitivity (inner os_shape (F (forceA os_shape (resize ishape os_shape None None (fun idx => cN * ax idx)))) (forceA os_shape g1)).
    { assert (HcW : conj cW = cW) by apply wt_real.
      transitivity (inner os_shape (forceA os_shape (F (forceA os_shape (resize ishape os_shape None None (fun idx => cN * ax idx))))) g1).
      - unfold g1. rewrite inner_scal_r, HcW. reflexivity.
      - apply inner_eqbox; [apply forceA_eqbox; exact Hos | apply eqbox_sym, forceA_eqbox; exact Hos]. }
    (* FFT *)
    unfold F. rewrite HF. fold (Fi (forceA os_shape g1)).
    (* resize *)
    rewrite (inner_eqbox R os_shape _ (resize ishape os_shape None None (fun idx => cN * ax idx)) _ (Fi (forceA os_shape g1))
               (forceA_eqbox R os_shape _ Hos) (eqbox_refl R os_shape _)).
    rewrite resize_pair_adjoint by (symmetry; apply oversamp_shape_length).
    set (t3 := forceA ishape (resize os_shape ishape None None (Fi (forceA os_shape g1)))).
    rewrite (inner_eqbox R ishape _ (fun idx => cN * ax idx) _ t3 (eqbox_refl R ishape _)
               (eqbox_sym R ishape _ _ (forceA_eqbox R ishape _ Hish))).
    (* scalars and apodisation *)
    rewrite inner_scal_l. unfold ax, apodize, inner. rewrite <- !sumB_scale. apply sumB_ext. intros i _.
    rewrite !conj_mul, apod_w_real, wt_real, HcM. fold cN. ring.
  Qed.
End Main.
