(* proofs/Bloch.v — the Bloch-simulator models of model/Bloch.v over the real numbers
   (complex numbers are pairs of reals; the trig oracle is the real (cos, sin)). *)
From Coq Require Import Reals ZArith List Bool Lra Lia Psatz.
From SV Require Import model.Bloch.
Import ListNotations.
Local Open Scope R_scope.

Definition Ris0 (x : R) : bool := if Req_EM_T x 0 then true else false.
Definition RF : FOps := mkFOps R 0 1 Rplus Rminus Rmult Rdiv Ropp sqrt Rabs IZR Ris0.
Definition rcs (t : R) : R * R := (cos t, sin t).

Notation CR := (Cx (F:=RF)).
Notation StR := (State (F:=RF)).

Definition n2 (z : CR) : R := fst z * fst z + snd z * snd z.        (* |z|^2 *)
Definition nrm (s : StR) : R := n2 (fst s) + n2 (snd s).             (* |a|^2 + |b|^2 *)
Definition Rprod (l : list R) : R := fold_right Rmult 1 l.

Ltac cx_simpl :=
  unfold st0, nrm, n2, su2_step, ptx_step, ptx_out, cadd, csub, cmul, cconj, cneg, cscale, cabs2, c0, c1 in *;
  cbn [fst snd fadd fsub fmul fdiv fopp f0 f1 RF FT] in *.

(* ------------------------------------------------------------------ the SU(2) step *)
Lemma su2_step_norm (m : CR * CR) (s : StR) : nrm (su2_step m s) = nrm m * nrm s.
Proof. destruct m as [[ar ai] [br bi]], s as [[xr xi] [yr yi]]. cx_simpl. ring. Qed.

Lemma ptx_step_norm (m : CR * CR) (s : StR) : nrm (ptx_step m s) = nrm m * nrm s.
Proof. destruct m as [[ar ai] [br bi]], s as [[xr xi] [yr yi]]. cx_simpl. ring. Qed.

Lemma ptx_out_norm (s : StR) : nrm (ptx_out s) = nrm s.
Proof. destruct s as [[xr xi] [yr yi]]. cx_simpl. ring. Qed.

(* a fold of steps that each multiply the norm by k(m) multiplies it by the product *)
Lemma fold_norm {A} (f : StR -> A -> StR) (k : A -> R) :
  (forall s m, nrm (f s m) = k m * nrm s) ->
  forall l s, nrm (fold_left f l s) = Rprod (map k l) * nrm s.
Proof.
  intros H l. induction l as [|m l IH]; intros s.
  - cbn [fold_left map]. unfold Rprod. cbn [fold_right]. lra.
  - cbn [fold_left map]. change (Rprod (k m :: map k l)) with (k m * Rprod (map k l)).
    rewrite IH, H. ring.
Qed.

Theorem su2_run_norm (l : list (CR * CR)) (s : StR) :
  nrm (su2_run l s) = Rprod (map nrm l) * nrm s.
Proof. unfold su2_run. apply fold_norm. intros s' m. apply su2_step_norm. Qed.

Lemma nrm_st0 : nrm (st0 (F:=RF)) = 1.
Proof. cx_simpl. lra. Qed.

Lemma fold_preserve {A} (f : StR -> A -> StR) :
  (forall s m, nrm (f s m) = nrm s) -> forall l s, nrm (fold_left f l s) = nrm s.
Proof.
  intros H l. induction l as [|m l IH]; intros s; cbn [fold_left]; [reflexivity|]. rewrite IH. apply H.
Qed.

Lemma cs1 t : cos t * cos t + sin t * sin t = 1.
Proof. pose proof (sin2_cos2 t) as H. unfold Rsqr in H. lra. Qed.

Lemma Rprod_bounds {A} (lo k : A -> R) (l : list A) :
  (forall x, In x l -> 0 <= lo x <= k x /\ k x <= 1) ->
  0 <= Rprod (map lo l) <= Rprod (map k l) /\ Rprod (map k l) <= 1.
Proof.
  induction l as [|x l IH]; intros H.
  - unfold Rprod. cbn [map fold_right]. lra.
  - change (Rprod (map lo (x :: l))) with (lo x * Rprod (map lo l)).
    change (Rprod (map k (x :: l))) with (k x * Rprod (map k l)).
    destruct (H x (or_introl eq_refl)) as [[H1 H2] H3].
    destruct IH as [[I1 I2] I3]; [intros y Hy; apply H; right; exact Hy|].
    repeat split.
    + apply Rmult_le_pos; assumption.
    + apply Rmult_le_compat; assumption.
    + replace 1 with (1 * 1) by ring. apply Rmult_le_compat; lra.
Qed.

(* ------------------------------------------------------------------ abrm / abrm_nd: the regularised rotation *)
(* rotation angle as coded, and the shrink factor rho of the rotation axis *)
Definition abrm_phi (eps om : R) (r : CR) : R := sqrt (n2 r + om * om) + eps.
Definition abrm_rho (eps om : R) (r : CR) : R := (abrm_phi eps om r - eps) / abrm_phi eps om r.
Definition abrm_k (eps om : R) (r : CR) : R :=
  let phi := abrm_phi eps om r in let rho := abrm_rho eps om r in
  cos (phi / 2) * cos (phi / 2) + rho * rho * (sin (phi / 2) * sin (phi / 2)).

Lemma q_nonneg (r : CR) om : 0 <= n2 r + om * om.
Proof. destruct r as [re im]. unfold n2. cbn [fst snd]. nra. Qed.

Lemma abrm_factor_norm eps om (r : CR) : nrm (abrm_factor (F:=RF) rcs eps om r) = abrm_k eps om r.
Proof.
  unfold abrm_k, abrm_rho, abrm_phi.
  pose proof (sqrt_sqrt _ (q_nonneg r om)) as Hq.
  destruct r as [re im]. unfold abrm_factor, rcs, half, two. cx_simpl. cbn [fofZ fsqrt RF].
  set (sq := sqrt (re * re + im * im + om * om)) in *.
  set (phi := sq + eps).
  transitivity (cos (phi / 2) * cos (phi / 2) +
                (re * re + im * im + om * om) * (/ phi * / phi) * (sin (phi / 2) * sin (phi / 2))).
  - unfold Rdiv. ring.
  - rewrite <- Hq. unfold phi, Rdiv. ring.
Qed.

Theorem abrm_loop_norm eps om (rf : list CR) (s : StR) :
  nrm (abrm_loop (F:=RF) rcs eps om rf s) = Rprod (map (abrm_k eps om) rf) * nrm s.
Proof.
  unfold abrm_loop. rewrite su2_run_norm, map_map. f_equal. f_equal. apply map_ext. intros r. apply abrm_factor_norm.
Qed.

(* with eps > 0 (the code: 1e-16): 0 <= rho < 1 and rho^2 <= k <= 1 *)
Lemma abrm_k_bounds eps om (r : CR) :
  0 < eps -> 0 <= abrm_rho eps om r * abrm_rho eps om r <= abrm_k eps om r /\ abrm_k eps om r <= 1.
Proof.
  intros He. unfold abrm_k. set (phi := abrm_phi eps om r). set (rho := abrm_rho eps om r).
  assert (Hsq : 0 <= sqrt (n2 r + om * om)) by apply sqrt_pos.
  assert (Hphi : 0 < phi) by (unfold phi, abrm_phi; lra).
  assert (Hrho : 0 <= rho <= 1).
  { unfold rho, abrm_rho. fold phi. split.
    - apply Rmult_le_pos; [unfold phi, abrm_phi; lra | left; apply Rinv_0_lt_compat; exact Hphi].
    - apply Rmult_le_reg_r with phi; [exact Hphi|]. unfold Rdiv. rewrite Rmult_assoc, Rinv_l by lra. lra. }
  pose proof (cs1 (phi / 2)) as Hcs.
  assert (0 <= sin (phi / 2) * sin (phi / 2)) by nra.
  assert (0 <= cos (phi / 2) * cos (phi / 2)) by nra.
  assert (0 <= rho * rho <= 1) by nra.
  repeat split; nra.
Qed.

(* with eps = 0 and a non-degenerate rotation the factor is exactly 1 *)
Lemma abrm_k_eps0 om (r : CR) : 0 < n2 r + om * om -> abrm_k 0 om r = 1.
Proof.
  intros Hq. unfold abrm_k, abrm_rho, abrm_phi. rewrite Rplus_0_r, Rminus_0_r.
  assert (Hs : 0 < sqrt (n2 r + om * om)) by (apply sqrt_lt_R0; exact Hq).
  replace (sqrt (n2 r + om * om) / sqrt (n2 r + om * om)) with 1 by (field; lra).
  pose proof (cs1 (sqrt (n2 r + om * om) / 2)). lra.
Qed.

(* the rewinder of abrm(balanced=True): av*a, conj(av)*b with |av|^2 = cos^2 + nz^2 sin^2 *)
Definition abrm_rewind_k (pi eps x : R) : R :=
  let om := x * (Ropp 2 * pi / 2) in let phi := Rabs om + eps in
  cos (phi / 2) * cos (phi / 2) + (om / phi) * (om / phi) * (sin (phi / 2) * sin (phi / 2)).

Theorem abrm_norm pi eps (rf : list CR) x balanced :
  nrm (abrm (F:=RF) rcs pi eps rf x balanced) =
  (if balanced then abrm_rewind_k pi eps x else 1) *
  Rprod (map (abrm_k eps (x * (1 * 2 * pi / INR (length rf)))) rf).
Proof.
  unfold abrm. set (st := abrm_loop _ _ _ _ _).
  assert (Hst : nrm st = Rprod (map (abrm_k eps (x * (1 * 2 * pi / INR (length rf)))) rf)).
  { unfold st. rewrite abrm_loop_norm, nrm_st0, Rmult_1_r. unfold two. cbn [fofZ fmul fdiv f1 RF].
    rewrite <- INR_IZR_INZ. reflexivity. }
  destruct balanced; [|rewrite Hst; ring].
  rewrite <- Hst. unfold abrm_rewind_k, rcs, half, two. destruct st as [[ar ai] [br bi]].
  cx_simpl. cbn [fofZ fabs RF]. unfold Rdiv. ring.
Qed.

(* abrm_nd: phi without eps, axis divided by (phi + eps): rho = phi/(phi+eps) *)
Definition rdot (x g : list R) : R := dot (F:=RF) x g.
Definition nd_phi (x : list R) (rg : CR * list R) : R := sqrt (n2 (fst rg) + rdot x (snd rg) * rdot x (snd rg)).
Definition nd_rho (eps : R) (x : list R) (rg : CR * list R) : R := nd_phi x rg / (nd_phi x rg + eps).
Definition nd_k (eps : R) (x : list R) (rg : CR * list R) : R :=
  let phi := nd_phi x rg in let rho := nd_rho eps x rg in
  cos (phi / 2) * cos (phi / 2) + rho * rho * (sin (phi / 2) * sin (phi / 2)).

Lemma abrm_nd_factor_norm eps x (rg : CR * list R) : nrm (abrm_nd_factor (F:=RF) rcs eps x rg) = nd_k eps x rg.
Proof.
  unfold nd_k, nd_rho, nd_phi. destruct rg as [r g]. cbn [fst snd].
  pose proof (sqrt_sqrt _ (q_nonneg r (rdot x g))) as Hq.
  destruct r as [re im]. unfold abrm_nd_factor, rcs, half, two. fold (rdot x g). cx_simpl. cbn [fofZ fsqrt RF].
  set (om := rdot x g) in *.
  set (sq := sqrt (re * re + im * im + om * om)) in *.
  transitivity (cos (sq / 2) * cos (sq / 2) +
                (re * re + im * im + om * om) * (/ (sq + eps) * / (sq + eps)) * (sin (sq / 2) * sin (sq / 2))).
  - unfold Rdiv. ring.
  - rewrite <- Hq. unfold Rdiv. ring.
Qed.

Theorem abrm_nd_norm eps (rfg : list (CR * list R)) x :
  nrm (abrm_nd (F:=RF) rcs eps rfg x) = Rprod (map (nd_k eps x) rfg).
Proof.
  unfold abrm_nd. rewrite su2_run_norm, map_map, nrm_st0, Rmult_1_r. f_equal. apply map_ext.
  intros rg. apply abrm_nd_factor_norm.
Qed.

Lemma nd_k_bounds eps x (rg : CR * list R) :
  0 < eps -> 0 <= nd_rho eps x rg * nd_rho eps x rg <= nd_k eps x rg /\ nd_k eps x rg <= 1.
Proof.
  intros He. unfold nd_k. set (phi := nd_phi x rg). set (rho := nd_rho eps x rg).
  assert (Hphi : 0 <= phi) by (unfold phi, nd_phi; apply sqrt_pos).
  assert (Hrho : 0 <= rho <= 1).
  { unfold rho, nd_rho. fold phi. split.
    - apply Rmult_le_pos; [exact Hphi | left; apply Rinv_0_lt_compat; lra].
    - apply Rmult_le_reg_r with (phi + eps); [lra|]. unfold Rdiv. rewrite Rmult_assoc, Rinv_l by lra. lra. }
  pose proof (cs1 (phi / 2)) as Hcs.
  assert (0 <= sin (phi / 2) * sin (phi / 2)) by nra.
  assert (0 <= cos (phi / 2) * cos (phi / 2)) by nra.
  assert (0 <= rho * rho <= 1) by nra.
  repeat split; nra.
Qed.

Theorem abrm_loop_norm_bounds eps om (rf : list CR) :
  0 < eps ->
  Rprod (map (fun r => abrm_rho eps om r * abrm_rho eps om r) rf) <= nrm (abrm_loop (F:=RF) rcs eps om rf st0) <= 1.
Proof.
  intros He. rewrite abrm_loop_norm, nrm_st0, Rmult_1_r.
  destruct (Rprod_bounds (fun r => abrm_rho eps om r * abrm_rho eps om r) (abrm_k eps om) rf) as [[_ H1] H2].
  - intros r _. apply abrm_k_bounds. exact He.
  - split; assumption.
Qed.

Theorem abrm_nd_norm_bounds eps (rfg : list (CR * list R)) x :
  0 < eps ->
  Rprod (map (fun rg => nd_rho eps x rg * nd_rho eps x rg) rfg) <= nrm (abrm_nd (F:=RF) rcs eps rfg x) <= 1.
Proof.
  intros He. rewrite abrm_nd_norm.
  destruct (Rprod_bounds (fun rg => nd_rho eps x rg * nd_rho eps x rg) (nd_k eps x) rfg) as [[_ H1] H2].
  - intros r _. apply nd_k_bounds. exact He.
  - split; assumption.
Qed.

Theorem abrm_loop_norm_eps0 om (rf : list CR) :
  (forall r, In r rf -> 0 < n2 r + om * om) -> nrm (abrm_loop (F:=RF) rcs 0 om rf st0) = 1.
Proof.
  intros H. rewrite abrm_loop_norm, nrm_st0, Rmult_1_r.
  induction rf as [|r rf IH]; [reflexivity|].
  change (Rprod (map (abrm_k 0 om) (r :: rf))) with (abrm_k 0 om r * Rprod (map (abrm_k 0 om) rf)).
  rewrite IH by (intros r' Hr'; apply H; right; exact Hr').
  rewrite abrm_k_eps0 by (apply H; left; reflexivity). ring.
Qed.

(* ------------------------------------------------------------------ hard-pulse pieces: abrm_hp, blochsim *)
Lemma unit_phasor_norm (r : CR) : n2 (unit_phasor (F:=RF) r) = 1.
Proof.
  pose proof (sqrt_sqrt _ (q_nonneg r 0)) as Hq.
  destruct r as [re im]. unfold unit_phasor. cx_simpl. cbn [fsqrt fis0 RF].
  replace (re * re + im * im + 0 * 0) with (re * re + im * im) in Hq by ring.
  unfold Ris0. destruct (Req_EM_T (sqrt (re * re + im * im)) 0) as [E | E].
  - cbn [fst snd]. lra.
  - cbn [fst snd]. set (m := sqrt (re * re + im * im)) in *.
    transitivity ((re * re + im * im) * (/ m * / m)); [unfold Rdiv; ring|].
    rewrite <- Hq. field. exact E.
Qed.

Lemma rf_rot_norm (r : CR) (s : StR) : nrm (rf_rot (F:=RF) rcs r s) = nrm s.
Proof.
  pose proof (unit_phasor_norm r) as Hu. unfold rf_rot, rcs, half, two.
  set (u := unit_phasor r) in *. destruct u as [ur ui]. destruct s as [[ar ai] [br bi]].
  set (t := fdiv (fsqrt (cabs2 r)) (fofZ 2)). pose proof (cs1 t) as Hcs.
  cx_simpl. 
  transitivity ((cos t * cos t + (ur * ur + ui * ui) * (sin t * sin t)) * (ar * ar + ai * ai + (br * br + bi * bi))).
  - ring.
  - rewrite Hu. replace (cos t * cos t + 1 * (sin t * sin t)) with 1 by lra. ring.
Qed.

Lemma grad_phase_norm theta (s : StR) : nrm (grad_phase (F:=RF) rcs theta s) = nrm s.
Proof.
  unfold grad_phase, rcs. pose proof (cs1 theta) as Hcs. destruct s as [[ar ai] [br bi]]. cx_simpl.
  transitivity (ar * ar + ai * ai + (br * br + bi * bi) * (cos theta * cos theta + sin theta * sin theta)); [ring|].
  rewrite Hcs. ring.
Qed.

Lemma total_phase_norm theta (s : StR) : nrm (total_phase (F:=RF) rcs theta s) = nrm s.
Proof.
  unfold total_phase, rcs. set (t := half theta). pose proof (cs1 t) as Hcs. destruct s as [[ar ai] [br bi]]. cx_simpl.
  transitivity ((ar * ar + ai * ai + (br * br + bi * bi)) * (cos t * cos t + sin t * sin t)); [ring|].
  rewrite Hcs. ring.
Qed.

Theorem abrm_hp_norm (rfg : list (CR * R)) x dom0dt : nrm (abrm_hp (F:=RF) rcs rfg x dom0dt) = 1.
Proof.
  unfold abrm_hp, abrm_hp_loop. rewrite total_phase_norm, fold_preserve; [apply nrm_st0|].
  intros s rg. rewrite rf_rot_norm. apply grad_phase_norm.
Qed.

Theorem blochsim_norm (rfg : list (CR * list R)) x : nrm (blochsim (F:=RF) rcs rfg x) = 1.
Proof.
  unfold blochsim, blochsim_loop. rewrite total_phase_norm, fold_preserve; [apply nrm_st0|].
  intros s rg. rewrite grad_phase_norm. apply rf_rot_norm.
Qed.

(* ------------------------------------------------------------------ abrm_ptx *)
Lemma ptx_factor_norm dtgam (bxy : CR) bz : nrm (ptx_factor (F:=RF) rcs dtgam bxy bz) = 1.
Proof.
  pose proof (sqrt_sqrt _ (q_nonneg bxy bz)) as Hq.
  destruct bxy as [bx by_]. unfold ptx_factor, rcs, half, two. cx_simpl. cbn [fsqrt fis0 fofZ RF].
  set (sq := sqrt (bx * bx + by_ * by_ + bz * bz)) in *.
  unfold Ris0. destruct (Req_EM_T (dtgam * sq) 0) as [E | E].
  - rewrite E. replace (0 / 2) with 0 by field. rewrite cos_0, sin_0. cbn [fst snd]. ring.
  - cbn [fst snd]. pose proof (cs1 (dtgam * sq / 2)) as Hcs.
    assert (Hd : dtgam <> 0) by (intros H0; apply E; rewrite H0; ring).
    assert (Hs : sq <> 0) by (intros H0; apply E; rewrite H0; ring).
    set (nf := dtgam * (1 / (dtgam * sq))).
    transitivity (cos (dtgam * sq / 2) * cos (dtgam * sq / 2) +
                  nf * nf * (bx * bx + by_ * by_ + bz * bz) * (sin (dtgam * sq / 2) * sin (dtgam * sq / 2))); [ring|].
    rewrite <- Hq. replace (nf * nf * (sq * sq)) with 1 by (unfold nf; field; split; assumption). lra.
Qed.

Theorem abrm_ptx_norm dtgam boff (sens : list CR) x (b1g : list (list CR * list R)) :
  nrm (abrm_ptx (F:=RF) rcs dtgam boff sens x b1g) = 1.
Proof.
  unfold abrm_ptx. rewrite ptx_out_norm, fold_preserve; [apply nrm_st0|].
  intros s bg. rewrite ptx_step_norm, ptx_factor_norm. ring.
Qed.

(* ------------------------------------------------------------------ composition: ordered product of SU(2)-form factors *)
Lemma pair_eq {A B} (a c : A) (b d : B) : a = c -> b = d -> (a, b) = (c, d).
Proof. intros -> ->. reflexivity. Qed.
Lemma pair_eqR (a c b d : R) : a = c -> b = d -> (a, b) = (c, d).
Proof. intros -> ->. reflexivity. Qed.
Ltac cx_eq := repeat (first [apply pair_eqR | apply pair_eq]); try ring.

Lemma su2_step_assoc (m p : CR * CR) (s : StR) : su2_step m (su2_step p s) = su2_step (su2_step m p) s.
Proof.
  destruct m as [[m1 m2] [m3 m4]], p as [[p1 p2] [p3 p4]], s as [[s1 s2] [s3 s4]]. cx_simpl. cx_eq.
Qed.
Lemma su2_step_st0 (m : CR * CR) : su2_step m st0 = m.
Proof. destruct m as [[m1 m2] [m3 m4]]. cx_simpl. cx_eq. Qed.

Lemma su2_run_as_matrix (l : list (CR * CR)) (s : StR) : su2_run l s = su2_step (su2_run l st0) s.
Proof.
  revert s. induction l as [|m l IH]; intros s.
  - cbn [su2_run fold_left]. destruct s as [[s1 s2] [s3 s4]]. cx_simpl. cx_eq.
  - unfold su2_run in *. cbn [fold_left]. rewrite (IH (su2_step m s)), (IH (su2_step m st0)).
    rewrite su2_step_st0. apply su2_step_assoc.
Qed.

Theorem su2_run_compose (l1 l2 : list (CR * CR)) :
  su2_run (l1 ++ l2) st0 = su2_step (su2_run l2 st0) (su2_run l1 st0).
Proof. unfold su2_run at 1. rewrite fold_left_app. apply su2_run_as_matrix. Qed.

Theorem abrm_nd_compose eps (w1 w2 : list (CR * list R)) x :
  abrm_nd (F:=RF) rcs eps (w1 ++ w2) x = su2_step (abrm_nd (F:=RF) rcs eps w2 x) (abrm_nd (F:=RF) rcs eps w1 x).
Proof. unfold abrm_nd. rewrite map_app. apply su2_run_compose. Qed.

Theorem abrm_loop_compose eps om (w1 w2 : list CR) :
  abrm_loop (F:=RF) rcs eps om (w1 ++ w2) st0 =
  su2_step (abrm_loop (F:=RF) rcs eps om w2 st0) (abrm_loop (F:=RF) rcs eps om w1 st0).
Proof. unfold abrm_loop. rewrite map_app. apply su2_run_compose. Qed.

(* abrm_hp / blochsim / abrm_ptx run sample after sample on the state: the loop over w1 ++ w2 is the loop over w2
   started from the state left by w1 (the closing total_phase / output map is applied once at the end) *)
Theorem abrm_hp_loop_app x d (w1 w2 : list (CR * R)) s :
  abrm_hp_loop (F:=RF) rcs x d (w1 ++ w2) s = abrm_hp_loop (F:=RF) rcs x d w2 (abrm_hp_loop (F:=RF) rcs x d w1 s).
Proof. unfold abrm_hp_loop. apply fold_left_app. Qed.
Theorem blochsim_loop_app x (w1 w2 : list (CR * list R)) s :
  blochsim_loop (F:=RF) rcs x (w1 ++ w2) s = blochsim_loop (F:=RF) rcs x w2 (blochsim_loop (F:=RF) rcs x w1 s).
Proof. unfold blochsim_loop. apply fold_left_app. Qed.

(* ------------------------------------------------------------------ zero RF => b = 0 *)
Lemma fold_inv {A} (P : StR -> Prop) (f : StR -> A -> StR) (l : list A) :
  (forall s m, In m l -> P s -> P (f s m)) -> forall s, P s -> P (fold_left f l s).
Proof.
  induction l as [|m l IH]; intros H s Hs; [exact Hs|]. cbn [fold_left].
  apply IH; [intros s' m' Hm; apply H; right; exact Hm | apply H; [left; reflexivity | exact Hs]].
Qed.

Lemma su2_step_b0 (av a : CR) : snd (su2_step (av, c0) (a, c0)) = c0.
Proof. destruct av as [a1 a2], a as [x1 x2]. cx_simpl. cx_eq. Qed.

Lemma abrm_factor_zero eps om : snd (abrm_factor (F:=RF) rcs eps om c0) = c0.
Proof. unfold abrm_factor, rcs. cx_simpl. unfold Rdiv. cx_eq. Qed.
Lemma abrm_nd_factor_zero eps x g : snd (abrm_nd_factor (F:=RF) rcs eps x (c0, g)) = c0.
Proof. unfold abrm_nd_factor, rcs. cx_simpl. unfold Rdiv. cx_eq. Qed.

Lemma su2_run_b0 (l : list (CR * CR)) (s : StR) :
  (forall m, In m l -> snd m = c0) -> snd s = c0 -> snd (su2_run l s) = c0.
Proof.
  intros H Hs. unfold su2_run. apply (fold_inv (fun s => snd s = c0)); [|exact Hs].
  intros [a b] [av bv] Hm Hb. cbn [snd] in Hb. apply H in Hm. cbn [snd] in Hm. subst b bv. apply su2_step_b0.
Qed.

Theorem abrm_zero_rf pi eps (rf : list CR) x balanced :
  (forall r, In r rf -> r = c0) -> snd (abrm (F:=RF) rcs pi eps rf x balanced) = c0.
Proof.
  intros H. unfold abrm. set (st := abrm_loop _ _ _ _ _).
  assert (Hst : snd st = c0).
  { unfold st, abrm_loop. apply su2_run_b0; [|reflexivity].
    intros m Hm. apply in_map_iff in Hm. destruct Hm as [r [<- Hr]]. rewrite (H r Hr). apply abrm_factor_zero. }
  destruct balanced; [|exact Hst].
  unfold rcs. destruct st as [a b]. cbn [snd fst] in *. subst b. cx_simpl. cx_eq.
Qed.

Theorem abrm_nd_zero_rf eps (rfg : list (CR * list R)) x :
  (forall rg, In rg rfg -> fst rg = c0) -> snd (abrm_nd (F:=RF) rcs eps rfg x) = c0.
Proof.
  intros H. unfold abrm_nd. apply su2_run_b0; [|reflexivity].
  intros m Hm. apply in_map_iff in Hm. destruct Hm as [[r g] [<- Hr]]. apply H in Hr. cbn [fst] in Hr. subst r.
  apply abrm_nd_factor_zero.
Qed.

Lemma rf_rot_zero (s : StR) : rf_rot (F:=RF) rcs c0 s = s.
Proof.
  destruct s as [[ar ai] [br bi]]. unfold rf_rot, unit_phasor, rcs, half, two. cx_simpl. cbn [fsqrt fis0 fofZ RF].
  replace (0 * 0 + 0 * 0) with 0 by ring. rewrite sqrt_0. replace (0 / 2) with 0 by field. rewrite cos_0, sin_0.
  unfold Ris0. destruct (Req_EM_T 0 0) as [_ | E]; [|exfalso; apply E; reflexivity].
  cbn [fst snd]. cx_eq.
Qed.
Lemma grad_phase_b0 theta (a : CR) : snd (grad_phase (F:=RF) rcs theta (a, c0)) = c0.
Proof. unfold grad_phase, rcs. cx_simpl. cx_eq. Qed.
Lemma total_phase_b0 theta (a : CR) : snd (total_phase (F:=RF) rcs theta (a, c0)) = c0.
Proof. unfold total_phase, rcs. cx_simpl. cx_eq. Qed.

Theorem abrm_hp_zero_rf (rfg : list (CR * R)) x d :
  (forall rg, In rg rfg -> fst rg = c0) -> snd (abrm_hp (F:=RF) rcs rfg x d) = c0.
Proof.
  intros H. unfold abrm_hp. set (st := abrm_hp_loop _ _ _ _ _).
  assert (Hst : snd st = c0).
  { unfold st, abrm_hp_loop. apply (fold_inv (fun s => snd s = c0)); [|reflexivity].
    intros [a b] [r g] Hm Hb. apply H in Hm. cbn [fst snd] in *. subst b r. rewrite rf_rot_zero. apply grad_phase_b0. }
  destruct st as [a b]. cbn [snd] in Hst. subst b. apply total_phase_b0.
Qed.

Theorem blochsim_zero_rf (rfg : list (CR * list R)) x :
  (forall rg, In rg rfg -> fst rg = c0) -> snd (blochsim (F:=RF) rcs rfg x) = c0.
Proof.
  intros H. unfold blochsim. set (st := blochsim_loop _ _ _ _).
  assert (Hst : snd st = c0).
  { unfold st, blochsim_loop. apply (fold_inv (fun s => snd s = c0)); [|reflexivity].
    intros [a b] [r g] Hm Hb. apply H in Hm. cbn [fst snd] in *. subst b r. rewrite rf_rot_zero. apply grad_phase_b0. }
  destruct st as [a b]. cbn [snd] in Hst. subst b. apply total_phase_b0.
Qed.

(* zero RF and unit norm: a is a pure phase *)
Corollary abrm_hp_zero_rf_phase (rfg : list (CR * R)) x d :
  (forall rg, In rg rfg -> fst rg = c0) -> n2 (fst (abrm_hp (F:=RF) rcs rfg x d)) = 1.
Proof.
  intros H. pose proof (abrm_hp_norm rfg x d) as Hn. pose proof (abrm_hp_zero_rf rfg x d H) as Hb.
  unfold nrm in Hn. rewrite Hb in Hn. unfold n2 at 2 in Hn. unfold c0 in Hn. cbn [fst snd f0 RF] in Hn. lra.
Qed.
Corollary blochsim_zero_rf_phase (rfg : list (CR * list R)) x :
  (forall rg, In rg rfg -> fst rg = c0) -> n2 (fst (blochsim (F:=RF) rcs rfg x)) = 1.
Proof.
  intros H. pose proof (blochsim_norm rfg x) as Hn. pose proof (blochsim_zero_rf rfg x H) as Hb.
  unfold nrm in Hn. rewrite Hb in Hn. unfold n2 at 2 in Hn. unfold c0 in Hn. cbn [fst snd f0 RF] in Hn. lra.
Qed.

Lemma eps_example : 0 < 1e-16.
Proof. lra. Qed.

Lemma abrm_hp_zero_rf_full (rfg : list (CR * R)) x d :
  (forall rg, In rg rfg -> fst rg = c0) ->
  snd (abrm_hp (F:=RF) rcs rfg x d) = c0 /\ n2 (fst (abrm_hp (F:=RF) rcs rfg x d)) = 1.
Proof. intros H. split; [exact (abrm_hp_zero_rf rfg x d H) | exact (abrm_hp_zero_rf_phase rfg x d H)]. Qed.
Lemma blochsim_zero_rf_full (rfg : list (CR * list R)) x :
  (forall rg, In rg rfg -> fst rg = c0) ->
  snd (blochsim (F:=RF) rcs rfg x) = c0 /\ n2 (fst (blochsim (F:=RF) rcs rfg x)) = 1.
Proof. intros H. split; [exact (blochsim_zero_rf rfg x H) | exact (blochsim_zero_rf_phase rfg x H)]. Qed.
