(* proofs/Bloch.v — the Bloch-simulator models of model/Bloch.v over the real numbers
   (complex numbers are pairs of reals; the trig oracle is the real (cos, sin)). *)
From Coq Require Import Reals ZArith List Bool Lra Lia Psatz.
From SV Require Import model.Bloch.
Import ListNotations.
Local Open Scope R_scope.

Definition Ris0 (x : R) : bool := if Req_EM_T x 0 then true else false.
Definition RF : FOps := mkFOps R 0 1 Rplus Rminus Rmult Rdiv Ropp sqrt Rabs IZR Ris0.
Definition rcs (t : R) : R * R := (cos t, sin t).

Notation CR := (Cx (F:=RF)).
Notation StR := (State (F:=RF)).

Definition n2 (z : CR) : R := fst z * fst z + snd z * snd z.        (* |z|^2 *)
Definition nrm (s : StR) : R := n2 (fst s) + n2 (snd s).             (* |a|^2 + |b|^2 *)
Definition Rprod (l : list R) : R := fold_right Rmult 1 l.

Ltac cx_simpl :=
  unfold st0, nrm, n2, su2_step, ptx_step, ptx_out, cadd, csub, cmul, cconj, cneg, cscale, cabs2, c0, c1 in *;
  cbn [fst snd fadd fsub fmul fdiv fopp f0 f1 RF FT] in *.

(* ------------------------------------------------------------------ the SU(2) step *)
Lemma su2_step_norm (m : CR * CR) (s : StR) : nrm (su2_step m s) = nrm m * nrm s.
Proof. destruct m as [[ar ai] [br bi]], s as [[xr xi] [yr yi]]. cx_simpl. ring. Qed.

Lemma ptx_step_norm (m : CR * CR) (s : StR) : nrm (ptx_step m s) = nrm m * nrm s.
Proof. destruct m as [[ar ai] [br bi]], s as [[xr xi] [yr yi]]. cx_simpl. ring. Qed.

Lemma ptx_out_norm (s : StR) : nrm (ptx_out s) = nrm s.
Proof. destruct s as [[xr xi] [yr yi]]. cx_simpl. ring. Qed.

(* a fold of steps that each multiply the norm by k(m) multiplies it by the product *)
Lemma fold_norm {A} (f : StR -> A -> StR) (k : A -> R) :
  (forall s m, nrm (f s m) = k m * nrm s) ->
  forall l s, nrm (fold_left f l s) = Rprod (map k l) * nrm s.
Proof.
  intros H l. induction l as [|m l IH]; intros s.
  - cbn [fold_left map]. unfold Rprod. cbn [fold_right]. lra.
  - cbn [fold_left map]. change (Rprod (k m :: map k l)) with (k m * Rprod (map k l)).
    rewrite IH, H. ring.
Qed.

Theorem su2_run_norm (l : list (CR * CR)) (s : StR) :
  nrm (su2_run l s) = Rprod (map nrm l) * nrm s.
Proof. unfold su2_run. apply fold_norm. intros s' m. apply su2_step_norm. Qed.

Lemma nrm_st0 : nrm (st0 (F:=RF)) = 1.
Proof. cx_simpl. lra. Qed.

Lemma fold_preserve {A} (f : StR -> A -> StR) :
  (forall s m, nrm (f s m) = nrm s) -> forall l s, nrm (fold_left f l s) = nrm s.
Proof.
  intros H l. induction l as [|m l IH]; intros s; cbn [fold_left]; [reflexivity|]. rewrite IH. apply H.
Qed.

Lemma cs1 t : cos t * cos t + sin t * sin t = 1.
Proof. pose proof (sin2_cos2 t) as H. unfold Rsqr in H. lra. Qed.

Lemma Rprod_bounds {A} (lo k : A -> R) (l : list A) :
  (forall x, In x l -> 0 <= lo x <= k x /\ k x <= 1) ->
  0 <= Rprod (map lo l) <= Rprod (map k l) /\ Rprod (map k l) <= 1.
Proof.
  induction l as [|x l IH]; intros H.
  - unfold Rprod. cbn [map fold_right]. lra.
  - change (Rprod (map lo (x :: l))) with (lo x * Rprod (map lo l)).
    change (Rprod (map k (x :: l))) with (k x * Rprod (map k l)).
    destruct (H x (or_introl eq_refl)) as [[H1 H2] H3].
    destruct IH as [[I1 I2] I3]; [intros y Hy; apply H; right; exact Hy|].
    repeat split.
    + apply Rmult_le_pos; assumption.
    + apply Rmult_le_compat; assumption.
    + replace 1 with (1 * 1) by ring. apply Rmult_le_compat; lra.
Qed.

(* ------------------------------------------------------------------ abrm / abrm_nd: the regularised rotation *)
(* rotation angle as coded, and the shrink factor rho of the rotation axis *)
Definition abrm_phi (eps om : R) (r : CR) : R := sqrt (n2 r + om * om) + eps.
Definition abrm_rho (eps om : R) (r : CR) : R := (abrm_phi eps om r - eps) / abrm_phi eps om r.
Definition abrm_k (eps om : R) (r : CR) : R :=
  let phi := abrm_phi eps om r in let rho := abrm_rho eps om r in
  cos (phi / 2) * cos (phi / 2) + rho * rho * (sin (phi / 2) * sin (phi / 2)).

Lemma q_nonneg (r : CR) om : 0 <= n2 r + om * om.
Proof. destruct r as [re im]. unfold n2. cbn [fst snd]. nra. Qed.

Lemma abrm_factor_norm eps om (r : CR) : nrm (abrm_factor (F:=RF) rcs eps om r) = abrm_k eps om r.
Proof.
  unfold abrm_k, abrm_rho, abrm_phi.
  pose proof (sqrt_sqrt _ (q_nonneg r om)) as Hq.
  destruct r as [re im]. unfold abrm_factor, rcs, half, two. cx_simpl. cbn [fofZ fsqrt RF].
  set (sq := sqrt (re * re + im * im + om * om)) in *.
  set (phi := sq + eps).
  transitivity (cos (phi / 2) * cos (phi / 2) +
                (re * re + im * im + om * om) * (/ phi * / phi) * (sin (phi / 2) * sin (phi / 2))).
  - unfold Rdiv. ring.
  - rewrite <- Hq. unfold phi, Rdiv. ring.
Qed.

Theorem abrm_loop_norm eps om (rf : list CR) (s : StR) :
  nrm (abrm_loop (F:=RF) rcs eps om rf s) = Rprod (map (abrm_k eps om) rf) * nrm s.
Proof.
  unfold abrm_loop. rewrite su2_run_norm, map_map. f_equal. f_equal. apply map_ext. intros r. apply abrm_factor_norm.
Qed.

(* with eps > 0 (the code: 1e-16): 0 <= rho < 1 and rho^2 <= k <= 1 *)
Lemma abrm_k_bounds eps om (r : CR) :
  0 < eps -> 0 <= abrm_rho eps om r * abrm_rho eps om r <= abrm_k eps om r /\ abrm_k eps om r <= 1.
Proof.
  intros He. unfold abrm_k. set (phi := abrm_phi eps om r). set (rho := abrm_rho eps om r).
  assert (Hsq : 0 <= sqrt (n2 r + om * om)) by apply sqrt_pos.
  assert (Hphi : 0 < phi) by (unfold phi, abrm_phi; lra).
  assert (Hrho : 0 <= rho <= 1).
  { unfold rho, abrm_rho. fold phi. split.
    - apply Rmult_le_pos; [unfold phi, abrm_phi; lra | left; apply Rinv_0_lt_compat; exact Hphi].
    - apply Rmult_le_reg_r with phi; [exact Hphi|]. unfold Rdiv. rewrite Rmult_assoc, Rinv_l by lra. lra. }
  pose proof (cs1 (phi / 2)) as Hcs.
  assert (0 <= sin (phi / 2) * sin (phi / 2)) by nra.
  assert (0 <= cos (phi / 2) * cos (phi / 2)) by nra.
  assert (0 <= rho * rho <= 1) by nra.
  repeat split; nra.
Qed.

(* with eps = 0 and a non-degenerate rotation the factor is exactly 1 *)
Lemma abrm_k_eps0 om (r : CR) : 0 < n2 r + om * om -> abrm_k 0 om r = 1.
Proof.
  intros Hq. unfold abrm_k, abrm_rho, abrm_phi. rewrite Rplus_0_r, Rminus_0_r.
  assert (Hs : 0 < sqrt (n2 r + om * om)) by (apply sqrt_lt_R0; exact Hq).
  replace (sqrt (n2 r + om * om) / sqrt (n2 r + om * om)) with 1 by (field; lra).
  pose proof (cs1 (sqrt (n2 r + om * om) / 2)). lra.
Qed.

(* the rewinder of abrm(balanced=True): av*a, conj(av)*b with |av|^2 = cos^2 + nz^2 sin^2 *)
Definition abrm_rewind_k (pi eps x : R) : R :=
  let om := x * (- 2 * pi / 2) in let phi := Rabs om + eps in
  cos (phi / 2) * cos (phi / 2) + (om / phi) * (om / phi) * (sin (phi / 2) * sin (phi / 2)).

Theorem abrm_norm pi eps (rf : list CR) x balanced :
  nrm (abrm (F:=RF) rcs pi eps rf x balanced) =
  (if balanced then abrm_rewind_k pi eps x else 1) *
  Rprod (map (abrm_k eps (x * (1 * 2 * pi / INR (length rf)))) rf).
Proof.
  unfold abrm. set (st := abrm_loop _ _ _ _ _).
  assert (Hst : nrm st = Rprod (map (abrm_k eps (x * (1 * 2 * pi / INR (length rf)))) rf)).
  { unfold st. rewrite abrm_loop_norm, nrm_st0, Rmult_1_r. unfold two. cbn [fofZ fmul fdiv f1 RF].
    rewrite <- INR_IZR_INZ. reflexivity. }
  destruct balanced; [|rewrite Hst; ring].
  rewrite <- Hst. unfold abrm_rewind_k, rcs, half, two. destruct st as [[ar ai] [br bi]].
  cx_simpl. cbn [fofZ fabs RF]. unfold Rdiv. Show. ring.
Qed.

(* abrm_nd: phi without eps, axis divided by (phi + eps): rho = phi/(phi+eps) *)
Definition rdot (x g : list R) : R := dot (F:=RF) x g.
Definition nd_phi (x : list R) (rg : CR * list R) : R := sqrt (n2 (fst rg) + rdot x (snd rg) * rdot x (snd rg)).
Definition nd_rho (eps : R) (x : list R) (rg : CR * list R) : R := nd_phi x rg / (nd_phi x rg + eps).
Definition nd_k (eps : R) (x : list R) (rg : CR * list R) : R :=
  let phi := nd_phi x rg in let rho := nd_rho eps x rg in
  cos (phi / 2) * cos (phi / 2) + rho * rho * (sin (phi / 2) * sin (phi / 2)).

Lemma abrm_nd_factor_norm eps x (rg : CR * list R) : nrm (abrm_nd_factor (F:=RF) rcs eps x rg) = nd_k eps x rg.
Proof.
  unfold nd_k, nd_rho, nd_phi. destruct rg as [r g]. cbn [fst snd].
  pose proof (sqrt_sqrt _ (q_nonneg r (rdot x g))) as Hq.
  destruct r as [re im]. unfold abrm_nd_factor, rcs, half, two. fold (rdot x g). cx_simpl. cbn [fofZ fsqrt RF].
  set (om := rdot x g) in *.
  set (sq := sqrt (re * re + im * im + om * om)) in *.
  transitivity (cos (sq / 2) * cos (sq / 2) +
                (re * re + im * im + om * om) * (/ (sq + eps) * / (sq + eps)) * (sin (sq / 2) * sin (sq / 2))).
  - unfold Rdiv. ring.
  - rewrite <- Hq. unfold Rdiv. ring.
Qed.

Theorem abrm_nd_norm eps (rfg : list (CR * list R)) x :
  nrm (abrm_nd (F:=RF) rcs eps rfg x) = Rprod (map (nd_k eps x) rfg).
Proof.
  unfold abrm_nd. rewrite su2_run_norm, map_map, nrm_st0, Rmult_1_r. f_equal. apply map_ext.
  intros rg. apply abrm_nd_factor_norm.
Qed.

Lemma nd_k_bounds eps x (rg : CR * list R) :
  0 < eps -> 0 <= nd_rho eps x rg * nd_rho eps x rg <= nd_k eps x rg /\ nd_k eps x rg <= 1.
Proof.
  intros He. unfold nd_k. set (phi := nd_phi x rg). set (rho := nd_rho eps x rg).
  assert (Hphi : 0 <= phi) by (unfold phi, nd_phi; apply sqrt_pos).
  assert (Hrho : 0 <= rho <= 1).
  { unfold rho, nd_rho. fold phi. split.
    - apply Rmult_le_pos; [exact Hphi | left; apply Rinv_0_lt_compat; lra].
    - apply Rmult_le_reg_r with (phi + eps); [lra|]. unfold Rdiv. rewrite Rmult_assoc, Rinv_l by lra. lra. }
  pose proof (cs1 (phi / 2)) as Hcs.
  assert (0 <= sin (phi / 2) * sin (phi / 2)) by nra.
  assert (0 <= cos (phi / 2) * cos (phi / 2)) by nra.
  assert (0 <= rho * rho <= 1) by nra.
  repeat split; nra.
Qed.

Theorem abrm_loop_norm_bounds eps om (rf : list CR) :
  0 < eps ->
  Rprod (map (fun r => abrm_rho eps om r * abrm_rho eps om r) rf) <= nrm (abrm_loop (F:=RF) rcs eps om rf st0) <= 1.
Proof.
  intros He. rewrite abrm_loop_norm, nrm_st0, Rmult_1_r.
  destruct (Rprod_bounds (fun r => abrm_rho eps om r * abrm_rho eps om r) (abrm_k eps om) rf) as [[_ H1] H2].
  - intros r _. apply abrm_k_bounds. exact He.
  - split; assumption.
Qed.

Theorem abrm_nd_norm_bounds eps (rfg : list (CR * list R)) x :
  0 < eps ->
  Rprod (map (fun rg => nd_rho eps x rg * nd_rho eps x rg) rfg) <= nrm (abrm_nd (F:=RF) rcs eps rfg x) <= 1.
Proof.
  intros He. rewrite abrm_nd_norm.
  destruct (Rprod_bounds (fun rg => nd_rho eps x rg * nd_rho eps x rg) (nd_k eps x) rfg) as [[_ H1] H2].
  - intros r _. apply nd_k_bounds. exact He.
  - split; assumption.
Qed.

Theorem abrm_loop_norm_eps0 om (rf : list CR) :
  (forall r, In r rf -> 0 < n2 r + om * om) -> nrm (abrm_loop (F:=RF) rcs 0 om rf st0) = 1.
Proof.
  intros H. rewrite abrm_loop_norm, nrm_st0, Rmult_1_r.
  induction rf as [|r rf IH]; [reflexivity|].
  change (Rprod (map (abrm_k 0 om) (r :: rf))) with (abrm_k 0 om r * Rprod (map (abrm_k 0 om) rf)).
  rewrite IH by (intros r' Hr'; apply H; right; exact Hr').
  rewrite abrm_k_eps0 by (apply H; left; reflexivity). ring.
Qed.
