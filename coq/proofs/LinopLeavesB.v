(* LinopLeavesB.v — adjoint pairs <L x, y> = <x, adj L y> for the broadcasting / contraction / block leaves of the
   deep embedding, discharging the node hypothesis of LinopTheory.adj_correct for:
     * Multiply i m c        — m a captured array of ANY numpy-broadcastable shape (same shape, suffix / size-1 axes,
                               input broadcast against a larger multiplier or one of higher rank) or a scalar (any i);
                               the modelled adjoint is Reshape . Sum(broadcast axes) . Multiply(conj)
     * MatMul / RightMatMul  — any rank >= 2, batch axes equal, absent on one side, or broadcast either way;
                               the modelled adjoint is Reshape . Sum(broadcast batch axes) . MatMul(conj-transposed)
     * ArrayToBlocks / BlocksToArray with ONE block axis (any batch shape, overlapping or gapped blocks, stride > 0),
       through the GENERATED numba kernels of gen/Gen_block.v (proofs/Block.v) and the batch-flattening wrappers.
   Every theorem needs only  wf L = true  (plus stride > 0 and a non-empty array shape for the block pair).
   Method: split the box sum over the broadcast output into kept and summed axes (sumB_split), identify the numpy
   broadcast index with the C-order reshape of the kept index (bidx), re-index along that bijection (sumB_reindex). *)
From Coq Require Import ZArith List Lia Bool Ring.
From SV Require Import lib.Scalar lib.BigSum lib.LoopIR lib.NdArray lib.Gather gen.Gen_block model.Rearrange model.Block model.Linop
  proofs.SumTools proofs.Block proofs.LinopTheory proofs.LinopLeaves proofs.LinopScale.
Import ListNotations.
Local Open Scope Z_scope.

(* ======================================================================== part 1 *)
(* ---------------------------------------------------------------- masks: which axes are summed *)
Fixpoint mrem (mask : list bool) (s : list Z) : list Z :=
  match mask, s with
  | b :: mk, n :: s' => if b then mrem mk s' else n :: mrem mk s'
  | _, _ => []
  end.

Fixpoint mkeep (mask : list bool) (s : list Z) : list Z :=
  match mask, s with
  | b :: mk, n :: s' => if b then n :: mkeep mk s' else mkeep mk s'
  | _, _ => []
  end.

Fixpoint mmerge (mask : list bool) (r k : list Z) : list Z :=
  match mask with
  | [] => []
  | true :: mk => match k with kk :: k' => kk :: mmerge mk r k' | [] => 0 :: mmerge mk r [] end
  | false :: mk => match r with rr :: r' => rr :: mmerge mk r' k | [] => 0 :: mmerge mk [] k end
  end.

Definition mask_of (axes : list Z) (d : Z) (n : nat) : list bool :=
  map (fun j => memZ j axes) (zrange_aux n d 1).

Lemma zrange0_len {A} (s : list A) : zrange 0 (lenZ s) 1 = zrange_aux (length s) 0 1.
Proof.
  unfold lenZ, zrange. change (1 <=? 0) with false. cbv iota. rewrite Z.div_1_r.
  replace (Z.of_nat (length s) - 0 + 1 - 1) with (Z.of_nat (length s)) by lia. rewrite Nat2Z.id. reflexivity.
Qed.

Lemma remove_axes_mask s axes : remove_axes s axes = mrem (mask_of axes 0 (length s)) s.
Proof.
  unfold remove_axes, mask_of. rewrite zrange0_len. generalize 0 as d.
  induction s as [|n s IH]; intros d; simpl; [reflexivity|].
  destruct (memZ d axes); simpl; rewrite IH; reflexivity.
Qed.

Lemma keep_axes_mask s axes : keep_axes s axes = mkeep (mask_of axes 0 (length s)) s.
Proof.
  unfold keep_axes, mask_of. rewrite zrange0_len. generalize 0 as d.
  induction s as [|n s IH]; intros d; simpl; [reflexivity|].
  destruct (memZ d axes); simpl; rewrite IH; reflexivity.
Qed.

Lemma merge_axes_mask s axes d o k : merge_axes d s axes o k = mmerge (mask_of axes d (length s)) o k.
Proof.
  unfold mask_of. revert d o k. induction s as [|n s IH]; intros d o k; simpl; [reflexivity|].
  destruct (memZ d axes).
  - destruct k; rewrite IH; reflexivity.
  - destruct o; rewrite IH; reflexivity.
Qed.

Lemma mrem_length_le mask s : (length (mrem mask s) <= length s)%nat.
Proof. revert s; induction mask as [|b mk IH]; intros [|n s]; simpl; try lia. specialize (IH s). destruct b; simpl; lia. Qed.

Lemma mrem_pos mask s : Forall (fun n => 0 < n) s -> Forall (fun n => 0 < n) (mrem mask s).
Proof.
  revert s; induction mask as [|b mk IH]; intros [|n s] H; simpl; try constructor.
  inversion H; subst. destruct b; [auto| constructor; auto].
Qed.

Lemma inbox_mmerge mask s r k : length mask = length s ->
  inbox (mrem mask s) r -> inbox (mkeep mask s) k -> inbox s (mmerge mask r k).
Proof.
  revert s r k; induction mask as [|b mk IH]; intros [|n s] r k L; simpl in *; try discriminate; [auto|].
  destruct b; intros Hr Hk.
  - destruct k as [|kk k]; simpl in Hk; [tauto|]. simpl. split; [tauto| apply IH; [lia|tauto|tauto]].
  - destruct r as [|rr r]; simpl in Hr; [tauto|]. simpl. split; [tauto| apply IH; [lia|tauto|tauto]].
Qed.

(* ---- the axes selected by sum_axes_loop, as a mask ---- *)
Fixpoint bmask (ie me o : list Z) : list bool :=
  match ie, me, o with
  | i :: ie', m :: me', b :: o' => ((i =? 1) && (negb (m =? 1) || negb (b =? 1))) :: bmask ie' me' o'
  | _, _, _ => []
  end.

Lemma sum_axes_loop_ge ie me o d a : In a (sum_axes_loop ie me o d) -> d <= a < d + Z.of_nat (length o).
Proof.
  revert me o d; induction ie as [|i ie IH]; intros [|m me] [|b o] d; simpl; try tauto.
  rewrite in_app_iff. intros [H|H].
  - destruct (_ && _); simpl in H; [|tauto]. lia.
  - apply IH in H. lia.
Qed.

Lemma memZ_false a l : (forall b, In b l -> b <> a) -> memZ a l = false.
Proof.
  unfold memZ. induction l as [|b l IH]; simpl; intros H; [reflexivity|].
  rewrite IH by auto. destruct (Z.eqb_spec a b) as [E|]; [|reflexivity]. exfalso. apply (H b); auto.
Qed.

Lemma memZ_app a l1 l2 : memZ a (l1 ++ l2) = memZ a l1 || memZ a l2.
Proof. unfold memZ. apply existsb_app. Qed.

Lemma mask_of_below pre d extra : (forall a, In a pre -> a < d) -> mask_of pre d extra = repeat false extra.
Proof.
  unfold mask_of. revert d; induction extra as [|e IH]; intros d H; simpl; [reflexivity|].
  rewrite IH by (intros a Ha; specialize (H a Ha); lia).
  rewrite memZ_false; [reflexivity|]. intros b Hb. specialize (H b Hb). lia.
Qed.

Lemma mask_of_sum_axes extra ie me o d pre :
  (forall a, In a pre -> a < d) -> length ie = length o -> length me = length o ->
  mask_of (pre ++ sum_axes_loop ie me o d) d (length o + extra) = bmask ie me o ++ repeat false extra.
Proof.
  revert ie me d pre; induction o as [|b o IH]; intros [|i ie] [|m me] d pre Hpre L1 L2; simpl in *; try discriminate.
  - rewrite app_nil_r. apply mask_of_below. exact Hpre.
  - unfold mask_of. simpl. fold (mask_of (pre ++ (if (i =? 1) && (negb (m =? 1) || negb (b =? 1)) then [d] else []) ++ sum_axes_loop ie me o (d + 1)) (d + 1) (length o + extra)).
    rewrite app_assoc. rewrite IH; try lia.
    2:{ intros a Ha. apply in_app_iff in Ha. destruct Ha as [Ha|Ha]; [specialize (Hpre a Ha); lia|].
        destruct (_ && _); simpl in Ha; [lia|tauto]. }
    f_equal. rewrite <- app_assoc. rewrite !memZ_app.
    rewrite (memZ_false d pre) by (intros c Hc; specialize (Hpre c Hc); lia).
    rewrite (memZ_false d (sum_axes_loop ie me o (d + 1))) by (intros c Hc; apply sum_axes_loop_ge in Hc; lia).
    destruct ((i =? 1) && (negb (m =? 1) || negb (b =? 1))); simpl; [rewrite Z.eqb_refl|]; reflexivity.
Qed.

Lemma norm_axes_id axes n : (forall a, In a axes -> 0 <= a < n) -> norm_axes_list axes n = axes.
Proof.
  unfold norm_axes_list. induction axes as [|a l IH]; simpl; intros H; [reflexivity|].
  rewrite IH by auto. rewrite Z.mod_small by (apply H; auto). reflexivity.
Qed.

Section Sums1.
  Variable R : StarRing.
  Add Ring RringB1 : (SRth R).
  Notation farr := (list Z -> R).
  Local Open Scope sr_scope.

  Lemma lb_sum_list_app (l1 l2 : list R) : sum_list R (l1 ++ l2) = sum_list R l1 + sum_list R l2.
  Proof. induction l1 as [|v l1 IH]; simpl; [ring| rewrite IH; ring]. Qed.

  Lemma lb_sum_list_flat_map {T} (g : Z -> list T) (f : T -> R) l :
    sum_list R (map f (flat_map g l)) = sumL l (fun i => sum_list R (map f (g i))).
  Proof. induction l as [|v l IH]; simpl; [reflexivity|]. rewrite map_app, lb_sum_list_app, IH. reflexivity. Qed.

  Lemma sum_list_zrange n (f : Z -> R) : sum_list R (map f (zrange 0 n 1)) = sumZ n f.
  Proof.
    rewrite <- sumL_range0. generalize (zrange 0 n 1) as l. induction l as [|v l IH]; simpl; [reflexivity| rewrite IH; reflexivity].
  Qed.

  Lemma lb_sum_list_enum s (f : farr) : sum_list R (map f (enum_box s)) = sumB s f.
  Proof.
    revert f; induction s as [|n s IH]; intros f; simpl; [ring|].
    rewrite lb_sum_list_flat_map, sumL_range0. apply sumZ_ext. intros i _.
    rewrite map_map. apply IH.
  Qed.

  (* split a box sum into kept (r) and summed (k) axes *)
  Lemma sumB_split mask s (f : farr) : length mask = length s ->
    sumB s f = sumB (mrem mask s) (fun r => sumB (mkeep mask s) (fun k => f (mmerge mask r k))).
  Proof.
    revert s f; induction mask as [|b mk IH]; intros [|n s] f L; simpl in *; try discriminate; [reflexivity|].
    destruct b; simpl.
    - rewrite sumB_sumZ_exchange. apply sumZ_ext. intros i _. rewrite (IH s) by lia. reflexivity.
    - apply sumZ_ext. intros i _. rewrite (IH s) by lia. reflexivity.
  Qed.

  (* change of summation index along a bijection of boxes *)
  Lemma sumB_reindex s t (h h' : list Z -> list Z) (f : farr) :
    (forall b, inbox t b -> inbox s (h b) /\ h' (h b) = b) ->
    (forall a, inbox s a -> inbox t (h' a) /\ h (h' a) = a) ->
    sumB s f = sumB t (fun b => f (h b)).
  Proof.
    intros H1 H2.
    transitivity (sumB t (fun b => sumB s (fun a => if idx_eqb a (h b) then f a else 0))).
    2:{ apply sumB_ext. intros b Hb. apply sumB_single. apply H1, Hb. }
    rewrite sumB_exchange. apply sumB_ext. intros a Ha.
    rewrite (sumB_ext R t _ (fun b => if idx_eqb b (h' a) then f a else 0)).
    - rewrite (sumB_single R t (h' a) (fun _ => f a)); [reflexivity| apply H2, Ha].
    - intros b Hb.
      assert (E : idx_eqb a (h b) = idx_eqb b (h' a)).
      { apply eq_true_iff_eq. rewrite !idx_eqb_spec. split; intros ->; [symmetry; apply H1, Hb| symmetry; apply H2, Ha]. }
      rewrite E. reflexivity.
  Qed.

  Lemma sumB_prepend_ones n s (f : farr) : sumB (repeat 1%Z n ++ s) f = sumB s (fun i => f (repeat 0%Z n ++ i)).
  Proof.
    revert f; induction n as [|n IH]; intros f; simpl; [reflexivity|].
    unfold sumZ at 1. simpl. rewrite IH. ring.
  Qed.
End Sums1.

(* ======================================================================== part 2 *)
(* ---------------------------------------------------------------- per-axis broadcasting facts *)
Definition msk1 (n k : Z) : Z := if n =? 1 then 0 else k.

(* ie: expanded input shape, me: expanded multiplier shape, o: broadcast output shape *)
Fixpoint ax3 (ie me o : list Z) : Prop :=
  match ie, me, o with
  | [], [], [] => True
  | a :: ie', m :: me', b :: o' => (0 < a /\ b = Z.max a m /\ bcast_dim a m = true) /\ ax3 ie' me' o'
  | _, _, _ => False
  end.

Lemma ax_summed a m b : ((a =? 1) && (negb (m =? 1) || negb (b =? 1))) = true -> a = 1.
Proof. intros H. apply andb_true_iff in H. destruct H as [H _]. apply Z.eqb_eq in H. exact H. Qed.

Lemma ax_kept a m b : 0 < a -> b = Z.max a m -> bcast_dim a m = true ->
  ((a =? 1) && (negb (m =? 1) || negb (b =? 1))) = false -> b = a.
Proof.
  unfold bcast_dim. intros Ha Hb Hbc Hm.
  destruct (Z.eqb_spec a 1), (Z.eqb_spec m 1), (Z.eqb_spec b 1), (Z.eqb_spec a m); simpl in *; try discriminate; lia.
Qed.

Lemma ax3_of_combine ie me : length ie = length me -> Forall (fun n => 0 < n) ie ->
  forallb (fun p => bcast_dim (fst p) (snd p)) (combine ie me) = true ->
  ax3 ie me (map (fun p => Z.max (fst p) (snd p)) (combine ie me)).
Proof.
  revert me; induction ie as [|a ie IH]; intros [|m me] L Hp Hb; simpl in *; try discriminate; [exact I|].
  inversion Hp; subst. apply andb_true_iff in Hb. destruct Hb as [Hb1 Hb2].
  split; [auto| apply IH; auto].
Qed.

Lemma ax3_len ie me o : ax3 ie me o -> length ie = length o /\ length me = length o.
Proof.
  revert me o; induction ie as [|a ie IH]; intros [|m me] [|b o]; simpl; try tauto.
  intros [_ H]. destruct (IH _ _ H). lia.
Qed.

Lemma ax3_pos ie me o : ax3 ie me o -> Forall (fun n => 0 < n) o /\ Forall (fun n => 0 < n) ie.
Proof.
  revert me o; induction ie as [|a ie IH]; intros [|m me] [|b o]; simpl; try tauto; [auto|].
  intros [[Ha [Hb _]] H]. destruct (IH _ _ H). split; constructor; auto; lia.
Qed.

Lemma bmask_len ie me o : ax3 ie me o -> length (bmask ie me o) = length o.
Proof.
  revert me o; induction ie as [|a ie IH]; intros [|m me] [|b o]; simpl; try tauto.
  intros [_ H]. rewrite (IH _ _ H). reflexivity.
Qed.

Lemma ax3_prod ie me o : ax3 ie me o -> prodZ (mrem (bmask ie me o) o) = prodZ ie.
Proof.
  revert me o; induction ie as [|a ie IH]; intros [|m me] [|b o]; simpl; try tauto.
  intros [[Ha [Hb Hbc]] H]. specialize (IH _ _ H).
  destruct ((a =? 1) && (negb (m =? 1) || negb (b =? 1))) eqn:E.
  - apply ax_summed in E. subst a. rewrite IH. lia.
  - rewrite (ax_kept a m b Ha Hb Hbc E). simpl. rewrite IH. reflexivity.
Qed.

(* the operator M = Multiply o m (negb c) of the adjoint has oshape = ishape = o *)
Lemma ax3_self ie me o : ax3 ie me o ->
  forallb (fun p => bcast_dim (fst p) (snd p)) (combine o me) = true /\
  map (fun p => Z.max (fst p) (snd p)) (combine o me) = o.
Proof.
  revert me o; induction ie as [|a ie IH]; intros [|m me] [|b o]; simpl; try tauto; try (intros _; split; reflexivity).
  intros [[Ha [Hb Hbc]] H]. destruct (IH _ _ H) as [E1 E2]. rewrite E1, E2. split.
  - rewrite andb_true_r. unfold bcast_dim in *.
    destruct (Z.eqb_spec a m), (Z.eqb_spec a 1), (Z.eqb_spec m 1), (Z.eqb_spec b m), (Z.eqb_spec b 1); simpl in *; try reflexivity; try discriminate; lia.
  - f_equal. lia.
Qed.

Lemma zmask_ravel ie me o r k : ax3 ie me o ->
  inbox (mrem (bmask ie me o) o) r -> inbox (mkeep (bmask ie me o) o) k ->
  inbox ie (zip2 msk1 ie (mmerge (bmask ie me o) r k)) /\
  ravel ie (zip2 msk1 ie (mmerge (bmask ie me o) r k)) = ravel (mrem (bmask ie me o) o) r.
Proof.
  revert me o r k; induction ie as [|a ie IH]; intros [|m me] [|b o] r k; simpl; try tauto.
  intros [[Ha [Hb Hbc]] H].
  { pose proof (ax3_prod _ _ _ H) as HP.
    destruct ((a =? 1) && (negb (m =? 1) || negb (b =? 1))) eqn:E.
    + pose proof (ax_summed _ _ _ E) as Ea. subst a. intros Hr Hk.
      destruct k as [|kk k]; simpl in Hk; [tauto|]. destruct Hk as [Hkk Hk].
      destruct (IH _ _ _ _ H Hr Hk) as [I1 I2]. cbn [zip2 inbox ravel].
      assert (Eh : msk1 1 kk = 0) by reflexivity. rewrite Eh.
      split; [split; [lia| exact I1]| rewrite I2; lia].
    + pose proof (ax_kept a m b Ha Hb Hbc E) as Eb. intros Hr Hk.
      destruct r as [|rr r]; simpl in Hr; [tauto|]. destruct Hr as [Hrr Hr].
      destruct (IH _ _ _ _ H Hr Hk) as [I1 I2]. cbn [zip2 inbox ravel].
      assert (Eh : msk1 a rr = rr). { unfold msk1. destruct (Z.eqb_spec a 1); lia. }
      rewrite Eh. split; [split; [lia| exact I1]| rewrite I2, HP; reflexivity]. }
Qed.

Lemma ones_prefix di i z : inbox (repeat 1 di ++ i) z ->
  inbox i (skipn di z) /\ ravel (repeat 1 di ++ i) z = ravel i (skipn di z).
Proof.
  revert z; induction di as [|di IH]; intros z; simpl; [auto|].
  destruct z as [|z0 z]; [tauto|]. intros [Hz0 Hz]. destruct (IH z Hz) as [I1 I2].
  assert (z0 = 0) by lia. subst z0.
  split; [exact I1| rewrite I2; lia].
Qed.

Lemma prodZ_ones di i : prodZ (repeat 1 di ++ i) = prodZ i.
Proof. induction di as [|di IH]; cbn [repeat app prodZ]; [reflexivity| rewrite IH; lia]. Qed.

Lemma bidx ie me o di i r k : ax3 ie me o -> ie = repeat 1 di ++ i ->
  inbox (mrem (bmask ie me o) o) r -> inbox (mkeep (bmask ie me o) o) k ->
  skipn di (zip2 msk1 ie (mmerge (bmask ie me o) r k)) = unravel i (ravel (mrem (bmask ie me o) o) r).
Proof.
  intros Hax Eie Hr Hk. destruct (zmask_ravel ie me o r k Hax Hr Hk) as [I1 I2].
  rewrite <- I2. revert I1. generalize (zip2 msk1 ie (mmerge (bmask ie me o) r k)) as z. rewrite Eie. intros z Hz.
  destruct (ones_prefix di i z Hz) as [J1 J2]. rewrite J2. symmetry. apply unravel_ravel. exact J1.
Qed.

Section Core.
  Variable R : StarRing.
  Add Ring RringB2 : (SRth R).
  Notation farr := (list Z -> R).
  Local Open Scope sr_scope.

  (* <x (x) m, y> over the broadcast box  =  <x, Reshape (Sum_axes (conj m . y))> over the input box *)
  Lemma multiply_core ie me o di i (x y mf : farr) : ax3 ie me o -> ie = repeat 1%Z di ++ i ->
    let mask := bmask ie me o in
    let os := mrem mask o in
    sumB o (fun ov => x (skipn di (zip2 msk1 ie ov)) * mf ov * conj (y ov)) =
    sumB i (fun iv => x iv * conj (sumB (mkeep mask o) (fun k =>
        y (mmerge mask (unravel os (ravel i iv)) k) * conj (mf (mmerge mask (unravel os (ravel i iv)) k))))).
  Proof.
    intros Hax Eie mask os.
    pose proof (bmask_len _ _ _ Hax) as Lm. fold mask in Lm.
    destruct (ax3_pos _ _ _ Hax) as [Po Pie].
    assert (Pos : Forall (fun n => (0 < n)%Z) os) by (apply mrem_pos; exact Po).
    assert (Pi : Forall (fun n => (0 < n)%Z) i).
    { rewrite Eie in Pie. apply Forall_app in Pie. tauto. }
    assert (EP : prodZ os = prodZ i).
    { unfold os, mask. rewrite (ax3_prod _ _ _ Hax), Eie. apply prodZ_ones. }
    rewrite (sumB_split R mask o) by exact Lm. fold os.
    rewrite (sumB_ext R os _ (fun r => x (unravel i (ravel os r)) *
               sumB (mkeep mask o) (fun k => mf (mmerge mask r k) * conj (y (mmerge mask r k))))).
    2:{ intros r Hr. rewrite <- sumB_scale. apply sumB_ext. intros k Hk.
        unfold os, mask. rewrite (bidx ie me o di i r k Hax Eie Hr Hk). ring. }
    rewrite (sumB_reindex R os i (fun iv => unravel os (ravel i iv)) (fun r => unravel i (ravel os r))).
    - apply sumB_ext. intros iv Hiv.
      pose proof (ravel_bound i iv Hiv) as Hb.
      destruct (ravel_unravel os (ravel i iv) Pos ltac:(lia)) as [E1 _].
      rewrite E1, (unravel_ravel i iv Hiv). f_equal.
      rewrite sumB_conj. apply sumB_ext. intros k _. rewrite conj_mul, conj_invol. ring.
    - intros iv Hiv. pose proof (ravel_bound i iv Hiv) as Hb.
      destruct (ravel_unravel os (ravel i iv) Pos ltac:(lia)) as [E1 E2].
      split; [exact E2|]. rewrite E1. apply unravel_ravel. exact Hiv.
    - intros r Hr. pose proof (ravel_bound os r Hr) as Hb.
      destruct (ravel_unravel i (ravel os r) Pi ltac:(lia)) as [E1 E2].
      split; [exact E2|]. rewrite E1. apply unravel_ravel. exact Hr.
  Qed.
End Core.

(* ======================================================================== part 3 *)
(* ---------------------------------------------------------------- shapes of Multiply by an array *)
Definition mul_ie (i ms : list Z) : list Z := fst (expand_shapes i ms).
Definition mul_me (i ms : list Z) : list Z := snd (expand_shapes i ms).
Definition mul_o (i ms : list Z) : list Z :=
  map (fun p => Z.max (fst p) (snd p)) (combine (mul_ie i ms) (mul_me i ms)).
Definition mul_mask (i ms : list Z) : list bool := bmask (mul_ie i ms) (mul_me i ms) (mul_o i ms).

Lemma expand_eq i ms : expand_shapes i ms = (mul_ie i ms, mul_me i ms).
Proof. reflexivity. Qed.

Lemma mul_ie_eq i ms : mul_ie i ms = repeat 1 (Nat.max (length i) (length ms) - length i) ++ i.
Proof. reflexivity. Qed.

Lemma mul_me_eq i ms : mul_me i ms = repeat 1 (Nat.max (length i) (length ms) - length ms) ++ ms.
Proof. reflexivity. Qed.

Lemma mul_ie_len i ms : length (mul_ie i ms) = Nat.max (length i) (length ms).
Proof. rewrite mul_ie_eq, app_length, repeat_length. lia. Qed.

Lemma mul_me_len i ms : length (mul_me i ms) = Nat.max (length i) (length ms).
Proof. rewrite mul_me_eq, app_length, repeat_length. lia. Qed.

Lemma expand_o i ms o : length o = Nat.max (length i) (length ms) -> expand_shapes o ms = (o, mul_me i ms).
Proof.
  intros L. unfold expand_shapes. rewrite mul_me_eq, L.
  replace (Nat.max (Nat.max (length i) (length ms)) (length ms)) with (Nat.max (length i) (length ms)) by lia.
  rewrite Nat.sub_diag. reflexivity.
Qed.

Lemma all_pos_spec s : all_pos s = true <-> Forall (fun n => 0 < n) s.
Proof.
  unfold all_pos. rewrite forallb_forall, Forall_forall. split; intros H n Hn; specialize (H n Hn); apply Z.ltb_lt; exact H.
Qed.

Lemma multiply_wf_facts i ms : all_pos i = true -> forall o, multiply_oshape i ms = Ok o ->
  o = mul_o i ms /\ ax3 (mul_ie i ms) (mul_me i ms) (mul_o i ms).
Proof.
  intros Hp o Ho. unfold multiply_oshape in Ho. rewrite expand_eq in Ho.
  destruct (forallb (fun p => bcast_dim (fst p) (snd p)) (combine (mul_ie i ms) (mul_me i ms))) eqn:Hb; [|discriminate].
  simpl in Ho. inversion Ho; subst o. split; [reflexivity|].
  apply ax3_of_combine; [rewrite mul_ie_len, mul_me_len; reflexivity| | exact Hb].
  rewrite mul_ie_eq. apply Forall_app. split; [|apply all_pos_spec; exact Hp].
  apply Forall_forall. intros n Hn. apply repeat_spec in Hn. lia.
Qed.

Lemma wf_multiply i m c : wf (Multiply i m c) = true ->
  all_pos i = true /\ exists o, multiply_oshape i (mshape_of m) = Ok o /\ all_pos o = true /\
                                shapes (Multiply i m c) = Ok (o, i).
Proof.
  unfold wf. cbn [shapes]. destruct (multiply_oshape i (mshape_of m)) as [o|]; [|discriminate].
  cbn [bind]. unfold finish. destruct (all_pos o && all_pos i) eqn:E; [|discriminate]. intros _.
  apply andb_true_iff in E. destruct E. split; [assumption|]. exists o. auto.
Qed.

Lemma shapes_multiply_self i ms m c o : mshape_of m = ms ->
  ax3 (mul_ie i ms) (mul_me i ms) o -> all_pos o = true ->
  shapes (Multiply o m c) = Ok (o, o).
Proof.
  intros Em Hax Hp. cbn [shapes]. rewrite Em. unfold multiply_oshape.
  destruct (ax3_len _ _ _ Hax) as [L1 _]. rewrite mul_ie_len in L1.
  rewrite (expand_o i ms o (eq_sym L1)).
  destruct (ax3_self _ _ _ Hax) as [E1 E2]. rewrite E1, E2. cbn [negb bind]. unfold finish. rewrite Hp. reflexivity.
Qed.

Lemma sum_axes_in_range ie me o a : In a (sum_axes_loop ie me o 0) -> 0 <= a < lenZ o.
Proof. intros H. apply sum_axes_loop_ge in H. unfold lenZ. lia. Qed.

Lemma shapes_sum_axes ie me o extra o2 : length ie = length o -> length me = length o -> length o2 = extra ->
  all_pos (o ++ o2) = true ->
  let axes := sum_axes_loop ie me o 0 in
  norm_axes_list axes (lenZ (o ++ o2)) = axes /\
  shapes (Sum (o ++ o2) axes) = Ok (mrem (bmask ie me o ++ repeat false extra) (o ++ o2), o ++ o2).
Proof.
  intros L1 L2 L3 Hp axes.
  assert (En : norm_axes_list axes (lenZ (o ++ o2)) = axes).
  { apply norm_axes_id. intros a Ha. apply sum_axes_loop_ge in Ha. unfold lenZ. rewrite app_length. lia. }
  split; [exact En|]. cbn [shapes]. rewrite En, remove_axes_mask.
  rewrite app_length, L3. change axes with ([] ++ axes). unfold axes.
  rewrite (mask_of_sum_axes extra ie me o 0 []); [| intros a [] | exact L1 | exact L2].
  unfold finish. rewrite Hp, andb_true_r.
  assert (Hq : all_pos (mrem (bmask ie me o ++ repeat false extra) (o ++ o2)) = true).
  { apply all_pos_spec, mrem_pos, all_pos_spec, Hp. }
  rewrite Hq. reflexivity.
Qed.

Lemma bcast_index_id s ov : inbox s ov -> bcast_index s (length s - length s) ov = ov.
Proof.
  intros H. unfold bcast_index. rewrite Nat.sub_diag. cbn [skipn]. apply bcast_id. exact H.
Qed.

Section Mul.
  Variable R : StarRing.
  Add Ring RringB3 : (SRth R).
  Notation farr := (list Z -> R).
  Variable arr : Z -> farr.
  Variable scal : Z -> R.
  Variable orc : linop -> farr -> farr.
  Notation D := (D R arr scal orc).
  Local Open Scope sr_scope.

  (* the multiplier as a function of the full broadcast index *)
  Definition mval (i : list Z) (m : mult_t) (ov : list Z) : R :=
    match m with
    | MScalar t => scal t
    | MArray a =>
        arr (atag a) (bcast_index (mul_me i (ashape_of a)) (length (mul_me i (ashape_of a)) - length (ashape_of a)) ov)
    end.

  Lemma D_multiply_gen i m c x ov :
    D (Multiply i m c) x ov =
    x (bcast_index (mul_ie i (mshape_of m)) (length (mul_ie i (mshape_of m)) - length i) ov)
    * (if c then conj (mval i m ov) else mval i m ov).
  Proof. destruct m; reflexivity. Qed.

  Lemma D_multiply_self i m c o y ov : length o = Nat.max (length i) (length (mshape_of m)) -> inbox o ov ->
    D (Multiply o m c) y ov = y ov * (if c then conj (mval i m ov) else mval i m ov).
  Proof.
    intros L Hb. unfold LinopTheory.D. cbn [den]. unfold den_multiply. destruct m as [t|a]; cbn [mshape_of] in L.
    - rewrite (expand_o i [1%Z] o L). rewrite bcast_index_id by exact Hb. reflexivity.
    - rewrite (expand_o i (ashape_of a) o L). rewrite bcast_index_id by exact Hb. reflexivity.
  Qed.

  Lemma D_sum_mask s axes (z : farr) r :
    norm_axes_list axes (lenZ s) = axes ->
    D (Sum s axes) z r =
    sumB (mkeep (mask_of axes 0 (length s)) s) (fun k => z (mmerge (mask_of axes 0 (length s)) r k)).
  Proof.
    intros En. unfold LinopTheory.D. cbn [den]. unfold den_sum. rewrite En, keep_axes_mask.
    rewrite <- (lb_sum_list_enum R). f_equal. apply map_ext. intros k. rewrite merge_axes_mask. reflexivity.
  Qed.

  (* Multiply by a captured array (any numpy-broadcastable pair of shapes) or by a scalar (any input shape) *)
  Theorem apair_multiply i m c :
    wf (Multiply i m c) = true -> apair R arr scal orc (Multiply i m c).
  Proof.
    intros Hwf. set (ms := mshape_of m).
    destruct (wf_multiply _ _ _ Hwf) as (Hpi & o & Ho & Hpo & Hsh). fold ms in Ho.
    destruct (multiply_wf_facts i ms Hpi o Ho) as [Eo Hax].
    set (ie := mul_ie i ms) in *. set (me := mul_me i ms) in *.
    rewrite <- Eo in Hax.
    destruct (ax3_len _ _ _ Hax) as [L1 L2].
    assert (Lo : length o = Nat.max (length i) (length ms)) by (rewrite <- L1; apply mul_ie_len).
    set (mask := bmask ie me o). set (os := mrem mask o).
    set (axes := sum_axes_loop ie me o 0).
    assert (HpoA : all_pos (o ++ []) = true) by (rewrite app_nil_r; exact Hpo).
    destruct (shapes_sum_axes ie me o 0%nat [] L1 L2 eq_refl HpoA) as [En HS].
    rewrite !app_nil_r in HS, En. cbn [repeat] in HS. rewrite app_nil_r in HS. fold axes in HS, En. fold mask in HS. fold os in HS.
    assert (HM : shapes (Multiply o m (negb c)) = Ok (o, o)).
    { apply (shapes_multiply_self i ms); [reflexivity| exact Hax| exact Hpo]. }
    assert (Eadj : adj (Multiply i m c) = Compose [Reshape i os; Sum o axes; Multiply o m (negb c)]).
    { cbn [adj]. unfold oshape_of. rewrite Hsh. rewrite HM.
      unfold multiply_adjoint_sum_axes. fold ms. rewrite expand_eq. fold ie me axes.
      rewrite HS. reflexivity. }
    unfold apair, LinopTheory.apair. unfold oshape_of, ishape_of. rewrite Hsh, Eadj.
    intros x y. unfold inner.
    assert (Eie : ie = repeat 1%Z (Nat.max (length i) (length ms) - length i) ++ i) by apply mul_ie_eq.
    set (di := (Nat.max (length i) (length ms) - length i)%nat) in *.
    assert (Edi : (length ie - length i)%nat = di).
    { unfold ie. rewrite mul_ie_len. reflexivity. }
    set (mf := fun ov => if c then conj (mval i m ov) else mval i m ov).
    transitivity (sumB o (fun ov => x (skipn di (zip2 msk1 ie ov)) * mf ov * conj (y ov))).
    { apply sumB_ext. intros ov _. rewrite D_multiply_gen. fold ms ie. rewrite Edi. reflexivity. }
    rewrite (multiply_core R ie me o di i x y mf Hax Eie). fold mask os.
    apply sumB_ext. intros iv Hiv. f_equal. f_equal.
    rewrite D_compose. cbn [fold_right].
    assert (Pos : Forall (fun n => (0 < n)%Z) os) by (apply mrem_pos, all_pos_spec; exact Hpo).
    assert (EP : prodZ os = prodZ i).
    { unfold os, mask. rewrite (ax3_prod _ _ _ Hax), Eie. apply prodZ_ones. }
    pose proof (ravel_bound i iv Hiv) as Hb.
    destruct (ravel_unravel os (ravel i iv) Pos ltac:(lia)) as [_ Hg].
    set (g := unravel os (ravel i iv)) in *.
    change (D (Reshape i os) (D (Sum o axes) (D (Multiply o m (negb c)) y)) iv)
      with (D (Sum o axes) (D (Multiply o m (negb c)) y) g).
    rewrite D_sum_mask by exact En.
    assert (Emask : mask_of axes 0 (length o) = mask).
    { pose proof (mask_of_sum_axes 0 ie me o 0%Z [] ltac:(intros ? []) L1 L2) as Hm.
      rewrite Nat.add_0_r in Hm. cbn [repeat app] in Hm. rewrite app_nil_r in Hm. exact Hm. }
    rewrite Emask. apply sumB_ext. intros k Hk.
    assert (Hov : inbox o (mmerge mask g k)).
    { apply inbox_mmerge; [apply bmask_len; exact Hax| exact Hg| exact Hk]. }
    rewrite (D_multiply_self i m (negb c) o y _ Lo Hov). unfold mf.
    destruct c; cbn [negb]; rewrite ?conj_invol; reflexivity.
  Qed.
End Mul.

(* ======================================================================== part 4 *)
(* ---------------------------------------------------------------- lists ending in two matrix axes *)
Lemma last2_split (l : list Z) : (2 <= length l)%nat -> exists p u v, l = p ++ [u; v].
Proof.
  intros H. rewrite <- (rev_involutive l). rewrite <- (rev_length l) in H.
  destruct (rev l) as [|v [|u r]]; simpl in H; try lia.
  exists (rev r), u, v. simpl. rewrite <- app_assoc. reflexivity.
Qed.

Lemma pyget_m1 p u v : pyget (p ++ [u; v]) (-1) = v.
Proof.
  unfold pyget, getZ. change (-1 <? 0) with true. cbv iota. rewrite app_length. cbn [length].
  replace (Z.to_nat (Z.of_nat (length p + 2) + -1)) with (length p + 1)%nat by lia.
  rewrite app_nth2 by lia. replace (length p + 1 - length p)%nat with 1%nat by lia. reflexivity.
Qed.

Lemma pyget_m2 p u v : pyget (p ++ [u; v]) (-2) = u.
Proof.
  unfold pyget, getZ. change (-2 <? 0) with true. cbv iota. rewrite app_length. cbn [length].
  replace (Z.to_nat (Z.of_nat (length p + 2) + -2)) with (length p + 0)%nat by lia.
  rewrite app_nth2 by lia. replace (length p + 0 - length p)%nat with 0%nat by lia. reflexivity.
Qed.

Lemma firstn_pre {A} (p q : list A) : firstn (length p) (p ++ q) = p.
Proof. rewrite firstn_app, firstn_all, Nat.sub_diag. simpl. apply app_nil_r. Qed.

Lemma nth_pre0 (p : list Z) u v : nth (length p) (p ++ [u; v]) 0 = u.
Proof. rewrite app_nth2 by lia. rewrite Nat.sub_diag. reflexivity. Qed.

Lemma nth_pre1 (p : list Z) u v : nth (S (length p)) (p ++ [u; v]) 0 = v.
Proof. rewrite app_nth2 by lia. replace (S (length p) - length p)%nat with 1%nat by lia. reflexivity. Qed.

Lemma swap_last2_app p u v : swap_last2 (p ++ [u; v]) = p ++ [v; u].
Proof.
  unfold swap_last2. rewrite rev_app_distr. cbn [rev app]. rewrite rev_involutive, <- app_assoc. reflexivity.
Qed.

Lemma inbox_app_inv s1 s2 ov : inbox (s1 ++ s2) ov ->
  inbox s1 (firstn (length s1) ov) /\ inbox s2 (skipn (length s1) ov).
Proof.
  revert ov; induction s1 as [|n s1 IH]; intros ov; simpl; [auto|].
  destruct ov as [|k ov]; [tauto|]. intros [Hk H]. destruct (IH ov H). simpl. tauto.
Qed.

Lemma inbox_last2 p u v ov : inbox (p ++ [u; v]) ov ->
  inbox p (firstn (length p) ov) /\ 0 <= nth (length p) ov 0 < u /\ 0 <= nth (S (length p)) ov 0 < v /\
  ov = firstn (length p) ov ++ [nth (length p) ov 0; nth (S (length p)) ov 0].
Proof.
  intros H. destruct (inbox_app_inv _ _ _ H) as [H1 H2].
  pose proof (inbox_length _ _ H1) as L1. pose proof (firstn_skipn (length p) ov) as E.
  destruct (skipn (length p) ov) as [|a [|b [|c t]]]; simpl in H2; try tauto.
  remember (firstn (length p) ov) as f eqn:Ef. clear Ef. subst ov.
  rewrite <- L1. rewrite nth_pre0, nth_pre1. tauto.
Qed.

Lemma ax3_app2 ib mb ob K C : ax3 ib mb ob -> 0 < K -> 0 < C ->
  ax3 (ib ++ [K; C]) (mb ++ [K; C]) (ob ++ [K; C]) /\
  bmask (ib ++ [K; C]) (mb ++ [K; C]) (ob ++ [K; C]) = bmask ib mb ob ++ [false; false].
Proof.
  intros Hax HK HC. revert mb ob Hax; induction ib as [|a ib IH]; intros [|m mb] [|b ob]; simpl; try tauto.
  - intros _. unfold bcast_dim. rewrite !Z.eqb_refl. simpl. split; [repeat split; lia|].
    destruct (K =? 1), (C =? 1); reflexivity.
  - intros [H1 H2]. destruct (IH _ _ H2) as [I1 I2]. rewrite I2. tauto.
Qed.

Section MM.
  Variable R : StarRing.
  Add Ring RringB4 : (SRth R).
  Notation farr := (list Z -> R).
  Local Open Scope sr_scope.

  Lemma sumZ_scale_r' n (f : Z -> R) c : sumZ n f * c = sumZ n (fun k => f k * c).
  Proof. rewrite (Rmul_comm (SRth R)), <- sumZ_scale. apply sumZ_ext. intros; ring. Qed.

  Lemma sumB_app' s1 s2 (f : farr) :
    sumB (s1 ++ s2) f = sumB s1 (fun i1 => sumB s2 (fun i2 => f (i1 ++ i2))).
  Proof.
    revert f; induction s1 as [|n s1 IH]; intros f; simpl; [reflexivity|].
    apply sumZ_ext. intros i _. rewrite IH. reflexivity.
  Qed.

  (* a family (indexed by j < J) of broadcast multiplications sharing the input x *)
  Lemma bcast_family ie me o di i J (x : farr) (Ef yf : Z -> farr) : ax3 ie me o -> ie = repeat 1%Z di ++ i ->
    let mask := bmask ie me o in
    let os := mrem mask o in
    sumZ J (fun j => sumB o (fun ov => x (skipn di (zip2 msk1 ie ov)) * Ef j ov * conj (yf j ov))) =
    sumB i (fun iv => x iv * conj (sumB (mkeep mask o) (fun k =>
        sumZ J (fun j => conj (Ef j (mmerge mask (unravel os (ravel i iv)) k)) * yf j (mmerge mask (unravel os (ravel i iv)) k))))).
  Proof.
    intros Hax Eie mask os.
    rewrite (sumZ_ext R J _ (fun j => sumB i (fun iv => x iv * conj (sumB (mkeep mask o) (fun k =>
        yf j (mmerge mask (unravel os (ravel i iv)) k) * conj (Ef j (mmerge mask (unravel os (ravel i iv)) k))))))).
    2:{ intros j _. apply (multiply_core R ie me o di i x (yf j) (Ef j) Hax Eie). }
    rewrite <- sumB_sumZ_exchange. apply sumB_ext. intros iv _.
    rewrite sumZ_scale, <- sumZ_conj. f_equal. f_equal.
    rewrite <- sumB_sumZ_exchange. apply sumB_ext. intros k _. apply sumZ_ext. intros j _. ring.
  Qed.

  (* left matrix product: out[bb,r,c] = sum_k E bb r k * x[bcast (bb,k,c)] *)
  Lemma matmul_core ib mb ob K C Rr di i (x y : farr) (E : list Z -> Z -> Z -> R) :
    ax3 ib mb ob -> (0 < K)%Z -> (0 < C)%Z -> ib ++ [K; C] = repeat 1%Z di ++ i ->
    let nb := length ob in
    let ie := ib ++ [K; C] in
    let o' := ob ++ [K; C] in
    let mask := bmask ib mb ob ++ [false; false] in
    let os := mrem mask o' in
    sumB (ob ++ [Rr; C]) (fun ov =>
       sumZ K (fun k => E (firstn nb ov) (nth nb ov 0%Z) k
                        * x (skipn di (zip2 msk1 ie (firstn nb ov ++ [k; nth (S nb) ov 0%Z])))) * conj (y ov)) =
    sumB i (fun iv => x iv * conj (sumB (mkeep mask o') (fun kk =>
       sumZ Rr (fun r => conj (E (firstn nb (mmerge mask (unravel os (ravel i iv)) kk)) r
                                 (nth nb (mmerge mask (unravel os (ravel i iv)) kk) 0%Z))
                         * y (firstn nb (mmerge mask (unravel os (ravel i iv)) kk)
                              ++ [r; nth (S nb) (mmerge mask (unravel os (ravel i iv)) kk) 0%Z]))))).
  Proof.
    intros Hax HK HC Eie nb ie o' mask os.
    destruct (ax3_app2 ib mb ob K C Hax HK HC) as [Hax' Em].
    pose proof (bcast_family ie (mb ++ [K; C]) o' di i Rr x
                  (fun r ov' => E (firstn nb ov') r (nth nb ov' 0%Z))
                  (fun r ov' => y (firstn nb ov' ++ [r; nth (S nb) ov' 0%Z])) Hax' Eie) as HF.
    cbv zeta in HF. unfold ie, o' in HF. rewrite Em in HF. fold mask ie o' os in HF.
    rewrite <- HF. clear HF.
    (* left side: reorganise the sums *)
    rewrite sumB_app'.
    rewrite (sumZ_ext R Rr _ (fun r => sumB ob (fun bb => sumZ K (fun k => sumZ C (fun c =>
               x (skipn di (zip2 msk1 ie (bb ++ [k; c]))) * E bb r k * conj (y (bb ++ [r; c]))))))).
    2:{ intros r _. unfold o'. rewrite sumB_app'. apply sumB_ext. intros bb Hbb.
        pose proof (inbox_length _ _ Hbb) as Lb. fold nb in Lb.
        cbn [sumB]. apply sumZ_ext. intros k _. apply sumZ_ext. intros c _.
        rewrite <- Lb. rewrite firstn_pre, nth_pre0, nth_pre1. reflexivity. }
    rewrite <- sumB_sumZ_exchange. apply sumB_ext. intros bb Hbb.
    pose proof (inbox_length _ _ Hbb) as Lb. fold nb in Lb.
    cbn [sumB]. apply sumZ_ext. intros r _.
    rewrite sumZ_exchange. apply sumZ_ext. intros c _.
    rewrite <- Lb. rewrite firstn_pre, nth_pre0, nth_pre1.
    rewrite sumZ_scale_r'. apply sumZ_ext. intros k _. ring.
  Qed.
End MM.

(* ======================================================================== part 5 *)
Lemma inbox_app' s1 s2 i1 i2 : inbox s1 i1 -> inbox s2 i2 -> inbox (s1 ++ s2) (i1 ++ i2).
Proof.
  revert i1; induction s1 as [|n s1 IH]; intros [|i i1]; simpl; try tauto.
  intros [H1 H2] H3. split; [exact H1| apply IH; assumption].
Qed.

Lemma all_pos_app a b : all_pos (a ++ b) = all_pos a && all_pos b.
Proof. unfold all_pos. apply forallb_app. Qed.

Lemma mul_ie_pos i ms : all_pos i = true -> Forall (fun n => 0 < n) (mul_ie i ms).
Proof.
  intros Hp. rewrite mul_ie_eq. apply Forall_app. split; [|apply all_pos_spec; exact Hp].
  apply Forall_forall. intros n Hn. apply repeat_spec in Hn. lia.
Qed.

Lemma app_inj_len {A} (p q : list A) u v : length p = length q -> p ++ u = q ++ v -> p = q /\ u = v.
Proof.
  revert q; induction p as [|a p IH]; intros [|b q] L H; simpl in *; try discriminate; [auto|].
  inversion H; subst. destruct (IH q ltac:(lia) H2). subst. auto.
Qed.

(* what a well-formed (Right)MatMul looks like: batch axes ib/mb/ob and the two matrix axes *)
Lemma matmul_oshape_split i ms adj o : all_pos i = true -> matmul_oshape i ms adj = Ok o ->
  exists ib mb ob K C Rr,
    mul_ie i ms = ib ++ [K; C] /\ mul_me i ms = mb ++ (if adj then [K; Rr] else [Rr; K]) /\
    ax3 ib mb ob /\ o = ob ++ [Rr; C] /\ 0 < K /\ 0 < C.
Proof.
  intros Hp Ho. unfold matmul_oshape in Ho. rewrite expand_eq in Ho.
  pose proof (mul_ie_len i ms) as Li. pose proof (mul_me_len i ms) as Lm. pose proof (mul_ie_pos i ms Hp) as Pie.
  destruct (length (mul_ie i ms) <? 2)%nat eqn:Hnd; [discriminate|]. apply Nat.ltb_ge in Hnd.
  destruct (last2_split (mul_ie i ms) Hnd) as (ib & K & C & Eie).
  assert (Hnd' : (2 <= length (mul_me i ms))%nat) by lia.
  destruct (last2_split (mul_me i ms) Hnd') as (mb & u & v & Eme).
  rewrite Eie, Eme in Ho.
  assert (Lb : length ib = length mb).
  { rewrite Eie, app_length in Li. rewrite Eme, app_length in Lm. simpl in Li, Lm. lia. }
  assert (Eme' : (if adj then swap_last2 (mb ++ [u; v]) else mb ++ [u; v]) = mb ++ (if adj then [v; u] else [u; v])).
  { destruct adj; [apply swap_last2_app| reflexivity]. }
  rewrite Eme' in Ho.
  replace (length (ib ++ [K; C]) - 2)%nat with (length ib) in Ho by (rewrite app_length; simpl; lia).
  rewrite firstn_pre in Ho. rewrite Lb, firstn_pre in Ho.
  destruct (forallb (fun p => bcast_dim (fst p) (snd p)) (combine ib mb)) eqn:Hb; [|discriminate].
  rewrite pyget_m1, !pyget_m2 in Ho.
  rewrite Eie in Pie. apply Forall_app in Pie. destruct Pie as [Pib PKC].
  inversion PKC as [|? ? HK PC]; subst. inversion PC as [|? ? HC _]; subst.
  exists ib, mb, (map (fun p => Z.max (fst p) (snd p)) (combine ib mb)), K, C.
  destruct adj; cbn [negb] in Ho.
  - rewrite pyget_m1, pyget_m2 in Ho. destruct (Z.eqb_spec u K) as [->|]; [|discriminate]. cbn [negb] in Ho.
    inversion Ho; subst o. exists v. repeat split; try assumption. apply ax3_of_combine; assumption.
  - rewrite pyget_m1, pyget_m2 in Ho. destruct (Z.eqb_spec v K) as [->|]; [|discriminate]. cbn [negb] in Ho.
    inversion Ho; subst o. exists u. repeat split; try assumption. apply ax3_of_combine; assumption.
Qed.

Lemma matmul_oshape_build i ms (adj : bool) ib mb ob K C Rr :
  mul_ie i ms = ib ++ [K; C] -> mul_me i ms = mb ++ (if adj then [K; Rr] else [Rr; K]) ->
  length ib = length mb -> forallb (fun p => bcast_dim (fst p) (snd p)) (combine ib mb) = true ->
  map (fun p => Z.max (fst p) (snd p)) (combine ib mb) = ob ->
  matmul_oshape i ms adj = Ok (ob ++ [Rr; C]).
Proof.
  intros Eie Eme Lb Hb Eo. unfold matmul_oshape. rewrite expand_eq, Eie, Eme.
  assert (Eme' : (if adj then swap_last2 (mb ++ (if adj then [K; Rr] else [Rr; K])) else mb ++ (if adj then [K; Rr] else [Rr; K]))
                 = mb ++ [Rr; K]).
  { destruct adj; [apply swap_last2_app| reflexivity]. }
  rewrite Eme'.
  replace (length (ib ++ [K; C]) - 2)%nat with (length ib) by (rewrite app_length; simpl; lia).
  replace (length (ib ++ [K; C]) <? 2)%nat with false by (symmetry; apply Nat.ltb_ge; rewrite app_length; simpl; lia).
  rewrite firstn_pre. rewrite Lb, firstn_pre. rewrite Hb. cbn [negb].
  rewrite !pyget_m1, !pyget_m2, Z.eqb_refl. cbn [negb]. rewrite Eo. reflexivity.
Qed.

Section MatMul.
  Variable R : StarRing.
  Add Ring RringB5 : (SRth R).
  Notation farr := (list Z -> R).
  Variable arr : Z -> farr.
  Variable scal : Z -> R.
  Variable orc : linop -> farr -> farr.
  Notation D := (D R arr scal orc).
  Local Open Scope sr_scope.

  Lemma mat_entry_adj a aj me0 bb r k :
    mat_entry R arr a (negb aj) me0 bb k r = conj (mat_entry R arr a aj me0 bb r k).
  Proof. destruct aj; unfold mat_entry; cbn [negb]; cbv iota; rewrite ?conj_invol; reflexivity. Qed.

  Lemma D_matmul_left i a aj ib K C x ov : mul_ie i (ashape_of a) = ib ++ [K; C] ->
    let nb := length ib in
    D (MatMul i a aj) x ov =
    sumZ K (fun k => mat_entry R arr a aj (mul_me i (ashape_of a)) (firstn nb ov) (nth nb ov 0%Z) k
                     * x (bcast_index (ib ++ [K; C]) (nb + 2 - length i) (firstn nb ov ++ [k; nth (S nb) ov 0%Z]))).
  Proof.
    intros Eie nb. unfold LinopTheory.D. cbn [den]. unfold den_matmul. rewrite expand_eq, Eie.
    rewrite pyget_m2. rewrite app_length. cbn [length].
    replace (length ib + 2 - 2)%nat with nb by (unfold nb; lia).
    replace (length ib + 2 - 1)%nat with (S nb) by (unfold nb; lia).
    fold nb. rewrite <- sum_list_zrange. reflexivity.
  Qed.

  Theorem apair_matmul i a aj : wf (MatMul i a aj) = true -> apair R arr scal orc (MatMul i a aj).
  Proof.
    intros Hwf. set (ms := ashape_of a).
    assert (Hw : all_pos i = true /\ exists o, matmul_oshape i ms aj = Ok o /\ all_pos o = true /\
                                               shapes (MatMul i a aj) = Ok (o, i)).
    { unfold wf in Hwf. cbn [shapes] in *. fold ms in Hwf |- *. destruct (matmul_oshape i ms aj) as [o|]; [|discriminate].
      cbn [bind] in *. unfold finish in *. destruct (all_pos o && all_pos i) eqn:E; [|discriminate].
      apply andb_true_iff in E. destruct E. split; [assumption|]. exists o. auto. }
    destruct Hw as (Hpi & o & Ho & Hpo & Hsh).
    destruct (matmul_oshape_split i ms aj o Hpi Ho) as (ib & mb & ob & K & C & Rr & Eie & Eme & Hax & Eo & HK & HC).
    subst o.
    destruct (ax3_len _ _ _ Hax) as [L1 L2].
    assert (Lo : length (ob ++ [Rr; C]) = Nat.max (length i) (length ms)).
    { rewrite <- (mul_ie_len i ms), Eie, !app_length, L1. reflexivity. }
    assert (HpRC : all_pos ob = true /\ (0 < Rr)%Z).
    { rewrite all_pos_app in Hpo. apply andb_true_iff in Hpo. destruct Hpo as [H1 H2]. split; [exact H1|].
      apply all_pos_spec in H2. inversion H2; assumption. }
    destruct HpRC as [Hpob HR].
    set (o := ob ++ [Rr; C]) in *. set (o' := ob ++ [K; C]).
    assert (Hpo' : all_pos o' = true).
    { unfold o'. rewrite all_pos_app, Hpob. apply all_pos_spec. repeat constructor; assumption. }
    (* the operator M = MatMul o a (negb aj) of the adjoint *)
    pose proof (expand_o i ms o Lo) as Exo.
    assert (Eoie : mul_ie o ms = ob ++ [Rr; C]) by (unfold mul_ie; rewrite Exo; reflexivity).
    assert (Eome : mul_me o ms = mul_me i ms) by (unfold mul_me; rewrite Exo; reflexivity).
    destruct (ax3_self _ _ _ Hax) as [Sb1 Sb2].
    assert (HMo : matmul_oshape o ms (negb aj) = Ok o').
    { apply (matmul_oshape_build o ms (negb aj) ob mb ob Rr C K); [exact Eoie| | lia| exact Sb1| exact Sb2].
      rewrite Eome, Eme. destruct aj; reflexivity. }
    assert (HM : shapes (MatMul o a (negb aj)) = Ok (o', o)).
    { cbn [shapes]. fold ms. rewrite HMo. cbn [bind]. unfold finish. rewrite Hpo', Hpo. reflexivity. }
    set (axes := sum_axes_loop ib mb ob 0).
    set (mask := bmask ib mb ob ++ [false; false]).
    set (os := mrem mask o').
    destruct (shapes_sum_axes ib mb ob 2%nat [K; C] L1 L2 eq_refl Hpo') as [En HS].
    fold axes in En, HS. cbn [repeat] in HS. fold mask o' in HS, En. fold os in HS.
    assert (Eax : matmul_adjoint_sum_axes o i ms = axes).
    { unfold matmul_adjoint_sum_axes. rewrite expand_eq, Eie, Eme.
      replace (length (ib ++ [K; C]) - 2)%nat with (length ib) by (rewrite app_length; simpl; lia).
      rewrite firstn_pre. rewrite L1, <- L2, firstn_pre.
      unfold o. replace (length (ob ++ [Rr; C]) - 2)%nat with (length ob) by (rewrite app_length; simpl; lia).
      rewrite firstn_pre. reflexivity. }
    assert (Eadj : adj (MatMul i a aj) = Compose [Reshape i os; Sum o' axes; MatMul o a (negb aj)]).
    { cbn [adj]. unfold oshape_of. rewrite Hsh. rewrite HM. fold ms. rewrite Eax. rewrite HS. reflexivity. }
    unfold apair, LinopTheory.apair. unfold oshape_of, ishape_of. rewrite Hsh, Eadj.
    intros x y. unfold inner.
    assert (Eie2 : ib ++ [K; C] = repeat 1%Z (Nat.max (length i) (length ms) - length i) ++ i).
    { rewrite <- Eie. apply mul_ie_eq. }
    set (di := (Nat.max (length i) (length ms) - length i)%nat) in *.
    assert (Edi : (length ib + 2 - length i)%nat = di).
    { unfold di. rewrite <- (mul_ie_len i ms), Eie, app_length. reflexivity. }
    set (E := fun bb r k => mat_entry R arr a aj (mul_me i ms) bb r k).
    transitivity (sumB o (fun ov =>
       sumZ K (fun k => E (firstn (length ob) ov) (nth (length ob) ov 0%Z) k
                        * x (skipn di (zip2 msk1 (ib ++ [K; C]) (firstn (length ob) ov ++ [k; nth (S (length ob)) ov 0%Z]))))
       * conj (y ov))).
    { apply sumB_ext. intros ov _. rewrite (D_matmul_left i a aj ib K C x ov Eie). fold ms.
      rewrite Edi, L1. reflexivity. }
    unfold o. rewrite (matmul_core R ib mb ob K C Rr di i x y E Hax HK HC Eie2). fold mask o' os.
    apply sumB_ext. intros iv Hiv. f_equal. f_equal.
    rewrite D_compose. cbn [fold_right]. fold o.
    assert (Pos : Forall (fun n => (0 < n)%Z) os) by (apply mrem_pos, all_pos_spec; exact Hpo').
    assert (Lmask : length mask = length o').
    { unfold mask, o'. rewrite !app_length, (bmask_len _ _ _ Hax). reflexivity. }
    assert (EP : prodZ os = prodZ i).
    { destruct (ax3_app2 ib mb ob K C Hax HK HC) as [Hax' Em].
      unfold os, mask, o'. rewrite <- Em, (ax3_prod _ _ _ Hax'), Eie2. apply prodZ_ones. }
    pose proof (ravel_bound i iv Hiv) as Hb.
    destruct (ravel_unravel os (ravel i iv) Pos ltac:(lia)) as [_ Hg].
    set (g := unravel os (ravel i iv)) in *.
    change (D (Reshape i os) (D (Sum o' axes) (D (MatMul o a (negb aj)) y)) iv)
      with (D (Sum o' axes) (D (MatMul o a (negb aj)) y) g).
    rewrite (D_sum_mask R arr scal orc) by exact En.
    assert (Emask : mask_of axes 0 (length o') = mask).
    { pose proof (mask_of_sum_axes 2 ib mb ob 0%Z [] ltac:(intros ? []) L1 L2) as Hm.
      cbn [repeat app] in Hm. unfold o'. rewrite app_length. exact Hm. }
    rewrite Emask. apply sumB_ext. intros kk Hk.
    assert (Hov : inbox o' (mmerge mask g kk)) by (apply inbox_mmerge; assumption).
    set (mm := mmerge mask g kk) in *.
    destruct (inbox_last2 ob K C mm Hov) as (Hbb & Hk1 & Hc1 & _).
    rewrite (D_matmul_left o a (negb aj) ob Rr C y mm Eoie). fold ms. rewrite Eome.
    apply sumZ_ext. intros r Hr. unfold E. rewrite mat_entry_adj. f_equal. f_equal.
    replace (length ob + 2 - length o)%nat with (length o - length o)%nat by (unfold o; rewrite app_length; simpl; lia).
    symmetry. fold o. apply bcast_index_id. unfold o. apply inbox_app'; [exact Hbb|]. simpl. lia.
  Qed.
End MatMul.

(* ======================================================================== part 6 *)
Lemma right_matmul_oshape_split i ms adj o : all_pos i = true -> right_matmul_oshape i ms adj = Ok o ->
  exists ib mb ob K C Rr,
    mul_ie i ms = ib ++ [Rr; K] /\ mul_me i ms = mb ++ (if adj then [C; K] else [K; C]) /\
    ax3 ib mb ob /\ o = ob ++ [Rr; C] /\ 0 < K /\ 0 < Rr.
Proof.
  intros Hp Ho. unfold right_matmul_oshape in Ho. rewrite expand_eq in Ho.
  pose proof (mul_ie_len i ms) as Li. pose proof (mul_me_len i ms) as Lm. pose proof (mul_ie_pos i ms Hp) as Pie.
  destruct (length (mul_ie i ms) <? 2)%nat eqn:Hnd; [discriminate|]. apply Nat.ltb_ge in Hnd.
  destruct (last2_split (mul_ie i ms) Hnd) as (ib & Rr & K & Eie).
  assert (Hnd' : (2 <= length (mul_me i ms))%nat) by lia.
  destruct (last2_split (mul_me i ms) Hnd') as (mb & u & v & Eme).
  rewrite Eie, Eme in Ho.
  assert (Lb : length ib = length mb).
  { rewrite Eie, app_length in Li. rewrite Eme, app_length in Lm. simpl in Li, Lm. lia. }
  assert (Eme' : (if adj then swap_last2 (mb ++ [u; v]) else mb ++ [u; v]) = mb ++ (if adj then [v; u] else [u; v])).
  { destruct adj; [apply swap_last2_app| reflexivity]. }
  rewrite Eme' in Ho.
  replace (length (ib ++ [Rr; K]) - 2)%nat with (length ib) in Ho by (rewrite app_length; simpl; lia).
  rewrite firstn_pre in Ho. rewrite Lb, firstn_pre in Ho.
  destruct (forallb (fun p => bcast_dim (fst p) (snd p)) (combine ib mb)) eqn:Hb; [|discriminate].
  rewrite !pyget_m1, pyget_m2 in Ho.
  rewrite Eie in Pie. apply Forall_app in Pie. destruct Pie as [Pib PKC].
  inversion PKC as [|? ? HR PC]; subst. inversion PC as [|? ? HK _]; subst.
  exists ib, mb, (map (fun p => Z.max (fst p) (snd p)) (combine ib mb)), K.
  destruct adj; cbn [negb] in Ho.
  - rewrite pyget_m1, pyget_m2 in Ho. destruct (Z.eqb_spec K v) as [<-|]; [|discriminate]. cbn [negb] in Ho.
    inversion Ho; subst o. exists u, Rr. repeat split; try assumption. apply ax3_of_combine; assumption.
  - rewrite pyget_m1, pyget_m2 in Ho. destruct (Z.eqb_spec K u) as [<-|]; [|discriminate]. cbn [negb] in Ho.
    inversion Ho; subst o. exists v, Rr. repeat split; try assumption. apply ax3_of_combine; assumption.
Qed.

Lemma right_matmul_oshape_build i ms (adj : bool) ib mb ob K C Rr :
  mul_ie i ms = ib ++ [Rr; K] -> mul_me i ms = mb ++ (if adj then [C; K] else [K; C]) ->
  length ib = length mb -> forallb (fun p => bcast_dim (fst p) (snd p)) (combine ib mb) = true ->
  map (fun p => Z.max (fst p) (snd p)) (combine ib mb) = ob ->
  right_matmul_oshape i ms adj = Ok (ob ++ [Rr; C]).
Proof.
  intros Eie Eme Lb Hb Eo. unfold right_matmul_oshape. rewrite expand_eq, Eie, Eme.
  assert (Eme' : (if adj then swap_last2 (mb ++ (if adj then [C; K] else [K; C])) else mb ++ (if adj then [C; K] else [K; C]))
                 = mb ++ [K; C]).
  { destruct adj; [apply swap_last2_app| reflexivity]. }
  rewrite Eme'.
  replace (length (ib ++ [Rr; K]) - 2)%nat with (length ib) by (rewrite app_length; simpl; lia).
  replace (length (ib ++ [Rr; K]) <? 2)%nat with false by (symmetry; apply Nat.ltb_ge; rewrite app_length; simpl; lia).
  rewrite firstn_pre. rewrite Lb, firstn_pre. rewrite Hb. cbn [negb].
  rewrite !pyget_m1, !pyget_m2, Z.eqb_refl. cbn [negb]. rewrite Eo. reflexivity.
Qed.

Section RMM.
  Variable R : StarRing.
  Add Ring RringB6 : (SRth R).
  Notation farr := (list Z -> R).
  Local Open Scope sr_scope.

  (* right matrix product: out[bb,r,c] = sum_k x[bcast (bb,r,k)] * E bb k c *)
  Lemma rmatmul_core ib mb ob K C Rr di i (x y : farr) (E : list Z -> Z -> Z -> R) :
    ax3 ib mb ob -> (0 < Rr)%Z -> (0 < K)%Z -> ib ++ [Rr; K] = repeat 1%Z di ++ i ->
    let nb := length ob in
    let ie := ib ++ [Rr; K] in
    let o' := ob ++ [Rr; K] in
    let mask := bmask ib mb ob ++ [false; false] in
    let os := mrem mask o' in
    sumB (ob ++ [Rr; C]) (fun ov =>
       sumZ K (fun k => x (skipn di (zip2 msk1 ie (firstn nb ov ++ [nth nb ov 0%Z; k])))
                        * E (firstn nb ov) k (nth (S nb) ov 0%Z)) * conj (y ov)) =
    sumB i (fun iv => x iv * conj (sumB (mkeep mask o') (fun kk =>
       sumZ C (fun c => conj (E (firstn nb (mmerge mask (unravel os (ravel i iv)) kk))
                                 (nth (S nb) (mmerge mask (unravel os (ravel i iv)) kk) 0%Z) c)
                         * y (firstn nb (mmerge mask (unravel os (ravel i iv)) kk)
                              ++ [nth nb (mmerge mask (unravel os (ravel i iv)) kk) 0%Z; c]))))).
  Proof.
    intros Hax HR HK Eie nb ie o' mask os.
    destruct (ax3_app2 ib mb ob Rr K Hax HR HK) as [Hax' Em].
    pose proof (bcast_family R ie (mb ++ [Rr; K]) o' di i C x
                  (fun c ov' => E (firstn nb ov') (nth (S nb) ov' 0%Z) c)
                  (fun c ov' => y (firstn nb ov' ++ [nth nb ov' 0%Z; c])) Hax' Eie) as HF.
    cbv zeta in HF. unfold ie, o' in HF. rewrite Em in HF. fold mask ie o' os in HF.
    rewrite <- HF. clear HF.
    rewrite sumB_app'.
    rewrite (sumZ_ext R C _ (fun c => sumB ob (fun bb => sumZ Rr (fun r => sumZ K (fun k =>
               x (skipn di (zip2 msk1 ie (bb ++ [r; k]))) * E bb k c * conj (y (bb ++ [r; c]))))))).
    2:{ intros c _. unfold o'. rewrite sumB_app'. apply sumB_ext. intros bb Hbb.
        pose proof (inbox_length _ _ Hbb) as Lb. fold nb in Lb.
        cbn [sumB]. apply sumZ_ext. intros r _. apply sumZ_ext. intros k _.
        rewrite <- Lb. rewrite firstn_pre, nth_pre0, nth_pre1. reflexivity. }
    rewrite <- sumB_sumZ_exchange. apply sumB_ext. intros bb Hbb.
    pose proof (inbox_length _ _ Hbb) as Lb. fold nb in Lb.
    cbn [sumB]. rewrite sumZ_exchange. apply sumZ_ext. intros r _. apply sumZ_ext. intros c _.
    rewrite <- Lb. rewrite firstn_pre, nth_pre0, nth_pre1.
    rewrite sumZ_scale_r'. apply sumZ_ext. intros k _. ring.
  Qed.
End RMM.

Section RightMatMul.
  Variable R : StarRing.
  Add Ring RringB7 : (SRth R).
  Notation farr := (list Z -> R).
  Variable arr : Z -> farr.
  Variable scal : Z -> R.
  Variable orc : linop -> farr -> farr.
  Notation D := (D R arr scal orc).
  Local Open Scope sr_scope.

  Lemma D_matmul_right i a aj ib Rr K x ov : mul_ie i (ashape_of a) = ib ++ [Rr; K] ->
    let nb := length ib in
    D (RightMatMul i a aj) x ov =
    sumZ K (fun k => x (bcast_index (ib ++ [Rr; K]) (nb + 2 - length i) (firstn nb ov ++ [nth nb ov 0%Z; k]))
                     * mat_entry R arr a aj (mul_me i (ashape_of a)) (firstn nb ov) k (nth (S nb) ov 0%Z)).
  Proof.
    intros Eie nb. unfold LinopTheory.D. cbn [den]. unfold den_matmul. rewrite expand_eq, Eie.
    rewrite pyget_m1. rewrite app_length. cbn [length].
    replace (length ib + 2 - 2)%nat with nb by (unfold nb; lia).
    replace (length ib + 2 - 1)%nat with (S nb) by (unfold nb; lia).
    fold nb. rewrite <- sum_list_zrange. reflexivity.
  Qed.

  Theorem apair_right_matmul i a aj : wf (RightMatMul i a aj) = true -> apair R arr scal orc (RightMatMul i a aj).
  Proof.
    intros Hwf. set (ms := ashape_of a).
    assert (Hw : all_pos i = true /\ exists o, right_matmul_oshape i ms aj = Ok o /\ all_pos o = true /\
                                               shapes (RightMatMul i a aj) = Ok (o, i)).
    { unfold wf in Hwf. cbn [shapes] in *. fold ms in Hwf |- *. destruct (right_matmul_oshape i ms aj) as [o|]; [|discriminate].
      cbn [bind] in *. unfold finish in *. destruct (all_pos o && all_pos i) eqn:E; [|discriminate].
      apply andb_true_iff in E. destruct E. split; [assumption|]. exists o. auto. }
    destruct Hw as (Hpi & o & Ho & Hpo & Hsh).
    destruct (right_matmul_oshape_split i ms aj o Hpi Ho) as (ib & mb & ob & K & C & Rr & Eie & Eme & Hax & Eo & HK & HR).
    subst o.
    destruct (ax3_len _ _ _ Hax) as [L1 L2].
    assert (Lo : length (ob ++ [Rr; C]) = Nat.max (length i) (length ms)).
    { rewrite <- (mul_ie_len i ms), Eie, !app_length, L1. reflexivity. }
    assert (HpRC : all_pos ob = true /\ (0 < C)%Z).
    { rewrite all_pos_app in Hpo. apply andb_true_iff in Hpo. destruct Hpo as [H1 H2]. split; [exact H1|].
      apply all_pos_spec in H2. inversion H2 as [|? ? _ H3]; subst. inversion H3; assumption. }
    destruct HpRC as [Hpob HC].
    set (o := ob ++ [Rr; C]) in *. set (o' := ob ++ [Rr; K]).
    assert (Hpo' : all_pos o' = true).
    { unfold o'. rewrite all_pos_app, Hpob. apply all_pos_spec. repeat constructor; assumption. }
    pose proof (expand_o i ms o Lo) as Exo.
    assert (Eoie : mul_ie o ms = ob ++ [Rr; C]) by (unfold mul_ie; rewrite Exo; reflexivity).
    assert (Eome : mul_me o ms = mul_me i ms) by (unfold mul_me; rewrite Exo; reflexivity).
    destruct (ax3_self _ _ _ Hax) as [Sb1 Sb2].
    assert (HMo : right_matmul_oshape o ms (negb aj) = Ok o').
    { apply (right_matmul_oshape_build o ms (negb aj) ob mb ob C K Rr); [exact Eoie| | lia| exact Sb1| exact Sb2].
      rewrite Eome, Eme. destruct aj; reflexivity. }
    assert (HM : shapes (RightMatMul o a (negb aj)) = Ok (o', o)).
    { cbn [shapes]. fold ms. rewrite HMo. cbn [bind]. unfold finish. rewrite Hpo', Hpo. reflexivity. }
    set (axes := sum_axes_loop ib mb ob 0).
    set (mask := bmask ib mb ob ++ [false; false]).
    set (os := mrem mask o').
    destruct (shapes_sum_axes ib mb ob 2%nat [Rr; K] L1 L2 eq_refl Hpo') as [En HS].
    fold axes in En, HS. cbn [repeat] in HS. fold mask o' in HS, En. fold os in HS.
    assert (Eax : matmul_adjoint_sum_axes o i ms = axes).
    { unfold matmul_adjoint_sum_axes. rewrite expand_eq, Eie, Eme.
      replace (length (ib ++ [Rr; K]) - 2)%nat with (length ib) by (rewrite app_length; simpl; lia).
      rewrite firstn_pre. rewrite L1, <- L2, firstn_pre.
      unfold o. replace (length (ob ++ [Rr; C]) - 2)%nat with (length ob) by (rewrite app_length; simpl; lia).
      rewrite firstn_pre. reflexivity. }
    assert (Eadj : adj (RightMatMul i a aj) = Compose [Reshape i os; Sum o' axes; RightMatMul o a (negb aj)]).
    { cbn [adj]. unfold oshape_of. rewrite Hsh. rewrite HM. fold ms. rewrite Eax. rewrite HS. reflexivity. }
    unfold apair, LinopTheory.apair. unfold oshape_of, ishape_of. rewrite Hsh, Eadj.
    intros x y. unfold inner.
    assert (Eie2 : ib ++ [Rr; K] = repeat 1%Z (Nat.max (length i) (length ms) - length i) ++ i).
    { rewrite <- Eie. apply mul_ie_eq. }
    set (di := (Nat.max (length i) (length ms) - length i)%nat) in *.
    assert (Edi : (length ib + 2 - length i)%nat = di).
    { unfold di. rewrite <- (mul_ie_len i ms), Eie, app_length. reflexivity. }
    set (E := fun bb k c => mat_entry R arr a aj (mul_me i ms) bb k c).
    transitivity (sumB o (fun ov =>
       sumZ K (fun k => x (skipn di (zip2 msk1 (ib ++ [Rr; K]) (firstn (length ob) ov ++ [nth (length ob) ov 0%Z; k])))
                        * E (firstn (length ob) ov) k (nth (S (length ob)) ov 0%Z))
       * conj (y ov))).
    { apply sumB_ext. intros ov _. rewrite (D_matmul_right i a aj ib Rr K x ov Eie). fold ms.
      rewrite Edi, L1. reflexivity. }
    unfold o. rewrite (rmatmul_core R ib mb ob K C Rr di i x y E Hax HR HK Eie2). fold mask o' os.
    apply sumB_ext. intros iv Hiv. f_equal. f_equal.
    rewrite D_compose. cbn [fold_right]. fold o.
    assert (Pos : Forall (fun n => (0 < n)%Z) os) by (apply mrem_pos, all_pos_spec; exact Hpo').
    assert (Lmask : length mask = length o').
    { unfold mask, o'. rewrite !app_length, (bmask_len _ _ _ Hax). reflexivity. }
    assert (EP : prodZ os = prodZ i).
    { destruct (ax3_app2 ib mb ob Rr K Hax HR HK) as [Hax' Em].
      unfold os, mask, o'. rewrite <- Em, (ax3_prod _ _ _ Hax'), Eie2. apply prodZ_ones. }
    pose proof (ravel_bound i iv Hiv) as Hb.
    destruct (ravel_unravel os (ravel i iv) Pos ltac:(lia)) as [_ Hg].
    set (g := unravel os (ravel i iv)) in *.
    change (D (Reshape i os) (D (Sum o' axes) (D (RightMatMul o a (negb aj)) y)) iv)
      with (D (Sum o' axes) (D (RightMatMul o a (negb aj)) y) g).
    rewrite (D_sum_mask R arr scal orc) by exact En.
    assert (Emask : mask_of axes 0 (length o') = mask).
    { pose proof (mask_of_sum_axes 2 ib mb ob 0%Z [] ltac:(intros ? []) L1 L2) as Hm.
      cbn [repeat app] in Hm. unfold o'. rewrite app_length. exact Hm. }
    rewrite Emask. apply sumB_ext. intros kk Hk.
    assert (Hov : inbox o' (mmerge mask g kk)) by (apply inbox_mmerge; assumption).
    set (mm := mmerge mask g kk) in *.
    destruct (inbox_last2 ob Rr K mm Hov) as (Hbb & Hr1 & Hk1 & _).
    rewrite (D_matmul_right o a (negb aj) ob Rr C y mm Eoie). fold ms. rewrite Eome.
    apply sumZ_ext. intros c Hc. unfold E. rewrite (mat_entry_adj R arr). rewrite (Rmul_comm (SRth R)). f_equal. f_equal.
    replace (length ob + 2 - length o)%nat with (length o - length o)%nat by (unfold o; rewrite app_length; simpl; lia).
    symmetry. fold o. apply bcast_index_id. unfold o. apply inbox_app'; [exact Hbb|]. simpl. lia.
  Qed.
End RightMatMul.

(* ======================================================================== part 7 *)
Lemma lastn_app' {A} (l r : list A) : lastn (length r) (l ++ r) = r.
Proof.
  unfold lastn. rewrite app_length. replace (length l + length r - length r)%nat with (length l) by lia.
  rewrite skipn_app, skipn_all, Nat.sub_diag. reflexivity.
Qed.

Lemma droplast_app' {A} (l r : list A) : droplast (length r) (l ++ r) = l.
Proof.
  unfold droplast. rewrite app_length. replace (length l + length r - length r)%nat with (length l) by lia.
  rewrite firstn_app, firstn_all, Nat.sub_diag. simpl. apply app_nil_r.
Qed.

Lemma last1_split (l : list Z) : l <> [] -> exists p u, l = p ++ [u].
Proof.
  intros H. destruct (exists_last H) as (p & u & E). eauto.
Qed.

Lemma lastn_1 {A} (l : list A) u : lastn 1 (l ++ [u]) = [u].
Proof. exact (lastn_app' l [u]). Qed.
Lemma droplast_1 {A} (l : list A) u : droplast 1 (l ++ [u]) = l.
Proof. exact (droplast_app' l [u]). Qed.
Lemma lastn_2 {A} (l : list A) u v : lastn 2 (l ++ [u; v]) = [u; v].
Proof. exact (lastn_app' l [u; v]). Qed.

Definition nblk (n Bk Sk : Z) : Z := (n - Bk + Sk) / Sk.

Lemma num_blks_1 bat n Bk Sk : num_blks (bat ++ [n]) [Bk] [Sk] = [nblk n Bk Sk].
Proof. unfold num_blks. cbn [length]. rewrite lastn_1. reflexivity. Qed.

Lemma skipn_pre {A} (p q : list A) : skipn (length p) (p ++ q) = q.
Proof. rewrite skipn_app, skipn_all, Nat.sub_diag. reflexivity. Qed.

Lemma wf_a2b_b2a i b s : wf (BlocksToArray i b s) = wf (ArrayToBlocks i b s).
Proof.
  unfold wf. cbn [shapes]. unfold finish. rewrite andb_comm.
  destruct (all_pos (droplast (length b) i ++ num_blks i b s ++ b) && all_pos i); reflexivity.
Qed.

Section Blk.
  Variable R : StarRing.
  Add Ring RringB8 : (SRth R).
  Notation farr := (list Z -> R).
  Variable arr : Z -> farr.
  Variable scal : Z -> R.
  Variable orc : linop -> farr -> farr.
  Notation D := (D R arr scal orc).
  Local Open Scope sr_scope.

  Lemma shapes_a2b bat n Bk Sk :
    shapes (ArrayToBlocks (bat ++ [n]) [Bk] [Sk]) = finish (bat ++ [nblk n Bk Sk; Bk]) (bat ++ [n]).
  Proof. cbn [shapes length]. rewrite droplast_1, num_blks_1. reflexivity. Qed.

  Lemma shapes_b2a bat n Bk Sk :
    shapes (BlocksToArray (bat ++ [n]) [Bk] [Sk]) = finish (bat ++ [n]) (bat ++ [nblk n Bk Sk; Bk]).
  Proof. cbn [shapes length]. rewrite droplast_1, num_blks_1. reflexivity. Qed.

  Lemma D_a2b bat n Bk Sk (x : farr) bv nn t :
    (0 < Sk)%Z -> inbox bat bv -> (0 <= nn < nblk n Bk Sk)%Z -> (0 <= t < Bk)%Z ->
    D (ArrayToBlocks (bat ++ [n]) [Bk] [Sk]) x (bv ++ [nn; t]) = x (bv ++ [nn * Sk + t]%Z).
  Proof.
    intros HS Hbv Hn Ht. unfold LinopTheory.D. cbn [den]. unfold array_to_blocks. cbn [length Nat.eqb negb].
    rewrite droplast_1, lastn_1, num_blks_1.
    unfold unflatten_batch. pose proof (inbox_length _ _ Hbv) as Lb. rewrite <- Lb, firstn_pre, skipn_pre.
    pose proof (ravel_bound bat bv Hbv) as Hr.
    rewrite (a2b1_exec R _ _ _ _ _ _ _ n); [| reflexivity | exact Hr | exact Hn | exact Ht].
    change (revn [Sk] 0) with Sk. change (revn [Bk] 0) with Bk. change (revn [nblk n Bk Sk] 0) with (nblk n Bk Sk) in *.
    pose proof (a2b_in_bounds n Bk Sk nn t HS Hn Ht) as Hin.
    destruct (Z.ltb_spec (nn * Sk + t) n); [|lia].
    unfold flatten_batch. rewrite unravel_ravel by exact Hbv. reflexivity.
  Qed.

  Lemma D_b2a bat n Bk Sk (y : farr) bv p :
    wf (BlocksToArray (bat ++ [n]) [Bk] [Sk]) = true ->
    (0 < Sk)%Z -> inbox bat bv -> (0 <= p < n)%Z ->
    D (BlocksToArray (bat ++ [n]) [Bk] [Sk]) y (bv ++ [p]) =
    0 + sumZ (nblk n Bk Sk) (fun nn => sumZ Bk (fun t => if (nn * Sk + t =? p)%Z then y (bv ++ [nn; t]) else 0)).
  Proof.
    intros Hwf HS Hbv Hp. unfold LinopTheory.D. cbn [den].
    assert (Ei : ishape_of (BlocksToArray (bat ++ [n]) [Bk] [Sk]) = bat ++ [nblk n Bk Sk; Bk]).
    { unfold wf in Hwf. unfold ishape_of. rewrite shapes_b2a in *.
      destruct (finish (bat ++ [n]) (bat ++ [nblk n Bk Sk; Bk])) as [r|] eqn:F; [|discriminate].
      apply finish_ok in F. subst r. reflexivity. }
    rewrite Ei. unfold blocks_to_array. cbn [length Nat.eqb negb]. change (2 * 1)%nat with 2%nat.
    rewrite droplast_1, lastn_1, lastn_2. cbn [firstn].
    unfold unflatten_batch. pose proof (inbox_length _ _ Hbv) as Lb. rewrite <- Lb, firstn_pre, skipn_pre.
    pose proof (ravel_bound bat bv Hbv) as Hr.
    rewrite (b2a1_exec R _ _ _ _ _ _ _ n); [| exact HS | reflexivity | exact Hr | exact Hp].
    change (revn [Sk] 0) with Sk. change (revn [Bk] 0) with Bk. change (revn [nblk n Bk Sk] 0) with (nblk n Bk Sk).
    f_equal. apply sumZ_ext. intros nn _. apply sumZ_ext. intros t _.
    unfold flatten_batch. rewrite unravel_ravel by exact Hbv. reflexivity.
  Qed.

  Lemma block_dual n N Bk S (u : Z -> R) (w : Z -> Z -> R) :
    (forall nn t, (0 <= nn < N)%Z -> (0 <= t < Bk)%Z -> (0 <= nn * S + t < n)%Z) ->
    sumZ N (fun nn => sumZ Bk (fun t => u (nn * S + t)%Z * conj (w nn t))) =
    sumZ n (fun p => u p * conj (0 + sumZ N (fun nn => sumZ Bk (fun t => if (nn * S + t =? p)%Z then w nn t else 0)))).
  Proof.
    intros Hin.
    rewrite (sumZ_ext R n _ (fun p => sumZ N (fun nn => sumZ Bk (fun t =>
               if (p =? nn * S + t)%Z then u p * conj (w nn t) else 0)))).
    2:{ intros p _. rewrite conj_add, conj_zero, sumZ_conj.
        rewrite (Radd_0_l (SRth R)). rewrite <- sumZ_scale. apply sumZ_ext. intros nn _.
        rewrite sumZ_conj, <- sumZ_scale. apply sumZ_ext. intros t _.
        rewrite (Z.eqb_sym p). destruct (nn * S + t =? p)%Z; [reflexivity| rewrite conj_zero; ring]. }
    rewrite (sumZ_exchange R n N). apply sumZ_ext. intros nn Hn.
    rewrite (sumZ_exchange R n Bk). apply sumZ_ext. intros t Ht.
    rewrite (sumZ_single R n (nn * S + t)%Z (fun p => u p * conj (w nn t))); [reflexivity|]. apply Hin; assumption.
  Qed.

  Lemma blocks_pair bat n Bk Sk (x y : farr) :
    (0 < Sk)%Z -> wf (ArrayToBlocks (bat ++ [n]) [Bk] [Sk]) = true ->
    inner (bat ++ [nblk n Bk Sk; Bk]) (D (ArrayToBlocks (bat ++ [n]) [Bk] [Sk]) x) y =
    inner (bat ++ [n]) x (D (BlocksToArray (bat ++ [n]) [Bk] [Sk]) y).
  Proof.
    intros HS Hwf.
    assert (Hwf' : wf (BlocksToArray (bat ++ [n]) [Bk] [Sk]) = true).
    { rewrite wf_a2b_b2a. exact Hwf. }
    unfold inner. rewrite !sumB_app'. apply sumB_ext. intros bv Hbv. cbn [sumB].
    rewrite (sumZ_ext R (nblk n Bk Sk) _ (fun nn => sumZ Bk (fun t =>
               x (bv ++ [nn * Sk + t]%Z) * conj (y (bv ++ [nn; t]))))).
    2:{ intros nn Hn. apply sumZ_ext. intros t Ht. rewrite D_a2b by assumption. reflexivity. }
    rewrite (sumZ_ext R n _ (fun p => x (bv ++ [p]) * conj (0 + sumZ (nblk n Bk Sk) (fun nn => sumZ Bk (fun t =>
               if (nn * Sk + t =? p)%Z then y (bv ++ [nn; t]) else 0))))).
    2:{ intros p Hp. rewrite D_b2a by assumption. reflexivity. }
    apply (block_dual n (nblk n Bk Sk) Bk Sk (fun p => x (bv ++ [p])) (fun nn t => y (bv ++ [nn; t]))).
    intros nn t Hn Ht. pose proof (a2b_in_bounds n Bk Sk nn t HS Hn Ht). nia.
  Qed.

  Lemma finish_of_wf_a2b bat n Bk Sk : wf (ArrayToBlocks (bat ++ [n]) [Bk] [Sk]) = true ->
    finish (bat ++ [nblk n Bk Sk; Bk]) (bat ++ [n]) = Ok (bat ++ [nblk n Bk Sk; Bk], bat ++ [n]) /\
    finish (bat ++ [n]) (bat ++ [nblk n Bk Sk; Bk]) = Ok (bat ++ [n], bat ++ [nblk n Bk Sk; Bk]).
  Proof.
    intros Hwf. unfold wf in Hwf. rewrite shapes_a2b in Hwf. unfold finish in *.
    rewrite (andb_comm (all_pos (bat ++ [n]))).
    destruct (all_pos (bat ++ [nblk n Bk Sk; Bk]) && all_pos (bat ++ [n])); [split; reflexivity| discriminate].
  Qed.

  Theorem apair_array_to_blocks_1d i Bk Sk : i <> [] -> (0 < Sk)%Z ->
    wf (ArrayToBlocks i [Bk] [Sk]) = true -> apair R arr scal orc (ArrayToBlocks i [Bk] [Sk]).
  Proof.
    intros Hne HS Hwf. destruct (last1_split i Hne) as (bat & n & ->).
    destruct (finish_of_wf_a2b bat n Bk Sk Hwf) as [F1 F2].
    unfold apair, LinopTheory.apair. unfold oshape_of, ishape_of. rewrite shapes_a2b, F1. cbn [adj].
    intros x y. apply blocks_pair; assumption.
  Qed.

  Theorem apair_blocks_to_array_1d o Bk Sk : o <> [] -> (0 < Sk)%Z ->
    wf (BlocksToArray o [Bk] [Sk]) = true -> apair R arr scal orc (BlocksToArray o [Bk] [Sk]).
  Proof.
    intros Hne HS Hwf. destruct (last1_split o Hne) as (bat & n & ->).
    rewrite wf_a2b_b2a in Hwf.
    destruct (finish_of_wf_a2b bat n Bk Sk Hwf) as [F1 F2].
    unfold apair, LinopTheory.apair. unfold oshape_of, ishape_of. rewrite shapes_b2a, F2. cbn [adj].
    apply adjoint_pair_sym. intros x y. apply blocks_pair; assumption.
  Qed.
End Blk.

(* ======================================================================== part 8 *)
(* ---------------------------------------------------------------- boolean side conditions, unconditional corollary *)
Definition block1d_ok (shape b s : list Z) : bool :=
  match shape, b, s with
  | _ :: _, [_], [Sk] => 0 <? Sk
  | _, _, _ => false
  end.

Definition proven_nodeB (L : linop) : bool :=
  match L with
  | Multiply _ _ _ | MatMul _ _ _ | RightMatMul _ _ _ => true
  | ArrayToBlocks i b s | BlocksToArray i b s => block1d_ok i b s
  | _ => false
  end.

Section CorB.
  Variable R : StarRing.
  Notation farr := (list Z -> R).
  Variable arr : Z -> farr.
  Variable scal : Z -> R.
  Variable orc : linop -> farr -> farr.

  Lemma block1d_ok_spec shape b s : block1d_ok shape b s = true ->
    exists Bk Sk, b = [Bk] /\ s = [Sk] /\ shape <> [] /\ 0 < Sk.
  Proof.
    unfold block1d_ok. destruct shape as [|n sh]; [discriminate|].
    destruct b as [|Bk [|? ?]]; try discriminate. destruct s as [|Sk [|? ?]]; try discriminate.
    intros H. apply Z.ltb_lt in H. exists Bk, Sk. repeat split; [discriminate| exact H].
  Qed.

  Lemma proven_nodeB_apair L : proven_nodeB L = true -> wf L = true -> apair R arr scal orc L.
  Proof.
    destruct L; simpl; try discriminate; intros Hp Hwf.
    - apply apair_matmul; exact Hwf.
    - apply apair_right_matmul; exact Hwf.
    - apply apair_multiply; exact Hwf.
    - destruct (block1d_ok_spec _ _ _ Hp) as (Bk & Sk & -> & -> & Hne & HS). apply apair_array_to_blocks_1d; assumption.
    - destruct (block1d_ok_spec _ _ _ Hp) as (Bk & Sk & -> & -> & Hne & HS). apply apair_blocks_to_array_1d; assumption.
  Qed.

  (* NO node hypothesis: trees over Conj / + / composition / scalar overloads whose leaves are Identity, Flip,
     Downsample, Upsample (LinopScale.proven_node) or Multiply (array or scalar, any broadcast), MatMul, RightMatMul
     (any broadcast batch), ArrayToBlocks / BlocksToArray with one block axis and positive stride *)
  Theorem adj_correct_provenB A :
    wf A = true -> nodes_ok (fun L => (proven_node L || proven_nodeB L) = true /\ wf L = true) A ->
    apair R arr scal orc A.
  Proof.
    intros Hwf Hn. apply adj_correct; [exact Hwf|].
    eapply nodes_ok_impl; [|exact Hn]. intros L [Hp Hw]. apply orb_true_iff in Hp. destruct Hp as [Hp|Hp].
    - apply proven_node_apair; assumption.
    - apply proven_nodeB_apair; assumption.
  Qed.
End CorB.

(* ---- the hypotheses are satisfiable: one instance per class / stage ---- *)
Example multiply_same_shape_wf : wf (Multiply [2; 3] (MArray (ARef 5 [2; 3])) false) = true.
Proof. reflexivity. Qed.
Example multiply_suffix_wf : wf (Multiply [4; 2; 3] (MArray (ARef 5 [1; 3])) true) = true.
Proof. reflexivity. Qed.
Example multiply_input_broadcast_adj :
  wf (Multiply [1; 3] (MArray (ARef 5 [4; 2; 1])) false) = true /\
  adj (Multiply [1; 3] (MArray (ARef 5 [4; 2; 1])) false) =
  Compose [Reshape [1; 3] [3]; Sum [4; 2; 3] [0; 1]; Multiply [4; 2; 3] (MArray (ARef 5 [4; 2; 1])) true].
Proof. split; reflexivity. Qed.
Example matmul_broadcast_batch_adj :
  wf (MatMul [1; 3; 5] (ARef 1 [4; 2; 3]) false) = true /\
  adj (MatMul [1; 3; 5] (ARef 1 [4; 2; 3]) false) =
  Compose [Reshape [1; 3; 5] [3; 5]; Sum [4; 3; 5] [0]; MatMul [4; 2; 5] (ARef 1 [4; 2; 3]) true].
Proof. split; reflexivity. Qed.
Example right_matmul_wf : wf (RightMatMul [1; 5; 3] (ARef 1 [4; 2; 3]) true) = true.
Proof. reflexivity. Qed.
Example blocks_wf :
  wf (ArrayToBlocks [3; 10] [4] [2]) = true /\ oshape_of (ArrayToBlocks [3; 10] [4] [2]) = [3; 4; 4] /\
  proven_nodeB (ArrayToBlocks [3; 10] [4] [2]) = true.
Proof. repeat split; reflexivity. Qed.
Example fragmentB_example :
  let A := op_sub (Compose [MatMul [4; 2; 2; 2] (ARef 1 [5; 2]) false; ArrayToBlocks [4; 2; 3] [2] [1];
                            Conj (Multiply [1; 3] (MArray (ARef 5 [4; 2; 1])) false)])
                  (op_lscale 7 (Compose [RightMatMul [4; 2; 5; 3] (ARef 2 [2; 3]) true;
                                         Multiply [1; 3] (MArray (ARef 6 [4; 2; 5; 1])) true])) in
  wf A = true /\ oshape_of A = [4; 2; 5; 2] /\ ishape_of A = [1; 3] /\
  nodes_ok (fun L => (proven_node L || proven_nodeB L) = true /\ wf L = true) A.
Proof. vm_compute. repeat split; reflexivity. Qed.
