(* SumTools.v — list sums under permutation / filtering, and range sums as
   filtered box sums; used to turn the program-order contributions of a loop
   nest into the order-free documented sums. *)
From Coq Require Import ZArith List Lia Bool Ring Permutation.
From SV Require Import lib.Scalar lib.BigSum lib.LoopIR.
Import ListNotations.
Local Open Scope Z_scope.

Section S.
  Variable R : StarRing.
  Add Ring Rring3 : (SRth R).
  Local Open Scope sr_scope.

  Lemma sumL_perm l l' (f : Z -> R) : Permutation l l' -> sumL l f = sumL l' f.
  Proof.
    induction 1 as [|x l l' _ IH|x y l|l l' l'' _ IH1 _ IH2]; simpl.
    - reflexivity.
    - rewrite IH. reflexivity.
    - ring.
    - rewrite IH1. exact IH2.
  Qed.

  Lemma sumL_filter l (p : Z -> bool) (f : Z -> R) :
    sumL (filter p l) f = sumL l (fun v => if p v then f v else 0).
  Proof.
    induction l as [|v l IH]; simpl; [reflexivity|].
    destruct (p v); simpl; rewrite IH; ring.
  Qed.

  (* a duplicate-free list l that enumerates exactly the elements of l' satisfying p *)
  Lemma sumL_as_filter l l' (p : Z -> bool) (f : Z -> R) :
    NoDup l -> NoDup l' -> (forall v, In v l <-> In v l' /\ p v = true) ->
    sumL l f = sumL l' (fun v => if p v then f v else 0).
  Proof.
    intros ND ND' H. rewrite <- sumL_filter. apply sumL_perm.
    apply NoDup_Permutation; [assumption| apply NoDup_filter; assumption|].
    intros v. rewrite filter_In. apply H.
  Qed.

  Lemma zrange0_in n v : In v (zrange 0 n 1) <-> (0 <= v < n)%Z.
  Proof.
    rewrite zrange_in by lia. rewrite Z.mod_1_r. lia.
  Qed.

  (* range(lo, hi, step) with 0 <= lo as a filtered sum over 0 <= v < hi *)
  Lemma sumL_zrange_filter lo hi step (f : Z -> R) : (0 <= lo)%Z -> (0 < step)%Z ->
    sumL (zrange lo hi step) f =
    sumZ hi (fun v => if (lo <=? v)%Z && ((v - lo) mod step =? 0)%Z then f v else 0).
  Proof.
    intros Hlo Hs. rewrite <- sumL_range0.
    apply sumL_as_filter; try apply zrange_nodup.
    intros v. rewrite zrange_in, zrange0_in by assumption.
    rewrite andb_true_iff, Z.leb_le, Z.eqb_eq. lia.
  Qed.

  (* sum over n of a term that is non-zero only at the solution of  n*S + c = i *)
  Lemma sumZ_affine_single N S c i (h : Z -> R) : (0 < S)%Z ->
    sumZ N (fun n => if (n * S + c =? i)%Z then h n else 0) =
    if ((i - c) mod S =? 0)%Z && (0 <=? (i - c) / S)%Z && ((i - c) / S <? N)%Z then h ((i - c) / S)%Z else 0.
  Proof.
    intros HS.
    destruct (((i - c) mod S =? 0)%Z && (0 <=? (i - c) / S)%Z && ((i - c) / S <? N)%Z) eqn:C.
    - apply andb_true_iff in C. destruct C as [C C3]. apply andb_true_iff in C. destruct C as [C1 C2].
      apply Z.eqb_eq in C1. apply Z.leb_le in C2. apply Z.ltb_lt in C3.
      assert (E : (i - c = S * ((i - c) / S))%Z) by (apply Z_div_exact_full_2; lia).
      rewrite (sumZ_ext R N _ (fun n => if (n =? (i - c) / S)%Z then h n else 0)).
      + apply sumZ_single. lia.
      + intros n _. remember ((i - c) / S)%Z as q.
        destruct (Z.eqb_spec (n * S + c) i), (Z.eqb_spec n q); try reflexivity; exfalso; nia.
    - apply sumZ_none. intros n Hn.
      destruct (Z.eqb_spec (n * S + c) i) as [E|]; [|reflexivity]. exfalso.
      assert (Hq : ((i - c) / S = n)%Z).
      { replace (i - c)%Z with (n * S)%Z by lia. apply Z.div_mul. lia. }
      assert (Hm : ((i - c) mod S = 0)%Z).
      { replace (i - c)%Z with (n * S)%Z by lia. apply Z_mod_mult. }
      rewrite Hq, Hm in C.
      assert (H1 : (0 <=? n)%Z = true) by (apply Z.leb_le; lia).
      assert (H2 : (n <? N)%Z = true) by (apply Z.ltb_lt; lia).
      rewrite H1, H2 in C. discriminate C.
  Qed.

  (* bx ranges over range(i mod S, B, S)  <->  0 <= bx < B and bx = i (mod S) *)
  Lemma stride_filter_equiv S i bx : (0 < S)%Z -> (0 <= bx)%Z ->
    ((i mod S <=? bx)%Z && ((bx - i mod S) mod S =? 0)%Z) = ((i - bx) mod S =? 0)%Z.
  Proof.
    intros HS Hb. apply eq_true_iff_eq. rewrite andb_true_iff, Z.leb_le, !Z.eqb_eq.
    rewrite !Z.mod_divide by lia.
    pose proof (Z.div_mod i S ltac:(lia)) as E.
    pose proof (Z.mod_pos_bound i S HS) as Hm.
    remember (i mod S)%Z as r. remember (i / S)%Z as q.
    split.
    - intros [_ [k Hk]]. exists (q - k)%Z. nia.
    - intros [k Hk]. split.
      + assert (Hd : (bx - r = S * (q - k))%Z) by nia.
        destruct (Z.lt_ge_cases (q - k) 0) as [Hneg|Hpos]; [|nia].
        assert (S * (q - k) <= S * (-1))%Z by (apply Z.mul_le_mono_nonneg_l; lia). lia.
      + exists (q - k)%Z. nia.
  Qed.
End S.
