(* proofs/OpaqueConv.v — the library-backed leaves ConvolveData / ConvolveDataAdjoint / ConvolveFilter /
   ConvolveFilterAdjoint satisfy the node hypothesis [apair] of LinopTheory.adj_correct, when the oracle [orc]
   of [den] agrees with [orc_conv] (model/OpaqueConv.v: the classes' _apply expressed with the C08 function model).

   The work is matching conventions: from [wf L] (= what conv._get_convolve_params and Linop.__init__ check) and
   [conv_valid L] (non-empty captured array, positive strides) we recover the decomposition
        data shape = b ++ cI ++ m,   filter shape = cO ++ cI ++ n,   strides s,   axes full m n s
   that the N-D adjointness theorems of proofs/ConvND.v (Section ND) are stated for, any D >= 1, both
   multi_channel conventions, both modes, strides None / Some.  No convolution algebra is redone here. *)
From Coq Require Import ZArith List Lia Bool Ring.
From SV Require Import lib.Scalar lib.BigSum lib.LoopIR lib.NdArray lib.Gather model.Rearrange model.Block model.Linop
  model.Conv model.OpaqueConv proofs.ConvTools proofs.ConvReject proofs.Conv1D proofs.ConvND proofs.LinopTheory proofs.LinopStack proofs.LinopAll.
Import ListNotations.
Local Open Scope Z_scope.

Notation pos := (Forall (fun k : Z => 0 < k)).

(* ================================================================ list / positivity facts *)
Lemma all_pos_Forall l : all_pos l = true <-> pos l.
Proof.
  unfold all_pos. rewrite forallb_forall, Forall_forall.
  split; intros H x Hx; specialize (H x Hx); apply Z.ltb_lt; exact H.
Qed.

Lemma all_pos_app a b : all_pos (a ++ b) = true -> all_pos a = true /\ all_pos b = true.
Proof. unfold all_pos. rewrite forallb_app. intros H. apply andb_true_iff in H. exact H. Qed.

Lemma pos_repeat1 k : pos (repeat 1 k).
Proof. induction k; simpl; constructor; [lia|assumption]. Qed.

Lemma split_last {A} (l : list A) k : (k <= length l)%nat -> exists pre post, l = pre ++ post /\ length post = k.
Proof.
  intros H. exists (firstn (length l - k) l), (skipn (length l - k) l). split.
  - symmetry. apply firstn_skipn.
  - rewrite skipn_length. lia.
Qed.

(* ================================================================ what an accepted _get_convolve_params call tells *)
Lemma stride_facts dsh fsh full st mc r :
  conv_params dsh fsh full st mc = Ok r ->
  st_ok st (cv_s (cv_D fsh mc) st) (cv_D fsh mc) /\ length (cv_s (cv_D fsh mc) st) = cv_D fsh mc.
Proof.
  intros H. destruct st as [s0|]; cbn [cv_s].
  - destruct (Nat.eq_dec (length s0) (cv_D fsh mc)) as [E|E].
    + split; [left; reflexivity| exact E].
    + rewrite (params_bad_strides dsh fsh full s0 mc E) in H. discriminate H.
  - split; [right; split; reflexivity| apply repeat_length].
Qed.

Lemma pos_strides st D : strides_pos st = true -> pos (cv_s D st).
Proof.
  destruct st as [s0|]; cbn [strides_pos cv_s]; intros H; [apply all_pos_Forall; exact H| apply pos_repeat1].
Qed.

(* multi_channel = True: ranks and the channel check *)
Lemma conv_decomp_mc dsh fsh full st r :
  conv_params dsh fsh full st true = Ok r ->
  exists b ci co m n, dsh = b ++ ci :: m /\ fsh = co :: ci :: n /\ length m = length n /\ n <> [].
Proof.
  intros H. pose proof H as H0. unfold conv_params in H.
  destruct (length fsh <? 2 + 1)%nat eqn:E1; [discriminate H|].
  destruct (length dsh <? length fsh - 2 + 1)%nat eqn:E2; [discriminate H|]. clear H.
  apply Nat.ltb_ge in E1. apply Nat.ltb_ge in E2.
  destruct fsh as [|co [|ci n]]; cbn [length] in E1; try lia.
  assert (Hne : n <> []) by (destruct n; [cbn [length] in E1; lia| discriminate]).
  cbn [length] in E2.
  destruct (split_last dsh (length n + 1)) as (b & post & Ed & Lp); [lia|].
  destruct post as [|ci' m]; [cbn [length] in Lp; lia|].
  cbn [length] in Lp. assert (Lm : length m = length n) by lia.
  assert (ED : cv_D (co :: ci :: n) true = length n) by (unfold cv_D; cbn [length]; lia).
  destruct (Z.eq_dec ci ci') as [E|E].
  - subst ci'. exists b, ci, co, m, n. auto.
  - exfalso. rewrite (params_channel_mismatch dsh (co :: ci :: n) full st) in H0; [discriminate H0|].
    rewrite ED, Ed. change (co :: ci :: n) with ([co] ++ ci :: n). rewrite (pyget_from_end [co] ci n). rewrite <- Lm, (pyget_from_end b ci' m). exact E.
Qed.

(* multi_channel = False: ranks *)
Lemma conv_decomp_sc dsh fsh full st r :
  conv_params dsh fsh full st false = Ok r ->
  exists b m, dsh = b ++ m /\ length m = length fsh /\ fsh <> [].
Proof.
  intros H. unfold conv_params in H.
  destruct (length fsh <? 0 + 1)%nat eqn:E1; [discriminate H|].
  destruct (length dsh <? length fsh - 0 + 0)%nat eqn:E2; [discriminate H|]. clear H.
  apply Nat.ltb_ge in E1. apply Nat.ltb_ge in E2.
  destruct (split_last dsh (length fsh)) as (b & m & Ed & Lm); [lia|].
  exists b, m. repeat split; [exact Ed| exact Lm|]. destruct fsh; [cbn [length] in E1; lia| discriminate].
Qed.

(* positive output lengths in 'valid' mode force  n_d <= m_d  on every axis *)
Lemma axes_of_allpos full m : forall n s,
  length m = length n -> length s = length n -> pos m -> pos n -> pos s ->
  (full = false -> all_pos (zip3 (plen false) m n s) = true) -> axes full m n s.
Proof.
  induction m as [|m0 m IH]; intros [|n0 n] [|s0 s] Lm Ls Hm Hn Hs Hv; simpl in Lm, Ls; try discriminate.
  - constructor.
  - inversion Hm; inversion Hn; inversion Hs; subst.
    assert (Hv0 : full = false -> n0 <= m0 /\ all_pos (zip3 (plen false) m n s) = true).
    { intros E. specialize (Hv E). unfold all_pos in *. cbn [zip3 forallb] in Hv.
      apply andb_true_iff in Hv. destruct Hv as [H0 Hr]. split; [|exact Hr].
      apply Z.ltb_lt in H0. unfold plen in H0.
      destruct (Z_le_gt_dec n0 m0) as [Hle|Hgt]; [exact Hle|]. exfalso.
      assert ((m0 - n0 + 1 + s0 - 1) / s0 < 1) by (apply Z.div_lt_upper_bound; lia). lia. }
    constructor; try assumption.
    + intros E. apply Hv0, E.
    + apply IH; try lia; try assumption. intros E. apply Hv0, E.
Qed.

(* ================================================================ the decomposition *)
Lemma conv_decomp dsh fsh full st mc o :
  conv_oshape dsh fsh full st mc = Ok o -> all_pos o = true -> all_pos dsh = true -> all_pos fsh = true ->
  strides_pos st = true ->
  exists b cI cO m n s,
    pos b /\ pos cI /\ pos cO /\ axes full m n s /\ conv_setup dsh fsh st mc b cI cO m n s full /\
    o = b ++ cO ++ Pv full m n s.
Proof.
  intros Ho Hpo Hpd Hpf Hps. unfold conv_oshape in Ho.
  destruct (conv_params dsh fsh full st mc) as [[[b0 co0] p0]|] eqn:Hpar; [|discriminate Ho].
  cbn [bind] in Ho.
  destruct (stride_facts _ _ _ _ _ _ Hpar) as [Hst Hls].
  pose proof (pos_strides st (cv_D fsh mc) Hps) as Hs.
  destruct mc.
  - destruct (conv_decomp_mc _ _ _ _ _ Hpar) as (b & ci & co & m & n & Ed & Ef & Lm & Hne).
    subst dsh fsh.
    assert (ED : cv_D (co :: ci :: n) true = length n) by (unfold cv_D; cbn [length]; lia).
    rewrite ED in Hst, Hls, Hs. remember (cv_s (length n) st) as s eqn:Es.
    rewrite (conv_params_shape_mc b ci co m n s full st Lm Hls Hne Hst) in Hpar.
    assert (Hp0 : b0 = b /\ co0 = co /\ p0 = zip3 (plen full) m n s).
    { destruct full; [inversion Hpar; auto|].
      destruct (existsb _ _ && existsb _ _); [discriminate Hpar| inversion Hpar; auto]. }
    destruct Hp0 as (-> & -> & ->).
    inversion Ho as [Eo]. subst o. clear Ho Hpar. try subst s.
    apply all_pos_app in Hpd. destruct Hpd as [Hb Hcm]. apply all_pos_Forall in Hb. apply all_pos_Forall in Hcm.
    apply all_pos_Forall in Hpf.
    inversion Hcm as [|? ? Hci Hm]; subst. inversion Hpf as [|? ? Hco Hpf']; subst. inversion Hpf' as [|? ? _ Hn]; subst.
    apply all_pos_app in Hpo. destruct Hpo as [_ Hpo]. apply (all_pos_app [co]) in Hpo. destruct Hpo as [_ Hpp].
    assert (Hax : axes full m n (cv_s (length n) st)).
    { apply axes_of_allpos; try assumption. intros E. subst full. exact Hpp. }
    exists b, [ci], [co], m, n, (cv_s (length n) st).
    split; [exact Hb|]. split; [repeat constructor; assumption|]. split; [repeat constructor; assumption|].
    split; [exact Hax|]. split; [exact (setup_mc b ci co m n _ full st Hax Hne Hst)| reflexivity].
  - destruct (conv_decomp_sc _ _ _ _ _ Hpar) as (b & m & Ed & Lm & Hne).
    subst dsh.
    assert (ED : cv_D fsh false = length fsh) by (unfold cv_D; lia).
    rewrite ED in Hst, Hls, Hs. remember (cv_s (length fsh) st) as s eqn:Es.
    rewrite (conv_params_shape_sc b m fsh s full st Lm Hls Hne Hst) in Hpar.
    assert (Hp0 : b0 = b /\ co0 = 1 /\ p0 = zip3 (plen full) m fsh s).
    { destruct full; [inversion Hpar; auto|].
      destruct (existsb _ _ && existsb _ _); [discriminate Hpar| inversion Hpar; auto]. }
    destruct Hp0 as (-> & -> & ->).
    inversion Ho as [Eo]. subst o. clear Ho Hpar. try subst s.
    apply all_pos_app in Hpd. destruct Hpd as [Hb Hm]. apply all_pos_Forall in Hb. apply all_pos_Forall in Hm.
    apply all_pos_Forall in Hpf.
    apply all_pos_app in Hpo. destruct Hpo as [_ Hpp].
    assert (Hax : axes full m fsh (cv_s (length fsh) st)).
    { apply axes_of_allpos; try assumption. intros E. subst full. exact Hpp. }
    exists b, [], [], m, fsh, (cv_s (length fsh) st).
    split; [exact Hb|]. split; [constructor|]. split; [constructor|].
    split; [exact Hax|]. split; [exact (setup_sc b m fsh _ full st Hax Hne Hst)| reflexivity].
Qed.

(* ================================================================ the four leaves *)
Lemma finish_inv o i r : finish o i = Ok r -> r = (o, i) /\ all_pos o = true /\ all_pos i = true.
Proof.
  unfold finish. destruct (all_pos o) eqn:E1; destruct (all_pos i) eqn:E2; cbn [andb]; intros H;
    try discriminate H. inversion H. auto.
Qed.

(* advertised shapes of the data pair: ConvolveData : d -> o,  ConvolveDataAdjoint : o -> d *)
Lemma shapes_conv_data d f full st mc :
  wf (ConvolveData d f full st mc) = true ->
  exists o, conv_oshape d (ashape_of f) full st mc = Ok o /\ all_pos o = true /\ all_pos d = true /\
            shapes (ConvolveData d f full st mc) = Ok (o, d) /\
            shapes (ConvolveDataAdjoint d f full st mc) = Ok (d, o).
Proof.
  unfold wf. cbn [shapes]. destruct (conv_oshape d (ashape_of f) full st mc) as [o|] eqn:Ho; cbn [bind]; [|discriminate].
  destruct (finish o d) as [r|] eqn:Hf; [|discriminate]. intros _.
  destruct (finish_inv _ _ _ Hf) as (-> & Ho' & Hd'). exists o. repeat split; try assumption.
  unfold finish. rewrite Ho', Hd'. reflexivity.
Qed.

Lemma shapes_conv_filter fs dt full st mc :
  wf (ConvolveFilter fs dt full st mc) = true ->
  exists o, conv_oshape (ashape_of dt) fs full st mc = Ok o /\ all_pos o = true /\ all_pos fs = true /\
            shapes (ConvolveFilter fs dt full st mc) = Ok (o, fs) /\
            shapes (ConvolveFilterAdjoint fs dt full st mc) = Ok (fs, o).
Proof.
  unfold wf. cbn [shapes]. destruct (conv_oshape (ashape_of dt) fs full st mc) as [o|] eqn:Ho; cbn [bind]; [|discriminate].
  destruct (finish o fs) as [r|] eqn:Hf; [|discriminate]. intros _.
  destruct (finish_inv _ _ _ Hf) as (-> & Ho' & Hd'). exists o. repeat split; try assumption.
  unfold finish. rewrite Ho', Hd'. reflexivity.
Qed.

Lemma wf_conv_data_adjoint d f full st mc :
  wf (ConvolveDataAdjoint d f full st mc) = wf (ConvolveData d f full st mc).
Proof.
  unfold wf. cbn [shapes]. destruct (conv_oshape d (ashape_of f) full st mc) as [o|]; cbn [bind]; [|reflexivity].
  unfold finish. rewrite (andb_comm (all_pos d)). destruct (all_pos o && all_pos d); reflexivity.
Qed.

Lemma wf_conv_filter_adjoint fs dt full st mc :
  wf (ConvolveFilterAdjoint fs dt full st mc) = wf (ConvolveFilter fs dt full st mc).
Proof.
  unfold wf. cbn [shapes]. destruct (conv_oshape (ashape_of dt) fs full st mc) as [o|]; cbn [bind]; [|reflexivity].
  unfold finish. rewrite (andb_comm (all_pos fs)). destruct (all_pos o && all_pos fs); reflexivity.
Qed.

(* the default normal operator: nothing class-specific to prove for .N *)
Lemma normal_conv_default L : proven_node_conv L = true -> normal L = mkCompose [adj L; L].
Proof. destruct L; try discriminate; reflexivity. Qed.

Lemma proven_node_conv_adj L : proven_node_conv L = true -> proven_node_conv (adj L) = true.
Proof. destruct L; try discriminate; intros H; exact H. Qed.

Section Pairs.
  Variable R : StarRing.
  Notation farr := (list Z -> R).
  Variable arr : Z -> farr.
  Variable scal : Z -> R.

  Lemma adjoint_pair_ext si so (F G F' G' : farr -> farr) :
    (forall x o, F x o = F' x o) -> (forall y i, G y i = G' y i) ->
    adjoint_pair R si so F' G' -> adjoint_pair R si so F G.
  Proof.
    intros HF HG H x y.
    transitivity (inner so (F' x) y); [unfold inner; apply sumB_ext; intros; rewrite HF; reflexivity|].
    transitivity (inner si x (G' y)); [apply H|].
    unfold inner; apply sumB_ext; intros; rewrite HG; reflexivity.
  Qed.

  (* <convolve(x, filt), y> = <x, convolve_data_adjoint(y, filt, data_shape)>  with the classes' argument passing *)
  Lemma conv_data_core d f full st mc o :
    conv_oshape d (ashape_of f) full st mc = Ok o -> all_pos o = true -> all_pos d = true ->
    all_pos (ashape_of f) = true -> strides_pos st = true ->
    adjoint_pair R d o
      (fun x => conv_res (convolve d (ashape_of f) full st mc x (arr (atag f))))
      (fun y => conv_res (convolve_data_adjoint o (ashape_of f) d full st mc y (arr (atag f)))).
  Proof.
    intros Ho Hpo Hpd Hpf Hps.
    destruct (conv_decomp _ _ _ _ _ _ Ho Hpo Hpd Hpf Hps)
      as (b & cI & cO & m & n & s & Hb & HcI & HcO & Hax & Hset & Eo).
    subst o. intros x y.
    rewrite (convolve_nd_eval R _ _ st mc b cI cO m n s full Hax Hset x (arr (atag f))).
    rewrite (data_adjoint_nd_eval R _ _ st mc b cI cO m n s full Hax Hset y (arr (atag f))).
    cbn [conv_res].
    rewrite (data_adjoint_nd R _ _ st mc b cI cO m n s full Hb HcI HcO Hax Hset (arr (atag f)) x y).
    destruct Hset as (Ed & _). rewrite <- Ed. reflexivity.
  Qed.

  (* <convolve(data, f), y> = <f, convolve_filter_adjoint(y, data, filt_shape)> *)
  Lemma conv_filter_core fs dt full st mc o :
    conv_oshape (ashape_of dt) fs full st mc = Ok o -> all_pos o = true -> all_pos fs = true ->
    all_pos (ashape_of dt) = true -> strides_pos st = true ->
    adjoint_pair R fs o
      (fun x => conv_res (convolve (ashape_of dt) fs full st mc (arr (atag dt)) x))
      (fun y => conv_res (convolve_filter_adjoint o (ashape_of dt) fs full st mc y (arr (atag dt)))).
  Proof.
    intros Ho Hpo Hpf Hpd Hps.
    destruct (conv_decomp _ _ _ _ _ _ Ho Hpo Hpd Hpf Hps)
      as (b & cI & cO & m & n & s & Hb & HcI & HcO & Hax & Hset & Eo).
    subst o. intros x y.
    rewrite (convolve_nd_eval R _ _ st mc b cI cO m n s full Hax Hset (arr (atag dt)) x).
    rewrite (filter_adjoint_nd_eval R _ _ st mc b cI cO m n s full Hax Hset y (arr (atag dt))).
    cbn [conv_res].
    rewrite (filter_adjoint_nd R _ _ st mc b cI cO m n s full Hb HcI HcO Hax Hset (arr (atag dt)) x y).
    destruct Hset as (_ & Ef & _). rewrite <- Ef. reflexivity.
  Qed.

  (* ---- with the model denotation itself as the oracle ---- *)
  Lemma OC_data_pair d f full st mc :
    let L := ConvolveData d f full st mc in
    wf L = true -> conv_valid L = true ->
    adjoint_pair R (ishape_of L) (oshape_of L) (orc_conv arr L) (orc_conv arr (adj L)).
  Proof.
    intros L Hwf Hv. unfold L in *. cbn [conv_valid] in Hv. apply andb_true_iff in Hv. destruct Hv as [Hpf Hps].
    destruct (shapes_conv_data _ _ _ _ _ Hwf) as (o & Ho & Hpo & Hpd & Hs & HsH).
    cbn [adj]. unfold orc_conv, ishape_of, oshape_of. rewrite Hs, HsH.
    exact (conv_data_core d f full st mc o Ho Hpo Hpd Hpf Hps).
  Qed.

  Lemma OC_filter_pair fs dt full st mc :
    let L := ConvolveFilter fs dt full st mc in
    wf L = true -> conv_valid L = true ->
    adjoint_pair R (ishape_of L) (oshape_of L) (orc_conv arr L) (orc_conv arr (adj L)).
  Proof.
    intros L Hwf Hv. unfold L in *. cbn [conv_valid] in Hv. apply andb_true_iff in Hv. destruct Hv as [Hpd Hps].
    destruct (shapes_conv_filter _ _ _ _ _ Hwf) as (o & Ho & Hpo & Hpf & Hs & HsH).
    cbn [adj]. unfold orc_conv, ishape_of, oshape_of. rewrite Hs, HsH.
    exact (conv_filter_core fs dt full st mc o Ho Hpo Hpf Hpd Hps).
  Qed.

  Lemma OC_pair L :
    proven_node_conv L = true -> wf L = true ->
    adjoint_pair R (ishape_of L) (oshape_of L) (orc_conv arr L) (orc_conv arr (adj L)).
  Proof.
    intros Hv Hwf. destruct L; try discriminate Hv.
    - exact (OC_data_pair _ _ _ _ _ Hwf Hv).
    - (* ConvolveDataAdjoint: the symmetric statement *)
      rewrite wf_conv_data_adjoint in Hwf.
      pose proof (OC_data_pair data_shape filt full strides mc Hwf Hv) as H. cbv zeta in H.
      destruct (shapes_conv_data _ _ _ _ _ Hwf) as (o & _ & _ & _ & Hs & HsH).
      apply (adjoint_pair_sym R) in H.
      cbn [adj] in *. unfold ishape_of, oshape_of in *. rewrite Hs in H. rewrite HsH. exact H.
    - exact (OC_filter_pair _ _ _ _ _ Hwf Hv).
    - rewrite wf_conv_filter_adjoint in Hwf.
      pose proof (OC_filter_pair filt_shape data full strides mc Hwf Hv) as H. cbv zeta in H.
      destruct (shapes_conv_filter _ _ _ _ _ Hwf) as (o & _ & _ & _ & Hs & HsH).
      apply (adjoint_pair_sym R) in H.
      cbn [adj] in *. unfold ishape_of, oshape_of in *. rewrite Hs in H. rewrite HsH. exact H.
  Qed.

  (* ---- for an arbitrary oracle that agrees with the model denotation on L and on adj L ---- *)
  Section Orc.
    Variable orc : linop -> farr -> farr.
    Notation apair := (apair R arr scal orc).

    Theorem apair_conv L :
      proven_node_conv L = true -> wf L = true ->
      (forall x o, orc L x o = orc_conv arr L x o) ->
      (forall y i, orc (adj L) y i = orc_conv arr (adj L) y i) ->
      apair L.
    Proof.
      intros Hv Hwf H1 H2. unfold LinopTheory.apair.
      apply (adjoint_pair_ext _ _ _ _ (orc_conv arr L) (orc_conv arr (adj L))).
      - intros x o. destruct L; try discriminate Hv; exact (H1 x o).
      - intros y i. destruct L; try discriminate Hv; exact (H2 y i).
      - apply OC_pair; assumption.
    Qed.

    (* .N is the default composition for the four classes: D (normal L) = D (adj L) o D L, for any oracle *)
    Lemma normal_conv L x :
      proven_node_conv L = true -> D R arr scal orc (normal L) x = D R arr scal orc (adj L) (D R arr scal orc L x).
    Proof. intros Hv. rewrite (normal_conv_default L Hv), D_mkCompose. reflexivity. Qed.

    (* per class, with the validity spelled out: non-empty captured array, positive strides *)
    Theorem apair_ConvolveData d f full st mc :
      wf (ConvolveData d f full st mc) = true -> all_pos (ashape_of f) = true -> strides_pos st = true ->
      (forall x o, orc (ConvolveData d f full st mc) x o = orc_conv arr (ConvolveData d f full st mc) x o) ->
      (forall y i, orc (ConvolveDataAdjoint d f full st mc) y i = orc_conv arr (ConvolveDataAdjoint d f full st mc) y i) ->
      apair (ConvolveData d f full st mc).
    Proof.
      intros Hwf H1 H2 Ho Ha.
      apply apair_conv; [unfold proven_node_conv; cbn [conv_valid]; rewrite H1, H2; reflexivity| exact Hwf| exact Ho| exact Ha].
    Qed.

    Theorem apair_ConvolveDataAdjoint d f full st mc :
      wf (ConvolveDataAdjoint d f full st mc) = true -> all_pos (ashape_of f) = true -> strides_pos st = true ->
      (forall y i, orc (ConvolveDataAdjoint d f full st mc) y i = orc_conv arr (ConvolveDataAdjoint d f full st mc) y i) ->
      (forall x o, orc (ConvolveData d f full st mc) x o = orc_conv arr (ConvolveData d f full st mc) x o) ->
      apair (ConvolveDataAdjoint d f full st mc).
    Proof.
      intros Hwf H1 H2 Ho Ha.
      apply apair_conv; [unfold proven_node_conv; cbn [conv_valid]; rewrite H1, H2; reflexivity| exact Hwf| exact Ho| exact Ha].
    Qed.

    Theorem apair_ConvolveFilter fs dt full st mc :
      wf (ConvolveFilter fs dt full st mc) = true -> all_pos (ashape_of dt) = true -> strides_pos st = true ->
      (forall x o, orc (ConvolveFilter fs dt full st mc) x o = orc_conv arr (ConvolveFilter fs dt full st mc) x o) ->
      (forall y i, orc (ConvolveFilterAdjoint fs dt full st mc) y i = orc_conv arr (ConvolveFilterAdjoint fs dt full st mc) y i) ->
      apair (ConvolveFilter fs dt full st mc).
    Proof.
      intros Hwf H1 H2 Ho Ha.
      apply apair_conv; [unfold proven_node_conv; cbn [conv_valid]; rewrite H1, H2; reflexivity| exact Hwf| exact Ho| exact Ha].
    Qed.

    Theorem apair_ConvolveFilterAdjoint fs dt full st mc :
      wf (ConvolveFilterAdjoint fs dt full st mc) = true -> all_pos (ashape_of dt) = true -> strides_pos st = true ->
      (forall y i, orc (ConvolveFilterAdjoint fs dt full st mc) y i = orc_conv arr (ConvolveFilterAdjoint fs dt full st mc) y i) ->
      (forall x o, orc (ConvolveFilter fs dt full st mc) x o = orc_conv arr (ConvolveFilter fs dt full st mc) x o) ->
      apair (ConvolveFilterAdjoint fs dt full st mc).
    Proof.
      intros Hwf H1 H2 Ho Ha.
      apply apair_conv; [unfold proven_node_conv; cbn [conv_valid]; rewrite H1, H2; reflexivity| exact Hwf| exact Ho| exact Ha].
    Qed.

    (* the form that plugs into adj_correct / adj_correct_all' *)
    Theorem nodes_conv :
      (forall L x o, proven_node_conv L = true -> orc L x o = orc_conv arr L x o) ->
      forall L, proven_node_conv L = true -> wf L = true -> apair L.
    Proof.
      intros Horc L Hv Hwf. apply apair_conv; try assumption.
      - intros x o. apply Horc, Hv.
      - intros y i. apply Horc, proven_node_conv_adj, Hv.
    Qed.

    (* plugged into the grand theorem (LinopAll.adj_correct_all'): every operator tree over all six combinators whose
       non-library leaves pass the boolean check [proven_all] and whose library-backed leaves are valid convolution
       leaves satisfies  <A x, y> = <x, A^H y>  with swapped shapes — the only hypothesis left is that [orc] is the
       model denotation on the convolution leaves *)
    Theorem adj_correct_with_conv A :
      (forall L x o, proven_node_conv L = true -> orc L x o = orc_conv arr L x o) ->
      wf A = true ->
      nodes_ok' (fun L => (proven_all L = true /\ wf L = true) \/ (proven_node_conv L = true /\ wf L = true)) A ->
      apair A /\ adj_shape_ok A.
    Proof.
      intros Horc Hwf Hn. apply (adj_correct_all' R arr scal orc A Hwf).
      eapply nodes_ok'_impl; [|exact Hn]. intros L [H|[Hv Hw]]; [left; exact H| right]. split.
      - destruct L; try discriminate Hv; reflexivity.
      - apply nodes_conv; assumption.
    Qed.
  End Orc.

  (* the oracle taken to be the model denotation: no hypothesis on [orc] is left *)
  Corollary nodes_conv_std L :
    proven_node_conv L = true -> wf L = true -> apair R arr scal (fun L x => orc_conv arr L x) L.
  Proof. intros Hv Hwf. apply nodes_conv; try assumption. intros; reflexivity. Qed.
End Pairs.

(* ================================================================ the hypotheses are satisfiable *)
(* 2-D, multi-channel (c_i = 2, c_o = 3), batch 2, 'valid', strides (2, 1): data [2;2;5;4], filter [3;2;2;3] -> [2;3;2;2];
   1-D, single channel, 'full', strides None, filter longer than the data: data [2;3], filter [5] -> [2;7];
   and the filter-side classes on the same shapes *)
Example conv_valid_satisfiable :
  let L1 := ConvolveData [2; 2; 5; 4] (ARef 1 [3; 2; 2; 3]) false (Some [2; 1]) true in
  let L2 := ConvolveDataAdjoint [2; 3] (ARef 2 [5]) true None false in
  let L3 := ConvolveFilter [3; 2; 2; 3] (ARef 3 [2; 2; 5; 4]) false (Some [2; 1]) true in
  let L4 := ConvolveFilterAdjoint [5] (ARef 4 [2; 3]) true None false in
  (wf L1 && proven_node_conv L1 && zlist_eqb (oshape_of L1) [2; 3; 2; 2] &&
   wf L2 && proven_node_conv L2 && zlist_eqb (ishape_of L2) [2; 7] &&
   wf L3 && proven_node_conv L3 && zlist_eqb (oshape_of L3) [2; 3; 2; 2] &&
   wf L4 && proven_node_conv L4 && zlist_eqb (ishape_of L4) [2; 7]) = true.
Proof. vm_compute. reflexivity. Qed.
