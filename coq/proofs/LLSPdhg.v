(* proofs/LLSPdhg.v — C14, the PrimalDualHybridGradient branches of LinearLeastSquares.
   For the arguments that _get_PrimalDualHybridGradient passes to the algorithm (model/LLS.v:
   [lls_pdhg_step] without G, [lls_pdhgG_step] with G — the step is the C13 model [pd_step] with
   scalar step sizes), for EVERY tau, sigma > 0 (defaulted step sizes are only estimates), every
   theta and every gamma branch:
     without G:  (x, u, x_ext = x) is reproduced by the step  <=>  x minimises the documented
                 objective and u = A x - y;
     with G:     (x, (u1, u2), x_ext = x) is reproduced  <=>  u1 = A x - y, u2 in dg(G x) and
                 grad f(x) + G^H u2 = 0 (the KKT system), and KKT ==> x minimises the documented
                 objective; conversely every minimiser is the primal part of a fixed point when
                 proxg is None, and in general under the subdifferential chain rule at x. *)
From Coq Require Import Reals Lra Lia Psatz List Bool ZArith.
From SV Require Import model.ProxGrad proofs.ProxGrad model.LLS proofs.LLSBase.
Local Open Scope R_scope.

(* components of one update of the scalar-step model that do not depend on the step-size branch *)
Section StepComponents.
  Variables X U : VOps ROps.
  Variables (K : X -> U) (KH : U -> X) (proxfc : R -> U -> U) (proxg : R -> X -> X).
  Notation step := (pd_step_scalar ROps X U K KH proxfc proxg).
  Definition next_u (st : pd_state ROps X U R R) : U :=
    proxfc (pd_sigma st) (vadd (pd_u st) (vscale (S := ROps) (pd_sigma st) (K (pd_xext st)))).
  Definition next_x (st : pd_state ROps X U R R) : X :=
    proxg (pd_tau st) (vadd (pd_x st) (vscale (S := ROps) (- pd_tau st) (KH (next_u st)))).
  Lemma pd_scalar_u theta gp gd st : pd_u (step theta gp gd st) = next_u st.
  Proof.
    unfold pd_step_scalar, pd_step.
    destruct (sgt0 gp && seq0 gd); [reflexivity|]. destruct (seq0 gp && sgt0 gd); reflexivity.
  Qed.
  Lemma pd_scalar_x theta gp gd st : pd_x (step theta gp gd st) = next_x st.
  Proof.
    unfold pd_step_scalar, pd_step.
    destruct (sgt0 gp && seq0 gd); [reflexivity|]. destruct (seq0 gp && sgt0 gd); reflexivity.
  Qed.
  (* x_ext = x + theta' (x - x_old): a state whose x is reproduced keeps x_ext = x *)
  Lemma pd_scalar_xext theta gp gd st :
    exists th : R, pd_xext (step theta gp gd st) = vadd (next_x st) (vscale (S := ROps) th (vsub (next_x st) (pd_x st))).
  Proof.
    unfold pd_step_scalar, pd_step.
    destruct (sgt0 gp && seq0 gd); [eexists; reflexivity|]. destruct (seq0 gp && sgt0 gd); eexists; reflexivity.
  Qed.
End StepComponents.

Section VecSolve.
  Variable E : IPS.
  Lemma vdiv_eq c (a b : E) : c <> 0 -> (vmul (/ c) a = b <-> a = vmul c b).
  Proof.
    intro Hc. split; intro H; [rewrite <- H | rewrite H]; apply ip_ext; intro t; ip_norm; field; exact Hc.
  Qed.
  Lemma inv_pos_1 s : 0 < s -> 0 < 1 / s.
  Proof. intro. unfold Rdiv. rewrite Rmult_1_l. apply Rinv_0_lt_compat. assumption. Qed.
End VecSolve.

(* the data-term dual prox  L2Reg(1, y = -y):  prox of f*(u) = 1/2 ||u||^2 + <u, y> *)
Section DataDual.
  Variable Y : IPS.
  Variable y : Y.
  Lemma dual_data_formula sigma v :
    pdhg_dual_prox_data ROps (IPSV Y) y sigma v = vmul (/ (1 + sigma)) (vminus v (vmul sigma y)).
  Proof.
    unfold pdhg_dual_prox_data, l2reg. cbn [vadd vscale vdivs vt IPSV]. cbn [s1 smul sadd sopp ROps].
    rewrite !Rmult_1_l. f_equal. vec_eq.
  Qed.
  (* it is the prox of hquad 1 y in the sense of C13 (proofs/ProxGrad.v) *)
  Lemma dual_data_is_prox_quad sigma v : pdhg_dual_prox_data ROps (IPSV Y) y sigma v = prox_quad Y 1 y sigma v.
  Proof. rewrite dual_data_formula. unfold prox_quad. rewrite Rmult_1_r. reflexivity. Qed.

  Lemma dual_data_fixed sigma (u w : Y) : 0 < sigma ->
    (pdhg_dual_prox_data ROps (IPSV Y) y sigma (vplus u (vmul sigma w)) = u <-> u = vminus w y).
  Proof.
    intro Hs. rewrite dual_data_formula.
    assert (Hk : 1 + sigma <> 0) by lra.
    split; intro H; [apply (proj1 (vdiv_eq Y (1 + sigma) _ _ Hk)) in H | apply (proj2 (vdiv_eq Y (1 + sigma) _ _ Hk))].
    - apply ip_ext. intro t. apply (f_equal (fun v => ip v t)) in H. revert H. ip_norm. intro H.
      apply Rmult_eq_reg_l with sigma; lra.
    - subst u. vec_eq.
  Qed.
End DataDual.

(* ---------------------------------------------------------------------------------------- *)
(* G is None                                                                                   *)
(* ---------------------------------------------------------------------------------------- *)
Section PdhgNoG.
  Variables X Y : IPS.
  Variables (A : X -> Y) (AH : Y -> X).
  Hypothesis A_adj : forall x u, ip (A x) u = ip x (AH u).
  Variables (y : Y) (lam : R) (z : option X).
  Hypothesis lam_nonneg : 0 <= lam.
  Variables (dom : X -> Prop) (g : X -> R).
  Hypothesis g_convex : convex_on X dom g.
  Variable proxg : option (R -> X -> X).
  Hypothesis proxg_ok : proxg_spec X dom g proxg.

  Notation XV := (IPSV X).
  Notation YV := (IPSV Y).
  Notation zz := (zz_of z).
  Notation grad := (gradfsm X Y A AH y lam zz).
  Notation is_min0 := (is_min X Y X A (idX X) y lam zz dom g).

  (* the configured primal prox in one formula: L2Reg(lamda, z, proxh = proxg) / proxg / NoOp *)
  Lemma primal_prox_eff tau v : 0 < tau ->
    pdhg_primal_prox ROps XV lam z proxg tau v =
    eff_prox X proxg (tau / (1 + lam * tau)) (vmul (/ (1 + lam * tau)) (vplus v (vmul (lam * tau) zz))).
  Proof.
    intro Ht. unfold pdhg_primal_prox. destruct (@sgt0 ROps lam) eqn:E.
    - unfold l2reg. cbn [vadd vscale vdivs vt IPSV s1 smul sadd sdiv ROps].
      destruct z as [q|]; destruct proxg as [p|]; cbn [zz_of eff_prox]; try reflexivity.
      + rewrite vmul_0_r, vplus_0_r'. reflexivity.
      + rewrite vmul_0_r, vplus_0_r'. reflexivity.
    - apply sgt0_R_false in E. assert (lam = 0) by lra. subst lam.
      replace (tau / (1 + 0 * tau)) with tau by (field; lra).
      replace (vmul (/ (1 + 0 * tau)) (vplus v (vmul (0 * tau) zz))) with v.
      + destruct proxg; reflexivity.
      + apply ip_ext; intro t; ip_norm; field; lra.
  Qed.

  Lemma primal_fixed tau (x : X) (k : X) : 0 < tau ->
    (pdhg_primal_prox ROps XV lam z proxg tau (vplus x (vmul (- tau) k)) = x <->
     subgrad X dom g x (vmul (-1) (vplus k (vmul lam (vminus x zz))))).
  Proof.
    intro Ht. rewrite primal_prox_eff by exact Ht.
    assert (Hk : 0 < 1 + lam * tau) by nra.
    assert (Hb : 0 < tau / (1 + lam * tau)) by (apply Rdiv_lt_0_compat; assumption).
    rewrite (eff_prox_vi X dom g proxg proxg_ok _ _ x Hb).
    match goal with |- subgrad _ _ _ _ ?w <-> subgrad _ _ _ _ ?w' => assert (Ew : w = w') end.
    { apply ip_ext; intro t; ip_norm; field; lra. }
    rewrite Ew. reflexivity.
  Qed.

  Lemma pdhg_fixed_iff_min_lemma st :
    0 < pd_tau st -> 0 < pd_sigma st -> pd_xext st = pd_x st ->
    let st' := lls_pdhg_step ROps XV YV A AH y lam z proxg st in
    (pd_x st' = pd_x st /\ pd_u st' = pd_u st) <->
    (is_min0 (pd_x st) /\ pd_u st = vminus (A (pd_x st)) y).
  Proof.
    destruct st as [x u xe tau sigma tmin smin r]. cbn [pd_x pd_u pd_xext pd_tau pd_sigma].
    intros Ht Hs He. cbv zeta. subst xe. unfold lls_pdhg_step. rewrite pd_scalar_x, pd_scalar_u.
    unfold next_x, next_u. cbn [pd_x pd_u pd_xext pd_tau pd_sigma]. cbn [vadd vscale vt IPSV].
    set (u' := pdhg_dual_prox_data ROps YV y sigma (vplus u (vmul sigma (A x)))).
    assert (Hu' : u' = u <-> u = vminus (A x) y) by (apply dual_data_fixed; exact Hs).
    clearbody u'.
    rewrite (min_iff_subgrad X Y A AH A_adj y lam zz lam_nonneg dom g g_convex).
    split.
    - intros [Hx Hu]. pose proof (proj1 Hu' Hu) as Huy. split; [|exact Huy].
      subst u'. apply (primal_fixed _ _ _ Ht) in Hx. subst u. exact Hx.
    - intros [Hm Huy]. pose proof (proj2 Hu' Huy) as Hu. split; [|exact Hu].
      subst u'. apply (primal_fixed _ _ _ Ht). subst u. exact Hm.
  Qed.

  (* ... and then x_ext = x again, so the state is reproduced for every later update as well *)
  Lemma pdhg_fixed_keeps_xext st :
    let st' := lls_pdhg_step ROps XV YV A AH y lam z proxg st in
    pd_x st' = pd_x st -> pd_xext st' = pd_x st'.
  Proof.
    intros st' Hx. unfold st', lls_pdhg_step in *.
    destruct (pd_scalar_xext XV YV A AH (pdhg_dual_prox_data ROps YV y) (pdhg_primal_prox ROps XV lam z proxg)
                              s1 (pdhg_gamma_primal ROps lam) (pdhg_gamma_dual_noG ROps) st) as [th Hth].
    rewrite Hth. rewrite pd_scalar_x in *. rewrite Hx. cbn [vadd vscale vsub vt IPSV]. vec_eq.
  Qed.
End PdhgNoG.

(* ---------------------------------------------------------------------------------------- *)
(* G given                                                                                     *)
(* ---------------------------------------------------------------------------------------- *)
Section PdhgWithG.
  Variables X Y W : IPS.
  Variables (A : X -> Y) (AH : Y -> X) (G : X -> W) (GH : W -> X).
  Hypothesis A_adj : forall x u, ip (A x) u = ip x (AH u).
  Hypothesis G_adj : forall x u, ip (G x) u = ip x (GH u).
  Variables (y : Y) (lam : R) (z : option X).
  Hypothesis lam_nonneg : 0 <= lam.
  Variables (dom : W -> Prop) (g : W -> R).
  Hypothesis g_convex : convex_on W dom g.
  Variable proxg : option (R -> W -> W).
  Hypothesis proxg_ok : proxg_spec W dom g proxg.

  Notation XV := (IPSV X).
  Notation YV := (IPSV Y).
  Notation WV := (IPSV W).
  Notation zz := (zz_of z).
  Notation grad := (gradfsm X Y A AH y lam zz).
  Notation is_minG := (is_min X Y W A G y lam zz dom g).
  Notation kktG := (kkt X Y W A AH G GH y lam zz dom g).

  (* Conj(proxg) reproduces u2 from u2 + sigma * w  <=>  u2 is a subgradient of g at w *)
  Lemma conj_fixed sigma (u2 w : W) : 0 < sigma ->
    (conj_prox (S := ROps) (V := WV) (prox_or_noop (S := ROps) (V := WV) proxg) sigma (vplus u2 (vmul sigma w)) = u2
     <-> subgrad W dom g w u2).
  Proof.
    intro Hs.
    assert (Ep : prox_or_noop (S := ROps) (V := WV) proxg = eff_prox W proxg) by (destruct proxg; reflexivity).
    rewrite Ep. unfold conj_prox. cbn [vadd vsub vscale vdivs vt IPSV sdiv s1 ROps].
    set (P := eff_prox W proxg (1 / sigma) (vmul (/ sigma) (vplus u2 (vmul sigma w)))).
    assert (HP : P = w <-> subgrad W dom g w u2).
    { unfold P. rewrite (eff_prox_vi W dom g proxg proxg_ok _ _ w (inv_pos_1 sigma Hs)).
      match goal with |- subgrad _ _ _ _ ?a <-> subgrad _ _ _ _ ?b => assert (Ew : a = b) end.
      { apply ip_ext; intro t; ip_norm; field; lra. }
      rewrite Ew. reflexivity. }
    rewrite <- HP. clearbody P. split; intro H.
    - apply (vmul_cancel W sigma); [lra|]. apply ip_ext. intro t.
      apply (f_equal (fun v => ip v t)) in H. revert H. ip_norm. intro H. lra.
    - subst P. vec_eq.
  Qed.

  (* the configured primal prox L2Reg(lamda, z) / NoOp reproduces x from x - tau k  <=>  k + lamda (x - z) = 0 *)
  Lemma primalG_fixed tau (x k : X) : 0 < tau ->
    (pdhgG_primal_prox ROps XV lam z tau (vplus x (vmul (- tau) k)) = x <-> vplus k (vmul lam (vminus x zz)) = v0).
  Proof.
    intro Ht.
    assert (Ef : pdhgG_primal_prox ROps XV lam z tau (vplus x (vmul (- tau) k)) =
                 vmul (/ (1 + lam * tau)) (vplus (vplus x (vmul (- tau) k)) (vmul (lam * tau) zz))).
    { unfold pdhgG_primal_prox. destruct (@sgt0 ROps lam) eqn:E.
      - unfold l2reg. cbn [vadd vscale vdivs vt IPSV s1 smul sadd sdiv ROps].
        destruct z as [q|]; cbn [zz_of]; [reflexivity|]. rewrite vmul_0_r, vplus_0_r'. reflexivity.
      - apply sgt0_R_false in E. assert (lam = 0) by lra. subst lam. unfold noop.
        apply ip_ext; intro t; ip_norm; field; lra. }
    rewrite Ef. assert (Hk : 1 + lam * tau <> 0) by nra.
    split; intro H; [apply (proj1 (vdiv_eq X _ _ _ Hk)) in H | apply (proj2 (vdiv_eq X _ _ _ Hk))];
      apply ip_ext; intro t; apply (f_equal (fun v => ip v t)) in H; revert H; ip_norm; intro H.
    - apply Rmult_eq_reg_l with tau; lra.
    - apply (f_equal (Rmult tau)) in H. lra.
  Qed.

  Notation UV := (stackU ROps YV WV).

  Lemma pdhgG_fixed_iff_kkt_lemma (st : pd_state ROps XV UV R R) :
    0 < pd_tau st -> 0 < pd_sigma st -> pd_xext st = pd_x st ->
    let st' := lls_pdhgG_step ROps XV YV WV A AH G GH y lam z proxg st in
    (pd_x st' = pd_x st /\ pd_u st' = pd_u st) <->
    (kktG (pd_x st) (snd (pd_u st)) /\ fst (pd_u st) = vminus (A (pd_x st)) y).
  Proof.
    destruct st as [x [u1 u2] xe tau sigma tmin smin r]. cbn [pd_x pd_u pd_xext pd_tau pd_sigma fst snd].
    intros Ht Hs He. cbv zeta. subst xe. unfold lls_pdhgG_step. rewrite pd_scalar_x, pd_scalar_u.
    unfold next_x, next_u. cbn [pd_x pd_u pd_xext pd_tau pd_sigma].
    unfold pdhgG_dual_prox, stackA, stackAH.
    cbn [vadd vscale vt stackU prodV fst snd]. cbn [vadd vscale vt IPSV].
    set (u1' := pdhg_dual_prox_data ROps YV y sigma (vplus u1 (vmul sigma (A x)))).
    set (u2' := conj_prox (S := ROps) (V := WV) _ sigma (vplus u2 (vmul sigma (G x)))).
    assert (H1' : u1' = u1 <-> u1 = vminus (A x) y) by (apply dual_data_fixed; exact Hs).
    assert (H2' : u2' = u2 <-> subgrad W dom g (G x) u2) by (apply conj_fixed; exact Hs).
    clearbody u1' u2'. unfold kkt. rewrite pair_equal_spec.
    split.
    - intros [Hx [Hu1 Hu2]]. pose proof (proj1 H1' Hu1) as E1. pose proof (proj1 H2' Hu2) as E2.
      split; [split; [exact E2|]|exact E1].
      subst u1' u2'. apply (primalG_fixed _ _ _ Ht) in Hx. subst u1. rewrite <- Hx. unfold gradfsm. vec_eq.
    - intros [[E2 Hk] E1]. pose proof (proj2 H1' E1) as Hu1. pose proof (proj2 H2' E2) as Hu2.
      split; [|split; assumption]. subst u1' u2'. apply (primalG_fixed _ _ _ Ht). subst u1.
      rewrite <- Hk. unfold gradfsm. vec_eq.
  Qed.

  (* a fixed point of the configured step solves the documented problem *)
  Lemma pdhgG_fixed_min_lemma (st : pd_state ROps XV UV R R) :
    0 < pd_tau st -> 0 < pd_sigma st -> pd_xext st = pd_x st ->
    let st' := lls_pdhgG_step ROps XV YV WV A AH G GH y lam z proxg st in
    pd_x st' = pd_x st -> pd_u st' = pd_u st -> is_minG (pd_x st).
  Proof.
    intros Ht Hs He st' Hx Hu.
    destruct (proj1 (pdhgG_fixed_iff_kkt_lemma st Ht Hs He) (conj Hx Hu)) as [Hk _].
    exact (kkt_min X Y W A AH G GH A_adj G_adj y lam zz lam_nonneg dom g _ _ Hk).
  Qed.

  (* conversely: a minimiser at which the chain rule d(g o G)(x) = G^H dg(G x) holds — i.e. a minimiser
     that admits a KKT multiplier — is the primal part of a fixed point, with explicit dual variables *)
  Lemma pdhgG_kkt_fixed_lemma tau sigma x w tmin smin r :
    0 < tau -> 0 < sigma -> kktG x w ->
    let st := mkPD (S := ROps) (X := XV) (U := UV) x (vminus (A x) y, w) x tau sigma tmin smin r in
    let st' := lls_pdhgG_step ROps XV YV WV A AH G GH y lam z proxg st in
    pd_x st' = x /\ pd_u st' = (vminus (A x) y, w).
  Proof.
    intros Ht Hs Hk st st'.
    apply (proj2 (pdhgG_fixed_iff_kkt_lemma st Ht Hs eq_refl)). cbn [pd_x pd_u fst snd]. auto.
  Qed.

  (* the multiplier exists without any qualification when proxg is None (g = 0): w = 0 *)
  Lemma pdhgG_min_kkt_noprox x : proxg = None -> is_minG x -> kktG x v0.
  Proof.
    intros Ep Hm. rewrite Ep in proxg_ok. destruct proxg_ok as [Hd Hg].
    pose proof (proj1 (min_iff_grad0 X Y W A AH G GH A_adj G_adj y lam zz lam_nonneg dom g g_convex x Hd Hg) Hm) as H0.
    split.
    - split; [apply Hd|]. intros v _. rewrite !Hg. ip_norm. lra.
    - rewrite H0. rewrite (adj_0 W X GH G (adj_sym X W G GH G_adj)). vec_eq.
  Qed.
End PdhgWithG.
