(* proofs/ProxThresh.v — thresh.py over R: soft threshold is the prox of lam*|.| (one proof for real
   and complex elements: the element type is any real inner-product space), hard threshold is the
   documented map, clip / l2_proj / linf_proj are Euclidean projections. *)
From Coq Require Import Reals Lra Lia List Bool Psatz.
From SV Require Import model.Prox proofs.ProxBase.
Import ListNotations.
Local Open Scope R_scope.

Lemma mag_max a lam : (Rabs (a - lam) + (a - lam)) / 2 = Rmax (a - lam) 0.
Proof.
  unfold Rmax, Rabs. destruct (Rcase_abs (a - lam)); destruct (Rle_dec (a - lam) 0); lra.
Qed.

Lemma sumn_shift n f : sumn (S n) f = f 0%nat + sumn n (fun i => f (S i)).
Proof. induction n; simpl in *; [lra|]. rewrite IHn. lra. Qed.

Lemma fold_left_sumn (l : list R) a : fold_left Rplus l a = a + sumn (length l) (fun i => nth i l 0).
Proof.
  revert a; induction l; intros a0; simpl length; [simpl; lra|].
  rewrite sumn_shift. simpl. rewrite IHl. lra.
Qed.

Lemma nth_map_in {A B} (f : A -> B) l i d d' : (i < length l)%nat -> nth i (map f l) d = f (nth i l d').
Proof. intros. rewrite (nth_indep _ d (f d')) by (rewrite map_length; auto). apply map_nth. Qed.

Section Thresh.
  Context {El : Elem RR} (LW : ElemLaws El).
  Notation ei := (ein LW).
  Notation esc := (@escale RR El).
  Notation soft1 := (@soft_thresh1 RR El).

  (* ------------------------------------------------------------ one element *)
  (* the kernel's output is c*y with c*|y| = (|y| - lam)_+ *)
  Lemma soft1_scaled lam (y : El) : 0 <= lam ->
    exists c, 0 <= c <= 1 /\ (forall w, ei (soft1 lam y) w = c * ei y w) /\ c * eabs y = Rmax (eabs y - lam) 0.
  Proof.
    intros Hl. unfold soft_thresh1. simpl.
    pose proof (eabs_nonneg LW y) as HA.
    destruct (Reqb (eabs y) 0) eqn:E.
    - apply Reqb_true in E. exists 0. split; [lra|]. split.
      + intros w. rewrite (ein_scale_l LW), (ein_e0_l LW). lra.
      + rewrite E. unfold Rmax. destruct (Rle_dec (0 - lam) 0); lra.
    - apply Reqb_false in E. assert (0 < eabs y) by lra.
      rewrite mag_max. exists (Rmax (eabs y - lam) 0 / eabs y).
      assert (Hm : 0 <= Rmax (eabs y - lam) 0 <= eabs y).
      { unfold Rmax. destruct (Rle_dec (eabs y - lam) 0); lra. }
      split; [|split].
      + split; [apply Rmult_le_pos; [lra | left; apply Rinv_0_lt_compat; lra]|].
        apply Rmult_le_reg_r with (eabs y); auto. unfold Rdiv. rewrite Rmult_assoc, Rinv_l by lra. lra.
      + intros w. rewrite (ein_scale_l LW), (edivr_spec LW), (ein_scale_l LW). unfold Rdiv. ring.
      + field. lra.
  Qed.

  (* variational inequality of prox_{lam |.|} at one element *)
  Lemma soft1_vi lam (y z : El) : 0 <= lam ->
    lam * eabs (soft1 lam y) + ei (esub y (soft1 lam y)) (esub z (soft1 lam y)) <= lam * eabs z.
  Proof.
    intros Hl. destruct (soft1_scaled lam y Hl) as (c & Hc & Hp & Hm).
    set (p := soft1 lam y) in *.
    rewrite (eabs_of_scaled LW p y c) by (auto; lra).
    einx LW. rewrite !Hp. rewrite (ein_sym LW y p), Hp. rewrite <- (eabs_sq LW y).
    pose proof (ein_le_abs LW y z) as Hcs.
    pose proof (eabs_nonneg LW y) as HA. pose proof (eabs_nonneg LW z) as HZ.
    set (A := eabs y) in *. set (Z := eabs z) in *. set (yz := ei y z) in *.
    unfold Rmax in Hm. destruct (Rle_dec (A - lam) 0) as [Hle|Hgt].
    - (* |y| <= lam : p = 0 *)
      assert (HcA2 : c * (A * A) = 0) by (replace (c * (A * A)) with (c * A * A) by ring; rewrite Hm; ring).
      assert (Hyz : yz <= lam * Z) by nra.
      replace (lam * (c * A)) with (lam * 0) by (rewrite <- Hm; ring).
      replace (c * (c * (A * A))) with (c * 0) by (rewrite <- HcA2; ring).
      rewrite HcA2.
      destruct (Rle_dec 0 yz); nra.
    - (* |y| > lam : p = (1 - lam/|y|) y *)
      assert (H1c : (1 - c) * A = lam) by lra.
      assert (Hyz : (1 - c) * yz <= (1 - c) * (A * Z)) by (apply Rmult_le_compat_l; lra).
      replace ((1 - c) * (A * Z)) with (lam * Z) in Hyz by (rewrite <- H1c; ring).
      assert (E : lam * (c * A) + (yz - c * (A * A) - (c * yz - c * (c * (A * A)))) =
                  (1 - c) * yz + (c * A) * (lam - (1 - c) * A)) by ring.
      rewrite E, H1c. lra.
  Qed.

  (* y - soft(y): projection of one element onto {|x| <= lam} *)
  Lemma linf1_abs lam (y : El) : 0 <= lam -> eabs (esub y (soft1 lam y)) <= lam.
  Proof.
    intros Hl. destruct (soft1_scaled lam y Hl) as (c & Hc & Hp & Hm).
    rewrite (eabs_of_scaled LW _ y (1 - c)); [|lra|].
    - pose proof (eabs_nonneg LW y). unfold Rmax in Hm. destruct (Rle_dec (eabs y - lam) 0); nra.
    - intros w. rewrite (ein_sub_l LW), Hp. ring.
  Qed.

  Lemma linf1_vi lam (y z : El) : 0 <= lam -> eabs z <= lam ->
    ei (esub y (esub y (soft1 lam y))) (esub z (esub y (soft1 lam y))) <= 0.
  Proof.
    intros Hl Hz. destruct (soft1_scaled lam y Hl) as (c & Hc & Hp & Hm).
    set (p := soft1 lam y) in *.
    einx LW. rewrite !Hp. rewrite (ein_sym LW y p), Hp. rewrite <- (eabs_sq LW y).
    pose proof (ein_le_abs LW y z) as Hcs.
    pose proof (eabs_nonneg LW y) as HA. pose proof (eabs_nonneg LW z) as HZ.
    set (A := eabs y) in *. set (Z := eabs z) in *. set (yz := ei y z) in *.
    assert (E : A * A - (A * A - c * (A * A)) - (yz - (c * (A * A) - c * (c * (A * A)))) - 0 = 0 -> True) by auto.
    clear E.
    match goal with |- ?L <= 0 => assert (E : L = c * yz - (c * A) * ((1 - c) * A)) by ring; rewrite E; clear E end.
    unfold Rmax in Hm. destruct (Rle_dec (A - lam) 0) as [Hle|Hgt].
    - assert (HcA : c * A = 0) by lra. rewrite HcA.
      destruct (Req_dec A 0) as [HA0|HA0].
      + assert (yz <= 0) by nra. nra.
      + assert (c = 0) by nra. subst c. lra.
    - assert (H1c : (1 - c) * A = lam) by lra. rewrite H1c.
      assert (c * yz <= c * (A * Z)) by (apply Rmult_le_compat_l; lra).
      assert (c * (A * Z) <= c * A * lam) by nra. lra.
  Qed.

  (* translation by a bias b: out = q + b *)
  Lemma ein_translate (y z q b out : El) :
    (forall w, ei out w = ei q w + ei b w) ->
    ei (esub y out) (esub z out) = ei (esub (esub y b) q) (esub (esub z b) q).
  Proof.
    intros H. einx LW. rewrite !H. rewrite (ein_sym LW y out), (ein_sym LW b out), (ein_sym LW q out), !H.
    rewrite (ein_sym LW y b), (ein_sym LW y q), (ein_sym LW b q). ring.
  Qed.

  (* ------------------------------------------------------------ vectors *)
  Notation softv := (@soft_thresh RR El).
  Notation hardv := (@hard_thresh RR El).
  Notation linfv := (@linf_proj RR El).
  Notation l2v := (@l2_proj RR El).

  Lemma soft_thresh_length lam (y : list El) : length (softv lam y) = length y.
  Proof. apply imap_length. Qed.
  Lemma soft_thresh_nth lam (y : list El) i : (i < length y)%nat ->
    fn (softv lam y) i = soft1 (sv_get 0 lam i) (fn y i).
  Proof. intros. unfold fn, soft_thresh. rewrite (nth_imap _ y i e0 e0); auto. Qed.

  (* soft_thresh(lam, y) is the proximal point of x |-> sum_i lam_i |x_i| at y (lam scalar or array) *)
  Theorem soft_thresh_prox (lam : sv R) (y : list El) :
    (forall i, 0 <= sv_get 0 lam i) ->
    length (softv lam y) = length y /\
    prox_at LW (length y) (fun _ => True) (fun x => sumn (length y) (fun i => sv_get 0 lam i * eabs (x i)))
            (fn y) (fn (softv lam y)).
  Proof.
    intros Hl. split; [apply soft_thresh_length|]. split; [exact I|]. intros z _.
    apply (separable_vi LW (length y) (fun i e => sv_get 0 lam i * eabs e)).
    intros i Hi. rewrite soft_thresh_nth by auto. apply soft1_vi. auto.
  Qed.

  (* hard threshold: the documented map *)
  Theorem hard_thresh_spec (lam : sv R) (y : list El) :
    length (hardv lam y) = length y /\
    forall i, (i < length y)%nat ->
      fn (hardv lam y) i = if Rlt_dec (sv_get 0 lam i) (eabs (fn y i)) then fn y i else e0.
  Proof.
    split; [apply imap_length|]. intros i Hi. unfold fn, hard_thresh.
    rewrite (nth_imap _ y i e0 e0) by auto. unfold hard_thresh1. simpl. unfold Rltb.
    destruct (Rlt_dec (sv_get 0 lam i) (eabs (nth i y e0))); reflexivity.
  Qed.

  (* linf_proj without bias: projection onto {max_i |x_i| <= eps} *)
  Lemma linf_nth eps (y : list El) i : (i < length y)%nat ->
    fn (linfv eps y None) i = esub (fn y i) (soft1 eps (fn y i)).
  Proof.
    intros Hi. unfold fn, linf_proj.
    rewrite (nth_map2 esub y _ i e0 e0 e0); auto; [|rewrite soft_thresh_length; auto].
    f_equal. apply (soft_thresh_nth (SS eps) y i Hi).
  Qed.

  Theorem linf_proj_is_proj eps (y : list El) : 0 <= eps ->
    length (linfv eps y None) = length y /\
    proj_at LW (length y) (fun z => forall i, (i < length y)%nat -> eabs (z i) <= eps) (fn y) (fn (linfv eps y None)).
  Proof.
    intros He. split.
    { unfold linf_proj. rewrite map2_length; auto. rewrite soft_thresh_length; auto. }
    split.
    - intros i Hi. rewrite linf_nth by auto. apply linf1_abs; auto.
    - intros z Hz. unfold dotn, fsub. rewrite <- (sumn_zero (length y)). apply sumn_le. intros i Hi.
      rewrite linf_nth by auto. apply linf1_vi; auto.
  Qed.

  (* with a bias: projection onto the ball centred at the bias *)
  Lemma linf_bias_nth eps (y : list El) (b : sv El) i : (i < length y)%nat ->
    fn (linfv eps y (Some b)) i =
    eadd (esub (esub (fn y i) (sv_get e0 b i)) (soft1 eps (esub (fn y i) (sv_get e0 b i)))) (sv_get e0 b i).
  Proof.
    intros Hi. unfold fn, linf_proj.
    rewrite (nth_imap _ _ i e0 e0).
    2:{ rewrite map2_length; rewrite ?soft_thresh_length, ?imap_length; auto. }
    f_equal.
    rewrite (nth_map2 esub _ _ i e0 e0 e0); rewrite ?soft_thresh_length, ?imap_length; auto.
    pose proof (soft_thresh_nth (SS eps) (imap (fun i x => esub x (sv_get e0 b i)) y) i) as Hs.
    unfold fn in Hs. rewrite Hs by (rewrite imap_length; auto).
    rewrite (nth_imap _ y i e0 e0) by auto. reflexivity.
  Qed.

  Theorem linf_proj_bias_is_proj eps (y : list El) (b : sv El) : 0 <= eps ->
    length (linfv eps y (Some b)) = length y /\
    proj_at LW (length y) (fun z => forall i, (i < length y)%nat -> eabs (esub (z i) (sv_get e0 b i)) <= eps)
            (fn y) (fn (linfv eps y (Some b))).
  Proof.
    intros He. split.
    { unfold linf_proj. rewrite imap_length, map2_length; rewrite ?soft_thresh_length, ?imap_length; auto. }
    split.
    - intros i Hi. rewrite linf_bias_nth by auto.
      set (y' := esub (fn y i) (sv_get e0 b i)). set (bi := sv_get e0 b i).
      replace (esub (eadd (esub y' (soft1 eps y')) bi) bi) with (esub y' (soft1 eps y')).
      + apply linf1_abs; auto.
      + apply (ein_ext LW). intros c. einx LW. ring.
    - intros z Hz. unfold dotn, fsub. rewrite <- (sumn_zero (length y)). apply sumn_le. intros i Hi.
      rewrite linf_bias_nth by auto.
      rewrite (ein_translate (fn y i) (z i) (esub (esub (fn y i) (sv_get e0 b i)) (soft1 eps (esub (fn y i) (sv_get e0 b i))))
                             (sv_get e0 b i)).
      + apply linf1_vi; auto.
      + intros w. einx LW. ring.
  Qed.

  (* ------------------------------------------------------------ l2_proj *)
  Lemma dotn_scaled_l n (p y w : nat -> El) c :
    (forall i, (i < n)%nat -> forall u, ei (p i) u = c * ei (y i) u) -> dotn LW n p w = c * dotn LW n y w.
  Proof. intros H. unfold dotn. rewrite <- sumn_scal. apply sumn_ext. intros; apply H; auto. Qed.

  Lemma l2_norm_sq (y : list El) :
    @rsum RR (map (fun x : El => @rmul RR (eabs x) (eabs x)) y) = dotn LW (length y) (fn y) (fn y).
  Proof.
    unfold rsum. simpl. rewrite fold_left_sumn, map_length. unfold dotn. rewrite Rplus_0_l.
    apply sumn_ext. intros i Hi. unfold fn.
    rewrite (nth_map_in _ y i 0 e0) by auto. apply eabs_sq.
  Qed.

  Theorem l2_proj_is_proj eps (y : list El) : 0 < eps ->
    length (l2v eps y) = length y /\
    proj_at LW (length y) (fun z => dotn LW (length y) z z <= eps * eps) (fn y) (fn (l2v eps y)).
  Proof.
    intros He. split; [unfold l2_proj; apply map_length|].
    set (n := length y). set (N2 := dotn LW n (fn y) (fn y)).
    assert (HN2 : 0 <= N2) by apply dotn_pos.
    assert (Hnth : forall i, (i < n)%nat -> forall u,
               ei (fn (l2v eps y) i) u =
               (if Rlt_dec (sqrt N2) eps then 1 else eps / sqrt N2) * ei (fn y i) u).
    { intros i Hi u. unfold fn, l2_proj. rewrite (nth_map_in _ y i e0 e0) by auto. rewrite l2_norm_sq. fold n. fold N2.
      simpl. unfold Rltb. destruct (Rlt_dec (sqrt N2) eps); simpl.
      - einx LW. rewrite (edivr_spec LW). einx LW. ring.
      - einx LW. rewrite (edivr_spec LW). einx LW. rewrite Rplus_0_r. unfold Rdiv. ring. }
    pose proof (sqrt_pos N2) as Hs. pose proof (sqrt_sqrt N2 HN2) as Hss.
    destruct (Rlt_dec (sqrt N2) eps) as [Hin|Hout].
    - (* inside: unchanged *)
      assert (Hp : forall w, dotn LW n (fn (l2v eps y)) w = dotn LW n (fn y) w).
      { intros w. rewrite (dotn_scaled_l n _ (fn y) w 1); [lra|]. intros; rewrite Hnth; auto. }
      split.
      + rewrite Hp, (dotn_sym LW), Hp. fold N2. nra.
      + intros z Hz. dotx LW. rewrite !Hp. rewrite (dotn_sym LW n (fn y) (fn (l2v eps y))), Hp. lra.
    - (* outside or on the sphere: rescaled to the sphere *)
      assert (Hpos : 0 < sqrt N2) by lra.
      set (c := eps / sqrt N2) in *.
      assert (Hc : c * sqrt N2 = eps) by (unfold c; field; lra).
      assert (Hc0 : 0 < c) by (unfold c; apply Rdiv_lt_0_compat; lra).
      assert (Hc1 : c <= 1) by (apply Rmult_le_reg_r with (sqrt N2); lra).
      assert (Hp : forall w, dotn LW n (fn (l2v eps y)) w = c * dotn LW n (fn y) w).
      { intros w. apply dotn_scaled_l. intros; rewrite Hnth; auto. }
      assert (HcN : c * (c * N2) = eps * eps).
      { rewrite <- Hss. replace (c * (c * (sqrt N2 * sqrt N2))) with ((c * sqrt N2) * (c * sqrt N2)) by ring. rewrite Hc. ring. }
      split.
      + rewrite Hp, (dotn_sym LW), Hp. fold N2. lra.
      + intros z Hz. dotx LW. rewrite !Hp. rewrite (dotn_sym LW n (fn y) (fn (l2v eps y))), Hp. fold N2.
        pose proof (dotn_cs LW n (fn y) z) as Hcs. fold N2 in Hcs.
        set (yz := dotn LW n (fn y) z) in *. set (zz := dotn LW n z z) in *.
        assert (Hyz : yz <= sqrt N2 * eps).
        { destruct (Rle_dec yz (sqrt N2 * eps)) as [|Hn]; auto. exfalso.
          assert (0 <= sqrt N2 * eps) by nra.
          assert ((sqrt N2 * eps) * (sqrt N2 * eps) < yz * yz) by nra.
          assert (E1 : sqrt N2 * eps * (sqrt N2 * eps) = N2 * (eps * eps)).
          { transitivity ((sqrt N2 * sqrt N2) * (eps * eps)); [ring | rewrite Hss; reflexivity]. }
          assert (N2 * zz <= N2 * (eps * eps)) by (apply Rmult_le_compat_l; lra). lra. }
        assert (E : N2 - c * N2 - (yz - c * yz - (c * N2 - c * (c * N2))) = -(1 - c) * (yz - c * N2) -> True) by auto. clear E.
        match goal with |- ?L <= 0 => assert (E : L = (1 - c) * (yz - c * N2)) by ring; rewrite E; clear E end.
        assert (c * N2 = eps * sqrt N2).
        { transitivity ((c * sqrt N2) * sqrt N2); [rewrite Rmult_assoc, Hss; reflexivity | rewrite Hc; reflexivity]. }
        assert (yz - c * N2 <= 0) by lra. nra.
  Qed.
End Thresh.

(* ---------------------------------------------------------------- clip (real arrays) *)
Lemma clip1_vi (x lo hi z : R) : lo <= hi -> lo <= z <= hi ->
  lo <= eclip (e:=RRe) x lo hi <= hi /\ (x - eclip (e:=RRe) x lo hi) * (z - eclip (e:=RRe) x lo hi) <= 0.
Proof.
  intros Hlh Hz. simpl. unfold rminf, rmaxf. simpl. unfold Rltb.
  destruct (Rlt_dec x lo); destruct (Rlt_dec hi lo); try lra.
  - destruct (Rlt_dec hi lo); try lra. nra.
  - destruct (Rlt_dec hi x); nra.
Qed.

Theorem clip_is_proj (lo hi : sv R) (y : list R) :
  (forall i, sv_get 0 lo i <= sv_get 0 hi i) ->
  let p := imap (fun i x => eclip (e:=RRe) x (sv_get 0 lo i) (sv_get 0 hi i)) y in
  length p = length y /\
  proj_at RealLaws (length y) (fun z => forall i, (i < length y)%nat -> sv_get 0 lo i <= z i <= sv_get 0 hi i)
          (fn (El:=RRe) y) (fn (El:=RRe) p).
Proof.
  intros Hlh p. split; [apply imap_length|]. split.
  - intros i Hi. unfold p, fn. rewrite (nth_imap _ y i _ (e0 (e:=RRe))) by auto.
    apply (clip1_vi _ _ _ (sv_get 0 lo i)); auto. split; [lra|apply Hlh].
  - intros z Hz. unfold dotn, fsub. rewrite <- (sumn_zero (length y)). apply sumn_le. intros i Hi.
    unfold p, fn. rewrite (nth_imap _ y i _ (e0 (e:=RRe))) by auto. simpl ein.
    apply clip1_vi; auto.
Qed.
