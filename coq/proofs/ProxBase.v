(* proofs/ProxBase.v — the exact (Coq R) instance of the scalar record of model/Prox.v, the
   specification vocabulary of C11 (finite sums, inner products of vectors given as functions
   nat -> element, the variational-inequality characterisation of a proximal point), and the
   generic facts every prox theorem uses.

   Vectors: a model output is a list; [fn l] views it as a function nat -> El (entry i, e0 outside);
   competitors are arbitrary functions nat -> El of which only the first n entries matter.
   Elements: R (real arrays) or R*R (complex arrays) through one record of laws [ElemLaws]
   (a real inner-product space structure on the element type; <a,b> = a*b, resp. Re(conj a * b)). *)
From Coq Require Import Reals Lra Lia List Bool Psatz.
From SV Require Import model.Prox.
Import ListNotations.
Local Open Scope R_scope.

(* ---------------------------------------------------------------- R as an [ROps] *)
Definition Rltb (x y : R) : bool := if Rlt_dec x y then true else false.
Definition Reqb (x y : R) : bool := if Req_EM_T x y then true else false.
Definition RR : ROps := mkROps R 0 1 2 Rplus Rminus Rmult Rdiv Ropp Rabs sqrt Rltb Reqb.
Definition RRe : Elem RR := RealElem RR.
Definition RCx : Elem RR := CplxElem RR.

Lemma Rltb_true x y : Rltb x y = true <-> x < y.
Proof. unfold Rltb. destruct (Rlt_dec x y); split; intros; try discriminate; auto; lra. Qed.
Lemma Rltb_false x y : Rltb x y = false <-> y <= x.
Proof. unfold Rltb. destruct (Rlt_dec x y); split; intros; try discriminate; auto; lra. Qed.
Lemma Reqb_true x y : Reqb x y = true <-> x = y.
Proof. unfold Reqb. destruct (Req_EM_T x y); split; intros; try discriminate; auto; lra. Qed.
Lemma Reqb_false x y : Reqb x y = false <-> x <> y.
Proof. unfold Reqb. destruct (Req_EM_T x y); split; intros; try discriminate; auto; contradiction. Qed.

(* ---------------------------------------------------------------- finite sums *)
Fixpoint sumn (n : nat) (f : nat -> R) : R :=
  match n with O => 0 | S k => sumn k f + f k end.

Lemma sumn_ext n f g : (forall i, (i < n)%nat -> f i = g i) -> sumn n f = sumn n g.
Proof. induction n; intros H; simpl; [reflexivity|]. rewrite IHn, H; auto. Qed.
Lemma sumn_plus n f g : sumn n (fun i => f i + g i) = sumn n f + sumn n g.
Proof. induction n; simpl; [lra|]. rewrite IHn. lra. Qed.
Lemma sumn_minus n f g : sumn n (fun i => f i - g i) = sumn n f - sumn n g.
Proof. induction n; simpl; [lra|]. rewrite IHn. lra. Qed.
Lemma sumn_scal n c f : sumn n (fun i => c * f i) = c * sumn n f.
Proof. induction n; simpl; [lra|]. rewrite IHn. lra. Qed.
Lemma sumn_zero n : sumn n (fun _ => 0) = 0.
Proof. induction n; simpl; lra. Qed.
Lemma sumn_le n f g : (forall i, (i < n)%nat -> f i <= g i) -> sumn n f <= sumn n g.
Proof. induction n; intros H; simpl; [lra|]. assert (f n <= g n) by auto. assert (sumn n f <= sumn n g) by auto. lra. Qed.
Lemma sumn_nonneg n f : (forall i, (i < n)%nat -> 0 <= f i) -> 0 <= sumn n f.
Proof. intros H. rewrite <- (sumn_zero n). apply sumn_le. auto. Qed.
Lemma sumn_zero_inv n f : (forall i, (i < n)%nat -> 0 <= f i) -> sumn n f = 0 -> forall i, (i < n)%nat -> f i = 0.
Proof.
  induction n; intros Hp Hs i Hi; [lia|]. simpl in Hs.
  assert (0 <= sumn n f) by (apply sumn_nonneg; auto).
  assert (0 <= f n) by auto.
  destruct (Nat.eq_dec i n) as [->|]; [lra|]. apply IHn; auto; try lia. lra.
Qed.
Lemma sumn_app n m f : sumn (n + m) f = sumn n f + sumn m (fun i => f (n + i)%nat).
Proof. induction m; simpl; [rewrite Nat.add_0_r; lra|]. rewrite Nat.add_succ_r. simpl. rewrite IHm. lra. Qed.

(* ---------------------------------------------------------------- lists as functions *)
Section Lists.
  Context {A B C : Type}.
  Lemma imap_from_length (f : nat -> A -> B) l k : length (imap_from k f l) = length l.
  Proof. revert k; induction l; intros; simpl; auto. Qed.
  Lemma imap_length (f : nat -> A -> B) l : length (imap f l) = length l.
  Proof. apply imap_from_length. Qed.
  Lemma nth_imap_from (f : nat -> A -> B) l k i d d' :
    (i < length l)%nat -> nth i (imap_from k f l) d = f (k + i)%nat (nth i l d').
  Proof.
    revert k i; induction l; intros k i Hi; simpl in *; [lia|].
    destruct i; [rewrite Nat.add_0_r; reflexivity|]. rewrite (IHl (S k) i) by lia. f_equal; lia.
  Qed.
  Lemma nth_imap (f : nat -> A -> B) l i d d' : (i < length l)%nat -> nth i (imap f l) d = f i (nth i l d').
  Proof. intros. unfold imap. rewrite (nth_imap_from f l 0 i d d') by auto. reflexivity. Qed.
  Lemma map2_length (f : A -> B -> C) x y : length x = length y -> length (map2 f x y) = length x.
  Proof. revert y; induction x; destruct y; simpl; intros; auto; try discriminate. Qed.
  Lemma nth_map2 (f : A -> B -> C) x y i d dx dy :
    length x = length y -> (i < length x)%nat -> nth i (map2 f x y) d = f (nth i x dx) (nth i y dy).
  Proof.
    revert y i; induction x; destruct y; simpl; intros i Hl Hi; try discriminate; try lia.
    destruct i; auto. apply IHx; auto; lia.
  Qed.
End Lists.

(* ---------------------------------------------------------------- elements: laws *)
Record ElemLaws (El : Elem RR) := mkLaws {
  ein : El -> El -> R;                                                 (* real inner product of two elements *)
  ein_sym : forall a b, ein a b = ein b a;
  ein_add_l : forall a b c, ein (eadd a b) c = ein a c + ein b c;
  ein_sub_l : forall a b c, ein (esub a b) c = ein a c - ein b c;
  ein_scale_l : forall t a c, ein (escale t a) c = t * ein a c;
  ein_e0_l : forall a, ein e0 a = 0;
  ein_pos : forall a, 0 <= ein a a;
  ein_def : forall a, ein a a = 0 -> a = e0;
  ein_ext : forall a b, (forall c, ein a c = ein b c) -> a = b;
  eabs_spec : forall a : El, eabs a = sqrt (ein a a);
  edivr_spec : forall (a : El) (t : R), @edivr RR El a t = @escale RR El (/ t) a }.

Arguments ein {_} _. Arguments ein_sym {_} _. Arguments ein_add_l {_} _. Arguments ein_sub_l {_} _.
Arguments ein_scale_l {_} _. Arguments ein_e0_l {_} _. Arguments ein_pos {_} _. Arguments ein_def {_} _. Arguments ein_ext {_} _.
Arguments eabs_spec {_} _. Arguments edivr_spec {_} _.

Lemma sqrt_square_abs' : forall x, sqrt (x * x) = Rabs x.
Proof. intro x. rewrite <- (sqrt_Rsqr_abs x). reflexivity. Qed.

Definition RealLaws : ElemLaws RRe.
Proof.
  refine (mkLaws RRe (fun a b : R => a * b) _ _ _ _ _ _ _ _ _ _); simpl; intros; try (unfold Rdiv; ring).
  - nra.
  - nra.
  - specialize (H 1). lra.
  - symmetry. apply sqrt_square_abs'.
Defined.

Definition CplxLaws : ElemLaws RCx.
Proof.
  refine (mkLaws RCx (fun a b : R * R => fst a * fst b + snd a * snd b) _ _ _ _ _ _ _ _ _ _);
    simpl; intros; try (unfold Rdiv; ring).
  - nra.
  - destruct a as [a1 a2]; simpl in *. f_equal; nra.
  - destruct a as [a1 a2], b as [b1 b2]. pose proof (H (1, 0)) as H1. pose proof (H (0, 1)) as H2.
    simpl in *. f_equal; lra.
  - destruct a; simpl. unfold Rdiv. f_equal; ring.
Defined.

(* ---------------------------------------------------------------- generic facts *)
Section Generic.
  Context {El : Elem RR} (LW : ElemLaws El).
  Notation ei := (ein LW).
  Notation esc := (@escale RR El).

  Lemma ein_add_r a b c : ei c (eadd a b) = ei c a + ei c b.
  Proof. rewrite ein_sym, ein_add_l, (ein_sym LW a), (ein_sym LW b). reflexivity. Qed.
  Lemma ein_sub_r a b c : ei c (esub a b) = ei c a - ei c b.
  Proof. rewrite ein_sym, ein_sub_l, (ein_sym LW a), (ein_sym LW b). reflexivity. Qed.
  Lemma ein_scale_r t a c : ei c (esc t a) = t * ei c a.
  Proof. rewrite ein_sym, ein_scale_l, (ein_sym LW a). reflexivity. Qed.
  Lemma ein_e0_r a : ei a e0 = 0.
  Proof. rewrite ein_sym. apply ein_e0_l. Qed.

  Ltac einx := repeat (rewrite ?(ein_add_l LW), ?ein_add_r, ?(ein_sub_l LW), ?ein_sub_r,
                       ?(ein_scale_l LW), ?ein_scale_r, ?(ein_e0_l LW), ?ein_e0_r).

  Lemma ein_cs a b : ei a b * ei a b <= ei a a * ei b b.
  Proof.
    pose proof (ein_pos LW (esub (esc (ei b b) a) (esc (ei a b) b))) as H.
    einx. revert H. einx. rewrite (ein_sym LW b a).
    pose proof (ein_pos LW a). pose proof (ein_pos LW b).
    destruct (Req_dec (ei b b) 0) as [Hb|Hb].
    - apply (ein_def LW) in Hb. subst b. einx. intros _. lra.
    - intros H2. nra.
  Qed.

  Lemma eabs_nonneg (a : El) : 0 <= eabs a.
  Proof. rewrite (eabs_spec LW). apply sqrt_pos. Qed.
  Lemma eabs_sq (a : El) : eabs a * eabs a = ei a a.
  Proof. rewrite (eabs_spec LW). apply sqrt_sqrt. apply ein_pos. Qed.
  Lemma eabs_zero (a : El) : eabs a = 0 -> a = e0.
  Proof. intros H. apply (ein_def LW). rewrite <- eabs_sq, H. lra. Qed.
  Lemma eabs_e0 : eabs (e0 : El) = 0.
  Proof. rewrite (eabs_spec LW), (ein_e0_l LW). apply sqrt_0. Qed.
  Lemma ein_le_abs a b : ei a b <= eabs a * eabs b.
  Proof.
    pose proof (ein_cs a b). pose proof (eabs_sq a). pose proof (eabs_sq b).
    pose proof (eabs_nonneg a). pose proof (eabs_nonneg b).
    destruct (Rle_dec (ei a b) (eabs a * eabs b)) as [|Hn]; auto. exfalso.
    assert (H4 : 0 <= eabs a * eabs b) by nra.
    assert (H5 : (eabs a * eabs b) * (eabs a * eabs b) < ei a b * ei a b) by nra.
    replace ((eabs a * eabs b) * (eabs a * eabs b)) with ((eabs a * eabs a) * (eabs b * eabs b)) in H5 by ring.
    rewrite H0, H1 in H5. lra.
  Qed.
  (* an element known only through its inner products *)
  Lemma eabs_of_scaled (p y : El) c : 0 <= c -> (forall w, ei p w = c * ei y w) -> eabs p = c * eabs y.
  Proof.
    intros Hc H. rewrite (eabs_spec LW p), H, (ein_sym LW y p), H, <- eabs_sq.
    replace (c * (c * (eabs y * eabs y))) with ((c * eabs y) * (c * eabs y)) by ring.
    rewrite sqrt_square; auto. pose proof (eabs_nonneg y). nra.
  Qed.

  (* vectors as functions *)
  Definition fn (l : list El) : nat -> El := fun i => nth i l e0.
  Definition fadd (x y : nat -> El) : nat -> El := fun i => eadd (x i) (y i).
  Definition fsub (x y : nat -> El) : nat -> El := fun i => esub (x i) (y i).
  Definition fscale (t : R) (x : nat -> El) : nat -> El := fun i => esc t (x i).
  Definition dotn (n : nat) (x y : nat -> El) : R := sumn n (fun i => ei (x i) (y i)).
  Definition norm1 (n : nat) (x : nat -> El) : R := sumn n (fun i => eabs (x i)).

  Lemma dotn_sym n x y : dotn n x y = dotn n y x.
  Proof. apply sumn_ext; intros; apply ein_sym. Qed.
  Lemma dotn_add_l n x y z : dotn n (fadd x y) z = dotn n x z + dotn n y z.
  Proof. unfold dotn, fadd. rewrite <- sumn_plus. apply sumn_ext; intros; apply ein_add_l. Qed.
  Lemma dotn_sub_l n x y z : dotn n (fsub x y) z = dotn n x z - dotn n y z.
  Proof. unfold dotn, fsub. rewrite <- sumn_minus. apply sumn_ext; intros; apply ein_sub_l. Qed.
  Lemma dotn_scale_l n t x z : dotn n (fscale t x) z = t * dotn n x z.
  Proof. unfold dotn, fscale. rewrite <- sumn_scal. apply sumn_ext; intros; apply ein_scale_l. Qed.
  Lemma dotn_add_r n x y z : dotn n z (fadd x y) = dotn n z x + dotn n z y.
  Proof. rewrite dotn_sym, dotn_add_l, (dotn_sym n x), (dotn_sym n y). reflexivity. Qed.
  Lemma dotn_sub_r n x y z : dotn n z (fsub x y) = dotn n z x - dotn n z y.
  Proof. rewrite dotn_sym, dotn_sub_l, (dotn_sym n x), (dotn_sym n y). reflexivity. Qed.
  Lemma dotn_scale_r n t x z : dotn n z (fscale t x) = t * dotn n z x.
  Proof. rewrite dotn_sym, dotn_scale_l, (dotn_sym n x). reflexivity. Qed.
  Lemma dotn_pos n x : 0 <= dotn n x x.
  Proof. apply sumn_nonneg; intros; apply ein_pos. Qed.
  Lemma dotn_ext n x x' y y' : (forall i, (i < n)%nat -> x i = x' i) -> (forall i, (i < n)%nat -> y i = y' i) ->
    dotn n x y = dotn n x' y'.
  Proof. intros H1 H2. apply sumn_ext; intros. rewrite H1, H2; auto. Qed.
  Lemma dotn_zero_inv n x : dotn n x x = 0 -> forall i, (i < n)%nat -> x i = e0.
  Proof.
    intros H i Hi. apply (ein_def LW).
    apply (sumn_zero_inv n (fun i => ei (x i) (x i))); auto. intros; apply ein_pos.
  Qed.

  Ltac dotx := repeat (rewrite ?dotn_add_l, ?dotn_add_r, ?dotn_sub_l, ?dotn_sub_r, ?dotn_scale_l, ?dotn_scale_r).

  Lemma dotn_cs n x y : dotn n x y * dotn n x y <= dotn n x x * dotn n y y.
  Proof.
    pose proof (dotn_pos n (fsub (fscale (dotn n y y) x) (fscale (dotn n x y) y))) as H.
    revert H. dotx. rewrite (dotn_sym n y x).
    pose proof (dotn_pos n x). pose proof (dotn_pos n y).
    destruct (Req_dec (dotn n y y) 0) as [Hb|Hb].
    - intros _. assert (dotn n x y = 0) as ->.
      { unfold dotn. rewrite <- (sumn_zero n). apply sumn_ext. intros i Hi.
        rewrite (dotn_zero_inv n y Hb i Hi). apply ein_e0_r. }
      nra.
    - intros H2. nra.
  Qed.

  (* ||z-y||^2 = ||p-y||^2 + ||z-p||^2 - 2 <y-p, z-p> *)
  Lemma polar n y p z :
    dotn n (fsub z y) (fsub z y) =
    dotn n (fsub p y) (fsub p y) + dotn n (fsub z p) (fsub z p) - 2 * dotn n (fsub y p) (fsub z p).
  Proof.
    dotx. rewrite (dotn_sym n y z), (dotn_sym n y p), (dotn_sym n p z). ring.
  Qed.

  (* THE specification: p is the proximal point of the (extended-valued) function with domain
     [dom] and finite part [ag] (= alpha*g) at y, in variational-inequality form (DESIGN 2.6). *)
  Definition prox_at (n : nat) (dom : (nat -> El) -> Prop) (ag : (nat -> El) -> R) (y p : nat -> El) : Prop :=
    dom p /\ forall z, dom z -> ag p + dotn n (fsub y p) (fsub z p) <= ag z.

  (* projection onto a set S: p in S and <y-p, z-p> <= 0 for all z in S *)
  Definition proj_at (n : nat) (S : (nat -> El) -> Prop) (y p : nat -> El) : Prop :=
    S p /\ forall z, S z -> dotn n (fsub y p) (fsub z p) <= 0.

  Lemma proj_is_prox n S y p : proj_at n S y p <-> prox_at n S (fun _ => 0) y p.
  Proof. unfold proj_at, prox_at. split; intros [H1 H2]; split; auto; intros z Hz; specialize (H2 z Hz); lra. Qed.

  (* the variational inequality makes p THE minimiser, with quadratic growth *)
  Theorem prox_minimiser n dom ag y p :
    prox_at n dom ag y p ->
    forall z, dom z ->
      1/2 * dotn n (fsub p y) (fsub p y) + ag p + 1/2 * dotn n (fsub z p) (fsub z p)
      <= 1/2 * dotn n (fsub z y) (fsub z y) + ag z.
  Proof. intros [Hd H] z Hz. specialize (H z Hz). rewrite (polar n y p z). lra. Qed.

  Theorem prox_unique n dom ag y p :
    prox_at n dom ag y p ->
    forall z, dom z ->
      1/2 * dotn n (fsub z y) (fsub z y) + ag z <= 1/2 * dotn n (fsub p y) (fsub p y) + ag p ->
      forall i, (i < n)%nat -> z i = p i.
  Proof.
    intros HP z Hz Hle i Hi. pose proof (prox_minimiser n dom ag y p HP z Hz) as H.
    pose proof (dotn_pos n (fsub z p)).
    assert (Hz0 : dotn n (fsub z p) (fsub z p) = 0) by lra.
    pose proof (dotn_zero_inv n _ Hz0 i Hi) as He. unfold fsub in He.
    apply (ein_ext LW). intros c.
    assert (ei (esub (z i) (p i)) c = 0) as Hc by (rewrite He; apply ein_e0_l).
    rewrite ein_sub_l in Hc. lra.
  Qed.

  (* separable lifting: elementwise inequalities add up *)
  Lemma separable_vi n (g : nat -> El -> R) (y p z : nat -> El) :
    (forall i, (i < n)%nat -> g i (p i) + ei (esub (y i) (p i)) (esub (z i) (p i)) <= g i (z i)) ->
    sumn n (fun i => g i (p i)) + dotn n (fsub y p) (fsub z p) <= sumn n (fun i => g i (z i)).
  Proof.
    intros H. unfold dotn, fsub. rewrite <- sumn_plus. apply sumn_le. auto.
  Qed.
End Generic.

Ltac einx LW := repeat (rewrite ?(ein_add_l LW), ?(ein_add_r LW), ?(ein_sub_l LW), ?(ein_sub_r LW),
                        ?(ein_scale_l LW), ?(ein_scale_r LW), ?(ein_e0_l LW), ?(ein_e0_r LW)).
Ltac dotx LW := repeat (rewrite ?(dotn_add_l LW), ?(dotn_add_r LW), ?(dotn_sub_l LW), ?(dotn_sub_r LW),
                        ?(dotn_scale_l LW), ?(dotn_scale_r LW)).
