(* proofs/NufftPeriodic.v — periodicity of nufft in the coordinates (exact arithmetic):
   (1) adding the grid length n to a coordinate adds exactly ceil(oversamp n) to the scaled coordinate;
   (2) shifting a scaled coordinate by a multiple of the oversampled grid length shifts the interpolation
       window by the same integer, leaves the kernel arguments unchanged, and the grid index wraps mod the
       oversampled length: the GENERATED interpolation kernel returns the same value.
   The laws of exact (real) arithmetic that are used are explicit hypotheses on the coordinate scalars
   (they fail for floats in the last bit, which is why the numeric check treats window-edge ties separately). *)
From Coq Require Import ZArith List Lia Bool Ring.
From SV Require Import lib.Scalar lib.BigSum lib.LoopIR lib.NdArray lib.Coord gen.Gen_interp
  model.Nufft proofs.SumTools proofs.Block proofs.Interp.
Import ListNotations.
Local Open Scope Z_scope.

Section Scale.
  Variable C : COps.
  Variables (oversamp : C) (n : Z).
  Hypothesis Hdist : forall a b s : C, cmul (cadd a b) s = cadd (cmul a s) (cmul b s).
  Hypothesis Hcancel : @cmul C (cofZ n) (cdiv (cofZ (os_len C oversamp n)) (cofZ n)) = cofZ (os_len C oversamp n).
  Hypothesis Hswap : forall a b c : C, cadd (cadd a b) c = cadd (cadd a c) b.

  Theorem scale_coord_shift (c : C) :
    scale1 C oversamp n (cadd c (cofZ n)) = cadd (scale1 C oversamp n c) (cofZ (os_len C oversamp n)).
  Proof. unfold scale1, coord_scale. rewrite Hdist, Hcancel. apply Hswap. Qed.
End Scale.

Section Window.
  Variable R : StarRing.
  Add Ring RringNP : (SRth R).
  Variable C : COps.
  Variable kern : C -> C -> C.
  Variable wt : C -> R.
  Local Open Scope sr_scope.
  Variables (input : list Z -> R) (coord coord' width param : list Z -> C).
  Variables (cs ish osh ps ws : list Z).
  Variable D : Z.
  Hypothesis Hnx : (0 < shape_at ish 1)%Z.
  Hypothesis HD : (D mod shape_at ish 1 = 0)%Z.
  Hypothesis Hk : forall i, kx C coord' cs i = cadd (kx C coord cs i) (cofZ D).
  Hypothesis Hceil : forall t h : C, cceil (csub (cadd t (cofZ D)) h) = (cceil (csub t h) + D)%Z.
  Hypothesis Hfloor : forall t h : C, cfloor (cadd (cadd t (cofZ D)) h) = (cfloor (cadd t h) + D)%Z.
  Hypothesis Hsub : forall (x : Z) (t : C), csub (cofZ (x + D)) (cadd t (cofZ D)) = csub (cofZ x) t.

  Lemma sumL_aux_shift k lo z (f : Z -> R) :
    sumL (zrange_aux k (lo + z) 1) f = sumL (zrange_aux k lo 1) (fun t => f (t + z)%Z).
  Proof.
    revert lo; induction k as [|k IH]; intros lo; simpl; [reflexivity|].
    replace (lo + z + 1)%Z with ((lo + 1) + z)%Z by ring. rewrite IH. reflexivity.
  Qed.

  Lemma sumL_zrange_shift a b z (f : Z -> R) :
    sumL (zrange (a + z) (b + z) 1) f = sumL (zrange a b 1) (fun t => f (t + z)%Z).
  Proof.
    unfold zrange. change (1 <=? 0)%Z with false. cbv iota.
    replace (b + z - (a + z) + 1 - 1)%Z with (b - a + 1 - 1)%Z by ring. apply sumL_aux_shift.
  Qed.

  Lemma x0_shift i : x0 C coord' width cs ws i = (x0 C coord width cs ws i + D)%Z.
  Proof. unfold x0. rewrite Hk. apply Hceil. Qed.
  Lemma x1_shift i : x1 C coord' width cs ws i = (x1 C coord width cs ws i + D)%Z.
  Proof. unfold x1. rewrite Hk. apply Hfloor. Qed.
  Lemma wgt_shift i x : wgt R C kern wt coord' width param cs ps ws i (x + D) = wgt R C kern wt coord width param cs ps ws i x.
  Proof. unfold wgt. rewrite Hk, Hsub. reflexivity. Qed.

  Theorem window_periodic b i :
    sumL (zrange (x0 C coord' width cs ws i) (x1 C coord' width cs ws i + 1) 1)
         (fun x => wgt R C kern wt coord' width param cs ps ws i x * input [b; (x mod shape_at ish 1)%Z]) =
    sumL (zrange (x0 C coord width cs ws i) (x1 C coord width cs ws i + 1) 1)
         (fun x => wgt R C kern wt coord width param cs ps ws i x * input [b; (x mod shape_at ish 1)%Z]).
  Proof.
    rewrite x0_shift, x1_shift.
    replace (x1 C coord width cs ws i + D + 1)%Z with ((x1 C coord width cs ws i + 1) + D)%Z by ring.
    rewrite sumL_zrange_shift. apply sumL_ext. intros x _. rewrite wgt_shift. f_equal. f_equal. f_equal.
    rewrite Z.add_mod, HD, Z.add_0_r, Z.mod_mod by lia. reflexivity.
  Qed.

  (* the generated 1-D interpolation kernel returns the same value for coord and coord' *)
  Theorem interp_kernel_periodic out b i :
    (0 <= b < shape_at ish 0)%Z -> (0 <= i < shape_at cs 0)%Z ->
    exec (k_interpolate1 R C kern wt input coord' width param cs ish osh ps ws) [] out [b; i] =
    exec (k_interpolate1 R C kern wt input coord width param cs ish osh ps ws) [] out [b; i].
  Proof.
    intros Hb Hi. rewrite !interp1_exec by assumption. f_equal. apply window_periodic.
  Qed.
End Window.
