(* proofs/Trap.v — the trapezoid designers of model/Trap.v over the real numbers.

   The model is instantiated on R with an ABSTRACT ceil / floor (section variables characterised by
   t <= ceil t < t+1 and floor t <= t < floor t + 1); the closing section instantiates them with
   Coq's [up] so the final theorems have no hypotheses besides positivity of the four parameters. *)
From Coq Require Import Reals ZArith List Bool Lra Lia Psatz.
From SV Require Import model.Trap.
Import ListNotations.
Local Open Scope R_scope.

(* ------------------------------------------------------------------ the specification *)
Definition Rsum (l : list R) : R := fold_right Rplus 0 l.

Fixpoint steps_ok (d : R) (l : list R) : Prop :=
  match l with
  | a :: ((b :: _) as t) => Rabs (b - a) <= d /\ steps_ok d t
  | _ => True
  end.

(* what the property asks of a waveform w designed for total area [area] *)
Definition trap_spec (area gmax dgdt dt : R) (w : list R) : Prop :=
  hd 0 w = 0 /\ last w 0 = 0 /\
  Rsum w * dt = area /\
  (forall x, In x w -> 0 <= x <= gmax) /\
  (forall i, (S i < length w)%nat -> Rabs (nth (S i) w 0 - nth i w 0) <= dgdt * dt).

(* ... and of min_trap_grad's waveform w whose flat part is fl *)
Definition mintrap_spec (area gmax dgdt dt : R) (w fl : list R) : Prop :=
  hd 0 w = 0 /\ last w 0 = 0 /\
  (exists up dn, w = up ++ fl ++ dn /\ length up = length dn) /\
  (1 <= length fl)%nat /\
  Rsum fl * dt = area /\
  (forall x y, In x fl -> In y fl -> x = y) /\
  (forall x, In x w -> 0 <= x <= gmax) /\
  (forall i, (S i < length w)%nat -> Rabs (nth (S i) w 0 - nth i w 0) <= dgdt * dt).

(* ------------------------------------------------------------------ the instance on R *)
Definition Rltb (x y : R) : bool := if Rlt_dec x y then true else false.
Definition RReal (ceil floor : R -> Z) : RealOps :=
  mkRealOps R 0 1 Rplus Rminus Rmult Rdiv sqrt Rabs ceil floor IZR Rltb.

Lemma Rltb_true x y : x < y -> Rltb x y = true.
Proof. intros H. unfold Rltb. destruct (Rlt_dec x y); [reflexivity | contradiction]. Qed.
Lemma Rltb_false x y : ~ x < y -> Rltb x y = false.
Proof. intros H. unfold Rltb. destruct (Rlt_dec x y); [contradiction | reflexivity]. Qed.

(* ------------------------------------------------------------------ list facts *)
Lemma ziota_seq a n : ziota a n = map (fun k => (a + Z.of_nat k)%Z) (seq 0 n).
Proof.
  revert a. induction n as [|n IH]; intros a; [reflexivity|].
  simpl ziota. rewrite IH. cbn [seq map]. f_equal; [lia|].
  rewrite <- seq_shift, map_map. apply map_ext. intros k. lia.
Qed.

Lemma Rsum_app l1 l2 : Rsum (l1 ++ l2) = Rsum l1 + Rsum l2.
Proof. induction l1 as [|a l IH]; simpl; [ring | rewrite IH; ring]. Qed.
Lemma Rsum_scale p l : Rsum (map (fun x => x * p) l) = Rsum l * p.
Proof. induction l as [|a l IH]; simpl; [ring | rewrite IH; ring]. Qed.
Lemma Rsum_repeat x m : Rsum (repeat x m) = INR m * x.
Proof. induction m as [|m IH]; [simpl; ring|]. rewrite S_INR. simpl. rewrite IH. ring. Qed.
Lemma fold_left_Rplus l a : fold_left Rplus l a = a + Rsum l.
Proof. revert a. induction l as [|x l IH]; intros a; simpl; [ring | rewrite IH; ring]. Qed.

Lemma Rsum_up q n : Rsum (map (fun k => INR k / q) (seq 0 (S n))) = INR n * (INR n + 1) / 2 / q.
Proof.
  induction n as [|n IH].
  - cbn [seq map Rsum fold_right INR]. unfold Rdiv. ring.
  - rewrite seq_S, map_app, Rsum_app, IH. simpl plus. cbn [map Rsum fold_right].
    rewrite !S_INR. unfold Rdiv. generalize (/ q). intros iq. field.
Qed.
Lemma Rsum_dn c q n :
  Rsum (map (fun k => (c - INR k) / q) (seq 0 (S n))) = ((INR n + 1) * c - INR n * (INR n + 1) / 2) / q.
Proof.
  induction n as [|n IH].
  - cbn [seq map Rsum fold_right INR]. unfold Rdiv. ring.
  - rewrite seq_S, map_app, Rsum_app, IH. simpl plus. cbn [map Rsum fold_right].
    rewrite !S_INR. unfold Rdiv. generalize (/ q). intros iq. field.
Qed.

Lemma steps_app d l1 l2 :
  steps_ok d l1 -> steps_ok d l2 -> Rabs (hd 0 l2 - last l1 0) <= d -> steps_ok d (l1 ++ l2).
Proof.
  induction l1 as [|a l1 IH]; intros H1 H2 HJ; [exact H2|].
  destruct l1 as [|b l1].
  - simpl. destruct l2 as [|c l2]; [exact I|]. split; [exact HJ | exact H2].
  - destruct H1 as [Hab H1]. change ((a :: b :: l1) ++ l2) with (a :: (b :: l1) ++ l2).
    change ((b :: l1) ++ l2) with (b :: (l1 ++ l2)) at 1.
    split; [exact Hab|]. change (b :: l1 ++ l2) with ((b :: l1) ++ l2). apply IH; assumption.
Qed.

Lemma steps_map_seq d (f : nat -> R) a len :
  (forall k, (a <= k)%nat -> (S k < a + len)%nat -> Rabs (f (S k) - f k) <= d) ->
  steps_ok d (map f (seq a len)).
Proof.
  revert a. induction len as [|len IH]; intros a H; [exact I|].
  destruct len as [|len]; [exact I|].
  change (map f (seq a (S (S len)))) with (f a :: f (S a) :: map f (seq (S (S a)) len)).
  split; [apply H; lia|].
  change (f (S a) :: map f (seq (S (S a)) len)) with (map f (seq (S a) (S len))).
  apply IH. intros k Hk1 Hk2. apply H; lia.
Qed.

Lemma steps_repeat d x m : 0 <= d -> steps_ok d (repeat x m).
Proof.
  intros Hd. induction m as [|m IH]; [exact I|]. destruct m as [|m]; [exact I|].
  change (repeat x (S (S m))) with (x :: x :: repeat x m). split.
  - replace (x - x) with 0 by ring. rewrite Rabs_R0. exact Hd.
  - exact IH.
Qed.

Lemma steps_scale d p l : 0 <= p -> steps_ok d l -> steps_ok (d * p) (map (fun x => x * p) l).
Proof.
  intros Hp. induction l as [|a l IH]; intros H; [exact I|].
  destruct l as [|b l]; [exact I|]. destruct H as [Hab H].
  change (map (fun x => x * p) (a :: b :: l)) with (a * p :: map (fun x => x * p) (b :: l)).
  change (map (fun x => x * p) (b :: l)) with (b * p :: map (fun x => x * p) l) at 1.
  split.
  - replace (b * p - a * p) with ((b - a) * p) by ring. rewrite Rabs_mult, (Rabs_right p) by lra.
    apply Rmult_le_compat_r; assumption.
  - change (b * p :: map (fun x => x * p) l) with (map (fun x => x * p) (b :: l)). apply IH. exact H.
Qed.

Lemma steps_weaken d d' l : d <= d' -> steps_ok d l -> steps_ok d' l.
Proof.
  intros Hd. induction l as [|a l IH]; intros H; [exact I|].
  destruct l as [|b l]; [exact I|]. destruct H as [Hab H]. split; [lra | apply IH; exact H].
Qed.

Lemma steps_nth d l : steps_ok d l ->
  forall i, (S i < length l)%nat -> Rabs (nth (S i) l 0 - nth i l 0) <= d.
Proof.
  induction l as [|a l IH]; intros H i Hi; [simpl in Hi; lia|].
  destruct l as [|b l]; [simpl in Hi; lia|]. destruct H as [Hab H].
  destruct i as [|i]; [exact Hab|].
  change (nth (S (S i)) (a :: b :: l) 0) with (nth (S i) (b :: l) 0).
  change (nth (S i) (a :: b :: l) 0) with (nth i (b :: l) 0).
  apply IH; [exact H | simpl in Hi |- *; lia].
Qed.

Lemma last_snoc (l : list R) a d : last (l ++ [a]) d = a.
Proof. apply last_last. Qed.

(* ------------------------------------------------------------------ the ramps over R *)
Section Shape.
  Variables ceil floor : R -> Z.
  Notation RR := (RReal ceil floor).

  Definition upf (n : nat) (k : nat) : R := INR k / INR n.
  Definition dnf (n : nat) (k : nat) : R := (INR n - INR k) / INR n.

  Lemma ramp_up_R n : ramp_up (T:=RR) (Z.of_nat n) = map (upf n) (seq 0 (S n)).
  Proof.
    unfold ramp_up. replace (Z.to_nat (Z.of_nat n + 1)) with (S n) by lia.
    rewrite ziota_seq, map_map. apply map_ext. intros k. unfold upf. cbn [rdiv rofZ RR RReal].
    rewrite Z.add_0_l, <- !INR_IZR_INZ. reflexivity.
  Qed.
  Lemma ramp_dn_R n : ramp_dn (T:=RR) (Z.of_nat n) = map (dnf n) (seq 0 (S n)).
  Proof.
    unfold ramp_dn. replace (Z.to_nat (Z.of_nat n + 1)) with (S n) by lia.
    rewrite ziota_seq, map_map. apply map_ext. intros k. unfold dnf. cbn [rdiv rofZ RR RReal].
    rewrite Z.add_0_l, minus_IZR, <- !INR_IZR_INZ. reflexivity.
  Qed.

  Definition shape (n m : nat) : list R :=
    map (upf n) (seq 0 (S n)) ++ repeat 1 m ++ map (dnf n) (seq 0 (S n)).

  Section WithN.
    Variables (n m : nat).
    Hypothesis Hn : (1 <= n)%nat.
    Lemma Npos : 0 < INR n.
    Proof. apply lt_0_INR. lia. Qed.

    Lemma shape_hd : hd 0 (shape n m) = 0.
    Proof. unfold shape. cbn [seq map app hd]. unfold upf. cbn [INR]. unfold Rdiv. ring. Qed.

    Lemma shape_last : last (shape n m) 0 = 0.
    Proof.
      unfold shape. rewrite (seq_S n 0) at 2. rewrite map_app. cbn [map].
      rewrite !app_assoc. rewrite last_snoc. unfold dnf. rewrite Nat.add_0_l. unfold Rdiv. ring.
    Qed.

    Lemma shape_sum : Rsum (shape n m) = INR n + 1 + INR m.
    Proof.
      pose proof Npos as HN. unfold shape. rewrite !Rsum_app, Rsum_repeat.
      unfold upf, dnf. rewrite Rsum_up, Rsum_dn. field. lra.
    Qed.

    Lemma shape_range x : In x (shape n m) -> 0 <= x <= 1.
    Proof.
      pose proof Npos as HN. unfold shape. rewrite !in_app_iff.
      intros [H | [H | H]].
      - apply in_map_iff in H. destruct H as [k [<- Hk]]. apply in_seq in Hk.
        assert (Hk' : INR k <= INR n) by (apply le_INR; lia).
        pose proof (pos_INR k) as Hk0. unfold upf. split.
        + apply Rmult_le_pos; [lra | left; apply Rinv_0_lt_compat; exact HN].
        + apply Rmult_le_reg_r with (INR n); [exact HN|]. unfold Rdiv. rewrite Rmult_assoc, Rinv_l by lra. lra.
      - apply repeat_spec in H. subst x. lra.
      - apply in_map_iff in H. destruct H as [k [<- Hk]]. apply in_seq in Hk.
        assert (Hk' : INR k <= INR n) by (apply le_INR; lia).
        pose proof (pos_INR k) as Hk0. unfold dnf. split.
        + apply Rmult_le_pos; [lra | left; apply Rinv_0_lt_compat; exact HN].
        + apply Rmult_le_reg_r with (INR n); [exact HN|]. unfold Rdiv. rewrite Rmult_assoc, Rinv_l by lra. lra.
    Qed.

    Lemma shape_steps : steps_ok (1 / INR n) (shape n m).
    Proof.
      pose proof Npos as HN.
      assert (Hd : 0 <= 1 / INR n).
      { unfold Rdiv. rewrite Rmult_1_l. left. apply Rinv_0_lt_compat. exact HN. }
      assert (Hup : steps_ok (1 / INR n) (map (upf n) (seq 0 (S n)))).
      { apply steps_map_seq. intros k _ _. unfold upf. rewrite S_INR.
        replace ((INR k + 1) / INR n - INR k / INR n) with (1 / INR n) by (field; lra).
        rewrite Rabs_right; lra. }
      assert (Hdn : steps_ok (1 / INR n) (map (dnf n) (seq 0 (S n)))).
      { apply steps_map_seq. intros k _ _. unfold dnf. rewrite S_INR.
        replace ((INR n - (INR k + 1)) / INR n - (INR n - INR k) / INR n) with (- (1 / INR n)) by (field; lra).
        rewrite Rabs_Ropp, Rabs_right; lra. }
      assert (Hone : dnf n 0 = 1) by (unfold dnf; cbn [INR]; field; lra).
      assert (Hlastup : last (map (upf n) (seq 0 (S n))) 0 = 1).
      { rewrite seq_S, map_app. cbn [map]. rewrite last_snoc. unfold upf. rewrite Nat.add_0_l. field. lra. }
      unfold shape. apply steps_app; [exact Hup | |].
      - destruct m as [|m']; [exact Hdn|].
        apply steps_app; [apply steps_repeat; exact Hd | exact Hdn |].
        assert (Hl : last (repeat 1 (S m')) 0 = 1).
        { clear. induction m' as [|m' IH]; [reflexivity|].
          change (repeat 1 (S (S m'))) with (1 :: repeat 1 (S m')).
          change (last (1 :: repeat 1 (S m')) 0) with (last (repeat 1 (S m')) 0). exact IH. }
        rewrite Hl. simpl hd. rewrite Hone. replace (1 - 1) with 0 by ring. rewrite Rabs_R0. exact Hd.
      - rewrite Hlastup. destruct m as [|m'].
        + simpl hd. rewrite Hone. replace (1 - 1) with 0 by ring. rewrite Rabs_R0. exact Hd.
        + simpl hd. replace (1 - 1) with 0 by ring. rewrite Rabs_R0. exact Hd.
    Qed.
  End WithN.
End Shape.

(* ------------------------------------------------------------------ real arithmetic of the two regimes *)
Lemma div_le_l a b c : 0 < b -> a <= c * b -> a / b <= c.
Proof.
  intros Hb H. apply Rmult_le_reg_r with b; [exact Hb|].
  unfold Rdiv. rewrite Rmult_assoc, Rinv_l by lra. lra.
Qed.
Lemma div_le_r a b c : 0 < b -> a / b <= c -> a <= c * b.
Proof.
  intros Hb H. apply Rmult_le_compat_r with (r := b) in H; [|lra].
  unfold Rdiv in H. rewrite Rmult_assoc, Rinv_l in H by lra. lra.
Qed.
Lemma div_lt_r a b c : 0 < b -> c < a / b -> c * b < a.
Proof.
  intros Hb H. apply Rmult_lt_compat_r with (r := b) in H; [|lra].
  unfold Rdiv in H. rewrite Rmult_assoc, Rinv_l in H by lra. lra.
Qed.
Lemma div_pos a b : 0 < a -> 0 < b -> 0 < a / b.
Proof. intros. apply Rmult_lt_0_compat; [assumption | apply Rinv_0_lt_compat; assumption]. Qed.

(* triangle regime: R1 = ceil(gmax/dgdt/dt), area < R1*dt*gmax, R2 = ceil(sqrt(area*dgdt)/dgdt/dt) *)
Lemma tri_arith area gmax dgdt dt R1 R2 :
  0 < area -> 0 < gmax -> 0 < dgdt -> 0 < dt ->
  R1 < gmax / dgdt / dt + 1 -> area < R1 * dt * gmax ->
  sqrt (area * dgdt) / dgdt / dt <= R2 -> (R2 <= R1 - 1 \/ R1 <= R2) ->
  area / ((R2 + 1 + 0) * dt) <= gmax /\ area / ((R2 + 1 + 0) * dt) / R2 <= dgdt * dt.
Proof.
  intros Ha Hg Hs Ht HR1 Htri HR2 Hint.
  set (s := sqrt (area * dgdt) / dgdt / dt) in *.
  set (g0 := gmax / dgdt / dt) in *.
  assert (Hsq : sqrt (area * dgdt) * sqrt (area * dgdt) = area * dgdt).
  { apply sqrt_sqrt. apply Rlt_le, Rmult_lt_0_compat; assumption. }
  assert (Hs0 : 0 < s).
  { unfold s. apply div_pos; [apply div_pos|]; try assumption.
    apply sqrt_lt_R0. apply Rmult_lt_0_compat; assumption. }
  assert (Harea : area = s * s * (dgdt * dt * dt)).
  { unfold s. transitivity ((sqrt (area * dgdt) * sqrt (area * dgdt)) / dgdt); [rewrite Hsq; field; lra | field; lra]. }
  assert (Hgm : gmax = g0 * (dgdt * dt)) by (unfold g0; field; lra).
  assert (Hg0 : 0 < g0) by (unfold g0; apply div_pos; [apply div_pos|]; assumption).
  assert (Hu : 0 < dgdt * dt * dt) by (repeat apply Rmult_lt_0_compat; assumption).
  assert (HR2pos : 0 < R2) by lra.
  (* s^2 < R1 * g0 *)
  assert (Hlt : s * s < R1 * g0).
  { apply Rmult_lt_reg_r with (dgdt * dt * dt); [exact Hu|].
    rewrite <- Harea. rewrite Hgm in Htri. lra. }
  assert (Hss : s * s <= R2 * R2) by (apply Rmult_le_compat; lra).
  assert (K1 : s * s <= g0 * (R2 + 1)).
  { destruct Hint as [Hc | Hc].
    - assert (R2 <= g0) by lra.
      assert (R2 * R2 <= g0 * R2) by (apply Rmult_le_compat_r; lra). nra.
    - assert (R1 * g0 <= (R2 + 1) * g0) by (apply Rmult_le_compat_r; lra). lra. }
  assert (K2 : s * s <= R2 * (R2 + 1)) by nra.
  assert (Hden : 0 < (R2 + 1 + 0) * dt) by (apply Rmult_lt_0_compat; lra).
  assert (G1 : area <= gmax * ((R2 + 1 + 0) * dt)).
  { rewrite Harea, Hgm.
    replace (g0 * (dgdt * dt) * ((R2 + 1 + 0) * dt)) with (g0 * (R2 + 1) * (dgdt * dt * dt)) by ring.
    apply Rmult_le_compat_r; lra. }
  split.
  - apply div_le_l; assumption.
  - apply div_le_l; [exact HR2pos|]. apply div_le_l; [exact Hden|].
    rewrite Harea.
    replace (dgdt * dt * R2 * ((R2 + 1 + 0) * dt)) with (R2 * (R2 + 1) * (dgdt * dt * dt)) by ring.
    apply Rmult_le_compat_r; lra.
Qed.

(* trapezoid regime (and the boundary area = R1*dt*gmax): Nf = 2*ceil((area - R1*dt*gmax)/gmax/dt/2) *)
Lemma trapz_arith area gmax dgdt dt R1 Nf :
  0 < area -> 0 < gmax -> 0 < dgdt -> 0 < dt ->
  gmax / dgdt / dt <= R1 -> 0 <= Nf ->
  (area - R1 * dt * gmax) / gmax / dt <= Nf ->
  area / ((R1 + 1 + Nf) * dt) <= gmax /\ area / ((R1 + 1 + Nf) * dt) / R1 <= dgdt * dt.
Proof.
  intros Ha Hg Hs Ht HR1 HNf Hq.
  assert (HR1pos : 0 < R1).
  { assert (0 < gmax / dgdt / dt) by (apply div_pos; [apply div_pos|]; assumption). lra. }
  assert (Hgd : gmax <= R1 * dt * dgdt).
  { apply div_le_r in HR1; [|exact Ht]. apply div_le_r in HR1; [|exact Hs]. lra. }
  assert (Hq' : area - R1 * dt * gmax <= Nf * dt * gmax).
  { apply div_le_r in Hq; [|exact Ht]. apply div_le_r in Hq; [|exact Hg]. lra. }
  assert (Hden : 0 < (R1 + 1 + Nf) * dt) by (apply Rmult_lt_0_compat; lra).
  assert (Hgt : 0 < gmax * dt) by (apply Rmult_lt_0_compat; assumption).
  assert (G1 : area <= gmax * ((R1 + 1 + Nf) * dt)) by nra.
  split.
  - apply div_le_l; assumption.
  - apply div_le_l; [exact HR1pos|]. apply div_le_l; [exact Hden|].
    assert (gmax * ((R1 + 1 + Nf) * dt) <= R1 * dt * dgdt * ((R1 + 1 + Nf) * dt)).
    { apply Rmult_le_compat_r; lra. }
    lra.
Qed.

(* ------------------------------------------------------------------ a scaled ramp/flat/ramp list meets the spec *)
Lemma hd_map0 (f : R -> R) l : f 0 = 0 -> hd 0 (map f l) = f (hd 0 l).
Proof. intros H. destruct l; simpl; [symmetry; exact H | reflexivity]. Qed.
Lemma last_map0 (f : R -> R) l : f 0 = 0 -> last (map f l) 0 = f (last l 0).
Proof.
  intros H. induction l as [|a l IH]; [symmetry; exact H|].
  destruct l as [|b l]; [reflexivity|].
  change (map f (a :: b :: l)) with (f a :: map f (b :: l)).
  change (map f (b :: l)) with (f b :: map f l) at 1.
  change (last (f a :: f b :: map f l) 0) with (last (f b :: map f l) 0).
  change (last (a :: b :: l) 0) with (last (b :: l) 0). exact IH.
Qed.

Lemma scaled_shape n m p :
  (1 <= n)%nat -> 0 <= p ->
  let w := map (fun x => x * p) (shape n m) in
  hd 0 w = 0 /\ last w 0 = 0 /\ Rsum w = (INR n + 1 + INR m) * p /\
  (forall x, In x w -> 0 <= x <= p) /\ steps_ok (p / INR n) w.
Proof.
  intros Hn Hp w. unfold w. repeat split.
  - rewrite hd_map0 by ring. rewrite shape_hd. ring.
  - rewrite last_map0 by ring. rewrite shape_last by exact Hn. ring.
  - rewrite Rsum_scale, shape_sum by exact Hn. ring.
  - apply in_map_iff in H. destruct H as [y [<- Hy]]. apply shape_range in Hy; [|exact Hn]. nra.
  - apply in_map_iff in H. destruct H as [y [<- Hy]]. apply shape_range in Hy; [|exact Hn]. nra.
  - replace (p / INR n) with (1 / INR n * p) by (unfold Rdiv; ring).
    apply steps_scale; [exact Hp | apply shape_steps; exact Hn].
Qed.

Section Designers.
  Variables ceil floor : R -> Z.
  Hypothesis ceil_spec : forall t, t <= IZR (ceil t) < t + 1.
  Hypothesis floor_spec : forall t, IZR (floor t) <= t < IZR (floor t) + 1.
  Notation RR := (RReal ceil floor).

  Lemma pulse_is_shape n m :
    ramp_up (T:=RR) (Z.of_nat n) ++ ones (T:=RR) (Z.of_nat m) ++ ramp_dn (T:=RR) (Z.of_nat n) = shape n m.
  Proof. rewrite ramp_up_R, ramp_dn_R. unfold ones, shape. rewrite Nat2Z.id. reflexivity. Qed.

  Lemma ceil_pos t : 0 < t -> (1 <= ceil t)%Z.
  Proof.
    intros Ht. destruct (ceil_spec t) as [H _].
    assert (0 < ceil t)%Z by (apply lt_IZR; lra). lia.
  Qed.
  Lemma ceil_nonneg t : 0 <= t -> (0 <= ceil t)%Z.
  Proof. intros Ht. destruct (ceil_spec t) as [H _]. apply le_IZR. lra. Qed.

  (* the unscaled pulse of trap_grad is ramp(n) ++ flat(m) ++ ramp(n) with n >= 1 and the peak
     area/((n+1+m)*dt) already within the amplitude and slew limits, in both regimes *)
  Lemma trap_pulse_R area gmax dgdt dt :
    0 < area -> 0 < gmax -> 0 < dgdt -> 0 < dt ->
    exists n m, (1 <= n)%nat /\
      trap_pulse (T:=RR) area gmax dgdt dt = (shape n m, Z.of_nat n) /\
      area / ((INR n + 1 + INR m) * dt) <= gmax /\
      area / ((INR n + 1 + INR m) * dt) / INR n <= dgdt * dt /\
      ((area < IZR (ceil (gmax / dgdt / dt)) * dt * gmax /\ m = 0%nat /\
        Z.of_nat n = ceil (sqrt (area * dgdt) / dgdt / dt)) \/
       (IZR (ceil (gmax / dgdt / dt)) * dt * gmax <= area /\ Z.of_nat n = ceil (gmax / dgdt / dt) /\
        Z.of_nat m = (ceil ((area - IZR (ceil (gmax / dgdt / dt)) * dt * gmax) / gmax / dt / 2) * 2)%Z)).
  Proof.
    intros Ha Hg Hs Ht. unfold trap_pulse. cbn [rceil rdiv rmul rsub rofZ rltb rabs rsqrt RReal].
    rewrite (Rabs_right area) by lra.
    set (r1 := ceil (gmax / dgdt / dt)).
    assert (Hq1 : 0 < gmax / dgdt / dt) by (apply div_pos; [apply div_pos|]; assumption).
    pose proof (ceil_spec (gmax / dgdt / dt)) as [Hr1a Hr1b]. fold r1 in Hr1a, Hr1b.
    pose proof (ceil_pos _ Hq1) as Hr1. fold r1 in Hr1.
    destruct (Rlt_dec area (IZR r1 * dt * gmax)) as [Htri | Htri].
    - (* triangle *)
      rewrite (Rltb_true _ _ Htri).
      set (r2 := ceil (sqrt (area * dgdt) / dgdt / dt)).
      assert (Hq2 : 0 < sqrt (area * dgdt) / dgdt / dt).
      { apply div_pos; [apply div_pos|]; try assumption. apply sqrt_lt_R0, Rmult_lt_0_compat; assumption. }
      pose proof (ceil_spec (sqrt (area * dgdt) / dgdt / dt)) as [Hr2a _]. fold r2 in Hr2a.
      pose proof (ceil_pos _ Hq2) as Hr2. fold r2 in Hr2.
      exists (Z.to_nat r2), 0%nat.
      assert (En : Z.of_nat (Z.to_nat r2) = r2) by lia.
      assert (EN : INR (Z.to_nat r2) = IZR r2) by (rewrite INR_IZR_INZ, En; reflexivity).
      split; [lia|]. split.
      + rewrite <- (pulse_is_shape (Z.to_nat r2) 0). rewrite En. reflexivity.
      + rewrite <- and_assoc. split; [|left; split; [exact Htri | split; [reflexivity | exact En]]].
        rewrite EN. change (INR 0) with 0. apply tri_arith with (R1 := IZR r1); try assumption.
        destruct (Z.lt_ge_cases r2 r1) as [Hc | Hc].
        * left. assert (r2 <= r1 - 1)%Z as Hc' by lia. apply IZR_le in Hc'. rewrite minus_IZR in Hc'. exact Hc'.
        * right. apply IZR_le. exact Hc.
    - (* trapezoid, including the boundary area = r1*dt*gmax *)
      rewrite (Rltb_false _ _ Htri).
      set (q := (area - IZR r1 * dt * gmax) / gmax / dt / 2).
      assert (Hq0 : 0 <= q).
      { unfold q. apply Rnot_lt_le in Htri.
        assert (0 <= area - IZR r1 * dt * gmax) by lra.
        unfold Rdiv. repeat apply Rmult_le_pos; try assumption; left; apply Rinv_0_lt_compat; lra. }
      pose proof (ceil_spec q) as [Hca _]. pose proof (ceil_nonneg _ Hq0) as Hc0.
      exists (Z.to_nat r1), (Z.to_nat (ceil q * 2)).
      assert (En : Z.of_nat (Z.to_nat r1) = r1) by lia.
      assert (Em : Z.of_nat (Z.to_nat (ceil q * 2)) = (ceil q * 2)%Z) by lia.
      assert (EN : INR (Z.to_nat r1) = IZR r1) by (rewrite INR_IZR_INZ, En; reflexivity).
      assert (EM : INR (Z.to_nat (ceil q * 2)) = IZR (ceil q) * 2) by (rewrite INR_IZR_INZ, Em, mult_IZR; reflexivity).
      split; [lia|]. split.
      + rewrite <- (pulse_is_shape (Z.to_nat r1) (Z.to_nat (ceil q * 2))). rewrite En, Em. reflexivity.
      + rewrite <- and_assoc. split; [|right; split; [apply Rnot_lt_le; exact Htri | split; [exact En | exact Em]]].
        rewrite EN, EM. apply trapz_arith; try assumption.
        * apply IZR_le in Hc0. lra.
        * unfold q in *. lra.
  Qed.

  Theorem trap_grad_spec area gmax dgdt dt :
    0 < area -> 0 < gmax -> 0 < dgdt -> 0 < dt ->
    trap_spec area gmax dgdt dt (fst (trap_grad (T:=RR) area gmax dgdt dt)) /\
    (1 <= snd (trap_grad (T:=RR) area gmax dgdt dt))%Z.
  Proof.
    intros Ha Hg Hs Ht.
    destruct (trap_pulse_R area gmax dgdt dt Ha Hg Hs Ht) as [n [m [Hn [Hp [Hmax [Hslew _]]]]]].
    unfold trap_grad. cbn [rltb rabs r0 RReal]. rewrite (Rabs_right area) by lra.
    rewrite (Rltb_true _ _ Ha). rewrite Hp. cbn [fst snd].
    split; [|lia].
    unfold rsum. cbn [radd rmul rdiv r0 RT RReal]. rewrite fold_left_Rplus, Rplus_0_l, shape_sum by exact Hn.
    set (p := area / ((INR n + 1 + INR m) * dt)) in *.
    assert (HN : 0 < INR n) by (apply lt_0_INR; lia).
    assert (HM : 0 <= INR m) by apply pos_INR.
    assert (Hden : 0 < (INR n + 1 + INR m) * dt) by (apply Rmult_lt_0_compat; lra).
    assert (Hp0 : 0 <= p) by (left; apply div_pos; assumption).
    destruct (scaled_shape n m p Hn Hp0) as [H1 [H2 [H3 [H4 H5]]]].
    unfold trap_spec. repeat split.
    - exact H1.
    - exact H2.
    - rewrite H3. unfold p. field. lra.
    - apply H4 in H. lra.
    - apply H4 in H. lra.
    - apply steps_nth. apply steps_weaken with (d := p / INR n); assumption.
  Qed.

  (* the three regimes made explicit: ramp count and number of samples *)
  Lemma shape_length n m : Z.of_nat (length (shape n m)) = (2 * (Z.of_nat n + 1) + Z.of_nat m)%Z.
  Proof. unfold shape. rewrite !app_length, !map_length, !seq_length, repeat_length. lia. Qed.

  Theorem trap_grad_regimes_R area gmax dgdt dt :
    0 < area -> 0 < gmax -> 0 < dgdt -> 0 < dt ->
    let r1 := ceil (gmax / dgdt / dt) in
    let w := fst (trap_grad (T:=RR) area gmax dgdt dt) in
    let r := snd (trap_grad (T:=RR) area gmax dgdt dt) in
    (* triangle *)
    (area < IZR r1 * dt * gmax ->
       r = ceil (sqrt (area * dgdt) / dgdt / dt) /\ Z.of_nat (length w) = (2 * (r + 1))%Z /\
       forall x, In x w -> x <= area / ((IZR r + 1) * dt)) /\
    (* trapezoid *)
    (IZR r1 * dt * gmax <= area ->
       r = r1 /\
       Z.of_nat (length w) = (2 * (r1 + 1) + ceil ((area - IZR r1 * dt * gmax) / gmax / dt / 2) * 2)%Z) /\
    (* boundary *)
    (area = IZR r1 * dt * gmax -> r = r1 /\ Z.of_nat (length w) = (2 * (r1 + 1))%Z).
  Proof.
    intros Ha Hg Hs Ht r1 w r.
    destruct (trap_pulse_R area gmax dgdt dt Ha Hg Hs Ht) as [n [m [Hn [Hp [Hmax [Hslew Hreg]]]]]].
    assert (Hw : w = map (fun x => x * (area / ((INR n + 1 + INR m) * dt))) (shape n m) /\ r = Z.of_nat n).
    { unfold w, r, trap_grad. cbn [rltb rabs r0 RReal]. rewrite (Rabs_right area) by lra.
      rewrite (Rltb_true _ _ Ha). rewrite Hp. cbn [fst snd]. split; [|reflexivity].
      unfold rsum. cbn [radd rmul rdiv r0 RT RReal]. rewrite fold_left_Rplus, Rplus_0_l, shape_sum by exact Hn.
      reflexivity. }
    destruct Hw as [Hw Hr].
    assert (Hlen : Z.of_nat (length w) = (2 * (Z.of_nat n + 1) + Z.of_nat m)%Z).
    { rewrite Hw, map_length. apply shape_length. }
    fold r1 in Hreg.
    assert (Hq0 : area = IZR r1 * dt * gmax -> ceil ((area - IZR r1 * dt * gmax) / gmax / dt / 2) = 0%Z).
    { intros E. replace ((area - IZR r1 * dt * gmax) / gmax / dt / 2) with 0 by (rewrite <- E; field; lra).
      destruct (ceil_spec 0) as [H1 H2]. apply le_IZR in H1.
      assert (ceil 0 < 1)%Z by (apply lt_IZR; lra). lia. }
    split; [|split].
    - intros Htri. destruct Hreg as [[_ [Hm En]] | [Hge _]]; [|lra].
      subst m. split; [lia|]. split; [lia|].
      intros x Hx. rewrite Hw in Hx.
      assert (HN : 0 < INR n) by (apply lt_0_INR; lia).
      assert (Hden : 0 < (INR n + 1 + INR 0) * dt) by (apply Rmult_lt_0_compat; cbn [INR]; lra).
      assert (Hp0 : 0 <= area / ((INR n + 1 + INR 0) * dt)) by (left; apply div_pos; assumption).
      destruct (scaled_shape n 0 _ Hn Hp0) as [_ [_ [_ [H4 _]]]].
      apply H4 in Hx. rewrite Hr, <- INR_IZR_INZ. cbn [INR] in Hx. rewrite Rplus_0_r in Hx. lra.
    - intros Hge. destruct Hreg as [[Hlt _] | [_ [En Em]]]; [lra|]. split; lia.
    - intros E. destruct Hreg as [[Hlt _] | [_ [En Em]]]; [lra|]. rewrite (Hq0 E) in Em. split; lia.
  Qed.

  (* ---------------- min_trap_grad ---------------- *)
  Lemma map_repeat' (f : R -> R) x k : map f (repeat x k) = repeat (f x) k.
  Proof. induction k as [|k IH]; [reflexivity | simpl; rewrite IH; reflexivity]. Qed.

  Lemma rmaxl_repeat h k : (1 <= k)%nat -> rmaxl (T:=RR) (repeat h k) = h.
  Proof.
    intros Hk. destruct k as [|k]; [lia|]. cbn [repeat rmaxl]. clear Hk.
    induction k as [|k IH]; [reflexivity|].
    cbn [repeat fold_left rltb RReal]. rewrite Rltb_false by lra. exact IH.
  Qed.

  Definition flat_amp (k : nat) (area dt : R) : R := 1 / INR k * area / dt.

  Lemma flat_of_R k area dt : flat_of (T:=RR) (Z.of_nat k) area dt = repeat (flat_amp k area dt) k.
  Proof.
    unfold flat_of, ones, rsum. rewrite Nat2Z.id. cbn [radd rmul rdiv r0 r1 RT RReal].
    rewrite fold_left_Rplus, Rsum_repeat, map_repeat'. unfold flat_amp.
    f_equal. f_equal. f_equal. f_equal. ring.
  Qed.

  (* the flat part is k >= 1 equal samples of amplitude area/(k*dt), which is positive and <= gmax *)
  Lemma min_trap_flat_R area gmax dgdt dt :
    0 < area -> 0 < gmax -> 0 < dgdt -> 0 < dt ->
    exists k, (1 <= k)%nat /\
      min_trap_flat (T:=RR) area gmax dgdt dt = repeat (flat_amp k area dt) k /\
      0 < flat_amp k area dt <= gmax.
  Proof.
    intros Ha Hg Hs Ht. unfold min_trap_flat. cbn [rceil rfloor rdiv rmul rofZ rltb rsqrt RReal].
    set (pts := Z.max (floor (area / sqrt (dgdt * area / 2) / dt)) 1).
    assert (Hpts : (1 <= pts)%Z) by (unfold pts; lia).
    assert (Epts : Z.of_nat (Z.to_nat pts) = pts) by lia.
    assert (Hamp : forall k, (1 <= k)%nat -> 0 < flat_amp k area dt).
    { intros k Hk. unfold flat_amp. assert (0 < INR k) by (apply lt_0_INR; lia).
      apply div_pos; [|exact Ht]. apply Rmult_lt_0_compat; [|exact Ha]. apply div_pos; lra. }
    rewrite <- Epts, flat_of_R, rmaxl_repeat by lia.
    destruct (Rlt_dec gmax (flat_amp (Z.to_nat pts) area dt)) as [Hcap | Hcap].
    - rewrite (Rltb_true _ _ Hcap).
      assert (Hq : 0 < area / gmax / dt) by (apply div_pos; [apply div_pos|]; assumption).
      pose proof (ceil_pos _ Hq) as Hc. pose proof (ceil_spec (area / gmax / dt)) as [Hca _].
      set (c := ceil (area / gmax / dt)) in *.
      assert (Ec : Z.of_nat (Z.to_nat c) = c) by lia.
      exists (Z.to_nat c). split; [lia|]. split.
      + rewrite <- Ec at 1. apply flat_of_R.
      + split; [apply Hamp; lia|].
        unfold flat_amp. rewrite INR_IZR_INZ, Ec.
        assert (Hcpos : 0 < IZR c) by lra.
        apply div_le_r in Hca; [|exact Ht]. apply div_le_r in Hca; [|exact Hg].
        apply div_le_l; [exact Ht|].
        replace (1 / IZR c * area) with (area / IZR c) by (field; lra).
        apply div_le_l; [exact Hcpos|]. lra.
    - rewrite (Rltb_false _ _ Hcap). exists (Z.to_nat pts). split; [lia|]. split; [reflexivity|].
      split; [apply Hamp; lia | lra].
  Qed.

  Theorem min_trap_grad_spec area gmax dgdt dt :
    0 < area -> 0 < gmax -> 0 < dgdt -> 0 < dt ->
    mintrap_spec area gmax dgdt dt (fst (min_trap_grad (T:=RR) area gmax dgdt dt))
                 (min_trap_flat_part (T:=RR) area gmax dgdt dt) /\
    (1 <= snd (min_trap_grad (T:=RR) area gmax dgdt dt))%Z.
  Proof.
    intros Ha Hg Hs Ht.
    destruct (min_trap_flat_R area gmax dgdt dt Ha Hg Hs Ht) as [k [Hk [Hflat [Hh0 Hhg]]]].
    unfold min_trap_grad, min_trap_flat_part. cbn [rltb rabs r0 RReal]. rewrite (Rabs_right area) by lra.
    rewrite (Rltb_true _ _ Ha). rewrite Hflat. rewrite rmaxl_repeat by exact Hk.
    set (h := flat_amp k area dt) in *.
    cbn [rceil rdiv rmul RT RReal fst snd].
    assert (Hq : 0 < h / dgdt / dt) by (apply div_pos; [apply div_pos|]; assumption).
    pose proof (ceil_pos _ Hq) as Hr. pose proof (ceil_spec (h / dgdt / dt)) as [Hra _].
    set (r := ceil (h / dgdt / dt)) in *.
    assert (Er : Z.of_nat (Z.to_nat r) = r) by lia.
    assert (Hn : (1 <= Z.to_nat r)%nat) by lia.
    assert (EN : INR (Z.to_nat r) = IZR r) by (rewrite INR_IZR_INZ, Er; reflexivity).
    split; [|exact Hr].
    rewrite <- Er. rewrite ramp_up_R, ramp_dn_R.
    assert (Ew : map (fun x : R => x * h) (map (upf (Z.to_nat r)) (seq 0 (S (Z.to_nat r)))) ++
                 repeat h k ++ map (fun x : R => x * h) (map (dnf (Z.to_nat r)) (seq 0 (S (Z.to_nat r))))
                 = map (fun x => x * h) (shape (Z.to_nat r) k)).
    { unfold shape. rewrite !map_app, map_repeat', Rmult_1_l. reflexivity. }
    destruct (scaled_shape (Z.to_nat r) k h Hn (Rlt_le _ _ Hh0)) as [H1 [H2 [_ [H4 H5]]]].
    unfold mintrap_spec. repeat split.
    - rewrite Ew. exact H1.
    - rewrite Ew. exact H2.
    - eexists _, _. split; [reflexivity|]. rewrite !map_length. reflexivity.
    - rewrite repeat_length. exact Hk.
    - rewrite Rsum_repeat. unfold h, flat_amp. assert (0 < INR k) by (apply lt_0_INR; lia). field. lra.
    - intros x y Hx Hy. apply repeat_spec in Hx. apply repeat_spec in Hy. congruence.
    - rewrite Ew in H. apply H4 in H. lra.
    - rewrite Ew in H. apply H4 in H. lra.
    - rewrite Ew. apply steps_nth. apply steps_weaken with (d := h / INR (Z.to_nat r)); [|exact H5].
      rewrite EN. assert (0 < IZR r) by lra.
      apply div_le_l; [assumption|].
      apply div_le_r in Hra; [|exact Ht]. apply div_le_r in Hra; [|exact Hs]. lra.
  Qed.
End Designers.

(* ------------------------------------------------------------------ closing the section with Coq's [up] *)
Definition ceil_up (t : R) : Z := (1 - up (- t))%Z.
Definition floor_up (t : R) : Z := (up t - 1)%Z.

Lemma ceil_up_spec t : t <= IZR (ceil_up t) < t + 1.
Proof.
  unfold ceil_up. rewrite minus_IZR. destruct (archimed (- t)) as [H1 H2]. split; lra.
Qed.
Lemma floor_up_spec t : IZR (floor_up t) <= t < IZR (floor_up t) + 1.
Proof.
  unfold floor_up. rewrite minus_IZR. destruct (archimed t) as [H1 H2]. split; lra.
Qed.

Definition RUp : RealOps := RReal ceil_up floor_up.

Theorem trap_grad_meets_limits area gmax dgdt dt :
  0 < area -> 0 < gmax -> 0 < dgdt -> 0 < dt ->
  trap_spec area gmax dgdt dt (fst (trap_grad (T:=RUp) area gmax dgdt dt)) /\
  (1 <= snd (trap_grad (T:=RUp) area gmax dgdt dt))%Z.
Proof. apply trap_grad_spec. exact ceil_up_spec. Qed.

Theorem min_trap_grad_meets_limits area gmax dgdt dt :
  0 < area -> 0 < gmax -> 0 < dgdt -> 0 < dt ->
  mintrap_spec area gmax dgdt dt (fst (min_trap_grad (T:=RUp) area gmax dgdt dt))
               (min_trap_flat_part (T:=RUp) area gmax dgdt dt) /\
  (1 <= snd (min_trap_grad (T:=RUp) area gmax dgdt dt))%Z.
Proof. apply min_trap_grad_spec. exact ceil_up_spec. Qed.

Theorem trap_grad_regimes area gmax dgdt dt :
  0 < area -> 0 < gmax -> 0 < dgdt -> 0 < dt ->
  let r1 := ceil_up (gmax / dgdt / dt) in
  let w := fst (trap_grad (T:=RUp) area gmax dgdt dt) in
  let r := snd (trap_grad (T:=RUp) area gmax dgdt dt) in
  (area < IZR r1 * dt * gmax ->
     r = ceil_up (sqrt (area * dgdt) / dgdt / dt) /\ Z.of_nat (length w) = (2 * (r + 1))%Z /\
     forall x, In x w -> x <= area / ((IZR r + 1) * dt)) /\
  (IZR r1 * dt * gmax <= area ->
     r = r1 /\
     Z.of_nat (length w) = (2 * (r1 + 1) + ceil_up ((area - IZR r1 * dt * gmax) / gmax / dt / 2) * 2)%Z) /\
  (area = IZR r1 * dt * gmax -> r = r1 /\ Z.of_nat (length w) = (2 * (r1 + 1))%Z).
Proof. apply trap_grad_regimes_R. exact ceil_up_spec. Qed.

Lemma trap_example_params : 0 < 200 * 4e-6 /\ 0 < 2 /\ 0 < 18000 /\ 0 < 4e-6.
Proof. repeat split; lra. Qed.
