(* proofs/ProxL1.v — l1_proj (Duchi et al.): the sort / cumsum / last-positive search returns a
   threshold theta >= 0 with sum_i (|y_i| - theta)_+ = eps (KKT certificate) whenever ||y||_1 >= eps,
   this certificate characterises the Euclidean projection onto the l1 ball, feasible input is returned
   as it is, and projections are idempotent. *)
From Coq Require Import Reals Lra Lia List Bool Psatz Sorting.Sorted Sorting.Permutation.
From SV Require Import model.Prox proofs.ProxBase proofs.ProxThresh.
Import ListNotations.
Local Open Scope R_scope.

Definition lsum (l : list R) : R := fold_right Rplus 0 l.
Definition possum (t : R) (l : list R) : R := lsum (map (fun v => Rmax (v - t) 0) l).

Lemma lsum_app a b : lsum (a ++ b) = lsum a + lsum b.
Proof. induction a; simpl; lra. Qed.
Lemma lsum_perm a b : Permutation a b -> lsum a = lsum b.
Proof. induction 1; simpl; lra. Qed.
Lemma lsum_sumn l : lsum l = sumn (length l) (fun i => nth i l 0).
Proof. induction l; [reflexivity|]. simpl length. rewrite sumn_shift. simpl. rewrite IHl. reflexivity. Qed.
Lemma possum_app t a b : possum t (a ++ b) = possum t a + possum t b.
Proof. unfold possum. rewrite map_app. apply lsum_app. Qed.
Lemma possum_ge t l : lsum l - INR (length l) * t <= possum t l.
Proof.
  induction l; [simpl; unfold possum; simpl; lra|].
  unfold possum in *. simpl map. simpl lsum. simpl length. rewrite (S_INR (length l)).
  pose proof (Rmax_l (a - t) 0). lra.
Qed.
Lemma possum_all_above t l : (forall v, In v l -> t <= v) -> possum t l = lsum l - INR (length l) * t.
Proof.
  induction l; intros H; [unfold possum; simpl; lra|].
  unfold possum in *. simpl map. simpl lsum. simpl length. rewrite (S_INR (length l)).
  rewrite IHl by (intros; apply H; right; auto).
  assert (t <= a) by (apply H; left; auto). rewrite Rmax_left by lra. lra.
Qed.

Notation desc := (StronglySorted (fun a b : R => b <= a)).

(* ---------------------------------------------------------------- the sort *)
Lemma insert_desc_perm x l : Permutation (@insert_desc RR x l) (x :: l).
Proof.
  induction l as [|y r IH]; simpl; auto. unfold Rltb. destruct (Rlt_dec x y); auto.
  rewrite IH. apply perm_swap.
Qed.
Lemma insert_desc_sorted x l : desc l -> desc (@insert_desc RR x l).
Proof.
  induction 1 as [|y r Hs IH Hf]; simpl; [repeat constructor|].
  unfold Rltb. destruct (Rlt_dec x y) as [Hlt|Hge].
  - constructor; auto.
    rewrite insert_desc_perm.
    constructor; [lra|auto].
  - constructor; [constructor; auto|]. constructor; [lra|].
    eapply Forall_impl; [|exact Hf]. simpl. intros; lra.
Qed.
Lemma sort_desc_perm l : Permutation (@sort_desc RR l) l.
Proof. induction l; simpl; auto. unfold sort_desc in *. simpl. rewrite insert_desc_perm. auto. Qed.
Lemma sort_desc_sorted l : desc (@sort_desc RR l).
Proof. induction l; [constructor|]. unfold sort_desc in *. simpl. apply insert_desc_sorted; auto. Qed.

(* ---------------------------------------------------------------- the scan *)
Lemma l1_scan_inv eps : 0 < eps ->
  forall rest pre best,
    desc rest -> (forall v x, In v pre -> In x rest -> x <= v) ->
    ((pre = [] /\ best = None) \/ (pre <> [] /\ exists b, best = Some b /\ possum b pre = eps)) ->
    pre ++ rest <> [] ->
    exists th, @l1_scan RR eps (INR (length pre) + 1) (lsum pre) best rest = Some th /\ possum th (pre ++ rest) = eps.
Proof.
  intros He. induction rest as [|x r IH]; intros pre best Hs Hle Hinv Hne.
  - rewrite app_nil_r in *. destruct Hinv as [[-> _]|[_ (b & -> & Hb)]]; [contradiction|].
    exists b. split; [reflexivity|exact Hb].
  - simpl l1_scan. simpl.
    set (k := INR (length pre) + 1). set (cs' := lsum pre + x). set (st := (cs' - eps) / k).
    assert (Hk : 0 < k) by (unfold k; pose proof (pos_INR (length pre)); lra).
    assert (Hst : k * st = cs' - eps) by (unfold st; field; lra).
    inversion Hs as [|? ? Hs' Hf]; subst.
    assert (Hpre' : forall v x0, In v (pre ++ [x]) -> In x0 r -> x0 <= v).
    { intros v x0 Hv Hx0. apply in_app_or in Hv. destruct Hv as [Hv|[<-|[]]].
      - apply Hle; auto. right; auto.
      - rewrite Forall_forall in Hf. apply Hf; auto. }
    assert (Hlen : INR (length (pre ++ [x])) + 1 = k + 1).
    { rewrite app_length. simpl. rewrite Nat.add_1_r, S_INR. reflexivity. }
    assert (Hcs : lsum (pre ++ [x]) = cs') by (rewrite lsum_app; simpl; unfold cs'; lra).
    specialize (IH (pre ++ [x])).
    rewrite Hlen, Hcs, <- app_assoc in IH. simpl app in IH.
    apply IH; auto.
    + unfold Rltb. destruct (Rlt_dec 0 (x - st)) as [Hhit|Hno].
      * right. split; [destruct pre; discriminate|]. exists st. split; auto.
        rewrite possum_all_above.
        -- rewrite Hcs, app_length. simpl. rewrite Nat.add_1_r, S_INR. fold k. lra.
        -- intros v Hv. apply in_app_or in Hv. destruct Hv as [Hv|[<-|[]]]; [|lra].
           assert (x <= v) by (apply Hle; auto; left; auto). lra.
      * destruct Hinv as [[-> ->]|[Hpne (b & -> & Hb)]].
        -- exfalso. unfold st, cs', k in Hno. simpl in Hno. apply Hno.
           replace ((0 + x - eps) / (0 + 1)) with (x - eps) by (field). lra.
        -- right. split; [destruct pre; discriminate|]. exists b. split; auto.
           rewrite possum_app, Hb. unfold possum. simpl.
           pose proof (possum_ge b pre) as Hge. rewrite Hb in Hge.
           assert (Hn : 0 < INR (length pre)).
           { destruct pre; [contradiction|]. simpl length. rewrite S_INR. pose proof (pos_INR (length pre)). lra. }
           assert (Hx : x <= st) by lra.
           assert (INR (length pre) * x <= lsum pre - eps).
           { unfold k in Hst. unfold cs' in Hst. nra. }
           assert (x <= b) by nra.
           rewrite Rmax_right by lra. lra.
Qed.

Section L1.
  Context {El : Elem RR} (LW : ElemLaws El).
  Notation ei := (ein LW).
  Notation V := (nat -> El).

  (* (|y_i| - theta)_+ summed over the array *)
  Definition cert (n : nat) (y : V) (th : R) : R := sumn n (fun i => Rmax (eabs (y i) - th) 0).

  Lemma possum_cert th (y : list El) : possum th (map eabs y) = cert (length y) (fn y) th.
  Proof.
    unfold possum, cert. rewrite lsum_sumn, !map_length. apply sumn_ext. intros i Hi.
    rewrite (nth_map_in _ _ i 0 0) by (rewrite map_length; auto).
    rewrite (nth_map_in _ y i 0 e0) by auto. reflexivity.
  Qed.

  (* KKT certificate of the search *)
  Theorem l1_theta_certificate eps (y : list El) :
    0 < eps -> eps <= @rsum RR (map eabs y) ->
    exists th, @l1_theta RR El eps y = Some th /\ 0 <= th /\ cert (length y) (fn y) th = eps.
  Proof.
    intros He Hnorm. unfold l1_theta.
    set (a := map eabs y). set (s := @sort_desc RR a).
    assert (Hperm : Permutation s a) by apply sort_desc_perm.
    assert (Hsum : eps <= lsum s).
    { rewrite (lsum_perm s a Hperm), lsum_sumn. unfold rsum in Hnorm. simpl in Hnorm.
      rewrite fold_left_sumn in Hnorm. change (eps <= 0 + sumn (length a) (fun i => nth i a 0)) in Hnorm. rewrite Rplus_0_l in Hnorm. exact Hnorm. }
    assert (Hne : s <> []).
    { intros E. rewrite E in Hsum. simpl in Hsum. lra. }
    destruct (l1_scan_inv eps He s [] None) as (th & Hth & Hc); auto.
    - apply sort_desc_sorted.
    - intros v x [].
    - simpl in Hth. replace (0 + 1) with 1 in Hth by lra. simpl in Hc.
      exists th. split; [exact Hth|].
      assert (Hc' : possum th a = eps).
      { unfold possum in *. rewrite <- Hc. symmetry. apply lsum_perm. apply Permutation_map. exact Hperm. }
      split.
      + (* theta >= 0 *)
        destruct (Rle_dec 0 th) as [|Hneg]; auto. exfalso.
        pose proof (possum_ge th s) as Hge.
        assert (Hn : 0 < INR (length s)).
        { destruct (length s) eqn:E; [apply length_zero_iff_nil in E; contradiction|]. rewrite S_INR. pose proof (pos_INR n). lra. }
        assert (Hth0 : th < 0) by (apply Rnot_le_lt; exact Hneg).
        assert (0 < INR (length s) * - th) by (apply Rmult_lt_0_compat; lra).
        assert (INR (length s) * th < 0) by lra. rewrite Hc in Hge. change (T RR) with R in *. lra.
      + rewrite <- possum_cert. exact Hc'.
  Qed.

  (* what the function returns *)
  Theorem l1_proj_feasible eps (y : list El) :
    @rsum RR (map eabs y) < eps -> @l1_proj RR El eps y = Some y.
  Proof. intros H. unfold l1_proj. simpl. apply Rltb_true in H. simpl in H. rewrite H. reflexivity. Qed.

  Theorem l1_proj_infeasible eps (y : list El) :
    0 < eps -> eps <= @rsum RR (map eabs y) ->
    exists th, 0 <= th /\ cert (length y) (fn y) th = eps /\
               @l1_proj RR El eps y = Some (@soft_thresh RR El (SS th) y).
  Proof.
    intros He H. destruct (l1_theta_certificate eps y He H) as (th & Hth & H0 & Hc).
    exists th. split; auto. split; auto. unfold l1_proj. simpl.
    assert (E : Rltb (@rsum RR (map eabs y)) eps = false) by (apply Rltb_false; exact H).
    simpl in E. rewrite E, Hth. reflexivity.
  Qed.

  (* the certificate characterises the projection onto {||x||_1 <= eps} *)
  Theorem l1_certificate_is_proj eps th (y : list El) :
    0 <= th -> cert (length y) (fn y) th = eps ->
    proj_at LW (length y) (fun z => norm1 (length y) z <= eps) (fn y) (fn (@soft_thresh RR El (SS th) y)).
  Proof.
    intros H0 Hc.
    assert (Hn1 : norm1 (length y) (fn (@soft_thresh RR El (SS th) y)) = eps).
    { rewrite <- Hc. unfold norm1, cert. apply sumn_ext. intros i Hi.
      rewrite (soft_thresh_nth _ y i Hi). simpl sv_get.
      destruct (soft1_scaled LW th (fn y i) H0) as (c & Hc01 & Hp & Hm).
      rewrite (eabs_of_scaled LW _ (fn y i) c); auto. lra. }
    split; [lra|]. intros z Hz.
    destruct (soft_thresh_prox LW (SS th) y (fun _ => H0)) as [_ [_ Hvi]].
    specialize (Hvi z I). simpl in Hvi. rewrite !sumn_scal in Hvi. fold (norm1 (length y) z) in Hvi.
    fold (norm1 (length y) (fn (@soft_thresh RR El (SS th) y))) in Hvi. rewrite Hn1 in Hvi. nra.
  Qed.

  (* feasible input: the identity is the projection *)
  Theorem proj_of_feasible n (S : V -> Prop) (y : V) : S y -> proj_at LW n S y y.
  Proof. intros H. split; auto. intros z _. dotx LW. lra. Qed.

  (* any projection is idempotent: projecting a point of S again returns it *)
  Theorem proj_idempotent n (S : V -> Prop) (p p' : V) :
    S p -> proj_at LW n S p p' -> forall i, (i < n)%nat -> p' i = p i.
  Proof.
    intros Hp [_ H] i Hi. specialize (H p Hp).
    pose proof (dotn_pos LW n (fsub p p')) as Hpos.
    assert (H0 : dotn LW n (fsub p p') (fsub p p') = 0) by lra.
    pose proof (dotn_zero_inv LW n _ H0 i Hi) as He. unfold fsub in He.
    apply (ein_ext LW). intros c.
    assert (ei (esub (p i) (p' i)) c = 0) as Hc by (rewrite He; apply ein_e0_l).
    rewrite ein_sub_l in Hc. lra.
  Qed.
End L1.
