(* proofs/Block2D3D.v — the 2-D and 3-D numba block kernels, as GENERATED from sigpy/block.py,
   compute the documented closed forms (batch axis + 2 / 3 block dimensions):
     _blocks_to_array2 : out[b,iy,ix] += sum_{ny<Ny, nx<Nx, by<By, bx<Bx, ny*Sy+by = iy, nx*Sx+bx = ix} in[b,ny,nx,by,bx]
                         (b2a2_contrib / b2a2_exec), nothing written outside the output box (b2a2_frame)
     _array_to_blocks2 : out[b,ny,nx,by,bx] = in[b, ny*Sy+by, nx*Sx+bx] when inside the array, untouched otherwise
                         (a2b2_exec, a2b2_frame; a2b2_exec_num_blks: never outside for the advertised block counts)
   the 3-D analogues (b2a3_..., a2b3_...), and agreement with the N-dimensional closed forms a2b_spec / b2a_spec of
   model/Block.v at 2 and 3 block dimensions (..._matches_spec).
   The per-axis work is done once (strided_axis + the tactics collapse / axis); 2-D and 3-D only repeat it. *)
From Coq Require Import ZArith List Lia Bool Ring.
From SV Require Import lib.Scalar lib.BigSum lib.LoopIR lib.NdArray gen.Gen_block proofs.SumTools proofs.Block.
Import ListNotations.
Local Open Scope Z_scope.

(* ---- tactics shared by the block and interpolation proofs ---- *)

(* every remaining term of a nest of sums / guards vanishes because its target differs from o *)
Ltac kill0 :=
  repeat first
    [ reflexivity
    | apply sumL_none; intros ? _
    | match goal with
      | |- (if idx_eqb ?a ?o then _ else _) = _ =>
          let E := fresh "E" in
          destruct (idx_eqb a o) eqn:E; [apply idx_eqb_spec in E; exfalso; congruence|]
      | |- (if ?c then _ else _) = _ => destruct c
      end ].

(* collapse the unit-stride loop `for v in range(0, n)` onto the single iteration v = w that can hit the target *)
Ltac collapse n w Hw :=
  rewrite (sumL_single _ (zrange 0 n 1) w);
    [ | apply zrange_nodup | apply zrange0_in; exact Hw | intros ? _ ?; kill0 ].

(* every remaining write of a nest of loops / guards misses the target o *)
Ltac killN :=
  repeat first
    [ reflexivity
    | apply lastL_none; intros ? _
    | match goal with
      | |- (if idx_eqb ?a ?o then _ else _) = _ =>
          let E := fresh "E" in
          destruct (idx_eqb a o) eqn:E; [apply idx_eqb_spec in E; exfalso; congruence|]
      | |- (if ?c then _ else _) = _ => destruct c
      end ].

Ltac collapseN n w Hw :=
  rewrite (lastL_single _ (zrange 0 n 1) w);
    [ | apply zrange_nodup | apply zrange0_in; exact Hw | intros ? _ ?; killN ].

Section B.
  Variable R : StarRing.
  Add Ring Rring5 : (SRth R).
  Local Open Scope sr_scope.

  (* ---- one block axis -------------------------------------------------------
     `for bx in range(i mod S, B, S): n = (i - bx) // S; if 0 <= n < N: body(n, bx)`
     enumerates exactly the pairs (n, bx) in [0,N) x [0,B) with n*S + bx = i. *)
  Lemma strided_axis S B N i (g : Z -> Z -> R) : (0 < S)%Z ->
    sumL (zrange (i mod S) B S)
         (fun bx => if ((i - bx) / S >=? 0)%Z && ((i - bx) / S <? N)%Z then g ((i - bx) / S)%Z bx else 0) =
    sumZ N (fun n => sumZ B (fun bx => if (n * S + bx =? i)%Z then g n bx else 0)).
  Proof.
    intros HS. rewrite sumL_zrange_filter by (try apply Z.mod_pos_bound; lia).
    rewrite sumZ_exchange. apply sumZ_ext. intros bx Hbx.
    rewrite stride_filter_equiv by lia.
    rewrite sumZ_affine_single by exact HS.
    destruct ((i - bx) mod S =? 0)%Z; cbn [andb]; [|reflexivity].
    rewrite Z.geb_leb. reflexivity.
  Qed.

  (* the same, for a loop body given as an arbitrary function that is extensionally of that shape *)
  Lemma strided_axis_ext S B N i (f : Z -> R) (g : Z -> Z -> R) : (0 < S)%Z ->
    (forall bx, f bx = if ((i - bx) / S >=? 0)%Z && ((i - bx) / S <? N)%Z then g ((i - bx) / S)%Z bx else 0) ->
    sumL (zrange (i mod S) B S) f =
    sumZ N (fun n => sumZ B (fun bx => if (n * S + bx =? i)%Z then g n bx else 0)).
  Proof.
    intros HS Hf. rewrite <- strided_axis by exact HS. apply sumL_ext. intros bx _. apply Hf.
  Qed.

  (* guards commute with sums *)
  Lemma sumL_if (c : bool) l (f : Z -> R) :
    sumL l (fun v => if c then f v else 0) = if c then sumL l f else 0.
  Proof. destruct c; [reflexivity| apply sumL_zero]. Qed.

  Lemma sumZ_if (c : bool) n (f : Z -> R) :
    sumZ n (fun v => if c then f v else 0) = if c then sumZ n f else 0.
  Proof. destruct c; [reflexivity| apply sumZ_zero]. Qed.

  Lemma if_and (c d : bool) (x : R) : (if c then if d then x else 0 else 0) = if c && d then x else 0.
  Proof. destruct c, d; reflexivity. Qed.

  Lemma idx4_eqb a b c d a' b' c' d' :
    idx_eqb [a; b; c; d] [a'; b'; c'; d'] = (a =? a')%Z && ((b =? b')%Z && ((c =? c')%Z && (d =? d')%Z)).
  Proof. simpl. rewrite andb_true_r. reflexivity. Qed.

  (* rewrite the strided loop over axis (S, B, N, i) into the documented guarded double sum;
     the loop body is abstracted over its (n, bx) = ((i - bx) / S, bx) automatically *)
  Ltac axis S B N i HS :=
    match goal with
    | |- context [sumL (zrange (i mod S) B S) ?f] =>
        erewrite (strided_axis_ext S B N i f); [ | exact HS |
          let bx := fresh "bx" in
          intros bx; cbv beta;
          match goal with
          | |- (if ?c then ?t else ?z) = ?rhs =>
              let t1 := eval pattern ((i - bx) / S)%Z in t in
              match t1 with
              | ?F _ =>
                  let t2 := eval pattern bx in F in
                  match t2 with
                  | ?G _ =>
                      match rhs with
                      | (if _ then ?gg _ _ else _) => unify gg (fun n b' : Z => G b' n); cbv beta; reflexivity
                      end
                  end
              end
          end ]
    end.

  (* ======================= blocks_to_array, 2-D ============================== *)

  Theorem b2a2_contrib input ish osh batch Bx By Sx Sy Nx Ny Nyo Nxo b iy ix :
    (0 < Sx)%Z -> (0 < Sy)%Z -> shape_at osh (-2) = Nyo -> shape_at osh (-1) = Nxo ->
    (0 <= b < batch)%Z -> (0 <= iy < Nyo)%Z -> (0 <= ix < Nxo)%Z ->
    contrib (k_blocks_to_array2 R input ish osh batch Bx By Sx Sy Nx Ny) [] [b; iy; ix] =
    sumZ Ny (fun ny => sumZ Nx (fun nx => sumZ By (fun by_ => sumZ Bx (fun bx =>
      if (ny * Sy + by_ =? iy)%Z && (nx * Sx + bx =? ix)%Z then input [b; ny; nx; by_; bx] else 0)))).
  Proof.
    intros HSx HSy Hy Hx Hb Hiy Hix. unfold k_blocks_to_array2. cbn [contrib var nth]. rewrite Hy, Hx.
    collapse batch b Hb. collapse Nyo iy Hiy. collapse Nxo ix Hix.
    axis Sy By Ny iy HSy.
    apply sumZ_ext. intros ny _.
    rewrite (sumZ_ext R By _ (fun by_ => sumZ Nx (fun nx => sumZ Bx (fun bx =>
               if (ny * Sy + by_ =? iy)%Z && (nx * Sx + bx =? ix)%Z then input [b; ny; nx; by_; bx] else 0)))).
    { apply sumZ_exchange. }
    intros by_ _. axis Sx Bx Nx ix HSx.
    rewrite <- sumZ_if. apply sumZ_ext. intros nx _.
    rewrite <- sumZ_if. apply sumZ_ext. intros bx _.
    rewrite idx_eqb_refl. apply if_and.
  Qed.

  Theorem b2a2_exec input ish osh batch Bx By Sx Sy Nx Ny Nyo Nxo out b iy ix :
    (0 < Sx)%Z -> (0 < Sy)%Z -> shape_at osh (-2) = Nyo -> shape_at osh (-1) = Nxo ->
    (0 <= b < batch)%Z -> (0 <= iy < Nyo)%Z -> (0 <= ix < Nxo)%Z ->
    exec (k_blocks_to_array2 R input ish osh batch Bx By Sx Sy Nx Ny) [] out [b; iy; ix] =
    out [b; iy; ix] +
    sumZ Ny (fun ny => sumZ Nx (fun nx => sumZ By (fun by_ => sumZ Bx (fun bx =>
      if (ny * Sy + by_ =? iy)%Z && (nx * Sx + bx =? ix)%Z then input [b; ny; nx; by_; bx] else 0)))).
  Proof.
    intros. rewrite exec_is_sum by reflexivity. f_equal. eapply b2a2_contrib; eassumption.
  Qed.

  (* nothing is written outside the [batch] x [Nyo] x [Nxo] box (no hypothesis on the strides) *)
  Theorem b2a2_frame input ish osh batch Bx By Sx Sy Nx Ny out o :
    (forall b iy ix, (0 <= b < batch)%Z -> (0 <= iy < shape_at osh (-2))%Z -> (0 <= ix < shape_at osh (-1))%Z ->
                     o <> [b; iy; ix]) ->
    exec (k_blocks_to_array2 R input ish osh batch Bx By Sx Sy Nx Ny) [] out o = out o.
  Proof.
    intros Hout. rewrite exec_is_sum by reflexivity.
    unfold k_blocks_to_array2. cbn [contrib var nth].
    rewrite sumL_none; [ring|]. intros b Hb. apply sumL_none. intros iy Hiy. apply sumL_none. intros ix Hix.
    apply zrange0_in in Hb. apply zrange0_in in Hiy. apply zrange0_in in Hix.
    specialize (Hout b iy ix Hb Hiy Hix). kill0.
  Qed.

  (* ======================= blocks_to_array, 3-D ============================== *)
  (* the 3-D kernel hoists nothing: all three strided loops are nested and one combined guard
     sits in the innermost body; split the guard per axis, then repeat the 2-D argument *)

  Theorem b2a3_contrib input ish osh batch Bx By Bz Sx Sy Sz Nx Ny Nz Nzo Nyo Nxo b iz iy ix :
    (0 < Sx)%Z -> (0 < Sy)%Z -> (0 < Sz)%Z ->
    shape_at osh (-3) = Nzo -> shape_at osh (-2) = Nyo -> shape_at osh (-1) = Nxo ->
    (0 <= b < batch)%Z -> (0 <= iz < Nzo)%Z -> (0 <= iy < Nyo)%Z -> (0 <= ix < Nxo)%Z ->
    contrib (k_blocks_to_array3 R input ish osh batch Bx By Bz Sx Sy Sz Nx Ny Nz) [] [b; iz; iy; ix] =
    sumZ Nz (fun nz => sumZ Ny (fun ny => sumZ Nx (fun nx =>
      sumZ Bz (fun bz => sumZ By (fun by_ => sumZ Bx (fun bx =>
        if (nz * Sz + bz =? iz)%Z && (ny * Sy + by_ =? iy)%Z && (nx * Sx + bx =? ix)%Z
        then input [b; nz; ny; nx; bz; by_; bx] else 0)))))).
  Proof.
    intros HSx HSy HSz Hz Hy Hx Hb Hiz Hiy Hix. unfold k_blocks_to_array3. cbn [contrib var nth]. rewrite Hz, Hy, Hx.
    collapse batch b Hb. collapse Nzo iz Hiz. collapse Nyo iy Hiy. collapse Nxo ix Hix.
    (* split the combined guard into one guard per loop level *)
    transitivity
      (sumL (zrange (iz mod Sz) Bz Sz) (fun bz =>
         if ((iz - bz) / Sz >=? 0)%Z && ((iz - bz) / Sz <? Nz)%Z then
           sumL (zrange (iy mod Sy) By Sy) (fun by_ =>
             if ((iy - by_) / Sy >=? 0)%Z && ((iy - by_) / Sy <? Ny)%Z then
               sumL (zrange (ix mod Sx) Bx Sx) (fun bx =>
                 if ((ix - bx) / Sx >=? 0)%Z && ((ix - bx) / Sx <? Nx)%Z then
                   input [b; (iz - bz) / Sz; (iy - by_) / Sy; (ix - bx) / Sx; bz; by_; bx]%Z
                 else 0)
             else 0)
         else 0)).
    { apply sumL_ext. intros bz _. rewrite <- sumL_if. apply sumL_ext. intros by_ _.
      rewrite <- sumL_if. rewrite <- sumL_if. apply sumL_ext. intros bx _.
      rewrite idx_eqb_refl.
      destruct ((iz - bz) / Sz >=? 0)%Z, ((iz - bz) / Sz <? Nz)%Z, ((iy - by_) / Sy >=? 0)%Z, ((iy - by_) / Sy <? Ny)%Z,
               ((ix - bx) / Sx >=? 0)%Z, ((ix - bx) / Sx <? Nx)%Z; reflexivity. }
    axis Sz Bz Nz iz HSz.
    apply sumZ_ext. intros nz _.
    (* bring the bz sum to the front of the documented sum *)
    transitivity (sumZ Bz (fun bz => sumZ Ny (fun ny => sumZ Nx (fun nx => sumZ By (fun by_ => sumZ Bx (fun bx =>
        if (nz * Sz + bz =? iz)%Z && (ny * Sy + by_ =? iy)%Z && (nx * Sx + bx =? ix)%Z
        then input [b; nz; ny; nx; bz; by_; bx] else 0)))))).
    2:{ rewrite sumZ_exchange. apply sumZ_ext. intros ny _. apply sumZ_exchange. }
    apply sumZ_ext. intros bz _.
    axis Sy By Ny iy HSy.
    rewrite <- sumZ_if. apply sumZ_ext. intros ny _.
    rewrite (sumZ_exchange R Nx By).
    rewrite <- sumZ_if. apply sumZ_ext. intros by_ _.
    axis Sx Bx Nx ix HSx.
    rewrite <- sumZ_if, <- sumZ_if. apply sumZ_ext. intros nx _.
    rewrite <- sumZ_if, <- sumZ_if. apply sumZ_ext. intros bx _.
    destruct (nz * Sz + bz =? iz)%Z, (ny * Sy + by_ =? iy)%Z, (nx * Sx + bx =? ix)%Z; reflexivity.
  Qed.

  Theorem b2a3_exec input ish osh batch Bx By Bz Sx Sy Sz Nx Ny Nz Nzo Nyo Nxo out b iz iy ix :
    (0 < Sx)%Z -> (0 < Sy)%Z -> (0 < Sz)%Z ->
    shape_at osh (-3) = Nzo -> shape_at osh (-2) = Nyo -> shape_at osh (-1) = Nxo ->
    (0 <= b < batch)%Z -> (0 <= iz < Nzo)%Z -> (0 <= iy < Nyo)%Z -> (0 <= ix < Nxo)%Z ->
    exec (k_blocks_to_array3 R input ish osh batch Bx By Bz Sx Sy Sz Nx Ny Nz) [] out [b; iz; iy; ix] =
    out [b; iz; iy; ix] +
    sumZ Nz (fun nz => sumZ Ny (fun ny => sumZ Nx (fun nx =>
      sumZ Bz (fun bz => sumZ By (fun by_ => sumZ Bx (fun bx =>
        if (nz * Sz + bz =? iz)%Z && (ny * Sy + by_ =? iy)%Z && (nx * Sx + bx =? ix)%Z
        then input [b; nz; ny; nx; bz; by_; bx] else 0)))))).
  Proof.
    intros. rewrite exec_is_sum by reflexivity. f_equal. eapply b2a3_contrib; eassumption.
  Qed.

  Theorem b2a3_frame input ish osh batch Bx By Bz Sx Sy Sz Nx Ny Nz out o :
    (forall b iz iy ix, (0 <= b < batch)%Z -> (0 <= iz < shape_at osh (-3))%Z -> (0 <= iy < shape_at osh (-2))%Z ->
                        (0 <= ix < shape_at osh (-1))%Z -> o <> [b; iz; iy; ix]) ->
    exec (k_blocks_to_array3 R input ish osh batch Bx By Bz Sx Sy Sz Nx Ny Nz) [] out o = out o.
  Proof.
    intros Hout. rewrite exec_is_sum by reflexivity.
    unfold k_blocks_to_array3. cbn [contrib var nth].
    rewrite sumL_none; [ring|]. intros b Hb. apply sumL_none. intros iz Hiz.
    apply sumL_none. intros iy Hiy. apply sumL_none. intros ix Hix.
    apply zrange0_in in Hb. apply zrange0_in in Hiz. apply zrange0_in in Hiy. apply zrange0_in in Hix.
    specialize (Hout b iz iy ix Hb Hiz Hiy Hix). kill0.
  Qed.
End B.

(* ======================= array_to_blocks, 2-D and 3-D ========================= *)
Section A.
  Variable R : Ops.

  Theorem a2b2_exec input ish osh batch Bx By Sx Sy Nx Ny Nyi Nxi out b ny nx by_ bx :
    shape_at ish (-2) = Nyi -> shape_at ish (-1) = Nxi ->
    (0 <= b < batch)%Z -> (0 <= ny < Ny)%Z -> (0 <= nx < Nx)%Z -> (0 <= by_ < By)%Z -> (0 <= bx < Bx)%Z ->
    exec (k_array_to_blocks2 R input ish osh batch Bx By Sx Sy Nx Ny) [] out [b; ny; nx; by_; bx] =
    if (nx * Sx + bx <? Nxi)%Z && (ny * Sy + by_ <? Nyi)%Z
    then input [b; ny * Sy + by_; nx * Sx + bx]%Z else out [b; ny; nx; by_; bx].
  Proof.
    intros Hy Hx Hb Hny Hnx Hby Hbx. rewrite exec_last by reflexivity.
    unfold k_array_to_blocks2. cbn [lastw var nth]. rewrite Hy, Hx.
    collapseN batch b Hb. collapseN Ny ny Hny. collapseN Nx nx Hnx. collapseN By by_ Hby. collapseN Bx bx Hbx.
    rewrite idx_eqb_refl. destruct (_ && _); reflexivity.
  Qed.

  Theorem a2b3_exec input ish osh batch Bx By Bz Sx Sy Sz Nx Ny Nz Nzi Nyi Nxi out b nz ny nx bz by_ bx :
    shape_at ish (-3) = Nzi -> shape_at ish (-2) = Nyi -> shape_at ish (-1) = Nxi ->
    (0 <= b < batch)%Z -> (0 <= nz < Nz)%Z -> (0 <= ny < Ny)%Z -> (0 <= nx < Nx)%Z ->
    (0 <= bz < Bz)%Z -> (0 <= by_ < By)%Z -> (0 <= bx < Bx)%Z ->
    exec (k_array_to_blocks3 R input ish osh batch Bx By Bz Sx Sy Sz Nx Ny Nz) [] out [b; nz; ny; nx; bz; by_; bx] =
    if (nx * Sx + bx <? Nxi)%Z && (ny * Sy + by_ <? Nyi)%Z && (nz * Sz + bz <? Nzi)%Z
    then input [b; nz * Sz + bz; ny * Sy + by_; nx * Sx + bx]%Z else out [b; nz; ny; nx; bz; by_; bx].
  Proof.
    intros Hz Hy Hx Hb Hnz Hny Hnx Hbz Hby Hbx. rewrite exec_last by reflexivity.
    unfold k_array_to_blocks3. cbn [lastw var nth]. rewrite Hz, Hy, Hx.
    collapseN batch b Hb. collapseN Nz nz Hnz. collapseN Ny ny Hny. collapseN Nx nx Hnx.
    collapseN Bz bz Hbz. collapseN By by_ Hby. collapseN Bx bx Hbx.
    rewrite idx_eqb_refl. destruct (_ && _); reflexivity.
  Qed.

  (* nothing outside the [batch] x N.. x B.. box is written *)
  Theorem a2b2_frame input ish osh batch Bx By Sx Sy Nx Ny out o :
    (forall b ny nx by_ bx, (0 <= b < batch)%Z -> (0 <= ny < Ny)%Z -> (0 <= nx < Nx)%Z ->
                            (0 <= by_ < By)%Z -> (0 <= bx < Bx)%Z -> o <> [b; ny; nx; by_; bx]) ->
    exec (k_array_to_blocks2 R input ish osh batch Bx By Sx Sy Nx Ny) [] out o = out o.
  Proof.
    intros Hout. rewrite exec_last by reflexivity.
    unfold k_array_to_blocks2. cbn [lastw var nth].
    rewrite lastL_none; [reflexivity|]. intros b Hb. apply lastL_none. intros ny Hny. apply lastL_none. intros nx Hnx.
    apply lastL_none. intros by_ Hby. apply lastL_none. intros bx Hbx.
    apply zrange0_in in Hb. apply zrange0_in in Hny. apply zrange0_in in Hnx. apply zrange0_in in Hby. apply zrange0_in in Hbx.
    specialize (Hout b ny nx by_ bx Hb Hny Hnx Hby Hbx). killN.
  Qed.

  Theorem a2b3_frame input ish osh batch Bx By Bz Sx Sy Sz Nx Ny Nz out o :
    (forall b nz ny nx bz by_ bx, (0 <= b < batch)%Z -> (0 <= nz < Nz)%Z -> (0 <= ny < Ny)%Z -> (0 <= nx < Nx)%Z ->
                            (0 <= bz < Bz)%Z -> (0 <= by_ < By)%Z -> (0 <= bx < Bx)%Z -> o <> [b; nz; ny; nx; bz; by_; bx]) ->
    exec (k_array_to_blocks3 R input ish osh batch Bx By Bz Sx Sy Sz Nx Ny Nz) [] out o = out o.
  Proof.
    intros Hout. rewrite exec_last by reflexivity.
    unfold k_array_to_blocks3. cbn [lastw var nth].
    rewrite lastL_none; [reflexivity|]. intros b Hb. apply lastL_none. intros nz Hnz. apply lastL_none. intros ny Hny.
    apply lastL_none. intros nx Hnx. apply lastL_none. intros bz Hbz. apply lastL_none. intros by_ Hby.
    apply lastL_none. intros bx Hbx.
    apply zrange0_in in Hb. apply zrange0_in in Hnz. apply zrange0_in in Hny. apply zrange0_in in Hnx.
    apply zrange0_in in Hbz. apply zrange0_in in Hby. apply zrange0_in in Hbx.
    specialize (Hout b nz ny nx bz by_ bx Hb Hnz Hny Hnx Hbz Hby Hbx). killN.
  Qed.
End A.

(* ======== the kernels against the documented N-dimensional closed forms of model/Block.v ========
   (a2b_spec / b2a_spec instantiated at 2 and 3 block dimensions, one flattened batch axis) *)
From SV Require Import model.Block.

Section SpecA.
  Variable R : Ops.

  Theorem a2b2_matches_spec input osh batch Bx By Sx Sy Nx Ny Nyi Nxi b ny nx by_ bx :
    (0 <= Sx)%Z -> (0 <= Sy)%Z ->
    (0 <= b < batch)%Z -> (0 <= ny < Ny)%Z -> (0 <= nx < Nx)%Z -> (0 <= by_ < By)%Z -> (0 <= bx < Bx)%Z ->
    exec (k_array_to_blocks2 R input [batch; Nyi; Nxi] osh batch Bx By Sx Sy Nx Ny) [] (fun _ => zero) [b; ny; nx; by_; bx] =
    a2b_spec [batch; Nyi; Nxi] [By; Bx] [Sy; Sx] input [b; ny; nx; by_; bx].
  Proof.
    intros HSx HSy Hb Hny Hnx Hby Hbx.
    rewrite (a2b2_exec R input [batch; Nyi; Nxi] osh batch Bx By Sx Sy Nx Ny Nyi Nxi) by (try reflexivity; assumption).
    unfold a2b_spec, in_range. cbn [length Nat.sub firstn skipn zip3 lastn combine forallb fst snd app].
    assert (H1 : (0 <=? ny * Sy + by_)%Z = true) by (apply Z.leb_le; nia).
    assert (H2 : (0 <=? nx * Sx + bx)%Z = true) by (apply Z.leb_le; nia).
    rewrite H1, H2. cbn [andb]. rewrite andb_true_r, andb_comm. reflexivity.
  Qed.

  Theorem a2b3_matches_spec input osh batch Bx By Bz Sx Sy Sz Nx Ny Nz Nzi Nyi Nxi b nz ny nx bz by_ bx :
    (0 <= Sx)%Z -> (0 <= Sy)%Z -> (0 <= Sz)%Z ->
    (0 <= b < batch)%Z -> (0 <= nz < Nz)%Z -> (0 <= ny < Ny)%Z -> (0 <= nx < Nx)%Z ->
    (0 <= bz < Bz)%Z -> (0 <= by_ < By)%Z -> (0 <= bx < Bx)%Z ->
    exec (k_array_to_blocks3 R input [batch; Nzi; Nyi; Nxi] osh batch Bx By Bz Sx Sy Sz Nx Ny Nz) [] (fun _ => zero)
         [b; nz; ny; nx; bz; by_; bx] =
    a2b_spec [batch; Nzi; Nyi; Nxi] [Bz; By; Bx] [Sz; Sy; Sx] input [b; nz; ny; nx; bz; by_; bx].
  Proof.
    intros HSx HSy HSz Hb Hnz Hny Hnx Hbz Hby Hbx.
    rewrite (a2b3_exec R input [batch; Nzi; Nyi; Nxi] osh batch Bx By Bz Sx Sy Sz Nx Ny Nz Nzi Nyi Nxi)
      by (try reflexivity; assumption).
    unfold a2b_spec, in_range. cbn [length Nat.sub firstn skipn zip3 lastn combine forallb fst snd app].
    assert (H1 : (0 <=? nz * Sz + bz)%Z = true) by (apply Z.leb_le; nia).
    assert (H2 : (0 <=? ny * Sy + by_)%Z = true) by (apply Z.leb_le; nia).
    assert (H3 : (0 <=? nx * Sx + bx)%Z = true) by (apply Z.leb_le; nia).
    rewrite H1, H2, H3. cbn [andb]. rewrite andb_true_r.
    destruct (nx * Sx + bx <? Nxi)%Z, (ny * Sy + by_ <? Nyi)%Z, (nz * Sz + bz <? Nzi)%Z; reflexivity.
  Qed.

  (* with the advertised block counts num_blks = (len - B + S) / S the window never leaves the array *)
  Theorem a2b2_exec_num_blks input ish osh batch Bx By Sx Sy Nyi Nxi out b ny nx by_ bx :
    (0 < Sx)%Z -> (0 < Sy)%Z -> shape_at ish (-2) = Nyi -> shape_at ish (-1) = Nxi ->
    (0 <= b < batch)%Z -> (0 <= ny < (Nyi - By + Sy) / Sy)%Z -> (0 <= nx < (Nxi - Bx + Sx) / Sx)%Z ->
    (0 <= by_ < By)%Z -> (0 <= bx < Bx)%Z ->
    exec (k_array_to_blocks2 R input ish osh batch Bx By Sx Sy ((Nxi - Bx + Sx) / Sx) ((Nyi - By + Sy) / Sy)) [] out
         [b; ny; nx; by_; bx] = input [b; ny * Sy + by_; nx * Sx + bx]%Z.
  Proof.
    intros HSx HSy Hy Hx Hb Hny Hnx Hby Hbx.
    rewrite (a2b2_exec R input ish osh batch Bx By Sx Sy _ _ Nyi Nxi) by assumption.
    pose proof (a2b_in_bounds Nyi By Sy ny by_ HSy Hny Hby) as Iy.
    pose proof (a2b_in_bounds Nxi Bx Sx nx bx HSx Hnx Hbx) as Ix.
    apply Z.ltb_lt in Iy. apply Z.ltb_lt in Ix. rewrite Iy, Ix. reflexivity.
  Qed.

  Theorem a2b3_exec_num_blks input ish osh batch Bx By Bz Sx Sy Sz Nzi Nyi Nxi out b nz ny nx bz by_ bx :
    (0 < Sx)%Z -> (0 < Sy)%Z -> (0 < Sz)%Z ->
    shape_at ish (-3) = Nzi -> shape_at ish (-2) = Nyi -> shape_at ish (-1) = Nxi ->
    (0 <= b < batch)%Z ->
    (0 <= nz < (Nzi - Bz + Sz) / Sz)%Z -> (0 <= ny < (Nyi - By + Sy) / Sy)%Z -> (0 <= nx < (Nxi - Bx + Sx) / Sx)%Z ->
    (0 <= bz < Bz)%Z -> (0 <= by_ < By)%Z -> (0 <= bx < Bx)%Z ->
    exec (k_array_to_blocks3 R input ish osh batch Bx By Bz Sx Sy Sz
            ((Nxi - Bx + Sx) / Sx) ((Nyi - By + Sy) / Sy) ((Nzi - Bz + Sz) / Sz)) [] out
         [b; nz; ny; nx; bz; by_; bx] = input [b; nz * Sz + bz; ny * Sy + by_; nx * Sx + bx]%Z.
  Proof.
    intros HSx HSy HSz Hz Hy Hx Hb Hnz Hny Hnx Hbz Hby Hbx.
    rewrite (a2b3_exec R input ish osh batch Bx By Bz Sx Sy Sz _ _ _ Nzi Nyi Nxi) by assumption.
    pose proof (a2b_in_bounds Nzi Bz Sz nz bz HSz Hnz Hbz) as Iz.
    pose proof (a2b_in_bounds Nyi By Sy ny by_ HSy Hny Hby) as Iy.
    pose proof (a2b_in_bounds Nxi Bx Sx nx bx HSx Hnx Hbx) as Ix.
    apply Z.ltb_lt in Iz. apply Z.ltb_lt in Iy. apply Z.ltb_lt in Ix. rewrite Iz, Iy, Ix. reflexivity.
  Qed.
End SpecA.

Section SpecB.
  Variable R : StarRing.
  Add Ring Rring6 : (SRth R).
  Local Open Scope sr_scope.

  Theorem b2a2_matches_spec input ish batch Bx By Sx Sy Nx Ny Nyo Nxo b iy ix :
    (0 < Sx)%Z -> (0 < Sy)%Z -> (0 <= b < batch)%Z -> (0 <= iy < Nyo)%Z -> (0 <= ix < Nxo)%Z ->
    exec (k_blocks_to_array2 R input ish [batch; Nyo; Nxo] batch Bx By Sx Sy Nx Ny) [] (fun _ => 0) [b; iy; ix] =
    b2a_spec [Ny; Nx] [batch; Nyo; Nxo] [By; Bx] [Sy; Sx] input [b; iy; ix].
  Proof.
    intros HSx HSy Hb Hiy Hix.
    rewrite (b2a2_exec R input ish [batch; Nyo; Nxo] batch Bx By Sx Sy Nx Ny Nyo Nxo) by (try reflexivity; assumption).
    unfold b2a_spec. cbn [length Nat.sub firstn skipn sumBox zip3 app].
    rewrite (Radd_0_l (SRth R)).
    rewrite sumL_range0. apply sumZ_ext. intros ny _.
    rewrite sumL_range0. apply sumZ_ext. intros nx _.
    rewrite sumL_range0. apply sumZ_ext. intros by_ _.
    rewrite sumL_range0. apply sumZ_ext. intros bx _.
    unfold zlist_eqb. cbn [list_eqb]. rewrite andb_true_r. reflexivity.
  Qed.

  Theorem b2a3_matches_spec input ish batch Bx By Bz Sx Sy Sz Nx Ny Nz Nzo Nyo Nxo b iz iy ix :
    (0 < Sx)%Z -> (0 < Sy)%Z -> (0 < Sz)%Z ->
    (0 <= b < batch)%Z -> (0 <= iz < Nzo)%Z -> (0 <= iy < Nyo)%Z -> (0 <= ix < Nxo)%Z ->
    exec (k_blocks_to_array3 R input ish [batch; Nzo; Nyo; Nxo] batch Bx By Bz Sx Sy Sz Nx Ny Nz) [] (fun _ => 0)
         [b; iz; iy; ix] =
    b2a_spec [Nz; Ny; Nx] [batch; Nzo; Nyo; Nxo] [Bz; By; Bx] [Sz; Sy; Sx] input [b; iz; iy; ix].
  Proof.
    intros HSx HSy HSz Hb Hiz Hiy Hix.
    rewrite (b2a3_exec R input ish [batch; Nzo; Nyo; Nxo] batch Bx By Bz Sx Sy Sz Nx Ny Nz Nzo Nyo Nxo)
      by (try reflexivity; assumption).
    unfold b2a_spec. cbn [length Nat.sub firstn skipn sumBox zip3 app].
    rewrite (Radd_0_l (SRth R)).
    rewrite sumL_range0. apply sumZ_ext. intros nz _.
    rewrite sumL_range0. apply sumZ_ext. intros ny _.
    rewrite sumL_range0. apply sumZ_ext. intros nx _.
    rewrite sumL_range0. apply sumZ_ext. intros bz _.
    rewrite sumL_range0. apply sumZ_ext. intros by_ _.
    rewrite sumL_range0. apply sumZ_ext. intros bx _.
    unfold zlist_eqb. cbn [list_eqb]. rewrite andb_true_r, andb_assoc. reflexivity.
  Qed.
End SpecB.

(* ---- non-vacuity: the hypotheses are satisfiable and the GENERATED kernels compute on concrete data ---- *)
Section Examples.
  Let inp2 : list Z -> Z := of_list 0%Z [1; 2; 2; 2; 2] [1; 2; 3; 4; 5; 6; 7; 8; 9; 10; 11; 12; 13; 14; 15; 16].
  Let arr2 : list Z -> Z := of_list 0%Z [1; 3; 3] [1; 2; 3; 4; 5; 6; 7; 8; 9].

  (* 2 x 2 blocks of size 2 x 2 with stride 1 onto a 3 x 3 array: overlaps add (centre gets 4 terms) *)
  Example b2a2_example :
    tabulate [1; 3; 3] (exec (k_blocks_to_array2 ZOps inp2 [1; 2; 2; 2; 2] [1; 3; 3] 1 2 2 1 1 2 2) [] (fun _ => 0))
    = [1; 7; 6; 12; 34; 22; 11; 27; 16].
  Proof. vm_compute. reflexivity. Qed.

  (* the theorem instantiated at the centre element: 6 + 7 + 10 + 11 = 34 *)
  Example b2a2_exec_instance :
    exec (k_blocks_to_array2 ZRing inp2 [1; 2; 2; 2; 2] [1; 3; 3] 1 2 2 1 1 2 2) [] (fun _ => 0) [0; 1; 1] =
    sumZ (R:=ZRing) 2 (fun ny => sumZ (R:=ZRing) 2 (fun nx => sumZ (R:=ZRing) 2 (fun by_ => sumZ (R:=ZRing) 2 (fun bx =>
      if (ny * 1 + by_ =? 1) && (nx * 1 + bx =? 1) then inp2 [0; ny; nx; by_; bx] else 0)))).
  Proof.
    rewrite (b2a2_exec ZRing inp2 [1; 2; 2; 2; 2] [1; 3; 3] 1 2 2 1 1 2 2 3 3) by (reflexivity || lia).
    reflexivity.
  Qed.

  Example a2b2_example :
    tabulate [1; 2; 2; 2; 2] (exec (k_array_to_blocks2 ZOps arr2 [1; 3; 3] [1; 2; 2; 2; 2] 1 2 2 1 1 2 2) [] (fun _ => 0))
    = [1; 2; 4; 5; 2; 3; 5; 6; 4; 5; 7; 8; 5; 6; 8; 9].
  Proof. vm_compute. reflexivity. Qed.

  Example a2b2_exec_instance :
    exec (k_array_to_blocks2 ZOps arr2 [1; 3; 3] [1; 2; 2; 2; 2] 1 2 2 1 1 ((3 - 2 + 1) / 1) ((3 - 2 + 1) / 1)) []
         (fun _ => 0) [0; 1; 0; 1; 1] = arr2 [0; 1 * 1 + 1; 0 * 1 + 1].
  Proof.
    apply (a2b2_exec_num_blks ZOps arr2 [1; 3; 3] [1; 2; 2; 2; 2] 1 2 2 1 1 3 3); rewrite ?Z.div_1_r; (reflexivity || lia).
  Qed.

  Let inp3 : list Z -> Z := of_list 0%Z [1; 2; 2; 2; 2; 2; 2]
    (map Z.of_nat (seq 1 64)).
  Example b2a3_exec_instance :
    exec (k_blocks_to_array3 ZRing inp3 [1; 2; 2; 2; 2; 2; 2] [1; 3; 3; 3] 1 2 2 2 1 1 1 2 2 2) [] (fun _ => 0) [0; 1; 1; 1] =
    sumZ (R:=ZRing) 2 (fun nz => sumZ (R:=ZRing) 2 (fun ny => sumZ (R:=ZRing) 2 (fun nx =>
      sumZ (R:=ZRing) 2 (fun bz => sumZ (R:=ZRing) 2 (fun by_ => sumZ (R:=ZRing) 2 (fun bx =>
        if (nz * 1 + bz =? 1) && (ny * 1 + by_ =? 1) && (nx * 1 + bx =? 1)
        then inp3 [0; nz; ny; nx; bz; by_; bx] else 0)))))).
  Proof.
    rewrite (b2a3_exec ZRing inp3 [1; 2; 2; 2; 2; 2; 2] [1; 3; 3; 3] 1 2 2 2 1 1 1 2 2 2 3 3 3) by (reflexivity || lia).
    reflexivity.
  Qed.

  (* all eight blocks overlap at the centre of the 3 x 3 x 3 array *)
  Example b2a3_example :
    exec (k_blocks_to_array3 ZOps inp3 [1; 2; 2; 2; 2; 2; 2] [1; 3; 3; 3] 1 2 2 2 1 1 1 2 2 2) [] (fun _ => 0) [0; 1; 1; 1]
    = (8 + 15 + 22 + 29 + 36 + 43 + 50 + 57)%Z.
  Proof. vm_compute. reflexivity. Qed.
End Examples.
