(* LinopScale.v — the scalar multiplication leaf Multiply(ishape, a) (what `a * A`, `A * a`, `-A` are built from)
   and the composite R * S * M returned by its _adjoint_linop form an adjoint pair. *)
From Coq Require Import ZArith List Lia Bool Ring.
From SV Require Import lib.Scalar lib.BigSum lib.LoopIR lib.NdArray lib.Gather model.Rearrange model.Block model.Linop
  proofs.LinopTheory proofs.LinopLeaves.
Import ListNotations.
Local Open Scope Z_scope.

Lemma repeat_ones_max i : Forall (fun n => 0 < n) i ->
  map (fun p => Z.max (fst p) (snd p)) (combine i (repeat 1 (length i))) = i.
Proof. induction 1 as [|n i Hn _ IH]; simpl; [reflexivity|]. rewrite IH. f_equal. lia. Qed.

Lemma bcast_ones_ok i : forallb (fun p => bcast_dim (fst p) (snd p)) (combine i (repeat 1 (length i))) = true.
Proof.
  induction i as [|n i IH]; simpl; [reflexivity|]. rewrite IH. unfold bcast_dim. cbn [fst snd].
  change (1 =? 1) with true. rewrite !orb_true_r. reflexivity.
Qed.

Lemma expand_with_one i : i <> [] -> expand_shapes i [1] = (i, repeat 1 (length i)).
Proof.
  intros Hne. unfold expand_shapes. destruct i as [|n i]; [congruence|]. simpl length.
  replace (Nat.max (S (length i)) 1) with (S (length i)) by lia.
  replace (S (length i) - S (length i))%nat with 0%nat by lia. simpl repeat at 1. cbn [app].
  f_equal. replace (S (length i) - 1)%nat with (length i) by lia.
  rewrite <- repeat_cons. reflexivity.
Qed.

Lemma bcast_id i o : inbox i o -> zip2 (fun n k => if n =? 1 then 0 else k) i o = o.
Proof.
  revert o; induction i as [|n i IH]; intros [|k o]; simpl; try tauto.
  intros [Hk Hb]. rewrite IH by exact Hb. f_equal. destruct (Z.eqb_spec n 1); lia.
Qed.

Lemma sum_axes_none i : sum_axes_loop i (repeat 1 (length i)) i 0 = [] /\ forall d, sum_axes_loop i (repeat 1 (length i)) i d = [].
Proof.
  assert (H : forall d, sum_axes_loop i (repeat 1 (length i)) i d = []).
  { induction i as [|n i IH]; intros d; simpl; [reflexivity|]. rewrite IH.
    destruct (n =? 1) eqn:E; simpl; [|reflexivity]. apply Z.eqb_eq in E. subst. reflexivity. }
  split; [apply H| exact H].
Qed.

Lemma merge_axes_none shape o d : length o = length shape -> merge_axes d shape [] o [] = o.
Proof.
  revert o d; induction shape as [|n shape IH]; intros [|k o] d; simpl; try discriminate; intros H; [reflexivity|].
  rewrite IH by lia. reflexivity.
Qed.

Lemma map_snd_combine_range (l : list Z) lo : map snd (combine (zrange_aux (length l) lo 1) l) = l.
Proof. revert lo; induction l as [|n l IH]; intros lo; simpl; [reflexivity|]. rewrite IH. reflexivity. Qed.

Section Scale.
  Variable R : StarRing.
  Add Ring RringSc : (SRth R).
  Notation farr := (list Z -> R).
  Variable arr : Z -> farr.
  Variable scal : Z -> R.
  Variable orc : linop -> farr -> farr.
  Notation D := (D R arr scal orc).
  Local Open Scope sr_scope.

  Lemma shapes_scale i t c : i <> [] -> all_pos i = true -> shapes (Multiply i (MScalar t) c) = Ok (i, i).
  Proof.
    intros Hne Hp. cbn [shapes mshape_of]. unfold multiply_oshape. rewrite (expand_with_one i Hne).
    rewrite bcast_ones_ok. cbn [negb bind]. rewrite repeat_ones_max by (apply all_pos_Forall; exact Hp).
    unfold finish. rewrite Hp. reflexivity.
  Qed.

  Lemma D_scale i t c x o : i <> [] -> inbox i o ->
    D (Multiply i (MScalar t) c) x o = x o * (if c then conj (scal t) else scal t).
  Proof.
    intros Hne Hb. unfold LinopTheory.D. cbn [den]. unfold den_multiply. rewrite (expand_with_one i Hne).
    unfold bcast_index. replace (length i - length i)%nat with 0%nat by lia. simpl skipn.
    rewrite bcast_id by exact Hb. reflexivity.
  Qed.

  Lemma adj_scale i t c : i <> [] -> all_pos i = true ->
    adj (Multiply i (MScalar t) c) = Compose [Reshape i i; Sum i []; Multiply i (MScalar t) (negb c)].
  Proof.
    intros Hne Hp. cbn [adj]. unfold oshape_of. rewrite !(shapes_scale i t _ Hne Hp).
    unfold multiply_adjoint_sum_axes. simpl mshape_of. rewrite (expand_with_one i Hne).
    destruct (sum_axes_none i) as [E _]. rewrite E.
    assert (Es : shapes (Sum i []) = Ok (i, i)).
    { simpl. unfold remove_axes. simpl norm_axes_list.
      assert (F : forall (l : list (Z * Z)), filter (fun p => negb (memZ (fst p) [])) l = l).
      { induction l as [|p l IH]; simpl; [reflexivity| simpl in IH; congruence]. }
      rewrite F.
      assert (G : map snd (combine (zrange 0 (lenZ i) 1) i) = i).
      { unfold lenZ, zrange. change (1 <=? 0)%Z with false. cbv iota. rewrite Z.div_1_r.
        replace (Z.of_nat (length i) - 0 + 1 - 1)%Z with (Z.of_nat (length i)) by lia. rewrite Nat2Z.id.
        apply map_snd_combine_range. }
      rewrite G. unfold finish. rewrite Hp. reflexivity. }
    rewrite Es. simpl fst. reflexivity.
  Qed.

  Lemma keep_none (i : list Z) : keep_axes i [] = [].
  Proof.
    unfold keep_axes. generalize (combine (zrange 0 (lenZ i) 1) i) as l.
    induction l as [|p l IH]; simpl; [reflexivity| exact IH].
  Qed.

  Lemma D_sum_none i (z : farr) idx : inbox i idx -> D (Sum i []) z idx = z idx + 0.
  Proof.
    intros Hb. unfold LinopTheory.D. cbn [den]. unfold den_sum. cbn [norm_axes_list map].
    rewrite keep_none. cbn [enum_box map sum_list].
    rewrite merge_axes_none by (apply inbox_length; exact Hb). reflexivity.
  Qed.

  Theorem apair_scale i t c : i <> [] -> wf (Multiply i (MScalar t) c) = true ->
    apair R arr scal orc (Multiply i (MScalar t) c).
  Proof.
    intros Hne Hwf.
    assert (Hp : all_pos i = true).
    { unfold wf in Hwf. cbn [shapes] in Hwf. destruct (multiply_oshape i (mshape_of (MScalar t))) as [o|]; [|discriminate].
      cbn [bind] in Hwf. unfold finish in Hwf. destruct (all_pos o && all_pos i) eqn:E; [|discriminate].
      apply andb_true_iff in E. tauto. }
    unfold apair, LinopTheory.apair. unfold oshape_of, ishape_of. rewrite (shapes_scale i t c Hne Hp).
    rewrite (adj_scale i t c Hne Hp).
    intros x y. unfold inner. apply sumB_ext. intros idx Hb.
    rewrite D_scale by assumption.
    rewrite D_compose. cbn [fold_right].
    assert (E1 : D (Reshape i i) (D (Sum i []) (D (Multiply i (MScalar t) (negb c)) y)) idx
                 = D (Sum i []) (D (Multiply i (MScalar t) (negb c)) y) idx).
    { unfold LinopTheory.D at 1. cbn [den]. unfold reshape. rewrite unravel_ravel by exact Hb. reflexivity. }
    rewrite E1, D_sum_none by exact Hb. rewrite D_scale by assumption.
    rewrite conj_add, conj_zero, conj_mul.
    destruct c; cbn [negb]; cbv iota; rewrite ?conj_invol; ring.
  Qed.
End Scale.

(* ---- unconditional corollary for trees over the proven node classes ---- *)
Definition nonneg_all (l : list Z) : bool := forallb (fun v => 0 <=? v) l.
Definition pos_all (l : list Z) : bool := forallb (fun v => 0 <? v) l.

Definition proven_node (L : linop) : bool :=
  match L with
  | Identity _ | Flip _ _ => true
  | Multiply i (MScalar _) _ => match i with [] => false | _ => true end
  | Downsample i f sh | Upsample i f sh =>
      Nat.eqb (length f) (length i) && Nat.eqb (length sh) (length i) && pos_all f && nonneg_all sh
  | _ => false
  end.

Section Cor.
  Variable R : StarRing.
  Notation farr := (list Z -> R).
  Variable arr : Z -> farr.
  Variable scal : Z -> R.
  Variable orc : linop -> farr -> farr.

  Lemma nodes_ok_impl (P Q : linop -> Prop) A : (forall L, P L -> Q L) -> nodes_ok P A -> nodes_ok Q A.
  Proof.
    intros HPQ. induction A using linop_rect2; intros H0; try (destruct A; try contradiction; apply HPQ; exact H0).
    - exact (IHA H0).
    - apply nodes_ok_list. apply nodes_ok_list in H0. clear -H H0 HPQ.
      induction ls as [|a ls IH]; [constructor|]. inversion H; inversion H0; subst. constructor; auto.
    - apply nodes_ok_list. apply nodes_ok_list in H0. clear -H H0 HPQ.
      induction ls as [|a ls IH]; [constructor|]. inversion H; inversion H0; subst. constructor; auto.
    - apply HPQ; exact H0.
    - apply HPQ; exact H0.
    - apply HPQ; exact H0.
  Qed.

  Lemma forallb_Forall (p : Z -> bool) (P : Z -> Prop) l : (forall v, p v = true -> P v) -> forallb p l = true -> Forall P l.
  Proof. intros H Hl. rewrite forallb_forall in Hl. apply Forall_forall. intros v Hv. apply H, Hl, Hv. Qed.

  Lemma proven_node_apair L : proven_node L = true -> wf L = true -> apair R arr scal orc L.
  Proof.
    destruct L; simpl; try discriminate; intros Hp Hwf.
    - apply apair_identity; exact Hwf.
    - destruct m; [|discriminate]. apply apair_scale; [|exact Hwf]. destruct ishape; [discriminate| discriminate].
    - apply apair_flip; exact Hwf.
    - apply andb_true_iff in Hp. destruct Hp as [Hp H4]. apply andb_true_iff in Hp. destruct Hp as [Hp H3].
      apply andb_true_iff in Hp. destruct Hp as [H1 H2]. apply Nat.eqb_eq in H1. apply Nat.eqb_eq in H2.
      apply apair_downsample; auto.
      + eapply forallb_Forall; [|exact H3]. intros v Hv. apply Z.ltb_lt. exact Hv.
      + eapply forallb_Forall; [|exact H4]. intros v Hv. apply Z.leb_le. exact Hv.
    - apply andb_true_iff in Hp. destruct Hp as [Hp H4]. apply andb_true_iff in Hp. destruct Hp as [Hp H3].
      apply andb_true_iff in Hp. destruct Hp as [H1 H2]. apply Nat.eqb_eq in H1. apply Nat.eqb_eq in H2.
      apply apair_upsample; auto.
      + eapply forallb_Forall; [|exact H3]. intros v Hv. apply Z.ltb_lt. exact Hv.
      + eapply forallb_Forall; [|exact H4]. intros v Hv. apply Z.leb_le. exact Hv.
  Qed.

  (* NO node hypothesis left: every expression built with Conj, +, -, composition, a*A, A*a, -A over
     Identity / Flip / Downsample / Upsample leaves has the modelled adjoint as its true adjoint *)
  Theorem adj_correct_proven A :
    wf A = true -> nodes_ok (fun L => proven_node L = true /\ wf L = true) A -> apair R arr scal orc A.
  Proof.
    intros Hwf Hn. apply adj_correct; [exact Hwf|].
    eapply nodes_ok_impl; [|exact Hn]. intros L [Hp Hw]. apply proven_node_apair; assumption.
  Qed.
End Cor.
