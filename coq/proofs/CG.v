(* CG.v — the conjugate-gradient theorems, for ALL k, over an arbitrary real inner-product
   space [H : IPSpace], for the state machine of model/Alg.v instantiated on [ops_of H].

   Part 1 (Section CGMath): the mathematics on sequences satisfying the CG recurrences.
   Part 2 (Section CGModel): the model trajectory cg_seq satisfies the recurrences while
   not_positive_definite is false, for k <= max_iter - 1 (full updates) and the x-only
   final update; transfer of the theorems to the model. *)
From Coq Require Import Reals Lra Lia ZArith Bool.
From SV Require Import model.Alg proofs.IPSpace proofs.CGBasic.
Local Open Scope R_scope.

Section CGMath.
  Variable H : IPSpace.
  Notation V := (ipV H).
  Notation "x +v y" := (ipadd H x y) (at level 50, left associativity).
  Notation "x -v y" := (ipsub H x y) (at level 50, left associativity).
  Notation "a *v x" := (ipscale H a x) (at level 40, left associativity).
  Notation "<< x , y >>" := (ipdot H x y) (at level 0, format "<< x ,  y >>").
  Notation O := (ip0 H).

  Variables A Pf : V -> V.
  Variable b : V.
  Hypothesis Asa : selfadjoint H A.
  Hypothesis Psa : selfadjoint H Pf.
  Hypothesis Ppd : posdef H Pf.

  Variables X Rr Pp : nat -> V.
  Variable RZ : nat -> R.

  Definition pAp (k : nat) : R := <<Pp k, A (Pp k)>>.
  Definition alpha (k : nat) : R := RZ k / pAp k.
  Definition beta (k : nat) : R := RZ (S k) / RZ k.

  Definition init_eqs : Prop :=
    Rr 0%nat = b -v A (X 0%nat) /\ Pp 0%nat = Pf (Rr 0%nat) /\ RZ 0%nat = <<Rr 0%nat, Pf (Rr 0%nat)>>.
  (* a full update *)
  Definition step_eqs (k : nat) : Prop :=
    0 < pAp k /\
    X (S k) = X k +v alpha k *v Pp k /\
    Rr (S k) = Rr k +v (- alpha k) *v A (Pp k) /\
    RZ (S k) = <<Rr (S k), Pf (Rr (S k))>> /\
    Pp (S k) = beta k *v Pp k +v Pf (Rr (S k)).
  (* the final update: x only *)
  Definition xstep_eqs (k : nat) : Prop :=
    0 < pAp k /\ X (S k) = X k +v alpha k *v Pp k.

  Record Inv (k : nat) : Prop := mkInv {
    inv_res : Rr k = b -v A (X k);
    inv_rz : RZ k = <<Rr k, Pf (Rr k)>>;
    inv_rp : forall i, (i < k)%nat -> <<Rr k, Pp i>> = 0;
    inv_rpk : <<Rr k, Pp k>> = RZ k;
    inv_rz_orth : forall i, (i < k)%nat -> <<Rr k, Pf (Rr i)>> = 0;
    inv_conj : forall i, (i < k)%nat -> <<Pp k, A (Pp i)>> = 0;
    inv_zspan : forall i, (i <= k)%nat -> forall t, (forall j, (j <= i)%nat -> <<t, Pp j>> = 0) -> <<t, Pf (Rr i)>> = 0;
    inv_Apspan : forall i, (i < k)%nat -> forall t, <<t, Rr i>> = 0 -> <<t, Rr (S i)>> = 0 -> <<t, A (Pp i)>> = 0;
    inv_p0 : RZ k = 0 -> Pp k = O }.

  Lemma inv0 : init_eqs -> Inv 0.
  Proof.
    intros (Hr & Hp & Hz). constructor; try (intros; lia).
    - exact Hr.
    - exact Hz.
    - rewrite Hp. symmetry. exact Hz.
    - intros i Hi t Ht. assert (i = 0)%nat by lia. subst i. rewrite <- Hp. apply Ht. lia.
    - intros E. rewrite Hz in E. apply (posdef_zero H Pf Ppd) in E. rewrite Hp, E. apply (sa_0 H Pf Psa).
  Qed.

  Lemma rz_nonzero k : Inv k -> 0 < pAp k -> RZ k <> 0.
  Proof.
    intros I Hp E. pose proof (inv_p0 k I E) as P0. unfold pAp in Hp. rewrite P0 in Hp.
    rewrite (dot_0_l H) in Hp. lra.
  Qed.

  (* the new residual b - A x' is orthogonal to every direction used so far *)
  Lemma next_orth k x' :
    Inv k -> 0 < pAp k -> x' = X k +v alpha k *v Pp k ->
    forall i, (i <= k)%nat -> <<b -v A x', Pp i>> = 0.
  Proof.
    intros I Hp Hx i Hi.
    assert (E : b -v A x' = Rr k +v (- alpha k) *v A (Pp k)).
    { rewrite Hx, (inv_res k I), (sa_add H A Asa), (sa_scale H A Asa). vec H. }
    rewrite E. ipnorm H. rewrite (Asa (Pp k) (Pp i)).
    destruct (Nat.eq_dec i k) as [->|Hne].
    - rewrite (inv_rpk k I). fold (pAp k). unfold alpha. field. lra.
    - rewrite (inv_rp k I i), (inv_conj k I i) by lia. ring.
  Qed.

  Lemma inv_step k : Inv k -> step_eqs k -> Inv (S k).
  Proof.
    intros I (Hp & Hx & Hr & Hz & Hpp).
    pose proof (rz_nonzero k I Hp) as Hrz.
    remember (alpha k) as al eqn:Eal.
    remember (beta k) as be eqn:Ebe.
    assert (Hal2 : al * pAp k = RZ k) by (rewrite Eal; unfold alpha; field; lra).
    assert (Hal : al <> 0).
    { intro E0. rewrite E0 in Hal2. lra. }
    assert (Hres : Rr (S k) = b -v A (X (S k))).
    { rewrite Hr, Hx, (inv_res k I), (sa_add H A Asa), (sa_scale H A Asa). vec H. }
    assert (D : forall i, (i <= k)%nat -> <<Rr (S k), Pp i>> = 0).
    { intros i Hi. rewrite Hres. apply (next_orth k (X (S k)) I Hp); [|exact Hi]. rewrite Hx, Eal. reflexivity. }
    assert (ZS : forall i, (i <= S k)%nat -> forall t, (forall j, (j <= i)%nat -> <<t, Pp j>> = 0) -> <<t, Pf (Rr i)>> = 0).
    { intros i Hi t Ht. destruct (Nat.eq_dec i (S k)) as [->|Hne].
      - pose proof (Ht (S k) (le_n _)) as T1. pose proof (Ht k (le_S _ _ (le_n _))) as T2.
        rewrite Hpp in T1. ipnorm_in H T1. rewrite T2 in T1. lra.
      - apply (inv_zspan k I i); [lia|exact Ht]. }
    assert (F : forall i, (i < S k)%nat -> <<Rr (S k), Pf (Rr i)>> = 0).
    { intros i Hi. apply (inv_zspan k I i); [lia|]. intros j Hj. apply D. lia. }
    assert (AS : forall i, (i < S k)%nat -> forall t, <<t, Rr i>> = 0 -> <<t, Rr (S i)>> = 0 -> <<t, A (Pp i)>> = 0).
    { intros i Hi t T1 T2. destruct (Nat.eq_dec i k) as [->|Hne].
      - rewrite Hr in T2. ipnorm_in H T2. rewrite T1 in T2.
        assert (E0 : al * <<t, A (Pp k)>> = 0) by lra.
        apply Rmult_integral in E0. destruct E0; [contradiction|assumption].
      - apply (inv_Apspan k I i); [lia|assumption|assumption]. }
    constructor.
    - exact Hres.
    - exact Hz.
    - intros i Hi. apply D. lia.
    - rewrite Hpp. ipnorm H. rewrite (D k (le_n _)), <- Hz. ring.
    - exact F.
    - intros i Hi. rewrite Hpp. ipnorm H.
      destruct (Nat.eq_dec i k) as [->|Hne].
      + fold (pAp k).
        assert (E : forall y, <<Rr (S k), y>> = <<Rr k, y>> + - al * <<A (Pp k), y>>).
        { intro y. rewrite Hr. ipnorm H. reflexivity. }
        pose proof Hz as Hz'. rewrite (E (Pf (Rr (S k)))) in Hz'.
        rewrite <- (Psa (Rr k) (Rr (S k))) in Hz'. rewrite (ip_dot_sym H (Pf (Rr k))) in Hz'.
        rewrite (F k (le_n _)) in Hz'.
        rewrite (ip_dot_sym H (A (Pp k))) in Hz'.
        set (w := <<Pf (Rr (S k)), A (Pp k)>>) in *.
        assert (E2 : be * pAp k = - w).
        { rewrite Ebe. unfold beta. rewrite Hz'. rewrite <- Hal2. field. split; [lra|exact Hal]. }
        lra.
      + rewrite (inv_conj k I i) by lia.
        rewrite (inv_Apspan k I i) with (t := Pf (Rr (S k))); [ring|lia| |].
        * rewrite (Psa (Rr (S k)) (Rr i)). apply F. lia.
        * rewrite (Psa (Rr (S k)) (Rr (S i))). apply F. lia.
    - exact ZS.
    - exact AS.
    - intros E. rewrite Hz in E. apply (posdef_zero H Pf Ppd) in E.
      rewrite Hpp. rewrite Ebe. unfold beta. rewrite Hz, E. rewrite (sa_0 H Pf Psa).
      apply (vec_ext H); intro t. ipnorm H. unfold Rdiv. ring.
  Qed.

  Section Trajectory.
    Variable K : nat.
    Hypothesis Hinit : init_eqs.
    Hypothesis Hsteps : forall i, (i < K)%nat -> step_eqs i.

    Lemma inv_all : forall k, (k <= K)%nat -> Inv k.
    Proof.
      induction k as [|k IH]; intros Hk.
      - apply inv0, Hinit.
      - apply inv_step; [apply IH; lia|apply Hsteps; lia].
    Qed.

    (* --- the statements of the property ------------------------------------------- *)
    Theorem math_resid : forall k, (k <= K)%nat -> Rr k = b -v A (X k).
    Proof. intros k Hk. apply (inv_res k (inv_all k Hk)). Qed.

    Theorem math_conj : forall i j, (i < j)%nat -> (j <= K)%nat ->
      <<Pp j, A (Pp i)>> = 0 /\ <<Rr j, Pf (Rr i)>> = 0 /\ <<Rr j, Pp i>> = 0.
    Proof.
      intros i j Hij Hj. pose proof (inv_all j Hj) as I. repeat split.
      - apply (inv_conj j I i Hij).
      - apply (inv_rz_orth j I i Hij).
      - apply (inv_rp j I i Hij).
    Qed.

    (* linear combinations of the search directions *)
    Fixpoint lincomb (c : nat -> R) (k : nat) : V :=
      match k with 0%nat => ip0 H | S j => lincomb c j +v c j *v Pp j end.

    Lemma orth_lincomb r k : (forall i, (i < k)%nat -> <<r, Pp i>> = 0) -> forall c, <<r, lincomb c k>> = 0.
    Proof.
      intros Hr c. induction k as [|k IH]; cbn [lincomb].
      - apply (dot_0_r H).
      - ipnorm H. rewrite IH by (intros; apply Hr; lia). rewrite Hr by lia. ring.
    Qed.

    (* x-recurrence up to K' >= ... : the iterate lies in x0 + span *)
    Lemma X_in_span : forall k, (forall i, (i < k)%nat -> X (S i) = X i +v alpha i *v Pp i) ->
      X k = X 0%nat +v lincomb alpha k.
    Proof.
      induction k as [|k IH]; intros Hx; cbn [lincomb].
      - vec H.
      - rewrite (Hx k) by lia. rewrite IH by (intros; apply Hx; lia). vec H.
    Qed.

    Definition phi (x : V) : R := / 2 * <<x, A x>> - <<b, x>>.

    Lemma phi_expand x d : phi (x +v d) = phi x + <<A x -v b, d>> + / 2 * <<d, A d>>.
    Proof.
      unfold phi. rewrite (sa_add H A Asa). ipnorm H.
      rewrite (ip_dot_sym H d (A x)). rewrite <- (Asa x d). lra.
    Qed.

    (* optimality from orthogonality of the true residual to the span *)
    Lemma opt_from_orth k :
      possemidef H A ->
      (forall i, (i < k)%nat -> <<b -v A (X k), Pp i>> = 0) ->
      X k = X 0%nat +v lincomb alpha k ->
      forall c, phi (X k) <= phi (X 0%nat +v lincomb c k).
    Proof.
      intros Apsd Horth HX c.
      set (y := X 0%nat +v lincomb c k).
      set (d := y -v X k).
      assert (Ey : y = X k +v d) by (unfold d; symmetry; apply add_sub_cancel).
      rewrite Ey, phi_expand.
      assert (E1 : <<A (X k) -v b, d>> = 0).
      { unfold d, y. rewrite HX at 2. ipnorm H.
        pose proof (orth_lincomb (b -v A (X k)) k Horth c) as L1.
        pose proof (orth_lincomb (b -v A (X k)) k Horth alpha) as L2.
        ipnorm_in H L1. ipnorm_in H L2. lra. }
      rewrite E1. pose proof (Apsd d). lra.
    Qed.

    Theorem math_optimal : possemidef H A ->
      forall k, (k <= K)%nat -> forall c, phi (X k) <= phi (X 0%nat +v lincomb c k).
    Proof.
      intros Apsd k Hk c. pose proof (inv_all k Hk) as I.
      apply opt_from_orth; [exact Apsd| |].
      - intros i Hi. rewrite <- (inv_res k I). apply (inv_rp k I i Hi).
      - apply X_in_span. intros i Hi. destruct (Hsteps i) as (_ & Hx & _); [lia|exact Hx].
    Qed.

    (* ... and for the x-only final update *)
    Theorem math_optimal_final : possemidef H A -> xstep_eqs K ->
      forall c, phi (X (S K)) <= phi (X 0%nat +v lincomb c (S K)).
    Proof.
      intros Apsd (Hp & Hx) c. pose proof (inv_all K (le_n _)) as I.
      apply opt_from_orth; [exact Apsd| |].
      - intros i Hi. apply (next_orth K (X (S K)) I Hp Hx). lia.
      - apply X_in_span. intros i Hi. destruct (Nat.eq_dec i K) as [->|Hne]; [exact Hx|].
        destruct (Hsteps i) as (_ & Hx' & _); [lia|exact Hx'].
    Qed.

    (* monotone decrease of phi, hence of the A-norm of the error *)
    Lemma phi_step_decreases k :
      possemidef H A -> (k <= K)%nat -> 0 < pAp k -> X (S k) = X k +v alpha k *v Pp k ->
      phi (X (S k)) <= phi (X k).
    Proof.
      intros Apsd Hk Hp Hx. pose proof (inv_all k Hk) as I.
      (* X k = X (S k) + (- alpha k) p_k, and b - A X(S k) is orthogonal to p_k *)
      assert (E : X k = X (S k) +v (- alpha k) *v Pp k) by (rewrite Hx; vec H).
      rewrite E at 1. rewrite phi_expand.
      assert (E1 : <<A (X (S k)) -v b, (- alpha k) *v Pp k>> = 0).
      { pose proof (next_orth k (X (S k)) I Hp Hx k (le_n _)) as N. ipnorm_in H N. ipnorm H. nra. }
      rewrite E1. pose proof (Apsd ((- alpha k) *v Pp k)). lra.
    Qed.

    (* squared A-norm of the error w.r.t. a solution xs *)
    Definition errA2 (xs x : V) : R := <<x -v xs, A (x -v xs)>>.
    Lemma errA2_phi xs x : A xs = b -> errA2 xs x = 2 * phi x + <<xs, A xs>>.
    Proof.
      intros E. unfold errA2, phi. rewrite (sa_sub H A Asa). ipnorm H. rewrite E.
      rewrite (ip_dot_sym H xs (A x)). rewrite (Asa x xs), E. rewrite (ip_dot_sym H x b). lra.
    Qed.

    Theorem math_anorm_monotone xs k :
      possemidef H A -> A xs = b -> (k <= K)%nat -> 0 < pAp k -> X (S k) = X k +v alpha k *v Pp k ->
      errA2 xs (X (S k)) <= errA2 xs (X k).
    Proof.
      intros Apsd E Hk Hp Hx. rewrite !(errA2_phi xs _ E).
      pose proof (phi_step_decreases k Apsd Hk Hp Hx). lra.
    Qed.

    (* for positive-definite A a breakdown can only happen at the solution *)
    Theorem math_breakdown_solved k :
      posdef H A -> (k <= K)%nat -> pAp k <= 0 -> Rr k = O /\ A (X k) = b.
    Proof.
      intros Apd Hk Hp. pose proof (inv_all k Hk) as I.
      assert (P0 : Pp k = O).
      { destruct (vec_eq_dec H (Pp k)) as [|N]; [assumption|]. specialize (Apd _ N). unfold pAp in Hp. lra. }
      assert (Z0 : RZ k = 0) by (rewrite <- (inv_rpk k I), P0; apply (dot_0_r H)).
      assert (R0 : Rr k = O) by (apply (posdef_zero H Pf Ppd); rewrite <- (inv_rz k I); exact Z0).
      split; [exact R0|].
      pose proof (inv_res k I) as E. rewrite R0 in E.
      apply (vec_ext H); intro t. assert (E2 : <<O, t>> = <<b -v A (X k), t>>) by (rewrite <- E; reflexivity).
      ipnorm_in H E2. lra.
    Qed.

    (* rzold = 0 (resid = 0) only at the solution, and then p = 0 as well *)
    Theorem math_rz0_solved k : (k <= K)%nat -> RZ k = 0 -> Rr k = O /\ A (X k) = b /\ Pp k = O.
    Proof.
      intros Hk Z0. pose proof (inv_all k Hk) as I.
      assert (R0 : Rr k = O) by (apply (posdef_zero H Pf Ppd); rewrite <- (inv_rz k I); exact Z0).
      repeat split; [exact R0| |apply (inv_p0 k I Z0)].
      pose proof (inv_res k I) as E. rewrite R0 in E.
      apply (vec_ext H); intro t. assert (E2 : <<O, t>> = <<b -v A (X k), t>>) by (rewrite <- E; reflexivity).
      ipnorm_in H E2. lra.
    Qed.

    Lemma math_rz_nonneg k : (k <= K)%nat -> 0 <= RZ k.
    Proof.
      intros Hk. rewrite (inv_rz k (inv_all k Hk)). apply (posdef_nonneg H Pf Psa Ppd).
    Qed.
  End Trajectory.
End CGMath.

(* ------------------------------------------------------------------------- *)
(* Part 2: the model trajectory                                                *)
(* ------------------------------------------------------------------------- *)
Definition P_ok (H : IPSpace) (P : option (ipV H -> ipV H)) : Prop :=
  match P with None => True | Some Pf => selfadjoint H Pf /\ posdef H Pf end.

Section CGModel.
  Variable H : IPSpace.
  Notation V := (ipV H).
  Notation E := (ops_of H).
  Notation "x +v y" := (ipadd H x y) (at level 50, left associativity).
  Notation "x -v y" := (ipsub H x y) (at level 50, left associativity).
  Notation "a *v x" := (ipscale H a x) (at level 40, left associativity).
  Notation "<< x , y >>" := (ipdot H x y) (at level 0, format "<< x ,  y >>").

  Variable A : V -> V.
  Variable b : V.
  Variable P : option (V -> V).
  Variable x0 : V.
  Variable max_iter : Z.
  Variable tol : R.
  Hypothesis Asa : selfadjoint H A.
  Hypothesis HP : P_ok H P.

  Definition Pf : V -> V := cg_applyP E P.
  Lemma Pf_sa : selfadjoint H Pf.
  Proof. unfold Pf, cg_applyP. destruct P as [f|]; [apply HP|apply id_selfadjoint]. Qed.
  Lemma Pf_pd : posdef H Pf.
  Proof. unfold Pf, cg_applyP. destruct P as [f|]; [apply HP|apply id_posdef]. Qed.

  Definition st (k : nat) : cg_state E := cg_seq E A b P x0 max_iter tol k.
  Definition sx k := cg_x (st k).
  Definition sr k := cg_r (st k).
  Definition sp k := cg_p (st k).
  Definition srz k : R := cg_rzold (st k).
  Definition spAp k : R := <<sp k, A (sp k)>>.

  Lemma st_S k : st (S k) = cg_update E A P (st k).
  Proof. reflexivity. Qed.
  Lemma st_iter k : cg_iter (st k) = Z.of_nat k.
  Proof.
    induction k as [|k IH]; [reflexivity|].
    rewrite st_S, cg_update_iter, IH. lia.
  Qed.
  Lemma st_max_iter k : cg_max_iter (st k) = max_iter.
  Proof.
    induction k as [|k IH]; [reflexivity|].
    rewrite st_S, cg_update_max_iter, IH. reflexivity.
  Qed.

  (* one update, by cases, on the real instance *)
  Lemma upd_breakdown (s : cg_state E) : <<cg_p s, A (cg_p s)>> <= 0 -> cg_npd (cg_update E A P s) = true.
  Proof.
    intros Hle. apply (Rleb_true _ 0) in Hle.
    pose proof (cg_breakdown_unchanged E A P s) as B. unfold cg_pAp in B. cbn in B.
    specialize (B Hle). tauto.
  Qed.

  Lemma upd_npd_mono (s : cg_state E) : cg_npd s = true -> cg_npd (cg_update E A P s) = true.
  Proof.
    intros Hn. unfold cg_update, update. cbn [upd_ set_iter get_iter CGClass]. unfold cg__update.
    destruct (sleb _ _); [reflexivity|]. destruct (_ <? _)%Z; cbn; exact Hn.
  Qed.

  Lemma upd_full (s : cg_state E) :
    0 < <<cg_p s, A (cg_p s)>> -> (cg_iter s < cg_max_iter s - 1)%Z ->
    let s' := cg_update E A P s in
    let al := cg_rzold s / <<cg_p s, A (cg_p s)>> in
    cg_x s' = cg_x s +v al *v cg_p s /\
    cg_r s' = cg_r s +v (- al) *v A (cg_p s) /\
    cg_rzold s' = <<cg_r s', Pf (cg_r s')>> /\
    cg_p s' = (cg_rzold s' / cg_rzold s) *v cg_p s +v Pf (cg_r s') /\
    cg_resid s' = sqrt (cg_rzold s') /\
    cg_npd s' = cg_npd s.
  Proof.
    intros Hp Hi. apply (Rleb_false _ 0) in Hp. apply Z.ltb_lt in Hi.
    unfold cg_update, update. cbn [upd_ set_iter get_iter CGClass]. unfold cg__update.
    cbn [vdot sleb s0 ops_of]. rewrite Hp, Hi. cbn. repeat split; reflexivity.
  Qed.

  Lemma upd_final (s : cg_state E) :
    0 < <<cg_p s, A (cg_p s)>> -> (cg_max_iter s - 1 <= cg_iter s)%Z ->
    let s' := cg_update E A P s in
    let al := cg_rzold s / <<cg_p s, A (cg_p s)>> in
    cg_x s' = cg_x s +v al *v cg_p s /\
    cg_r s' = cg_r s /\ cg_p s' = cg_p s /\ cg_rzold s' = cg_rzold s /\
    cg_resid s' = sqrt (cg_rzold s) /\ cg_npd s' = cg_npd s.
  Proof.
    intros Hp Hi. apply (Rleb_false _ 0) in Hp. apply Z.ltb_ge in Hi.
    unfold cg_update, update. cbn [upd_ set_iter get_iter CGClass]. unfold cg__update.
    cbn [vdot sleb s0 ops_of]. rewrite Hp, Hi. cbn. repeat split; reflexivity.
  Qed.

  Lemma st_npd_prev k : cg_npd (st (S k)) = false -> cg_npd (st k) = false /\ 0 < spAp k.
  Proof.
    intros Hn. rewrite st_S in Hn. split.
    - destruct (cg_npd (st k)) eqn:E0; [|reflexivity]. rewrite (upd_npd_mono _ E0) in Hn. discriminate.
    - destruct (Rle_dec (spAp k) 0) as [Hle|Hgt]; [|lra].
      rewrite (upd_breakdown _ Hle) in Hn. discriminate.
  Qed.
  Lemma st_npd_le j k : (j <= k)%nat -> cg_npd (st k) = false -> cg_npd (st j) = false.
  Proof.
    intros Hjk. induction Hjk as [|k Hjk IH]; [tauto|].
    intros Hn. apply IH. apply (st_npd_prev k Hn).
  Qed.

  Lemma model_init : init_eqs H A Pf b sx sr sp srz.
  Proof. unfold init_eqs, sx, sr, sp, srz, st, cg_seq. cbn. repeat split; reflexivity. Qed.

  Lemma model_step k : (Z.of_nat k < max_iter - 1)%Z -> cg_npd (st (S k)) = false ->
    step_eqs H A Pf sx sr sp srz k.
  Proof.
    intros Hk Hn. destruct (st_npd_prev k Hn) as (_ & Hp).
    pose proof (upd_full (st k) Hp) as U. rewrite st_iter, st_max_iter in U. specialize (U Hk).
    cbv zeta in U. rewrite <- st_S in U. destruct U as (U1 & U2 & U3 & U4 & _ & _).
    unfold step_eqs, pAp, alpha, beta, sx, sr, sp, srz. repeat split; assumption.
  Qed.

  Lemma model_xstep k : (max_iter - 1 <= Z.of_nat k)%Z -> cg_npd (st (S k)) = false ->
    xstep_eqs H A sx sp srz k.
  Proof.
    intros Hk Hn. destruct (st_npd_prev k Hn) as (_ & Hp).
    pose proof (upd_final (st k) Hp) as U. rewrite st_iter, st_max_iter in U. specialize (U Hk).
    cbv zeta in U. rewrite <- st_S in U. destruct U as (U1 & _).
    unfold xstep_eqs, pAp, alpha, sx, sp, srz. split; assumption.
  Qed.

  (* healthy prefix: all updates before k were full, non-breakdown updates *)
  Definition healthy (k : nat) : Prop :=
    (Z.of_nat k <= Z.max 0 (max_iter - 1))%Z /\ cg_npd (st k) = false.

  Lemma healthy_steps k : healthy k -> forall i, (i < k)%nat -> step_eqs H A Pf sx sr sp srz i.
  Proof.
    intros (Hk & Hn) i Hi. apply model_step; [lia|]. apply (st_npd_le (S i) k); [lia|exact Hn].
  Qed.

  Lemma healthy_inv k : healthy k -> Inv H A Pf b sx sr sp srz k.
  Proof.
    intros Hh. apply (inv_all H A Pf b Asa Pf_sa Pf_pd sx sr sp srz k model_init (healthy_steps k Hh)). lia.
  Qed.

  (* ---------------- the theorems on the model ---------------------------------------- *)
  Theorem cg_resid_inv k : healthy k -> sr k = b -v A (sx k).
  Proof. intros Hh. apply (inv_res _ _ _ _ _ _ _ _ _ (healthy_inv k Hh)). Qed.

  Theorem cg_conj i j : (i < j)%nat -> healthy j ->
    <<sp j, A (sp i)>> = 0 /\ <<sr j, Pf (sr i)>> = 0 /\ <<sr j, sp i>> = 0.
  Proof.
    intros Hij Hh. pose proof (healthy_inv j Hh) as I. repeat split.
    - apply (inv_conj _ _ _ _ _ _ _ _ _ I i Hij).
    - apply (inv_rz_orth _ _ _ _ _ _ _ _ _ I i Hij).
    - apply (inv_rp _ _ _ _ _ _ _ _ _ I i Hij).
  Qed.

  (* the state after the final budgeted update: x advanced, r / p / rzold are those of the
     previous state -- so the tracked r is b - A x_{max_iter-1}, NOT b - A x_{max_iter} *)
  Theorem cg_final_stale k :
    (max_iter - 1 <= Z.of_nat k)%Z -> cg_npd (st (S k)) = false ->
    sr (S k) = sr k /\ sp (S k) = sp k /\ srz (S k) = srz k /\
    sx (S k) = sx k +v (srz k / spAp k) *v sp k /\
    cg_resid (st (S k)) = sqrt (srz k).
  Proof.
    intros Hk Hn. destruct (st_npd_prev k Hn) as (_ & Hp).
    pose proof (upd_final (st k) Hp) as U. rewrite st_iter, st_max_iter in U. specialize (U Hk).
    cbv zeta in U. rewrite <- st_S in U. destruct U as (U1 & U2 & U3 & U4 & U5 & _).
    unfold sr, sp, srz, sx, spAp. repeat split; assumption.
  Qed.
  Corollary cg_final_resid_is_previous k :
    healthy k -> (max_iter - 1 <= Z.of_nat k)%Z -> cg_npd (st (S k)) = false ->
    sr (S k) = b -v A (sx k) /\
    b -v A (sx (S k)) = sr k +v (- (srz k / spAp k)) *v A (sp k).
  Proof.
    intros Hh Hk Hn. destruct (cg_final_stale k Hk Hn) as (F1 & _ & _ & F4 & _).
    split; [rewrite F1; apply cg_resid_inv, Hh|].
    rewrite F4, (cg_resid_inv k Hh), (sa_add H A Asa), (sa_scale H A Asa). vec H.
  Qed.

  Definition cg_phi (x : V) : R := phi H A b x.
  Definition cg_span (c : nat -> R) (k : nat) : V := lincomb H sp c k.

  (* optimality over x0 + span{p_0..p_{k-1}} for every k up to and INCLUDING max_iter *)
  Theorem cg_optimal k :
    possemidef H A -> (Z.of_nat k <= Z.max 0 max_iter)%Z -> cg_npd (st k) = false ->
    forall c, cg_phi (sx k) <= cg_phi (x0 +v cg_span c k).
  Proof.
    intros Apsd Hk Hn c.
    destruct (Z_le_gt_dec (Z.of_nat k) (Z.max 0 (max_iter - 1))) as [Hle|Hgt].
    - assert (Hh : healthy k) by (split; assumption).
      apply (math_optimal H A Pf b Asa Pf_sa Pf_pd sx sr sp srz k model_init (healthy_steps k Hh) Apsd k (le_n _) c).
    - destruct k as [|k]; [lia|].
      assert (Hh : healthy k).
      { split; [lia|]. apply (st_npd_le k (S k)); [lia|exact Hn]. }
      apply (math_optimal_final H A Pf b Asa Pf_sa Pf_pd sx sr sp srz k model_init (healthy_steps k Hh) Apsd).
      apply model_xstep; [lia|exact Hn].
  Qed.

  (* A-norm of the error never increases, every update up to max_iter *)
  Theorem cg_anorm_monotone xs k :
    possemidef H A -> A xs = b -> (Z.of_nat (S k) <= Z.max 0 max_iter)%Z -> cg_npd (st (S k)) = false ->
    errA2 H A xs (sx (S k)) <= errA2 H A xs (sx k).
  Proof.
    intros Apsd Exs Hk Hn. destruct (st_npd_prev k Hn) as (Hn' & Hp).
    assert (Hh : healthy k) by (split; [lia|exact Hn']).
    assert (Hx : sx (S k) = sx k +v alpha H A sp srz k *v sp k).
    { destruct (Z_lt_le_dec (Z.of_nat k) (max_iter - 1)) as [Hlt|Hge].
      - apply (model_step k Hlt Hn).
      - apply (model_xstep k Hge Hn). }
    apply (math_anorm_monotone H A Pf b Asa Pf_sa Pf_pd sx sr sp srz k model_init (healthy_steps k Hh) xs k Apsd Exs (le_n _) Hp Hx).
  Qed.

  (* for positive-definite A the breakdown guard fires only at the solution *)
  Theorem cg_breakdown_only_when_solved k :
    posdef H A -> healthy k -> spAp k <= 0 -> sr k = ip0 H /\ A (sx k) = b.
  Proof.
    intros Apd Hh Hp.
    apply (math_breakdown_solved H A Pf b Asa Pf_sa Pf_pd sx sr sp srz k model_init (healthy_steps k Hh) k Apd (le_n _) Hp).
  Qed.

  (* resid is always sqrt(rzold) *)
  Lemma st_resid k : cg_resid (st k) = sqrt (srz k).
  Proof.
    induction k as [|k IH]; [reflexivity|].
    destruct (Rle_dec (spAp k) 0) as [Hle|Hgt].
    - apply (Rleb_true _ 0) in Hle.
      pose proof (cg_breakdown_unchanged E A P (st k) Hle) as B. cbv zeta in B.
      rewrite <- st_S in B. destruct B as (_ & _ & _ & B4 & B5 & _). unfold srz. rewrite B4, B5. exact IH.
    - assert (Hp : 0 < spAp k) by lra.
      destruct (Z_lt_le_dec (cg_iter (st k)) (cg_max_iter (st k) - 1)) as [Hlt|Hge].
      + pose proof (upd_full (st k) Hp Hlt) as U. cbv zeta in U. rewrite <- st_S in U.
        destruct U as (_ & _ & _ & _ & U5 & _). exact U5.
      + pose proof (upd_final (st k) Hp Hge) as U. cbv zeta in U. rewrite <- st_S in U.
        destruct U as (_ & _ & _ & U4 & U5 & _). unfold srz. rewrite U4. exact U5.
  Qed.

  (* tol = 0 early stop: resid = 0 means the system is solved, and one more update
     changes nothing but the breakdown flag *)
  Theorem cg_resid0_fixed k :
    healthy k -> cg_resid (st k) = 0 ->
    sr k = ip0 H /\ A (sx k) = b /\ sx (S k) = sx k /\ cg_npd (st (S k)) = true.
  Proof.
    intros Hh Hres. rewrite st_resid in Hres.
    pose proof (math_rz_nonneg H A Pf b Asa Pf_sa Pf_pd sx sr sp srz k model_init (healthy_steps k Hh) k (le_n _)) as Hnn.
    assert (Z0 : srz k = 0) by (apply sqrt_eq_0; assumption).
    destruct (math_rz0_solved H A Pf b Asa Pf_sa Pf_pd sx sr sp srz k model_init (healthy_steps k Hh) k (le_n _) Z0)
      as (R0 & Sol & P0).
    assert (Hle : <<cg_p (st k), A (cg_p (st k))>> <= 0).
    { change (cg_p (st k)) with (sp k). rewrite P0, (dot_0_l H). lra. }
    apply (Rleb_true _ 0) in Hle.
    pose proof (cg_breakdown_unchanged E A P (st k) Hle) as B. cbv zeta in B.
    rewrite <- st_S in B. destruct B as (B1 & _ & _ & _ & _ & _ & _ & _ & B9 & _).
    repeat split; assumption.
  Qed.
End CGModel.
