(* proofs/Wavelet.v — the wrapper of sigpy.wavelet around an orthonormal analysis/synthesis pair:
   centred even zero-padding followed by the centred crop is the identity (C09 window lemma), the two
   resizes are adjoint (C09 gather adjoint), hence perfect reconstruction, norm preservation and
   adjointness of fwt / iwt follow from the oracle hypotheses on (W, Wr). *)
From Coq Require Import ZArith List Lia Bool Ring.
From SV Require Import lib.Scalar lib.BigSum lib.LoopIR lib.NdArray lib.Gather model.Rearrange model.Wavelet
  proofs.Rearrange proofs.FourierND.
Import ListNotations.
Local Open Scope Z_scope.

(* ---- arithmetic of the even padding ---------------------------------------------------- *)
Lemma even_up_facts o : 0 < o -> o <= even_up o <= o + 1 /\ even_up o / 2 = (o + 1) / 2 /\ 0 < even_up o /\ even_up o = 2 * ((o + 1) / 2).
Proof.
  intros Ho. unfold even_up.
  pose proof (Z.div_mod (o + 1) 2 ltac:(lia)) as E. pose proof (Z.mod_pos_bound (o + 1) 2 ltac:(lia)) as B.
  rewrite Z.div_mul by lia. lia.
Qed.

Lemma half_facts o : 0 < o -> 2 * (o / 2) <= o < 2 * (o / 2) + 2 /\ 2 * ((o + 1) / 2) <= o + 1 < 2 * ((o + 1) / 2) + 2.
Proof.
  intros Ho.
  pose proof (Z.div_mod o 2 ltac:(lia)). pose proof (Z.mod_pos_bound o 2 ltac:(lia)).
  pose proof (Z.div_mod (o + 1) 2 ltac:(lia)). pose proof (Z.mod_pos_bound (o + 1) 2 ltac:(lia)). lia.
Qed.

(* one axis: crop (z -> o) reads index k' = k - o/2 + z/2 of the padded axis, and pad (o -> z) put x[k] there *)
Lemma pad_crop_axis o k : 0 < o -> 0 <= k < o ->
  let z := even_up o in
  let k' := k - o / 2 + z / 2 in
  resize_ax z o (Z.max (z / 2 - o / 2) 0) (Z.max (o / 2 - z / 2) 0) k = Some k' /\ 0 <= k' < z /\
  resize_ax o z (Z.max (o / 2 - z / 2) 0) (Z.max (z / 2 - o / 2) 0) k' = Some k.
Proof.
  intros Ho Hk z k'.
  destruct (even_up_facts o Ho) as (Hz & Hz2 & Hzp & Hze). destruct (half_facts o Ho) as (H1 & H2).
  fold z in Hz, Hz2, Hzp, Hze.
  assert (Hk' : 0 <= k' < z) by (unfold k'; rewrite Hz2; lia).
  split; [|split; [exact Hk'|]].
  - rewrite (resize_default_window z o k Hzp Ho Hk). fold k'.
    destruct (Z.leb_spec 0 k'), (Z.ltb_spec k' z); try lia. reflexivity.
  - rewrite (resize_default_window o z k' Ho Hzp Hk').
    replace (k' - z / 2 + o / 2) with k by (unfold k'; ring).
    destruct (Z.leb_spec 0 k), (Z.ltb_spec k o); try lia. reflexivity.
Qed.

Lemma same_axis n k : 0 < n -> 0 <= k < n ->
  resize_ax n n (Z.max (n / 2 - n / 2) 0) (Z.max (n / 2 - n / 2) 0) k = Some k.
Proof.
  intros Hn Hk. rewrite (resize_default_window n n k Hn Hn Hk).
  replace (k - n / 2 + n / 2) with k by ring.
  destruct (Z.leb_spec 0 k), (Z.ltb_spec k n); try lia. reflexivity.
Qed.

(* ---- N-D ------------------------------------------------------------------------------------ *)
Definition rs_axes (i o : list Z) : list axmap := zip4 resize_ax i o (default_ishift i o) (default_oshift i o).

Lemma default_shift_swap a b : default_ishift a b = default_oshift b a.
Proof.
  unfold default_ishift, default_oshift. revert b; induction a as [|x a IH]; intros [|y b]; simpl; try reflexivity.
  f_equal. apply IH.
Qed.

Lemma default_shift_length a b : length a = length b ->
  length (default_ishift a b) = length a /\ length (default_oshift a b) = length a.
Proof.
  unfold default_ishift, default_oshift. revert b; induction a as [|x a IH]; intros [|y b]; simpl; try lia.
  intros H. destruct (IH b ltac:(lia)). lia.
Qed.

Lemma default_shift_nonneg a b :
  Forall (fun v => 0 <= v) (default_ishift a b) /\ Forall (fun v => 0 <= v) (default_oshift a b).
Proof.
  unfold default_ishift, default_oshift. revert b; induction a as [|x a IH]; intros [|y b]; simpl.
  1-3: split; constructor.
  destruct (IH b). split; constructor; try assumption; lia.
Qed.

Lemma zshape_length s : length (zshape s) = length s.
Proof. apply map_length. Qed.

Lemma zshape_pos s : Forall (fun n => 0 < n) s -> Forall (fun n => 0 < n) (zshape s).
Proof. induction 1; simpl; constructor; [apply even_up_facts; assumption | assumption]. Qed.

Lemma rs_axes_cons i o il ol :
  rs_axes (i :: il) (o :: ol) = resize_ax i o (Z.max (i / 2 - o / 2) 0) (Z.max (o / 2 - i / 2) 0) :: rs_axes il ol.
Proof. reflexivity. Qed.

Lemma pad_crop_maps o idx : Forall (fun n => 0 < n) o -> inbox o idx ->
  exists idx', map_axes (rs_axes (zshape o) o) idx = Some idx' /\ inbox (zshape o) idx' /\
               map_axes (rs_axes o (zshape o)) idx' = Some idx.
Proof.
  intros Hpos. revert idx. induction Hpos as [|n o Hn Hpos IH]; intros [|k idx]; cbn [inbox]; try tauto.
  - intros _. exists []. simpl. auto.
  - intros [Hk Hb]. destruct (IH idx Hb) as (idx' & E1 & B' & E2).
    destruct (pad_crop_axis n k Hn Hk) as (A1 & A2 & A3).
    exists ((k - n / 2 + even_up n / 2) :: idx').
    change (zshape (n :: o)) with (even_up n :: zshape o).
    rewrite !rs_axes_cons. cbn [map_axes inbox]. rewrite A1, A3, E1, E2. auto.
Qed.

Lemma same_maps o idx : Forall (fun n => 0 < n) o -> inbox o idx -> map_axes (rs_axes o o) idx = Some idx.
Proof.
  intros Hpos. revert idx. induction Hpos as [|n o Hn Hpos IH]; intros [|k idx]; cbn [inbox]; try tauto.
  intros [Hk Hb]. rewrite rs_axes_cons. cbn [map_axes]. rewrite (same_axis n k Hn Hk), (IH idx Hb). reflexivity.
Qed.

Lemma rs_axes_pbij i o : length i = length o -> axes_pbij i o (rs_axes i o) (rs_axes o i).
Proof.
  intros L. unfold rs_axes. rewrite (default_shift_swap o i), <- (default_shift_swap i o).
  destruct (default_shift_length i o L). destruct (default_shift_nonneg i o).
  apply zip4_resize_pbij; try assumption; lia.
Qed.

Lemma expand_shapes_eqlen (a b : list Z) : length a = length b -> expand_shapes a b = (a, b).
Proof. intros L. unfold expand_shapes. rewrite L, Nat.max_id, Nat.sub_diag. reflexivity. Qed.

Section Wrap.
  Variable R : StarRing.
  Add Ring Rr5 : (SRth R).
  Local Open Scope sr_scope.
  Notation farr := (list Z -> R).

  (* reading of util.resize (default shifts) on shapes of equal rank as one per-axis gather *)
  Lemma resize_gather_form i o (x : farr) : length i = length o ->
    Forall (fun n => (0 < n)%Z) i -> Forall (fun n => (0 < n)%Z) o ->
    eqbox o (resize i o None None x) (gatherN (rs_axes i o) x).
  Proof.
    intros L Hi Ho idx Hb. unfold resize. rewrite (expand_shapes_eqlen i o L).
    destruct (zlist_eqb i o) eqn:E; cbn [andb].
    - apply zlist_eqb_spec in E. subst i. unfold reshape. rewrite unravel_ravel by exact Hb.
      unfold gatherN. rewrite same_maps by assumption. reflexivity.
    - unfold reshape at 1. rewrite unravel_ravel by exact Hb. unfold gatherN. fold (rs_axes i o).
      destruct (map_axes (rs_axes i o) idx) as [j|] eqn:M; [|reflexivity].
      destruct (axes_pbij_fwd i o _ _ (rs_axes_pbij i o L) idx j Hb M) as [Hj _].
      unfold reshape. rewrite unravel_ravel by exact Hj. reflexivity.
  Qed.

  Lemma gather_eqbox i o (a b : farr) : length i = length o ->
    eqbox i a b -> eqbox o (gatherN (rs_axes i o) a) (gatherN (rs_axes i o) b).
  Proof.
    intros L H idx Hb. unfold gatherN.
    destruct (map_axes (rs_axes i o) idx) as [j|] eqn:M; [|reflexivity].
    destruct (axes_pbij_fwd i o _ _ (rs_axes_pbij i o L) idx j Hb M) as [Hj _]. apply H. exact Hj.
  Qed.

  Section Box.
    Variable osh : list Z.
    Hypothesis Hpos : Forall (fun n => (0 < n)%Z) osh.
    Let zsh := zshape osh.
    Let pad (x : farr) : farr := gatherN (rs_axes osh zsh) x.
    Let crop (y : farr) : farr := gatherN (rs_axes zsh osh) y.

    Lemma crop_pad (x : farr) : eqbox osh (crop (pad x)) x.
    Proof.
      intros idx Hb. unfold crop, pad, gatherN.
      destruct (pad_crop_maps osh idx Hpos Hb) as (idx' & E1 & _ & E2). fold zsh in E1, E2.
      rewrite E1, E2. reflexivity.
    Qed.

    Lemma pad_crop_adjoint (x y : farr) : inner zsh (pad x) y = inner osh x (crop y).
    Proof.
      unfold pad, crop. apply gatherN_adjoint. apply rs_axes_pbij. unfold zsh. symmetry. apply zshape_length.
    Qed.

    (* crop . pad = id for util.resize itself: resize back after resize up *)
    Theorem resize_down_up (x : farr) : eqbox osh (resize zsh osh None None (resize osh zsh None None x)) x.
    Proof.
      assert (L : length zsh = length osh) by apply zshape_length.
      assert (Hz : Forall (fun n => (0 < n)%Z) zsh) by (apply zshape_pos; exact Hpos).
      eapply eqbox_trans; [apply resize_gather_form; assumption|].
      eapply eqbox_trans; [apply gather_eqbox; [exact L|]; apply resize_gather_form; auto|].
      apply crop_pad.
    Qed.

    (* ---- the PyWavelets pair on the padded box (oracle) ---------------------------------- *)
    Variable cshape_of : list Z -> list Z.
    Variable W Wr : list Z -> farr -> farr.
    Let csh := cshape_of zsh.

    Definition oracle_reconstructs : Prop := forall z : farr, eqbox zsh (Wr zsh (W zsh z)) z.
    Definition oracle_isometry : Prop := forall a b : farr, inner csh (W zsh a) (W zsh b) = inner zsh a b.
    Definition oracle_adjoint : Prop := forall (a c : farr), inner csh (W zsh a) c = inner zsh a (Wr zsh c).

    Lemma isometry_from_adjoint : oracle_reconstructs -> oracle_adjoint -> oracle_isometry.
    Proof.
      intros Hpr Hadj a b. rewrite Hadj. apply inner_eqbox; [apply eqbox_refl| apply Hpr].
    Qed.

    Let L : length zsh = length osh := zshape_length osh.
    Let Hz : Forall (fun n => (0 < n)%Z) zsh := zshape_pos osh Hpos.

    Lemma fwt_padded_form (x : farr) : eqbox zsh (fwt_padded osh x) (pad x).
    Proof. unfold fwt_padded. apply resize_gather_form; auto. Qed.

    (* iwt (fwt x) = x on the box of the original (possibly odd) shape *)
    Theorem iwt_fwt (x : farr) : oracle_reconstructs ->
      fst (iwt Wr zsh osh (snd (fwt cshape_of W osh x))) = osh /\
      eqbox osh (snd (iwt Wr zsh osh (snd (fwt cshape_of W osh x)))) x.
    Proof.
      intros Hpr. split; [reflexivity|]. unfold iwt, fwt. cbn [fst snd]. fold zsh.
      eapply eqbox_trans; [apply resize_gather_form; auto|].
      eapply eqbox_trans; [apply gather_eqbox; [exact L| apply Hpr]|].
      eapply eqbox_trans; [apply gather_eqbox; [exact L| apply fwt_padded_form]|].
      apply crop_pad.
    Qed.

    (* ||fwt x|| = ||x|| *)
    Theorem fwt_norm (x : farr) : oracle_isometry ->
      inner csh (snd (fwt cshape_of W osh x)) (snd (fwt cshape_of W osh x)) = inner osh x x.
    Proof.
      intros Hiso. unfold fwt. cbn [snd]. fold zsh. rewrite Hiso.
      rewrite (inner_eqbox R zsh _ (pad x) _ (pad x) (fwt_padded_form x) (fwt_padded_form x)).
      rewrite pad_crop_adjoint. apply inner_eqbox; [apply eqbox_refl| apply crop_pad].
    Qed.

    (* more generally the inner product is preserved *)
    Theorem fwt_inner (x y : farr) : oracle_isometry ->
      inner csh (snd (fwt cshape_of W osh x)) (snd (fwt cshape_of W osh y)) = inner osh x y.
    Proof.
      intros Hiso. unfold fwt. cbn [snd]. fold zsh. rewrite Hiso.
      rewrite (inner_eqbox R zsh _ (pad x) _ (pad y) (fwt_padded_form x) (fwt_padded_form y)).
      rewrite pad_crop_adjoint. apply inner_eqbox; [apply eqbox_refl| apply crop_pad].
    Qed.

    (* iwt is the adjoint of fwt: <fwt x, c> = <x, iwt c> for EVERY coefficient array c *)
    Theorem iwt_is_adjoint (x c : farr) : oracle_adjoint ->
      inner csh (snd (fwt cshape_of W osh x)) c = inner osh x (snd (iwt Wr zsh osh c)).
    Proof.
      intros Hadj. unfold fwt, iwt. cbn [snd]. fold zsh. rewrite Hadj.
      rewrite (inner_eqbox R zsh _ (pad x) _ (Wr zsh c) (fwt_padded_form x) (eqbox_refl R zsh _)).
      rewrite pad_crop_adjoint. apply inner_eqbox; [apply eqbox_refl|].
      apply eqbox_sym. apply resize_gather_form; auto.
    Qed.

    (* the advertised coefficient shape is the shape of W on the padded shape *)
    Theorem wavelet_shape_is_fwt_shape (x : farr) :
      fst (fwt cshape_of W osh x) = wavelet_shape cshape_of osh.
    Proof. reflexivity. Qed.
  End Box.
End Wrap.

Lemma wavelet_shape_full (R : StarRing) (osh : list Z) (cshape_of : list Z -> list Z)
    (W : list Z -> (list Z -> R) -> list Z -> R) (x : list Z -> R) :
  fst (fwt cshape_of W osh x) = wavelet_shape cshape_of osh /\ wavelet_shape cshape_of osh = cshape_of (zshape osh).
Proof. split; reflexivity. Qed.
