(* proofs/Sense.v — coil batching does not change the SENSE operator. *)
From Coq Require Import ZArith List Lia Bool Ring.
From SV Require Import lib.Scalar lib.BigSum lib.NdArray model.Sense.
Import ListNotations.
Local Open Scope Z_scope.

Section P.
  Variable R : StarRing.
  Add Ring RringS : (SRth R).
  Notation farr := (list Z -> R).
  Variable F : farr -> farr.
  Variable maps sqw : farr.
  Local Open Scope sr_scope.

  (* forward: for EVERY batch size b >= 1 and every coil index c the batched evaluation equals the
     explicit encoding (index algebra  c = (c / b) * b + c mod b) *)
  Theorem sense_batch_forward b x c k : (0 < b)%Z ->
    sense_batched R F maps sqw b x (c :: k) = sense_explicit R F maps sqw x (c :: k).
  Proof.
    intros Hb. unfold sense_batched, sense_batch_part, sense_explicit, slice_maps.
    replace (c / b * b + c mod b)%Z with c; [reflexivity|].
    rewrite Z.mul_comm. apply Z.div_mod. lia.
  Qed.

  (* weighted data consistency: || sqrt(w) .* r ||^2 = sum w |r|^2 when sqrt(w) is real with square w *)
  Theorem weighted_norm s (w sw r : farr) :
    (forall k, sw k * sw k = w k) -> (forall k, conj (sw k) = sw k) ->
    inner s (fun k => sw k * r k) (fun k => sw k * r k) = sumB s (fun k => w k * (r k * conj (r k))).
  Proof.
    intros Hsq Hre. unfold inner. apply sumB_ext. intros k _.
    rewrite conj_mul, Hre. rewrite <- (Hsq k).
    generalize (sw k) (r k) (conj (r k)). intros a b c. ring.
  Qed.

  (* sums over coils split into batches of size b (last batch possibly partial) *)
  Lemma sumZ_cut n b (f : Z -> R) : (0 <= n <= b)%Z ->
    sumZ b (fun t => if (t <? n)%Z then f t else 0) = sumZ n f.
  Proof.
    intros H. replace b with (n + (b - n))%Z by lia. rewrite sumZ_split by lia.
    rewrite (sumZ_ext R n _ f).
    - rewrite (sumZ_none R (b - n)); [ring|]. intros i Hi. destruct (Z.ltb_spec (n + i) n); [lia|reflexivity].
    - intros i Hi. destruct (Z.ltb_spec i n); [reflexivity|lia].
  Qed.

  Lemma sumZ_chunks_nat (k : nat) : forall n b (f : Z -> R), (0 < b)%Z -> (0 <= n <= Z.of_nat k * b)%Z ->
    sumZ n f = sumZ (Z.of_nat k) (fun j => sumZ b (fun t => if (j * b + t <? n)%Z then f (j * b + t)%Z else 0)).
  Proof.
    induction k as [|k IH]; intros n b f Hb Hn.
    - replace n with 0%Z by lia. reflexivity.
    - unfold sumZ at 2. rewrite Nat2Z.id. rewrite sum_nat_shift.
      change (Z.of_nat 0) with 0%Z.
      destruct (Z.le_gt_cases n b) as [Hle|Hgt].
      + (* everything is in the first chunk *)
        rewrite (sumZ_ext R b _ (fun t => if (t <? n)%Z then f t else 0)) by (intros; rewrite Z.mul_0_l, Z.add_0_l; reflexivity).
        rewrite sumZ_cut by lia.
        rewrite sum_nat_none; [ring|]. intros j _. apply sumZ_none. intros t Ht.
        destruct (Z.ltb_spec (Z.of_nat (S j) * b + t) n); [nia|reflexivity].
      + rewrite (sumZ_ext R b _ f).
        2:{ intros t Ht. rewrite Z.mul_0_l, Z.add_0_l. destruct (Z.ltb_spec t n); [reflexivity|lia]. }
        replace n with (b + (n - b))%Z at 1 by lia. rewrite sumZ_split by lia. f_equal.
        rewrite (IH (n - b)%Z b (fun v => f (b + v)%Z) Hb) by lia.
        unfold sumZ at 1. rewrite Nat2Z.id. apply sum_nat_ext. intros j _.
        apply sumZ_ext. intros t Ht.
        replace (Z.of_nat (S j) * b + t)%Z with (b + (Z.of_nat j * b + t))%Z by lia.
        destruct (Z.ltb_spec (Z.of_nat j * b + t) (n - b)), (Z.ltb_spec (b + (Z.of_nat j * b + t)) n); try reflexivity; lia.
  Qed.

  Theorem sumZ_chunks n b (f : Z -> R) : (0 < b)%Z -> (0 <= n)%Z ->
    sumZ n f = sumZ ((n + b - 1) / b) (fun j => sumZ b (fun t => if (j * b + t <? n)%Z then f (j * b + t)%Z else 0)).
  Proof.
    intros Hb Hn.
    assert (Hq : (0 <= (n + b - 1) / b)%Z) by (apply Z.div_pos; lia).
    rewrite <- (Z2Nat.id ((n + b - 1) / b)) by exact Hq.
    apply sumZ_chunks_nat; [exact Hb|]. rewrite Z2Nat.id by exact Hq.
    pose proof (Z.mul_succ_div_gt (n + b - 1) b Hb). lia.
  Qed.

  (* adjoint: A^H y = sum_c conj(maps_c) .* F^H(sqrt(w) .* y_c); summing batch by batch (each batch summing its
     own coils, the last one partial) gives the same image for every batch size *)
  Variable FH : farr -> farr.
  Definition sense_adj_term (y : farr) (c : Z) (r : list Z) : R :=
    conj (maps (c :: r)) * FH (fun k => conj (sqw k) * y (c :: k)) r.

  Theorem sense_batch_adjoint nc b y r : (0 < b)%Z -> (0 <= nc)%Z ->
    sumZ nc (fun c => sense_adj_term y c r) =
    sumZ ((nc + b - 1) / b) (fun j => sumZ b (fun t => if (j * b + t <? nc)%Z then sense_adj_term y (j * b + t) r else 0)).
  Proof. intros. apply sumZ_chunks; assumption. Qed.
End P.
