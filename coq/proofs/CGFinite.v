(* CGFinite.v — finite termination of conjugate gradient: in a space of dimension <= n the exact
   solution is reached within n updates; and the second inclusion span{p_0..p_{k-1}} <= K_k.

   "dimension <= n" is the linear-algebra definition, stated on the abstract inner-product space:
       dim_le H n :=  any n+1 vectors f_0 .. f_n are linearly dependent
                      (exists c, not all of c_0..c_n zero, with sum_{i<=n} c_i f_i = 0).
   Instances (non-vacuity, proofs/RnSpace.v): R (n = 1), R^2 (n = 2) of proofs/IPSpace.v, and the
   coordinate spaces R^n for every n (nested pairs, [RnSpace n], [Rn_dim_le]).

   Consequences proved here, for an arbitrary self-adjoint A (linearity is derived):
     - [conj_family_has_null]: any n+1 pairwise A-orthogonal vectors contain a v with <v, A v> = 0;
     - [finite_core]: a vector orthogonal to n pairwise A-orthogonal directions with
       <p_i, A p_i> <> 0 is zero;
     - [cg_finite_solved]: on the model, n updates without breakdown (n <= max_iter; the x-only
       final update included) give A x_n = b;  [cg_finite_resid]: the tracked residual r_n = 0;
     - [cg_finite_then_breakdown]: an (n+1)-th update necessarily raises not_positive_definite;
     - [cg_run_solves]: the driver loop `while not done(): update()` with tol = 0, max_iter >= n
       and A positive definite performs at most n updates and returns x with A x = b;
     - [cg_span_eq_krylov]: span{p_0..p_{k-1}} = K_k(PA, P r_0) (both inclusions). *)
From Coq Require Import Reals Lra Lia ZArith Bool.
From SV Require Import model.Alg proofs.IPSpace proofs.CGBasic proofs.CG proofs.CGKrylov proofs.Driver.
Local Open Scope R_scope.

(* any n+1 vectors are linearly dependent *)
Definition dim_le (H : IPSpace) (n : nat) : Prop :=
  forall f : nat -> ipV H, exists c : nat -> R,
    (exists i, (i <= n)%nat /\ c i <> 0) /\ lincomb H f c (S n) = ip0 H.

Section FiniteMath.
  Variable H : IPSpace.
  Notation V := (ipV H).
  Notation "x +v y" := (ipadd H x y) (at level 50, left associativity).
  Notation "x -v y" := (ipsub H x y) (at level 50, left associativity).
  Notation "a *v x" := (ipscale H a x) (at level 40, left associativity).
  Notation "<< x , y >>" := (ipdot H x y) (at level 0, format "<< x ,  y >>").
  Notation O := (ip0 H).

  Lemma lincomb_ext_f (f g : nat -> V) c k :
    (forall i, (i < k)%nat -> f i = g i) -> lincomb H f c k = lincomb H g c k.
  Proof.
    induction k as [|k IH]; intros E; cbn [lincomb]; [reflexivity|].
    rewrite IH by (intros; apply E; lia). rewrite (E k) by lia. reflexivity.
  Qed.

  Lemma lincomb_dot_orth (f : nat -> V) c k t :
    (forall j, (j < k)%nat -> <<f j, t>> = 0) -> <<lincomb H f c k, t>> = 0.
  Proof.
    intros E. rewrite (ip_dot_sym H). apply orth_lincomb. intros i Hi. rewrite (ip_dot_sym H). apply E, Hi.
  Qed.

  (* only the i-th term survives against a vector orthogonal to all the other f_j *)
  Lemma lincomb_dot_single (f : nat -> V) c k i t :
    (i < k)%nat -> (forall j, (j < k)%nat -> j <> i -> <<f j, t>> = 0) ->
    <<lincomb H f c k, t>> = c i * <<f i, t>>.
  Proof.
    induction k as [|k IH]; intros Hi E; [lia|]. cbn [lincomb]. ipnorm H.
    destruct (Nat.eq_dec i k) as [->|Hne].
    - rewrite lincomb_dot_orth; [ring|]. intros j Hj. apply E; lia.
    - rewrite IH; [|lia|intros j Hj Hji; apply E; lia]. rewrite (E k) by lia. ring.
  Qed.

  Variable A : V -> V.
  Hypothesis Asa : selfadjoint H A.
  Variable n : nat.
  Hypothesis Hdim : dim_le H n.

  (* the finite-dimension hypothesis in the form used for CG: n+1 pairwise A-orthogonal vectors
     contain one with zero A-energy (so, for positive definite A, the zero vector) *)
  Theorem conj_family_has_null (f : nat -> V) :
    (forall i j, (i < j)%nat -> (j <= n)%nat -> <<f j, A (f i)>> = 0) ->
    exists i, (i <= n)%nat /\ <<f i, A (f i)>> = 0.
  Proof.
    intros Hc. destruct (Hdim f) as (c & (i & Hi & Hci) & E). exists i. split; [exact Hi|].
    assert (Z : <<lincomb H f c (S n), A (f i)>> = 0) by (rewrite E; apply (dot_0_l H)).
    rewrite (lincomb_dot_single f c (S n) i) in Z; [|lia|].
    - apply Rmult_integral in Z. destruct Z; [contradiction|assumption].
    - intros j Hj Hji. destruct (Nat.lt_ge_cases i j) as [L|G].
      + apply Hc; lia.
      + rewrite <- (Asa (f j) (f i)), (ip_dot_sym H). apply Hc; lia.
  Qed.

  Corollary conj_family_has_zero (f : nat -> V) :
    posdef H A ->
    (forall i j, (i < j)%nat -> (j <= n)%nat -> <<f j, A (f i)>> = 0) ->
    exists i, (i <= n)%nat /\ f i = O.
  Proof.
    intros Apd Hc. destruct (conj_family_has_null f Hc) as (i & Hi & Z).
    exists i. split; [exact Hi|]. apply (posdef_zero H A Apd), Z.
  Qed.

  (* n conjugate directions with non-zero curvature span the space: what is orthogonal to all of
     them is zero.  (A need not be definite.) *)
  Theorem finite_core (f : nat -> V) (r : V) :
    (forall i, (i < n)%nat -> <<r, f i>> = 0) ->
    (forall i, (i < n)%nat -> <<f i, A (f i)>> <> 0) ->
    (forall i j, (i < j)%nat -> (j < n)%nat -> <<f j, A (f i)>> = 0) ->
    r = O.
  Proof.
    intros Hr Hp Hc.
    set (g := fun i => if (i <? n)%nat then f i else r).
    destruct (Hdim g) as (c & (i & Hi & Hci) & E).
    cbn [lincomb] in E.
    assert (Eg : lincomb H g c n = lincomb H f c n).
    { apply lincomb_ext_f. intros j Hj. unfold g. apply Nat.ltb_lt in Hj. rewrite Hj. reflexivity. }
    assert (Egn : g n = r) by (unfold g; rewrite Nat.ltb_irrefl; reflexivity).
    rewrite Eg, Egn in E.
    destruct (Req_dec (c n) 0) as [Z|NZ].
    - exfalso. assert (Hin : (i < n)%nat).
      { destruct (Nat.eq_dec i n) as [->|]; [contradiction|lia]. }
      assert (Z2 : <<lincomb H f c n +v c n *v r, A (f i)>> = 0) by (rewrite E; apply (dot_0_l H)).
      ipnorm_in H Z2. rewrite Z in Z2.
      rewrite (lincomb_dot_single f c n i) in Z2; [|exact Hin|].
      + assert (Z3 : c i * <<f i, A (f i)>> = 0) by lra.
        apply Rmult_integral in Z3. destruct Z3; [contradiction|]. apply (Hp i Hin). assumption.
      + intros j Hj Hji. destruct (Nat.lt_ge_cases i j) as [L|G].
        * apply Hc; lia.
        * rewrite <- (Asa (f j) (f i)), (ip_dot_sym H). apply Hc; lia.
    - apply ip_dot_def.
      assert (Z2 : <<lincomb H f c n +v c n *v r, r>> = 0) by (rewrite E; apply (dot_0_l H)).
      ipnorm_in H Z2. rewrite lincomb_dot_orth in Z2.
      + assert (Z3 : c n * <<r, r>> = 0) by lra.
        apply Rmult_integral in Z3. destruct Z3; [contradiction|assumption].
      + intros j Hj. rewrite (ip_dot_sym H). apply Hr, Hj.
  Qed.
End FiniteMath.

(* ------------------------------------------------------------------------- *)
(* the model trajectory                                                        *)
(* ------------------------------------------------------------------------- *)
Section FiniteModel.
  Variable H : IPSpace.
  Notation V := (ipV H).
  Notation E := (ops_of H).
  Notation "x +v y" := (ipadd H x y) (at level 50, left associativity).
  Notation "x -v y" := (ipsub H x y) (at level 50, left associativity).
  Notation "a *v x" := (ipscale H a x) (at level 40, left associativity).
  Notation "<< x , y >>" := (ipdot H x y) (at level 0, format "<< x ,  y >>").

  Variable A : V -> V.
  Variable b : V.
  Variable P : option (V -> V).
  Variable x0 : V.
  Variable max_iter : Z.
  Variable tol : R.
  Hypothesis Asa : selfadjoint H A.
  Hypothesis HP : P_ok H P.
  Variable n : nat.
  Hypothesis Hdim : dim_le H n.

  Notation PfM := (Pf H P).
  Notation sxM := (sx H A b P x0 max_iter tol).
  Notation srM := (sr H A b P x0 max_iter tol).
  Notation spM := (sp H A b P x0 max_iter tol).
  Notation srzM := (srz H A b P x0 max_iter tol).
  Notation stM := (st H A b P x0 max_iter tol).
  Notation spApM := (spAp H A b P x0 max_iter tol).
  Notation healthyM := (healthy H A b P x0 max_iter tol).

  Lemma healthy_le j k : (j <= k)%nat -> healthyM k -> healthyM j.
  Proof.
    intros Hjk (Hk & Hn). split; [lia|]. apply (st_npd_le H A b P x0 max_iter tol j k Hjk Hn).
  Qed.

  (* the true residual after k+1 updates without breakdown (the last one may be the x-only final
     update) is orthogonal to p_0 .. p_k *)
  Lemma true_resid_orth k :
    (Z.of_nat (S k) <= Z.max 0 max_iter)%Z -> cg_npd (stM (S k)) = false ->
    forall i, (i <= k)%nat -> <<b -v A (sxM (S k)), spM i>> = 0.
  Proof.
    intros Hk Hn i Hi. destruct (st_npd_prev H A b P x0 max_iter tol k Hn) as (Hn' & Hp).
    assert (Hh : healthyM k) by (split; [lia|exact Hn']).
    assert (Hx : sxM (S k) = sxM k +v alpha H A spM srzM k *v spM k).
    { destruct (Z_lt_le_dec (Z.of_nat k) (max_iter - 1)) as [Hlt|Hge].
      - apply (model_step H A b P x0 max_iter tol k Hlt Hn).
      - apply (model_xstep H A b P x0 max_iter tol k Hge Hn). }
    apply (next_orth H A PfM b Asa sxM srM spM srzM k (sxM (S k))
             (healthy_inv H A b P x0 max_iter tol Asa HP k Hh) Hp Hx i Hi).
  Qed.

  (* [core] finite termination: n updates without breakdown in dimension <= n solve the system.
     A is only required to be self-adjoint; n <= max_iter, so the x-only final update is covered. *)
  Theorem cg_finite_solved :
    (Z.of_nat n <= Z.max 0 max_iter)%Z -> cg_npd (stM n) = false -> A (sxM n) = b.
  Proof.
    intros Hk Hn. symmetry. apply (sub_eq0 H).
    apply (finite_core H A Asa n Hdim spM).
    - intros i Hi. destruct n as [|m]; [lia|]. apply true_resid_orth; [exact Hk|exact Hn|lia].
    - intros i Hi.
      assert (Hn1 : cg_npd (stM (S i)) = false) by (apply (st_npd_le H A b P x0 max_iter tol (S i) n); [lia|exact Hn]).
      destruct (st_npd_prev H A b P x0 max_iter tol i Hn1) as (_ & Hp). unfold spAp in Hp. lra.
    - intros i j Hij Hj.
      assert (Hh : healthyM j).
      { split; [lia|]. apply (st_npd_le H A b P x0 max_iter tol j n); [lia|exact Hn]. }
      apply (cg_conj H A b P x0 max_iter tol Asa HP i j Hij Hh).
  Qed.

  (* ... and while r is still tracked (n <= max_iter - 1) the tracked residual is 0 *)
  Theorem cg_finite_resid : healthyM n -> srM n = ip0 H /\ A (sxM n) = b.
  Proof.
    intros Hh. assert (Sol : A (sxM n) = b) by (apply cg_finite_solved; [destruct Hh; lia|apply Hh]).
    split; [|exact Sol].
    rewrite (cg_resid_inv H A b P x0 max_iter tol Asa HP n Hh), Sol. apply sub_self.
  Qed.

  (* a (n+1)-th update without breakdown is impossible in dimension <= n *)
  Theorem cg_finite_then_breakdown :
    (Z.of_nat (S n) <= Z.max 0 max_iter)%Z -> cg_npd (stM (S n)) = true.
  Proof.
    intros Hk. destruct (cg_npd (stM (S n))) eqn:Hn; [reflexivity|exfalso].
    destruct (st_npd_prev H A b P x0 max_iter tol n Hn) as (Hn' & Hp).
    assert (Hh : healthyM n) by (split; [lia|exact Hn']).
    destruct (cg_finite_resid Hh) as (R0 & _).
    pose proof (healthy_inv H A b P x0 max_iter tol Asa HP n Hh) as I.
    assert (Z0 : srzM n = 0).
    { rewrite (inv_rz _ _ _ _ _ _ _ _ _ I), R0. apply (dot_0_l H). }
    pose proof (inv_p0 _ _ _ _ _ _ _ _ _ I Z0) as P0.
    unfold spAp in Hp. rewrite P0, (dot_0_l H) in Hp. lra.
  Qed.
End FiniteModel.

(* ------------------------------------------------------------------------- *)
(* the driver loop with tol = 0                                                *)
(* ------------------------------------------------------------------------- *)
Section FiniteRun.
  Variable H : IPSpace.
  Notation V := (ipV H).
  Notation E := (ops_of H).
  Notation "<< x , y >>" := (ipdot H x y) (at level 0, format "<< x ,  y >>").

  Variable A : V -> V.
  Variable b : V.
  Variable P : option (V -> V).
  Variable x0 : V.
  Variable max_iter : Z.
  Hypothesis Asa : selfadjoint H A.
  Hypothesis Apd : posdef H A.
  Hypothesis HP : P_ok H P.
  Variable n : nat.
  Hypothesis Hdim : dim_le H n.
  Hypothesis Hmax : (Z.of_nat n <= max_iter)%Z.

  Notation sxM := (sx H A b P x0 max_iter 0).
  Notation srM := (sr H A b P x0 max_iter 0).
  Notation spM := (sp H A b P x0 max_iter 0).
  Notation srzM := (srz H A b P x0 max_iter 0).
  Notation stM := (st H A b P x0 max_iter 0).
  Notation spApM := (spAp H A b P x0 max_iter 0).
  Notation healthyM := (healthy H A b P x0 max_iter 0).
  Notation C := (CGClass E A P).
  Notation s0M := (cg_init E A b P x0 max_iter 0).

  Lemma st_tol k : cg_tol (stM k) = 0.
  Proof.
    induction k as [|k IH]; [reflexivity|].
    rewrite (st_S H A b P x0 max_iter 0 k), cg_update_tol. exact IH.
  Qed.

  (* done() = false, spelled out *)
  Lemma not_done_facts k :
    done C (stM k) = false ->
    (Z.of_nat k < max_iter)%Z /\ cg_npd (stM k) = false /\ 0 < cg_resid (stM k).
  Proof.
    unfold done. cbn [done_ CGClass]. unfold cg__done.
    rewrite (st_iter H A b P x0 max_iter 0 k), (st_max_iter H A b P x0 max_iter 0 k), st_tol.
    intros D. apply orb_false_iff in D. destruct D as (D & D3). apply orb_false_iff in D. destruct D as (D1 & D2).
    apply Z.leb_gt in D1. cbn [sleb ops_of] in D3. apply Rleb_false in D3. repeat split; assumption.
  Qed.

  Lemma resid_zero_of_solved k : healthyM k -> srM k = ip0 H -> cg_resid (stM k) = 0.
  Proof.
    intros Hh R0. rewrite (st_resid H A b P x0 max_iter 0 k).
    pose proof (healthy_inv H A b P x0 max_iter 0 Asa HP k Hh) as I.
    rewrite (inv_rz _ _ _ _ _ _ _ _ _ I), R0, (dot_0_l H). apply sqrt_0.
  Qed.

  (* [core] "the exact solution is reached within n updates in n dimensions":
     ConjugateGradient(A, b, x0, P, max_iter >= n, tol = 0) driven by `while not done(): update()`
     performs at most n updates and holds x with A x = b when the loop exits. *)
  Theorem cg_run_solves :
    (run_updates C s0M <= n)%nat /\ A (cg_x (cg_run E A P s0M)) = b.
  Proof.
    pose proof (driver_bound C _ (CG_laws E A P) s0M) as DB. cbv zeta in DB.
    destruct DB as (Erun & Hdone & Hnot & _ & Hbound & _ & _).
    set (N := run_updates C s0M) in *. clearbody N.
    change (iter_update C N s0M) with (stM N) in Erun.
    change (get_iter C s0M) with 0%Z in Hbound. change (get_max_iter C s0M) with max_iter in Hbound.
    assert (HN : (N <= n)%nat).
    { destruct (Nat.le_gt_cases N n) as [|Hgt]; [assumption|exfalso].
      specialize (Hnot n Hgt). change (iter_update C n s0M) with (stM n) in Hnot.
      destruct (not_done_facts n Hnot) as (D1 & D2 & D3).
      assert (Hh : healthyM n) by (split; [lia|exact D2]).
      destruct (cg_finite_resid H A b P x0 max_iter 0 Asa HP n Hdim Hh) as (R0 & _).
      rewrite (resid_zero_of_solved n Hh R0) in D3. lra. }
    split; [exact HN|].
    unfold cg_run. rewrite Erun. change (cg_x (stM N)) with (sxM N).
    destruct (cg_npd (stM N)) eqn:Hflag.
    - (* the breakdown guard fired in the last update: only at the solution *)
      destruct N as [|m]; [discriminate Hflag|].
      assert (Hm : done C (iter_update C m s0M) = false) by (apply Hnot; lia).
      change (iter_update C m s0M) with (stM m) in Hm.
      destruct (not_done_facts m Hm) as (D1 & D2 & _).
      assert (Hh : healthyM m) by (split; [lia|exact D2]).
      assert (Hp : spApM m <= 0).
      { destruct (Rle_dec (spApM m) 0) as [|Hgt]; [assumption|exfalso].
        assert (Hp : 0 < spApM m) by lra.
        rewrite (st_S H A b P x0 max_iter 0 m) in Hflag.
        destruct (Z_lt_le_dec (cg_iter (stM m)) (cg_max_iter (stM m) - 1)) as [Hlt|Hge].
        - pose proof (upd_full H A P (stM m) Hp Hlt) as U. cbv zeta in U.
          destruct U as (_ & _ & _ & _ & _ & U6). rewrite U6, D2 in Hflag. discriminate.
        - pose proof (upd_final H A P (stM m) Hp Hge) as U. cbv zeta in U.
          destruct U as (_ & _ & _ & _ & _ & U6). rewrite U6, D2 in Hflag. discriminate. }
      destruct (cg_breakdown_only_when_solved H A b P x0 max_iter 0 Asa HP m Apd Hh Hp) as (_ & Sol).
      assert (Hle : Rleb (spApM m) 0 = true) by (apply Rleb_true; exact Hp).
      pose proof (cg_breakdown_unchanged E A P (stM m) Hle) as B. cbv zeta in B.
      destruct B as (B1 & _). unfold sx. rewrite (st_S H A b P x0 max_iter 0 m), B1. exact Sol.
    - unfold done in Hdone. rewrite Erun in Hdone. cbn [done_ CGClass] in Hdone. unfold cg__done in Hdone.
      rewrite (st_iter H A b P x0 max_iter 0 N), (st_max_iter H A b P x0 max_iter 0 N), st_tol, Hflag in Hdone.
      rewrite orb_false_r in Hdone. apply orb_true_iff in Hdone. destruct Hdone as [Hit|Hres].
      + (* budget exhausted: then N = n *)
        apply Z.leb_le in Hit.
        assert (N = n) by lia. subst N.
        apply (cg_finite_solved H A b P x0 max_iter 0 Asa HP n Hdim); [lia|exact Hflag].
      + cbn [sleb ops_of] in Hres. apply Rleb_true in Hres.
        destruct (Z_lt_le_dec (Z.of_nat N) max_iter) as [Hlt|Hge].
        * assert (Hh : healthyM N) by (split; [lia|exact Hflag]).
          assert (R0 : cg_resid (stM N) = 0).
          { rewrite (st_resid H A b P x0 max_iter 0 N) in *. pose proof (sqrt_pos (srzM N)). lra. }
          destruct (cg_resid0_fixed H A b P x0 max_iter 0 Asa HP N Hh R0) as (_ & Sol & _). exact Sol.
        * assert (N = n) by lia. subst N.
          apply (cg_finite_solved H A b P x0 max_iter 0 Asa HP n Hdim); [lia|exact Hflag].
  Qed.
End FiniteRun.

(* ------------------------------------------------------------------------- *)
(* span{p_0..p_{k-1}} = K_k(PA, P r_0): the inclusion  span <= K_k               *)
(* (the other one is kcomb_in_span in proofs/CGKrylov.v)                       *)
(* ------------------------------------------------------------------------- *)
Section KrylovEq.
  Variable H : IPSpace.
  Notation V := (ipV H).
  Notation "x +v y" := (ipadd H x y) (at level 50, left associativity).
  Notation "a *v x" := (ipscale H a x) (at level 40, left associativity).

  Variables A Pf : V -> V.
  Variable b : V.
  Hypothesis Asa : selfadjoint H A.
  Hypothesis Psa : selfadjoint H Pf.
  Hypothesis Ppd : posdef H Pf.
  Variables X Rr Pp : nat -> V.
  Variable RZ : nat -> R.
  Variable K : nat.
  Hypothesis Hinit : init_eqs H A Pf b X Rr Pp RZ.
  Hypothesis Hsteps : forall i, (i < K)%nat -> step_eqs H A Pf X Rr Pp RZ i.

  Notation kr := (kry H A Pf Rr).
  Notation ks := (in_span H kr).

  Lemma kcomb_lincomb d k : kcomb H A Pf Rr d k = lincomb H kr d k.
  Proof. induction k as [|k IH]; cbn [kcomb lincomb]; [reflexivity|]. rewrite IH. reflexivity. Qed.

  (* PA maps K_m into K_{m+1} *)
  Lemma PA_kspan v m : ks v m -> ks (Pf (A v)) (S m).
  Proof.
    intros (c & ->). induction m as [|m IH]; cbn [lincomb].
    - rewrite (sa_0 H A Asa), (sa_0 H Pf Psa). apply span_zero.
    - rewrite (sa_add H A Asa), (sa_scale H A Asa), (sa_add H Pf Psa), (sa_scale H Pf Psa). apply span_add.
      + apply span_S, IH.
      + apply span_scale. change (Pf (A (kr m))) with (kr (S m)). apply span_p. lia.
  Qed.

  (* p_i and z_i = P r_i lie in K_{i+1} *)
  Lemma pz_in_kspan i : (i <= K)%nat -> ks (Pp i) (S i) /\ ks (Pf (Rr i)) (S i).
  Proof.
    induction i as [|i IH]; intros Hi.
    - destruct Hinit as (_ & Hp & _). rewrite Hp. split; apply (span_p H kr 0 1); lia.
    - destruct IH as (IHp & IHz); [lia|].
      destruct (Hsteps i) as (_ & _ & Hr & _ & Hpp); [lia|].
      assert (Z : ks (Pf (Rr (S i))) (S (S i))).
      { rewrite Hr, (sa_add H Pf Psa), (sa_scale H Pf Psa). apply span_add.
        - apply span_S, IHz.
        - apply span_scale, PA_kspan, IHp. }
      split; [|exact Z].
      rewrite Hpp. apply span_add; [apply span_scale, span_S, IHp|exact Z].
  Qed.

  Lemma lincomb_in_kspan c k : (k <= S K)%nat -> ks (lincomb H Pp c k) k.
  Proof.
    induction k as [|k IH]; intros Hk; cbn [lincomb]; [apply span_zero|].
    apply span_add; [apply span_S, IH; lia|apply span_scale, pz_in_kspan; lia].
  Qed.

  (* [core] the two subspaces coincide, for every k up to K+1 *)
  Theorem math_span_eq_krylov k : (k <= S K)%nat ->
    (forall c, exists d, lincomb H Pp c k = kcomb H A Pf Rr d k) /\
    (forall d, exists c, kcomb H A Pf Rr d k = lincomb H Pp c k).
  Proof.
    intros Hk. split.
    - intros c. destruct (lincomb_in_kspan c k Hk) as (d & E). exists d. rewrite kcomb_lincomb. exact E.
    - intros d. apply (kcomb_in_span H A Pf b Asa Psa Ppd X Rr Pp RZ K Hinit Hsteps d k Hk).
  Qed.
End KrylovEq.

Section KrylovEqModel.
  Variable H : IPSpace.
  Notation V := (ipV H).
  Variable A : V -> V.
  Variable b : V.
  Variable P : option (V -> V).
  Variable x0 : V.
  Variable max_iter : Z.
  Variable tol : R.
  Hypothesis Asa : selfadjoint H A.
  Hypothesis HP : P_ok H P.

  Notation PfM := (Pf H P).
  Notation sxM := (sx H A b P x0 max_iter tol).
  Notation srM := (sr H A b P x0 max_iter tol).
  Notation spM := (sp H A b P x0 max_iter tol).
  Notation srzM := (srz H A b P x0 max_iter tol).

  (* on the model: while the state K is healthy, span{p_0..p_{k-1}} = K_k(PA, P r_0) for k <= K+1 *)
  Theorem cg_span_eq_krylov K k :
    healthy H A b P x0 max_iter tol K -> (k <= S K)%nat ->
    (forall c, exists d, lincomb H spM c k = kcomb H A PfM srM d k) /\
    (forall d, exists c, kcomb H A PfM srM d k = lincomb H spM c k).
  Proof.
    intros Hh Hk.
    apply (math_span_eq_krylov H A PfM b Asa (Pf_sa H P HP) (Pf_pd H P HP) sxM srM spM srzM K
             (model_init H A b P x0 max_iter tol) (healthy_steps H A b P x0 max_iter tol K Hh) k Hk).
  Qed.
End KrylovEqModel.

(* the definition, spelled out (for the statement files) *)
Lemma dim_le_unfold (H : IPSpace) (n : nat) :
  dim_le H n <->
  (forall f : nat -> ipV H, exists c : nat -> R,
     (exists i, (i <= n)%nat /\ c i <> 0) /\ lincomb H f c (S n) = ip0 H).
Proof. split; intros X; exact X. Qed.
