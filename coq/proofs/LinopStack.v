(* LinopStack.v — the stacking combinators Hstack / Vstack / Diag of the deep embedding (model/Linop.v).

   C03: their _apply ARE the block-row / block-column / block-diagonal matrices whose split points are the prefix
        sums computed by _hstack_params / _vstack_params (stack_params_prefix_sums, stack_split,
        hstack_is_block_row, vstack_is_block_column, diag_is_block_diagonal, *_partition, *_total);
   C01: their _adjoint_linop is their true adjoint, for axis = Some ax (every integer ax, normalised mod ndim as
        python does) and axis = None (operands flattened), oaxis / iaxis of Diag independently
        (apair_hstack, apair_vstack, apair_diag), given for every member a:  <a x, y> = <x, a^H y>  and
        shapes (adj a) = swap (shapes a)  [adj_shape_ok];
        adj_shape_ok is proved for every leaf class except Transpose-with-axes / MatMul / RightMatMul /
        array-Multiply (adj_shape_leaf) and is preserved by all six combinators, including python's flattening of
        nested compositions (adj_shape_conj/add/compose/hstack/vstack/diag, adj_shape_tree);
        adj_correct_stack: LinopTheory.adj_correct with the induction going through Hstack/Vstack/Diag as well
        (node hypothesis only at the leaves); adj_correct_stack_proven: no hypothesis at all for trees over the
        proven leaf classes of LinopScale.proven_node.
   No locality hypothesis (D a reads its input only inside the index box) was needed: member n is applied to
   x o emb_n, and apair a_n holds for every input array.
   All statements are at full strength; nothing is assumed beyond the stated hypotheses (Print Assumptions: closed). *)
From Coq Require Import ZArith List Lia Bool Ring.
From SV Require Import lib.Scalar lib.BigSum lib.LoopIR lib.NdArray lib.Gather model.Rearrange model.Block model.Linop
  proofs.LinopTheory proofs.LinopLeaves proofs.LinopScale.
Import ListNotations.
Local Open Scope Z_scope.

(* ------------------------------------------------------------------ index shifting *)
Definition shift_aux (d a st : Z) (idx : list Z) : list Z :=
  mapi_aux (fun d k => if d =? a then k + st else k) d idx.
Definition shift_idx (a st : Z) (idx : list Z) : list Z :=
  mapi (fun d k => if d =? a then k + st else k) idx.

Lemma shift_idx_aux a st idx : shift_idx a st idx = shift_aux 0 a st idx.
Proof. reflexivity. Qed.

Lemma shift_aux_id d a st idx : a < d -> shift_aux d a st idx = idx.
Proof.
  revert d; induction idx as [|k idx IH]; intros d H; [reflexivity|].
  unfold shift_aux in *. simpl. rewrite IH by lia. destruct (Z.eqb_spec d a); [lia|reflexivity].
Qed.

Lemma shift_aux_zero d a idx : shift_aux d a 0 idx = idx.
Proof.
  revert d; induction idx as [|k idx IH]; intros d; [reflexivity|].
  unfold shift_aux in *. simpl. rewrite IH. destruct (d =? a); f_equal; lia.
Qed.

Lemma shift_aux_shift d a s t idx : shift_aux d a s (shift_aux d a t idx) = shift_aux d a (t + s) idx.
Proof.
  revert d; induction idx as [|k idx IH]; intros d; [reflexivity|].
  unfold shift_aux in *. simpl. rewrite IH. destruct (d =? a); f_equal; lia.
Qed.

Lemma shift_aux_length d a s idx : length (shift_aux d a s idx) = length idx.
Proof. revert d; induction idx as [|k idx IH]; intros d; [reflexivity|]. unfold shift_aux in *. simpl. rewrite IH. reflexivity. Qed.

Lemma setZ_setZ l k v w : setZ (setZ l k v) k w = setZ l k w.
Proof. revert k; induction l as [|x l IH]; intros [|k]; simpl; try reflexivity. rewrite IH. reflexivity. Qed.

Lemma setZ_same l k : setZ l k (nth k l 0) = l.
Proof. revert k; induction l as [|x l IH]; intros [|k]; simpl; try reflexivity. rewrite IH. reflexivity. Qed.

Lemma setZ_length l k v : length (setZ l k v) = length l.
Proof. revert k; induction l as [|x l IH]; intros [|k]; simpl; try reflexivity. rewrite IH. reflexivity. Qed.

Lemma nth_setZ l k v : (k < length l)%nat -> nth k (setZ l k v) 0 = v.
Proof. revert k; induction l as [|x l IH]; intros [|k]; simpl; intros H; try lia. apply IH. lia. Qed.

Lemma nth_setZ_other l k j v : j <> k -> nth j (setZ l k v) 0 = nth j l 0.
Proof.
  revert k j; induction l as [|x l IH]; intros [|k] [|j]; simpl; intros H; try reflexivity; try congruence.
  apply IH. congruence.
Qed.

(* two lists that agree off position k become equal once position k is overwritten *)
Lemma setZ_agree l1 l2 k v : length l1 = length l2 ->
  (forall j, (j < length l1)%nat -> j <> k -> nth j l1 0 = nth j l2 0) -> setZ l1 k v = setZ l2 k v.
Proof.
  revert l2 k; induction l1 as [|x l1 IH]; intros [|y l2] k; simpl; try discriminate; intros L H; [reflexivity|].
  destruct k as [|k]; simpl.
  - f_equal. apply (nth_ext _ _ 0 0); [lia|]. intros j Hj. apply (H (S j)); lia.
  - f_equal; [apply (H O); lia|]. apply IH; [lia|]. intros j Hj Hne. apply (H (S j)); lia.
Qed.

(* prefix sums: psums a [v0; v1; v2] = [a; a+v0; a+v0+v1] *)
Fixpoint psums (acc : Z) (l : list Z) : list Z :=
  match l with [] => [] | v :: l' => acc :: psums (acc + v) l' end.
Fixpoint sumlist (l : list Z) : Z := match l with [] => 0 | v :: l' => v + sumlist l' end.

Lemma psums_length acc l : length (psums acc l) = length l.
Proof. revert acc; induction l; intros; simpl; auto. Qed.

Section Parts.
  Variable R : StarRing.
  Add Ring RringP : (SRth R).
  Notation farr := (list Z -> R).
  Local Open Scope sr_scope.

  (* sum over the members of a list paired with their start offsets *)
  Fixpoint sum_parts {A} (l : list A) (starts : list Z) (F : A -> Z -> R) : R :=
    match l, starts with
    | a :: l', st :: starts' => F a st + sum_parts l' starts' F
    | _, _ => 0
    end.

  Lemma sum_parts_ext {A} (l : list A) starts F G :
    (forall a st, In (a, st) (combine l starts) -> F a st = G a st) -> sum_parts l starts F = sum_parts l starts G.
  Proof.
    revert starts; induction l as [|a l IH]; intros [|st starts] H; simpl; try reflexivity.
    rewrite (H a st) by (left; reflexivity). rewrite IH; [reflexivity|]. intros; apply H; right; assumption.
  Qed.

  Lemma sum_parts_map {A B} (g : A -> B) (l : list A) starts F :
    sum_parts (map g l) starts F = sum_parts l starts (fun a st => F (g a) st).
  Proof. revert starts; induction l as [|a l IH]; intros [|st starts]; simpl; try reflexivity. rewrite IH. reflexivity. Qed.

  Lemma sumB_sum_parts {A} s (l : list A) starts (G : A -> Z -> farr) :
    sumB s (fun o => sum_parts l starts (fun a st => G a st o)) = sum_parts l starts (fun a st => sumB s (G a st)).
  Proof.
    revert starts; induction l as [|a l IH]; intros [|st starts]; simpl; try apply sumB_zero.
    rewrite sumB_add, IH. reflexivity.
  Qed.

  Lemma inner_sum_parts_l {A} s (l : list A) starts (G : A -> Z -> farr) y :
    inner s (fun o => sum_parts l starts (fun a st => G a st o)) y = sum_parts l starts (fun a st => inner s (G a st) y).
  Proof.
    unfold inner. rewrite <- sumB_sum_parts. apply sumB_ext. intros o _.
    revert starts; induction l as [|a l IH]; intros [|st starts]; simpl; try ring. rewrite <- IH. ring.
  Qed.

  Lemma inner_sum_parts_r {A} s (l : list A) starts (G : A -> Z -> farr) x :
    inner s x (fun o => sum_parts l starts (fun a st => G a st o)) = sum_parts l starts (fun a st => inner s x (G a st)).
  Proof.
    unfold inner. rewrite <- sumB_sum_parts. apply sumB_ext. intros o _.
    revert starts; induction l as [|a l IH]; intros [|st starts]; simpl; try (rewrite conj_zero; ring).
    rewrite <- IH, conj_add. ring.
  Qed.

  (* ---------------------------------------------------------------- splitting a box sum along one axis *)
  Lemma sumB_zero_dim S k (f : farr) : (k < length S)%nat -> nth k S 0%Z = 0%Z -> sumB S f = 0.
  Proof.
    revert k f; induction S as [|n S IH]; intros [|k] f Hk E; simpl in *; try lia.
    - subst n. apply sumZ_nonpos. lia.
    - apply sumZ_none. intros i _. apply (IH k); [lia|exact E].
  Qed.

  Lemma sumB_split2 S k d u v (f : farr) : (k < length S)%nat -> (0 <= u)%Z -> (0 <= v)%Z ->
    sumB (setZ S k (u + v)%Z) f =
    sumB (setZ S k u) f + sumB (setZ S k v) (fun j => f (shift_aux d (d + Z.of_nat k) u j)).
  Proof.
    revert k d f; induction S as [|n S IH]; intros [|k] d f Hk Hu Hv; simpl in Hk; try lia.
    - simpl. rewrite sumZ_split by assumption. f_equal. apply sumZ_ext. intros i _. apply sumB_ext. intros idx _.
      f_equal. unfold shift_aux. simpl. replace (d + 0)%Z with d by lia. rewrite Z.eqb_refl.
      fold (shift_aux (d + 1) d u idx). rewrite shift_aux_id by lia. f_equal. lia.
    - simpl. rewrite <- sumZ_add. apply sumZ_ext. intros i _.
      rewrite (IH k (d + 1)%Z) by (try lia). f_equal. apply sumB_ext. intros idx _. f_equal.
      unfold shift_aux. simpl. destruct (Z.eqb_spec d (d + Z.pos (Pos.of_succ_nat k))); [lia|].
      f_equal. f_equal. 
      replace (d + 1 + Z.of_nat k)%Z with (d + Z.pos (Pos.of_succ_nat k))%Z by lia. reflexivity.
  Qed.

  (* general: sizes vs along axis k, starting offset st0 *)
  Lemma sumB_split_list S k vs : (k < length S)%nat -> Forall (fun v => 0 <= v)%Z vs ->
    forall st0 (f : farr),
    sumB (setZ S k (sumlist vs)) (fun j => f (shift_idx (Z.of_nat k) st0 j)) =
    sum_parts vs (psums st0 vs) (fun v st => sumB (setZ S k v) (fun j => f (shift_idx (Z.of_nat k) st j))).
  Proof.
    intros Hk Hvs. induction Hvs as [|v vs Hv Hvs IH]; intros st0 f.
    - simpl. apply (sumB_zero_dim _ k); [rewrite setZ_length; exact Hk| apply nth_setZ; exact Hk].
    - assert (Hs : (0 <= sumlist vs)%Z) by (clear -Hvs; induction Hvs; simpl; lia).
      cbn [sumlist psums sum_parts]. rewrite (sumB_split2 S k 0) by assumption. f_equal.
      rewrite <- IH. apply sumB_ext. intros j _. f_equal. rewrite !shift_idx_aux.
      replace (0 + Z.of_nat k)%Z with (Z.of_nat k) by lia. rewrite shift_aux_shift. replace (v + st0)%Z with (st0 + v)%Z by lia. reflexivity.
  Qed.
End Parts.
(* ------------------------------------------------------------------ what stack_loop computes *)
Lemma stack_loop_spec ndim a : 0 <= a < Z.of_nat ndim ->
  forall rest acc idx indices S ind,
  stack_loop ndim a acc idx indices rest = Ok (S, ind) -> length acc = ndim ->
  ind = indices ++ psums idx (map (fun s => getZ s a) rest) /\
  S = setZ acc (Z.to_nat a) (getZ acc a + sumlist (map (fun s => getZ s a) rest)) /\
  Forall (fun s => length s = ndim /\ forall v, setZ s (Z.to_nat a) v = setZ acc (Z.to_nat a) v) rest.
Proof.
  intros Ha. induction rest as [|shape rest IH]; intros acc idx indices S ind H L.
  - simpl in H. inversion H; subst. simpl. rewrite app_nil_r, Z.add_0_r. unfold getZ. rewrite setZ_same. auto.
  - simpl in H. destruct (Nat.eqb (length shape) ndim) eqn:El; simpl in H; [|discriminate].
    apply Nat.eqb_eq in El.
    destruct (forallb (fun i => (i =? a) || (getZ shape i =? getZ acc i)) (zrange 0 (Z.of_nat ndim) 1)) eqn:Eok;
      simpl in H; [|discriminate].
    apply IH in H; [|rewrite setZ_length; exact L]. destruct H as (E1 & E2 & E3).
    assert (Hk : (Z.to_nat a < length acc)%nat) by lia.
    split; [|split].
    + rewrite E1, <- app_assoc. reflexivity.
    + rewrite E2, setZ_setZ. unfold getZ at 1. rewrite nth_setZ by exact Hk. cbn [map sumlist]. f_equal. lia.
    + constructor.
      * split; [exact El|]. intros v. apply setZ_agree; [lia|]. intros j Hj Hne.
        rewrite forallb_forall in Eok. specialize (Eok (Z.of_nat j)).
        assert (Hin : In (Z.of_nat j) (zrange 0 (Z.of_nat ndim) 1)).
        { apply zrange_in; [lia|]. split; [lia|]. apply Z.mod_1_r. }
        specialize (Eok Hin). apply orb_true_iff in Eok. destruct Eok as [E|E].
        -- apply Z.eqb_eq in E. lia.
        -- apply Z.eqb_eq in E. unfold getZ in E. rewrite Nat2Z.id in E. exact E.
      * eapply Forall_impl; [|exact E3]. intros s [Ls Hs]. split; [exact Ls|]. intros v. rewrite Hs, setZ_setZ. reflexivity.
Qed.

(* size of a member shape along the stacking axis, as python computes it *)
Definition axsize (axis : option Z) (s : list Z) : Z :=
  match axis with None => prodZ s | Some ax => getZ s (ax mod lenZ s) end.

Lemma stack_params_some_spec shs ax S ind : stack_params shs (Some ax) = Ok (S, ind) ->
  exists s0 rest, shs = s0 :: rest /\ s0 <> [] /\
    let a := ax mod lenZ s0 in
    0 <= a < lenZ s0 /\
    0 :: ind = psums 0 (map (fun s => getZ s a) shs) /\
    S = setZ s0 (Z.to_nat a) (sumlist (map (fun s => getZ s a) shs)) /\
    Forall (fun s => length s = length s0 /\ forall v, setZ s (Z.to_nat a) v = setZ s0 (Z.to_nat a) v) shs.
Proof.
  unfold stack_params. destruct shs as [|s0 rest]; [discriminate|].
  destruct (Nat.eqb_spec (length s0) 0) as [E0|N0]; [discriminate|]. intros H.
  exists s0, rest. split; [reflexivity|]. split; [intros ->; apply N0; reflexivity|].
  assert (Ha : 0 <= ax mod lenZ s0 < lenZ s0) by (apply Z.mod_pos_bound; unfold lenZ; lia).
  cbv zeta. split; [exact Ha|].
  unfold lenZ in *. apply (stack_loop_spec (length s0) _ Ha) in H; [|reflexivity].
  destruct H as (E1 & E2 & E3). simpl in E1. cbn [map psums sumlist]. repeat split.
  - rewrite E1. reflexivity.
  - exact E2.
  - constructor; [auto|exact E3].
Qed.

Lemma stack_params_none shs : stack_params shs None = stack_params (map (fun s => [prodZ s]) shs) (Some 0).
Proof. destruct shs as [|s0 rest]; reflexivity. Qed.

(* embedding of member n's index box into the stacked box: what the slices [start:end] of _apply address *)
Definition emb (axis : option Z) (s : list Z) (st : Z) (j : list Z) : list Z :=
  match axis with
  | None => [st + ravel s j]
  | Some ax => shift_idx (ax mod lenZ s) st j
  end.

Definition all_pos_shapes (shs : list (list Z)) : Prop := Forall (Forall (fun n => 0 < n)) shs.

Lemma getZ_pos s a : Forall (fun n => 0 < n) s -> 0 <= a < lenZ s -> 0 < getZ s a.
Proof.
  intros Hs Ha. unfold getZ. rewrite Forall_forall in Hs. apply Hs. apply nth_In. unfold lenZ in Ha. lia.
Qed.

(* THE INDICES ARE THE PREFIX SUMS, THE STACKED SIZE IS THE TOTAL *)
Theorem stack_params_prefix_sums shs axis S ind : stack_params shs axis = Ok (S, ind) ->
  0 :: ind = psums 0 (map (axsize axis) shs) /\
  getZ S (match axis with None => 0 | Some ax => ax mod lenZ S end) = sumlist (map (axsize axis) shs).
Proof.
  destruct axis as [ax|].
  - intros H. destruct (stack_params_some_spec _ _ _ _ H) as (s0 & rest & -> & Hne & Ha & E1 & E2 & E3).
    cbv zeta in *.
    assert (Em : map (axsize (Some ax)) (s0 :: rest) = map (fun s => getZ s (ax mod lenZ s0)) (s0 :: rest)).
    { apply map_ext_in. intros s Hs. rewrite Forall_forall in E3. destruct (E3 s Hs) as [L _].
      unfold axsize, lenZ. rewrite L. reflexivity. }
    rewrite Em. split; [exact E1|].
    assert (LS : lenZ S = lenZ s0) by (rewrite E2; unfold lenZ; rewrite setZ_length; reflexivity).
    rewrite LS. rewrite E2 at 1. unfold getZ. apply nth_setZ. unfold lenZ in *. lia.
  - rewrite stack_params_none. intros H.
    destruct (stack_params_some_spec _ _ _ _ H) as (s0 & rest & E0 & Hne & Ha & E1 & E2 & E3).
    destruct shs as [|t0 trest]; [discriminate|]. simpl in E0. inversion E0; subst s0 rest. clear E0.
    cbv zeta in *. change (0 mod lenZ [prodZ t0]) with 0 in *. rewrite map_map in E1, E2.
    split; [exact E1|]. rewrite E2. reflexivity.
Qed.

Section Split.
  Variable R : StarRing.
  Add Ring RringS : (SRth R).
  Notation farr := (list Z -> R).
  Local Open Scope sr_scope.

  Lemma sumZ_one (f : Z -> R) : sumZ 1 f = f 0%Z.
  Proof. unfold sumZ. simpl. ring. Qed.

  Lemma sumZ_mul m P (h : Z -> R) : (0 <= P)%Z ->
    sumZ (Z.of_nat m * P) h = sumZ (Z.of_nat m) (fun i => sumZ P (fun k => h (i * P + k)%Z)).
  Proof.
    intros HP. induction m as [|m IH].
    - reflexivity.
    - rewrite Nat2Z.inj_succ, Z.mul_succ_l. rewrite sumZ_split by nia. rewrite IH.
      unfold Z.succ. rewrite (sumZ_split R (Z.of_nat m) 1) by lia. rewrite sumZ_one.
      f_equal. replace (Z.of_nat m + 0)%Z with (Z.of_nat m) by lia. reflexivity.
  Qed.

  Lemma sumB_flat s (g : farr) : Forall (fun n => 0 < n)%Z s ->
    sumB s g = sumZ (prodZ s) (fun k => g (unravel s k)).
  Proof.
    intros Hs. revert g; induction Hs as [|n s Hn Hs IH]; intros g.
    - simpl. rewrite sumZ_one. reflexivity.
    - pose proof (prodZ_pos s Hs) as Hp. cbn [sumB prodZ unravel].
      replace n with (Z.of_nat (Z.to_nat n)) at 2 by lia. rewrite sumZ_mul by lia.
      rewrite Z2Nat.id by lia. apply sumZ_ext. intros i Hi. rewrite IH. apply sumZ_ext. intros k Hk.
      f_equal. f_equal.
      + rewrite Z.div_add_l by lia. rewrite Z.div_small by lia. lia.
      + f_equal. rewrite Z.add_comm, Z.mod_add by lia. symmetry. apply Z.mod_small. lia.
  Qed.

  Lemma split_some shs ax S ind : stack_params shs (Some ax) = Ok (S, ind) -> all_pos_shapes shs ->
    forall f : farr, sumB S f = sum_parts R shs (0%Z :: ind) (fun s st => sumB s (fun j => f (emb (Some ax) s st j))).
  Proof.
    intros H Hpos f. unfold all_pos_shapes in Hpos.
    destruct (stack_params_some_spec _ _ _ _ H) as (s0 & rest & -> & Hne & Ha & E1 & E2 & E3).
    cbv zeta in *. set (a := ax mod lenZ s0) in *. set (vs := map (fun s => getZ s a) (s0 :: rest)) in *.
    assert (Hk : (Z.to_nat a < length s0)%nat) by (unfold lenZ in Ha; lia).
    assert (Hvs : Forall (fun v => 0 <= v)%Z vs).
    { unfold vs. apply Forall_forall. intros v Hv. apply in_map_iff in Hv. destruct Hv as (s & <- & Hs).
      rewrite Forall_forall in E3, Hpos. destruct (E3 s Hs) as [L _]. apply Z.lt_le_incl. apply getZ_pos; [auto|].
      unfold lenZ in *. lia. }
    pose proof (sumB_split_list R s0 (Z.to_nat a) vs Hk Hvs 0%Z f) as Hsp.
    rewrite <- E2, <- E1 in Hsp. rewrite Z2Nat.id in Hsp by lia.
    transitivity (sumB S (fun j => f (shift_idx a 0 j))).
    { apply sumB_ext. intros j _. rewrite shift_idx_aux, shift_aux_zero. reflexivity. }
    rewrite Hsp. unfold vs. rewrite sum_parts_map. apply sum_parts_ext. intros s st Hin.
    apply in_combine_l in Hin. rewrite Forall_forall in E3. destruct (E3 s Hin) as [L Hs].
    assert (Es : setZ s0 (Z.to_nat a) (getZ s a) = s).
    { rewrite <- Hs. unfold getZ. apply setZ_same. }
    rewrite Es. apply sumB_ext. intros j _. unfold emb, lenZ. rewrite L. reflexivity.
  Qed.

  Lemma split_none shs S ind : stack_params shs None = Ok (S, ind) -> all_pos_shapes shs ->
    forall f : farr, sumB S f = sum_parts R shs (0%Z :: ind) (fun s st => sumB s (fun j => f (emb None s st j))).
  Proof.
    rewrite stack_params_none. intros H Hpos f.
    rewrite (split_some _ _ _ _ H).
    2:{ unfold all_pos_shapes in *. apply Forall_forall. intros s' Hs'. apply in_map_iff in Hs'.
        destruct Hs' as (s & <- & Hs). rewrite Forall_forall in Hpos. constructor; [|constructor].
        apply prodZ_pos. auto. }
    rewrite sum_parts_map. apply sum_parts_ext. intros s st Hin. apply in_combine_l in Hin.
    unfold all_pos_shapes in Hpos. rewrite Forall_forall in Hpos. specialize (Hpos s Hin).
    rewrite (sumB_flat s) by exact Hpos. cbn [sumB]. apply sumZ_ext. intros k Hk.
    unfold emb. change (0 mod lenZ [prodZ s])%Z with 0%Z. unfold shift_idx, mapi. simpl.
    destruct (ravel_unravel s k Hpos Hk) as [E _]. rewrite E. f_equal. f_equal. lia.
  Qed.

  (* THE SPLITTING LEMMA: a sum over the stacked box is the sum over the members' boxes, shifted by the starts *)
  Theorem stack_split shs axis S ind : stack_params shs axis = Ok (S, ind) -> all_pos_shapes shs ->
    forall f : farr, sumB S f = sum_parts R shs (0%Z :: ind) (fun s st => sumB s (fun j => f (emb axis s st j))).
  Proof. destruct axis; [apply split_some| apply split_none]. Qed.
End Split.
(* ------------------------------------------------------------------ locating an index in its segment *)
Definition key (axis : option Z) (s : list Z) (o : list Z) : Z :=
  match axis with
  | None => match o with k :: _ => k | [] => 0 end
  | Some ax => getZ o (ax mod lenZ s)
  end.

Definition unemb (axis : option Z) (s : list Z) (st : Z) (o : list Z) : list Z :=
  match axis with
  | None => unravel s (key None s o - st)
  | Some ax => mapi (fun d kk => if d =? ax mod lenZ s then kk - st else kk) o
  end.

(* for axis = Some _ all member shapes have one common positive rank *)
Definition shapes_compat (axis : option Z) (shs : list (list Z)) : Prop :=
  match axis with
  | None => True
  | Some _ => exists nd, (0 < nd)%nat /\ Forall (fun s => length s = nd) shs
  end.

Lemma nth_shift_aux d a st j k : (k < length j)%nat ->
  nth k (shift_aux d a st j) 0 = if d + Z.of_nat k =? a then nth k j 0 + st else nth k j 0.
Proof.
  revert d k; induction j as [|x j IH]; intros d [|k] H; simpl in H; try lia.
  - unfold shift_aux. simpl. replace (d + 0) with d by lia. reflexivity.
  - unfold shift_aux in *. simpl. rewrite IH by lia.
    replace (d + 1 + Z.of_nat k) with (d + Z.pos (Pos.of_succ_nat k)) by lia. reflexivity.
Qed.

Lemma inbox_nth s j k : inbox s j -> (k < length s)%nat -> 0 <= nth k j 0 < nth k s 0.
Proof.
  revert j k; induction s as [|n s IH]; intros [|i j] [|k]; simpl; try tauto; intros H Hk; try lia.
  apply IH; [tauto|lia].
Qed.

Lemma unshift_shift d a st j :
  mapi_aux (fun d kk => if d =? a then kk - st else kk) d (shift_aux d a st j) = j.
Proof.
  revert d; induction j as [|x j IH]; intros d; [reflexivity|].
  unfold shift_aux in *. simpl. rewrite IH. destruct (d =? a); f_equal; lia.
Qed.

Lemma key_emb axis s s' st j : inbox s j ->
  match axis with None => Forall (fun n => 0 < n) s | Some _ => length s' = length s /\ s <> [] end ->
  exists off, 0 <= off < axsize axis s /\ key axis s' (emb axis s st j) = st + off.
Proof.
  intros Hb Hc. destruct axis as [ax|]; simpl.
  - destruct Hc as [L Hne].
    assert (Ha : 0 <= ax mod lenZ s < lenZ s).
    { apply Z.mod_pos_bound. unfold lenZ. destruct s; [congruence| simpl; lia]. }
    set (a := ax mod lenZ s) in *.
    assert (Hk : (Z.to_nat a < length s)%nat) by (unfold lenZ in Ha; lia).
    exists (getZ j a). split.
    + unfold getZ. apply inbox_nth; assumption.
    + unfold lenZ. rewrite L. fold (lenZ s). fold a. unfold getZ. rewrite shift_idx_aux.
      rewrite nth_shift_aux by (rewrite (inbox_length _ _ Hb); exact Hk).
      rewrite Z2Nat.id by lia. simpl. rewrite Z.eqb_refl. lia.
  - exists (ravel s j). split; [apply ravel_bound; exact Hb| reflexivity].
Qed.

Lemma unemb_emb axis s st j : inbox s j -> unemb axis s st (emb axis s st j) = j.
Proof.
  intros Hb. destruct axis as [ax|]; simpl.
  - unfold mapi. rewrite shift_idx_aux. apply unshift_shift.
  - replace (st + ravel s j - st) with (ravel s j) by lia. apply unravel_ravel. exact Hb.
Qed.

Fixpoint ends_of (acc : Z) (vs : list Z) : list Z :=
  match vs with [] => [] | v :: r => (acc + v) :: ends_of (acc + v) r end.

Lemma ends_of_psums acc vs t : psums acc vs = acc :: t -> t ++ [acc + sumlist vs] = ends_of acc vs.
Proof.
  revert acc t; induction vs as [|v r IH]; intros acc t H; [discriminate|].
  simpl in H. inversion H; subst t. clear H. destruct r as [|v' r'].
  - simpl. f_equal. lia.
  - cbn [psums app ends_of sumlist]. f_equal. 
    specialize (IH (acc + v) (psums (acc + v + v') r') eq_refl). cbn [sumlist ends_of] in IH.
    rewrite <- IH. f_equal. f_equal. lia.
Qed.

Section Place.
  Variable R : StarRing.
  Add Ring RringPl : (SRth R).
  Notation farr := (list Z -> R).
  Local Open Scope sr_scope.

  Definition item := (list Z * Z * Z * farr)%type.

  (* write member n's array into [start_n, end_n): the first segment containing the key wins *)
  Fixpoint place (axis : option Z) (items : list item) (o : list Z) : R :=
    match items with
    | (s, st, en, ya) :: items' =>
        if (st <=? key axis s o)%Z && (key axis s o <? en)%Z then ya (unemb axis s st o) else place axis items' o
    | [] => 0
    end.

  Fixpoint mk_items {A} (sh : A -> list Z) (F : A -> farr) (l : list A) (starts ends : list Z) : list item :=
    match l, starts, ends with
    | a :: l', st :: starts', en :: ends' => (sh a, st, en, F a) :: mk_items sh F l' starts' ends'
    | _, _, _ => []
    end.

  Fixpoint items_ok (axis : option Z) (acc : Z) (items : list item) : Prop :=
    match items with
    | [] => True
    | (s, st, en, _) :: r => st = acc /\ en = (acc + axsize axis s)%Z /\ (0 <= axsize axis s)%Z /\ items_ok axis (acc + axsize axis s)%Z r
    end.

  Lemma items_ok_ge axis acc items s st en ya : items_ok axis acc items -> In (s, st, en, ya) items -> (acc <= st)%Z.
  Proof.
    revert acc; induction items as [|[[[s' st'] en'] ya'] r IH]; intros acc Hok Hin; [contradiction|].
    destruct Hok as (E1 & E2 & Hnn & Hok). destruct Hin as [E|Hin].
    - inversion E; subst. lia.
    - specialize (IH _ Hok Hin). lia.
  Qed.

  Definition item_compat (axis : option Z) (nd : nat) (it : item) : Prop :=
    let '(s, _, _, _) := it in
    match axis with None => Forall (fun n => 0 < n)%Z s | Some _ => length s = nd /\ s <> [] end.

  Theorem place_locate axis nd items acc s st en ya j :
    items_ok axis acc items -> Forall (item_compat axis nd) items ->
    In (s, st, en, ya) items -> inbox s j ->
    place axis items (emb axis s st j) = ya j.
  Proof.
    revert acc; induction items as [|[[[s' st'] en'] ya'] r IH]; intros acc Hok Hc Hin Hb; [contradiction|].
    destruct Hok as (-> & -> & Hnn & Hok).
    pose proof (Forall_inv Hc) as Hc1. pose proof (Forall_inv_tail Hc) as Hcr.
    assert (Hcs : item_compat axis nd (s, st, en, ya)) by (rewrite Forall_forall in Hc; apply Hc; exact Hin).
    destruct Hin as [E|Hin].
    - injection E as Es Est Een Eya. subst s' st en ya'.
      destruct (key_emb axis s s acc j Hb) as (off & Hoff & Ek).
      { simpl in Hcs. destruct axis; [destruct Hcs; auto| exact Hcs]. }
      cbn [place]. rewrite Ek.
      destruct (Z.leb_spec acc (acc + off)); [|lia]. destruct (Z.ltb_spec (acc + off) (acc + axsize axis s)); [|lia].
      cbn [andb]. rewrite unemb_emb by exact Hb. reflexivity.
    - pose proof (items_ok_ge _ _ _ _ _ _ _ Hok Hin) as Hge.
      destruct (key_emb axis s s' st j Hb) as (off & Hoff & Ek).
      { simpl in Hcs, Hc1. destruct axis; [destruct Hcs, Hc1; split; [congruence|assumption]| exact Hcs]. }
      cbn [place]. rewrite Ek.
      destruct (Z.ltb_spec (st + off) (acc + axsize axis s')); [lia|]. rewrite andb_false_r.
      apply (IH _ Hok Hcr Hin Hb).
  Qed.

  Lemma mk_items_spec {A} axis (sh : A -> list Z) (F : A -> farr) (l : list A) acc :
    Forall (fun a => 0 <= axsize axis (sh a))%Z l ->
    let vs := map (fun a => axsize axis (sh a)) l in
    items_ok axis acc (mk_items sh F l (psums acc vs) (ends_of acc vs)) /\
    forall a st, In (a, st) (combine l (psums acc vs)) ->
      exists en, In (sh a, st, en, F a) (mk_items sh F l (psums acc vs) (ends_of acc vs)).
  Proof.
    cbv zeta. intros Hnn. revert acc; induction Hnn as [|a l Ha Hnn IH]; intros acc.
    - simpl. split; [exact I| intros ? ? []].
    - cbn [map psums ends_of mk_items items_ok combine]. destruct (IH (acc + axsize axis (sh a))%Z) as [I1 I2].
      split; [auto|]. intros b st [E|Hin].
      + inversion E; subst. eexists. left. reflexivity.
      + destruct (I2 b st Hin) as [en He]. exists en. right. exact He.
  Qed.
End Place.
Lemma starts_of_eq ind : starts_of ind = 0 :: ind.
Proof. destruct ind; reflexivity. Qed.

Section StackDen.
  Variable R : StarRing.
  Add Ring RringSD : (SRth R).
  Notation farr := (list Z -> R).
  Variable arr : Z -> farr.
  Variable scal : Z -> R.
  Variable orc : linop -> farr -> farr.
  Notation D := (D R arr scal orc).
  Notation apair := (apair R arr scal orc).
  Local Open Scope sr_scope.

  (* ---- what _apply computes, as closed formulas (C03) ---- *)
  Theorem D_hstack ls axis x o :
    D (Hstack ls axis) x o =
    match stack_params (map ishape_of ls) axis with
    | Err _ => 0
    | Ok (_, ind) => sum_parts R ls (0%Z :: ind) (fun a st => D a (fun i => x (emb axis (ishape_of a) st i)) o)
    end.
  Proof.
    unfold LinopTheory.D. cbn [den]. destruct (stack_params (map ishape_of ls) axis) as [[ish ind]|]; [|reflexivity].
    rewrite starts_of_eq. generalize (0%Z :: ind) as starts.
    induction ls as [|a ls IH]; intros starts; [reflexivity|].
    destruct starts as [|st starts]; [reflexivity|]. cbn [sum_parts]. rewrite <- IH.
    destruct axis; reflexivity.
  Qed.

  Theorem D_vstack ls axis x o :
    D (Vstack ls axis) x o =
    match stack_params (map oshape_of ls) axis with
    | Err _ => 0
    | Ok (osh, ind) =>
        place R axis (mk_items R oshape_of (fun a => D a x) ls (0%Z :: ind)
                        (ind ++ [getZ osh (match axis with None => 0%Z | Some ax => ax mod lenZ osh end)])) o
    end.
  Proof.
    unfold LinopTheory.D. cbn [den]. destruct (stack_params (map oshape_of ls) axis) as [[osh ind]|]; [|reflexivity].
    rewrite starts_of_eq. generalize (0%Z :: ind) as starts.
    generalize (ind ++ [getZ osh (match axis with None => 0%Z | Some ax => ax mod lenZ osh end)]) as ends.
    induction ls as [|a ls IH]; intros ends starts; [reflexivity|].
    destruct starts as [|st starts]; [reflexivity|]. destruct ends as [|en ends]; [reflexivity|].
    cbn [mk_items place]. rewrite <- IH. destruct axis; reflexivity.
  Qed.

  Theorem D_diag ls oaxis iaxis x o :
    D (Diag ls oaxis iaxis) x o =
    match stack_params (map ishape_of ls) iaxis, stack_params (map oshape_of ls) oaxis with
    | Ok (_, iind), Ok (osh, oind) =>
        place R oaxis
          (mk_items R (fun p => oshape_of (fst p))
                      (fun p => D (fst p) (fun i => x (emb iaxis (ishape_of (fst p)) (snd p) i)))
                      (combine ls (0%Z :: iind)) (0%Z :: oind)
                      (oind ++ [getZ osh (match oaxis with None => 0%Z | Some ax => ax mod lenZ osh end)])) o
    | _, _ => 0
    end.
  Proof.
    unfold LinopTheory.D. cbn [den]. destruct (stack_params (map ishape_of ls) iaxis) as [[ish iind]|]; [|reflexivity].
    destruct (stack_params (map oshape_of ls) oaxis) as [[osh oind]|]; [|reflexivity].
    rewrite !starts_of_eq. generalize (0%Z :: iind) as istarts. generalize (0%Z :: oind) as ostarts.
    assert (E : (oind ++ [match oaxis with None => getZ osh 0 | Some ax => getZ osh (ax mod lenZ osh) end])
                = (oind ++ [getZ osh (match oaxis with None => 0%Z | Some ax => ax mod lenZ osh end)]))
      by (destruct oaxis; reflexivity).
    rewrite E. clear E.
    generalize (oind ++ [getZ osh (match oaxis with None => 0%Z | Some ax => ax mod lenZ osh end)]) as oends.
    induction ls as [|a ls IH]; intros oends ostarts istarts; [reflexivity|].
    destruct istarts as [|ist istarts]; [reflexivity|].
    destruct ostarts as [|ost ostarts]; [reflexivity|]. destruct oends as [|oen oends]; [reflexivity|].
    cbn [combine mk_items place fst snd]. rewrite <- IH. destruct oaxis, iaxis; reflexivity.
  Qed.
End StackDen.
(* ------------------------------------------------------------------ shapes of the stacking nodes *)
Lemma shapes_list_mapM ls :
  (fix go (l : list linop) : result (list (list Z * list Z)) :=
     match l with [] => Ok [] | a :: l' => s <- shapes a ;; r <- go l' ;; Ok (s :: r) end) ls = mapM shapes ls.
Proof. induction ls as [|a ls IH]; [reflexivity|]. simpl. rewrite IH. reflexivity. Qed.

Lemma shapes_hstack ls axis :
  shapes (Hstack ls axis) =
  (ss <- mapM shapes ls ;;
   if negb (same_all (map fst ss)) then Err E_same else
   r <- stack_params (map snd ss) axis ;;
   match ss with [] => Err E_same | s0 :: _ => finish (fst s0) (fst r) end).
Proof. cbn [shapes]. rewrite shapes_list_mapM. reflexivity. Qed.

Lemma shapes_vstack ls axis :
  shapes (Vstack ls axis) =
  (ss <- mapM shapes ls ;;
   if negb (same_all (map snd ss)) then Err E_same else
   r <- stack_params (map fst ss) axis ;;
   match ss with [] => Err E_same | s0 :: _ => finish (fst r) (snd s0) end).
Proof. cbn [shapes]. rewrite shapes_list_mapM. reflexivity. Qed.

Lemma shapes_diag ls oaxis iaxis :
  shapes (Diag ls oaxis iaxis) =
  (ss <- mapM shapes ls ;;
   ri <- stack_params (map snd ss) iaxis ;;
   ro <- stack_params (map fst ss) oaxis ;;
   finish (fst ro) (fst ri)).
Proof. cbn [shapes]. rewrite shapes_list_mapM. reflexivity. Qed.

Lemma finish_allpos o i s : finish o i = Ok s -> all_pos (fst s) = true /\ all_pos (snd s) = true.
Proof.
  unfold finish. destruct (all_pos o && all_pos i) eqn:E; [|discriminate]. intros H. inversion H; subst.
  apply andb_true_iff in E. exact E.
Qed.

Ltac crack H :=
  repeat match type of H with
  | bind ?r _ = Ok _ => let E := fresh "E" in destruct r eqn:E; [cbn [bind] in H | discriminate H]
  | (if ?c then _ else _) = Ok _ => let E := fresh "E" in destruct c eqn:E; try discriminate H
  | (match ?x with _ => _ end) = Ok _ => let E := fresh "E" in destruct x eqn:E; try discriminate H
  end.

(* every constructor ends in the base-class check: all dimensions of both shapes are positive *)
Lemma shapes_allpos A : forall s, shapes A = Ok s -> all_pos (fst s) = true /\ all_pos (snd s) = true.
Proof.
  induction A using linop_rect2; intros s Hs.
  - destruct A; try contradiction; cbn [shapes] in Hs; crack Hs; try (apply finish_allpos in Hs; exact Hs).
  - apply IHA. exact Hs.
  - rewrite shapes_add in Hs. crack Hs. apply finish_allpos in Hs; exact Hs.
  - rewrite shapes_compose in Hs. crack Hs. apply finish_allpos in Hs; exact Hs.
  - rewrite shapes_hstack in Hs. crack Hs. apply finish_allpos in Hs; exact Hs.
  - rewrite shapes_vstack in Hs. crack Hs. apply finish_allpos in Hs; exact Hs.
  - rewrite shapes_diag in Hs. crack Hs. apply finish_allpos in Hs; exact Hs.
Qed.

Lemma shapes_pos A o i : shapes A = Ok (o, i) -> Forall (fun n => 0 < n) o /\ Forall (fun n => 0 < n) i.
Proof. intros H. destruct (shapes_allpos A _ H) as [H1 H2]. split; apply all_pos_Forall; assumption. Qed.
(* ------------------------------------------------------------------ member facts *)
Definition adj_shape_ok (A : linop) : Prop := forall o i, shapes A = Ok (o, i) -> shapes (adj A) = Ok (i, o).

Lemma adj_shape_ok_of a : wf a = true -> adj_shape_ok a ->
  wf (adj a) = true /\ oshape_of (adj a) = ishape_of a /\ ishape_of (adj a) = oshape_of a.
Proof.
  intros Hw H. destruct (wf_shapes _ Hw) as [[o i] Hs]. specialize (H o i Hs).
  unfold wf, oshape_of, ishape_of. rewrite H, Hs. auto.
Qed.

Definition shape_compat (axis : option Z) (nd : nat) (s : list Z) : Prop :=
  match axis with None => Forall (fun n => 0 < n) s | Some _ => length s = nd /\ s <> [] end.

Lemma stack_compat shs axis S ind : stack_params shs axis = Ok (S, ind) -> all_pos_shapes shs ->
  exists nd, Forall (shape_compat axis nd) shs.
Proof.
  intros H Hpos. destruct axis as [ax|].
  - destruct (stack_params_some_spec _ _ _ _ H) as (s0 & rest & -> & Hne & _ & _ & _ & E3).
    exists (length s0). eapply Forall_impl; [|exact E3]. intros s [L _]. split; [exact L|].
    intros ->. destruct s0; [congruence|discriminate].
  - exists O. exact Hpos.
Qed.

Lemma in_combine_map {A B C} (g : A -> B) (l : list A) (s : list C) a st :
  In (a, st) (combine l s) -> In (g a, st) (combine (map g l) s).
Proof.
  revert s; induction l as [|b l IH]; intros [|t s]; simpl; try tauto.
  intros [E|H]; [left; inversion E; reflexivity| right; auto].
Qed.

Lemma map_fst_combine {A B C} (g : A -> C) (l : list A) (s : list B) : length s = length l ->
  map (fun p => g (fst p)) (combine l s) = map g l.
Proof.
  revert s; induction l as [|a l IH]; intros [|t s]; simpl; try discriminate; intros L; [reflexivity|].
  rewrite IH by lia. reflexivity.
Qed.

Section StackAdj.
  Variable R : StarRing.
  Add Ring RringSA : (SRth R).
  Notation farr := (list Z -> R).
  Variable arr : Z -> farr.
  Variable scal : Z -> R.
  Variable orc : linop -> farr -> farr.
  Notation D := (D R arr scal orc).
  Notation apair := (apair R arr scal orc).
  Local Open Scope sr_scope.

  Lemma mk_items_compat {A} axis nd (sh : A -> list Z) (F : A -> farr) l starts ends :
    Forall (fun a => shape_compat axis nd (sh a)) l -> Forall (item_compat R axis nd) (mk_items R sh F l starts ends).
  Proof.
    intros H. revert starts ends; induction H as [|a l Ha _ IH]; intros [|st starts] [|en ends]; simpl; constructor.
    - exact Ha.
    - apply IH.
  Qed.

  (* the concatenating loop, evaluated inside segment n, returns member n's array *)
  Theorem stacked_locate {A} (sh : A -> list Z) (F : A -> farr) (l : list A) axis S ind :
    stack_params (map sh l) axis = Ok (S, ind) -> all_pos_shapes (map sh l) ->
    forall a st j, In (a, st) (combine l (0%Z :: ind)) -> inbox (sh a) j ->
    place R axis (mk_items R sh F l (0%Z :: ind)
                    (ind ++ [getZ S (match axis with None => 0%Z | Some ax => ax mod lenZ S end)]))
          (emb axis (sh a) st j) = F a j.
  Proof.
    intros Hsp Hpos a st j Hin Hb.
    destruct (stack_params_prefix_sums _ _ _ _ Hsp) as [E1 E2].
    destruct (stack_compat _ _ _ _ Hsp Hpos) as [nd Hc].
    rewrite map_map in E1, E2. set (vs := map (fun a => axsize axis (sh a)) l) in *.
    rewrite E2. replace (sumlist vs) with (0 + sumlist vs)%Z by lia.
    rewrite (ends_of_psums 0 vs ind (eq_sym E1)). rewrite E1 in *.
    assert (Hnn : Forall (fun a => 0 <= axsize axis (sh a))%Z l).
    { apply Forall_forall. intros b Hb'. unfold all_pos_shapes in Hpos. rewrite Forall_forall in Hpos, Hc.
      assert (Hi : In (sh b) (map sh l)) by (apply in_map; exact Hb').
      specialize (Hpos _ Hi). specialize (Hc _ Hi). unfold axsize. destruct axis as [ax|].
      - destruct Hc as [_ Hne]. apply Z.lt_le_incl. apply getZ_pos; [exact Hpos|].
        apply Z.mod_pos_bound. unfold lenZ. destruct (sh b); [congruence|simpl; lia].
      - apply Z.lt_le_incl. apply prodZ_pos. exact Hpos. }
    destruct (mk_items_spec R axis sh F l 0%Z Hnn) as [Hok Hin']. fold vs in Hok, Hin'.
    destruct (Hin' a st Hin) as [en Hen].
    apply (place_locate R axis nd _ 0%Z (sh a) st en (F a) j Hok); [|exact Hen|exact Hb].
    apply mk_items_compat. apply Forall_forall. intros b Hb'. rewrite Forall_forall in Hc. apply Hc. apply in_map. exact Hb'.
  Qed.

  (* C03: Vstack writes D a_n x into segment n of the output *)
  Theorem D_vstack_at ls axis S ind x a st j :
    stack_params (map oshape_of ls) axis = Ok (S, ind) -> all_pos_shapes (map oshape_of ls) ->
    In (a, st) (combine ls (0%Z :: ind)) -> inbox (oshape_of a) j ->
    D (Vstack ls axis) x (emb axis (oshape_of a) st j) = D a x j.
  Proof.
    intros Hsp Hpos Hin Hb. rewrite D_vstack, Hsp.
    apply (stacked_locate oshape_of (fun a => D a x) ls axis S ind Hsp Hpos a st j Hin Hb).
  Qed.

  Lemma starts_length shs axis S ind : stack_params shs axis = Ok (S, ind) -> length (0%Z :: ind) = length shs.
  Proof.
    intros H. destruct (stack_params_prefix_sums _ _ _ _ H) as [E _]. rewrite E, psums_length, map_length. reflexivity.
  Qed.

  (* C03: Diag reads segment n of the input and writes D a_n of it into segment n of the output *)
  Theorem D_diag_at ls oaxis iaxis SI iind SO oind x a ist ost j :
    stack_params (map ishape_of ls) iaxis = Ok (SI, iind) ->
    stack_params (map oshape_of ls) oaxis = Ok (SO, oind) -> all_pos_shapes (map oshape_of ls) ->
    In (a, ist, ost) (combine (combine ls (0%Z :: iind)) (0%Z :: oind)) -> inbox (oshape_of a) j ->
    D (Diag ls oaxis iaxis) x (emb oaxis (oshape_of a) ost j) = D a (fun i => x (emb iaxis (ishape_of a) ist i)) j.
  Proof.
    intros Hi Ho Hpos Hin Hb. rewrite D_diag, Hi, Ho.
    pose proof (starts_length _ _ _ _ Hi) as Li. rewrite map_length in Li.
    assert (Em : map (fun p : linop * Z => oshape_of (fst p)) (combine ls (0%Z :: iind)) = map oshape_of ls)
      by (apply map_fst_combine; exact Li).
    rewrite <- Em in Ho, Hpos.
    exact (stacked_locate (fun p : linop * Z => oshape_of (fst p))
             (fun p => D (fst p) (fun i => x (emb iaxis (ishape_of (fst p)) (snd p) i)))
             (combine ls (0%Z :: iind)) oaxis SO oind Ho Hpos (a, ist) ost j Hin Hb).
  Qed.
End StackAdj.
Lemma members_facts ls ss : Forall2 (fun a s => shapes a = Ok s) ls ss ->
  map ishape_of ls = map snd ss /\ map oshape_of ls = map fst ss /\
  all_pos_shapes (map snd ss) /\ all_pos_shapes (map fst ss) /\ Forall (fun a => wf a = true) ls.
Proof.
  unfold all_pos_shapes. induction 1 as [|a s ls ss Ha _ IH]; simpl; [repeat split; constructor|].
  destruct IH as (I1 & I2 & I3 & I4 & I5). destruct (shapes_of_ok _ _ Ha) as (Hw & Eo & Ei).
  destruct s as [o i]. destruct (shapes_pos _ _ _ Ha) as [Po Pi]. simpl in *.
  rewrite I1, I2, Eo, Ei. repeat split; try constructor; assumption.
Qed.

Lemma adj_members ls : Forall (fun a => wf a = true) ls -> Forall adj_shape_ok ls ->
  map oshape_of (map adj ls) = map ishape_of ls /\ map ishape_of (map adj ls) = map oshape_of ls.
Proof.
  intros Hw Hs. rewrite !map_map. split; apply map_ext_in; intros a Ha; rewrite Forall_forall in Hw, Hs;
    destruct (adj_shape_ok_of a (Hw a Ha) (Hs a Ha)) as (_ & E1 & E2); assumption.
Qed.

Section StackAdj2.
  Variable R : StarRing.
  Add Ring RringSA2 : (SRth R).
  Notation farr := (list Z -> R).
  Variable arr : Z -> farr.
  Variable scal : Z -> R.
  Variable orc : linop -> farr -> farr.
  Notation D := (D R arr scal orc).
  Notation apair := (apair R arr scal orc).
  Local Open Scope sr_scope.

  (* ---- C01: the block row [A1 ... An] and the block column of the adjoints are adjoint ---- *)
  Theorem apair_hstack ls axis :
    wf (Hstack ls axis) = true -> Forall apair ls -> Forall adj_shape_ok ls -> apair (Hstack ls axis).
  Proof.
    intros Hwf Hp Hsh.
    destruct (wf_shapes _ Hwf) as [s Hs]. destruct (shapes_of_ok _ _ Hs) as (_ & Eo & Ei).
    rewrite shapes_hstack in Hs.
    destruct (mapM shapes ls) as [ss|] eqn:Hm; [|discriminate]. cbn [bind] in Hs.
    destruct (same_all (map fst ss)) eqn:Hsame; [|discriminate]. cbn [negb] in Hs.
    destruct (stack_params (map snd ss) axis) as [[S ind]|] eqn:Hsp; [|discriminate]. cbn [bind fst] in Hs.
    destruct ss as [|s0 ss']; [discriminate|]. apply finish_ok in Hs. subst s. cbn [fst snd] in Eo, Ei.
    apply mapM_ok in Hm. destruct (members_facts _ _ Hm) as (Emi & Emo & Pi & Po & Hw).
    destruct (adj_members ls Hw Hsh) as [Ao Ai].
    assert (Fo : Forall (fun s => s = fst s0) (map fst (s0 :: ss')))
      by (apply (same_all_spec (map fst ss') (fst s0)); exact Hsame).
    rewrite <- Emo in Fo.
    unfold apair, LinopTheory.apair. rewrite Eo, Ei. change (adj (Hstack ls axis)) with (Vstack (map adj ls) axis).
    intros x y.
    transitivity (inner (fst s0) (fun o => sum_parts R ls (0%Z :: ind)
                    (fun a st => D a (fun i => x (emb axis (ishape_of a) st i)) o)) y).
    { unfold inner. apply sumB_ext. intros o _. rewrite D_hstack, Emi, Hsp. reflexivity. }
    rewrite inner_sum_parts_l.
    unfold inner at 2. rewrite (stack_split R _ _ _ _ Hsp Pi). rewrite <- Emi, sum_parts_map.
    apply sum_parts_ext. intros a st Hin.
    assert (Ha : In a ls) by (apply in_combine_l in Hin; exact Hin).
    rewrite Forall_forall in Hp, Fo.
    assert (Eoa : oshape_of a = fst s0) by (apply Fo; apply in_map; exact Ha).
    rewrite <- Eoa. rewrite (Hp a Ha). unfold inner. apply sumB_ext. intros j Hj. f_equal. f_equal.
    symmetry.
    assert (Eia : ishape_of a = oshape_of (adj a)).
    { rewrite Forall_forall in Hw, Hsh. destruct (adj_shape_ok_of a (Hw a Ha) (Hsh a Ha)) as (_ & E1 & _). auto. }
    rewrite Eia. apply (D_vstack_at R arr scal orc (map adj ls) axis S ind).
    - rewrite Ao, Emi. exact Hsp.
    - rewrite Ao, Emi. exact Pi.
    - apply in_combine_map. exact Hin.
    - rewrite <- Eia. exact Hj.
  Qed.

  (* ---- C01: the block column and the block row of the adjoints ---- *)
  Theorem apair_vstack ls axis :
    wf (Vstack ls axis) = true -> Forall apair ls -> Forall adj_shape_ok ls -> apair (Vstack ls axis).
  Proof.
    intros Hwf Hp Hsh.
    destruct (wf_shapes _ Hwf) as [s Hs]. destruct (shapes_of_ok _ _ Hs) as (_ & Eo & Ei).
    rewrite shapes_vstack in Hs.
    destruct (mapM shapes ls) as [ss|] eqn:Hm; [|discriminate]. cbn [bind] in Hs.
    destruct (same_all (map snd ss)) eqn:Hsame; [|discriminate]. cbn [negb] in Hs.
    destruct (stack_params (map fst ss) axis) as [[S ind]|] eqn:Hsp; [|discriminate]. cbn [bind fst] in Hs.
    destruct ss as [|s0 ss']; [discriminate|]. apply finish_ok in Hs. subst s. cbn [fst snd] in Eo, Ei.
    apply mapM_ok in Hm. destruct (members_facts _ _ Hm) as (Emi & Emo & Pi & Po & Hw).
    destruct (adj_members ls Hw Hsh) as [Ao Ai].
    assert (Fi : Forall (fun s => s = snd s0) (map snd (s0 :: ss')))
      by (apply (same_all_spec (map snd ss') (snd s0)); exact Hsame).
    rewrite <- Emi in Fi.
    unfold apair, LinopTheory.apair. rewrite Eo, Ei. change (adj (Vstack ls axis)) with (Hstack (map adj ls) axis).
    intros x y.
    transitivity (inner (snd s0) x (fun i => sum_parts R (map adj ls) (0%Z :: ind)
                    (fun a st => D a (fun o => y (emb axis (ishape_of a) st o)) i))).
    2:{ unfold inner. apply sumB_ext. intros i _. rewrite D_hstack, Ai, Emo, Hsp. reflexivity. }
    rewrite inner_sum_parts_r, sum_parts_map.
    unfold inner at 1. rewrite (stack_split R _ _ _ _ Hsp Po). rewrite <- Emo, sum_parts_map.
    apply sum_parts_ext. intros a st Hin.
    assert (Ha : In a ls) by (apply in_combine_l in Hin; exact Hin).
    rewrite Forall_forall in Hp, Fi.
    assert (Eia : ishape_of a = snd s0) by (apply Fi; apply in_map; exact Ha).
    assert (Eoa : ishape_of (adj a) = oshape_of a).
    { rewrite Forall_forall in Hw, Hsh. destruct (adj_shape_ok_of a (Hw a Ha) (Hsh a Ha)) as (_ & _ & E2). auto. }
    rewrite Eoa, <- Eia. rewrite <- (Hp a Ha). unfold inner. apply sumB_ext. intros j Hj. f_equal.
    apply (D_vstack_at R arr scal orc ls axis S ind); try assumption; rewrite Emo; assumption.
  Qed.
End StackAdj2.
Lemma in_combine_map2 {A B} (g : A -> B) (l : list A) (s t : list Z) a u v :
  In (a, u, v) (combine (combine l s) t) -> In (g a, u, v) (combine (combine (map g l) s) t).
Proof.
  revert s t; induction l as [|b l IH]; intros [|x s] [|y t]; simpl; try tauto.
  intros [E|H]; [left; inversion E; reflexivity| right; auto].
Qed.

Section StackAdj3.
  Variable R : StarRing.
  Add Ring RringSA3 : (SRth R).
  Notation farr := (list Z -> R).
  Variable arr : Z -> farr.
  Variable scal : Z -> R.
  Variable orc : linop -> farr -> farr.
  Notation D := (D R arr scal orc).
  Notation apair := (apair R arr scal orc).
  Local Open Scope sr_scope.

  Lemma sum_parts_combine {A} (l : list A) (aux starts : list Z) (F : A -> Z -> R) : length aux = length l ->
    sum_parts R l starts F = sum_parts R (combine l aux) starts (fun p st => F (fst p) st).
  Proof.
    revert aux starts; induction l as [|a l IH]; intros [|u aux] [|st starts]; simpl; try discriminate; try reflexivity.
    intros L. rewrite (IH aux starts) by lia. reflexivity.
  Qed.

  Lemma sum_parts_swap {A} (l : list A) (s1 s2 : list Z) (G : A -> Z -> Z -> R) :
    sum_parts R (combine l s1) s2 (fun p t => G (fst p) (snd p) t) =
    sum_parts R (combine l s2) s1 (fun p t => G (fst p) t (snd p)).
  Proof.
    revert s1 s2; induction l as [|a l IH]; intros [|u s1] [|v s2]; simpl; try reflexivity.
    rewrite IH. reflexivity.
  Qed.

  (* ---- C01: the block diagonal ---- *)
  Theorem apair_diag ls oaxis iaxis :
    wf (Diag ls oaxis iaxis) = true -> Forall apair ls -> Forall adj_shape_ok ls -> apair (Diag ls oaxis iaxis).
  Proof.
    intros Hwf Hp Hsh.
    destruct (wf_shapes _ Hwf) as [s Hs]. destruct (shapes_of_ok _ _ Hs) as (_ & Eo & Ei).
    rewrite shapes_diag in Hs.
    destruct (mapM shapes ls) as [ss|] eqn:Hm; [|discriminate]. cbn [bind] in Hs.
    destruct (stack_params (map snd ss) iaxis) as [[SI iind]|] eqn:Hspi; [|discriminate]. cbn [bind fst] in Hs.
    destruct (stack_params (map fst ss) oaxis) as [[SO oind]|] eqn:Hspo; [|discriminate]. cbn [bind fst] in Hs.
    apply finish_ok in Hs. subst s. cbn [fst snd] in Eo, Ei.
    apply mapM_ok in Hm. destruct (members_facts _ _ Hm) as (Emi & Emo & Pi & Po & Hw).
    destruct (adj_members ls Hw Hsh) as [Ao Ai].
    rewrite <- Emi in Hspi, Pi. rewrite <- Emo in Hspo, Po.
    pose proof (starts_length _ _ _ _ Hspi) as Li. pose proof (starts_length _ _ _ _ Hspo) as Lo.
    rewrite map_length in Li, Lo.
    unfold apair, LinopTheory.apair. rewrite Eo, Ei.
    change (adj (Diag ls oaxis iaxis)) with (Diag (map adj ls) iaxis oaxis).
    intros x y.
    set (G := fun (a : linop) (ist ost : Z) =>
                inner (ishape_of a) (fun i => x (emb iaxis (ishape_of a) ist i))
                      (D (adj a) (fun o => y (emb oaxis (oshape_of a) ost o)))).
    transitivity (sum_parts R (combine ls (0%Z :: iind)) (0%Z :: oind) (fun p t => G (fst p) (snd p) t)).
    - unfold inner at 1. rewrite (stack_split R _ _ _ _ Hspo Po). rewrite sum_parts_map.
      rewrite (sum_parts_combine ls (0%Z :: iind)) by exact Li.
      apply sum_parts_ext. intros [a ist] ost Hin. cbn [fst snd].
      assert (Ha : In a ls) by (apply in_combine_l in Hin; apply in_combine_l in Hin; exact Hin).
      rewrite Forall_forall in Hp. unfold G. rewrite <- (Hp a Ha). unfold inner. apply sumB_ext. intros j Hj. f_equal.
      apply (D_diag_at R arr scal orc ls oaxis iaxis SI iind SO oind); assumption.
    - rewrite sum_parts_swap.
      unfold inner at 1. rewrite (stack_split R _ _ _ _ Hspi Pi). rewrite sum_parts_map.
      rewrite (sum_parts_combine ls (0%Z :: oind)) by exact Lo.
      apply sum_parts_ext. intros [a ost] ist Hin. cbn [fst snd].
      assert (Ha : In a ls) by (apply in_combine_l in Hin; apply in_combine_l in Hin; exact Hin).
      rewrite Forall_forall in Hw, Hsh. destruct (adj_shape_ok_of a (Hw a Ha) (Hsh a Ha)) as (_ & E1 & E2).
      unfold G, inner. apply sumB_ext. intros j Hj. f_equal. f_equal.
      rewrite <- E1, <- E2.
      symmetry. apply (D_diag_at R arr scal orc (map adj ls) iaxis oaxis SO oind SI iind).
      + rewrite Ai. exact Hspo.
      + rewrite Ao. exact Hspi.
      + rewrite Ao. exact Pi.
      + apply in_combine_map2. exact Hin.
      + rewrite E1. exact Hj.
  Qed.
End StackAdj3.
(* ------------------------------------------------------------------ (1) shapes of the adjoint are swapped *)
Lemma finish_swap o i s : finish o i = Ok s -> finish i o = Ok (snd s, fst s).
Proof.
  unfold finish. rewrite (andb_comm (all_pos i)). destruct (all_pos o && all_pos i); [|discriminate].
  intros H. inversion H. reflexivity.
Qed.

Lemma finish_swap' o i o' i' : finish o i = Ok (o', i') -> finish i o = Ok (i', o').
Proof. intros H. apply finish_swap in H. exact H. Qed.

Definition swap (p : list Z * list Z) : list Z * list Z := (snd p, fst p).

Lemma norm_axes_idem axes n : norm_axes_list (norm_axes_list axes n) n = norm_axes_list axes n.
Proof. unfold norm_axes_list. rewrite map_map. apply map_ext. intros a. apply Zmod_mod. Qed.

Lemma shapes_sum_none i : all_pos i = true -> shapes (Sum i []) = Ok (i, i).
Proof.
  intros Hp. simpl. unfold remove_axes. simpl norm_axes_list.
  assert (F : forall (l : list (Z * Z)), filter (fun p => negb (memZ (fst p) [])) l = l).
  { induction l as [|p l IH]; simpl; [reflexivity| simpl in IH; congruence]. }
  rewrite F.
  assert (G : map snd (combine (zrange 0 (lenZ i) 1) i) = i).
  { unfold lenZ, zrange. change (1 <=? 0)%Z with false. cbv iota. rewrite Z.div_1_r.
    replace (Z.of_nat (length i) - 0 + 1 - 1)%Z with (Z.of_nat (length i)) by lia. rewrite Nat2Z.id.
    apply map_snd_combine_range. }
  rewrite G. unfold finish. rewrite Hp. reflexivity.
Qed.

Lemma zlist_eqb_refl l : zlist_eqb l l = true.
Proof. apply zlist_eqb_spec. reflexivity. Qed.

Lemma adj_shape_scale i t c : i <> [] -> adj_shape_ok (Multiply i (MScalar t) c).
Proof.
  intros Hne o i' H.
  assert (Hp : all_pos i = true).
  { cbn [shapes] in H. destruct (multiply_oshape i (mshape_of (MScalar t))) as [o'|]; [|discriminate].
    cbn [bind] in H. pose proof (finish_ok _ _ _ H) as E. inversion E; subst. apply finish_allpos in H. exact (proj2 H). }
  rewrite (shapes_scale i t c Hne Hp) in H. inversion H; subst o i'. clear H.
  rewrite (adj_scale i t c Hne Hp). rewrite shapes_compose. cbn [mapM].
  assert (Er : shapes (Reshape i i) = Ok (i, i)) by (cbn [shapes]; unfold finish; rewrite Hp; reflexivity).
  rewrite Er, (shapes_sum_none i Hp), (shapes_scale i t _ Hne Hp). cbn [bind compose_ok fst snd].
  rewrite !zlist_eqb_refl. cbn [andb negb last fst snd]. unfold finish. rewrite Hp. reflexivity.
Qed.

(* leaf classes whose adjoint has the swapped shapes for EVERY parameter value (all leaves except
   Transpose with explicit axes, MatMul, RightMatMul, Multiply by an array) *)
Definition shape_easyb (A : linop) : bool :=
  match A with
  | Conj _ | Add _ | Compose _ | Hstack _ _ | Vstack _ _ | Diag _ _ _ => false
  | Transpose _ (Some _) | MatMul _ _ _ | RightMatMul _ _ _ | Multiply _ (MArray _) _ => false
  | Multiply i (MScalar _) _ => match i with [] => false | _ => true end
  | _ => true
  end.

Theorem adj_shape_leaf A : shape_easyb A = true -> adj_shape_ok A.
Proof.
  intros HA. destruct A; try discriminate HA.
  all: try (intros o i H; cbn [adj shapes] in *; pose proof (finish_ok _ _ _ H) as E; inversion E; subst; exact H).
  all: try (intros o i H; cbn [adj shapes] in *; apply finish_swap' in H; exact H).
  all: try (intros o i H; cbn [adj shapes] in *; crack H; apply finish_swap' in H; rewrite ?E; cbn [bind]; exact H).
  - (* Transpose None *) destruct axes; [discriminate|]. intros o i H. cbn [adj shapes] in *. rewrite rev_involutive.
    apply finish_swap' in H. exact H.
  - (* scalar Multiply *) destruct m; [|discriminate]. apply adj_shape_scale. destruct ishape; [discriminate|discriminate].
  - (* Sum *) intros o i H. cbn [adj shapes] in *. rewrite norm_axes_idem. apply finish_swap' in H. exact H.
  - (* Tile *) intros o i H. cbn [adj shapes] in *. rewrite norm_axes_idem. apply finish_swap' in H. exact H.
Qed.
Lemma mapM_complete {A B} (f : A -> result B) l r : Forall2 (fun a b => f a = Ok b) l r -> mapM f l = Ok r.
Proof. induction 1 as [|a b l r Ha _ IH]; simpl; [reflexivity|]. rewrite Ha, IH. reflexivity. Qed.

Lemma map_snd_swap ss : map snd (map swap ss) = map fst ss.
Proof. rewrite map_map. reflexivity. Qed.
Lemma map_fst_swap ss : map fst (map swap ss) = map snd ss.
Proof. rewrite map_map. reflexivity. Qed.

Lemma members_adj ls ss : Forall2 (fun a s => shapes a = Ok s) ls ss -> Forall adj_shape_ok ls ->
  Forall2 (fun a s => shapes a = Ok s) (map adj ls) (map swap ss).
Proof.
  induction 1 as [|a s ls ss Ha _ IH]; intros Hs; simpl; constructor.
  - inversion Hs; subst. destruct s as [o i]. apply (H1 o i Ha).
  - apply IH. inversion Hs; assumption.
Qed.

Lemma adj_shape_conj A : adj_shape_ok A -> adj_shape_ok (Conj A).
Proof. intros H o i Hs. exact (H o i Hs). Qed.

Theorem adj_shape_add ls : Forall adj_shape_ok ls -> adj_shape_ok (Add ls).
Proof.
  intros Hsh o i Hs. rewrite shapes_add in Hs.
  destruct (mapM shapes ls) as [ss|] eqn:Hm; [|discriminate]. cbn [bind] in Hs.
  destruct ss as [|s0 ss']; [discriminate|].
  destruct (same_all (map snd (s0 :: ss')) && same_all (map fst (s0 :: ss'))) eqn:Hsame; [|discriminate].
  apply mapM_ok in Hm. change (adj (Add ls)) with (Add (map adj ls)). rewrite shapes_add.
  rewrite (mapM_complete _ _ _ (members_adj _ _ Hm Hsh)). cbn [bind].
  rewrite map_snd_swap, map_fst_swap. cbn [map] in *. rewrite andb_comm, Hsame. apply finish_swap'. exact Hs.
Qed.

Theorem adj_shape_hstack ls axis : Forall adj_shape_ok ls -> adj_shape_ok (Hstack ls axis).
Proof.
  intros Hsh o i Hs. rewrite shapes_hstack in Hs.
  destruct (mapM shapes ls) as [ss|] eqn:Hm; [|discriminate]. cbn [bind] in Hs.
  destruct (same_all (map fst ss)) eqn:Hsame; [|discriminate]. cbn [negb] in Hs.
  destruct (stack_params (map snd ss) axis) as [r|] eqn:Hsp; [|discriminate]. cbn [bind] in Hs.
  destruct ss as [|s0 ss']; [discriminate|].
  apply mapM_ok in Hm. change (adj (Hstack ls axis)) with (Vstack (map adj ls) axis). rewrite shapes_vstack.
  rewrite (mapM_complete _ _ _ (members_adj _ _ Hm Hsh)). cbn [bind].
  rewrite map_snd_swap, map_fst_swap, Hsame, Hsp. cbn [negb bind map]. apply finish_swap'. exact Hs.
Qed.

Theorem adj_shape_vstack ls axis : Forall adj_shape_ok ls -> adj_shape_ok (Vstack ls axis).
Proof.
  intros Hsh o i Hs. rewrite shapes_vstack in Hs.
  destruct (mapM shapes ls) as [ss|] eqn:Hm; [|discriminate]. cbn [bind] in Hs.
  destruct (same_all (map snd ss)) eqn:Hsame; [|discriminate]. cbn [negb] in Hs.
  destruct (stack_params (map fst ss) axis) as [r|] eqn:Hsp; [|discriminate]. cbn [bind] in Hs.
  destruct ss as [|s0 ss']; [discriminate|].
  apply mapM_ok in Hm. change (adj (Vstack ls axis)) with (Hstack (map adj ls) axis). rewrite shapes_hstack.
  rewrite (mapM_complete _ _ _ (members_adj _ _ Hm Hsh)). cbn [bind].
  rewrite map_snd_swap, map_fst_swap, Hsame, Hsp. cbn [negb bind map]. apply finish_swap'. exact Hs.
Qed.

Theorem adj_shape_diag ls oaxis iaxis : Forall adj_shape_ok ls -> adj_shape_ok (Diag ls oaxis iaxis).
Proof.
  intros Hsh o i Hs. rewrite shapes_diag in Hs.
  destruct (mapM shapes ls) as [ss|] eqn:Hm; [|discriminate]. cbn [bind] in Hs.
  destruct (stack_params (map snd ss) iaxis) as [ri|] eqn:Hspi; [|discriminate]. cbn [bind] in Hs.
  destruct (stack_params (map fst ss) oaxis) as [ro|] eqn:Hspo; [|discriminate]. cbn [bind] in Hs.
  apply mapM_ok in Hm. change (adj (Diag ls oaxis iaxis)) with (Diag (map adj ls) iaxis oaxis). rewrite shapes_diag.
  rewrite (mapM_complete _ _ _ (members_adj _ _ Hm Hsh)). cbn [bind].
  rewrite map_snd_swap, map_fst_swap, Hspo, Hspi. cbn [bind]. apply finish_swap'. exact Hs.
Qed.
(* ---- Compose: python flattens nested compositions in the adjoint; the shapes still chain ---- *)
Definition piece (a : linop) : list linop := match a with Compose l => l | _ => [a] end.

Lemma flatten_cons a L : flatten_compose (a :: L) = piece a ++ flatten_compose L.
Proof. reflexivity. Qed.

Lemma last_cons_indep {A} (x : A) l d d' : last (x :: l) d = last (x :: l) d'.
Proof. revert x; induction l as [|y l IH]; intros x; [reflexivity|]. exact (IH y). Qed.

Lemma last_app_nonempty {A} (l1 l2 : list A) d : l2 <> [] -> last (l1 ++ l2) d = last l2 d.
Proof.
  intros H. induction l1 as [|x l1 IH]; [reflexivity|]. simpl app.
  destruct (l1 ++ l2) eqn:E; [apply app_eq_nil in E; tauto|]. rewrite <- IH. reflexivity.
Qed.

Lemma compose_ok_app l1 l2 d : compose_ok l1 = true -> compose_ok l2 = true ->
  (l1 <> [] -> l2 <> [] -> snd (last l1 d) = fst (hd d l2)) -> compose_ok (l1 ++ l2) = true.
Proof.
  induction l1 as [|a l1 IH]; intros H1 H2 Hl; [exact H2|].
  destruct l1 as [|b l1'].
  - destruct l2 as [|c l2']; [reflexivity|].
    change (compose_ok ([a] ++ c :: l2')) with (zlist_eqb (snd a) (fst c) && compose_ok (c :: l2')). rewrite H2.
    specialize (Hl ltac:(discriminate) ltac:(discriminate)). simpl in Hl. rewrite Hl, zlist_eqb_refl. reflexivity.
  - simpl in H1. apply andb_true_iff in H1. destruct H1 as [Hab H1].
    change ((a :: b :: l1') ++ l2) with (a :: b :: (l1' ++ l2)). 
    change (compose_ok (a :: b :: l1' ++ l2)) with (zlist_eqb (snd a) (fst b) && compose_ok ((b :: l1') ++ l2)).
    rewrite Hab. apply IH; [exact H1|exact H2|]. intros _ Hne. apply Hl; [discriminate|exact Hne].
Qed.

Lemma compose_ok_tail a l : compose_ok (a :: l) = true -> compose_ok l = true.
Proof. destruct l as [|b l]; [reflexivity|]. simpl. intros H. apply andb_true_iff in H. tauto. Qed.

Lemma compose_ok_link a b l : compose_ok (a :: b :: l) = true -> snd a = fst b.
Proof. simpl. intros H. apply andb_true_iff in H. apply zlist_eqb_spec. tauto. Qed.

Lemma piece_spec a s : shapes a = Ok s ->
  exists x sl, Forall2 (fun a s => shapes a = Ok s) (piece a) (x :: sl) /\ compose_ok (x :: sl) = true /\
               fst x = fst s /\ snd (last (x :: sl) x) = snd s.
Proof.
  intros H.
  assert (Hdef : piece a = [a] -> exists x sl, Forall2 (fun a s => shapes a = Ok s) (piece a) (x :: sl) /\
               compose_ok (x :: sl) = true /\ fst x = fst s /\ snd (last (x :: sl) x) = snd s).
  { intros ->. exists s, []. repeat split; try reflexivity. constructor; [exact H|constructor]. }
  destruct a; try (apply Hdef; reflexivity). clear Hdef.
  rewrite shapes_compose in H. destruct (mapM shapes ls) as [ss|] eqn:Hm; [|discriminate]. cbn [bind] in H.
  destruct (compose_ok ss) eqn:Hc; [|discriminate]. cbn [negb] in H. destruct ss as [|s0 ss']; [discriminate|].
  apply finish_ok in H. subst s. exists s0, ss'. apply mapM_ok in Hm. repeat split; assumption.
Qed.

Lemma flatten_spec L ss : Forall2 (fun a s => shapes a = Ok s) L ss -> ss <> [] -> compose_ok ss = true ->
  forall d, exists x sl, Forall2 (fun a s => shapes a = Ok s) (flatten_compose L) (x :: sl) /\
    compose_ok (x :: sl) = true /\ fst x = fst (hd d ss) /\ snd (last (x :: sl) d) = snd (last ss d).
Proof.
  induction 1 as [|a s L ss Ha HF IH]; intros Hne Hc d; [congruence|].
  destruct (piece_spec a s Ha) as (x & sl & F1 & C1 & E1 & E2). rewrite flatten_cons.
  destruct ss as [|s2 ss2].
  - inversion HF; subst. unfold flatten_compose. simpl flat_map. rewrite app_nil_r.
    exists x, sl. repeat split; try assumption. rewrite (last_cons_indep x sl d x). exact E2.
  - destruct (IH ltac:(discriminate) (compose_ok_tail _ _ Hc) d) as (x2 & sl2 & F2 & C2 & E3 & E4).
    exists x, (sl ++ x2 :: sl2). change (x :: sl ++ x2 :: sl2) with ((x :: sl) ++ (x2 :: sl2)). repeat split.
    + apply Forall2_app; assumption.
    + apply (compose_ok_app _ _ d); [exact C1|exact C2|]. intros _ _.
      rewrite (last_cons_indep x sl d x), E2. simpl hd. rewrite E3. simpl hd. apply (compose_ok_link _ _ _ Hc).
    + simpl. exact E1.
    + rewrite last_app_nonempty by discriminate. rewrite E4. reflexivity.
Qed.

Lemma shapes_mkCompose L ss d r : Forall2 (fun a s => shapes a = Ok s) L ss -> ss <> [] -> compose_ok ss = true ->
  finish (fst (hd d ss)) (snd (last ss d)) = Ok r -> shapes (mkCompose L) = Ok r.
Proof.
  intros HF Hne Hc Hf. destruct (flatten_spec L ss HF Hne Hc d) as (x & sl & F & C & E1 & E2).
  unfold mkCompose. rewrite shapes_compose. rewrite (mapM_complete _ _ _ F). cbn [bind]. rewrite C. cbn [negb].
  rewrite (last_cons_indep x sl x d), E1, E2. exact Hf.
Qed.

Lemma Forall2_rev' {A B} (P : A -> B -> Prop) l r : Forall2 P l r -> Forall2 P (rev l) (rev r).
Proof. induction 1; simpl; [constructor|]. apply Forall2_app; [assumption|]. constructor; [assumption|constructor]. Qed.

Lemma rev_swap_chain ss : ss <> [] -> compose_ok ss = true ->
  rev (map swap ss) <> [] /\ compose_ok (rev (map swap ss)) = true /\
  forall d d', hd d (rev (map swap ss)) = swap (last ss d') /\ last (rev (map swap ss)) d = swap (hd d' ss).
Proof.
  induction ss as [|s ss IH]; intros Hne Hc; [congruence|]. simpl map. simpl rev.
  destruct ss as [|s2 ss2].
  - simpl. repeat split. discriminate.
  - destruct (IH ltac:(discriminate) (compose_ok_tail _ _ Hc)) as (N & C & HL).
    split; [|split].
    + intros E. apply app_eq_nil in E. destruct E; discriminate.
    + apply (compose_ok_app _ _ s); [exact C|reflexivity|]. intros _ _.
      destruct (HL s s) as [_ E]. rewrite E. simpl. symmetry. apply (compose_ok_link _ _ _ Hc).
    + intros d d'. split.
      * destruct (rev (map swap (s2 :: ss2))) as [|y Y] eqn:EY; [congruence|]. 
        destruct (HL d d') as [E _]. simpl in E. simpl hd. rewrite E. reflexivity.
      * rewrite last_last. reflexivity.
Qed.

Theorem adj_shape_compose ls : Forall adj_shape_ok ls -> adj_shape_ok (Compose ls).
Proof.
  intros Hsh o i Hs. rewrite shapes_compose in Hs.
  destruct (mapM shapes ls) as [ss|] eqn:Hm; [|discriminate]. cbn [bind] in Hs.
  destruct (compose_ok ss) eqn:Hc; [|discriminate]. cbn [negb] in Hs. destruct ss as [|s0 ss']; [discriminate|].
  apply mapM_ok in Hm. change (adj (Compose ls)) with (mkCompose (rev (map adj ls))).
  destruct (rev_swap_chain (s0 :: ss') ltac:(discriminate) Hc) as (N & C & HL).
  apply (shapes_mkCompose _ (rev (map swap (s0 :: ss'))) s0).
  - apply Forall2_rev'. apply members_adj; assumption.
  - exact N.
  - exact C.
  - destruct (HL s0 s0) as [E1 E2]. rewrite E1, E2. simpl hd. unfold swap. cbn [fst snd].
    apply finish_swap'. exact Hs.
Qed.
(* ------------------------------------------------------------------ (3) the adjoint theorem through every combinator *)
(* every node that is not one of the six combinators satisfies Q; the recursion enters ALL combinators *)
Fixpoint nodes_ok' (Q : linop -> Prop) (A : linop) : Prop :=
  let fix all (l : list linop) : Prop := match l with [] => True | a :: l' => nodes_ok' Q a /\ all l' end in
  match A with
  | Conj a => nodes_ok' Q a
  | Add l | Compose l | Hstack l _ | Vstack l _ | Diag l _ _ => all l
  | _ => Q A
  end.

Lemma nodes_ok'_list Q l :
  (fix all (l : list linop) : Prop := match l with [] => True | a :: l' => nodes_ok' Q a /\ all l' end) l
  <-> Forall (nodes_ok' Q) l.
Proof. induction l as [|a l IH]; simpl; [split; auto|]. rewrite IH. split; [intros [? ?]; constructor; auto| intros H; inversion H; auto]. Qed.

Lemma nodes_ok'_impl (P Q : linop -> Prop) A : (forall L, P L -> Q L) -> nodes_ok' P A -> nodes_ok' Q A.
Proof.
  intros HPQ. induction A using linop_rect2; intros H0.
  1: destruct A; try contradiction; apply HPQ; exact H0.
  1: exact (IHA H0).
  all: apply nodes_ok'_list; apply nodes_ok'_list in H0; clear -H H0 HPQ;
    induction ls as [|a ls IH]; [constructor|]; inversion H; inversion H0; subst; constructor; auto.
Qed.

(* (1) for whole trees: swapped shapes at the leaves give swapped shapes everywhere (python's flattening included) *)
Theorem adj_shape_tree A : nodes_ok' adj_shape_ok A -> adj_shape_ok A.
Proof.
  induction A using linop_rect2; intros Hn.
  1: destruct A; try contradiction; exact Hn.
  1: apply adj_shape_conj; exact (IHA Hn).
  all: apply nodes_ok'_list in Hn;
    assert (Hall : Forall adj_shape_ok ls)
      by (clear -H Hn; induction ls as [|a ls IHl]; [constructor|]; inversion H; inversion Hn; subst; constructor; auto).
  - apply adj_shape_add; exact Hall.
  - apply adj_shape_compose; exact Hall.
  - apply adj_shape_hstack; exact Hall.
  - apply adj_shape_vstack; exact Hall.
  - apply adj_shape_diag; exact Hall.
Qed.

Section Through.
  Variable R : StarRing.
  Add Ring RringT : (SRth R).
  Notation farr := (list Z -> R).
  Variable arr : Z -> farr.
  Variable scal : Z -> R.
  Variable orc : linop -> farr -> farr.
  Notation D := (D R arr scal orc).
  Notation apair := (apair R arr scal orc).
  Local Open Scope sr_scope.

  Lemma apair_conj A : apair A -> apair (Conj A).
  Proof.
    intros IHA. unfold apair, LinopTheory.apair in *.
    change (ishape_of (Conj A)) with (ishape_of A). change (oshape_of (Conj A)) with (oshape_of A).
    change (adj (Conj A)) with (Conj (adj A)).
    intros x y. exact (adjoint_pair_conj R _ _ _ _ IHA x y).
  Qed.

  Lemma apair_add ls : wf (Add ls) = true -> Forall apair ls -> apair (Add ls).
  Proof.
    intros Hwf Hp.
    destruct (wf_shapes _ Hwf) as [s Hs]. destruct (shapes_of_ok _ _ Hs) as (_ & Eo & Ei).
    rewrite shapes_add in Hs.
    destruct (mapM shapes ls) as [ss|] eqn:Hm; [|discriminate]. simpl in Hs.
    destruct ss as [|s0 ss]; [discriminate|].
    destruct (same_all (map snd (s0 :: ss)) && same_all (map fst (s0 :: ss))) eqn:Hsame; [|discriminate].
    apply andb_true_iff in Hsame. destruct Hsame as [Hsi Hso].
    apply finish_ok in Hs. subst s. simpl in Eo, Ei.
    unfold apair, LinopTheory.apair. rewrite Eo, Ei. change (adj (Add ls)) with (Add (map adj ls)).
    intros x y.
    transitivity (inner (fst s0) (fun p => fold_right (fun a acc => D a x p + acc) 0 ls) y).
    { unfold inner. apply sumB_ext. intros p _. rewrite D_add. reflexivity. }
    transitivity (inner (snd s0) x (fun p => fold_right (fun a acc => D a y p + acc) 0 (map adj ls))).
    2:{ unfold inner. apply sumB_ext. intros p _. rewrite D_add. reflexivity. }
    apply add_adjoint.
    apply mapM_ok in Hm.
    pose proof (same_all_spec _ _ Hsi) as Fi. pose proof (same_all_spec _ _ Hso) as Fo.
    pose proof (members_shapes _ _ _ _ Hm Fi Fo) as Hsh.
    clear -Hp Hsh. induction ls as [|a ls IHl]; [constructor|].
    inversion Hp; subst. inversion Hsh; subst. constructor; [tauto| auto].
  Qed.

  Lemma apair_compose ls : wf (Compose ls) = true -> Forall apair ls -> apair (Compose ls).
  Proof.
    intros Hwf Hp.
    destruct (wf_shapes _ Hwf) as [s Hs]. destruct (shapes_of_ok _ _ Hs) as (_ & Eo & Ei).
    rewrite shapes_compose in Hs.
    destruct (mapM shapes ls) as [ss|] eqn:Hm; [|discriminate]. simpl in Hs.
    destruct (compose_ok ss) eqn:Hc; [|discriminate]. simpl in Hs.
    destruct ss as [|s0 ss]; [discriminate|]. apply finish_ok in Hs. subst s. cbn [fst snd] in Eo, Ei.
    unfold apair, LinopTheory.apair. rewrite Eo, Ei.
    change (adj (Compose ls)) with (mkCompose (rev (map adj ls))).
    apply mapM_ok in Hm.
    pose proof (chain_adjoint R arr scal orc ls (s0 :: ss) Hm Hc Hp s0 ltac:(discriminate)) as Hch.
    intros x y. rewrite D_compose, D_mkCompose, fold_adj_chain. apply Hch.
  Qed.

  Lemma members_wf ls ss : Forall2 (fun a s => shapes a = Ok s) ls ss -> Forall (fun a => wf a = true) ls.
  Proof. intros H. exact (proj2 (proj2 (proj2 (proj2 (members_facts _ _ H))))). Qed.

  Lemma wf_members A ls :
    (A = Add ls \/ A = Compose ls \/ (exists ax, A = Hstack ls ax) \/ (exists ax, A = Vstack ls ax) \/
     (exists oa ia, A = Diag ls oa ia)) -> wf A = true -> Forall (fun a => wf a = true) ls.
  Proof.
    intros HA Hwf. destruct (wf_shapes _ Hwf) as [s Hs].
    assert (exists ss, mapM shapes ls = Ok ss) as [ss Hm].
    { destruct HA as [->|[->|[[ax ->]|[[ax ->]|(oa & ia & ->)]]]].
      - rewrite shapes_add in Hs. destruct (mapM shapes ls); [eauto|discriminate].
      - rewrite shapes_compose in Hs. destruct (mapM shapes ls); [eauto|discriminate].
      - rewrite shapes_hstack in Hs. destruct (mapM shapes ls); [eauto|discriminate].
      - rewrite shapes_vstack in Hs. destruct (mapM shapes ls); [eauto|discriminate].
      - rewrite shapes_diag in Hs. destruct (mapM shapes ls); [eauto|discriminate]. }
    apply mapM_ok in Hm. exact (members_wf _ _ Hm).
  Qed.

  (* the member hypotheses: <L x, y> = <x, L^H y> and swapped shapes, at the leaves only *)
  Definition leaf_ok (L : linop) : Prop := apair L /\ adj_shape_ok L.

  Theorem adj_correct_stack A : wf A = true -> nodes_ok' leaf_ok A -> apair A /\ adj_shape_ok A.
  Proof.
    induction A using linop_rect2; intros Hwf Hn.
    - destruct A; try contradiction; exact Hn.
    - destruct (IHA Hwf Hn) as [I1 I2]. split; [apply apair_conj; exact I1| apply adj_shape_conj; exact I2].
    - apply nodes_ok'_list in Hn. pose proof (wf_members _ ls (or_introl eq_refl) Hwf) as Hw.
      assert (Hall : Forall (fun a => apair a /\ adj_shape_ok a) ls).
      { clear Hwf. induction ls as [|a ls IHl]; [constructor|]. inversion H; inversion Hn; inversion Hw; subst. constructor; auto. }
      apply Forall_and_inv in Hall. destruct Hall as [Hp Hs].
      split; [apply apair_add; assumption| apply adj_shape_add; assumption].
    - apply nodes_ok'_list in Hn. pose proof (wf_members _ ls (or_intror (or_introl eq_refl)) Hwf) as Hw.
      assert (Hall : Forall (fun a => apair a /\ adj_shape_ok a) ls).
      { clear Hwf. induction ls as [|a ls IHl]; [constructor|]. inversion H; inversion Hn; inversion Hw; subst. constructor; auto. }
      apply Forall_and_inv in Hall. destruct Hall as [Hp Hs].
      split; [apply apair_compose; assumption| apply adj_shape_compose; assumption].
    - apply nodes_ok'_list in Hn.
      pose proof (wf_members _ ls (or_intror (or_intror (or_introl (ex_intro _ ax eq_refl)))) Hwf) as Hw.
      assert (Hall : Forall (fun a => apair a /\ adj_shape_ok a) ls).
      { clear Hwf. induction ls as [|a ls IHl]; [constructor|]. inversion H; inversion Hn; inversion Hw; subst. constructor; auto. }
      apply Forall_and_inv in Hall. destruct Hall as [Hp Hs].
      split; [apply apair_hstack; assumption| apply adj_shape_hstack; assumption].
    - apply nodes_ok'_list in Hn.
      pose proof (wf_members _ ls (or_intror (or_intror (or_intror (or_introl (ex_intro _ ax eq_refl))))) Hwf) as Hw.
      assert (Hall : Forall (fun a => apair a /\ adj_shape_ok a) ls).
      { clear Hwf. induction ls as [|a ls IHl]; [constructor|]. inversion H; inversion Hn; inversion Hw; subst. constructor; auto. }
      apply Forall_and_inv in Hall. destruct Hall as [Hp Hs].
      split; [apply apair_vstack; assumption| apply adj_shape_vstack; assumption].
    - apply nodes_ok'_list in Hn.
      pose proof (wf_members _ ls (or_intror (or_intror (or_intror (or_intror (ex_intro _ oa (ex_intro _ ia eq_refl)))))) Hwf) as Hw.
      assert (Hall : Forall (fun a => apair a /\ adj_shape_ok a) ls).
      { clear Hwf. induction ls as [|a ls IHl]; [constructor|]. inversion H; inversion Hn; inversion Hw; subst. constructor; auto. }
      apply Forall_and_inv in Hall. destruct Hall as [Hp Hs].
      split; [apply apair_diag; assumption| apply adj_shape_diag; assumption].
  Qed.

  (* only <L x, y> = <x, L^H y> is asked of the leaves when they are in the classes of adj_shape_leaf *)
  Theorem adj_correct_stack_easy A :
    wf A = true -> nodes_ok' (fun L => apair L /\ shape_easyb L = true) A -> apair A.
  Proof.
    intros Hwf Hn. apply adj_correct_stack; [exact Hwf|].
    eapply nodes_ok'_impl; [|exact Hn]. intros L [Hp He]. split; [exact Hp| apply adj_shape_leaf; exact He].
  Qed.

  (* NO hypothesis on the nodes: trees over Conj, +, composition (incl. scalar / sign overloads), Hstack, Vstack, Diag
     with Identity / Flip / Downsample / Upsample / scalar-Multiply leaves *)
  Theorem adj_correct_stack_proven A :
    wf A = true -> nodes_ok' (fun L => proven_node L = true /\ wf L = true) A -> apair A.
  Proof.
    intros Hwf Hn. apply adj_correct_stack; [exact Hwf|].
    eapply nodes_ok'_impl; [|exact Hn]. intros L [Hp Hw]. split.
    - apply proven_node_apair; assumption.
    - apply adj_shape_leaf. destruct L; try discriminate Hp; try reflexivity.
      simpl in Hp. destruct m; [|discriminate]. exact Hp.
  Qed.
End Through.
(* ------------------------------------------------------------------ (4) C03: the stacking nodes ARE the block matrices *)
Lemma wf_hstack_params ls axis : wf (Hstack ls axis) = true ->
  exists ind, stack_params (map ishape_of ls) axis = Ok (ishape_of (Hstack ls axis), ind) /\
    all_pos_shapes (map ishape_of ls) /\ all_pos_shapes (map oshape_of ls) /\
    Forall (fun a => wf a = true /\ oshape_of a = oshape_of (Hstack ls axis)) ls.
Proof.
  intros Hwf. destruct (wf_shapes _ Hwf) as [s Hs]. destruct (shapes_of_ok _ _ Hs) as (_ & Eo & Ei).
  rewrite shapes_hstack in Hs.
  destruct (mapM shapes ls) as [ss|] eqn:Hm; [|discriminate]. cbn [bind] in Hs.
  destruct (same_all (map fst ss)) eqn:Hsame; [|discriminate]. cbn [negb] in Hs.
  destruct (stack_params (map snd ss) axis) as [[S ind]|] eqn:Hsp; [|discriminate]. cbn [bind fst] in Hs.
  destruct ss as [|s0 ss']; [discriminate|]. apply finish_ok in Hs. subst s. cbn [fst snd] in Eo, Ei.
  apply mapM_ok in Hm. destruct (members_facts _ _ Hm) as (Emi & Emo & Pi & Po & Hw).
  assert (Fo : Forall (fun s => s = fst s0) (map fst (s0 :: ss')))
    by (apply (same_all_spec (map fst ss') (fst s0)); exact Hsame).
  rewrite <- Emo in Fo. rewrite <- Emi in Hsp, Pi. rewrite <- Emo in Po.
  exists ind. rewrite Ei, Eo. repeat split; try assumption.
  rewrite Forall_forall in *. intros a Ha. split; [auto|]. apply Fo. apply in_map. exact Ha.
Qed.

Lemma wf_vstack_params ls axis : wf (Vstack ls axis) = true ->
  exists ind, stack_params (map oshape_of ls) axis = Ok (oshape_of (Vstack ls axis), ind) /\
    all_pos_shapes (map ishape_of ls) /\ all_pos_shapes (map oshape_of ls) /\
    Forall (fun a => wf a = true /\ ishape_of a = ishape_of (Vstack ls axis)) ls.
Proof.
  intros Hwf. destruct (wf_shapes _ Hwf) as [s Hs]. destruct (shapes_of_ok _ _ Hs) as (_ & Eo & Ei).
  rewrite shapes_vstack in Hs.
  destruct (mapM shapes ls) as [ss|] eqn:Hm; [|discriminate]. cbn [bind] in Hs.
  destruct (same_all (map snd ss)) eqn:Hsame; [|discriminate]. cbn [negb] in Hs.
  destruct (stack_params (map fst ss) axis) as [[S ind]|] eqn:Hsp; [|discriminate]. cbn [bind fst] in Hs.
  destruct ss as [|s0 ss']; [discriminate|]. apply finish_ok in Hs. subst s. cbn [fst snd] in Eo, Ei.
  apply mapM_ok in Hm. destruct (members_facts _ _ Hm) as (Emi & Emo & Pi & Po & Hw).
  assert (Fi : Forall (fun s => s = snd s0) (map snd (s0 :: ss')))
    by (apply (same_all_spec (map snd ss') (snd s0)); exact Hsame).
  rewrite <- Emi in Fi, Pi. rewrite <- Emo in Hsp, Po.
  exists ind. rewrite Ei, Eo. repeat split; try assumption.
  rewrite Forall_forall in *. intros a Ha. split; [auto|]. apply Fi. apply in_map. exact Ha.
Qed.

Lemma wf_diag_params ls oaxis iaxis : wf (Diag ls oaxis iaxis) = true ->
  exists iind oind,
    stack_params (map ishape_of ls) iaxis = Ok (ishape_of (Diag ls oaxis iaxis), iind) /\
    stack_params (map oshape_of ls) oaxis = Ok (oshape_of (Diag ls oaxis iaxis), oind) /\
    all_pos_shapes (map ishape_of ls) /\ all_pos_shapes (map oshape_of ls) /\ Forall (fun a => wf a = true) ls.
Proof.
  intros Hwf. destruct (wf_shapes _ Hwf) as [s Hs]. destruct (shapes_of_ok _ _ Hs) as (_ & Eo & Ei).
  rewrite shapes_diag in Hs.
  destruct (mapM shapes ls) as [ss|] eqn:Hm; [|discriminate]. cbn [bind] in Hs.
  destruct (stack_params (map snd ss) iaxis) as [[SI iind]|] eqn:Hspi; [|discriminate]. cbn [bind fst] in Hs.
  destruct (stack_params (map fst ss) oaxis) as [[SO oind]|] eqn:Hspo; [|discriminate]. cbn [bind fst] in Hs.
  apply finish_ok in Hs. subst s. cbn [fst snd] in Eo, Ei.
  apply mapM_ok in Hm. destruct (members_facts _ _ Hm) as (Emi & Emo & Pi & Po & Hw).
  rewrite <- Emi in Hspi, Pi. rewrite <- Emo in Hspo, Po.
  exists iind, oind. rewrite Ei, Eo. repeat split; assumption.
Qed.

(* split points of a stacking node: prefix sums of the members' sizes along the axis *)
Definition starts (axis : option Z) (shs : list (list Z)) : list Z := psums 0 (map (axsize axis) shs).

Lemma starts_eq shs axis S ind : stack_params shs axis = Ok (S, ind) -> 0 :: ind = starts axis shs.
Proof. intros H. exact (proj1 (stack_params_prefix_sums _ _ _ _ H)). Qed.

Section BlockMatrices.
  Variable R : StarRing.
  Add Ring RringBM : (SRth R).
  Notation farr := (list Z -> R).
  Variable arr : Z -> farr.
  Variable scal : Z -> R.
  Variable orc : linop -> farr -> farr.
  Notation D := (D R arr scal orc).
  Local Open Scope sr_scope.

  (* Hstack = block row [A_1 ... A_n]: the output is the sum over n of A_n applied to segment n of the input *)
  Theorem hstack_is_block_row ls axis : wf (Hstack ls axis) = true ->
    forall x o, D (Hstack ls axis) x o =
      sum_parts R ls (starts axis (map ishape_of ls))
        (fun a st => D a (fun i => x (emb axis (ishape_of a) st i)) o).
  Proof.
    intros Hwf x o. destruct (wf_hstack_params _ _ Hwf) as (ind & Hsp & _).
    rewrite D_hstack, Hsp, (starts_eq _ _ _ _ Hsp). reflexivity.
  Qed.

  (* two operands: [A B] x = A x[0:n_A] + B x[n_A:] *)
  Corollary hstack_pair A B axis : wf (Hstack [A; B] axis) = true ->
    forall x o, D (Hstack [A; B] axis) x o =
      D A (fun i => x (emb axis (ishape_of A) 0%Z i)) o +
      (D B (fun i => x (emb axis (ishape_of B) (axsize axis (ishape_of A)) i)) o + 0).
  Proof. intros Hwf x o. rewrite (hstack_is_block_row _ _ Hwf). reflexivity. Qed.

  (* Vstack = block column: segment n of the output is A_n x *)
  Theorem vstack_is_block_column ls axis : wf (Vstack ls axis) = true ->
    forall a st, In (a, st) (combine ls (starts axis (map oshape_of ls))) ->
    forall x j, inbox (oshape_of a) j -> D (Vstack ls axis) x (emb axis (oshape_of a) st j) = D a x j.
  Proof.
    intros Hwf a st Hin x j Hj. destruct (wf_vstack_params _ _ Hwf) as (ind & Hsp & _ & Po & _).
    rewrite <- (starts_eq _ _ _ _ Hsp) in Hin.
    apply (D_vstack_at R arr scal orc ls axis (oshape_of (Vstack ls axis)) ind); assumption.
  Qed.

  (* Diag = block diagonal: segment n of the output is A_n applied to segment n of the input *)
  Theorem diag_is_block_diagonal ls oaxis iaxis : wf (Diag ls oaxis iaxis) = true ->
    forall a ist ost,
      In (a, ist, ost) (combine (combine ls (starts iaxis (map ishape_of ls))) (starts oaxis (map oshape_of ls))) ->
    forall x j, inbox (oshape_of a) j ->
      D (Diag ls oaxis iaxis) x (emb oaxis (oshape_of a) ost j) = D a (fun i => x (emb iaxis (ishape_of a) ist i)) j.
  Proof.
    intros Hwf a ist ost Hin x j Hj. destruct (wf_diag_params _ _ _ Hwf) as (iind & oind & Hi & Ho & _ & Po & _).
    rewrite <- (starts_eq _ _ _ _ Hi), <- (starts_eq _ _ _ _ Ho) in Hin.
    apply (D_diag_at R arr scal orc ls oaxis iaxis (ishape_of (Diag ls oaxis iaxis)) iind (oshape_of (Diag ls oaxis iaxis)) oind); assumption.
  Qed.

  (* the segments partition the stacked box: any sum over it is the sum over the members' boxes *)
  Theorem hstack_input_partition ls axis : wf (Hstack ls axis) = true ->
    forall f : farr, sumB (ishape_of (Hstack ls axis)) f =
      sum_parts R ls (starts axis (map ishape_of ls)) (fun a st => sumB (ishape_of a) (fun j => f (emb axis (ishape_of a) st j))).
  Proof.
    intros Hwf f. destruct (wf_hstack_params _ _ Hwf) as (ind & Hsp & Pi & _).
    rewrite (stack_split R _ _ _ _ Hsp Pi), (starts_eq _ _ _ _ Hsp), sum_parts_map. reflexivity.
  Qed.

  Theorem vstack_output_partition ls axis : wf (Vstack ls axis) = true ->
    forall f : farr, sumB (oshape_of (Vstack ls axis)) f =
      sum_parts R ls (starts axis (map oshape_of ls)) (fun a st => sumB (oshape_of a) (fun j => f (emb axis (oshape_of a) st j))).
  Proof.
    intros Hwf f. destruct (wf_vstack_params _ _ Hwf) as (ind & Hsp & _ & Po & _).
    rewrite (stack_split R _ _ _ _ Hsp Po), (starts_eq _ _ _ _ Hsp), sum_parts_map. reflexivity.
  Qed.

  (* size of the stacked axis = total of the members' sizes *)
  Theorem hstack_total ls axis : wf (Hstack ls axis) = true ->
    getZ (ishape_of (Hstack ls axis)) (match axis with None => 0 | Some ax => ax mod lenZ (ishape_of (Hstack ls axis)) end)%Z
    = sumlist (map (axsize axis) (map ishape_of ls)).
  Proof.
    intros Hwf. destruct (wf_hstack_params _ _ Hwf) as (ind & Hsp & _).
    exact (proj2 (stack_params_prefix_sums _ _ _ _ Hsp)).
  Qed.

  Theorem vstack_total ls axis : wf (Vstack ls axis) = true ->
    getZ (oshape_of (Vstack ls axis)) (match axis with None => 0 | Some ax => ax mod lenZ (oshape_of (Vstack ls axis)) end)%Z
    = sumlist (map (axsize axis) (map oshape_of ls)).
  Proof.
    intros Hwf. destruct (wf_vstack_params _ _ Hwf) as (ind & Hsp & _).
    exact (proj2 (stack_params_prefix_sums _ _ _ _ Hsp)).
  Qed.
End BlockMatrices.

(* ------------------------------------------------------------------ the hypotheses are satisfiable *)
Example stack_example_wf :
  let A := Hstack [Downsample [4; 3] [2; 1] [0; 0]; Flip [2; 3] (Some [0])] (Some (-2)) in
  let B := Vstack [Identity [2; 3]; Flip [2; 3] None; Identity [2; 3]] (Some 1) in
  let C := Diag [A; Compose [Identity [2; 3]; A]; op_lscale 5 A] (Some 0) (Some 0) in
  let T := Compose [Conj B; Add [A; op_neg A]; Hstack [C; C] None] in
  let T2 := Diag [A; Vstack [A; A] None] None (Some (-1)) in
  wf T = true /\ nodes_ok' (fun L => proven_node L = true /\ wf L = true) T /\
  wf T2 = true /\ nodes_ok' (fun L => proven_node L = true /\ wf L = true) T2 /\
  shapes A = Ok ([2; 3], [6; 3]) /\ shapes B = Ok ([2; 9], [2; 3]) /\ shapes C = Ok ([6; 3], [18; 3]) /\
  shapes T = Ok ([2; 9], [108]) /\ shapes T2 = Ok ([18], [6; 6]) /\
  shapes (adj T) = Ok ([108], [2; 9]) /\ shapes (adj T2) = Ok ([6; 6], [18]) /\
  starts (Some (-2)) (map ishape_of [Downsample [4; 3] [2; 1] [0; 0]; Flip [2; 3] (Some [0])]) = [0; 4] /\
  starts None (map oshape_of [A; A; A]) = [0; 6; 12].
Proof. vm_compute. repeat split; reflexivity. Qed.
