(* proofs/OpaqueInterp.v — the library-backed leaves Interpolate / Gridding of the operator language satisfy the node
   hypothesis of C01 (<L x, y> = <x, L^H y>, shapes swapped) when the oracle [orc] of [den] is the function model of
   sigpy.interp (model/OpaqueInterp.v: the class's _apply read through model/Interp.v).

   The work is matching conventions: the class passes (input, coord, kernel, width, param) [+ oshape for Gridding];
   the wrappers flatten the batch axes (batch_shape = shape[:-ndim]) and the point axes (coord.shape[:-1]) and call the
   generated numba kernels with input_shape = [batch_size] + grid, output_shape = [batch_size, npts] (interpolate) and the
   two swapped (gridding).  Adjointness of the kernels is C07 (proofs/Interp.v, Interp2D3D.v); the batch / point
   flattening wrappers are re-indexings by mutually inverse index maps. *)
From Coq Require Import ZArith List Lia Bool Ring.
From SV Require Import lib.Scalar lib.BigSum lib.LoopIR lib.NdArray lib.Coord gen.Gen_interp model.Rearrange model.Block model.Interp
  model.Linop model.OpaqueInterp
  proofs.SumTools proofs.Block proofs.Interp proofs.Interp2D3D proofs.LinopTheory proofs.LinopLeaves proofs.LinopScale
  proofs.LinopLeavesA proofs.LinopStack proofs.LinopLeavesB proofs.LinopLeavesB2 proofs.LinopAll.
Import ListNotations.
Local Open Scope Z_scope.

(* ---------------------------------------------------------------- list / shape helpers *)
Lemma pyget_last (l : list Z) (u : Z) : pyget (l ++ [u]) (-1) = u.
Proof.
  unfold pyget, getZ. change (-1 <? 0) with true. cbv iota. rewrite app_length. cbn [length].
  replace (Z.to_nat (Z.of_nat (length l + 1) + -1)) with (length l) by lia.
  rewrite app_nth2 by lia. rewrite Nat.sub_diag. reflexivity.
Qed.

Lemma wf_gridding_interpolate s c k w p : wf (Gridding s c k w p) = wf (Interpolate s c k w p).
Proof.
  unfold wf. cbn [shapes]. unfold finish. rewrite andb_comm.
  destruct (all_pos (droplast (Z.to_nat (pyget (ashape_of c) (-1))) s ++ droplast 1 (ashape_of c)) && all_pos s); reflexivity.
Qed.

(* ---------------------------------------------------------------- part 1: the flattening wrappers are adjoint pairs *)
Definition fl_idx (bat : list Z) (o : list Z) : list Z :=
  match o with b :: rest => unravel bat b ++ rest | [] => [] end.
Definition unfl_idx (bat : list Z) (i : list Z) : list Z :=
  ravel bat (firstn (length bat) i) :: skipn (length bat) i.
Definition pts_idx (bat pts : list Z) (idx : list Z) : list Z :=
  [ravel bat (firstn (length bat) idx); ravel pts (skipn (length bat) idx)].
Definition unpts_idx (bat pts : list Z) (i : list Z) : list Z :=
  match i with [b; p] => unravel bat b ++ unravel pts p | _ => [] end.

Section Wrap.
  Variable R : StarRing.
  Add Ring RringOI1 : (SRth R).
  Notation farr := (list Z -> R).
  Local Open Scope sr_scope.

  (* output.reshape(batch_shape + pts_shape) of a [batch_size, npts] array *)
  Definition unflat_pts (bat pts : list Z) (E : farr) : farr :=
    fun idx => E [ravel bat (firstn (length bat) idx); ravel pts (skipn (length bat) idx)].
  (* input.reshape([batch_size, npts]) of a batch_shape + pts_shape array *)
  Definition flat_pts (bat pts : list Z) (y : farr) : farr :=
    fun idx => match idx with [b; p] => y (unravel bat b ++ unravel pts p) | _ => 0 end.

  (* input.reshape([batch_size] + grid)  vs  output.reshape(batch_shape + grid) *)
  Lemma flatten_pair bat rest : Forall (fun n => (0 < n)%Z) bat ->
    adjoint_pair R (bat ++ rest) (prodZ bat :: rest) (flatten_batch R bat) (unflatten_batch R bat (length bat)).
  Proof.
    intros Hb.
    apply (adjoint_pair_ext R (bat ++ rest) (prodZ bat :: rest)
             (fun x o => x (fl_idx bat o)) (fun y i => y (unfl_idx bat i))).
    - intros x [|b r] _; reflexivity.
    - intros; reflexivity.
    - apply reindex_adjoint.
      + intros [|b r] Ho; simpl in Ho; [tauto|]. destruct Ho as [Hb0 Hr].
        destruct (ravel_unravel bat b Hb Hb0) as [E B]. split.
        * cbn [fl_idx]. apply inbox_app; assumption.
        * unfold unfl_idx, fl_idx. pose proof (inbox_length _ _ B) as Lb.
          rewrite <- Lb, firstn_pre, skipn_pre, E. reflexivity.
      + intros i Hi. destruct (inbox_app_inv _ _ _ Hi) as [H1 H2]. split.
        * unfold unfl_idx. simpl. split; [apply ravel_bound; exact H1 | exact H2].
        * unfold unfl_idx, fl_idx. rewrite unravel_ravel by exact H1. apply firstn_skipn.
  Qed.

  (* output.reshape(batch_shape + pts_shape)  vs  input.reshape([batch_size, npts]) *)
  Lemma points_pair bat pts : Forall (fun n => (0 < n)%Z) bat -> Forall (fun n => (0 < n)%Z) pts ->
    adjoint_pair R [prodZ bat; prodZ pts] (bat ++ pts) (unflat_pts bat pts) (flat_pts bat pts).
  Proof.
    intros Hb Hp.
    apply (adjoint_pair_ext R [prodZ bat; prodZ pts] (bat ++ pts)
             (fun x o => x (pts_idx bat pts o)) (fun y i => y (unpts_idx bat pts i))).
    - intros; reflexivity.
    - intros y [|b [|p [|? ?]]] Hi; simpl in Hi; solve [tauto | reflexivity].
    - apply reindex_adjoint.
      + intros o Ho. destruct (inbox_app_inv _ _ _ Ho) as [H1 H2]. split.
        * unfold pts_idx. simpl. pose proof (ravel_bound _ _ H1). pose proof (ravel_bound _ _ H2). tauto.
        * unfold pts_idx, unpts_idx. rewrite !unravel_ravel by assumption. apply firstn_skipn.
      + intros [|b [|p [|? ?]]] Hi; simpl in Hi; try tauto. destruct Hi as (Hb0 & Hp0 & _).
        destruct (ravel_unravel bat b Hb Hb0) as [Eb Bb]. destruct (ravel_unravel pts p Hp Hp0) as [Ep Bp]. split.
        * cbn [unpts_idx]. apply inbox_app; assumption.
        * unfold pts_idx, unpts_idx. pose proof (inbox_length _ _ Bb) as Lb.
          rewrite <- Lb, firstn_pre, skipn_pre, Eb, Ep. reflexivity.
  Qed.

  (* any kernel pair on the flattened shapes lifts through the wrappers *)
  Lemma wrap_pair bat grid pts (FK GK : farr -> farr) :
    Forall (fun n => (0 < n)%Z) bat -> Forall (fun n => (0 < n)%Z) pts ->
    adjoint_pair R (prodZ bat :: grid) [prodZ bat; prodZ pts] FK GK ->
    adjoint_pair R (bat ++ grid) (bat ++ pts)
      (fun x => unflat_pts bat pts (FK (flatten_batch R bat x)))
      (fun y => unflatten_batch R bat (length bat) (GK (flat_pts bat pts y))).
  Proof.
    intros Hb Hp HK.
    pose proof (adjoint_pair_compose R _ _ _ _ _ _ _ (flatten_pair bat grid Hb) HK) as H1.
    exact (adjoint_pair_compose R _ _ _ _ _ _ _ H1 (points_pair bat pts Hb Hp)).
  Qed.
End Wrap.

(* ---------------------------------------------------------------- part 2: the generated kernels, as adjoint pairs *)
Section KPairs.
  Variable R : StarRing.
  Add Ring RringOI2 : (SRth R).
  Variable C : COps.
  Variable kern : C -> C -> C.
  Variable wt : C -> R.
  Hypothesis wt_real : forall w, conj (wt w) = wt w.
  Local Open Scope sr_scope.
  Variables (coord width param : list Z -> C) (cs ps ws gsh psh : list Z).
  Variables (batch nx npts : Z).
  Hypothesis Hnp : shape_at cs 0 = npts.
  Hypothesis Hb : shape_at gsh 0 = batch.

  (* the 1-D analogue of Interp2D3D.k_interp2_gridding2_adjoint *)
  Theorem k_interp1_gridding1_adjoint (x y : list Z -> R) :
    shape_at gsh 1 = nx -> (0 < nx)%Z ->
    inner [batch; npts] (exec (k_interpolate1 R C kern wt x coord width param cs gsh psh ps ws) [] (fun _ => 0)) y =
    inner [batch; nx] x (exec (k_gridding1 R C kern wt y coord width param cs psh gsh ps ws) [] (fun _ => 0)).
  Proof.
    intros Hx Hnx.
    transitivity (inner [batch; npts] (interp_op R C kern wt coord width param cs ps ws nx x) y).
    { unfold inner. apply sumB_ext. intros [|b [|i [|? ?]]] Hin; simpl in Hin; try tauto.
      rewrite interp1_exec by (rewrite ?Hb, ?Hnp; tauto). rewrite Hx. cbn [interp_op]. f_equal. ring. }
    rewrite (interp_gridding_adjoint R C kern wt wt_real coord width param cs ps ws batch nx npts Hnx).
    unfold inner. apply sumB_ext. intros [|b [|m [|? ?]]] Hin; simpl in Hin; try tauto.
    rewrite gridding1_exec by (rewrite ?Hb; tauto). rewrite Hnp, Hx. cbn [grid_op]. f_equal. f_equal. ring.
  Qed.
End KPairs.

(* ---------------------------------------------------------------- part 3: the wrappers of model/Interp.v, unfolded *)
Section Unfold.
  Variable R : StarRing.
  Variable C : COps.
  Variable wt : C -> R.
  Notation farr := (list Z -> R).
  Notation z0 := (fun _ : list Z => @zero R).

  Ltac open_wrapper n :=
    rewrite last_last; change (Z.to_nat n) with (Pos.to_nat (Z.to_pos n)); cbv beta iota zeta.

  Lemma interpolate_unfold1 kern bat n1 pts coord w p (x : farr) :
    interpolate R C kern wt (bat ++ [n1]) (pts ++ [1]) coord w p x =
    Ok (bat ++ pts, unflat_pts R bat pts (exec (k_interpolate1 R C kern wt (flatten_batch R bat x) (coord2 C (pts ++ [1]) coord)
          (wp_array C 1 w) (wp_array C 1 p) [prodZ pts; 1] (prodZ bat :: [n1]) [prodZ bat; prodZ pts]
          [wp_len C 1 p] [wp_len C 1 w]) [] z0)).
  Proof.
    unfold interpolate. rewrite last_last. change (Z.to_nat 1) with 1%nat. cbv beta iota zeta.
    rewrite droplast_1, lastn_1, droplast_1. reflexivity.
  Qed.

  Lemma gridding_unfold1 kern ins bat n1 pts coord w p (y : farr) :
    gridding R C kern wt ins (pts ++ [1]) (bat ++ [n1]) coord w p y =
    Ok (unflatten_batch R bat (length bat) (exec (k_gridding1 R C kern wt (flat_pts R bat pts y) (coord2 C (pts ++ [1]) coord)
          (wp_array C 1 w) (wp_array C 1 p) [prodZ pts; 1] [prodZ bat; prodZ pts] (prodZ bat :: [n1])
          [wp_len C 1 p] [wp_len C 1 w]) [] z0)).
  Proof.
    unfold gridding. rewrite last_last. change (Z.to_nat 1) with 1%nat. cbv beta iota zeta.
    rewrite droplast_1, lastn_1, droplast_1. reflexivity.
  Qed.

  Lemma interpolate_unfold2 kern bat n1 n2 pts coord w p (x : farr) :
    interpolate R C kern wt (bat ++ [n1; n2]) (pts ++ [2]) coord w p x =
    Ok (bat ++ pts, unflat_pts R bat pts (exec (k_interpolate2 R C kern wt (flatten_batch R bat x) (coord2 C (pts ++ [2]) coord)
          (wp_array C 2 w) (wp_array C 2 p) [prodZ pts; 2] (prodZ bat :: [n1; n2]) [prodZ bat; prodZ pts]
          [wp_len C 2 p] [wp_len C 2 w]) [] z0)).
  Proof.
    unfold interpolate. rewrite last_last. change (Z.to_nat 2) with 2%nat. cbv beta iota zeta.
    rewrite droplast_2, lastn_2, droplast_1. reflexivity.
  Qed.

  Lemma gridding_unfold2 kern ins bat n1 n2 pts coord w p (y : farr) :
    gridding R C kern wt ins (pts ++ [2]) (bat ++ [n1; n2]) coord w p y =
    Ok (unflatten_batch R bat (length bat) (exec (k_gridding2 R C kern wt (flat_pts R bat pts y) (coord2 C (pts ++ [2]) coord)
          (wp_array C 2 w) (wp_array C 2 p) [prodZ pts; 2] [prodZ bat; prodZ pts] (prodZ bat :: [n1; n2])
          [wp_len C 2 p] [wp_len C 2 w]) [] z0)).
  Proof.
    unfold gridding. rewrite last_last. change (Z.to_nat 2) with 2%nat. cbv beta iota zeta.
    rewrite droplast_2, lastn_2, droplast_1. reflexivity.
  Qed.

  Lemma interpolate_unfold3 kern bat n1 n2 n3 pts coord w p (x : farr) :
    interpolate R C kern wt (bat ++ [n1; n2; n3]) (pts ++ [3]) coord w p x =
    Ok (bat ++ pts, unflat_pts R bat pts (exec (k_interpolate3 R C kern wt (flatten_batch R bat x) (coord2 C (pts ++ [3]) coord)
          (wp_array C 3 w) (wp_array C 3 p) [prodZ pts; 3] (prodZ bat :: [n1; n2; n3]) [prodZ bat; prodZ pts]
          [wp_len C 3 p] [wp_len C 3 w]) [] z0)).
  Proof.
    unfold interpolate. rewrite last_last. change (Z.to_nat 3) with 3%nat. cbv beta iota zeta.
    rewrite droplast_3, lastn_3, droplast_1. reflexivity.
  Qed.

  Lemma gridding_unfold3 kern ins bat n1 n2 n3 pts coord w p (y : farr) :
    gridding R C kern wt ins (pts ++ [3]) (bat ++ [n1; n2; n3]) coord w p y =
    Ok (unflatten_batch R bat (length bat) (exec (k_gridding3 R C kern wt (flat_pts R bat pts y) (coord2 C (pts ++ [3]) coord)
          (wp_array C 3 w) (wp_array C 3 p) [prodZ pts; 3] [prodZ bat; prodZ pts] (prodZ bat :: [n1; n2; n3])
          [wp_len C 3 p] [wp_len C 3 w]) [] z0)).
  Proof.
    unfold gridding. rewrite last_last. change (Z.to_nat 3) with 3%nat. cbv beta iota zeta.
    rewrite droplast_3, lastn_3, droplast_1. reflexivity.
  Qed.
End Unfold.

(* ---------------------------------------------------------------- part 4: the leaves *)
Section Leaves.
  Variable R : StarRing.
  Add Ring RringOI3 : (SRth R).
  Variable C : COps.
  Notation farr := (list Z -> R).
  Variable arr : Z -> farr.
  Variable scal : Z -> R.
  Variable orc : linop -> farr -> farr.
  Variable wt : C -> R.
  Variable carr : Z -> list Z -> C.
  Variable kern_of : Z -> C -> C -> C.
  Variable width_of param_of : Z -> wp C.
  (* the same oracle fact C07's transpose theorems assume: interpolation weights are real *)
  Hypothesis wt_real : forall w, conj (wt w) = wt w.
  Notation D := (D R arr scal orc).
  Notation ORC := (orc_interp R C wt carr kern_of width_of param_of).

  (* [orc] agrees with the function model on a leaf (pointwise; implied by [forall x, orc L x = orc_interp .. L x]) *)
  Definition orc_is_interp (L : linop) : Prop := forall x o, orc L x o = ORC L x o.

  (* generic core: once the two wrappers are unfolded to   reshape . kernel . reshape   with an adjoint kernel pair *)
  Lemma apair_core bat grid pts tg ndz k w p (FK GK : farr -> farr) :
    let cref := ARef tg (pts ++ [ndz]) in
    droplast (Z.to_nat ndz) (bat ++ grid) = bat ->
    wf (Interpolate (bat ++ grid) cref k w p) = true ->
    (forall x, interpolate R C (kern_of k) wt (bat ++ grid) (pts ++ [ndz]) (carr tg) (width_of w) (param_of p) x =
               Ok (bat ++ pts, unflat_pts R bat pts (FK (flatten_batch R bat x)))) ->
    (forall ins y, gridding R C (kern_of k) wt ins (pts ++ [ndz]) (bat ++ grid) (carr tg) (width_of w) (param_of p) y =
               Ok (unflatten_batch R bat (length bat) (GK (flat_pts R bat pts y)))) ->
    (forall grid_pos : Forall (fun n => (0 < n)%Z) grid, adjoint_pair R (prodZ bat :: grid) [prodZ bat; prodZ pts] FK GK) ->
    orc_is_interp (Interpolate (bat ++ grid) cref k w p) ->
    orc_is_interp (Gridding (bat ++ grid) cref k w p) ->
    apair R arr scal orc (Interpolate (bat ++ grid) cref k w p) /\
    apair R arr scal orc (Gridding (bat ++ grid) cref k w p).
  Proof.
    intros cref Hdl Hwf HI HG HK HoI HoG.
    assert (HshI : shapes (Interpolate (bat ++ grid) cref k w p) = finish (bat ++ pts) (bat ++ grid)).
    { cbn [shapes cref ashape_of]. rewrite pyget_last, Hdl, droplast_1. reflexivity. }
    assert (HshG : shapes (Gridding (bat ++ grid) cref k w p) = finish (bat ++ grid) (bat ++ pts)).
    { cbn [shapes cref ashape_of]. rewrite pyget_last, Hdl, droplast_1. reflexivity. }
    unfold wf in Hwf. rewrite HshI in Hwf.
    destruct (finish (bat ++ pts) (bat ++ grid)) as [r|] eqn:F; [|discriminate].
    destruct (finish_pos _ _ _ F) as [Po Pi]. apply finish_ok in F. subst r.
    assert (F2 : finish (bat ++ grid) (bat ++ pts) = Ok (bat ++ grid, bat ++ pts)).
    { unfold finish. destruct (proj2 (all_pos_spec _) Po), (proj2 (all_pos_spec _) Pi).
      rewrite (proj2 (all_pos_spec _) Po), (proj2 (all_pos_spec _) Pi). reflexivity. }
    assert (Pb : Forall (fun n => (0 < n)%Z) bat) by (apply Forall_app in Pi; tauto).
    assert (Pg : Forall (fun n => (0 < n)%Z) grid) by (apply Forall_app in Pi; tauto).
    assert (Pp : Forall (fun n => (0 < n)%Z) pts) by (apply Forall_app in Po; tauto).
    pose proof (wrap_pair R bat grid pts FK GK Pb Pp (HK Pg)) as HW.
    assert (HP : adjoint_pair R (bat ++ grid) (bat ++ pts)
                   (D (Interpolate (bat ++ grid) cref k w p)) (D (Gridding (bat ++ grid) cref k w p))).
    { eapply adjoint_pair_ext; [| |exact HW].
      - intros x o _. unfold LinopTheory.D. cbn [den]. rewrite HoI. cbn [orc_interp cref ashape_of atag].
        rewrite HI. reflexivity.
      - intros y i _. unfold LinopTheory.D. cbn [den]. rewrite HoG. cbn [orc_interp cref ashape_of atag].
        rewrite HG. reflexivity. }
    split.
    - unfold apair. unfold oshape_of, ishape_of. rewrite HshI. cbn [adj]. exact HP.
    - unfold apair. unfold oshape_of, ishape_of. rewrite HshG, F2. cbn [adj]. apply adjoint_pair_sym. exact HP.
  Qed.

  Lemma interp_ok_spec s tg cs : interp_ok s (ARef tg cs) = true ->
    exists pts nd, cs = pts ++ [nd] /\ (nd = 1 \/ nd = 2 \/ nd = 3)%Z /\ (Z.to_nat nd <= length s)%nat.
  Proof.
    unfold interp_ok. cbn [ashape_of]. intros H.
    apply andb_true_iff in H. destruct H as [H H4]. apply andb_true_iff in H. destruct H as [H H3].
    apply andb_true_iff in H. destruct H as [H1 H2].
    apply Nat.leb_le in H1. apply Nat.leb_le in H4. apply Z.leb_le in H2. apply Z.leb_le in H3.
    assert (Hne : cs <> []) by (destruct cs; [simpl in H1; lia| discriminate]).
    destruct (last1_split cs Hne) as (pts & nd & ->). rewrite pyget_last in *.
    exists pts, nd. split; [reflexivity|]. split; [lia| exact H4].
  Qed.

  (* both leaves at once (they are each other's adjoint, with the same arguments) *)
  Theorem apair_interp_family s c k w p :
    interp_ok s c = true -> wf (Interpolate s c k w p) = true ->
    orc_is_interp (Interpolate s c k w p) -> orc_is_interp (Gridding s c k w p) ->
    apair R arr scal orc (Interpolate s c k w p) /\ apair R arr scal orc (Gridding s c k w p).
  Proof.
    intros Hok Hwf HoI HoG. destruct c as [tg cs].
    destruct (interp_ok_spec _ _ _ Hok) as (pts & nd & -> & Hnd & Hlen).
    destruct Hnd as [-> | [-> | ->]].
    - (* one grid axis *)
      assert (Hne : s <> []) by (destruct s; [simpl in Hlen; lia| discriminate]).
      destruct (last1_split s Hne) as (bat & n1 & ->).
      apply (apair_core bat [n1] pts tg 1 k w p
               (fun xin => exec (k_interpolate1 R C (kern_of k) wt xin (coord2 C (pts ++ [1]) (carr tg))
                  (wp_array C 1 (width_of w)) (wp_array C 1 (param_of p)) [prodZ pts; 1] (prodZ bat :: [n1]) [prodZ bat; prodZ pts]
                  [wp_len C 1 (param_of p)] [wp_len C 1 (width_of w)]) [] (fun _ => zero))
               (fun yin => exec (k_gridding1 R C (kern_of k) wt yin (coord2 C (pts ++ [1]) (carr tg))
                  (wp_array C 1 (width_of w)) (wp_array C 1 (param_of p)) [prodZ pts; 1] [prodZ bat; prodZ pts] (prodZ bat :: [n1])
                  [wp_len C 1 (param_of p)] [wp_len C 1 (width_of w)]) [] (fun _ => zero)));
        try assumption.
      + apply droplast_1.
      + intros x. apply interpolate_unfold1.
      + intros ins y. apply gridding_unfold1.
      + intros Pg x y. inversion Pg; subst.
        apply (k_interp1_gridding1_adjoint R C (kern_of k) wt wt_real _ _ _ [prodZ pts; 1] _ _ (prodZ bat :: [n1])
                 [prodZ bat; prodZ pts] (prodZ bat) n1 (prodZ pts)); try reflexivity; assumption.
    - (* two grid axes *)
      destruct (last2_split s Hlen) as (bat & n1 & n2 & ->).
      apply (apair_core bat [n1; n2] pts tg 2 k w p
               (fun xin => exec (k_interpolate2 R C (kern_of k) wt xin (coord2 C (pts ++ [2]) (carr tg))
                  (wp_array C 2 (width_of w)) (wp_array C 2 (param_of p)) [prodZ pts; 2] (prodZ bat :: [n1; n2]) [prodZ bat; prodZ pts]
                  [wp_len C 2 (param_of p)] [wp_len C 2 (width_of w)]) [] (fun _ => zero))
               (fun yin => exec (k_gridding2 R C (kern_of k) wt yin (coord2 C (pts ++ [2]) (carr tg))
                  (wp_array C 2 (width_of w)) (wp_array C 2 (param_of p)) [prodZ pts; 2] [prodZ bat; prodZ pts] (prodZ bat :: [n1; n2])
                  [wp_len C 2 (param_of p)] [wp_len C 2 (width_of w)]) [] (fun _ => zero)));
        try assumption.
      + apply droplast_2.
      + intros x. apply interpolate_unfold2.
      + intros ins y. apply gridding_unfold2.
      + intros Pg x y. inversion Pg as [|? ? P1 Pg']; subst. inversion Pg' as [|? ? P2 _]; subst.
        apply (k_interp2_gridding2_adjoint R C (kern_of k) wt wt_real _ _ _ [prodZ pts; 2] _ _ (prodZ bat :: [n1; n2])
                 [prodZ bat; prodZ pts] (prodZ bat) n1 n2 (prodZ pts)); try reflexivity; assumption.
    - (* three grid axes *)
      destruct (last3_split s Hlen) as (bat & n1 & n2 & n3 & ->).
      apply (apair_core bat [n1; n2; n3] pts tg 3 k w p
               (fun xin => exec (k_interpolate3 R C (kern_of k) wt xin (coord2 C (pts ++ [3]) (carr tg))
                  (wp_array C 3 (width_of w)) (wp_array C 3 (param_of p)) [prodZ pts; 3] (prodZ bat :: [n1; n2; n3]) [prodZ bat; prodZ pts]
                  [wp_len C 3 (param_of p)] [wp_len C 3 (width_of w)]) [] (fun _ => zero))
               (fun yin => exec (k_gridding3 R C (kern_of k) wt yin (coord2 C (pts ++ [3]) (carr tg))
                  (wp_array C 3 (width_of w)) (wp_array C 3 (param_of p)) [prodZ pts; 3] [prodZ bat; prodZ pts] (prodZ bat :: [n1; n2; n3])
                  [wp_len C 3 (param_of p)] [wp_len C 3 (width_of w)]) [] (fun _ => zero)));
        try assumption.
      + apply droplast_3.
      + intros x. apply interpolate_unfold3.
      + intros ins y. apply gridding_unfold3.
      + intros Pg x y. inversion Pg as [|? ? P1 Pg']; subst. inversion Pg' as [|? ? P2 Pg'']; subst.
        inversion Pg'' as [|? ? P3 _]; subst.
        apply (k_interp3_gridding3_adjoint R C (kern_of k) wt wt_real _ _ _ [prodZ pts; 3] _ _ (prodZ bat :: [n1; n2; n3])
                 [prodZ bat; prodZ pts] (prodZ bat) n1 n2 n3 (prodZ pts)); try reflexivity; assumption.
  Qed.

  (* Interpolate(ishape, coord, kernel, width, param): <A x, y> = <x, A.H y>, A.H = Gridding(ishape, coord, kernel, width, param) *)
  Theorem apair_interpolate i c k w p :
    interp_ok i c = true -> wf (Interpolate i c k w p) = true ->
    orc_is_interp (Interpolate i c k w p) -> orc_is_interp (adj (Interpolate i c k w p)) ->
    apair R arr scal orc (Interpolate i c k w p).
  Proof. intros Hok Hwf H1 H2. exact (proj1 (apair_interp_family i c k w p Hok Hwf H1 H2)). Qed.

  (* Gridding(oshape, coord, kernel, width, param): A.H = Interpolate(oshape, coord, kernel, width, param) *)
  Theorem apair_gridding o c k w p :
    interp_ok o c = true -> wf (Gridding o c k w p) = true ->
    orc_is_interp (Gridding o c k w p) -> orc_is_interp (adj (Gridding o c k w p)) ->
    apair R arr scal orc (Gridding o c k w p).
  Proof.
    intros Hok Hwf H1 H2. rewrite wf_gridding_interpolate in Hwf.
    exact (proj2 (apair_interp_family o c k w p Hok Hwf H2 H1)).
  Qed.

  (* the shapes swap under adj, for every parameter (what the stacking combinators additionally ask of a leaf) *)
  Lemma adj_shape_interpolate i c k w p o i' :
    shapes (Interpolate i c k w p) = Ok (o, i') -> shapes (adj (Interpolate i c k w p)) = Ok (i', o).
  Proof.
    cbn [adj shapes]. unfold finish. intros H.
    destruct (all_pos (droplast (Z.to_nat (pyget (ashape_of c) (-1))) i ++ droplast 1 (ashape_of c))) eqn:E1;
      destruct (all_pos i) eqn:E2; cbn [andb] in *; try discriminate. inversion H; subst. reflexivity.
  Qed.

  Lemma adj_shape_gridding o c k w p o' i :
    shapes (Gridding o c k w p) = Ok (o', i) -> shapes (adj (Gridding o c k w p)) = Ok (i, o').
  Proof.
    cbn [adj shapes]. unfold finish. intros H.
    destruct (all_pos (droplast (Z.to_nat (pyget (ashape_of c) (-1))) o ++ droplast 1 (ashape_of c))) eqn:E1;
      destruct (all_pos o) eqn:E2; cbn [andb] in *; try discriminate. inversion H; subst. reflexivity.
  Qed.

  (* normal L is the default composition A.H * A for both classes (no _normal_linop override) *)
  Lemma normal_interpolate i c k w p :
    normal (Interpolate i c k w p) = Compose [Gridding i c k w p; Interpolate i c k w p].
  Proof. reflexivity. Qed.
  Lemma normal_gridding o c k w p :
    normal (Gridding o c k w p) = Compose [Interpolate o c k w p; Gridding o c k w p].
  Proof. reflexivity. Qed.

  (* ---- plugging into adj_correct ---- *)
  Lemma proven_node_interp_adj L : proven_node_interp L = true -> proven_node_interp (adj L) = true.
  Proof. destruct L; simpl; try discriminate; auto. Qed.

  Hypothesis orc_agrees : forall L, proven_node_interp L = true -> orc_is_interp L.

  Theorem nodes_interp L : proven_node_interp L = true -> wf L = true -> apair R arr scal orc L.
  Proof.
    intros Hp Hwf. pose proof (proven_node_interp_adj L Hp) as Hp'.
    destruct L; simpl in Hp; try discriminate.
    - apply apair_interpolate; auto.
    - apply apair_gridding; auto.
  Qed.

  (* every Conj / + / composition / scalar-overload tree whose leaves are Interpolate / Gridding leaves with valid
     parameters: NO node hypothesis left besides the agreement of [orc] with the function model *)
  Theorem adj_correct_interp A :
    wf A = true -> nodes_ok (fun L => proven_node_interp L = true /\ wf L = true) A -> apair R arr scal orc A.
  Proof.
    intros Hwf Hn. apply adj_correct; [exact Hwf|].
    eapply nodes_ok_impl; [|exact Hn]. intros L [Hp Hw]. apply nodes_interp; assumption.
  Qed.

  Lemma proven_node_interp_library L : proven_node_interp L = true -> library_backed L = true.
  Proof. destruct L; simpl; try discriminate; reflexivity. Qed.

  (* through ALL six combinators (Conj, Add, Compose, Hstack, Vstack, Diag): leaves are either leaves with a modelled
     denotation (boolean check proven_all) or Interpolate / Gridding leaves with valid parameters *)
  Theorem adj_correct_all_interp A :
    wf A = true ->
    nodes_ok' (fun L => (proven_all L = true /\ wf L = true) \/ (proven_node_interp L = true /\ wf L = true)) A ->
    apair R arr scal orc A /\ adj_shape_ok A.
  Proof.
    intros Hwf Hn. apply adj_correct_all'; [exact Hwf|].
    eapply nodes_ok'_impl; [|exact Hn]. intros L [H|[Hp Hw]]; [left; exact H| right].
    split; [apply proven_node_interp_library; exact Hp| apply nodes_interp; assumption].
  Qed.
End Leaves.

(* ---------------------------------------------------------------- the hypotheses are satisfiable *)
(* 2 batch axes [2;1], a 3-D grid [4;1;5] with a length-1 axis, a 2-D point set [3;2] (coord.shape = [3;2;3]) *)
Example interp_valid_example :
  let L := Interpolate [2; 1; 4; 1; 5] (ARef 7 [3; 2; 3]) 1 2 3 in
  proven_node_interp L = true /\ wf L = true /\ oshape_of L = [2; 1; 3; 2] /\ ishape_of L = [2; 1; 4; 1; 5] /\
  adj L = Gridding [2; 1; 4; 1; 5] (ARef 7 [3; 2; 3]) 1 2 3 /\ proven_node_interp (adj L) = true /\ wf (adj L) = true /\
  oshape_of (adj L) = [2; 1; 4; 1; 5] /\ ishape_of (adj L) = [2; 1; 3; 2].
Proof. vm_compute. repeat split; reflexivity. Qed.

(* rejected: ndim = 4 (python: IndexError on the kernel table), and a grid with fewer axes than ndim *)
Example interp_invalid_examples :
  proven_node_interp (Interpolate [4; 4; 4; 4] (ARef 7 [3; 4]) 1 2 3) = false /\
  proven_node_interp (Gridding [5] (ARef 7 [3; 2]) 1 2 3) = false.
Proof. split; reflexivity. Qed.

(* a tree over the family *)
Example interp_tree_example :
  let c := ARef 7 [3; 2] in
  let A := Compose [Gridding [2; 4; 5] c 1 2 3; Conj (Interpolate [2; 4; 5] c 1 2 3)] in
  wf A = true /\ nodes_ok (fun L => proven_node_interp L = true /\ wf L = true) A.
Proof. vm_compute. repeat split; reflexivity. Qed.

(* a tree through Hstack / Vstack / Diag / Add / Conj / the scalar overload mixing modelled leaves with the family *)
Example interp_all_example :
  let c := ARef 7 [3; 2] in
  let I := Interpolate [2; 4; 5] c 1 2 3 in
  let G := Gridding [2; 4; 5] c 1 2 3 in
  let A := Add [Compose [G; Hstack [Multiply [2; 3] (MArray (ARef 9 [2; 3])) true; Identity [2; 3]] (Some 0);
                         Vstack [I; Conj I] (Some 0)];
                op_lscale 5 (Compose [G; Hstack [Identity [2; 3]; Identity [2; 3]] (Some (-2)); Diag [I; I] (Some 0) (Some 0);
                                      Vstack [Identity [2; 4; 5]; Flip [2; 4; 5] None] (Some 0)])] in
  wf A = true /\ oshape_of A = [2; 4; 5] /\ ishape_of A = [2; 4; 5] /\
  nodes_ok' (fun L => (proven_all L = true /\ wf L = true) \/ (proven_node_interp L = true /\ wf L = true)) A.
Proof. vm_compute. repeat split; (left; split; reflexivity) || (right; split; reflexivity). Qed.

(* an exact instance of the whole chain over Z (coordinates, weights and data in Z): the class-level denotations
   of Interpolate and of its adjoint Gridding, evaluated, and the two inner products *)
Section Instance.
  Let ZC : COps := mkCOps Z Z.add Z.sub Z.mul Z.div (fun z => z) (fun z => z) (fun z => z) Z.abs Z.leb Z.ltb Z.eqb.
  Let kernZ (_ : Z) (t p : Z) : Z := (3 - Z.abs t + p)%Z.
  Let wtZ (z : Z) : Z := z.
  Let carrZ (_ : Z) : list Z -> Z := of_list 0%Z [2; 2] [1; 2; 0; 1].
  Let widthZ (_ : Z) : wp ZC := WList ZC [2; 4].
  Let paramZ (_ : Z) : wp ZC := WScalar ZC 1.
  Let L := Interpolate [2; 3; 3] (ARef 1 [2; 2]) 1 2 3.
  Let x : list Z -> Z := of_list 0%Z [2; 3; 3] [1; 2; 3; 4; 5; 6; 7; 8; 9; 9; 8; 7; 6; 5; 4; 3; 2; 1].
  Let y : list Z -> Z := of_list 0%Z [2; 2] [5; 7; -2; 3].
  Let orcZ := orc_interp ZOps ZC wtZ carrZ kernZ widthZ paramZ.

  Example interp_instance_values :
    tabulate [2; 2] (orcZ L x) = [820; 809; 880; 891]%Z /\
    inner (R:=ZRing) [2; 2] (orcZ L x) y = inner (R:=ZRing) [2; 3; 3] x (orcZ (adj L) y).
  Proof. vm_compute. split; reflexivity. Qed.

  Example interp_instance_by_theorem :
    inner (R:=ZRing) [2; 2] (orcZ L x) y = inner (R:=ZRing) [2; 3; 3] x (orcZ (adj L) y).
  Proof.
    exact (apair_interpolate ZRing ZC (fun _ _ => 0%Z) (fun _ => 0%Z) orcZ wtZ carrZ kernZ widthZ paramZ (fun _ => eq_refl)
             [2; 3; 3] (ARef 1 [2; 2]) 1 2 3 eq_refl eq_refl (fun _ _ => eq_refl) (fun _ _ => eq_refl) x y).
  Qed.
End Instance.
