(* proofs/Slr.v — ab2rf's peeling (model/Bloch.v slr_peel / slr_inv / ab2cs) inverts the forward hard-pulse
   polynomial recursion (slr_fwd), over R, on the rotation parameters (c_j, s_j), c_j > 0, c_j^2 + |s_j|^2 = 1
   (c_j = cos(theta_j/2) > 0 is |theta_j| < pi). *)
From Coq Require Import Reals ZArith List Bool Lra Lia Psatz.
From SV Require Import model.Bloch proofs.Bloch.
Import ListNotations.
Local Open Scope R_scope.

Notation zipwR := (zipw (F:=RF)).

(* ---- list plumbing ---- *)
Lemma combine_app' {A B} (l1 l2 : list A) (k1 k2 : list B) :
  length l1 = length k1 -> combine (l1 ++ l2) (k1 ++ k2) = combine l1 k1 ++ combine l2 k2.
Proof.
  revert k1. induction l1 as [|x l1 IH]; intros [|y k1] H; cbn in H; try discriminate; [reflexivity|].
  cbn. rewrite IH by congruence. reflexivity.
Qed.

Lemma zipw_snoc f (x1 y1 : list CR) u v :
  length x1 = length y1 -> zipwR f (x1 ++ [u]) (y1 ++ [v]) = zipwR f x1 y1 ++ [f u v].
Proof. intros H. unfold zipw. rewrite combine_app' by exact H. rewrite map_app. reflexivity. Qed.

Lemma zipw_length f (x y : list CR) : length x = length y -> length (zipwR f x y) = length x.
Proof. intros H. unfold zipw. rewrite map_length, combine_length, H. apply Nat.min_id. Qed.

Lemma zipw_fuse g f1 f2 (x y : list CR) :
  zipwR g (zipwR f1 x y) (zipwR f2 x y) = zipwR (fun a b => g (f1 a b) (f2 a b)) x y.
Proof.
  unfold zipw. revert y. induction x as [|a x IH]; intros [|b y]; try reflexivity.
  cbn [combine map fst snd]. rewrite IH. reflexivity.
Qed.

Lemma zipw_ext f g (x y : list CR) : (forall a b, f a b = g a b) -> zipwR f x y = zipwR g x y.
Proof. intros H. unfold zipw. apply map_ext. intros [a b]. apply H. Qed.

Lemma zipw_fst (x y : list CR) : length x = length y -> zipwR (fun a _ => a) x y = x.
Proof.
  unfold zipw. revert y. induction x as [|a x IH]; intros [|b y] H; cbn in H; try discriminate; [reflexivity|].
  cbn [combine map fst]. rewrite IH by congruence. reflexivity.
Qed.
Lemma zipw_snd (x y : list CR) : length x = length y -> zipwR (fun _ b => b) x y = y.
Proof.
  unfold zipw. revert y. induction x as [|a x IH]; intros [|b y] H; cbn in H; try discriminate; [reflexivity|].
  cbn [combine map snd]. rewrite IH by congruence. reflexivity.
Qed.

(* ---- the rotation parameters recovered from the top coefficients ---- *)
Lemma peel_params c (s : CR) t :
  0 < c -> c * c + n2 s = 1 -> 0 < t ->
  let la : CR := (c * t, 0) in
  let lb : CR := (fst s * t, - snd s * t) in
  let q := cdiv (F:=RF) lb la in
  let cj := @fsqrt RF (@fdiv RF f1 (@fadd RF f1 (cabs2 (F:=RF) q))) in
  cj = c /\ cconj (F:=RF) (cscale (F:=RF) cj q) = s.
Proof.
  intros Hc Hn Ht la lb q cj. destruct s as [sr si]. unfold n2 in Hn. cbn [fst snd] in *.
  assert (Hq : q = (sr / c, - si / c)).
  { unfold q, la, lb, cdiv. cx_simpl. apply pair_eqR; field; lra. }
  assert (Hcj : cj = c).
  { unfold cj. rewrite Hq. cx_simpl. cbn [fsqrt RF].
    replace (1 / (1 + (sr / c * (sr / c) + - si / c * (- si / c)))) with (c * c).
    - apply sqrt_square. lra.
    - replace (1 + (sr / c * (sr / c) + - si / c * (- si / c))) with ((c * c + (sr * sr + si * si)) / (c * c)) by (field; lra).
      rewrite Hn. field. lra. }
  split; [exact Hcj|].
  rewrite Hcj, Hq. cx_simpl. apply pair_eqR; field; lra.
Qed.

(* ---- one forward step followed by one peel ---- *)
Definition top_ok (a : list CR) : Prop := exists a0 t, a = a0 ++ [(t, 0)] /\ 0 < t.

Lemma peel_fwd_step c (s : CR) (a b : list CR) :
  0 < c -> c * c + n2 s = 1 -> length a = length b -> top_ok a ->
  slr_peel (F:=RF) (slr_fwd_step (F:=RF) (c, s) (a, b)) = ((c, s), (a, b)) /\
  top_ok (fst (slr_fwd_step (F:=RF) (c, s) (a, b))) /\
  length (fst (slr_fwd_step (F:=RF) (c, s) (a, b))) = S (length a) /\
  length (snd (slr_fwd_step (F:=RF) (c, s) (a, b))) = S (length a).
Proof.
  intros Hc Hn Hlen [a0 [t [Ea Ht]]].
  unfold slr_fwd_step.
  set (fa := fun x y : CR => csub (F:=RF) (cscale (F:=RF) c x) (cmul (F:=RF) s y)).
  set (fb := fun x y : CR => cadd (F:=RF) (cmul (F:=RF) (cconj (F:=RF) s) x) (cscale (F:=RF) c y)).
  set (ea := c0 :: a). set (eb := b ++ [c0]).
  assert (Hl : length ea = length eb) by (unfold ea, eb; rewrite app_length; cbn; lia).
  (* the top coefficients *)
  assert (Eea : ea = (c0 :: a0) ++ [(t, 0)]) by (unfold ea; rewrite Ea; reflexivity).
  assert (Hl0 : length (c0 (F:=RF) :: a0) = length b).
  { rewrite <- Hlen, Ea, app_length. cbn. rewrite Nat.add_1_r. reflexivity. }
  assert (EA : zipwR fa ea eb = zipwR fa (c0 :: a0) b ++ [(c * t, 0)]).
  { unfold eb. rewrite Eea, zipw_snoc by exact Hl0. f_equal. f_equal. unfold fa. destruct s as [sr si]. cx_simpl. cx_eq. }
  assert (EB : zipwR fb ea eb = zipwR fb (c0 :: a0) b ++ [(fst s * t, - snd s * t)]).
  { unfold eb. rewrite Eea, zipw_snoc by exact Hl0. f_equal. f_equal. unfold fb. destruct s as [sr si]. cx_simpl. cx_eq. }
  assert (Hct : 0 < c * t) by (apply Rmult_lt_0_compat; assumption).
  split; [|split; [exists (zipwR fa (c0 :: a0) b), (c * t); split; [exact EA | exact Hct] | split]].
  - unfold slr_peel.
    assert (HLA : last (zipwR fa ea eb) c0 = (c * t, 0)) by (rewrite EA; apply last_last).
    assert (HLB : last (zipwR fb ea eb) c0 = (fst s * t, - snd s * t)) by (rewrite EB; apply last_last).
    rewrite HLA, HLB.
    destruct (peel_params c s t Hc Hn Ht) as [Hcj Hsj]. cbv zeta in Hcj, Hsj.
    rewrite Hsj, Hcj. rewrite !zipw_fuse.
    assert (Hat : zipwR (fun x y => cadd (F:=RF) (cscale (F:=RF) c (fa x y)) (cmul (F:=RF) s (fb x y))) ea eb = ea).
    { rewrite <- (zipw_fst ea eb Hl) at 2. apply zipw_ext. intros [x1 x2] [y1 y2]. unfold fa, fb.
      destruct s as [sr si]. unfold n2 in Hn. cbn [fst snd] in Hn. cx_simpl.
      apply pair_eqR.
      - transitivity ((c * c + (sr * sr + si * si)) * x1); [ring | rewrite Hn; ring].
      - transitivity ((c * c + (sr * sr + si * si)) * x2); [ring | rewrite Hn; ring]. }
    assert (Hbt : zipwR (fun x y => cadd (F:=RF) (cmul (F:=RF) (cneg (F:=RF) (cconj (F:=RF) s)) (fa x y)) (cscale (F:=RF) c (fb x y))) ea eb = eb).
    { rewrite <- (zipw_snd ea eb Hl) at 2. apply zipw_ext. intros [x1 x2] [y1 y2]. unfold fa, fb.
      destruct s as [sr si]. unfold n2 in Hn. cbn [fst snd] in Hn. cx_simpl.
      apply pair_eqR.
      - transitivity ((c * c + (sr * sr + si * si)) * y1); [ring | rewrite Hn; ring].
      - transitivity ((c * c + (sr * sr + si * si)) * y2); [ring | rewrite Hn; ring]. }
    rewrite Hat, Hbt. unfold ea, eb. cbn [tl]. rewrite removelast_last. reflexivity.
  - cbn [fst]. rewrite zipw_length by exact Hl. reflexivity.
  - cbn [snd]. rewrite zipw_length by exact Hl. reflexivity.
Qed.

(* ---- the whole recursion ---- *)
Definition good (m : R * CR) : Prop := 0 < fst m /\ fst m * fst m + n2 (snd m) = 1.

Lemma slr_inv_fold (l : list (R * CR)) : forall (ab : list CR * list CR) (k : nat),
  (forall m, In m l -> good m) -> length (fst ab) = length (snd ab) -> top_ok (fst ab) -> length (fst ab) = k ->
  slr_inv (F:=RF) (k + length l) (fold_left (fun ab m => slr_fwd_step (F:=RF) m ab) l ab) = slr_inv (F:=RF) k ab ++ l /\
  length (fst (fold_left (fun ab m => slr_fwd_step (F:=RF) m ab) l ab)) = (k + length l)%nat.
Proof.
  induction l as [|m l IH]; intros ab k Hgood Hlen Htop Hk.
  - cbn [fold_left length]. rewrite Nat.add_0_r, app_nil_r. split; [reflexivity | exact Hk].
  - cbn [fold_left]. destruct ab as [a b], m as [c s]. cbn [fst snd] in Hlen, Htop, Hk.
    destruct (Hgood (c, s) (or_introl eq_refl)) as [Hc Hn]. cbn [fst snd] in Hc, Hn.
    destruct (peel_fwd_step c s a b Hc Hn Hlen Htop) as [Hpeel [Htop' [HlA HlB]]].
    set (ab1 := slr_fwd_step (F:=RF) (c, s) (a, b)) in *.
    destruct (IH ab1 (S k)) as [I1 I2].
    + intros m' Hm'. apply Hgood. right. exact Hm'.
    + rewrite HlA, HlB. reflexivity.
    + exact Htop'.
    + rewrite HlA, Hk. reflexivity.
    + replace (k + length ((c, s) :: l))%nat with (S k + length l)%nat by (cbn [length]; rewrite Nat.add_succ_r; reflexivity).
      split; [|exact I2].
      rewrite I1. cbn [slr_inv]. rewrite Hpeel. rewrite <- app_assoc. reflexivity.
Qed.

Theorem ab2cs_inverts (l : list (R * CR)) :
  (forall m, In m l -> good m) ->
  ab2cs (F:=RF) (fst (slr_fwd (F:=RF) l)) (snd (slr_fwd (F:=RF) l)) = l.
Proof.
  intros Hgood. destruct l as [|[c s] l]; [reflexivity|].
  destruct (Hgood (c, s) (or_introl eq_refl)) as [Hc Hn]. cbn [fst snd] in Hc, Hn.
  unfold ab2cs, slr_fwd. set (ab0 := ([(c, f0)], [cconj (F:=RF) s]) : list CR * list CR).
  assert (Hbase : slr_inv (F:=RF) 1 ab0 = [(c, s)]).
  { cbn [slr_inv]. unfold ab0, slr_peel. cbn [last].
    assert (E1 : ((c, f0) : CR) = (c * 1, 0)) by (cbn [f0 RF]; cx_eq).
    assert (E2 : cconj (F:=RF) s = (fst s * 1, - snd s * 1)) by (destruct s as [sr si]; cx_simpl; cx_eq).
    rewrite E1, E2.
    destruct (peel_params c s 1 Hc Hn Rlt_0_1) as [Hcj Hsj]. cbv zeta in Hcj, Hsj.
    rewrite Hsj, Hcj. reflexivity. }
  destruct (slr_inv_fold l ab0 1) as [I1 I2].
  - intros m Hm. apply Hgood. right. exact Hm.
  - reflexivity.
  - exists [], c. split; [reflexivity | exact Hc].
  - reflexivity.
  - set (X := fold_left (fun ab m => slr_fwd_step (F:=RF) m ab) l ab0) in *.
    change (slr_inv (F:=RF) (length (fst X)) (fst X, snd X) = (c, s) :: l).
    rewrite <- surjective_pairing, I2, I1, Hbase. reflexivity.
Qed.

(* the hypotheses are satisfiable: theta = 2*pi/3 on the first pulse (c = 1/2, |s|^2 = 3/4), identity on the second *)
Lemma good_example : forall m, In m [(1 / 2, ((sqrt 3) / 2, 0)); (1, (0, 0))] -> good m.
Proof.
  intros m [<- | [<- | []]]; unfold good, n2; cbn [fst snd]; split; try lra.
  assert (H3 : sqrt 3 * sqrt 3 = 3) by (apply sqrt_sqrt; lra). nra.
Qed.
