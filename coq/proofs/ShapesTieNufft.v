(* ShapesTieNufft.v — fourier._get_oversamp_shape as written in the source (gen/Gen_shapes.v) agrees with
   model/Nufft.v.  Kept apart from proofs/ShapesTie.v because model/Nufft.v depends on the generated
   interpolation kernels (gen/Gen_interp.v), which are not part of the cone of the operator-algebra properties. *)
From Coq Require Import ZArith List Bool Lia.
From SV Require Import lib.Scalar lib.LoopIR lib.NdArray lib.Coord model.Block model.Nufft gen.Gen_shapes proofs.ShapesTie.
Import ListNotations.
Local Open Scope Z_scope.

(* fourier._get_oversamp_shape : PROVED
   over the abstract coordinate scalars (ceil and the float product are the operations of [COps], exactly as in
   model/Nufft.v; no floating-point fact is used).  Domain: ndim >= 1. *)
Theorem oversamp_shape_tied : forall (C : COps) shape ndim (oversamp : C), 1 <= ndim ->
  gen_oversamp_shape C shape ndim oversamp = Ok (oversamp_shape C shape (Z.to_nat ndim) oversamp).
Proof.
  intros C shape ndim os Hn. unfold gen_oversamp_shape, oversamp_shape, os_len.
  rewrite py_slice_lastn, py_slice_droplast by assumption. reflexivity.
Qed.

