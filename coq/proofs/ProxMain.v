(* proofs/ProxMain.v — explicit (unfolded) corollaries for real and complex arrays, the model-level
   statements about [apply], and the satisfiability witnesses quoted by props/Prop_C11.v. *)
From Coq Require Import Reals Lra Lia List Bool Psatz.
From SV Require Import model.Prox proofs.ProxBase proofs.ProxThresh proofs.ProxComb proofs.ProxL1 proofs.ProxPsd.
Import ListNotations.
Local Open Scope R_scope.

(* ---------------------------------------------------------------- soft threshold, spelled out *)
(* real arrays: p = soft_thresh(lam, y) minimises 1/2 sum (x_i-y_i)^2 + lam sum |x_i|, with quadratic growth *)
Lemma soft_real_minimiser lam (y : list R) (z : nat -> R) : 0 <= lam ->
  let n := length y in
  let p := fun i => nth i (soft_thresh (El:=RRe) (SS lam) y) 0 in
  1/2 * sumn n (fun i => (p i - nth i y 0) * (p i - nth i y 0)) + lam * sumn n (fun i => Rabs (p i))
    + 1/2 * sumn n (fun i => (z i - p i) * (z i - p i))
  <= 1/2 * sumn n (fun i => (z i - nth i y 0) * (z i - nth i y 0)) + lam * sumn n (fun i => Rabs (z i)).
Proof.
  intros Hl n p.
  destruct (soft_thresh_prox RealLaws (SS lam) y (fun _ => Hl)) as [_ HP].
  pose proof (prox_minimiser RealLaws _ _ _ _ _ HP z I) as H.
  unfold dotn, fsub, fn in H. simpl in H. rewrite !sumn_scal in H. exact H.
Qed.

Lemma soft_real_unique lam (y : list R) (z : nat -> R) : 0 <= lam ->
  let n := length y in
  let p := fun i => nth i (soft_thresh (El:=RRe) (SS lam) y) 0 in
  1/2 * sumn n (fun i => (z i - nth i y 0) * (z i - nth i y 0)) + lam * sumn n (fun i => Rabs (z i))
  <= 1/2 * sumn n (fun i => (p i - nth i y 0) * (p i - nth i y 0)) + lam * sumn n (fun i => Rabs (p i)) ->
  forall i, (i < n)%nat -> z i = p i.
Proof.
  intros Hl n p Hle.
  destruct (soft_thresh_prox RealLaws (SS lam) y (fun _ => Hl)) as [_ HP].
  apply (prox_unique RealLaws _ _ _ _ _ HP z I).
  unfold dotn, fsub, fn. simpl. rewrite !sumn_scal. exact Hle.
Qed.

(* complex arrays (pairs): |x| = sqrt(re^2+im^2) *)
Definition cabs (a : R * R) : R := sqrt (fst a * fst a + snd a * snd a).
Definition cdist2 (a b : R * R) : R := (fst a - fst b) * (fst a - fst b) + (snd a - snd b) * (snd a - snd b).

Lemma soft_complex_minimiser lam (y : list (R * R)) (z : nat -> R * R) : 0 <= lam ->
  let n := length y in
  let p := fun i => nth i (soft_thresh (El:=RCx) (SS lam) y) (0, 0) in
  1/2 * sumn n (fun i => cdist2 (p i) (nth i y (0, 0))) + lam * sumn n (fun i => cabs (p i))
    + 1/2 * sumn n (fun i => cdist2 (z i) (p i))
  <= 1/2 * sumn n (fun i => cdist2 (z i) (nth i y (0, 0))) + lam * sumn n (fun i => cabs (z i)).
Proof.
  intros Hl n p.
  destruct (soft_thresh_prox CplxLaws (SS lam) y (fun _ => Hl)) as [_ HP].
  pose proof (prox_minimiser CplxLaws _ _ _ _ _ HP z I) as H.
  unfold dotn, fsub, fn in H. simpl in H. rewrite !sumn_scal in H. exact H.
Qed.

(* one real number: the textbook statement *)
Lemma soft_scalar_real (lam y x : R) : 0 <= lam ->
  let p : R := soft_thresh1 (El:=RRe) lam y in
  1/2 * (p - y) * (p - y) + lam * Rabs p + 1/2 * (x - p) * (x - p) <= 1/2 * (x - y) * (x - y) + lam * Rabs x.
Proof.
  intros Hl p. pose proof (soft1_vi RealLaws lam y x Hl) as H.
  change (lam * Rabs p + (y - p) * (x - p) <= lam * Rabs x) in H.
  assert (E : 1 / 2 * (x - y) * (x - y) = 1 / 2 * (p - y) * (p - y) + 1 / 2 * (x - p) * (x - p) - (y - p) * (x - p)) by field.
  rewrite E. lra.
Qed.

(* ---------------------------------------------------------------- model-level corollaries for the leaf nodes *)
Section ModelLevel.
  Context {El : Elem RR} (LW : ElemLaws El).
  Notation ei := (ein LW).
  Notation V := (nat -> El).

  Lemma sv_get_map_mul lamda (alpha : sv R) i :
    sv_get 0 (sv_map (Rmult lamda) alpha) i = lamda * sv_get 0 alpha i.
  Proof.
    destruct alpha as [a|l]; simpl; [reflexivity|].
    rewrite <- (Rmult_0_r lamda) at 1. apply map_nth.
  Qed.

  (* L1Reg(lamda)(alpha, y) is the proximal point of x |-> sum_i alpha_i * lamda * |x_i| (alpha scalar or array) *)
  Theorem l1reg_model_prox s lamda (alpha : sv R) (y : list El) :
    (forall i, 0 <= lamda * sv_get 0 alpha i) ->
    exists p, @apply RR El (@L1Reg RR El s lamda) alpha y = Some p /\ length p = length y /\
      prox_at LW (length y) (fun _ => True)
              (fun x => sumn (length y) (fun i => sv_get 0 alpha i * (lamda * eabs (x i)))) (fn y) (fn p).
  Proof.
    intros H. eexists. split; [reflexivity|].
    destruct (soft_thresh_prox LW (sv_map (Rmult lamda) alpha) y) as [Hl [_ Hvi]].
    { intros i. rewrite sv_get_map_mul. apply H. }
    split; [exact Hl|]. split; [exact I|]. intros z _. specialize (Hvi z I).
    assert (E1 : forall x : V, sumn (length y) (fun i => sv_get 0 alpha i * (lamda * eabs (x i))) =
                             sumn (length y) (fun i => sv_get 0 (sv_map (Rmult lamda) alpha) i * eabs (x i)))
      by (intros; apply sumn_ext; intros; rewrite sv_get_map_mul; ring).
    rewrite !E1.
    exact Hvi.
  Qed.

  (* projection onto a translated set: out = proj_S(y - b) + b is the projection of y onto S + b *)
  Theorem proj_translate n (S : V -> Prop) (y b d q out : V) :
    localP n S ->
    (forall i, (i < n)%nat -> d i = esub (y i) (b i)) ->
    (forall i, (i < n)%nat -> out i = eadd (q i) (b i)) ->
    proj_at LW n S d q ->
    proj_at LW n (fun z => S (fsub z b)) y out.
  Proof.
    intros LS Hd Ho [Hq Hvi]. split.
    - apply (LS q); auto. intros i Hi. unfold fsub. rewrite Ho by auto.
      apply (ein_ext LW). intros c. einx LW. ring.
    - intros z Hz. specialize (Hvi (fsub z b) Hz).
      unfold dotn in *. rewrite <- (sumn_zero n) in *. 
      assert (E : sumn n (fun i => ei (fsub y out i) (fsub z out i)) = sumn n (fun i => ei (fsub d q i) (fsub (fsub z b) q i))).
      { apply sumn_ext. intros i Hi. unfold fsub. rewrite Ho, Hd by auto.
        apply (ein_translate LW). intros w. einx LW. reflexivity. }
      rewrite E. exact Hvi.
  Qed.

  (* L2Proj(eps, y = b) (axes = None): the projection onto the ball of radius eps centred at the bias b *)
  Theorem l2proj_model_proj s eps (b : sv El) (alpha : sv R) (y : list El) : 0 < eps ->
    exists p, @apply RR El (@L2Proj RR El s eps b None) alpha y = Some p /\ length p = length y /\
      proj_at LW (length y)
        (fun z => dotn LW (length y) (fsub z (fun i => sv_get e0 b i)) (fsub z (fun i => sv_get e0 b i)) <= eps * eps)
        (fn y) (fn p).
  Proof.
    intros He. eexists. split; [reflexivity|].
    set (d := imap (fun (i : nat) (x : El) => esub x (sv_get e0 b i)) y).
    assert (Hdl : length d = length y) by apply imap_length.
    destruct (l2_proj_is_proj LW eps d He) as [Hl HP]. rewrite Hdl in *.
    split; [rewrite imap_length; exact Hl|].
    apply (proj_translate (length y) (fun z => dotn LW (length y) z z <= eps * eps) (fn y) (fun i => sv_get e0 b i)
                          (fn d) (fn (@l2_proj RR El eps d))); auto.
    - intros x x' Hx Hle. rewrite <- (dotn_ext LW (length y) x x' x x'); auto.
    - intros i Hi. unfold fn, d. rewrite (nth_imap _ y i e0 e0); auto.
    - intros i Hi. unfold fn. rewrite (nth_imap _ _ i e0 e0) by (rewrite Hl; auto). reflexivity.
  Qed.

  (* L1Proj / LInfProj nodes are the thresh functions *)
  Lemma l1proj_model s eps alpha (y : list El) : @apply RR El (@L1Proj RR El s eps) alpha y = @l1_proj RR El eps y.
  Proof. reflexivity. Qed.
  Lemma linfproj_model s eps bias alpha (y : list El) :
    @apply RR El (@LInfProj RR El s eps bias) alpha y = Some (@linf_proj RR El eps y bias).
  Proof. reflexivity. Qed.
  Lemma noop_model s alpha (y : list El) : @apply RR El (@NoOp RR El s) alpha y = Some y.
  Proof. reflexivity. Qed.
End ModelLevel.

(* ---------------------------------------------------------------- satisfiability witnesses *)
Section Witness.
  Context {El : Elem RR} (LW : ElemLaws El).

  (* UnitaryTransform hypotheses: the identity operator *)
  Example unitary_hypotheses_sat n :
    let A := fun x : nat -> El => x in
    (forall x w, dotn LW n (A x) w = dotn LW n x (A w)) /\
    (forall x w, dotn LW n (A (A x)) w = dotn LW n x w) /\
    (forall v w, dotn LW n (A (A v)) w = dotn LW n v w).
  Proof. simpl. repeat split; reflexivity. Qed.

  (* Moreau with an explicit conjugate: g = 0 (NoOp), g* = indicator of {0}; Conj(NoOp) projects onto {0} *)
  Lemma dotn_zero_l n (u x : nat -> El) : (forall i, (i < n)%nat -> u i = e0) -> dotn LW n u x = 0.
  Proof.
    intros H. unfold dotn. rewrite <- (sumn_zero n). apply sumn_ext. intros i Hi. rewrite H by auto. apply ein_e0_l.
  Qed.

  Example moreau_hypotheses_sat n :
    let dom := fun _ : nat -> El => True in
    let g := fun _ : nat -> El => 0 in
    let domS := fun u : nat -> El => forall i, (i < n)%nat -> u i = e0 in
    let gs := fun _ : nat -> El => 0 in
    (forall u x, domS u -> dom x -> dotn LW n u x - g x <= gs u) /\
    (forall u x, dom x -> (forall z, dom z -> g x + dotn LW n u (fsub z x) <= g z) -> domS u /\ gs u <= dotn LW n u x - g x).
  Proof.
    simpl. split.
    - intros u x Hu _. rewrite dotn_zero_l by auto. lra.
    - intros u x _ H.
      assert (H0 : dotn LW n u u = 0).
      { pose proof (H (fadd x u) I) as H1. revert H1. dotx LW. pose proof (dotn_pos LW n u). lra. }
      assert (Hu : forall i, (i < n)%nat -> u i = e0) by (apply (dotn_zero_inv LW); auto).
      split; auto. rewrite dotn_zero_l by auto. lra.
  Qed.
End Witness.

(* PSD spectral hypotheses: the 1x1 real matrix (-2) with eigenpair (w, v) = (-2, 1); P = 0 *)
Example psd_hypotheses_sat :
  let M : nat -> R := fun _ => -2 in
  let P : nat -> R := fun _ => 0 in
  let Pj : nat -> nat -> R := fun _ _ => 1 in
  let w : nat -> R := fun _ => -2 in
  let Cone : (nat -> R) -> Prop := fun Z => 0 <= Z 0%nat in
  (forall u, dotn RealLaws 1 M u = sumn 1 (fun j => w j * dotn RealLaws 1 (Pj j) u)) /\
  (forall u, dotn RealLaws 1 P u = sumn 1 (fun j => wplus w j * dotn RealLaws 1 (Pj j) u)) /\
  (forall j l, (j < 1)%nat -> (l < 1)%nat -> dotn RealLaws 1 (Pj l) (Pj j) = if Nat.eqb l j then 1 else 0) /\
  (forall Z, Cone Z -> forall j, (j < 1)%nat -> 0 <= dotn RealLaws 1 (Pj j) Z) /\
  (forall Z, Cone Z -> dotn RealLaws 1 (fsub (El:=RRe) M M) Z = 0) /\ Cone P.
Proof.
  simpl. unfold dotn, wplus, fsub. simpl. repeat split; intros.
  - lra.
  - destruct (Rlt_dec (-2) 0); lra.
  - assert (j = 0%nat) by lia. assert (l = 0%nat) by lia. subst. simpl. lra.
  - lra.
  - lra.
  - lra.
Qed.

(* l1 certificate: (3, -1) projected on the ball of radius 2 has theta = 1 *)
Example l1_certificate_sat :
  cert (El:=RRe) 2 (fun i => nth i [3; -1] 0) 1 = 2.
Proof.
  unfold cert. simpl. rewrite !Rabs_right, ?Rabs_left by lra.
  replace (Rabs (-1)) with 1 by (rewrite Rabs_left; lra).
  unfold Rmax. repeat destruct (Rle_dec _ _); lra.
Qed.
