(* DriverObs.v — the "observed history" subclass used by the C15 correspondence (run/RunC15.v)
   satisfies the frame laws, so driver_bound / driver_interleaving apply to the very term that
   is executed against the implementation. *)
From Coq Require Import ZArith List Bool PrimFloat.
From SV Require Import model.Alg proofs.Driver run.RunC15.

Lemma OClass_laws : AlgLaws OClass (fun s => os_flag s || PrimFloat.leb (os_resid s) (os_tol s)).
Proof.
  constructor; intros; cbn [OClass get_iter get_max_iter set_iter upd_ done_]; try reflexivity.
  - unfold o__update. destruct (os_future s) as [|[r f] rest]; reflexivity.
  - unfold o__update. destruct (os_future s) as [|[r f] rest]; reflexivity.
  - unfold o__done. rewrite orb_assoc. reflexivity.
Qed.
