(* LinopAlgebra.v — C03 (algebra = matrix algebra, rejection), C04 (normal operator),
   C02 (linearity over the scalar ring) for the deep embedding. *)
From Coq Require Import ZArith List Lia Bool Ring FunctionalExtensionality.
From SV Require Import lib.Scalar lib.BigSum lib.LoopIR lib.NdArray lib.Gather model.Rearrange model.Block model.Linop
  proofs.LinopTheory.
Import ListNotations.
Local Open Scope Z_scope.

Section Alg.
  Variable R : StarRing.
  Add Ring RringA : (SRth R).
  Notation farr := (list Z -> R).
  Variable arr : Z -> farr.
  Variable scal : Z -> R.
  Variable orc : linop -> farr -> farr.
  Notation D := (D R arr scal orc).
  Local Open Scope sr_scope.

  (* ---------------- C03: the overloads denote the matrix expressions ---------------- *)
  Theorem D_mul A B x : D (op_mul A B) x = D A (D B x).
  Proof. unfold op_mul. rewrite D_mkCompose. reflexivity. Qed.

  Theorem D_compose_list ls x : D (mkCompose ls) x = fold_right (fun a acc => D a acc) x ls.
  Proof. apply D_mkCompose. Qed.

  (* nested compositions may be flattened (what Compose.__init__ does) without changing the operator *)
  Theorem D_compose_assoc l1 l2 l3 x :
    D (mkCompose (l1 ++ [Compose l2] ++ l3)) x = D (mkCompose (l1 ++ l2 ++ l3)) x.
  Proof.
    rewrite !D_mkCompose, !fold_right_app. cbn [fold_right app]. rewrite D_compose. reflexivity.
  Qed.

  Theorem D_plus A B x o : D (op_add A B) x o = D A x o + D B x o.
  Proof. unfold op_add. rewrite D_add. simpl. ring. Qed.

  Theorem D_add_list ls x o : D (Add ls) x o = fold_right (fun a acc => D a x o + acc) 0 ls.
  Proof. apply D_add. Qed.

  Theorem D_minus A B x o : D (op_sub A B) x o = D A x o + D (op_neg B) x o.
  Proof. unfold op_sub. apply D_plus. Qed.

  (* ---------------- C03: operands that do not fit are rejected ---------------- *)
  Lemma mapM2 a b sa sb : shapes a = Ok sa -> shapes b = Ok sb -> mapM shapes [a; b] = Ok [sa; sb].
  Proof. intros Ha Hb. simpl. rewrite Ha, Hb. reflexivity. Qed.

  Theorem compose_reject A B :
    wf A = true -> wf B = true -> ishape_of A <> oshape_of B -> wf (Compose [A; B]) = false.
  Proof.
    intros HA HB Hne. destruct (wf_shapes _ HA) as [sa Ha]. destruct (wf_shapes _ HB) as [sb Hb].
    destruct (shapes_of_ok _ _ Ha) as (_ & _ & Ei). destruct (shapes_of_ok _ _ Hb) as (_ & Eo & _).
    unfold wf. rewrite shapes_compose, (mapM2 _ _ _ _ Ha Hb). simpl.
    destruct (zlist_eqb (snd sa) (fst sb)) eqn:E; [|reflexivity].
    apply zlist_eqb_spec in E. congruence.
  Qed.

  Theorem compose_accept A B s :
    shapes (Compose [A; B]) = Ok s -> ishape_of A = oshape_of B /\ fst s = oshape_of A /\ snd s = ishape_of B.
  Proof.
    rewrite shapes_compose. destruct (mapM shapes [A; B]) as [ss|] eqn:Hm; [|discriminate].
    pose proof (mapM_ok _ _ _ Hm) as F. inversion F as [|? sa ? l Ha F']; subst. inversion F' as [|? sb ? l' Hb F'']; subst.
    inversion F''; subst. simpl.
    destruct (zlist_eqb (snd sa) (fst sb)) eqn:E; [|discriminate]. simpl. intros Hf. apply finish_ok in Hf. subst s.
    apply zlist_eqb_spec in E.
    destruct (shapes_of_ok _ _ Ha) as (_ & Eoa & Eia). destruct (shapes_of_ok _ _ Hb) as (_ & Eob & Eib).
    simpl. repeat split; congruence.
  Qed.

  Theorem add_reject A B :
    wf A = true -> wf B = true -> (ishape_of A <> ishape_of B \/ oshape_of A <> oshape_of B) -> wf (Add [A; B]) = false.
  Proof.
    intros HA HB Hne. destruct (wf_shapes _ HA) as [sa Ha]. destruct (wf_shapes _ HB) as [sb Hb].
    destruct (shapes_of_ok _ _ Ha) as (_ & Eoa & Eia). destruct (shapes_of_ok _ _ Hb) as (_ & Eob & Eib).
    unfold wf. rewrite shapes_add, (mapM2 _ _ _ _ Ha Hb). simpl.
    destruct (zlist_eqb (snd sa) (snd sb)) eqn:E1; simpl; [|reflexivity].
    destruct (zlist_eqb (fst sa) (fst sb)) eqn:E2; simpl; [|reflexivity].
    apply zlist_eqb_spec in E1. apply zlist_eqb_spec in E2. exfalso. destruct Hne; congruence.
  Qed.

  (* ---------------- C04: normal operator ---------------- *)
  Definition has_default_normal (A : linop) : bool :=
    match A with
    | Identity _ | Reshape _ _ | Transpose _ _ | FFT _ _ _ | IFFT _ _ _ | Circshift _ _ _ => false
    | ArrayToBlocks i b s => negb (blocks_tile i b s)
    | BlocksToArray _ b s => negb (blocks_no_overlap b s)
    | _ => true
    end.

  Theorem normal_default A x : has_default_normal A = true -> D (normal A) x = D (adj A) (D A x).
  Proof.
    intros H. destruct A; simpl in H; try discriminate; unfold normal;
      try (rewrite D_mkCompose; reflexivity).
    - apply negb_true_iff in H. rewrite H. rewrite D_mkCompose. reflexivity.
    - apply negb_true_iff in H. rewrite H. rewrite D_mkCompose. reflexivity.
  Qed.

  Theorem normal_identity s x : D (normal (Identity s)) x = D (adj (Identity s)) (D (Identity s) x).
  Proof. reflexivity. Qed.

  (* Reshape shortcut: reshaping back and forth is the identity on the index box *)
  Theorem normal_reshape o i x idx :
    Forall (fun n => 0 < n) o -> Forall (fun n => 0 < n) i -> prodZ o = prodZ i -> inbox i idx ->
    D (adj (Reshape o i)) (D (Reshape o i) x) idx = D (normal (Reshape o i)) x idx.
  Proof.
    intros Ho Hi Hp Hb. unfold LinopTheory.D. simpl. unfold reshape.
    pose proof (ravel_bound i idx Hb) as Hr. rewrite <- Hp in Hr.
    destruct (ravel_unravel o (ravel i idx) Ho Hr) as [E _]. rewrite E.
    rewrite unravel_ravel by exact Hb. reflexivity.
  Qed.

  (* every analytic shortcut is justified by the unitarity of the operator on the box:
     if A^H A x = x on the box then the Identity returned by _normal_linop is correct *)
  Theorem normal_shortcut A x idx :
    (match A with Transpose _ _ | FFT _ _ _ | IFFT _ _ _ | Circshift _ _ _ => True
             | ArrayToBlocks i b s => blocks_tile i b s = true
             | BlocksToArray _ b s => blocks_no_overlap b s = true
             | _ => False end) ->
    D (adj A) (D A x) idx = x idx ->
    D (normal A) x idx = D (adj A) (D A x) idx.
  Proof.
    intros Hc Hu. destruct A; try contradiction; unfold normal; try rewrite Hc; rewrite Hu; reflexivity.
  Qed.

  (* ---------------- C02: linearity ---------------- *)
  Notation linear := (linear R).

  Lemma linear_conj F : linear F -> linear (fun x o => conj (F (fun i => conj (x i)) o)).
  Proof.
    intros H a x y o.
    replace (fun i => conj (a * x i + y i)) with (fun i => conj a * conj (x i) + conj (y i)).
    - rewrite H, conj_add, conj_mul, conj_invol. reflexivity.
    - apply functional_extensionality. intros i. rewrite conj_add, conj_mul. reflexivity.
  Qed.

  Lemma linear_compose F G : linear F -> linear G -> linear (fun x => G (F x)).
  Proof.
    intros HF HG a x y o.
    replace (F (fun i => a * x i + y i)) with (fun p => a * F x p + F y p).
    - apply HG.
    - apply functional_extensionality. intros p. symmetry. apply HF.
  Qed.

  Lemma linear_id : linear (fun x => x).
  Proof. intros a x y o. reflexivity. Qed.

  Lemma linear_zero : linear (fun _ _ => (0:R)).
  Proof. intros a x y o. ring. Qed.

  Lemma linear_plus F G : linear F -> linear G -> linear (fun x o => F x o + G x o).
  Proof. intros HF HG a x y o. rewrite HF, HG. ring. Qed.

  Theorem linear_correct A : nodes_ok (fun L => linear (D L)) A -> linear (D A).
  Proof.
    induction A using linop_rect2; intros Hn.
    - destruct A; try contradiction; exact Hn.
    - simpl in Hn. specialize (IHA Hn). exact (linear_conj _ IHA).
    - apply nodes_ok_list in Hn.
      assert (E : forall x o, D (Add ls) x o = fold_right (fun a acc => D a x o + acc) 0 ls) by (intros; apply D_add).
      intros a x y o. rewrite !E. clear E.
      induction ls as [|b ls IHl]; simpl; [ring|].
      inversion H; subst. inversion Hn; subst. rewrite (H2 H4 a x y o), (IHl H3 H5). ring.
    - apply nodes_ok_list in Hn.
      assert (E : forall x, D (Compose ls) x = fold_right (fun a acc => D a acc) x ls) by (intros; apply D_compose).
      intros a x y o. rewrite !E. clear E. revert o.
      induction ls as [|b ls IHl]; intros o; simpl; [reflexivity|].
      inversion H; subst. inversion Hn; subst.
      replace (fold_right (fun a0 acc => D a0 acc) (fun i => a * x i + y i) ls)
        with (fun p => a * fold_right (fun a0 acc => D a0 acc) x ls p + fold_right (fun a0 acc => D a0 acc) y ls p).
      + apply (H2 H4).
      + apply functional_extensionality. intros p. symmetry. apply (IHl H3 H5).
    - exact Hn.
    - exact Hn.
    - exact Hn.
  Qed.

  (* leaves that only move / scale / add entries are linear *)
  Lemma linear_gatherN ms : linear (@gatherN R ms).
  Proof. intros a x y o. unfold gatherN. destruct (map_axes ms o); ring. Qed.

  Lemma linear_reindex (f : list Z -> list Z) : linear (fun (x : farr) o => x (f o)).
  Proof. intros a x y o. reflexivity. Qed.

  Lemma linear_reshape s1 s2 : linear (@reshape R s1 s2).
  Proof. intros a x y o. reflexivity. Qed.

  Lemma linear_sum_list {T} (l : list T) (g : T -> list Z) :
    linear (fun (x : farr) o => sum_list R (map (fun k => x (g k)) l)).
  Proof. intros a x y o. induction l as [|k l IH]; simpl; [ring| rewrite IH; ring]. Qed.
End Alg.
