(* Stopping2.v — "early stop (tol = 0) happens only at fixed points" for the remaining solvers:
   NewtonsMethod, GerchbergSaxton (exactly what its stop rule implies), PrimalDualHybridGradient
   with array-valued step sizes, and PDHG's step-adaptation branches (gamma_primal / gamma_dual > 0).
   Models: model/Alg2.v (Newton, GS, array PDHG) and model/Alg.v (scalar PDHG), instantiated on
   [ops_of H] for an arbitrary real inner-product space H. *)
From Coq Require Import Reals Lra Lia ZArith Bool List.
From SV Require Import model.Alg model.Alg2 proofs.IPSpace proofs.Stopping.
Import ListNotations.
Local Open Scope R_scope.

(* ------------------------------------------------------------------------- *)
(* NewtonsMethod                                                               *)
(* ------------------------------------------------------------------------- *)
Section NewtonStop.
  Variable H : IPSpace.
  Notation V := (ipV H).
  Notation E := (ops_of H).
  Notation "<< x , y >>" := (ipdot H x y) (at level 0, format "<< x ,  y >>").
  Variable gradf : V -> V.
  Variable inv_hessf : V -> V -> V.
  Variable beta : R.
  Variable f : V -> R.
  Variables slt sgt : R -> R -> bool.
  Variable ls_fuel : nat.

  Notation C := (NMClass E gradf inv_hessf beta f slt sgt ls_fuel).

  (* with a zero direction the backtracking loop returns x whatever its comparisons answer *)
  Lemma nm_linesearch_zero x fx l2 : forall fuel alpha xn,
    xn = x -> nm_linesearch E beta f sgt fuel x (ip0 H) fx l2 alpha xn = x.
  Proof.
    induction fuel as [|k IH]; intros alpha xn ->; cbn [nm_linesearch]; [reflexivity|].
    destruct (sgt _ _); [|reflexivity]. apply IH. cbn [vadd vscale smul ops_of]. vec H.
  Qed.

  Lemma nm_update_ok (s : nm_state E) :
    nm_raised (update C s) = false ->
    let g := gradf (nm_x s) in
    let p := ipscale H (- (1)) (inv_hessf (nm_x s) g) in
    nm_raised s = false /\
    nm_lamda2 (update C s) = <<inv_hessf (nm_x s) g, g>> /\
    nm_residual (update C s) = sqrt (nm_lamda2 (update C s)) /\
    (p = ip0 H -> nm_x (update C s) = nm_x s).
  Proof.
    unfold update. cbn [upd_ set_iter get_iter NMClass nm_set_iter]. unfold nm__update.
    cbn [vdot vscale vadd sopp s1 s0 ssqrt ops_of].
    destruct (slt _ 0); cbn [nm_set_iter nm_raised nm_lamda2 nm_residual nm_x Sc ops_of]; [discriminate|].
    intros Hr. repeat split.
    - exact Hr.
    - ipnorm H. ring.
    - intros P0. rewrite P0. destruct (slt beta 1).
      + apply nm_linesearch_zero. apply ip_add_0_r.
      + apply ip_add_0_r.
  Qed.

  (* [core] residual = sqrt(lamda2) = 0 with a self-adjoint positive definite inverse Hessian at x
     ==> gradient = 0 and the update left x unchanged *)
  Theorem newton_resid_zero_stationary (s : nm_state E) :
    selfadjoint H (inv_hessf (nm_x s)) -> posdef H (inv_hessf (nm_x s)) ->
    nm_raised (update C s) = false ->
    nm_residual (update C s) = 0 ->
    gradf (nm_x s) = ip0 H /\ nm_x (update C s) = nm_x s /\ nm_lamda2 (update C s) = 0.
  Proof.
    intros Hsa Hpd Hok Hres.
    destruct (nm_update_ok s Hok) as (_ & L2 & Eres & Hx). cbv zeta in *.
    set (g := gradf (nm_x s)) in *.
    assert (Hnn : 0 <= <<inv_hessf (nm_x s) g, g>>).
    { rewrite (ip_dot_sym H). apply (posdef_nonneg H _ Hsa Hpd). }
    rewrite Eres, L2 in Hres. apply sqrt_eq_0 in Hres; [|exact Hnn].
    assert (G0 : g = ip0 H).
    { apply (posdef_zero H _ Hpd). rewrite (ip_dot_sym H). exact Hres. }
    repeat split; [exact G0| |rewrite L2; exact Hres].
    apply Hx. rewrite G0, (sa_0 H _ Hsa). apply scale_O.
  Qed.

  (* ... hence a genuine fixed point: one more update does not raise, leaves x unchanged and
     reports residual 0 again (`a < b` is only assumed to imply the real order) *)
  Theorem newton_early_stop_fixed (s : nm_state E) :
    (forall a c, slt a c = true -> a < c) ->
    selfadjoint H (inv_hessf (nm_x s)) -> posdef H (inv_hessf (nm_x s)) ->
    nm_raised (update C s) = false ->
    nm_residual (update C s) = 0 ->
    nm_raised (update C (update C s)) = false /\
    nm_x (update C (update C s)) = nm_x (update C s) /\
    nm_residual (update C (update C s)) = 0.
  Proof.
    intros Hslt Hsa Hpd Hok Hres.
    destruct (newton_resid_zero_stationary s Hsa Hpd Hok Hres) as (G0 & Ex & _).
    destruct (nm_update_ok s Hok) as (Hr0 & _).
    set (s1 := update C s) in *.
    assert (G1 : gradf (nm_x s1) = ip0 H) by (rewrite Ex; exact G0).
    assert (Hsa1 : selfadjoint H (inv_hessf (nm_x s1))) by (rewrite Ex; exact Hsa).
    assert (Hok1 : nm_raised (update C s1) = false).
    { unfold update at 1. cbn [upd_ set_iter get_iter NMClass nm_set_iter]. unfold nm__update.
      cbn [vdot vscale vadd sopp s1 s0 ssqrt ops_of]. rewrite G1, (dot_0_r H).
      destruct (slt (- 0) 0) eqn:Es; cbn [nm_raised]; [|exact Hok].
      apply Hslt in Es. lra. }
    destruct (nm_update_ok s1 Hok1) as (_ & L2 & Eres & Hx). cbv zeta in *.
    rewrite G1 in *. rewrite (sa_0 H _ Hsa1) in *.
    repeat split; [exact Hok1| |].
    - apply Hx. apply scale_O.
    - rewrite Eres, L2, (dot_0_l H). apply sqrt_0.
  Qed.
End NewtonStop.

(* ------------------------------------------------------------------------- *)
(* GerchbergSaxton                                                             *)
(* ------------------------------------------------------------------------- *)
Lemma sum_nonneg {T} (g : T -> R) (l : list T) :
  (forall e, 0 <= g e) -> 0 <= fold_right Rplus 0 (map g l).
Proof. intros Hg. induction l as [|e l IH]; cbn; [lra|]. pose proof (Hg e). lra. Qed.

Lemma sum_le0_all_zero {T} (g : T -> R) (l : list T) :
  (forall e, 0 <= g e) -> fold_right Rplus 0 (map g l) <= 0 -> forall e, In e l -> g e = 0.
Proof.
  intros Hg. induction l as [|e0 l IH]; cbn [map fold_right]; intros Hs e Hin; [destruct Hin|].
  pose proof (Hg e0). pose proof (sum_nonneg g l Hg).
  destruct Hin as [<-|Hin]; [lra|]. apply IH; [lra|exact Hin].
Qed.

Section GSStop.
  Variable H : IPSpace.
  Notation X := (ipV H).
  Notation E := (ops_of H).
  Variable cphase : R * R -> R * R.
  Variable A : X -> list (R * R).
  Variable AH : list (R * R) -> X.
  Variable y : list R.
  Variable lamb : R.

  Notation C := (GSClass E Rabs cphase A AH y lamb).
  Notation cabsR := (cabs E).

  Lemma gs_update_fields (s : gs_state E) :
    gs_x (update C s) = gs_inner E cphase A AH y lamb (gs_x s) /\
    gs_residual (update C s) = gs_resid_of E Rabs A y (gs_x (update C s)).
  Proof. split; reflexivity. Qed.

  (* [core] the stop rule as coded: residual = sum_i | |(A x)_i| - y_i |, so `residual <= tol` with
     tol = 0 holds exactly when every measured amplitude is matched: |(A x)_i| = y_i for all i
     (cabs (re, im) = sqrt(re^2 + im^2)).  Nothing else is implied -- see gs_stop_fixed. *)
  Theorem gs_stop_iff_amplitudes_match (s : gs_state E) :
    gs_residual (update C s) <= 0 <->
    (forall w yi, In (w, yi) (combine (A (gs_x (update C s))) y) -> cabsR w = yi).
  Proof.
    destruct (gs_update_fields s) as (_ & Er). rewrite Er. unfold gs_resid_of.
    cbn [sadd s0 ssub ops_of].
    set (g := fun wy : R * R * R => Rabs (cabsR (fst wy) - snd wy)).
    assert (Hg : forall e, 0 <= g e) by (intros e; apply Rabs_pos).
    split.
    - intros Hle w yi Hin.
      pose proof (sum_le0_all_zero g _ Hg Hle (w, yi) Hin) as Z. unfold g in Z. cbn [fst snd] in Z.
      destruct (Req_dec (cabsR w - yi) 0) as [E0|NE]; [lra|]. apply Rabs_no_R0 in NE. contradiction.
    - intros Hall.
      assert (Z : fold_right Rplus 0 (map g (combine (A (gs_x (update C s))) y)) = 0).
      { induction (combine (A (gs_x (update C s))) y) as [|e l IH]; cbn [map fold_right]; [reflexivity|].
        rewrite IH by (intros w yi Hin; apply Hall; right; exact Hin).
        destruct e as [w yi]. unfold g at 1. cbn [fst snd]. rewrite (Hall w yi (or_introl eq_refl)).
        rewrite Rminus_diag_eq by reflexivity. rewrite Rabs_R0. ring. }
      change (fold_right Rplus 0 (map g (combine (A (gs_x (update C s))) y)) <= 0). lra.
  Qed.

  (* the inner solver ConjugateGradient(system, b, x, max_iter=5) started at a solution of
     system x = b performs no update: its initial resid is 0 <= tol = 0 *)
  Lemma gs_inner_cg_at_solution (sys : X -> X) (b x : X) :
    ipsub H b (sys x) = ip0 H ->
    cg_x (cg_run E sys None (cg_init E sys b None x 5 0)) = x.
  Proof.
    intros E0. unfold cg_run, run, run_budget.
    cbn [get_max_iter get_iter CGClass cg_init cg_max_iter cg_iter].
    change (Z.to_nat (5 - 0)) with 5%nat. cbn [run_fuel].
    assert (D : done (CGClass E sys None) (cg_init E sys b None x 5 0) = true).
    { unfold done. cbn [done_ CGClass]. unfold cg__done, cg_init.
      cbn [cg_max_iter cg_iter cg_npd cg_resid cg_tol cg_applyP vsub vdot ssqrt sleb ops_of].
      rewrite E0, (dot_0_l H), sqrt_0.
      assert (L : Rleb 0 0 = true) by (apply Rleb_true; lra). rewrite L. reflexivity. }
    rewrite D. reflexivity.
  Qed.

  (* lengths agree (numpy would refuse to broadcast otherwise) *)
  Hypothesis Hlen : forall v, length (A v) = length y.
  (* exp(1j * angle(w)) is the unit phase of w:  |w| * exp(1j * angle(w)) = w *)
  Hypothesis Hphase : forall w, cscale E (cabsR w) (cphase w) = w.

  Lemma yhat_is_Ax (x : X) :
    (forall w yi, In (w, yi) (combine (A x) y) -> cabsR w = yi) -> gs_yhat E cphase A y x = A x.
  Proof.
    unfold gs_yhat. pose proof (Hlen x) as L. revert L.
    generalize (A x) as l. generalize y as yy.
    induction yy as [|yi yy IH]; intros l L Hall.
    - destruct l; [reflexivity|discriminate].
    - destruct l as [|w l]; [discriminate|]. cbn [combine map fst snd].
      rewrite <- (Hall w yi (or_introl eq_refl)), Hphase. f_equal.
      apply IH; [cbn in L; lia|]. intros w' y' Hin. apply Hall. right. exact Hin.
  Qed.

  (* [core] when is the stop a fixed point?  With lamb = 0: amplitudes matched ==> y_hat = A x, the
     normal equations A^H A x = A^H y_hat hold at x, the inner CG does nothing, and a further update
     leaves x and the residual unchanged.  (With lamb <> 0 the inner system is (A^H A + lamb) x = A^H A x,
     which x solves only if lamb x = 0: the stop rule does not see the Tikhonov term.) *)
  Theorem gs_stop_fixed (s : gs_state E) :
    lamb = 0 ->
    gs_residual (update C s) <= 0 ->
    gs_x (update C (update C s)) = gs_x (update C s) /\
    gs_residual (update C (update C s)) = gs_residual (update C s).
  Proof.
    intros L0 Hle0. pose proof (proj1 (gs_stop_iff_amplitudes_match s) Hle0) as Hle. clear Hle0.
    set (s1 := update C s) in *.
    assert (Ex : gs_x (update C s1) = gs_x s1).
    { destruct (gs_update_fields s1) as (Ex & _). rewrite Ex. unfold gs_inner.
      apply gs_inner_cg_at_solution. unfold gs_b, gs_system. rewrite (yhat_is_Ax _ Hle), L0.
      cbn [vadd vscale ops_of]. vec H. }
    split; [exact Ex|].
    destruct (gs_update_fields s1) as (_ & Er1). destruct (gs_update_fields s) as (_ & Er0).
    fold s1 in Er0. rewrite Er1, Er0, Ex. reflexivity.
  Qed.
End GSStop.

(* exp(1j*angle(w)) on R^2: a function satisfying the phase hypothesis exists *)
Definition cphaseR (w : R * R) : R * R :=
  let m := sqrt (fst w * fst w + snd w * snd w) in
  if Req_EM_T m 0 then (1, 0) else (fst w / m, snd w / m).
Lemma cphaseR_spec (H : IPSpace) : forall w, cscale (ops_of H) (cabs (ops_of H) w) (cphaseR w) = w.
Proof.
  intros [a c]. unfold cscale, cabs, cphaseR. cbn [fst snd smul sadd ssqrt ops_of].
  set (m := sqrt (a * a + c * c)).
  destruct (Req_EM_T m 0) as [Z|NZ]; cbn [fst snd].
  - assert (Hs : a * a + c * c = 0).
    { apply sqrt_eq_0; [|exact Z]. pose proof (Rle_0_sqr a). pose proof (Rle_0_sqr c). unfold Rsqr in *. lra. }
    pose proof (Rle_0_sqr a) as Qa. pose proof (Rle_0_sqr c) as Qc. unfold Rsqr in *.
    assert (a = 0) by (apply Rsqr_0_uniq; unfold Rsqr; lra).
    assert (c = 0) by (apply Rsqr_0_uniq; unfold Rsqr; lra).
    subst. rewrite Z. f_equal; ring.
  - f_equal; field; exact NZ.
Qed.

(* ------------------------------------------------------------------------- *)
(* PDHG with array-valued step sizes                                           *)
(* ------------------------------------------------------------------------- *)
(* elementwise arithmetic on an inner-product space of arrays: what the residual needs *)
Record EltOps (H : IPSpace) := mkElt {
  emul : ipV H -> ipV H -> ipV H;              (* a * b *)
  ediv : ipV H -> ipV H -> ipV H;              (* a / b *)
  esqrt : ipV H -> ipV H;                      (* a ** 0.5 *)
  epos : ipV H -> Prop;                        (* every entry > 0 *)
  e_div_sqrt_inj : forall t d, epos t -> ediv d (esqrt t) = ip0 H -> d = ip0 H;
  e_pos_scale : forall a t, 0 < a -> epos t -> epos (ipscale H a t);
  e_pos_divs : forall a t, 0 < a -> epos t -> epos (ipdivs H t a) }.
Arguments emul {H}. Arguments ediv {H}. Arguments esqrt {H}. Arguments epos {H}.

Section PDHGArrStop.
  Variables HX HU : IPSpace.
  Variable OX : EltOps HX.
  Variable OU : EltOps HU.
  Notation X := (ipV HX).
  Notation U := (ipV HU).
  Notation E := (ops_of HX).
  Variable A : X -> U.
  Variable AH : U -> X.
  Variable proxfc : U -> U -> U.
  Variable proxg : X -> X -> X.
  Variable theta0 gamma_primal gamma_dual : R.
  Variables sgt0 seq0 : R -> bool.

  Notation C := (PDHGAClass E U (ipadd HU) (ipsub HU) (ipscale HU) (ipdivs HU) (ipdot HU)
                            (emul OX) (ediv OX) (esqrt OX) (emul OU) (ediv OU) (esqrt OU)
                            A AH proxfc proxg theta0 gamma_primal gamma_dual sgt0 seq0).
  Notation px := (pa_x E U). Notation pu := (pa_u E U). Notation pxe := (pa_x_ext E U).
  Notation ptau := (pa_tau E U). Notation psigma := (pa_sigma E U). Notation presid := (pa_resid E U).
  Notation ptaumin := (pa_tau_min E U). Notation psigmamin := (pa_sigma_min E U).

  Lemma pdhga_update_shape (s : pdhga_state E U) :
    exists th : R,
      presid (update C s)
      = sqrt (sqrt (ipdot HX (ediv OX (ipsub HX (px (update C s)) (px s)) (esqrt OX (ptau (update C s))))
                             (ediv OX (ipsub HX (px (update C s)) (px s)) (esqrt OX (ptau (update C s)))))
              * sqrt (ipdot HX (ediv OX (ipsub HX (px (update C s)) (px s)) (esqrt OX (ptau (update C s))))
                               (ediv OX (ipsub HX (px (update C s)) (px s)) (esqrt OX (ptau (update C s)))))
              + sqrt (ipdot HU (ediv OU (ipsub HU (pu (update C s)) (pu s)) (esqrt OU (psigma s)))
                               (ediv OU (ipsub HU (pu (update C s)) (pu s)) (esqrt OU (psigma s))))
                * sqrt (ipdot HU (ediv OU (ipsub HU (pu (update C s)) (pu s)) (esqrt OU (psigma s)))
                                 (ediv OU (ipsub HU (pu (update C s)) (pu s)) (esqrt OU (psigma s)))))
      /\ pxe (update C s) = ipadd HX (px (update C s)) (ipscale HX th (ipsub HX (px (update C s)) (px s))).
  Proof.
    unfold update. cbn [PDHGAClass upd_ set_iter get_iter pdhga_set_iter]. unfold pdhga__update.
    destruct (sgt0 gamma_primal && seq0 gamma_dual);
      [|destruct (seq0 gamma_primal && sgt0 gamma_dual)]; eexists; split; reflexivity.
  Qed.

  (* [core] array-valued (diagonal, positive) step sizes: resid = 0 ==> neither x nor u moved, x_ext = x *)
  Theorem pdhga_resid_zero_no_move (s : pdhga_state E U) :
    epos OU (psigma s) -> epos OX (ptau (update C s)) ->
    presid (update C s) = 0 ->
    px (update C s) = px s /\ pu (update C s) = pu s /\ pxe (update C s) = px (update C s).
  Proof.
    intros Hs Ht Hr. destruct (pdhga_update_shape s) as (th & Eres & Eext).
    rewrite Eres in Hr. apply sum_sq0 in Hr. destruct Hr as (Hp & Hd).
    apply (vnorm0 HX) in Hp. apply (vnorm0 HU) in Hd.
    apply (e_div_sqrt_inj HX OX _ _ Ht) in Hp.
    apply (e_div_sqrt_inj HU OU _ _ Hs) in Hd.
    pose proof (sub_eq0 HX _ _ Hp) as Ex. pose proof (sub_eq0 HU _ _ Hd) as Eu.
    repeat split; [exact Ex|exact Eu|].
    rewrite Eext, Hp. vec HX.
  Qed.

  (* Python `a > 0` implies the real order (nothing else is assumed of the comparisons) *)
  Hypothesis Hsgt0 : forall a, sgt0 a = true -> 0 < a.

  Lemma theta_range g m : 0 < g -> 0 < m ->
    let th := 1 / sqrt (1 + (1 + 1) * g * m) in 0 < th < 1.
  Proof.
    intros Hg Hm. cbv zeta.
    assert (Hgm : 0 < g * m) by (apply Rmult_lt_0_compat; assumption).
    assert (H1 : 1 < sqrt (1 + (1 + 1) * g * m)).
    { rewrite <- sqrt_1 at 1. apply sqrt_lt_1_alt. lra. }
    split.
    - apply Rdiv_lt_0_compat; lra.
    - apply (Rmult_lt_reg_r (sqrt (1 + (1 + 1) * g * m))); [lra|].
      unfold Rdiv. rewrite Rmult_assoc, Rinv_l by lra. lra.
  Qed.

  (* the step sizes stay positive through every branch of the step-size adaptation *)
  Theorem pdhga_steps_stay_positive (s : pdhga_state E U) :
    epos OX (ptau s) -> epos OU (psigma s) -> 0 < ptaumin s -> 0 < psigmamin s ->
    epos OX (ptau (update C s)) /\ epos OU (psigma (update C s)) /\
    0 < ptaumin (update C s) /\ 0 < psigmamin (update C s).
  Proof.
    intros Ht Hs Htm Hsm.
    unfold update. cbn [PDHGAClass upd_ set_iter get_iter pdhga_set_iter]. unfold pdhga__update.
    destruct (sgt0 gamma_primal && seq0 gamma_dual) eqn:B1;
      [|destruct (seq0 gamma_primal && sgt0 gamma_dual) eqn:B2];
      cbn [pa_tau pa_sigma pa_tau_min pa_sigma_min sdiv s1 ssqrt sadd smul vscale vdivs pa_s2 ops_of].
    - apply andb_true_iff in B1. destruct B1 as (B1 & _). apply Hsgt0 in B1.
      destruct (theta_range gamma_primal (ptaumin s) B1 Htm) as (T0 & T1). cbv zeta in *.
      repeat split.
      + apply e_pos_scale; assumption.
      + apply e_pos_divs; assumption.
      + apply Rmult_lt_0_compat; assumption.
      + exact Hsm.
    - apply andb_true_iff in B2. destruct B2 as (_ & B2). apply Hsgt0 in B2.
      destruct (theta_range gamma_dual (psigmamin s) B2 Hsm) as (T0 & T1). cbv zeta in *.
      repeat split.
      + apply e_pos_divs; assumption.
      + apply e_pos_scale; assumption.
      + exact Htm.
      + apply Rmult_lt_0_compat; assumption.
    - repeat split; assumption.
  Qed.

  (* [core] hence, with or without step adaptation: from positive steps, resid = 0 ==> nothing moved *)
  Theorem pdhga_early_stop_no_move (s : pdhga_state E U) :
    epos OX (ptau s) -> epos OU (psigma s) -> 0 < ptaumin s -> 0 < psigmamin s ->
    presid (update C s) = 0 ->
    px (update C s) = px s /\ pu (update C s) = pu s /\ pxe (update C s) = px (update C s).
  Proof.
    intros Ht Hs Htm Hsm Hr.
    destruct (pdhga_steps_stay_positive s Ht Hs Htm Hsm) as (Ht' & _).
    apply pdhga_resid_zero_no_move; assumption.
  Qed.

  (* ... along the whole run: positivity is an invariant of update() *)
  Theorem pdhga_run_no_move (s0 : pdhga_state E U) (k : nat) :
    epos OX (ptau s0) -> epos OU (psigma s0) -> 0 < ptaumin s0 -> 0 < psigmamin s0 ->
    let sk := iter_update C k s0 in
    (epos OX (ptau sk) /\ epos OU (psigma sk) /\ 0 < ptaumin sk /\ 0 < psigmamin sk) /\
    (presid (update C sk) = 0 ->
     px (update C sk) = px sk /\ pu (update C sk) = pu sk /\ pxe (update C sk) = px (update C sk)).
  Proof.
    intros Ht Hs Htm Hsm. cbv zeta.
    assert (Inv : epos OX (ptau (iter_update C k s0)) /\ epos OU (psigma (iter_update C k s0)) /\
                  0 < ptaumin (iter_update C k s0) /\ 0 < psigmamin (iter_update C k s0)).
    { induction k as [|k IH]; cbn [iter_update]; [repeat split; assumption|].
      destruct IH as (I1 & I2 & I3 & I4). apply pdhga_steps_stay_positive; assumption. }
    split; [exact Inv|]. destruct Inv as (I1 & I2 & I3 & I4).
    apply pdhga_early_stop_no_move; assumption.
  Qed.
End PDHGArrStop.

(* ------------------------------------------------------------------------- *)
(* PDHG, scalar step sizes (model/Alg.v): the step-adaptation branches           *)
(* ------------------------------------------------------------------------- *)
Section PDHGAdaptStop.
  Variables HX HU : IPSpace.
  Notation X := (ipV HX).
  Notation U := (ipV HU).
  Notation E := (ops_of HX).
  Variable A : X -> U.
  Variable AH : U -> X.
  Variable proxfc : R -> U -> U.
  Variable proxg : R -> X -> X.
  Variable theta0 gamma_primal gamma_dual : R.
  Variables sgt0 seq0 : R -> bool.
  Hypothesis Hsgt0 : forall a, sgt0 a = true -> 0 < a.

  Notation C := (PDHGClass E U (ipadd HU) (ipsub HU) (ipscale HU) (ipdivs HU) (ipdot HU)
                           A AH proxfc proxg theta0 gamma_primal gamma_dual sgt0 seq0).
  Notation px := (pd_x E U). Notation pu := (pd_u E U). Notation pxe := (pd_x_ext E U).
  Notation ptau := (pd_tau E U). Notation psigma := (pd_sigma E U). Notation presid := (pd_resid E U).
  Notation ptaumin := (pd_tau_min E U). Notation psigmamin := (pd_sigma_min E U).

  (* what the three branches do to the step sizes; theta in (0,1) in the adaptive ones *)
  Theorem pdhg_adapt_branches (s : pdhg_state E U) :
    0 < ptaumin s -> 0 < psigmamin s ->
    exists th : R,
      pxe (update C s) = ipadd HX (px (update C s)) (ipscale HX th (ipsub HX (px (update C s)) (px s))) /\
      ((sgt0 gamma_primal && seq0 gamma_dual = true /\ 0 < th < 1 /\
        th = 1 / sqrt (1 + (1 + 1) * gamma_primal * ptaumin s) /\
        ptau (update C s) = ptau s * th /\ psigma (update C s) = psigma s / th /\
        ptaumin (update C s) = ptaumin s * th /\ psigmamin (update C s) = psigmamin s)
       \/
       (sgt0 gamma_primal && seq0 gamma_dual = false /\ seq0 gamma_primal && sgt0 gamma_dual = true /\ 0 < th < 1 /\
        th = 1 / sqrt (1 + (1 + 1) * gamma_dual * psigmamin s) /\
        ptau (update C s) = ptau s / th /\ psigma (update C s) = psigma s * th /\
        ptaumin (update C s) = ptaumin s /\ psigmamin (update C s) = psigmamin s * th)
       \/
       (sgt0 gamma_primal && seq0 gamma_dual = false /\ seq0 gamma_primal && sgt0 gamma_dual = false /\
        th = theta0 /\
        ptau (update C s) = ptau s /\ psigma (update C s) = psigma s /\
        ptaumin (update C s) = ptaumin s /\ psigmamin (update C s) = psigmamin s)).
  Proof.
    intros Htm Hsm.
    unfold update. cbn [PDHGClass upd_ set_iter get_iter pdhg_set_iter]. unfold pdhg__update.
    destruct (sgt0 gamma_primal && seq0 gamma_dual) eqn:B1;
      [|destruct (seq0 gamma_primal && sgt0 gamma_dual) eqn:B2];
      cbn [pd_x pd_x_ext pd_tau pd_sigma pd_tau_min pd_sigma_min sdiv s1 ssqrt sadd smul s2' ops_of].
    - apply andb_true_iff in B1. destruct B1 as (B1 & _). apply Hsgt0 in B1.
      pose proof (theta_range gamma_primal (ptaumin s) B1 Htm) as T. cbv zeta in T.
      eexists. split; [reflexivity|]. left. repeat split; try reflexivity; apply T.
    - apply andb_true_iff in B2. destruct B2 as (_ & B2). apply Hsgt0 in B2.
      pose proof (theta_range gamma_dual (psigmamin s) B2 Hsm) as T. cbv zeta in T.
      eexists. split; [reflexivity|]. right. left. repeat split; try reflexivity; apply T.
    - eexists. split; [reflexivity|]. right. right. repeat split; reflexivity.
  Qed.

  (* the step sizes stay positive through every branch *)
  Theorem pdhg_steps_stay_positive (s : pdhg_state E U) :
    0 < ptau s -> 0 < psigma s -> 0 < ptaumin s -> 0 < psigmamin s ->
    0 < ptau (update C s) /\ 0 < psigma (update C s) /\ 0 < ptaumin (update C s) /\ 0 < psigmamin (update C s).
  Proof.
    intros Ht Hs Htm Hsm.
    destruct (pdhg_adapt_branches s Htm Hsm) as (th & _ & [B|[B|B]]).
    - destruct B as (_ & (T0 & T1) & _ & E1 & E2 & E3 & E4). rewrite E1, E2, E3, E4.
      repeat split; try assumption; try (apply Rmult_lt_0_compat; assumption).
      apply Rdiv_lt_0_compat; assumption.
    - destruct B as (_ & _ & (T0 & T1) & _ & E1 & E2 & E3 & E4). rewrite E1, E2, E3, E4.
      repeat split; try assumption; try (apply Rmult_lt_0_compat; assumption).
      apply Rdiv_lt_0_compat; assumption.
    - destruct B as (_ & _ & _ & E1 & E2 & E3 & E4). rewrite E1, E2, E3, E4. repeat split; assumption.
  Qed.

  (* [core] with step adaptation (gamma_primal > 0 or gamma_dual > 0) as without: from positive steps,
     resid = 0 ==> neither x nor u moved, and x_ext = x *)
  Theorem pdhg_adapt_early_stop_no_move (s : pdhg_state E U) :
    0 < ptau s -> 0 < psigma s -> 0 < ptaumin s -> 0 < psigmamin s ->
    presid (update C s) = 0 ->
    px (update C s) = px s /\ pu (update C s) = pu s /\ pxe (update C s) = px (update C s).
  Proof.
    intros Ht Hs Htm Hsm Hr.
    destruct (pdhg_steps_stay_positive s Ht Hs Htm Hsm) as (Ht' & _).
    apply (pdhg_resid_zero_no_move HX HU A AH proxfc proxg theta0 gamma_primal gamma_dual sgt0 seq0 s Hs Ht' Hr).
  Qed.

  (* ... along the whole run from pdhg_init with tau, sigma > 0 (tau_min = tau, sigma_min = sigma) *)
  Theorem pdhg_run_no_move (s0 : pdhg_state E U) (k : nat) :
    0 < ptau s0 -> 0 < psigma s0 -> 0 < ptaumin s0 -> 0 < psigmamin s0 ->
    let sk := iter_update C k s0 in
    (0 < ptau sk /\ 0 < psigma sk /\ 0 < ptaumin sk /\ 0 < psigmamin sk) /\
    (presid (update C sk) = 0 ->
     px (update C sk) = px sk /\ pu (update C sk) = pu sk /\ pxe (update C sk) = px (update C sk)).
  Proof.
    intros Ht Hs Htm Hsm. cbv zeta.
    assert (Inv : 0 < ptau (iter_update C k s0) /\ 0 < psigma (iter_update C k s0) /\
                  0 < ptaumin (iter_update C k s0) /\ 0 < psigmamin (iter_update C k s0)).
    { induction k as [|k IH]; cbn [iter_update]; [repeat split; assumption|].
      destruct IH as (I1 & I2 & I3 & I4). apply pdhg_steps_stay_positive; assumption. }
    split; [exact Inv|]. destruct Inv as (I1 & I2 & I3 & I4).
    apply pdhg_adapt_early_stop_no_move; assumption.
  Qed.

  (* one update in terms of the fields of the state it starts from *)
  Lemma pdhg_update_ux (s : pdhg_state E U) :
    pu (update C s) = proxfc (psigma s) (ipadd HU (pu s) (ipscale HU (psigma s) (A (pxe s)))) /\
    px (update C s) = proxg (ptau s) (ipadd HX (px s) (ipscale HX (- ptau s) (AH (pu (update C s))))).
  Proof.
    unfold update. cbn [PDHGClass upd_ set_iter get_iter pdhg_set_iter]. unfold pdhg__update.
    destruct (sgt0 gamma_primal && seq0 gamma_dual);
      [|destruct (seq0 gamma_primal && sgt0 gamma_dual)]; split; reflexivity.
  Qed.

  (* a proximal map's fixed-point relation does not depend on the step:
       u = prox_{s f}(u + s v)  <=>  v in the subdifferential of f at u.
     Assumed of the two callables (it holds for every genuine proximal operator). *)
  Definition prox_step_independent (V : IPSpace) (prox : R -> ipV V -> ipV V) : Prop :=
    forall s1 s2 u v, 0 < s1 -> 0 < s2 ->
      prox s1 (ipadd V u (ipscale V s1 v)) = u -> prox s2 (ipadd V u (ipscale V s2 v)) = u.

  (* [core] fixed point WITH step adaptation: an update from an un-extrapolated point with resid = 0
     is followed by an update that moves neither x nor u, although it uses different step sizes *)
  Theorem pdhg_adapt_early_stop_fixed (s : pdhg_state E U) :
    prox_step_independent HU proxfc -> prox_step_independent HX proxg ->
    0 < ptau s -> 0 < psigma s -> 0 < ptaumin s -> 0 < psigmamin s ->
    pxe s = px s ->
    presid (update C s) = 0 ->
    px (update C (update C s)) = px (update C s) /\ pu (update C (update C s)) = pu (update C s).
  Proof.
    intros Ifc Ig Ht Hs Htm Hsm Hext Hr.
    destruct (pdhg_adapt_early_stop_no_move s Ht Hs Htm Hsm Hr) as (Ex & Eu & Eext).
    destruct (pdhg_steps_stay_positive s Ht Hs Htm Hsm) as (Ht' & Hs' & _).
    destruct (pdhg_update_ux s) as (Eu1 & Ex1).
    destruct (pdhg_update_ux (update C s)) as (Eu2 & Ex2).
    assert (U2 : pu (update C (update C s)) = pu (update C s)).
    { rewrite Eu2, Eext, Ex, Eu.
      apply (Ifc (psigma s) (psigma (update C s)) (pu s) (A (px s)) Hs Hs').
      rewrite <- Hext, <- Eu1. exact Eu. }
    split; [|exact U2].
    rewrite Ex2, U2, Ex, Eu.
    assert (Ex1' : proxg (ptau s) (ipadd HX (px s) (ipscale HX (ptau s) (ipscale HX (-1) (AH (pu s))))) = px s).
    { rewrite <- Ex at 2. rewrite Ex1, Eu. f_equal. vec HX. }
    pose proof (Ig (ptau s) (ptau (update C s)) (px s) (ipscale HX (-1) (AH (pu s))) Ht Ht' Ex1') as Q.
    rewrite <- Q at 2. f_equal. vec HX.
  Qed.
End PDHGAdaptStop.

(* ------------------------------------------------------------------------- *)
(* non-vacuity: elementwise structures exist on R, on products, on R^n          *)
(* ------------------------------------------------------------------------- *)
From SV Require Import proofs.RnSpace.

Definition EltR1 : EltOps R1Space.
Proof.
  refine (mkElt R1Space Rmult Rdiv sqrt (fun t => 0 < t) _ _ _); cbn [ipV ip0 ipscale ipdivs R1Space].
  - intros t d Ht E0. unfold Rdiv in E0. apply Rmult_integral in E0. destruct E0 as [|E0]; [assumption|].
    exfalso. apply (Rinv_neq_0_compat (sqrt t)); [apply Rgt_not_eq, sqrt_lt_R0, Ht|exact E0].
  - intros a t Ha Ht. apply Rmult_lt_0_compat; assumption.
  - intros a t Ha Ht. apply Rmult_lt_0_compat; [apply Rinv_0_lt_compat, Ha|exact Ht].
Defined.

Definition EltTriv : EltOps TrivSpace.
Proof.
  refine (mkElt TrivSpace (fun _ _ => tt) (fun _ _ => tt) (fun _ => tt) (fun _ => True) _ _ _).
  - intros t [] _ _. reflexivity.
  - intros; exact I.
  - intros; exact I.
Defined.

Definition EltProd (H1 H2 : IPSpace) (O1 : EltOps H1) (O2 : EltOps H2) : EltOps (ProdSpace H1 H2).
Proof.
  refine (mkElt (ProdSpace H1 H2)
            (fun x y => (emul O1 (fst x) (fst y), emul O2 (snd x) (snd y)))
            (fun x y => (ediv O1 (fst x) (fst y), ediv O2 (snd x) (snd y)))
            (fun x => (esqrt O1 (fst x), esqrt O2 (snd x)))
            (fun t => epos O1 (fst t) /\ epos O2 (snd t)) _ _ _); cbn [ipV ip0 ipscale ipdivs ProdSpace fst snd].
  - intros t [d1 d2] (P1 & P2) E0. cbn [fst snd] in E0. injection E0 as E1 E2.
    f_equal; [apply (e_div_sqrt_inj H1 O1 (fst t)); assumption|apply (e_div_sqrt_inj H2 O2 (snd t)); assumption].
  - intros a t Ha (P1 & P2). split; [apply e_pos_scale|apply e_pos_scale]; assumption.
  - intros a t Ha (P1 & P2). split; [apply e_pos_divs|apply e_pos_divs]; assumption.
Defined.

Fixpoint EltRn (n : nat) : EltOps (RnSpace n) :=
  match n with 0%nat => EltTriv | S m => EltProd R1Space (RnSpace m) EltR1 (EltRn m) end.

(* an all-ones array is positive in every R^n *)
Fixpoint ones (n : nat) : ipV (RnSpace n) :=
  match n with 0%nat => tt | S m => (1, ones m) end.
Lemma ones_pos n : epos (EltRn n) (ones n).
Proof. induction n as [|n IH]; cbn; [exact I|]. split; [lra|exact IH]. Qed.

(* the identity prox (g = 0) is step independent *)
Lemma id_prox_step_independent (V : IPSpace) : prox_step_independent V (fun _ z => z).
Proof.
  intros s1 s2 u v H1 H2 E0.
  assert (Z : ipscale V s1 v = ip0 V).
  { apply (vec_ext V). intro t.
    assert (Q : ipdot V (ipadd V u (ipscale V s1 v)) t = ipdot V u t) by (rewrite E0; reflexivity).
    ipnorm_in V Q. ipnorm V. lra. }
  assert (V0 : v = ip0 V).
  { apply (vec_ext V). intro t.
    assert (Q : ipdot V (ipscale V s1 v) t = ipdot V (ip0 V) t) by (rewrite Z; reflexivity).
    ipnorm_in V Q. ipnorm V. nra. }
  rewrite V0. vec V.
Qed.

(* ------------------------------------------------------------------------- *)
(* the three classes obey the driver laws of proofs/Driver.v (any operations)   *)
(* ------------------------------------------------------------------------- *)
From SV Require Import proofs.Driver.
Section Laws2.
  Variable E : IPOps.

  Lemma NM_laws gradf inv_hessf beta f slt sgt fuel :
    AlgLaws (NMClass E gradf inv_hessf beta f slt sgt fuel) (fun s => sleb (nm_residual s) (nm_tol s)).
  Proof.
    constructor; intros; cbn [NMClass get_iter get_max_iter set_iter upd_ done_]; try reflexivity.
    - unfold nm__update. destruct (slt _ _); reflexivity.
    - unfold nm__update. destruct (slt _ _); reflexivity.
  Qed.

  Lemma GS_laws sabs cphase A AH y lamb :
    AlgLaws (GSClass E sabs cphase A AH y lamb) (fun s => sleb (gs_residual s) (gs_tol s)).
  Proof. constructor; intros; reflexivity. Qed.

  Lemma PDHGA_laws U uadd usub uscale udivs udot xmul xdiv xsqrt umul udiv usqrt A AH proxfc proxg theta0 gp gd sgt0 seq0 :
    AlgLaws (PDHGAClass E U uadd usub uscale udivs udot xmul xdiv xsqrt umul udiv usqrt
                        A AH proxfc proxg theta0 gp gd sgt0 seq0)
            (fun s => sleb (pa_resid E U s) (pa_tol E U s)).
  Proof.
    constructor; intros; cbn [PDHGAClass get_iter get_max_iter set_iter upd_ done_]; try reflexivity.
    - unfold pdhga__update. destruct (sgt0 gp && seq0 gd); [reflexivity|]. destruct (seq0 gp && sgt0 gd); reflexivity.
    - unfold pdhga__update. destruct (sgt0 gp && seq0 gd); [reflexivity|]. destruct (seq0 gp && sgt0 gd); reflexivity.
  Qed.
End Laws2.

(* ------------------------------------------------------------------------- *)
(* array-valued steps: fixed point, with or without step adaptation             *)
(* ------------------------------------------------------------------------- *)
Section PDHGArrFixed.
  Variables HX HU : IPSpace.
  Variable OX : EltOps HX.
  Variable OU : EltOps HU.
  Notation X := (ipV HX).
  Notation U := (ipV HU).
  Notation E := (ops_of HX).
  Variable A : X -> U.
  Variable AH : U -> X.
  Variable proxfc : U -> U -> U.
  Variable proxg : X -> X -> X.
  Variable theta0 gamma_primal gamma_dual : R.
  Variables sgt0 seq0 : R -> bool.
  Hypothesis Hsgt0 : forall a, sgt0 a = true -> 0 < a.

  Notation C := (PDHGAClass E U (ipadd HU) (ipsub HU) (ipscale HU) (ipdivs HU) (ipdot HU)
                            (emul OX) (ediv OX) (esqrt OX) (emul OU) (ediv OU) (esqrt OU)
                            A AH proxfc proxg theta0 gamma_primal gamma_dual sgt0 seq0).
  Notation px := (pa_x E U). Notation pu := (pa_u E U). Notation pxe := (pa_x_ext E U).
  Notation ptau := (pa_tau E U). Notation psigma := (pa_sigma E U). Notation presid := (pa_resid E U).
  Notation ptaumin := (pa_tau_min E U). Notation psigmamin := (pa_sigma_min E U).

  Lemma pdhga_update_ux (s : pdhga_state E U) :
    pu (update C s) = proxfc (psigma s) (ipadd HU (pu s) (emul OU (psigma s) (A (pxe s)))) /\
    px (update C s) = proxg (ptau s) (ipadd HX (px s) (emul OX (ipscale HX (- (1)) (ptau s)) (AH (pu (update C s))))).
  Proof.
    unfold update. cbn [PDHGAClass upd_ set_iter get_iter pdhga_set_iter]. unfold pdhga__update.
    destruct (sgt0 gamma_primal && seq0 gamma_dual);
      [|destruct (seq0 gamma_primal && sgt0 gamma_dual)]; split; reflexivity.
  Qed.

  (* the fixed-point relation of the two proximal maps does not depend on the (positive, array) step:
       u = proxfc(sigma, u + sigma * v)   and   x = proxg(tau, x + (-tau) * w) *)
  Definition proxfc_step_independent : Prop :=
    forall t1 t2 u v, epos OU t1 -> epos OU t2 ->
      proxfc t1 (ipadd HU u (emul OU t1 v)) = u -> proxfc t2 (ipadd HU u (emul OU t2 v)) = u.
  Definition proxg_step_independent : Prop :=
    forall t1 t2 x w, epos OX t1 -> epos OX t2 ->
      proxg t1 (ipadd HX x (emul OX (ipscale HX (- (1)) t1) w)) = x ->
      proxg t2 (ipadd HX x (emul OX (ipscale HX (- (1)) t2) w)) = x.

  Theorem pdhga_early_stop_fixed (s : pdhga_state E U) :
    proxfc_step_independent -> proxg_step_independent ->
    epos OX (ptau s) -> epos OU (psigma s) -> 0 < ptaumin s -> 0 < psigmamin s ->
    pxe s = px s ->
    presid (update C s) = 0 ->
    px (update C (update C s)) = px (update C s) /\ pu (update C (update C s)) = pu (update C s).
  Proof.
    intros Ifc Ig Ht Hs Htm Hsm Hext Hr.
    destruct (pdhga_early_stop_no_move HX HU OX OU A AH proxfc proxg theta0 gamma_primal gamma_dual sgt0 seq0
                Hsgt0 s Ht Hs Htm Hsm Hr) as (Ex & Eu & Eext).
    destruct (pdhga_steps_stay_positive HX HU OX OU A AH proxfc proxg theta0 gamma_primal gamma_dual sgt0 seq0
                Hsgt0 s Ht Hs Htm Hsm) as (Ht' & Hs' & _).
    destruct (pdhga_update_ux s) as (Eu1 & Ex1).
    destruct (pdhga_update_ux (update C s)) as (Eu2 & Ex2).
    assert (U2 : pu (update C (update C s)) = pu (update C s)).
    { rewrite Eu2, Eext, Ex, Eu.
      apply (Ifc (psigma s) (psigma (update C s)) (pu s) (A (px s)) Hs Hs').
      rewrite <- Hext, <- Eu1. exact Eu. }
    split; [|exact U2].
    rewrite Ex2, U2, Ex, Eu.
    apply (Ig (ptau s) (ptau (update C s)) (px s) (AH (pu s)) Ht Ht').
    rewrite <- Eu at 1. rewrite <- Ex1. exact Ex.
  Qed.
End PDHGArrFixed.
