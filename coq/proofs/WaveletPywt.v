(* proofs/WaveletPywt.v — the call-by-call PyWavelets environment of model/WaveletPywt.v does not constrain the
   oracles of model/Wavelet.v / model/OpaqueWavelet.v: EVERY triple (cs, WW, WWr) indexed by (axes, wavelet, level,
   padded shape) is the composite (cs_of, W_of, Wr_of) of some environment.  So the lemmas of gen/Gen_wavelet.v
   (generated code = hand model at the composites of an arbitrary environment) lose no generality with respect to the
   theorems of props/Prop_C10.v, which quantify over arbitrary (cshape_of, W, Wr) under the orthogonality hypotheses. *)
From Coq Require Import ZArith List Bool.
From SV Require Import lib.Scalar lib.NdArray model.Rearrange model.Wavelet model.WaveletPywt.
Import ListNotations.
Local Open Scope Z_scope.

Section Realise.
  Variable R : Ops.
  Variable cs : option (list Z) -> Z -> option Z -> list Z -> list Z.
  Variable WW WWr : option (list Z) -> Z -> option Z -> list Z -> (list Z -> R) -> list Z -> R.

  (* structure = the arguments that determine it; values = the packed array itself; slices = structure + axes *)
  Definition st_t : Type := list Z * Z * option Z.
  Definition pywt_of_oracles : pywt R :=
    {| cstruct := st_t;
       cdata := list Z -> R;
       cslices := st_t * option (list Z);
       wavedecn_struct := fun s w _ l _ => (s, w, l);
       wavedecn_data := fun s x w _ l ax => WW ax w l s x;
       c2a_shape := fun st ax => let '(s, w, l) := st in cs ax w l s;
       c2a_slices := fun st ax => (st, ax);
       c2a_data := fun _ d _ => d;
       a2c_data := fun c sl _ => let '((s, w, l), ax) := sl in WWr ax w l s c;
       waverecn_data := fun d _ _ _ => d |}.

  Lemma cs_of_realised : forall ax w l s, cs_of pywt_of_oracles ax w l s = cs ax w l s.
  Proof. reflexivity. Qed.
  Lemma W_of_realised : forall ax w l s x, W_of pywt_of_oracles ax w l s x = WW ax w l s x.
  Proof. reflexivity. Qed.
  Lemma Wr_of_realised : forall ax w l s c, Wr_of pywt_of_oracles ax w l s c = WWr ax w l s c.
  Proof. reflexivity. Qed.
End Realise.
