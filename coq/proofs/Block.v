(* proofs/Block.v — the numba block kernels, as GENERATED from sigpy/block.py,
   compute the documented closed forms (1-D block dimension + batch axis):
     _blocks_to_array1 : out[b,i] += sum_{n<N, bx<B, n*S+bx = i} in[b,n,bx]
     _array_to_blocks1 : out[b,n,bx] = in[b, n*S+bx]  when n*S+bx < len, untouched otherwise *)
From Coq Require Import ZArith List Lia Bool Ring.
From SV Require Import lib.Scalar lib.BigSum lib.LoopIR lib.NdArray gen.Gen_block proofs.SumTools.
Import ListNotations.
Local Open Scope Z_scope.

Section B.
  Variable R : StarRing.
  Add Ring Rring4 : (SRth R).

  Lemma idx2_eqb a b c d : idx_eqb [a; b] [c; d] = (a =? c) && (b =? d).
  Proof. simpl. rewrite andb_true_r. reflexivity. Qed.

  Lemma idx3_eqb a b c d e f : idx_eqb [a; b; c] [d; e; f] = (a =? d) && ((b =? e) && (c =? f)).
  Proof. simpl. rewrite andb_true_r. reflexivity. Qed.

  Local Open Scope sr_scope.

  Theorem b2a1_contrib input ish osh batch B S N Nout b i :
    (0 < S)%Z -> shape_at osh (-1) = Nout -> (0 <= b < batch)%Z -> (0 <= i < Nout)%Z ->
    contrib (k_blocks_to_array1 R input ish osh batch B S N) [] [b; i] =
    sumZ N (fun n => sumZ B (fun bx => if (n * S + bx =? i)%Z then input [b; n; bx] else 0)).
  Proof.
    intros HS Hsh Hb Hi. unfold k_blocks_to_array1. cbn [contrib var nth]. rewrite Hsh.
    (* collapse the batch loop *)
    rewrite (sumL_single R (zrange 0 batch 1) b); [|apply zrange_nodup|apply zrange0_in; exact Hb|].
    2:{ intros b' _ Hne. apply sumL_none. intros ix _. apply sumL_none. intros bx _.
        rewrite idx2_eqb. destruct (Z.eqb_spec b' b); [contradiction|].
        simpl. destruct (_ && _); reflexivity. }
    (* collapse the ix loop *)
    rewrite (sumL_single R (zrange 0 Nout 1) i); [|apply zrange_nodup|apply zrange0_in; exact Hi|].
    2:{ intros ix _ Hne. apply sumL_none. intros bx _. rewrite idx2_eqb.
        destruct (Z.eqb_spec ix i); [contradiction|]. rewrite andb_false_r.
        destruct (_ && _); reflexivity. }
    (* the strided bx loop as a filtered sum, then exchange with the documented double sum *)
    rewrite sumL_zrange_filter by (try apply Z.mod_pos_bound; lia).
    rewrite sumZ_exchange. apply sumZ_ext. intros bx Hbx.
    rewrite stride_filter_equiv by lia.
    rewrite sumZ_affine_single by exact HS.
    rewrite idx2_eqb, !Z.eqb_refl. cbn [andb].
    destruct ((i - bx) mod S =? 0)%Z; cbn [andb]; [|reflexivity].
    replace ((i - bx) / S >=? 0)%Z with (0 <=? (i - bx) / S)%Z by (rewrite Z.geb_leb; reflexivity).
    reflexivity.
  Qed.

  Theorem b2a1_exec input ish osh batch B S N Nout out b i :
    (0 < S)%Z -> shape_at osh (-1) = Nout -> (0 <= b < batch)%Z -> (0 <= i < Nout)%Z ->
    exec (k_blocks_to_array1 R input ish osh batch B S N) [] out [b; i] =
    out [b; i] + sumZ N (fun n => sumZ B (fun bx => if (n * S + bx =? i)%Z then input [b; n; bx] else 0)).
  Proof.
    intros. rewrite exec_is_sum by reflexivity. f_equal. eapply b2a1_contrib; eassumption.
  Qed.

  (* nothing is written outside the [batch] x [Nout] box *)
  Theorem b2a1_frame input ish osh batch B S N out o :
    (0 < S)%Z -> (forall b i, (0 <= b < batch)%Z -> (0 <= i < shape_at osh (-1))%Z -> o <> [b; i]) ->
    exec (k_blocks_to_array1 R input ish osh batch B S N) [] out o = out o.
  Proof.
    intros HS Hout. rewrite exec_is_sum by reflexivity.
    unfold k_blocks_to_array1. cbn [contrib var nth].
    rewrite sumL_none; [ring|]. intros b Hb. apply sumL_none. intros ix Hix. apply sumL_none. intros bx _.
    apply zrange0_in in Hb. apply zrange0_in in Hix.
    destruct (idx_eqb [b; ix] o) eqn:E.
    - apply idx_eqb_spec in E. exfalso. apply (Hout b ix Hb Hix). symmetry. exact E.
    - destruct (_ && _); reflexivity.
  Qed.
End B.

Section A.
  Variable R : Ops.

  Lemma lastL_none l (f : Z -> option R) : (forall v, In v l -> f v = None) -> lastL l f = None.
  Proof.
    induction l as [|v l IH]; simpl; intros H; [reflexivity|].
    rewrite IH by auto. rewrite H by auto. reflexivity.
  Qed.

  Lemma lastL_single l w (f : Z -> option R) : NoDup l -> In w l ->
    (forall v, In v l -> v <> w -> f v = None) -> lastL l f = f w.
  Proof.
    induction l as [|v l IH]; simpl; intros ND Hin H; [tauto|].
    inversion ND as [|? ? Hnot ND']; subst.
    destruct Hin as [->|Hin].
    - rewrite lastL_none; [reflexivity|]. intros v Hv. apply H; [auto|]. intros ->. contradiction.
    - rewrite IH by auto. rewrite (H v); [destruct (f w); reflexivity|auto|]. intros ->. contradiction.
  Qed.

  Theorem a2b1_exec input ish osh batch B S N Nin out b n bx :
    shape_at ish (-1) = Nin -> (0 <= b < batch)%Z -> (0 <= n < N)%Z -> (0 <= bx < B)%Z ->
    exec (k_array_to_blocks1 R input ish osh batch B S N) [] out [b; n; bx] =
    if (n * S + bx <? Nin)%Z then input [b; n * S + bx] else out [b; n; bx].
  Proof.
    intros Hsh Hb Hn Hbx. rewrite exec_last by reflexivity.
    unfold k_array_to_blocks1. cbn [lastw var nth]. rewrite Hsh.
    rewrite (lastL_single (zrange 0 batch 1) b); [|apply zrange_nodup|apply zrange0_in; exact Hb|].
    2:{ intros b' _ Hne. apply lastL_none. intros n' _. apply lastL_none. intros bx' _.
        destruct (_ <? _)%Z; [|reflexivity]. rewrite idx3_eqb.
        destruct (Z.eqb_spec b' b); [contradiction|reflexivity]. }
    rewrite (lastL_single (zrange 0 N 1) n); [|apply zrange_nodup|apply zrange0_in; exact Hn|].
    2:{ intros n' _ Hne. apply lastL_none. intros bx' _.
        destruct (_ <? _)%Z; [|reflexivity]. rewrite idx3_eqb.
        destruct (Z.eqb_spec n' n); [contradiction|]. rewrite andb_false_r. reflexivity. }
    rewrite (lastL_single (zrange 0 B 1) bx); [|apply zrange_nodup|apply zrange0_in; exact Hbx|].
    2:{ intros bx' _ Hne. destruct (_ <? _)%Z; [|reflexivity]. rewrite idx3_eqb.
        destruct (Z.eqb_spec bx' bx); [contradiction|]. rewrite !andb_false_r. reflexivity. }
    destruct (n * S + bx <? Nin)%Z; [|reflexivity].
    rewrite idx3_eqb, !Z.eqb_refl. reflexivity.
  Qed.

  (* the bounds test never fires for the advertised number of blocks *)
  Lemma a2b_in_bounds Nin B S n bx :
    (0 < S)%Z -> (0 <= n < (Nin - B + S) / S)%Z -> (0 <= bx < B)%Z -> (n * S + bx < Nin)%Z.
  Proof.
    intros HS Hn Hbx.
    assert (S * ((Nin - B + S) / S) <= Nin - B + S)%Z by (apply Z.mul_div_le; lia). nia.
  Qed.
End A.
