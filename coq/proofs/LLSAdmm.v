(* proofs/LLSAdmm.v — C14, the ADMM branch of LinearLeastSquares (model/LLS.v: [admm_*], [admmG_*]).
   One ADMM update is: x := the solution of the configured system (CG run on it), v := prox_{g/rho}(G x + u),
   u := u + G x - v.  A triple (x, v, u) is a FIXED POINT when x already solves the configured system
   for (v, u) (then CG starts with residual 0 and leaves x unchanged) and the v- and u-updates reproduce v, u.
   For every rho > 0:
     fixed point (x, v, u)  <=>  v = G x  and  (x, rho u) satisfies the KKT system of the documented objective
                            ==>  x minimises the documented objective;
   without G (G = identity) also the converse: every minimiser x gives the fixed point (x, x, -grad f(x) / rho). *)
From Coq Require Import Reals Lra Lia Psatz List Bool ZArith.
From SV Require Import model.ProxGrad proofs.ProxGrad model.LLS proofs.LLSBase.
Local Open Scope R_scope.

Lemma inv_inv_pos r : 0 < r -> 0 < 1 / r.
Proof. intro. unfold Rdiv. rewrite Rmult_1_l. apply Rinv_0_lt_compat. assumption. Qed.

Section AdmmWithG.
  Variables X Y W : IPS.
  Variables (A : X -> Y) (AH : Y -> X) (G : X -> W) (GH : W -> X).
  Hypothesis A_adj : forall x u, ip (A x) u = ip x (AH u).
  Hypothesis G_adj : forall x u, ip (G x) u = ip x (GH u).
  Variables (y : Y) (lam : R) (z : option X).
  Hypothesis lam_nonneg : 0 <= lam.
  Variables (dom : W -> Prop) (g : W -> R).
  Hypothesis g_convex : convex_on W dom g.
  Variable proxg : option (R -> W -> W).
  Hypothesis proxg_ok : proxg_spec W dom g proxg.
  Variable rho : R.
  Hypothesis rho_pos : 0 < rho.

  Notation XV := (IPSV X).
  Notation YV := (IPSV Y).
  Notation WV := (IPSV W).
  Notation zz := (zz_of z).
  Notation grad := (gradfsm X Y A AH y lam zz).
  Notation is_minG := (is_min X Y W A G y lam zz dom g).
  Notation kktG := (kkt X Y W A AH G GH y lam zz dom g).

  Definition admmG_fixed (x : X) (v u : W) : Prop :=
    admmG_op ROps XV YV WV A AH G GH lam rho x = admmG_rhs ROps XV YV WV AH GH y lam z rho v u /\
    admmG_v ROps XV WV G proxg rho x u = v /\
    admmG_u ROps XV WV G x v u = u.

  Lemma AH_minusG u u' : AH (vminus u u') = vminus (AH u) (AH u').
  Proof. apply (adj_minus Y X AH A). intros. apply (adj_sym X Y A AH A_adj). Qed.
  Lemma GH_minus u u' : GH (vminus u u') = vminus (GH u) (GH u').
  Proof. apply (adj_minus W X GH G). intros. apply (adj_sym X W G GH G_adj). Qed.
  Lemma GH_mul c u : GH (vmul c u) = vmul c (GH u).
  Proof. apply (adj_mul W X GH G). intros. apply (adj_sym X W G GH G_adj). Qed.

  Lemma admmG_u_fixed x v u : admmG_u ROps XV WV G x v u = u <-> v = G x.
  Proof.
    unfold admmG_u. cbn [vadd vscale vt IPSV sopp s1 ROps]. split; intro H.
    - apply ip_ext. intro t. apply (f_equal (fun q => ip q t)) in H. revert H. ip_norm. intro H. lra.
    - subst v. vec_eq.
  Qed.

  Lemma admmG_v_fixed x u : admmG_v ROps XV WV G proxg rho x u = G x <-> subgrad W dom g (G x) (vmul rho u).
  Proof.
    assert (E : admmG_v ROps XV WV G proxg rho x u = eff_prox W proxg (1 / rho) (vplus (G x) u)).
    { unfold admmG_v. destruct proxg; reflexivity. }
    rewrite E. rewrite (eff_prox_vi W dom g proxg proxg_ok _ _ (G x) (inv_inv_pos rho rho_pos)).
    match goal with |- subgrad _ _ _ _ ?a <-> subgrad _ _ _ _ ?b => assert (Ew : a = b) end.
    { apply ip_ext; intro t; ip_norm; field; lra. }
    rewrite Ew. reflexivity.
  Qed.

  Lemma admmG_system_residual x u :
    vminus (admmG_op ROps XV YV WV A AH G GH lam rho x) (admmG_rhs ROps XV YV WV AH GH y lam z rho (G x) u)
    = vplus (grad x) (GH (vmul rho u)).
  Proof.
    unfold admmG_op, admmG_rhs, gradfsm. cbn [vadd vsub vscale vt IPSV].
    rewrite AH_minusG, GH_minus, GH_mul.
    destruct (@sgt0 ROps lam) eqn:E.
    - destruct z as [q|]; cbn [zz_of]; vec_eq.
    - apply sgt0_R_false in E. assert (lam = 0) by lra. subst lam. destruct z as [q|]; cbn [zz_of]; vec_eq.
  Qed.

  Lemma admmG_fixed_iff_kkt_lemma x v u : admmG_fixed x v u <-> (v = G x /\ kktG x (vmul rho u)).
  Proof.
    unfold admmG_fixed, kkt. split.
    - intros (Hx & Hv & Hu). apply admmG_u_fixed in Hu. rewrite Hu in Hx, Hv. split; [exact Hu|]. split.
      + apply admmG_v_fixed. exact Hv.
      + rewrite <- admmG_system_residual. change (vt ROps XV) with (vec X) in *. rewrite Hx. apply vminus_self.
    - intros (-> & Hs & Hk). split; [|split].
      + rewrite <- admmG_system_residual in Hk. apply vminus_eq_0 in Hk. exact Hk.
      + apply admmG_v_fixed. exact Hs.
      + apply admmG_u_fixed. reflexivity.
  Qed.

  Lemma admmG_fixed_min_lemma x v u : admmG_fixed x v u -> v = G x /\ is_minG x.
  Proof.
    intro H. apply admmG_fixed_iff_kkt_lemma in H. destruct H as [Hv Hk]. split; [exact Hv|].
    exact (kkt_min X Y W A AH G GH A_adj G_adj y lam zz lam_nonneg dom g _ _ Hk).
  Qed.

  (* a minimiser that admits a KKT multiplier w gives the fixed point (x, G x, w / rho) *)
  Lemma admmG_kkt_fixed_lemma x w : kktG x w -> admmG_fixed x (G x) (vmul (/ rho) w).
  Proof.
    intro Hk. apply admmG_fixed_iff_kkt_lemma. split; [reflexivity|].
    replace (vmul rho (vmul (/ rho) w)) with w; [exact Hk|]. apply ip_ext; intro t; ip_norm; field; lra.
  Qed.
End AdmmWithG.

Section AdmmNoG.
  Variables X Y : IPS.
  Variables (A : X -> Y) (AH : Y -> X).
  Hypothesis A_adj : forall x u, ip (A x) u = ip x (AH u).
  Variables (y : Y) (lam : R) (z : option X).
  Hypothesis lam_nonneg : 0 <= lam.
  Variables (dom : X -> Prop) (g : X -> R).
  Hypothesis g_convex : convex_on X dom g.
  Variable proxg : option (R -> X -> X).
  Hypothesis proxg_ok : proxg_spec X dom g proxg.
  Variable rho : R.
  Hypothesis rho_pos : 0 < rho.

  Notation XV := (IPSV X).
  Notation YV := (IPSV Y).
  Notation zz := (zz_of z).
  Notation grad := (gradfsm X Y A AH y lam zz).
  Notation is_min0 := (is_min X Y X A (idX X) y lam zz dom g).

  Definition admm_fixed (x v u : X) : Prop :=
    admm_op ROps XV YV A AH lam rho x = admm_rhs ROps XV YV AH y lam z rho v u /\
    admm_v ROps XV proxg rho x u = v /\
    admm_u ROps XV x v u = u.

  (* the G-is-None configuration is the G-given configuration at G = identity *)
  Lemma admm_noG_is_G_id x v u :
    admm_fixed x v u <-> admmG_fixed X Y X A AH (idX X) (idX X) y lam z proxg rho x v u.
  Proof.
    unfold admm_fixed, admmG_fixed.
    assert (E1 : vminus (admm_op ROps XV YV A AH lam rho x) (admm_rhs ROps XV YV AH y lam z rho v u) =
                 vminus (admmG_op ROps XV YV XV A AH (idX X) (idX X) lam rho x)
                        (admmG_rhs ROps XV YV XV AH (idX X) y lam z rho v u)).
    { unfold admm_op, admm_rhs, admmG_op, admmG_rhs, AHA, idX. cbn [vadd vsub vscale vt IPSV sadd ROps].
      destruct (@sgt0 ROps lam) eqn:E.
      - destruct z as [q|]; vec_eq.
      - apply sgt0_R_false in E. assert (lam = 0) by lra. subst lam. destruct z as [q|]; vec_eq. }
    assert (E2 : admm_v ROps XV proxg rho x u = admmG_v ROps XV XV (idX X) proxg rho x u) by reflexivity.
    assert (E3 : admm_u ROps XV x v u = admmG_u ROps XV XV (idX X) x v u) by reflexivity.
    rewrite E2, E3. change (vt ROps XV) with (vec X) in *.
    rewrite (eq_iff_vminus_0 X (admm_op ROps XV YV A AH lam rho x)), E1, <- (eq_iff_vminus_0 X). reflexivity.
  Qed.

  Lemma admm_fixed_iff_min_lemma x v u :
    admm_fixed x v u <-> (v = x /\ is_min0 x /\ vmul rho u = vmul (-1) (grad x)).
  Proof.
    rewrite admm_noG_is_G_id.
    rewrite (admmG_fixed_iff_kkt_lemma X Y X A AH (idX X) (idX X) A_adj (idX_adj X) y lam z lam_nonneg dom g proxg proxg_ok rho rho_pos).
    rewrite (min_iff_subgrad X Y A AH A_adj y lam zz lam_nonneg dom g g_convex x).
    unfold kkt, idX. split.
    - intros (-> & Hs & Hk).
      assert (E : vmul rho u = vmul (-1) (grad x)).
      { apply ip_ext. intro t. apply (f_equal (fun q => ip q t)) in Hk. revert Hk. ip_norm. intro Hk. lra. }
      rewrite <- E. auto.
    - intros (-> & Hs & E). rewrite E. split; [reflexivity|]. split; [exact Hs|]. vec_eq.
  Qed.

  (* existence: every minimiser is the x-part of a fixed point *)
  Lemma admm_min_fixed_lemma x : is_min0 x -> admm_fixed x x (vmul (/ rho) (vmul (-1) (grad x))).
  Proof.
    intro Hm. apply admm_fixed_iff_min_lemma. split; [reflexivity|]. split; [exact Hm|].
    apply ip_ext; intro t; ip_norm; field; lra.
  Qed.
End AdmmNoG.
