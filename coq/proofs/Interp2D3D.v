(* proofs/Interp2D3D.v — the 2-D and 3-D interpolation / gridding kernels, as GENERATED from
   sigpy/interp.py, compute the documented separable kernel sums
       out[b,i] += sum_{y in win_y(i)} sum_{x in win_x(i)} wt(wy * wx) * in[b, y mod ny, x mod nx]
   (the weight is multiplied outermost axis first, exactly as the code does: no commutativity of
   [cmul] is assumed), gridding accumulates the same weights onto the wrapped grid position, and the
   two are exact adjoints.  Axes are named by their (negative) Python offset: -1 = x, -2 = y, -3 = z. *)
From Coq Require Import ZArith List Lia Bool Ring.
From SV Require Import lib.Scalar lib.BigSum lib.LoopIR lib.NdArray lib.Coord gen.Gen_interp
  proofs.SumTools proofs.Block proofs.Interp proofs.Block2D3D.
Import ListNotations.
Local Open Scope Z_scope.

Section I.
  Variable R : StarRing.
  Add Ring RringI3 : (SRth R).
  Variable C : COps.
  Variable kern : C -> C -> C.
  Variable wt : C -> R.
  Local Open Scope sr_scope.

  Variables (input : list Z -> R) (coord width param : list Z -> C).
  Variables (cs ish osh ps ws : list Z).

  (* quantities the kernels derive for point i along axis d (d = -1, -2, -3) *)
  Definition kax (d i : Z) : C := coord [i; (shape_at cs 1 + d)%Z].
  Definition Wax (d : Z) : C := width [(shape_at ws 0 + d)%Z].
  Definition Pax (d : Z) : C := param [(shape_at ps 0 + d)%Z].
  Definition lo (d i : Z) : Z := cceil (csub (kax d i) (cdiv (Wax d) (cofZ 2))).
  Definition hi (d i : Z) : Z := cfloor (cadd (kax d i) (cdiv (Wax d) (cofZ 2))).
  Definition win (d i : Z) : list Z := zrange (lo d i) (hi d i + 1) 1.
  Definition kw (d i t : Z) : C := kern (cdiv (csub (cofZ t) (kax d i)) (cdiv (Wax d) (cofZ 2))) (Pax d).
  (* the products of per-axis weights, in the order the code multiplies them *)
  Definition w2 (i y x : Z) : R := wt (cmul (kw (-2) i y) (kw (-1) i x)).
  Definition w3 (i z y x : Z) : R := wt (cmul (cmul (kw (-3) i z) (kw (-2) i y)) (kw (-1) i x)).

  (* axis -1 is the 1-D development's axis *)
  Lemma win_x_is_1d i : win (-1) i = zrange (x0 C coord width cs ws i) (x1 C coord width cs ws i + 1) 1.
  Proof. reflexivity. Qed.
  Lemma kw_x_is_1d i t : wt (kw (-1) i t) = wgt R C kern wt coord width param cs ps ws i t.
  Proof. reflexivity. Qed.

  (* ------------------------------ 2-D -------------------------------------- *)
  Theorem interp2_contrib b i :
    (0 <= b < shape_at ish 0)%Z -> (0 <= i < shape_at cs 0)%Z ->
    contrib (k_interpolate2 R C kern wt input coord width param cs ish osh ps ws) [] [b; i] =
    sumL (win (-2) i) (fun y => sumL (win (-1) i) (fun x =>
      w2 i y x * input [b; (y mod shape_at ish 1)%Z; (x mod shape_at ish 2)%Z])).
  Proof.
    intros Hb Hi. unfold k_interpolate2. cbn [contrib var nth].
    collapse (shape_at cs 0) i Hi.
    apply sumL_ext. intros y _. apply sumL_ext. intros x _.
    collapse (shape_at ish 0) b Hb.
    rewrite idx_eqb_refl. reflexivity.
  Qed.

  Theorem interp2_exec out b i :
    (0 <= b < shape_at ish 0)%Z -> (0 <= i < shape_at cs 0)%Z ->
    exec (k_interpolate2 R C kern wt input coord width param cs ish osh ps ws) [] out [b; i] =
    out [b; i] + sumL (win (-2) i) (fun y => sumL (win (-1) i) (fun x =>
      w2 i y x * input [b; (y mod shape_at ish 1)%Z; (x mod shape_at ish 2)%Z])).
  Proof. intros. rewrite exec_is_sum by reflexivity. f_equal. apply interp2_contrib; assumption. Qed.

  Theorem gridding2_contrib b my mx :
    (0 <= b < shape_at osh 0)%Z ->
    contrib (k_gridding2 R C kern wt input coord width param cs ish osh ps ws) [] [b; my; mx] =
    sumL (zrange 0 (shape_at cs 0) 1) (fun i => sumL (win (-2) i) (fun y => sumL (win (-1) i) (fun x =>
      if (y mod shape_at osh 1 =? my)%Z && (x mod shape_at osh 2 =? mx)%Z then w2 i y x * input [b; i] else 0))).
  Proof.
    intros Hb. unfold k_gridding2. cbn [contrib var nth].
    apply sumL_ext. intros i _. apply sumL_ext. intros y _. apply sumL_ext. intros x _.
    collapse (shape_at osh 0) b Hb.
    rewrite idx3_eqb, Z.eqb_refl. reflexivity.
  Qed.

  Theorem gridding2_exec out b my mx :
    (0 <= b < shape_at osh 0)%Z ->
    exec (k_gridding2 R C kern wt input coord width param cs ish osh ps ws) [] out [b; my; mx] =
    out [b; my; mx] +
    sumL (zrange 0 (shape_at cs 0) 1) (fun i => sumL (win (-2) i) (fun y => sumL (win (-1) i) (fun x =>
      if (y mod shape_at osh 1 =? my)%Z && (x mod shape_at osh 2 =? mx)%Z then w2 i y x * input [b; i] else 0))).
  Proof. intros. rewrite exec_is_sum by reflexivity. f_equal. apply gridding2_contrib; assumption. Qed.

  (* ------------------------------ 3-D -------------------------------------- *)
  Theorem interp3_contrib b i :
    (0 <= b < shape_at ish 0)%Z -> (0 <= i < shape_at cs 0)%Z ->
    contrib (k_interpolate3 R C kern wt input coord width param cs ish osh ps ws) [] [b; i] =
    sumL (win (-3) i) (fun z => sumL (win (-2) i) (fun y => sumL (win (-1) i) (fun x =>
      w3 i z y x * input [b; (z mod shape_at ish 1)%Z; (y mod shape_at ish 2)%Z; (x mod shape_at ish 3)%Z]))).
  Proof.
    intros Hb Hi. unfold k_interpolate3. cbn [contrib var nth].
    collapse (shape_at cs 0) i Hi.
    apply sumL_ext. intros z _. apply sumL_ext. intros y _. apply sumL_ext. intros x _.
    collapse (shape_at ish 0) b Hb.
    rewrite idx_eqb_refl. reflexivity.
  Qed.

  Theorem interp3_exec out b i :
    (0 <= b < shape_at ish 0)%Z -> (0 <= i < shape_at cs 0)%Z ->
    exec (k_interpolate3 R C kern wt input coord width param cs ish osh ps ws) [] out [b; i] =
    out [b; i] + sumL (win (-3) i) (fun z => sumL (win (-2) i) (fun y => sumL (win (-1) i) (fun x =>
      w3 i z y x * input [b; (z mod shape_at ish 1)%Z; (y mod shape_at ish 2)%Z; (x mod shape_at ish 3)%Z]))).
  Proof. intros. rewrite exec_is_sum by reflexivity. f_equal. apply interp3_contrib; assumption. Qed.

  Theorem gridding3_contrib b mz my mx :
    (0 <= b < shape_at osh 0)%Z ->
    contrib (k_gridding3 R C kern wt input coord width param cs ish osh ps ws) [] [b; mz; my; mx] =
    sumL (zrange 0 (shape_at cs 0) 1) (fun i =>
      sumL (win (-3) i) (fun z => sumL (win (-2) i) (fun y => sumL (win (-1) i) (fun x =>
        if (z mod shape_at osh 1 =? mz)%Z && (y mod shape_at osh 2 =? my)%Z && (x mod shape_at osh 3 =? mx)%Z
        then w3 i z y x * input [b; i] else 0)))).
  Proof.
    intros Hb. unfold k_gridding3. cbn [contrib var nth].
    apply sumL_ext. intros i _. apply sumL_ext. intros z _. apply sumL_ext. intros y _. apply sumL_ext. intros x _.
    collapse (shape_at osh 0) b Hb.
    rewrite idx4_eqb, Z.eqb_refl. cbn [andb]. rewrite andb_assoc. reflexivity.
  Qed.

  Theorem gridding3_exec out b mz my mx :
    (0 <= b < shape_at osh 0)%Z ->
    exec (k_gridding3 R C kern wt input coord width param cs ish osh ps ws) [] out [b; mz; my; mx] =
    out [b; mz; my; mx] +
    sumL (zrange 0 (shape_at cs 0) 1) (fun i =>
      sumL (win (-3) i) (fun z => sumL (win (-2) i) (fun y => sumL (win (-1) i) (fun x =>
        if (z mod shape_at osh 1 =? mz)%Z && (y mod shape_at osh 2 =? my)%Z && (x mod shape_at osh 3 =? mx)%Z
        then w3 i z y x * input [b; i] else 0)))).
  Proof. intros. rewrite exec_is_sum by reflexivity. f_equal. apply gridding3_contrib; assumption. Qed.

  (* frames: interpolation only writes [b; i] with b, i in range; gridding only writes batch rows in range *)
  Theorem interp2_frame out o :
    (forall b i, (0 <= b < shape_at ish 0)%Z -> (0 <= i < shape_at cs 0)%Z -> o <> [b; i]) ->
    exec (k_interpolate2 R C kern wt input coord width param cs ish osh ps ws) [] out o = out o.
  Proof.
    intros Hout. rewrite exec_is_sum by reflexivity. unfold k_interpolate2. cbn [contrib var nth].
    rewrite sumL_none; [ring|]. intros i Hi. apply sumL_none. intros y _. apply sumL_none. intros x _.
    apply sumL_none. intros b Hb. apply zrange0_in in Hi. apply zrange0_in in Hb.
    specialize (Hout b i Hb Hi). kill0.
  Qed.

  Theorem interp3_frame out o :
    (forall b i, (0 <= b < shape_at ish 0)%Z -> (0 <= i < shape_at cs 0)%Z -> o <> [b; i]) ->
    exec (k_interpolate3 R C kern wt input coord width param cs ish osh ps ws) [] out o = out o.
  Proof.
    intros Hout. rewrite exec_is_sum by reflexivity. unfold k_interpolate3. cbn [contrib var nth].
    rewrite sumL_none; [ring|]. intros i Hi. apply sumL_none. intros z _. apply sumL_none. intros y _.
    apply sumL_none. intros x _.
    apply sumL_none. intros b Hb. apply zrange0_in in Hi. apply zrange0_in in Hb.
    specialize (Hout b i Hb Hi). kill0.
  Qed.

  (* per axis, the loop bounds ceil(k - W/2) .. floor(k + W/2) select exactly the integers within half a
     width of k (ties included), for any ordering for which ceil / floor are the usual Galois adjoints *)
  Variable cle : C -> C -> Prop.
  Hypothesis ceil_spec : forall (t : C) (z : Z), (cceil t <= z)%Z <-> cle t (cofZ z).
  Hypothesis floor_spec : forall (t : C) (z : Z), (z <= cfloor t)%Z <-> cle (cofZ z) t.

  Theorem window_axis_is_half_width d i t :
    In t (win d i) <->
    cle (csub (kax d i) (cdiv (Wax d) (cofZ 2))) (cofZ t) /\ cle (cofZ t) (cadd (kax d i) (cdiv (Wax d) (cofZ 2))).
  Proof.
    unfold win. rewrite zrange_in by lia. rewrite Z.mod_1_r. unfold lo, hi.
    rewrite <- ceil_spec, <- floor_spec. lia.
  Qed.
End I.

(* ---- sum-exchange helpers (any StarRing) ---- *)
Section Exch.
  Variable R : StarRing.
  Add Ring RringI4 : (SRth R).
  Local Open Scope sr_scope.

  Lemma sumZ2_sumL_exchange n m l (f : Z -> Z -> Z -> R) :
    sumZ n (fun a => sumZ m (fun c => sumL l (fun v => f a c v))) =
    sumL l (fun v => sumZ n (fun a => sumZ m (fun c => f a c v))).
  Proof.
    rewrite <- sumZ_sumL_exchange. apply sumZ_ext. intros a _. apply sumZ_sumL_exchange.
  Qed.

  Lemma sumZ3_sumL_exchange n m k l (f : Z -> Z -> Z -> Z -> R) :
    sumZ n (fun a => sumZ m (fun c => sumZ k (fun d => sumL l (fun v => f a c d v)))) =
    sumL l (fun v => sumZ n (fun a => sumZ m (fun c => sumZ k (fun d => f a c d v)))).
  Proof.
    rewrite <- sumZ_sumL_exchange. apply sumZ_ext. intros a _. apply sumZ2_sumL_exchange.
  Qed.

  (* a sum over grid positions of a term supported on the wrapped position t mod n *)
  Lemma sumZ_pick n t (h : Z -> R) : (0 < n)%Z ->
    sumZ n (fun m => if (t mod n =? m)%Z then h m else 0) = h (t mod n)%Z.
  Proof.
    intros Hn. rewrite (sumZ_ext R n _ (fun m => if (m =? t mod n)%Z then h m else 0)).
    - apply sumZ_single. apply Z.mod_pos_bound. exact Hn.
    - intros m _. rewrite (Z.eqb_sym m). reflexivity.
  Qed.

  Lemma sumZ_pick2 n1 n2 t1 t2 (h : Z -> Z -> R) : (0 < n1)%Z -> (0 < n2)%Z ->
    sumZ n1 (fun m1 => sumZ n2 (fun m2 => if (t1 mod n1 =? m1)%Z && (t2 mod n2 =? m2)%Z then h m1 m2 else 0)) =
    h (t1 mod n1)%Z (t2 mod n2)%Z.
  Proof.
    intros H1 H2.
    rewrite (sumZ_ext R n1 _ (fun m1 => if (t1 mod n1 =? m1)%Z then h m1 (t2 mod n2)%Z else 0)).
    - apply (sumZ_pick n1 t1 (fun m1 => h m1 (t2 mod n2)%Z)). exact H1.
    - intros m1 _. destruct (t1 mod n1 =? m1)%Z; cbn [andb]; [apply sumZ_pick; exact H2 | apply sumZ_zero].
  Qed.

  Lemma sumZ_pick3 n1 n2 n3 t1 t2 t3 (h : Z -> Z -> Z -> R) : (0 < n1)%Z -> (0 < n2)%Z -> (0 < n3)%Z ->
    sumZ n1 (fun m1 => sumZ n2 (fun m2 => sumZ n3 (fun m3 =>
      if (t1 mod n1 =? m1)%Z && (t2 mod n2 =? m2)%Z && (t3 mod n3 =? m3)%Z then h m1 m2 m3 else 0))) =
    h (t1 mod n1)%Z (t2 mod n2)%Z (t3 mod n3)%Z.
  Proof.
    intros H1 H2 H3.
    rewrite (sumZ_ext R n1 _ (fun m1 => if (t1 mod n1 =? m1)%Z then h m1 (t2 mod n2)%Z (t3 mod n3)%Z else 0)).
    - apply (sumZ_pick n1 t1 (fun m1 => h m1 (t2 mod n2)%Z (t3 mod n3)%Z)). exact H1.
    - intros m1 _. destruct (t1 mod n1 =? m1)%Z; cbn [andb].
      + apply sumZ_pick2; assumption.
      + apply sumZ_none. intros m2 _. apply sumZ_zero.
  Qed.
End Exch.

(* interpolate and gridding with the SAME coordinates / widths / kernel / parameters are exact adjoints *)
Section Adj.
  Variable R : StarRing.
  Add Ring RringI5 : (SRth R).
  Variable C : COps.
  Variable kern : C -> C -> C.
  Variable wt : C -> R.
  Hypothesis wt_real : forall w, conj (wt w) = wt w.
  Local Open Scope sr_scope.
  Variables (coord width param : list Z -> C) (cs ps ws : list Z).
  Variables (batch nz ny nx npts : Z).
  Hypothesis Hnx : (0 < nx)%Z.
  Hypothesis Hny : (0 < ny)%Z.
  Hypothesis Hnz : (0 < nz)%Z.

  Notation Win := (win C coord width cs ws).
  Notation W2 := (w2 R C kern wt coord width param cs ps ws).
  Notation W3 := (w3 R C kern wt coord width param cs ps ws).

  Definition interp2_op (x : list Z -> R) : list Z -> R :=
    fun o => match o with
             | [b; i] => sumL (Win (-2) i) (fun ty => sumL (Win (-1) i) (fun tx =>
                           W2 i ty tx * x [b; (ty mod ny)%Z; (tx mod nx)%Z]))
             | _ => 0 end.
  Definition grid2_op (y : list Z -> R) : list Z -> R :=
    fun o => match o with
             | [b; my; mx] => sumL (zrange 0 npts 1) (fun i => sumL (Win (-2) i) (fun ty => sumL (Win (-1) i) (fun tx =>
                           if (ty mod ny =? my)%Z && (tx mod nx =? mx)%Z then W2 i ty tx * y [b; i] else 0)))
             | _ => 0 end.

  Theorem interp2_gridding2_adjoint (x y : list Z -> R) :
    inner [batch; npts] (interp2_op x) y = inner [batch; ny; nx] x (grid2_op y).
  Proof.
    unfold inner. cbn [sumB]. apply sumZ_ext. intros b Hb.
    transitivity (sumL (zrange 0 npts 1) (fun i => sumL (Win (-2) i) (fun ty => sumL (Win (-1) i) (fun tx =>
                    W2 i ty tx * x [b; (ty mod ny)%Z; (tx mod nx)%Z] * conj (y [b; i]))))).
    { rewrite sumL_range0. apply sumZ_ext. intros i _. cbn [interp2_op].
      rewrite sumL_scale_r. apply sumL_ext. intros ty _. apply sumL_scale_r. }
    transitivity (sumZ ny (fun my => sumZ nx (fun mx =>
                    sumL (zrange 0 npts 1) (fun i => sumL (Win (-2) i) (fun ty => sumL (Win (-1) i) (fun tx =>
                      if (ty mod ny =? my)%Z && (tx mod nx =? mx)%Z
                      then W2 i ty tx * x [b; my; mx] * conj (y [b; i]) else 0)))))).
    2:{ apply sumZ_ext. intros my _. apply sumZ_ext. intros mx _. cbn [grid2_op].
        rewrite sumL_conj, sumL_scale_l. apply sumL_ext. intros i _.
        rewrite sumL_conj, sumL_scale_l. apply sumL_ext. intros ty _.
        rewrite sumL_conj, sumL_scale_l. apply sumL_ext. intros tx _.
        destruct (_ && _).
        - rewrite !conj_mul. unfold w2. rewrite wt_real. ring.
        - rewrite conj_zero. ring. }
    rewrite sumZ2_sumL_exchange. apply sumL_ext. intros i _.
    rewrite sumZ2_sumL_exchange. apply sumL_ext. intros ty _.
    rewrite sumZ2_sumL_exchange. apply sumL_ext. intros tx _.
    symmetry. apply (sumZ_pick2 R ny nx ty tx (fun my mx => W2 i ty tx * x [b; my; mx] * conj (y [b; i]))); assumption.
  Qed.

  Definition interp3_op (x : list Z -> R) : list Z -> R :=
    fun o => match o with
             | [b; i] => sumL (Win (-3) i) (fun tz => sumL (Win (-2) i) (fun ty => sumL (Win (-1) i) (fun tx =>
                           W3 i tz ty tx * x [b; (tz mod nz)%Z; (ty mod ny)%Z; (tx mod nx)%Z])))
             | _ => 0 end.
  Definition grid3_op (y : list Z -> R) : list Z -> R :=
    fun o => match o with
             | [b; mz; my; mx] =>
                 sumL (zrange 0 npts 1) (fun i =>
                   sumL (Win (-3) i) (fun tz => sumL (Win (-2) i) (fun ty => sumL (Win (-1) i) (fun tx =>
                     if (tz mod nz =? mz)%Z && (ty mod ny =? my)%Z && (tx mod nx =? mx)%Z
                     then W3 i tz ty tx * y [b; i] else 0))))
             | _ => 0 end.

  Theorem interp3_gridding3_adjoint (x y : list Z -> R) :
    inner [batch; npts] (interp3_op x) y = inner [batch; nz; ny; nx] x (grid3_op y).
  Proof.
    unfold inner. cbn [sumB]. apply sumZ_ext. intros b Hb.
    transitivity (sumL (zrange 0 npts 1) (fun i =>
                    sumL (Win (-3) i) (fun tz => sumL (Win (-2) i) (fun ty => sumL (Win (-1) i) (fun tx =>
                      W3 i tz ty tx * x [b; (tz mod nz)%Z; (ty mod ny)%Z; (tx mod nx)%Z] * conj (y [b; i])))))).
    { rewrite sumL_range0. apply sumZ_ext. intros i _. cbn [interp3_op].
      rewrite sumL_scale_r. apply sumL_ext. intros tz _.
      rewrite sumL_scale_r. apply sumL_ext. intros ty _. apply sumL_scale_r. }
    transitivity (sumZ nz (fun mz => sumZ ny (fun my => sumZ nx (fun mx =>
                    sumL (zrange 0 npts 1) (fun i =>
                      sumL (Win (-3) i) (fun tz => sumL (Win (-2) i) (fun ty => sumL (Win (-1) i) (fun tx =>
                        if (tz mod nz =? mz)%Z && (ty mod ny =? my)%Z && (tx mod nx =? mx)%Z
                        then W3 i tz ty tx * x [b; mz; my; mx] * conj (y [b; i]) else 0)))))))).
    2:{ apply sumZ_ext. intros mz _. apply sumZ_ext. intros my _. apply sumZ_ext. intros mx _. cbn [grid3_op].
        rewrite sumL_conj, sumL_scale_l. apply sumL_ext. intros i _.
        rewrite sumL_conj, sumL_scale_l. apply sumL_ext. intros tz _.
        rewrite sumL_conj, sumL_scale_l. apply sumL_ext. intros ty _.
        rewrite sumL_conj, sumL_scale_l. apply sumL_ext. intros tx _.
        destruct (_ && _).
        - rewrite !conj_mul. unfold w3. rewrite wt_real. ring.
        - rewrite conj_zero. ring. }
    rewrite sumZ3_sumL_exchange. apply sumL_ext. intros i _.
    rewrite sumZ3_sumL_exchange. apply sumL_ext. intros tz _.
    rewrite sumZ3_sumL_exchange. apply sumL_ext. intros ty _.
    rewrite sumZ3_sumL_exchange. apply sumL_ext. intros tx _.
    symmetry.
    apply (sumZ_pick3 R nz ny nx tz ty tx (fun mz my mx => W3 i tz ty tx * x [b; mz; my; mx] * conj (y [b; i])));
      assumption.
  Qed.
End Adj.

(* the same adjointness, stated directly on the GENERATED kernels run from a zero output buffer:
   <interpolate(x), y> = <x, gridding(y)> for a grid of shape gsh = [batch; ny; nx] (resp. [batch; nz; ny; nx]) *)
Section KAdj.
  Variable R : StarRing.
  Add Ring RringI6 : (SRth R).
  Variable C : COps.
  Variable kern : C -> C -> C.
  Variable wt : C -> R.
  Hypothesis wt_real : forall w, conj (wt w) = wt w.
  Local Open Scope sr_scope.
  Variables (coord width param : list Z -> C) (cs ps ws gsh psh : list Z).
  Variables (batch nz ny nx npts : Z).
  Hypothesis Hnp : shape_at cs 0 = npts.
  Hypothesis Hb : shape_at gsh 0 = batch.

  Theorem k_interp2_gridding2_adjoint (x y : list Z -> R) :
    shape_at gsh 1 = ny -> shape_at gsh 2 = nx -> (0 < ny)%Z -> (0 < nx)%Z ->
    inner [batch; npts] (exec (k_interpolate2 R C kern wt x coord width param cs gsh psh ps ws) [] (fun _ => 0)) y =
    inner [batch; ny; nx] x (exec (k_gridding2 R C kern wt y coord width param cs psh gsh ps ws) [] (fun _ => 0)).
  Proof.
    intros Hy Hx Hny Hnx.
    transitivity (inner [batch; npts] (interp2_op R C kern wt coord width param cs ps ws ny nx x) y).
    { unfold inner. apply sumB_ext. intros [|b [|i [|? ?]]] Hin; simpl in Hin; try tauto.
      rewrite interp2_exec by (rewrite ?Hb, ?Hnp; tauto). rewrite Hy, Hx. cbn [interp2_op]. f_equal. ring. }
    rewrite (interp2_gridding2_adjoint R C kern wt wt_real coord width param cs ps ws batch ny nx npts Hnx Hny).
    unfold inner. apply sumB_ext. intros [|b [|my [|mx [|? ?]]]] Hin; simpl in Hin; try tauto.
    rewrite gridding2_exec by (rewrite ?Hb; tauto). rewrite Hnp, Hy, Hx. cbn [grid2_op]. f_equal. f_equal. ring.
  Qed.

  Theorem k_interp3_gridding3_adjoint (x y : list Z -> R) :
    shape_at gsh 1 = nz -> shape_at gsh 2 = ny -> shape_at gsh 3 = nx -> (0 < nz)%Z -> (0 < ny)%Z -> (0 < nx)%Z ->
    inner [batch; npts] (exec (k_interpolate3 R C kern wt x coord width param cs gsh psh ps ws) [] (fun _ => 0)) y =
    inner [batch; nz; ny; nx] x (exec (k_gridding3 R C kern wt y coord width param cs psh gsh ps ws) [] (fun _ => 0)).
  Proof.
    intros Hz Hy Hx Hnz Hny Hnx.
    transitivity (inner [batch; npts] (interp3_op R C kern wt coord width param cs ps ws nz ny nx x) y).
    { unfold inner. apply sumB_ext. intros [|b [|i [|? ?]]] Hin; simpl in Hin; try tauto.
      rewrite interp3_exec by (rewrite ?Hb, ?Hnp; tauto). rewrite Hz, Hy, Hx. cbn [interp3_op]. f_equal. ring. }
    rewrite (interp3_gridding3_adjoint R C kern wt wt_real coord width param cs ps ws batch nz ny nx npts Hnx Hny Hnz).
    unfold inner. apply sumB_ext. intros [|b [|mz [|my [|mx [|? ?]]]]] Hin; simpl in Hin; try tauto.
    rewrite gridding3_exec by (rewrite ?Hb; tauto). rewrite Hnp, Hz, Hy, Hx. cbn [grid3_op]. f_equal. f_equal. ring.
  Qed.
End KAdj.

(* ---- non-vacuity: an exact integer instance (coordinates, weights and data in Z) ---- *)
Section Examples.
  Let ZC : COps := mkCOps Z Z.add Z.sub Z.mul Z.div (fun z => z) (fun z => z) (fun z => z) Z.abs Z.leb Z.ltb Z.eqb.
  Let kernZ (t p : Z) : Z := (3 - Z.abs t + p)%Z.
  Let wtZ (z : Z) : Z := z.
  Let coordZ : list Z -> Z := of_list 0%Z [2; 2] [1; 2; 0; 1].      (* two points (ky, kx) = (1, 2), (0, 1) *)
  Let widthZ : list Z -> Z := of_list 0%Z [2] [2; 4].               (* Wy = 2, Wx = 4: the x window (5 wide) wraps a grid of 3 *)
  Let paramZ : list Z -> Z := of_list 0%Z [2] [0; 1].
  Let grid : list Z -> Z := of_list 0%Z [1; 3; 3] [1; 2; 3; 4; 5; 6; 7; 8; 9].
  Let pts : list Z -> Z := of_list 0%Z [1; 2] [5; 7].

  Example interp2_example :
    tabulate [1; 2] (exec (k_interpolate2 ZOps ZC kernZ wtZ grid coordZ widthZ paramZ [2; 2] [1; 3; 3] [1; 2] [2] [2]) []
                          (fun _ => 0%Z)) = [574; 551]%Z.
  Proof. vm_compute. reflexivity. Qed.

  Example gridding2_example :
    tabulate [1; 3; 3] (exec (k_gridding2 ZOps ZC kernZ wtZ pts coordZ widthZ paramZ [2; 2] [1; 2] [1; 3; 3] [2] [2]) []
                             (fun _ => 0%Z)) = [196; 144; 187; 189; 146; 158; 154; 116; 138]%Z.
  Proof. vm_compute. reflexivity. Qed.

  (* the closed form at point 0: windows y in 0..2, x in 0..4 (wrapping) *)
  Example interp2_exec_instance :
    exec (k_interpolate2 ZRing ZC kernZ wtZ grid coordZ widthZ paramZ [2; 2] [1; 3; 3] [1; 2] [2] [2]) [] (fun _ => 0%Z) [0; 0]%Z =
    sumL (R:=ZRing) (zrange 0 3 1) (fun y => sumL (R:=ZRing) (zrange 0 5 1) (fun x =>
      (w2 ZRing ZC kernZ wtZ coordZ widthZ paramZ [2; 2] [2] [2] 0 y x * grid [0; y mod 3; x mod 3])%Z)).
  Proof.
    rewrite (interp2_exec ZRing ZC kernZ wtZ grid coordZ widthZ paramZ [2; 2] [1; 3; 3] [1; 2] [2] [2])
      by (vm_compute; split; discriminate || reflexivity).
    reflexivity.
  Qed.

  (* the adjoint theorem applies (wtZ is real since conj is the identity on Z), and both sides are 6727 *)
  Example adjoint2_instance :
    inner (R:=ZRing) [1; 2]
      (exec (k_interpolate2 ZRing ZC kernZ wtZ grid coordZ widthZ paramZ [2; 2] [1; 3; 3] [1; 2] [2] [2]) [] (fun _ => 0%Z)) pts =
    inner (R:=ZRing) [1; 3; 3] grid
      (exec (k_gridding2 ZRing ZC kernZ wtZ pts coordZ widthZ paramZ [2; 2] [1; 2] [1; 3; 3] [2] [2]) [] (fun _ => 0%Z)).
  Proof.
    apply (k_interp2_gridding2_adjoint ZRing ZC kernZ wtZ (fun _ => eq_refl) coordZ widthZ paramZ [2; 2] [2] [2]
             [1; 3; 3] [1; 2] 1 3 3 2); reflexivity.
  Qed.

  Example adjoint2_value :
    inner (R:=ZRing) [1; 2]
      (exec (k_interpolate2 ZRing ZC kernZ wtZ grid coordZ widthZ paramZ [2; 2] [1; 3; 3] [1; 2] [2] [2]) [] (fun _ => 0%Z)) pts
    = 6727%Z.
  Proof. vm_compute. reflexivity. Qed.

  (* 3-D: one point at (kz, ky, kx) = (0, 1, 1) on a 2 x 2 x 2 grid, all windows 3 wide (so every axis wraps) *)
  Let coord3 : list Z -> Z := of_list 0%Z [1; 3] [0; 1; 1].
  Let width3 : list Z -> Z := of_list 0%Z [3] [2; 2; 2].
  Let param3 : list Z -> Z := of_list 0%Z [3] [0; 1; 2].
  Let grid3 : list Z -> Z := of_list 0%Z [1; 2; 2; 2] [1; 2; 3; 4; 5; 6; 7; 8].
  Let pts3 : list Z -> Z := of_list 0%Z [1; 1] [3].

  Example adjoint3_instance :
    inner (R:=ZRing) [1; 1]
      (exec (k_interpolate3 ZRing ZC kernZ wtZ grid3 coord3 width3 param3 [1; 3] [1; 2; 2; 2] [1; 1] [3] [3]) [] (fun _ => 0%Z)) pts3 =
    inner (R:=ZRing) [1; 2; 2; 2] grid3
      (exec (k_gridding3 ZRing ZC kernZ wtZ pts3 coord3 width3 param3 [1; 3] [1; 1] [1; 2; 2; 2] [3] [3]) [] (fun _ => 0%Z)).
  Proof.
    apply (k_interp3_gridding3_adjoint ZRing ZC kernZ wtZ (fun _ => eq_refl) coord3 width3 param3 [1; 3] [3] [3]
             [1; 2; 2; 2] [1; 1] 1 2 2 2 1); reflexivity.
  Qed.

  Example interp3_example :
    exec (k_interpolate3 ZOps ZC kernZ wtZ grid3 coord3 width3 param3 [1; 3] [1; 2; 2; 2] [1; 1] [3] [3]) [] (fun _ => 0%Z) [0; 0]%Z
    = sumL (R:=ZRing) (zrange (-1) 2 1) (fun z => sumL (R:=ZRing) (zrange 0 3 1) (fun y => sumL (R:=ZRing) (zrange 0 3 1) (fun x =>
        (((3 - Z.abs (z - 0)) * (4 - Z.abs (y - 1))) * (5 - Z.abs (x - 1)) * grid3 [0; z mod 2; y mod 2; x mod 2])%Z))).
  Proof. vm_compute. reflexivity. Qed.
End Examples.
