(* proofs/StoppingGS.v — GerchbergSaxton with a Tikhonov term (lamb > 0): when can `residual <= tol` with tol = 0 fire?

   proofs/Stopping2.v shows that the stop rule holds exactly when every amplitude is matched and that with lamb = 0
   such a stop is a fixed point.  Here: with lamb > 0, A / A^H an adjoint pair (real inner product of C^m seen as
   R^2m), unit phases, and an update whose inner ConjugateGradient has CONVERGED (the iterate solves the inner system
   (A^H A + lamb) x' = A^H y_hat), matched amplitudes force x' = 0 -- and x' = 0 is a fixed point of the whole update.
   So for lamb > 0 an early stop after a converged update happens only at the trivial fixed point. *)
From Coq Require Import Reals List ZArith Lra Lia Psatz.
From SV Require Import model.Alg model.Alg2 proofs.IPSpace proofs.Stopping2.
Import ListNotations.
Local Open Scope R_scope.

(* Re <u, v> on lists of (re, im) pairs *)
Fixpoint cdot (u v : list (R * R)) : R :=
  match u, v with
  | a :: u', b :: v' => fst a * fst b + snd a * snd b + cdot u' v'
  | _, _ => 0
  end.
Fixpoint sumsq (ys : list R) : R := match ys with [] => 0 | y :: ys' => y * y + sumsq ys' end.

Lemma cdot_self_nonneg u : 0 <= cdot u u.
Proof.
  induction u as [|[a c] u IH]; cbn [cdot fst snd]; [lra|].
  pose proof (Rle_0_sqr a) as S1. pose proof (Rle_0_sqr c) as S2. unfold Rsqr in S1, S2. lra.
Qed.

(* 2 Re<u, v> <= |u|^2 + |v|^2 *)
Lemma cdot_amgm u v : 2 * cdot u v <= cdot u u + cdot v v.
Proof.
  revert v. induction u as [|[a c] u IH]; intros v.
  - pose proof (cdot_self_nonneg v). change (cdot [] v) with 0. change (cdot [] []) with 0. lra.
  - destruct v as [|[b d] v].
    + pose proof (cdot_self_nonneg ((a, c) :: u)). change (cdot ((a, c) :: u) []) with 0. change (cdot [] []) with 0. lra.
    + cbn [cdot fst snd]. pose proof (IH v) as I. revert I.
      generalize (cdot u v) (cdot u u) (cdot v v). intros p q r I.
      pose proof (Rle_0_sqr (a - b)) as S1. pose proof (Rle_0_sqr (c - d)) as S2. unfold Rsqr in S1, S2. lra.
Qed.

Section GSTikhonov.
  Variable H : IPSpace.
  Notation X := (ipV H).
  Notation E := (ops_of H).
  Variable cphase : R * R -> R * R.
  Variable A : X -> list (R * R).
  Variable AH : list (R * R) -> X.
  Variable y : list R.
  Variable lamb : R.
  Notation C := (GSClass E Rabs cphase A AH y lamb).
  Notation cabsR := (cabs E).

  Hypothesis Hlen : forall v, length (A v) = length y.
  (* exp(1j * angle(w)) is the unit phase of w *)
  Hypothesis Hphase : forall w, cscale E (cabsR w) (cphase w) = w.
  Hypothesis Hunit : forall w, cabsR (cphase w) = 1.
  (* A.H is the adjoint of A *)
  Hypothesis Hadj : forall v w, length w = length y -> ipdot H v (AH w) = cdot (A v) w.

  Lemma cabs_sq (w : R * R) (r : R) : cabsR w = r -> fst w * fst w + snd w * snd w = r * r.
  Proof.
    unfold cabs. cbn [ssqrt sadd smul ops_of]. intros <-.
    rewrite sqrt_sqrt; [reflexivity|]. nra.
  Qed.

  Lemma cdot_matched (l : list (R * R)) (ys : list R) :
    length l = length ys ->
    (forall w yi, In (w, yi) (combine l ys) -> cabsR w = yi) -> cdot l l = sumsq ys.
  Proof.
    revert ys. induction l as [|w l IH]; intros ys L Hall.
    - destruct ys; [reflexivity | discriminate].
    - destruct ys as [|yi ys]; [discriminate|]. cbn [cdot sumsq].
      rewrite (cabs_sq w yi) by (apply Hall; left; reflexivity).
      rewrite (IH ys); [reflexivity | cbn in L; lia |].
      intros w' y' Hin. apply Hall. right. exact Hin.
  Qed.

  Lemma yhat_length x : length (gs_yhat E cphase A y x) = length y.
  Proof. unfold gs_yhat. rewrite map_length, combine_length, Hlen. apply Nat.min_id. Qed.

  Lemma cdot_yhat (ys : list R) (l : list (R * R)) :
    length l = length ys ->
    let yh := map (fun yw => cscale E (fst yw) (cphase (snd yw))) (combine ys l) in
    cdot yh yh = sumsq ys.
  Proof.
    revert l. induction ys as [|yi ys IH]; intros l L; cbn zeta.
    - reflexivity.
    - destruct l as [|w l]; [discriminate|]. cbn [combine map cdot sumsq fst snd].
      rewrite (IH l) by (cbn in L; lia).
      unfold cscale. cbn [fst snd smul ops_of].
      change (Sc (ops_of H)) with R.
      pose proof (cabs_sq (cphase w) 1 (Hunit w)) as U. revert U.
      generalize (fst (cphase w)) (snd (cphase w)) (sumsq ys). intros p q t U.
      transitivity (yi * yi * (p * p + q * q) + t); [ring | rewrite U; ring].
  Qed.

  (* [core] lamb > 0, converged inner solve, amplitudes matched  ==>  the iterate is 0 *)
  Theorem gs_tikhonov_stop_is_zero (s : gs_state E) :
    0 < lamb ->
    gs_system E A AH lamb (gs_x (update C s)) = gs_b E cphase A AH y (gs_x s) ->
    gs_residual (update C s) <= 0 ->
    gs_x (update C s) = ip0 H.
  Proof.
    intros Hl Hsolved Hstop.
    pose proof (proj1 (gs_stop_iff_amplitudes_match H cphase A AH y lamb s) Hstop) as Hamp.
    set (x' := gs_x (update C s)) in *. set (x := gs_x s) in *.
    assert (Ed : ipdot H x' (gs_system E A AH lamb x') = ipdot H x' (gs_b E cphase A AH y x)) by (rewrite Hsolved; reflexivity).
    unfold gs_system, gs_b in Ed. cbn [vadd vscale ops_of] in Ed.
    rewrite (dot_add_r H), (dot_scale_r H) in Ed.
    rewrite (Hadj x' (A x') (Hlen x')), (Hadj x' _ (yhat_length x)) in Ed.
    pose proof (cdot_matched (A x') y (Hlen x') Hamp) as N1.
    pose proof (cdot_yhat y (A x) (Hlen x)) as N2. cbn zeta in N2. fold (gs_yhat E cphase A y x) in N2.
    pose proof (cdot_amgm (A x') (gs_yhat E cphase A y x)) as CS.
    pose proof (ip_dot_pos H x') as P.
    change (cdot (gs_yhat E cphase A y x) (gs_yhat E cphase A y x) = sumsq y) in N2.
    apply ip_dot_def. revert Ed N1 N2 CS P.
    generalize (ipdot H x' x') (cdot (A x') (A x')) (cdot (A x') (gs_yhat E cphase A y x))
               (cdot (gs_yhat E cphase A y x) (gs_yhat E cphase A y x)) (sumsq y).
    intros d n1 c n2 N Ed N1 N2 CS P.
    assert (Q : lamb * d <= 0) by lra.
    destruct P as [P|P]; [|symmetry; exact P]. exfalso.
    assert (0 < lamb * d) by (apply Rmult_lt_0_compat; assumption). lra.
  Qed.

  (* ... and 0 is a fixed point of the whole update: with matched amplitudes y_hat = A x', so b - system x' = -lamb x' = 0 *)
  Theorem gs_tikhonov_stop_fixed (s : gs_state E) :
    0 < lamb ->
    gs_system E A AH lamb (gs_x (update C s)) = gs_b E cphase A AH y (gs_x s) ->
    gs_residual (update C s) <= 0 ->
    gs_x (update C s) = ip0 H /\
    gs_x (update C (update C s)) = gs_x (update C s) /\
    gs_residual (update C (update C s)) = gs_residual (update C s).
  Proof.
    intros Hl Hsolved Hstop.
    pose proof (gs_tikhonov_stop_is_zero s Hl Hsolved Hstop) as Z.
    pose proof (proj1 (gs_stop_iff_amplitudes_match H cphase A AH y lamb s) Hstop) as Hamp.
    set (s1 := update C s) in *.
    assert (Ex : gs_x (update C s1) = gs_x s1).
    { change (gs_x (update C s1)) with (gs_inner E cphase A AH y lamb (gs_x s1)). unfold gs_inner.
      apply gs_inner_cg_at_solution. unfold gs_b, gs_system.
      rewrite (yhat_is_Ax H cphase A y Hlen Hphase _ Hamp), Z.
      cbn [vadd vscale ops_of]. vec H. }
    split; [exact Z | split; [exact Ex|]].
    change (gs_residual (update C s1)) with (gs_resid_of E Rabs A y (gs_x (update C s1))).
    change (gs_residual s1) with (gs_resid_of E Rabs A y (gs_x s1)).
    rewrite Ex. reflexivity.
  Qed.
End GSTikhonov.

(* non-vacuity of the structural hypotheses: R^2 = C observed through the identity, numpy's unit phase *)
Definition A1 (x : R2) : list (R * R) := [x].
Definition AH1 (w : list (R * R)) : R2 := match w with [a] => a | _ => (0, 0) end.

Lemma cphaseR_unit (H : IPSpace) : forall w, cabs (ops_of H) (cphaseR w) = 1.
Proof.
  intros [a c]. unfold cabs, cphaseR. cbn [fst snd smul sadd ssqrt ops_of].
  set (m := sqrt (a * a + c * c)).
  destruct (Req_EM_T m 0) as [Z|NZ]; cbn [fst snd].
  - replace (1 * 1 + 0 * 0) with 1 by ring. apply sqrt_1.
  - assert (Hs : 0 <= a * a + c * c) by (pose proof (Rle_0_sqr a); pose proof (Rle_0_sqr c); unfold Rsqr in *; lra).
    assert (Em : m * m = a * a + c * c) by (apply sqrt_sqrt; exact Hs).
    replace (a / m * (a / m) + c / m * (c / m)) with ((a * a + c * c) / (m * m)) by (field; exact NZ).
    rewrite <- Em. unfold Rdiv. rewrite Rinv_r; [apply sqrt_1|]. intros Q. apply NZ.
    destruct (Rmult_integral _ _ Q); assumption.
Qed.

Lemma gs_tikhonov_hyps_example :
  (forall v, length (A1 v) = length [0]) /\
  (forall w, cscale (ops_of R2Space) (cabs (ops_of R2Space) w) (cphaseR w) = w) /\
  (forall w, cabs (ops_of R2Space) (cphaseR w) = 1) /\
  (forall v w, length w = length [0] -> ipdot R2Space v (AH1 w) = cdot (A1 v) w).
Proof.
  split; [reflexivity|]. split; [apply cphaseR_spec|]. split; [apply cphaseR_unit|].
  intros [a b] w L. destruct w as [|[c d] [|? ?]]; try discriminate L.
  cbn. ring.
Qed.

(* ------------------------------------------------------------------------------------------------------------------
   In dimension <= 5 the hypothesis "the inner CG has converged" is a theorem: the inner system A^H A + lamb is
   self-adjoint positive definite (adjoint pair, lamb > 0) and ConjugateGradient(system, b, x, max_iter=5) solves such a
   system exactly within dim <= 5 updates (proofs/CGFinite.v: cg_run_solves). *)
From SV Require Import proofs.CG proofs.CGFinite.

Lemma cdot_sym u v : cdot u v = cdot v u.
Proof.
  revert v. induction u as [|a u IH]; intros v; destruct v as [|b v]; try reflexivity.
  cbn [cdot]. rewrite (IH v). ring.
Qed.

Section GSTikhonovDim5.
  Variable H : IPSpace.
  Notation X := (ipV H).
  Notation E := (ops_of H).
  Variable cphase : R * R -> R * R.
  Variable A : X -> list (R * R).
  Variable AH : list (R * R) -> X.
  Variable y : list R.
  Variable lamb : R.
  Notation C := (GSClass E Rabs cphase A AH y lamb).

  Hypothesis Hlen : forall v, length (A v) = length y.
  Hypothesis Hphase : forall w, cscale E (cabs E w) (cphase w) = w.
  Hypothesis Hunit : forall w, cabs E (cphase w) = 1.
  Hypothesis Hadj : forall v w, length w = length y -> ipdot H v (AH w) = cdot (A v) w.
  Hypothesis Hdim : dim_le H 5.
  Hypothesis Hl : 0 < lamb.

  Lemma gs_system_selfadjoint : selfadjoint H (gs_system E A AH lamb).
  Proof.
    intros v w. unfold gs_system. cbn [vadd vscale ops_of].
    rewrite (ip_dot_add_l H), (dot_add_r H), (ip_dot_scale_l H), (dot_scale_r H).
    rewrite (ip_dot_sym H (AH (A v)) w), (Hadj w (A v) (Hlen v)), (Hadj v (A w) (Hlen w)), (cdot_sym (A w) (A v)).
    reflexivity.
  Qed.

  Lemma gs_system_posdef : posdef H (gs_system E A AH lamb).
  Proof.
    intros v Hv. unfold gs_system. cbn [vadd vscale ops_of].
    rewrite (dot_add_r H), (dot_scale_r H), (Hadj v (A v) (Hlen v)).
    pose proof (cdot_self_nonneg (A v)) as N. pose proof (dot_self_pos H v Hv) as P.
    assert (0 < lamb * ipdot H v v) by (apply Rmult_lt_0_compat; assumption). lra.
  Qed.

  Lemma gs_inner_solves (x : X) :
    gs_system E A AH lamb (gs_inner E cphase A AH y lamb x) = gs_b E cphase A AH y x.
  Proof.
    unfold gs_inner.
    apply (cg_run_solves H (gs_system E A AH lamb) (gs_b E cphase A AH y x) None x 5
             gs_system_selfadjoint gs_system_posdef I 5 Hdim). reflexivity.
  Qed.

  Theorem gs_tikhonov_stop_fixed_dim5 (s : gs_state E) :
    gs_residual (update C s) <= 0 ->
    gs_x (update C s) = ip0 H /\
    gs_x (update C (update C s)) = gs_x (update C s) /\
    gs_residual (update C (update C s)) = gs_residual (update C s).
  Proof.
    intros Hstop.
    apply (gs_tikhonov_stop_fixed H cphase A AH y lamb Hlen Hphase Hunit Hadj s Hl); [|exact Hstop].
    change (gs_x (update C s)) with (gs_inner E cphase A AH y lamb (gs_x s)). apply gs_inner_solves.
  Qed.
End GSTikhonovDim5.
