(* CGKrylov.v — the span of the CG search directions contains the preconditioned Krylov
   vectors (PA)^j P r_0, so the optimality of x_k over x0 + span{p_0..p_{k-1}} (proofs/CG.v)
   is optimality over x0 + K_k(PA, P r_0) = { x0 + q(PA) P r_0 : deg q < k }. *)
From Coq Require Import Reals Lra Lia ZArith Bool.
From SV Require Import model.Alg proofs.IPSpace proofs.CGBasic proofs.CG.
Local Open Scope R_scope.

Section Krylov.
  Variable H : IPSpace.
  Notation V := (ipV H).
  Notation "x +v y" := (ipadd H x y) (at level 50, left associativity).
  Notation "x -v y" := (ipsub H x y) (at level 50, left associativity).
  Notation "a *v x" := (ipscale H a x) (at level 40, left associativity).
  Notation "<< x , y >>" := (ipdot H x y) (at level 0, format "<< x ,  y >>").
  Notation O := (ip0 H).

  Variables A Pf : V -> V.
  Variable b : V.
  Hypothesis Asa : selfadjoint H A.
  Hypothesis Psa : selfadjoint H Pf.
  Hypothesis Ppd : posdef H Pf.
  Variables X Rr Pp : nat -> V.
  Variable RZ : nat -> R.
  Variable K : nat.
  Hypothesis Hinit : init_eqs H A Pf b X Rr Pp RZ.
  Hypothesis Hsteps : forall i, (i < K)%nat -> step_eqs H A Pf X Rr Pp RZ i.

  Notation lc := (lincomb H Pp).
  Definition in_span (v : V) (n : nat) : Prop := exists c, v = lc c n.

  Lemma lc_ext c d n : (forall i, (i < n)%nat -> c i = d i) -> lc c n = lc d n.
  Proof.
    induction n as [|n IH]; intros E; cbn [lincomb]; [reflexivity|].
    rewrite IH by (intros; apply E; lia). rewrite (E n) by lia. reflexivity.
  Qed.
  Lemma lc_add c d n : lc c n +v lc d n = lc (fun i => c i + d i) n.
  Proof. induction n as [|n IH]; cbn [lincomb]; [vec H|]. rewrite <- IH. vec H. Qed.
  Lemma lc_scale a c n : a *v lc c n = lc (fun i => a * c i) n.
  Proof. induction n as [|n IH]; cbn [lincomb]; [vec H|]. rewrite <- IH. vec H. Qed.
  Lemma lc_zero n : lc (fun _ => 0) n = O.
  Proof. induction n as [|n IH]; cbn [lincomb]; [reflexivity|]. rewrite IH. vec H. Qed.

  Lemma span_zero n : in_span O n.
  Proof. exists (fun _ => 0). symmetry. apply lc_zero. Qed.
  Lemma span_add v w n : in_span v n -> in_span w n -> in_span (v +v w) n.
  Proof. intros (c & ->) (d & ->). eexists. apply lc_add. Qed.
  Lemma span_scale a v n : in_span v n -> in_span (a *v v) n.
  Proof. intros (c & ->). eexists. apply lc_scale. Qed.
  Lemma span_S v n : in_span v n -> in_span v (S n).
  Proof.
    intros (c & ->). exists (fun i => if (i <? n)%nat then c i else 0). cbn [lincomb].
    rewrite Nat.ltb_irrefl.
    rewrite (lc_ext (fun i => if (i <? n)%nat then c i else 0) c n).
    - vec H.
    - intros i Hi. apply Nat.ltb_lt in Hi. rewrite Hi. reflexivity.
  Qed.
  Lemma span_le v n m : (n <= m)%nat -> in_span v n -> in_span v m.
  Proof. induction 1; [tauto|]. intros. apply span_S. auto. Qed.
  Lemma span_p i n : (i < n)%nat -> in_span (Pp i) n.
  Proof.
    intros Hi. apply (span_le _ (S i)); [lia|].
    exists (fun j => if (j =? i)%nat then 1 else 0). cbn [lincomb]. rewrite Nat.eqb_refl.
    rewrite (lc_ext _ (fun _ => 0) i).
    - rewrite lc_zero. vec H.
    - intros j Hj. destruct (Nat.eqb_spec j i); [lia|reflexivity].
  Qed.

  Let Pf_add := sa_add H Pf Psa.
  Let Pf_scale := sa_scale H Pf Psa.
  Let A_add := sa_add H A Asa.
  Let A_scale := sa_scale H A Asa.

  (* z_i = P r_i is in span{p_0..p_i} *)
  Lemma z_in_span i : (i <= K)%nat -> in_span (Pf (Rr i)) (S i).
  Proof.
    intros Hi. destruct i as [|i].
    - destruct Hinit as (_ & Hp & _). rewrite <- Hp. apply span_p. lia.
    - destruct (Hsteps i) as (_ & _ & _ & _ & Hpp); [lia|].
      assert (E : Pf (Rr (S i)) = Pp (S i) +v (- beta RZ i) *v Pp i) by (rewrite Hpp; vec H).
      clear Hpp. rewrite E. apply span_add; [apply span_p; lia|apply span_scale, span_p; lia].
  Qed.

  (* P A p_i is in span{p_0..p_{i+1}} *)
  Lemma PAp_in_span i : (i < K)%nat -> in_span (Pf (A (Pp i))) (S (S i)).
  Proof.
    intros Hi. destruct (Hsteps i Hi) as (Hp & _ & Hr & _ & _).
    assert (I : Inv H A Pf b X Rr Pp RZ i).
    { apply (inv_all H A Pf b Asa Psa Ppd X Rr Pp RZ i Hinit); [intros; apply Hsteps; lia|lia]. }
    pose proof (rz_nonzero H A Pf b X Rr Pp RZ i I Hp) as Hrz.
    set (al := alpha H A Pp RZ i) in *.
    assert (Hal : al <> 0).
    { unfold al, alpha. intro E0. apply Hrz. unfold Rdiv in E0. apply Rmult_integral in E0.
      destruct E0 as [|E0]; [assumption|]. exfalso. apply (Rinv_neq_0_compat (pAp H A Pp i)); [unfold pAp in *; lra|exact E0]. }
    assert (E : Pf (A (Pp i)) = (/ al) *v (Pf (Rr i) +v (-1) *v Pf (Rr (S i)))).
    { rewrite Hr, Pf_add, Pf_scale. apply (vec_ext H); intro t. ipnorm H. field. exact Hal. }
    rewrite E. apply span_scale, span_add.
    - apply span_S, z_in_span. lia.
    - apply span_scale, z_in_span. lia.
  Qed.

  (* P A maps span{p_0..p_{n-1}} into span{p_0..p_n} *)
  Lemma PA_span v n : (n <= K)%nat -> in_span v n -> in_span (Pf (A v)) (S n).
  Proof.
    intros Hn (c & ->). induction n as [|n IH]; cbn [lincomb].
    - rewrite (sa_0 H A Asa), (sa_0 H Pf Psa). apply span_zero.
    - rewrite A_add, A_scale, Pf_add, Pf_scale. apply span_add.
      + apply span_S, IH. lia.
      + apply span_scale, PAp_in_span. lia.
  Qed.

  (* Krylov vectors (PA)^j P r_0 *)
  Fixpoint kry (j : nat) : V := match j with 0%nat => Pf (Rr 0%nat) | S j' => Pf (A (kry j')) end.
  Lemma kry_in_span j : (j <= K)%nat -> in_span (kry j) (S j).
  Proof.
    induction j as [|j IH]; intros Hj; cbn [kry].
    - apply z_in_span. lia.
    - apply PA_span; [lia|apply IH; lia].
  Qed.

  (* q(PA) P r_0 with deg q < k:  sum_{j<k} d_j (PA)^j P r_0 *)
  Fixpoint kcomb (d : nat -> R) (k : nat) : V :=
    match k with 0%nat => ip0 H | S j => kcomb d j +v d j *v kry j end.
  Lemma kcomb_in_span d k : (k <= S K)%nat -> in_span (kcomb d k) k.
  Proof.
    induction k as [|k IH]; intros Hk; cbn [kcomb]; [apply span_zero|].
    apply span_add; [apply span_S, IH; lia|apply span_scale, kry_in_span; lia].
  Qed.

  Notation phi := (phi H A b).

  Theorem math_krylov_optimal : possemidef H A ->
    forall k, (k <= K)%nat -> forall d, phi (X k) <= phi (X 0%nat +v kcomb d k).
  Proof.
    intros Apsd k Hk d. destruct (kcomb_in_span d k) as (c & ->); [lia|].
    apply (math_optimal H A Pf b Asa Psa Ppd X Rr Pp RZ K Hinit Hsteps Apsd k Hk c).
  Qed.
  Theorem math_krylov_optimal_final : possemidef H A -> xstep_eqs H A X Pp RZ K ->
    forall d, phi (X (S K)) <= phi (X 0%nat +v kcomb d (S K)).
  Proof.
    intros Apsd Hx d. destruct (kcomb_in_span d (S K)) as (c & ->); [lia|].
    apply (math_optimal_final H A Pf b Asa Psa Ppd X Rr Pp RZ K Hinit Hsteps Apsd Hx c).
  Qed.
End Krylov.

(* transfer to the model trajectory (cf. cg_optimal in proofs/CG.v) *)
Section KrylovModel.
  Variable H : IPSpace.
  Notation V := (ipV H).
  Variable A : V -> V.
  Variable b : V.
  Variable P : option (V -> V).
  Variable x0 : V.
  Variable max_iter : Z.
  Variable tol : R.
  Hypothesis Asa : selfadjoint H A.
  Hypothesis HP : P_ok H P.

  Notation PfM := (Pf H P).
  Notation sxM := (sx H A b P x0 max_iter tol).
  Notation srM := (sr H A b P x0 max_iter tol).
  Notation spM := (sp H A b P x0 max_iter tol).
  Notation srzM := (srz H A b P x0 max_iter tol).
  Notation stM := (st H A b P x0 max_iter tol).

  Theorem cg_krylov_optimal k :
    possemidef H A -> (Z.of_nat k <= Z.max 0 max_iter)%Z -> cg_npd (stM k) = false ->
    forall d, phi H A b (sxM k) <= phi H A b (ipadd H x0 (kcomb H A PfM srM d k)).
  Proof.
    intros Apsd Hk Hn d.
    destruct (Z_le_gt_dec (Z.of_nat k) (Z.max 0 (max_iter - 1))) as [Hle|Hgt].
    - assert (Hh : healthy H A b P x0 max_iter tol k) by (split; assumption).
      apply (math_krylov_optimal H A PfM b Asa (Pf_sa H P HP) (Pf_pd H P HP) sxM srM spM srzM k
               (model_init H A b P x0 max_iter tol) (healthy_steps H A b P x0 max_iter tol k Hh) Apsd k (le_n _) d).
    - destruct k as [|k]; [lia|].
      assert (Hh : healthy H A b P x0 max_iter tol k).
      { split; [lia|]. apply (st_npd_le H A b P x0 max_iter tol k (S k)); [lia|exact Hn]. }
      apply (math_krylov_optimal_final H A PfM b Asa (Pf_sa H P HP) (Pf_pd H P HP) sxM srM spM srzM k
               (model_init H A b P x0 max_iter tol) (healthy_steps H A b P x0 max_iter tol k Hh) Apsd).
      apply model_xstep; [lia|exact Hn].
  Qed.
End KrylovModel.
