(* proofs/OpaqueStd.v — the five library-backed leaf families assembled: ONE oracle, ONE theorem.

   model/OpaqueStd.orc_std E arr is the denotation of every library-backed Linop class through the function models of
   C05 (fft), C08 (convolution), C07 (interpolation), C10 (wavelets), C06 (nufft) at one shared environment E.

   (1) orc_std agrees with each family oracle on that family's constructors (by computation), so each family's node
       lemma applies with orc := orc_std E arr;
   (2) adj_correct_std: for EVERY operator expression A over EVERY built-in class, through all six combinators, with
       wf A and the boolean check proven_node_std at every node:   <A x, y> = <x, A^H y>  and shapes (adj A) = swapped —
       NO per-node hypothesis is left; the hypotheses are the oracle facts of the environment, stated once
       (std_oracle_ok);  adj_correct_std_no_nufft: without NUFFT leaves no fact about numpy.fft's twiddle factors is
       needed at all (FFT^H = IFFT holds for any table, only the scaling must be real);
   (3) normal_correct_std: A.N acts as A^H A on the input box for every class — the C04 theorem of proofs/LinopNormal.v
       with its FFT-unitarity hypothesis discharged from the root-of-unity facts; Wavelet.N acts as the identity;
   (4) an exact instance of the environment in Q(i) / Q on which all hypotheses hold, and a concrete mixed tree. *)
From Coq Require Import ZArith List Lia Bool Ring QArith Qcanon.
From SV Require Import lib.Scalar lib.BigSum lib.LoopIR lib.NdArray lib.Gather lib.Coord gen.Gen_interp
  model.Rearrange model.Block model.Interp model.Fourier model.Conv model.Wavelet model.Nufft model.Linop
  model.OpaqueFourier model.OpaqueConv model.OpaqueInterp model.OpaqueWavelet model.OpaqueNufft model.OpaqueStd
  proofs.Fourier1D proofs.FourierModel proofs.FourierExample proofs.Wavelet
  proofs.LinopTheory proofs.LinopAlgebra proofs.LinopStack proofs.LinopAll proofs.LinopNormal
  proofs.OpaqueFourier proofs.OpaqueConv proofs.OpaqueInterp proofs.OpaqueWavelet proofs.OpaqueNufft.
Import ListNotations.
Local Open Scope Z_scope.

(* every node of the whole language: a leaf class with a natively modelled denotation (LinopAll.proven_all), or a
   library-backed leaf with parameters its class accepts (the disjunction of the five family predicates) *)
Definition proven_node_std {R : Ops} {C : COps} (E : std_env R C) (L : linop) : bool :=
  proven_all L || proven_node_opaque E L.

(* ================================================================ (1) orc_std is each family's oracle on its constructors *)
Section Agree.
  Variable R : Ops.
  Variable C : COps.
  Variable E : std_env R C.
  Variable arr : Z -> list Z -> R.

  Lemma orc_std_fourier L : fourier_leaf L = true ->
    forall x, orc_std E arr L x = orc_fourier (e_tw E) (e_isc E) (e_inv E) L x.
  Proof. destruct L; try discriminate; reflexivity. Qed.

  Lemma orc_std_conv L : proven_node_conv L = true -> forall x o, orc_std E arr L x o = orc_conv arr L x o.
  Proof. destruct L; try discriminate; reflexivity. Qed.

  Lemma orc_std_interp L : proven_node_interp L = true ->
    forall x o, orc_std E arr L x o = orc_interp R C (e_wt E) (e_carr E) (e_kern_of E) (e_wp E) (e_wp E) L x o.
  Proof. destruct L; try discriminate; reflexivity. Qed.

  Lemma orc_std_wavelet L : is_wavelet_leaf L = true ->
    forall x, orc_std E arr L x = orc_wavelet (e_cs E) (e_WW E) (e_WWr E) L x.
  Proof. destruct L; try discriminate; reflexivity. Qed.

  Lemma orc_std_nufft L : is_nufft L = true ->
    forall x, orc_std E arr L x =
              orc_nufft R C (e_kb E) (e_wt E) (e_csqrt E) (e_cpi E) (e_csinh E) (e_tw E) (e_isc E) (e_inv E)
                        (e_carr E) (e_pv E) (e_pv E) L x.
  Proof. destruct L; try discriminate; reflexivity. Qed.

  Lemma orc_std_agrees :
    (forall L, fourier_leaf L = true -> forall x, orc_std E arr L x = orc_fourier (e_tw E) (e_isc E) (e_inv E) L x) /\
    (forall L, proven_node_conv L = true -> forall x o, orc_std E arr L x o = orc_conv arr L x o) /\
    (forall L, proven_node_interp L = true ->
       forall x o, orc_std E arr L x o = orc_interp R C (e_wt E) (e_carr E) (e_kern_of E) (e_wp E) (e_wp E) L x o) /\
    (forall L, is_wavelet_leaf L = true -> forall x, orc_std E arr L x = orc_wavelet (e_cs E) (e_WW E) (e_WWr E) L x) /\
    (forall L, is_nufft L = true ->
       forall x, orc_std E arr L x =
                 orc_nufft R C (e_kb E) (e_wt E) (e_csqrt E) (e_cpi E) (e_csinh E) (e_tw E) (e_isc E) (e_inv E)
                           (e_carr E) (e_pv E) (e_pv E) L x).
  Proof.
    split; [exact orc_std_fourier|]. split; [exact orc_std_conv|]. split; [exact orc_std_interp|].
    split; [exact orc_std_wavelet| exact orc_std_nufft].
  Qed.

  (* the family predicates are pairwise disjoint and select library-backed leaves only *)
  Lemma proven_node_opaque_library L : proven_node_opaque E L = true -> library_backed L = true.
  Proof. destruct L; try reflexivity; cbn; intros H; discriminate H. Qed.

  Lemma proven_node_opaque_family L : proven_node_opaque E L = true ->
    match opaque_family L with
    | 1 => proven_node_fourier L = true
    | 2 => proven_node_conv L = true
    | 3 => proven_node_interp L = true
    | 4 => wavelet_leaf_ok (e_orth E) (e_cs E) L = true
    | 5 => proven_node_nufft C (e_pv E) L = true
    | _ => False
    end.
  Proof.
    unfold proven_node_opaque.
    destruct L; cbn [opaque_family proven_node_fourier proven_node_conv conv_valid proven_node_interp wavelet_leaf_ok
                      proven_node_nufft orb]; intros H; try discriminate H; try exact H;
      rewrite ?orb_false_r in H; exact H.
  Qed.
End Agree.

(* wf descends to every node the recursion of nodes_ok' visits *)
Lemma nodes_wf (P : linop -> Prop) A :
  wf A = true -> nodes_ok' P A -> nodes_ok' (fun L => P L /\ wf L = true) A.
Proof.
  induction A using linop_rect2; intros Hwf Hn.
  - destruct A; try contradiction; split; assumption.
  - exact (IHA Hwf Hn).
  - pose proof (wf_members _ ls (or_introl eq_refl) Hwf) as Hw.
    apply nodes_ok'_list. apply nodes_ok'_list in Hn.
    clear Hwf. induction ls as [|a ls IHl]; [constructor|]. inversion H; inversion Hn; inversion Hw; subst. constructor; auto.
  - pose proof (wf_members _ ls (or_intror (or_introl eq_refl)) Hwf) as Hw.
    apply nodes_ok'_list. apply nodes_ok'_list in Hn.
    clear Hwf. induction ls as [|a ls IHl]; [constructor|]. inversion H; inversion Hn; inversion Hw; subst. constructor; auto.
  - pose proof (wf_members _ ls (or_intror (or_intror (or_introl (ex_intro _ ax eq_refl)))) Hwf) as Hw.
    apply nodes_ok'_list. apply nodes_ok'_list in Hn.
    clear Hwf. induction ls as [|a ls IHl]; [constructor|]. inversion H; inversion Hn; inversion Hw; subst. constructor; auto.
  - pose proof (wf_members _ ls (or_intror (or_intror (or_intror (or_introl (ex_intro _ ax eq_refl))))) Hwf) as Hw.
    apply nodes_ok'_list. apply nodes_ok'_list in Hn.
    clear Hwf. induction ls as [|a ls IHl]; [constructor|]. inversion H; inversion Hn; inversion Hw; subst. constructor; auto.
  - pose proof (wf_members _ ls (or_intror (or_intror (or_intror (or_intror (ex_intro _ oa (ex_intro _ ia eq_refl)))))) Hwf) as Hw.
    apply nodes_ok'_list. apply nodes_ok'_list in Hn.
    clear Hwf. induction ls as [|a ls IHl]; [constructor|]. inversion H; inversion Hn; inversion Hw; subst. constructor; auto.
Qed.

(* ================================================================ (2), (3) the theorems *)
Section Std.
  Variable R : StarRing.
  Variable C : COps.
  Variable E : std_env R C.
  Notation farr := (list Z -> R).
  Variable arr : Z -> farr.
  Variable scal : Z -> R.
  Local Open Scope sr_scope.
  Notation ORC := (orc_std E arr).
  Notation D := (D R arr scal ORC).
  Notation apair := (apair R arr scal ORC).

  (* ---- the oracle facts, stated ONCE about the environment, in the form the C05 / C06 / C07 / C10 theorems state them *)
  (* interpolation weights and transform scalings are real *)
  Definition wt_real : Prop := forall c : C, conj (e_wt E c) = e_wt E c.
  Definition isc_real : Prop := forall n, (0 < n)%Z -> conj (e_isc E n) = e_isc E n.
  (* numpy.fft computes the DFT: the twiddle table holds the powers of primitive roots of unity w_n, inv n = 1/n *)
  Definition fft_oracle_ok (w : Z -> R) : Prop :=
    e_tw E = twf R w /\ (forall n, (0 < n)%Z -> root_ok R n (w n)) /\ (forall n, (0 < n)%Z -> e_inv E n * nR n = 1).
  (* the real scalar m / c enters the data ring as m times 1 / c *)
  Definition wt_div_ok : Prop :=
    forall (m : Z) (c : C), (0 <= m)%Z -> e_wt E (cdiv (cofZ m) c) = nR m * e_wt E (cdiv (cofZ 1) c).
  (* PyWavelets: for every valid call with an orthogonal wavelet, waverecn . array_to_coeffs is the adjoint of
     coeffs_to_array . wavedecn on the padded box (Prop_C10's hypothesis) *)
  Definition pywt_ok : Prop := pywt_adjoint_all R (e_cs E) (e_WW E) (e_WWr E) (e_orth E).

  Definition std_oracle_ok (w : Z -> R) : Prop :=
    wt_real /\ isc_real /\ fft_oracle_ok w /\ wt_div_ok /\ pywt_ok.

  (* ---- node lemmas with orc := orc_std ---- *)
  Lemma std_nodes_fourier : isc_real -> forall L, proven_node_fourier L = true -> wf L = true -> apair L.
  Proof.
    intros Hs. apply (nodes_fourier R arr scal ORC (e_tw E) (e_isc E) (e_inv E)); [|exact Hs].
    intros L HL x. apply orc_std_fourier. exact HL.
  Qed.

  Lemma std_nodes_conv : forall L, proven_node_conv L = true -> wf L = true -> apair L.
  Proof. apply nodes_conv. intros L x o HL. apply orc_std_conv. exact HL. Qed.

  Lemma std_nodes_interp : wt_real -> forall L, proven_node_interp L = true -> wf L = true -> apair L.
  Proof.
    intros Hw. apply (nodes_interp R C arr scal ORC (e_wt E) (e_carr E) (e_kern_of E) (e_wp E) (e_wp E) Hw).
    intros L HL x o. apply orc_std_interp. exact HL.
  Qed.

  Lemma std_nodes_wavelet : pywt_ok -> forall L, wavelet_leaf_ok (e_orth E) (e_cs E) L = true -> wf L = true -> apair L.
  Proof.
    intros Hp L HL Hwf.
    apply (nodes_wavelet R arr scal ORC (e_cs E) (e_WW E) (e_WWr E) (e_orth E)); try assumption.
    intros L' HL' x. apply orc_std_wavelet. exact HL'.
  Qed.

  Lemma std_nodes_nufft w : wt_real -> fft_oracle_ok w -> wt_div_ok ->
    forall L, proven_node_nufft C (e_pv E) L = true -> wf L = true -> apair L.
  Proof.
    intros Hw (Htw & Hroot & Hinv) Hdiv.
    apply (nodes_nufft R C (e_kb E) (e_wt E) (e_csqrt E) (e_cpi E) (e_csinh E) w (e_isc E) (e_inv E) Hw Hroot Hinv Hdiv
                       arr scal ORC (e_carr E) (e_pv E) (e_pv E)).
    intros L x HL. rewrite <- Htw. apply orc_std_nufft. exact HL.
  Qed.

  (* every library-backed leaf with valid parameters *)
  Theorem std_nodes_opaque w : std_oracle_ok w ->
    forall L, proven_node_opaque E L = true -> wf L = true -> apair L.
  Proof.
    intros (Hw & Hs & Hf & Hd & Hp) L HL Hwf.
    pose proof (proven_node_opaque_family R C E L HL) as HF.
    destruct L; cbn [opaque_family] in HF; try contradiction.
    all: first [ apply std_nodes_fourier; assumption | apply std_nodes_conv; assumption
               | apply std_nodes_interp; assumption | apply std_nodes_wavelet; assumption
               | apply (std_nodes_nufft w); assumption ].
  Qed.

  (* ---- C01, THE theorem: every operator expression over every built-in class ---- *)
  Theorem adj_correct_std (w : Z -> R) A :
    std_oracle_ok w ->
    wf A = true ->
    nodes_ok' (fun L => proven_node_std E L = true) A ->
    apair A /\ adj_shape_ok A.
  Proof.
    intros Ho Hwf Hn. apply (adj_correct_all' R arr scal ORC A Hwf).
    eapply nodes_ok'_impl; [|exact (nodes_wf _ A Hwf Hn)].
    intros L [Hp Hw]. unfold proven_node_std in Hp. apply orb_true_iff in Hp. destruct Hp as [Hp|Hp].
    - left. split; assumption.
    - right. split; [exact (proven_node_opaque_library R C E L Hp)| exact (std_nodes_opaque w Ho L Hp Hw)].
  Qed.

  (* without NUFFT / NUFFTAdjoint leaves NOTHING about numpy.fft's twiddle factors is needed (FFT^H = IFFT holds for
     any table: the inverse kernel is the conjugate transpose by construction) and no [wt_div] *)
  Definition no_nufft_node (L : linop) : bool := negb (is_nufft L).

  Theorem adj_correct_std_no_nufft A :
    wt_real -> isc_real -> pywt_ok ->
    wf A = true ->
    nodes_ok' (fun L => proven_node_std E L = true /\ no_nufft_node L = true) A ->
    apair A /\ adj_shape_ok A.
  Proof.
    intros Hw Hs Hp Hwf Hn. apply (adj_correct_all' R arr scal ORC A Hwf).
    eapply nodes_ok'_impl; [|exact (nodes_wf _ A Hwf Hn)].
    intros L [[Hq Hnn] Hwl]. unfold proven_node_std in Hq. apply orb_true_iff in Hq. destruct Hq as [Hq|Hq].
    - left. split; assumption.
    - right. split; [exact (proven_node_opaque_library R C E L Hq)|].
      pose proof (proven_node_opaque_family R C E L Hq) as HF.
      destruct L; cbn [opaque_family] in HF; try contradiction; try discriminate Hnn.
      all: first [ apply std_nodes_fourier; assumption | apply std_nodes_conv; assumption
                 | apply std_nodes_interp; assumption | apply std_nodes_wavelet; assumption ].
  Qed.

  (* ---- C04: the operator returned by _normal_linop acts as A^H A on the input box, for every class ----
     normal_proved (proofs/LinopNormal.v) is the side condition of the natively modelled classes; FFT / IFFT
     (N = Identity) additionally need accepted axes and the unitarity facts; every other library-backed class has the
     default N = A.H * A (NUFFT with toeplitz=True: python returns an APPROXIMATION by design, numeric check only). *)
  Definition normal_proved_std (A : linop) : bool :=
    normal_proved A && match A with FFT _ _ _ | IFFT _ _ _ => proven_node_fourier A | _ => true end.

  Definition fft_unitary_ok (w : Z -> R) : Prop :=
    e_tw E = twf R w /\ (forall n, (0 < n)%Z -> root_ok R n (w n)) /\
    (forall n, (0 < n)%Z -> e_isc E n * e_isc E n * nR n = 1).

  Theorem normal_correct_std (w : Z -> R) A (x : farr) idx :
    fft_unitary_ok w ->
    wf A = true -> normal_proved_std A = true -> inbox (ishape_of A) idx ->
    D (normal A) x idx = D (adj A) (D A x) idx.
  Proof.
    intros (Htw & Hroot & Hisc) Hwf Hp Hb. unfold normal_proved_std in Hp. apply andb_true_iff in Hp. destruct Hp as [Hp Hf].
    destruct (no_fft A) eqn:Hnf.
    - apply normal_correct_no_oracle; assumption.
    - assert (HF : proven_node_fourier A = true) by (destruct A; try discriminate Hnf; exact Hf).
      apply (nodes_fourier_normal R arr scal ORC (e_tw E) (e_isc E) (e_inv E) w); try assumption.
      + intros L HL y. apply orc_std_fourier. exact HL.
      + intros n m _. rewrite Htw. reflexivity.
  Qed.

  (* Wavelet.N = W^H W is the default composition and acts as the Identity on the input box (perfect reconstruction) *)
  Theorem normal_wavelet_identity_std i ax wv l ws (x : farr) o :
    pywt_reconstructs_all R (e_WW E) (e_WWr E) (e_orth E) ->
    wavelet_leaf_ok (e_orth E) (e_cs E) (Wavelet i ax wv l ws) = true -> wf (Wavelet i ax wv l ws) = true ->
    inbox (ishape_of (Wavelet i ax wv l ws)) o ->
    D (normal (Wavelet i ax wv l ws)) x o = D (adj (Wavelet i ax wv l ws)) (D (Wavelet i ax wv l ws) x) o /\
    D (normal (Wavelet i ax wv l ws)) x o = x o.
  Proof.
    intros Hrec Hp Hwf Hb. split; [reflexivity|].
    change (x o) with (D (Identity i) x o).
    apply (normal_wavelet_identity_all R arr scal ORC (e_cs E) (e_WW E) (e_WWr E) (e_orth E)); try assumption.
    intros L HL y. apply orc_std_wavelet. exact HL.
  Qed.

  (* the library-backed classes other than FFT / IFFT: N is the composition A.H * A, for any parameters *)
  Theorem normal_default_opaque A (x : farr) :
    library_backed A = true -> no_fft A = true -> D (normal A) x = D (adj A) (D A x).
  Proof. intros Hl Hn. apply normal_default. destruct A; try discriminate Hl; try discriminate Hn; reflexivity. Qed.
End Std.

(* ================================================================ (4) the hypotheses are simultaneously satisfiable *)
(* Exact data: the data ring is Q(i) (FourierExample.QIRing), coordinates are canonical rationals (OpaqueNufft.QCOps),
   wt = the inclusion Q -> Q(i).  numpy.fft table: w_n = -i for n = 4, -1 for n = 2, 1 otherwise — the primitive roots
   that exist in Q(i) — with the exact scalings 1/sqrt 4 = 1/2, 1/sqrt 1 = 1 and 1/n.  PyWavelets: the identity pair on
   the padded box (an orthonormal pair).  Kernels: a rational hat function for every code. *)
Definition ex_w (n : Z) : QIRing := if n =? 4 then qi 0 (-1) else if n =? 2 then qi (-1) 0 else one.
Definition ex_isc (n : Z) : QIRing := if n =? 4 then qi (1 # 2) 0 else one.
Definition ex_inv (n : Z) : QIRing := (Q2Qc (1 # Z.to_pos n), Q2Qc 0).
Definition ex_kern (t p : QCOps) : QCOps := (Q2Qc 1 - Q2Qc (Qabs.Qabs (this t)) + p)%Qc.
Definition ex_wp (code : Z) : wp QCOps :=
  if code =? 2 then WList QCOps [Q2Qc 2; Q2Qc 2; Q2Qc 2] else if code =? 3 then WScalar QCOps (Q2Qc 1)
  else if code =? 4 then WScalar QCOps (Q2Qc (5 # 4)) else WScalar QCOps (Q2Qc 4).
Definition ex_coords (tag : Z) : list Z -> QCOps := of_list (Q2Qc 0) [3; 2] [Q2Qc (1 # 2); Q2Qc 1; Q2Qc 0; Q2Qc (3 # 2); Q2Qc (-1); Q2Qc 2].

Definition ex_env : std_env QIRing QCOps :=
  mkStdEnv QIRing QCOps
    (twf QIRing ex_w) ex_isc ex_inv
    wtQ ex_coords
    (fun _ => ex_kern) ex_wp
    ex_kern (fun c => c) (Q2Qc 3) (fun c => c)
    (fun _ _ _ zsh => zsh) (fun _ _ _ _ z => z) (fun _ _ _ _ z => z) (fun wv => wv =? 1).

Lemma ex_isc_real : isc_real QIRing QCOps ex_env.
Proof. intros n _. cbn [e_isc ex_env]. unfold ex_isc. destruct (n =? 4); apply qi_eq; vm_compute; reflexivity. Qed.

Lemma ex_pywt_ok : pywt_ok QIRing QCOps ex_env /\ pywt_reconstructs_all QIRing (e_WW ex_env) (e_WWr ex_env) (e_orth ex_env).
Proof.
  split.
  - intros s ax wv l _ _ _ _ a c. reflexivity.
  - intros s ax wv l _ _ _ _ z idx _. reflexivity.
Qed.

Lemma ex_root n : n = 1 \/ n = 2 \/ n = 4 ->
  root_ok QIRing n (ex_w n) /\ mul (mul (ex_isc n) (ex_isc n)) (nR n) = one \/ n = 2.
Proof.
  intros [-> | [-> | ->]].
  - left. split; [|apply qi_eq; vm_compute; reflexivity].
    unfold root_ok. split; [lia|]. split; [apply qi_eq; vm_compute; reflexivity|].
    split; [intros m Hm; lia| apply qi_eq; vm_compute; reflexivity].
  - right. reflexivity.
  - left. split; [exact root_ok_Qi_4| exact (proj1 scalings_Qi_4)].
Qed.

(* the primitive square root of unity -1 as well (the scaling 1/sqrt 2 is irrational: only root_ok and 1/n) *)
Lemma ex_root_2 : root_ok QIRing 2 (ex_w 2).
Proof.
  unfold root_ok. split; [lia|]. split; [apply qi_eq; vm_compute; reflexivity|]. split.
  - intros m Hm. assert (m = 1) by lia. subst m. apply qi_eq; vm_compute; reflexivity.
  - apply qi_eq; vm_compute; reflexivity.
Qed.

Lemma ex_inv_ok n : n = 1 \/ n = 2 \/ n = 4 -> mul (ex_inv n) (nR n) = (one : QIRing).
Proof. intros [-> | [-> | ->]]; apply qi_eq; vm_compute; reflexivity. Qed.

(* a mixed tree through Add, Conj, Compose, Hstack, Vstack, Diag and the scalar overload, over FFT (negative / repeated
   axes), IFFT (center=False), ConvolveData ('valid', strided) with its adjoint class, Interpolate / Gridding on a
   captured coordinate array, Wavelet / InverseWavelet, NUFFT / NUFFTAdjoint, and natively modelled leaves *)
Definition ex_coord : aref := ARef 7 [3; 2].
Definition ex_tree_core : linop :=
  let F := FFT [4; 4] (Some [-1; 0; 1]) true in
  let Fi := IFFT [4; 4] (Some [-2]) false in
  let Cv := ConvolveData [4; 4] (ARef 1 [2; 3]) false (Some [1; 2]) false in       (* [4;4] -> [3;1] *)
  let I := Interpolate [4; 4] ex_coord 1 2 3 in                                     (* [4;4] -> [3] *)
  let G := Gridding [4; 4] ex_coord 1 2 3 in                                        (* [3] -> [4;4] *)
  let W := Wavelet [4; 4] (Some [-1]) 1 (Some 1) [4; 4] in
  let Wi := InverseWavelet [4; 4] (Some [-1]) 1 (Some 1) [4; 4] in
  Add [Compose [Conj F; Hstack [Compose [G; I]; op_lscale 5 (Compose [adj Cv; Cv])] (Some 0);
                Vstack [Fi; Compose [Wi; W]] (Some 0)];
       Compose [Hstack [Identity [4; 4]; Flip [4; 4] (Some [-1])] (Some (-2));
                Diag [Compose [F; Fi]; Conj (Multiply [4; 4] (MArray (ARef 2 [4])) true)] (Some 0) (Some 0);
                Vstack [Identity [4; 4]; Transpose [4; 4] (Some [-1; 0])] (Some 0)]].
Definition ex_tree_nufft : linop :=
  let N := NUFFT [4; 4] ex_coord 4 5 false in                                       (* oversamp code 4 = 5/4, width code 5 = 4 *)
  Add [ex_tree_core; Compose [NUFFTAdjoint [4; 4] ex_coord 4 5; Conj N]].

Example ex_trees_accepted :
  wf ex_tree_core = true /\ oshape_of ex_tree_core = [4; 4] /\ ishape_of ex_tree_core = [4; 4] /\
  nodes_ok' (fun L => proven_node_std ex_env L = true /\ no_nufft_node L = true) ex_tree_core /\
  wf ex_tree_nufft = true /\ nodes_ok' (fun L => proven_node_std ex_env L = true) ex_tree_nufft.
Proof. vm_compute. repeat split; reflexivity. Qed.

(* all hypotheses at once, in the exact environment: weights real, wt (m / c) = m wt (1 / c), scalings real, PyWavelets
   pair adjoint and reconstructing, and the numpy.fft facts at every length for which Q(i) has a primitive root
   (n = 1, 2, 4: roots 1, -1, -i; 1/n; for n = 1, 4 also the rational 1/sqrt n) *)
Example ex_hypotheses_hold :
  wt_real QIRing QCOps ex_env /\ wt_div_ok QIRing QCOps ex_env /\ isc_real QIRing QCOps ex_env /\
  pywt_ok QIRing QCOps ex_env /\ pywt_reconstructs_all QIRing (e_WW ex_env) (e_WWr ex_env) (e_orth ex_env) /\
  e_tw ex_env = twf QIRing ex_w /\
  (forall n, n = 1 \/ n = 2 \/ n = 4 -> root_ok QIRing n (ex_w n) /\ mul (e_inv ex_env n) (nR n) = one) /\
  (forall n, n = 1 \/ n = 4 -> mul (mul (e_isc ex_env n) (e_isc ex_env n)) (nR n) = one).
Proof.
  split; [exact wtQ_real|]. split; [exact wtQ_div|]. split; [exact ex_isc_real|].
  split; [exact (proj1 ex_pywt_ok)|]. split; [exact (proj2 ex_pywt_ok)|]. split; [reflexivity|]. split.
  - intros n Hn. split; [|apply ex_inv_ok; exact Hn].
    destruct Hn as [-> | [-> | ->]]; [|exact ex_root_2|exact root_ok_Qi_4].
    destruct (ex_root 1 (or_introl eq_refl)) as [[H _]|H]; [exact H| discriminate H].
  - intros n [-> | ->]; [apply qi_eq; vm_compute; reflexivity| exact (proj1 scalings_Qi_4)].
Qed.

(* the theorem applied: the mixed tree (FFT, IFFT, convolution, interpolation, wavelet leaves through all six
   combinators) satisfies the adjoint identity for ALL captured arrays, scalars, x and y — no hypothesis is left *)
Example ex_adjoint_of_mixed_tree (arr : Z -> list Z -> QIRing) (scal : Z -> QIRing) :
  (forall x y, inner [4; 4] (D QIRing arr scal (orc_std ex_env arr) ex_tree_core x) y =
               inner [4; 4] x (D QIRing arr scal (orc_std ex_env arr) (adj ex_tree_core) y)) /\
  adj_shape_ok ex_tree_core.
Proof.
  exact (adj_correct_std_no_nufft QIRing QCOps ex_env arr scal ex_tree_core wtQ_real ex_isc_real (proj1 ex_pywt_ok)
           (proj1 ex_trees_accepted) (proj1 (proj2 (proj2 (proj2 ex_trees_accepted))))).
Qed.

(* C04 instance: FFT.N = Identity is A^H A at length 4 in the exact environment *)
Example ex_normal_fft (arr : Z -> list Z -> QIRing) (scal : Z -> QIRing) :
  forall x o, inbox [4; 4] o ->
    D QIRing arr scal (orc_std ex_env arr) (normal (FFT [4; 4] (Some [-1; 0; 1]) true)) x o =
    D QIRing arr scal (orc_std ex_env arr) (adj (FFT [4; 4] (Some [-1; 0; 1]) true))
      (D QIRing arr scal (orc_std ex_env arr) (FFT [4; 4] (Some [-1; 0; 1]) true) x) o.
Proof.
  assert (In4 : forall n, In n [4; 4] -> n = 4) by (intros n [<-|[<-|[]]]; reflexivity).
  apply (normal_fft QIRing arr scal (orc_std ex_env arr) (e_tw ex_env) (e_isc ex_env) (e_inv ex_env) ex_w [4; 4]);
    try reflexivity; try (intros y; reflexivity).
  - intros n Hn. rewrite (In4 n Hn). exact root_ok_Qi_4.
  - intros n Hn. rewrite (In4 n Hn). exact (proj1 scalings_Qi_4).
Qed.
